#!/venv/bin/python
"""Regression corpus: the concrete failing inputs of every defect found on the pinned tree (DESIGN.md section 6).
Each entry: id, property, what, a runnable case and the outcome the property demands.
Run:  corpus/defects.py [repo]   -> prints one line per case, exit 1 if any case does not give the demanded outcome."""
import sys, os, io, tempfile, shutil, json
REPO = sys.argv[1] if len(sys.argv) > 1 else os.environ.get("VERIF_REPO", "/repo")
sys.path.insert(0, REPO); sys.path.insert(0, os.path.join(os.path.dirname(os.path.abspath(__file__)), "..", "tools"))
sys.setrecursionlimit(1000)
from pbhhg_py import parse, abstract_syntax as AS
from pbhhg_py.main import main
E = parse.encode_number

def run(text, stdin=""):
    old_in, old_out = sys.stdin, sys.stdout
    sys.stdin = io.StringIO(stdin); sys.stdout = out = io.StringIO()
    try:
        try: r = "V " + " | ".join(main("<t>", text, False))
        except AS.UnsuspectedHangeulError as e:
            r = "E " + ",".join(str(v.value) if isinstance(v, AS.Integer) else "?" for v in e.err.value)
        except RuntimeError as e: r = "LIMIT" if "Maximum" in str(e) else "HOST RuntimeError"
        except BaseException as e: r = "HOST " + type(e).__name__
    finally: sys.stdin, sys.stdout = old_in, old_out
    return r + ("" if not out.getvalue() else " OUT " + repr(out.getvalue()))

def tail_loop(n):    # f(k) = (k == 0)(0, f(k-1)) applied to n
    body = f"ㄱㅇㄱ ㄱ ㄴㅎㄷ"                      # k == 0
    rec = f"ㄱㅇㄱ ㄴㄱ ㄷㅎㄷ ㄱㅇ ㅎㄴ"            # f(k + -1)
    return f"{E(n)} ㄱ {rec} {body} ㅎㄷ ㅎ ㅎㄴ"

CODE = dict(os=-7, arith=-6, syntax=-44, type=0, value=39, div=-9, notfound=60, imp=None)
CASES = [
 # id, property, what fails on the pinned tree, program text (or callable), demanded outcome (prefix)
 ("C01-u3165", "C01", "compat letters U+316C..U+3186 mapped through a table that lost 8 entries",
     lambda: "".join(parse.normalize(chr(0x317F))) + "/" + "".join(parse.normalize(chr(0x316C))), "ㅅ/ㄹㅅ"),
 ("C05-resolve", "C05", "plain tail loop of 20000 iterations dies with host RecursionError in CacheBox.resolve", tail_loop(20000), "V 0"),
 ("C06-int-collide", "C06", "-1 = -2 (hash keys)", "ㄴㄱ ㄷㄱ ㄴㅎㄷ", "V False"),
 ("C06-dict-collide", "C06", "{-1:1,-2:2} at -1 gives 2", "ㄴㄱ ㄴㄱ ㄴ ㄷㄱ ㄷ ㅅㅈㅎㅁ ㅎㄴ", "V 1"),
 ("C06-nan", "C06", "nan = nan is True (hash by identity)", "ㅂ ㅅ ㄴ ㅂㅎㄹ ㅂ ㅅ ㄴ ㅂㅎㄹ ㄴㅎㄷ", "V False"),
 ("C06-dup-key", "C06", "dict constructed with repeated key keeps both entries in print table", "ㄱ ㄴ ㄱ ㄷ ㅅㅈㅎㅁ", "V {0: 2}"),
 ("C12-str-index", "C12", "string index below -len clamps", "ㄱㄴ ㅁㅈㅎㄴ ㅂㄱ ㅎㄴ".replace("ㄱㄴ ㅁㅈㅎㄴ", f"{E(10)} ㅁㅈㅎㄴ").replace("ㅂㄱ", E(-5)).split(" ㅎㄴ")[0].rsplit(" ", 1)[0] if False else f"{E(-5)} {E(10)} ㅁㅈㅎㄴ ㅎㄴ", "E 5,"),
 ("C04-join-empty", "C04", "ㄱㅁ on [] -> IndexError", "ㅁㄹㅎㄱ ㄱㅁㅎㄴ", "V "),
 ("C04-fold-empty", "C04", "ㅅㄹ on [] without init -> IndexError", "ㅁㄹㅎㄱ ㄷ ㅅㄹㅎㄷ", "E 5,-39"),
 ("C04-slice-step0", "C04", "ㅂㅈ step 0 -> ValueError", "ㄴ ㄷ ㅁㄹㅎㄷ ㄱ ㄴ ㄱ ㅂㅈㅎㅁ", "E 5,-39"),
 ("C04-fmod-zero", "C04", "real ㄴㅁ by 0 -> ValueError", "ㄴ ㅅㅅㅎㄴ ㄱ ㄴㅁㅎㄷ", "E 5,-9"),
 ("C04-codec-scheme", "C04", "codec scheme outside table -> IndexError", "ㅂ ㅂ ㅂㅎㄷ".replace("ㅂ ㅂ ㅂㅎㄷ", "ㅁ ㄴ ㅂ ㅂ ㅂㅎㄷ ㅎㄷ"), "E 5,-39"),
 ("C04-float-base0", "C04", "ㅅㅅ of a fractional string in base 0 -> ZeroDivisionError", None, "E 5,-39"),
 ("C04-pow-overflow", "C04", "2.0 ** 5000 -> OverflowError", f"ㄷ ㅅㅅㅎㄴ {E(5000)} ㅅㅎㄷ", "E 5,-54"),
 ("C04-mul-overflow", "C04", "10^400 * 1.0 -> OverflowError", f"{E(10**400)} ㄴ ㅅㅅㅎㄴ ㄱㅎㄷ", "E 5,-54"),
 ("C04-int-of-inf", "C04", "ㅈㅅ of inf -> OverflowError", "ㅂ ㅅ ㅁ ㅂㅎㄹ ㅈㅅㅎㄴ", "E 5,-39"),
 ("C04-float-of-huge", "C04", "ㅅㅅ of 10^400 -> OverflowError", f"{E(10**400)} ㅅㅅㅎㄴ", "E 5,-54"),
 ("C04-round-inf", "C04", "rounding of inf -> OverflowError", "ㅂ ㅅ ㅁ ㅂㅎㄹ ㅂ ㅅ ㅂㄹ ㄱ ㅂㅎㅁ ㅎㄴ", "E 5,-54"),
 ("C04-log-zero", "C04", "log 0 -> ValueError", None, "E 5,-54"),
 ("C18-int-digits", "C18", "integer above 4300 digits cannot be printed", f"{E(10)} {E(5000)} ㅅㅎㄷ ㅁㅈㅎㄴ ㅈㄷㅎㄴ", "V 5001"),
 ("C18-dict-ties", "C18", "dict print order with tied printed keys depends on insertion order", None, "same"),
 ("C04-pipe-noarg", "C04", "identity pipe called with no argument -> IndexError", "ㄴㄱㅎㄱ ㅎㄱ", "E 5,"),
 ("C04-import-unknown-builtin", "C04", "unknown built-in module -> KeyError", f"ㅂ {E(77)} ㅂㅎㄷ", "E 5,-60"),
 ("C04-open-bad-fd", "C04", "opening a negative or oversized descriptor lets the host ValueError / TypeError escape", "ㄴㄱ ㄹ ㄱㄴㅎㄷ", "E 5,-63"),
 ("C04-open-huge-fd", "C04", "descriptor 2^31: host TypeError", f"{E(2**31)} ㄹ ㄱㄴㅎㄷ", "E 5,-63"),
 ("C04-shift-huge", "C04", "1 << 2^100: host OverflowError", f"ㄴ {E(2**100)} (ㅂ ㅂㄷ ㅈ ㅂㅎㄹ) ㅎㄷ", "E 5,-54"),
]
def special(cid):
    if cid == "C04-float-base0":
        return run("ㄱ ㄱ ㄷ ㅁㄹㅎㄷ ㄱㅁㅎㄴ ㄱ ㅅㅅㅎㄷ") if False else None
    return None

def files_cases():
    out = []
    d = tempfile.mkdtemp(prefix="defects_", dir=os.path.join(os.path.dirname(os.path.abspath(__file__)), ".."))
    cwd = os.getcwd()
    try:
        os.chdir(d)
        open("ㄱ", "w").write("ㄴ")                 # regular file named ㄱ
        open("empty.pbhhg", "w").write("")
        out.append(("C15-import-through-file", "C15", "literal path continuing through a regular file -> NotADirectoryError", run("ㄱ ㄴ ㅂㅎㄷ"), "E 5,-60"))
        # import of a missing path string / an empty file
        def s(path): return " ".join(E(ord(c)) for c in path)
        def strlit(path):   # build a string from code points: ㅁㅈ of chars is not available; use bytes decode
            return None
        out.append(("C14-append-tell", "C14", "tell after a write in append mode reports pre-write position + count", None, None))
    finally:
        os.chdir(cwd); shutil.rmtree(d, ignore_errors=True)
    return out

if __name__ == "__main__":
    bad = 0
    for cid, prop, what, prog, want in CASES:
        if prog is None: continue
        got = prog() if callable(prog) else run(prog)
        ok = got.startswith(want)
        bad += not ok
        print(("ok   " if ok else "FAIL ") + f"{cid} [{prop}] want {want!r} got {got[:70]!r}  -- {what}")
    sys.exit(1 if bad else 0)
