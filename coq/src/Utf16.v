(* C16: UTF-16 (RFC 2781) and UTF-32 written independently of any codec library: code units, surrogate pairs, serialisation in either byte
   order, the byte-order mark written when no order is requested and honoured when decoding; STRICT decoders (lone or reversed surrogates,
   odd lengths, values above U+10FFFF are rejected); round trips for every string of scalar values. *)
From Coq Require Import ZArith List Bool Lia.
Import ListNotations.
Require Import Utf.
Open Scope Z_scope.
Ltac Zify.zify_post_hook ::= Z.to_euclidean_division_equations.

(* ---------- code units ---------- *)
Definition units1 (c:Z) : list Z := if c <? 0x10000 then [c] else [0xD800 + (c - 0x10000) / 1024; 0xDC00 + (c - 0x10000) mod 1024].
Definition utf16_units (s:list Z) : list Z := flat_map units1 s.
Definition hi_sur (u:Z) : bool := (0xD800 <=? u) && (u <=? 0xDBFF).
Definition lo_sur (u:Z) : bool := (0xDC00 <=? u) && (u <=? 0xDFFF).
Fixpoint utf16_of_units (l:list Z) : option (list Z) :=
  match l with
  | [] => Some []
  | u :: r =>
      if hi_sur u then
        match r with
        | v :: r' => if lo_sur v then consm (0x10000 + (u - 0xD800) * 1024 + (v - 0xDC00)) (utf16_of_units r') else None
        | [] => None end
      else if lo_sur u then None
      else if (0 <=? u) && (u <? 0x10000) then consm u (utf16_of_units r) else None
  end.

Lemma units_roundtrip1 c rest : scalar c -> utf16_of_units (units1 c ++ rest) = consm c (utf16_of_units rest).
Proof.
  intros [[H0 H1] Hs]. unfold units1.
  destruct (c <? 0x10000) eqn:E; [apply Z.ltb_lt in E|apply Z.ltb_ge in E]; cbn [app utf16_of_units].
  - replace (hi_sur c) with false by (symmetry; unfold hi_sur; apply andb_false_iff; destruct (Z_lt_ge_dec c 0xD800); [left; apply Z.leb_gt; lia|right; apply Z.leb_gt; lia]).
    replace (lo_sur c) with false by (symmetry; unfold lo_sur; apply andb_false_iff; destruct (Z_lt_ge_dec c 0xDC00); [left; apply Z.leb_gt; lia|right; apply Z.leb_gt; lia]).
    replace ((0 <=? c) && (c <? 65536)) with true by (symmetry; apply andb_true_iff; split; [apply Z.leb_le|apply Z.ltb_lt]; lia).
    reflexivity.
  - replace (hi_sur (55296 + (c - 65536) / 1024)) with true by (symmetry; unfold hi_sur; apply andb_true_iff; split; apply Z.leb_le; lia).
    replace (lo_sur (56320 + (c - 65536) mod 1024)) with true by (symmetry; unfold lo_sur; apply andb_true_iff; split; apply Z.leb_le; lia).
    f_equal. lia.
Qed.
Theorem utf16_units_roundtrip : forall s, Forall scalar s -> utf16_of_units (utf16_units s) = Some s.
Proof.
  induction 1 as [|c s Hc Hs IH]; cbn [utf16_units flat_map]; auto.
  rewrite units_roundtrip1 by auto. fold (utf16_units s). rewrite IH. reflexivity.
Qed.
Theorem utf16_units_range c : scalar c -> Forall (fun u => 0 <= u < 65536) (units1 c).
Proof.
  intros [[H0 H1] Hs]. unfold units1. destruct (c <? 0x10000) eqn:E; [apply Z.ltb_lt in E|apply Z.ltb_ge in E]; repeat constructor; lia.
Qed.
(* a character outside the Basic Multilingual Plane is exactly one surrogate pair, high then low *)
Theorem astral_is_a_pair c : 0x10000 <= c < 0x110000 ->
  exists hi lo, units1 c = [hi; lo] /\ 0xD800 <= hi <= 0xDBFF /\ 0xDC00 <= lo <= 0xDFFF /\ c = 0x10000 + (hi - 0xD800) * 1024 + (lo - 0xDC00).
Proof.
  intros H. unfold units1. replace (c <? 65536) with false by (symmetry; apply Z.ltb_ge; lia).
  eexists; eexists; split; [reflexivity|]. lia.
Qed.

(* ---------- bytes: w bytes per unit (w = 2 for UTF-16, 4 for UTF-32), little- or big-endian ---------- *)
Definition le2 (u:Z) : list Z := [u mod 256; u / 256].
Definition le4 (u:Z) : list Z := [u mod 256; (u / 256) mod 256; (u / 65536) mod 256; u / 16777216].
Definition ser (big:bool) (le:Z -> list Z) (us:list Z) : list Z := flat_map (fun u => if big then rev (le u) else le u) us.
Definition byte (b:Z) : bool := (0 <=? b) && (b <? 256).
Fixpoint de2 (big:bool) (l:list Z) : option (list Z) :=
  match l with
  | [] => Some []
  | a :: b :: r => if byte a && byte b then consm (if big then a * 256 + b else a + b * 256) (de2 big r) else None
  | _ => None end.
Fixpoint de4 (big:bool) (l:list Z) : option (list Z) :=
  match l with
  | [] => Some []
  | a :: b :: c :: d :: r =>
      if byte a && byte b && byte c && byte d
      then consm (if big then ((a * 256 + b) * 256 + c) * 256 + d else a + 256 * (b + 256 * (c + 256 * d))) (de4 big r) else None
  | _ => None end.
Lemma byte_true b : 0 <= b < 256 -> byte b = true.
Proof. intros H. unfold byte. apply andb_true_iff; split; [apply Z.leb_le|apply Z.ltb_lt]; lia. Qed.
Lemma de2_ser big : forall us, Forall (fun u => 0 <= u < 65536) us -> de2 big (ser big le2 us) = Some us.
Proof.
  destruct big; induction 1 as [|u us Hu Hs IH]; try reflexivity; unfold ser in *; cbn [flat_map];
    [change (rev (le2 u)) with [u / 256; u mod 256] | change (le2 u) with [u mod 256; u / 256]]; cbn [app de2];
    rewrite !byte_true by lia; cbn [andb]; rewrite IH; cbn [consm]; f_equal; f_equal; lia.
Qed.
Lemma de4_ser big : forall us, Forall (fun u => 0 <= u < 0x110000) us -> de4 big (ser big le4 us) = Some us.
Proof.
  destruct big; induction 1 as [|u us Hu Hs IH]; try reflexivity; unfold ser in *; cbn [flat_map];
    [change (rev (le4 u)) with [u / 16777216; (u / 65536) mod 256; (u / 256) mod 256; u mod 256] | change (le4 u) with [u mod 256; (u / 256) mod 256; (u / 65536) mod 256; u / 16777216]]; cbn [app de4];
    rewrite !byte_true by lia; cbn [andb]; rewrite IH; cbn [consm]; f_equal; f_equal; lia.
Qed.

(* ---------- UTF-16 / UTF-32 with a requested byte order ---------- *)
Definition bindo {A B} (o:option A) (f:A -> option B) : option B := match o with Some a => f a | None => None end.
Definition utf16_encode (big:bool) (s:list Z) : list Z := ser big le2 (utf16_units s).
Definition utf16_decode (big:bool) (l:list Z) : option (list Z) := bindo (de2 big l) utf16_of_units.
Definition scalarb (c:Z) : bool := (0 <=? c) && (c <? 0x110000) && negb ((0xD800 <=? c) && (c <=? 0xDFFF)).
Definition utf32_encode (big:bool) (s:list Z) : list Z := ser big le4 s.
Definition utf32_decode (big:bool) (l:list Z) : option (list Z) := bindo (de4 big l) (fun cs => if forallb scalarb cs then Some cs else None).

Lemma units_all_range s : Forall scalar s -> Forall (fun u => 0 <= u < 65536) (utf16_units s).
Proof. induction 1 as [|c s Hc Hs IH]; cbn [utf16_units flat_map]; [constructor|]. apply Forall_app. split; [apply utf16_units_range; auto|exact IH]. Qed.
Theorem utf16_roundtrip big s : Forall scalar s -> utf16_decode big (utf16_encode big s) = Some s.
Proof. intros H. unfold utf16_decode, utf16_encode. rewrite de2_ser by (apply units_all_range; auto). cbn [bindo]. apply utf16_units_roundtrip; auto. Qed.
Lemma scalarb_true c : scalar c -> scalarb c = true.
Proof.
  intros [[H0 H1] Hs]. unfold scalarb. apply andb_true_iff; split; [apply andb_true_iff; split; [apply Z.leb_le|apply Z.ltb_lt]; lia|].
  apply negb_true_iff. apply andb_false_iff. destruct (Z_lt_ge_dec c 0xD800); [left; apply Z.leb_gt; lia|right; apply Z.leb_gt; lia].
Qed.
Theorem utf32_roundtrip big s : Forall scalar s -> utf32_decode big (utf32_encode big s) = Some s.
Proof.
  intros H. unfold utf32_decode, utf32_encode. rewrite de4_ser by (eapply Forall_impl; [|exact H]; intros c [[? ?] _]; lia). cbn [bindo].
  replace (forallb scalarb s) with true; auto. symmetry. apply forallb_forall. intros c Hc. apply scalarb_true. rewrite Forall_forall in H. auto.
Qed.
(* big-endian is the unit-wise byte reversal of little-endian *)
Theorem utf16_big_is_reversed_units u : ser true le2 [u] = rev (ser false le2 [u]).
Proof. unfold ser. cbn [flat_map]. rewrite !app_nil_r. reflexivity. Qed.
Theorem utf32_big_is_reversed_units u : ser true le4 [u] = rev (ser false le4 [u]).
Proof. unfold ser. cbn [flat_map]. rewrite !app_nil_r. reflexivity. Qed.
(* what the decoders reject *)
Theorem utf16_rejects_lone_low u r : lo_sur u = true -> utf16_of_units (u :: r) = None.
Proof. intros H. cbn [utf16_of_units]. replace (hi_sur u) with false; [rewrite H; reflexivity|]. unfold lo_sur, hi_sur in *. apply andb_true_iff in H. destruct H as [A B]. apply Z.leb_le in A. symmetry. apply andb_false_iff. right. apply Z.leb_gt. lia. Qed.
Theorem utf16_rejects_unpaired_high u r : hi_sur u = true -> (match r with v :: _ => lo_sur v = false | [] => True end) -> utf16_of_units (u :: r) = None.
Proof. intros H Hr. cbn [utf16_of_units]. rewrite H. destruct r as [|v r']; auto. rewrite Hr. reflexivity. Qed.
Theorem utf16_rejects_odd_length big a : de2 big [a] = None. Proof. reflexivity. Qed.
Theorem utf32_rejects_non_scalar big c : 0 <= c < 0x110000 -> scalarb c = false -> utf32_decode big (ser big le4 [c]) = None.
Proof. intros H S. unfold utf32_decode. rewrite de4_ser by (repeat constructor; lia). cbn [bindo forallb]. rewrite S. reflexivity. Qed.

(* ---------- no byte order requested: a byte-order mark is written (little-endian follows) and honoured when reading ---------- *)
Definition bom : Z := 0xFEFF.
Definition utf16_encode_bom (s:list Z) : list Z := ser false le2 [bom] ++ utf16_encode false s.
Definition utf16_decode_bom (l:list Z) : option (list Z) :=
  match l with
  | 0xFF :: 0xFE :: r => utf16_decode false r
  | 0xFE :: 0xFF :: r => utf16_decode true r
  | _ => utf16_decode false l end.
Definition utf32_encode_bom (s:list Z) : list Z := ser false le4 [bom] ++ utf32_encode false s.
Definition utf32_decode_bom (l:list Z) : option (list Z) :=
  match l with
  | 0xFF :: 0xFE :: 0 :: 0 :: r => utf32_decode false r
  | 0 :: 0 :: 0xFE :: 0xFF :: r => utf32_decode true r
  | _ => utf32_decode false l end.
Theorem utf16_bom_bytes s : exists r, utf16_encode_bom s = 0xFF :: 0xFE :: r /\ r = utf16_encode false s.
Proof. eexists. split; reflexivity. Qed.
Theorem utf16_bom_roundtrip s : Forall scalar s -> utf16_decode_bom (utf16_encode_bom s) = Some s.
Proof. intros H. change (utf16_encode_bom s) with (0xFF :: 0xFE :: utf16_encode false s). cbn [utf16_decode_bom]. apply utf16_roundtrip; auto. Qed.
Theorem utf16_bom_big_accepted s : Forall scalar s -> utf16_decode_bom (ser true le2 [bom] ++ utf16_encode true s) = Some s.
Proof. intros H. change (ser true le2 [bom] ++ utf16_encode true s) with (0xFE :: 0xFF :: utf16_encode true s). cbn [utf16_decode_bom]. apply utf16_roundtrip; auto. Qed.
Theorem utf32_bom_roundtrip s : Forall scalar s -> utf32_decode_bom (utf32_encode_bom s) = Some s.
Proof. intros H. change (utf32_encode_bom s) with (0xFF :: 0xFE :: 0 :: 0 :: utf32_encode false s). cbn [utf32_decode_bom]. apply utf32_roundtrip; auto. Qed.
Theorem utf32_bom_big_accepted s : Forall scalar s -> utf32_decode_bom (ser true le4 [bom] ++ utf32_encode true s) = Some s.
Proof. intros H. change (ser true le4 [bom] ++ utf32_encode true s) with (0 :: 0 :: 0xFE :: 0xFF :: utf32_encode true s). cbn [utf32_decode_bom]. apply utf32_roundtrip; auto. Qed.
Print Assumptions utf16_roundtrip. Print Assumptions utf32_roundtrip. Print Assumptions utf16_bom_roundtrip. Print Assumptions utf32_bom_roundtrip.
