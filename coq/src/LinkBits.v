(* the operator table and _shift_left regenerated from pbhhg_py/modules/bitwise.py are the bit operations proved in Bits.v *)
From Coq Require Import ZArith NArith List Bool Lia.
Import ListNotations.
Require Import Base Builtins Bits.
Require GenBitwise.
Open Scope Z_scope.
Theorem shift_spec a n : (0 <= n -> GenBitwise.gen_shift_left a n = a * 2 ^ n) /\ (n < 0 -> GenBitwise.gen_shift_left a n = a / 2 ^ (- n)).
Proof.
  unfold GenBitwise.gen_shift_left. split; intros H.
  - assert (n <? 0 = false) by (apply Z.ltb_ge; lia). rewrite H0. apply Z.shiftl_mul_pow2; lia.
  - assert (n <? 0 = true) by (apply Z.ltb_lt; lia). rewrite H0. apply Z.shiftr_div_pow2; lia.
Qed.
Lemma model_module_name : GenBitwise.gen_bitwise_module = m_bitwise. Proof. reflexivity. Qed.
Theorem gen_table_is_bw k x y : In k [0; 2; 5; 7] -> GenBitwise.gen_bitwise_op k x y = Some (bw k x y).
Proof. intros [<-|[<-|[<-|[<-|[]]]]]; reflexivity. Qed.
Theorem gen_table_not x y : GenBitwise.gen_bitwise_op 4 x y = Some (Z.lnot x). Proof. reflexivity. Qed.
Theorem gen_table_keys k x y : ~ In k [0; 2; 4; 5; 7] -> GenBitwise.gen_bitwise_op k x y = None.
Proof.
  intros H. unfold GenBitwise.gen_bitwise_op.
  destruct (k =? 0) eqn:E0; [apply Z.eqb_eq in E0; subst; exfalso; apply H; simpl; auto|].
  destruct (k =? 2) eqn:E2; [apply Z.eqb_eq in E2; subst; exfalso; apply H; simpl; auto|].
  destruct (k =? 4) eqn:E4; [apply Z.eqb_eq in E4; subst; exfalso; apply H; simpl; auto|].
  destruct (k =? 5) eqn:E5; [apply Z.eqb_eq in E5; subst; exfalso; apply H; simpl; auto 6|].
  destruct (k =? 7) eqn:E7; [apply Z.eqb_eq in E7; subst; exfalso; apply H; simpl; auto 7|]. reflexivity.
Qed.
Lemma gen_arities : GenBitwise.gen_bitwise_arity = [(0, 2%nat); (2, 2%nat); (4, 1%nat); (5, 2%nat); (7, 2%nat)]. Proof. reflexivity. Qed.
