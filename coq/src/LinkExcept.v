(* C04: the except clauses of the source, REGENERATED (GenKinds.gen_except_clauses) and compared with the reviewed list.  Kept apart from LinkKinds.v so
   that only C04 depends on it. *)
From Coq Require Import String List.
Import ListNotations.
Require GenKinds.
Open Scope string_scope.

(* every place where a host exception is caught - and turned into a language-level exception, a value, or passed on: reviewed clause by clause
   (each host failure a guarded call can raise is named; byte.py's converter catches Exception on purpose: an unknown encoding, a refused value, a
   width the host cannot allocate).  A narrowed, widened, new or removed clause breaks the equality and has to be looked at. *)
Definition audited_except_clauses : list (string * string * string * string) := [("parse.py", "parse_token", "IndexError", "raise UnsuspectedHangeulSyntaxError");
  ("parse.py", "parse_token", "IndexError", "raise UnsuspectedHangeulSyntaxError");
  ("parse.py", "parse_token", "IndexError", "raise UnsuspectedHangeulSyntaxError");
  ("parse.py", "parse_token", "IndexError", "raise UnsuspectedHangeulSyntaxError");
  ("interpret.py", "StackFrameBase.communicate", "StopIteration", "return");
  ("interpret.py", "StackFrameBase.communicate", "UnsuspectedHangeulError", "return");
  ("interpret.py", "StackFrameBase.communicate", "RecursionError", "raise RuntimeError");
  ("interpret.py", "interpret", "IndexError", "raise UnsuspectedHangeulOutOfRangeError");
  ("interpret.py", "interpret", "IndexError", "raise UnsuspectedHangeulOutOfRangeError");
  ("interpret.py", "proc_functional._proc_dict", "KeyError", "assign; raise UnsuspectedHangeulNotFoundError");
  ("interpret.py", "proc_functional._proc_seq", "IndexError", "raise UnsuspectedHangeulOutOfRangeError");
  ("builtins/arithmetics.py", "build_tbl._multiply", "OverflowError", "raise UnsuspectedHangeulArithmeticError");
  ("builtins/arithmetics.py", "build_tbl._add", "OverflowError", "raise UnsuspectedHangeulArithmeticError");
  ("builtins/arithmetics.py", "build_tbl._exponentiate", "ZeroDivisionError", "raise UnsuspectedHangeulDivisionError");
  ("builtins/arithmetics.py", "build_tbl._exponentiate", "OverflowError", "raise UnsuspectedHangeulArithmeticError");
  ("builtins/arithmetics.py", "build_tbl._exponentiate", "ValueError", "raise UnsuspectedHangeulArithmeticError");
  ("builtins/arithmetics.py", "build_tbl._integer_division", "ZeroDivisionError", "raise UnsuspectedHangeulDivisionError");
  ("builtins/arithmetics.py", "build_tbl._integer_division", "OverflowError", "raise UnsuspectedHangeulArithmeticError");
  ("builtins/arithmetics.py", "build_tbl._remainder", "ZeroDivisionError", "raise UnsuspectedHangeulDivisionError");
  ("builtins/arithmetics.py", "build_tbl._remainder", "ValueError", "if; raise UnsuspectedHangeulArithmeticError");
  ("builtins/arithmetics.py", "build_tbl._remainder", "OverflowError", "raise UnsuspectedHangeulArithmeticError");
  ("builtins/constructors.py", "build_tbl._integer", "(OverflowError, ValueError)", "raise UnsuspectedHangeulValueError");
  ("builtins/constructors.py", "build_tbl._integer", "ValueError", "raise UnsuspectedHangeulValueError");
  ("builtins/constructors.py", "build_tbl._float", "OverflowError", "raise UnsuspectedHangeulArithmeticError");
  ("builtins/constructors.py", "build_tbl._float", "ValueError", "raise UnsuspectedHangeulValueError");
  ("builtins/constructors.py", "build_tbl._float", "(ValueError, ZeroDivisionError, OverflowError)", "raise UnsuspectedHangeulValueError");
  ("builtins/constructors.py", "build_tbl._complex", "OverflowError", "raise UnsuspectedHangeulArithmeticError");
  ("builtins/constructors.py", "build_tbl._complex", "ValueError", "raise UnsuspectedHangeulValueError");
  ("builtins/control.py", "build_tbl._try", "UnsuspectedHangeulError", "assign; return");
  ("builtins/io.py", "File.__call__", "KeyError", "raise UnsuspectedHangeulValueError");
  ("builtins/io.py", "File.__call__", "OSError", "raise UnsuspectedHangeulOSError");
  ("builtins/io.py", "File._close._fn", "(OSError, ValueError)", "raise _file_error");
  ("builtins/io.py", "File._read._fn", "(OSError, ValueError, OverflowError)", "raise _file_error");
  ("builtins/io.py", "File._write._fn", "(OSError, ValueError)", "raise _file_error");
  ("builtins/io.py", "File._seek_or_tell._fn", "(OSError, ValueError)", "raise _file_error");
  ("builtins/io.py", "File._seek_or_tell", "KeyError", "raise UnsuspectedHangeulValueError");
  ("builtins/io.py", "File._seek_or_tell._fn", "(OSError, ValueError, OverflowError)", "raise _file_error");
  ("builtins/io.py", "File._truncate._fn", "(OSError, ValueError, OverflowError)", "raise _file_error");
  ("builtins/io.py", "_input._fn", "EOFError", "return");
  ("builtins/io.py", "_input._fn", "OSError", "raise UnsuspectedHangeulOSError");
  ("builtins/io.py", "_print._fn", "OSError", "raise UnsuspectedHangeulOSError");
  ("builtins/io.py", "_file", "KeyError", "raise UnsuspectedHangeulValueError");
  ("builtins/io.py", "_file._fn", "(OSError, ValueError, TypeError, OverflowError)", "raise _file_error");
  ("builtins/io.py", "build_tbl._bind._fn", "UnsuspectedHangeulError", "if; assign; assign; expr; return");
  ("builtins/module.py", "_get_module_from_registry", "OSError", "continue");
  ("builtins/module.py", "_load_from_path", "OSError", "raise UnsuspectedHangeulOSError");
  ("builtins/module.py", "_load_from_path", "ValueError", "raise UnsuspectedHangeulImportError");
  ("builtins/module.py", "_load_from_literal", "KeyError", "raise UnsuspectedHangeulNotFoundError");
  ("builtins/module.py", "_matches_literal", "ValueError", "return");
  ("modules/bitwise.py", "build_tbl._wrap._proc", "(OverflowError, MemoryError)", "raise UnsuspectedHangeulArithmeticError");
  ("modules/byte.py", "Codec.__call__", "UnsuspectedHangeulError", "raise err");
  ("modules/byte.py", "Codec.__call__", "Exception", "raise UnsuspectedHangeulValueError");
  ("modules/math.py", "build_tbl._wrap._proc", "(OverflowError, ValueError)", "raise UnsuspectedHangeulArithmeticError");
  ("modules/math.py", "build_tbl._wrap2._proc", "(TypeError, ValueError, AssertionError, OverflowError)", "try");
  ("modules/math.py", "build_tbl._wrap2._proc", "(OverflowError, ValueError)", "raise UnsuspectedHangeulArithmeticError")].
Theorem except_clauses_audited : GenKinds.gen_except_clauses = audited_except_clauses. Proof. reflexivity. Qed.
Print Assumptions except_clauses_audited.
