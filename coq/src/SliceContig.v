(* C12: a slice with step 1 is the contiguous segment: for 0 <= a <= b <= length, positions a .. b-1 in order, i.e. firstn (b - a) (skipn a l);
   hence the full slice is the sequence itself, a prefix slice followed by the matching suffix slice is the sequence (slices tile),
   and a slice of k positions has exactly k elements. *)
From Coq Require Import ZArith List Bool Lia.
Import ListNotations.
Require Import Base Strings Builtins.
Open Scope Z_scope.

Lemma skipn_nth_cons {A} (l:list A) : forall a x, nth_error l a = Some x -> skipn a l = x :: skipn (S a) l.
Proof.
  induction l as [|y l IH]; intros a x H.
  - destruct a; discriminate.
  - destruct a as [|a]; cbn in H. { inversion H. reflexivity. } apply (IH a x H).
Qed.
Lemma segment_by_positions {A} (l:list A) : forall n a, (a + n <= length l)%nat ->
  flat_map (fun k => match nth_error l k with Some x => [x] | None => [] end) (seq a n) = firstn n (skipn a l).
Proof.
  induction n as [|n IH]; intros a H. { reflexivity. }
  cbn [seq flat_map]. destruct (nth_error l a) as [x|] eqn:E.
  - rewrite (skipn_nth_cons l a x E). cbn [firstn app]. f_equal. apply IH. lia.
  - apply nth_error_None in E. lia.
Qed.
Lemma flat_map_map {A B C} (f:B -> list C) (g:A -> B) (l:list A) : flat_map f (map g l) = flat_map (fun x => f (g x)) l.
Proof. induction l as [|x l IH]; cbn; [reflexivity|rewrite IH; reflexivity]. Qed.
Lemma seq_add_map n : forall a, seq a n = map (Nat.add a) (seq 0 n).
Proof.
  induction n as [|n IH]; intros a. { reflexivity. }
  cbn [seq map]. rewrite Nat.add_0_r. f_equal. rewrite (IH (S a)), (IH 1%nat), map_map. apply map_ext. intros k. lia.
Qed.

Lemma skipn_twice {A} : forall y x (l:list A), skipn x (skipn y l) = skipn (x + y) l.
Proof.
  induction y as [|y IH]; intros x l. { rewrite Nat.add_0_r. reflexivity. }
  rewrite Nat.add_succ_r. destruct l as [|z l]. { cbn [skipn]. destruct x; reflexivity. } cbn [skipn]. apply IH.
Qed.

Theorem contiguous_slice {A} (l:list A) (a b : Z) : 0 <= a <= b -> b <= Z.of_nat (length l) ->
  slice_list l a b 1 = firstn (Z.to_nat (b - a)) (skipn (Z.to_nat a) l).
Proof.
  intros Hab Hb. unfold slice_list. set (len := Z.of_nat (length l)) in *.
  assert (Ca : clamp len a 1 = a).
  { unfold clamp. destruct (a <? 0) eqn:E1; [apply Z.ltb_lt in E1; lia|]. destruct (a >=? len) eqn:E2; [|reflexivity].
    apply Z.geb_le in E2. cbn. lia. }
  assert (Cb : clamp len b 1 = b).
  { unfold clamp. destruct (b <? 0) eqn:E1; [apply Z.ltb_lt in E1; lia|]. destruct (b >=? len) eqn:E2; [|reflexivity].
    apply Z.geb_le in E2. cbn. lia. }
  rewrite Ca, Cb.
  assert (Sl : slice_len a b 1 = b - a).
  { unfold slice_len. cbn [Z.ltb Z.compare]. destruct (a <? b) eqn:E; [apply Z.ltb_lt in E|apply Z.ltb_ge in E]; [rewrite Z.div_1_r; lia|lia]. }
  rewrite Sl. rewrite <- (segment_by_positions l (Z.to_nat (b - a)) (Z.to_nat a)) by lia.
  rewrite (seq_add_map _ (Z.to_nat a)), flat_map_map. apply flat_map_ext. intros k.
  replace (Z.to_nat (a + Z.of_nat k * 1)) with (Z.to_nat a + k)%nat by lia. reflexivity.
Qed.
Theorem full_slice_is_identity {A} (l:list A) : slice_list l 0 (Z.of_nat (length l)) 1 = l.
Proof. rewrite contiguous_slice by lia. rewrite Z.sub_0_r, Nat2Z.id. cbn [Z.to_nat skipn]. apply firstn_all. Qed.
Theorem slices_tile {A} (l:list A) (a b c : Z) : 0 <= a <= b -> b <= c -> c <= Z.of_nat (length l) ->
  slice_list l a b 1 ++ slice_list l b c 1 = slice_list l a c 1.
Proof.
  intros H1 H2 H3. rewrite !contiguous_slice by lia.
  replace (Z.to_nat (c - a)) with (Z.to_nat (b - a) + Z.to_nat (c - b))%nat by lia.
  replace (Z.to_nat b) with (Z.to_nat (b - a) + Z.to_nat a)%nat by lia.
  rewrite <- skipn_twice. set (m := skipn (Z.to_nat a) l). set (p := Z.to_nat (b - a)).
  rewrite <- (firstn_skipn p m) at 3. rewrite firstn_app, firstn_firstn.
  assert (L : (p <= length m)%nat) by (unfold m, p; rewrite skipn_length; lia).
  rewrite firstn_length. replace (Init.Nat.min (p + Z.to_nat (c - b)) p) with p by lia.
  replace (p + Z.to_nat (c - b) - Nat.min p (length m))%nat with (Z.to_nat (c - b)) by lia. reflexivity.
Qed.
Theorem contiguous_slice_length {A} (l:list A) (a b : Z) : 0 <= a <= b -> b <= Z.of_nat (length l) ->
  Z.of_nat (length (slice_list l a b 1)) = b - a.
Proof. intros H1 H2. rewrite contiguous_slice by lia. rewrite firstn_length, skipn_length. lia. Qed.
Example tiles_somewhere : slice_list [10;20;30;40;50] 1 3 1 ++ slice_list [10;20;30;40;50] 3 5 1 = [20;30;40;50] /\ slice_list [10;20;30] 0 3 1 = [10;20;30].
Proof. split; reflexivity. Qed.

(* STEP -1 from the last position down past the first: the sequence reversed *)
Lemma nth_error_rev {A} (l:list A) k : (k < length l)%nat -> nth_error (rev l) k = nth_error l (length l - S k).
Proof.
  intros H. destruct l as [|d l0] eqn:E. { cbn in H. lia. } rewrite <- E in *.
  rewrite (nth_error_nth' (rev l) d) by (rewrite rev_length; lia). rewrite (nth_error_nth' l d) by lia.
  rewrite rev_nth by lia. reflexivity.
Qed.
Theorem reversed_slice {A} (l:list A) : slice_list l (-1) (- Z.of_nat (length l) - 1) (-1) = rev l.
Proof.
  unfold slice_list. set (len := Z.of_nat (length l)).
  assert (Cs : clamp len (-1) (-1) = len - 1).
  { unfold clamp. cbn [Z.ltb Z.compare]. destruct (-1 + len <? 0) eqn:E; [apply Z.ltb_lt in E|apply Z.ltb_ge in E]; lia. }
  assert (Ce : clamp len (- len - 1) (-1) = -1).
  { unfold clamp. destruct (- len - 1 <? 0) eqn:E; [|apply Z.ltb_ge in E; lia].
    destruct (- len - 1 + len <? 0) eqn:E2; [reflexivity|apply Z.ltb_ge in E2; lia]. }
  rewrite Cs, Ce.
  assert (Sl : slice_len (len - 1) (-1) (-1) = len).
  { unfold slice_len. cbn [Z.ltb Z.compare Z.opp]. destruct (-1 <? len - 1) eqn:E; [apply Z.ltb_lt in E|apply Z.ltb_ge in E]; [rewrite Z.div_1_r; lia|lia]. }
  rewrite Sl. unfold len at 2. rewrite Nat2Z.id.
  rewrite <- (firstn_all (rev l)) at 1. rewrite rev_length.
  change (rev l) with (skipn 0 (rev l)) at 1. rewrite <- segment_by_positions by (rewrite rev_length; lia).
  rewrite !flat_map_concat_map. f_equal. apply map_ext_in. intros k Hk. apply in_seq in Hk.
  rewrite nth_error_rev by lia. replace (Z.to_nat (len - 1 + Z.of_nat k * -1)) with (length l - S k)%nat by lia. reflexivity.
Qed.
Example reversed_somewhere : slice_list [10;20;30] (-1) (-4) (-1) = [30;20;10].
Proof. reflexivity. Qed.

(* NEGATIVE POSITIONS COUNT FROM THE END, for every step: position a - length (with 0 <= a < length) is position a, as a start and as an end *)
Lemma clamp_negative len a step : 0 <= a < len -> clamp len (a - len) step = clamp len a step.
Proof.
  intros H. unfold clamp.
  destruct (a - len <? 0) eqn:E1; [|apply Z.ltb_ge in E1; lia].
  destruct (a - len + len <? 0) eqn:E2; [apply Z.ltb_lt in E2; lia|].
  destruct (a <? 0) eqn:E3; [apply Z.ltb_lt in E3; lia|].
  destruct (a >=? len) eqn:E4; [apply Z.geb_le in E4; lia|]. lia.
Qed.
Theorem negative_start_counts_from_end {A} (l:list A) (a b step : Z) : 0 <= a < Z.of_nat (length l) ->
  slice_list l (a - Z.of_nat (length l)) b step = slice_list l a b step.
Proof. intros H. unfold slice_list. rewrite clamp_negative by exact H. reflexivity. Qed.
Theorem negative_end_counts_from_end {A} (l:list A) (a b step : Z) : 0 <= b < Z.of_nat (length l) ->
  slice_list l a (b - Z.of_nat (length l)) step = slice_list l a b step.
Proof. intros H. unfold slice_list. rewrite (clamp_negative _ b) by exact H. reflexivity. Qed.
(* cutting anywhere and concatenating the two parts gives the sequence back *)
Theorem cut_and_concatenate {A} (l:list A) (k : Z) : 0 <= k <= Z.of_nat (length l) ->
  slice_list l 0 k 1 ++ slice_list l k (Z.of_nat (length l)) 1 = l.
Proof. intros H. rewrite slices_tile by lia. apply full_slice_is_identity. Qed.
