(* Property C01, part 1: every code point normalises to what the specification assigns (exhaustive, 1,114,112 code points) *)
From Coq Require Import NArith ZArith List Bool Lia.
Import ListNotations.
Require Import Base Lex Jamo SpecC01.
Open Scope N_scope.

Theorem normalize_char_is_spec : forall c, c < 0x110000 -> free c = false -> collapse (normalize c) = spec_char c.
Proof.
  intros c Hc Hf. assert (H : ok c = true). { apply (sweep_spec 0x110000 ok); [vm_compute; reflexivity | exact Hc]. }
  unfold ok in H. rewrite Hf in H. simpl in H. unfold leqb in H. destruct (list_eq_dec _ _ _); congruence.
Qed.
Print Assumptions normalize_char_is_spec.
