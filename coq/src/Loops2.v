From Coq Require Import ZArith NArith List Bool FMapPositive Lia.
Import ListNotations.
Require Import Base Float Strings Num Builtins Interp Machine Spec HeapFacts Refine1 Refine2 Refine3 Refine4 RunG FuelMono Arith Loops.
(* ---------- Part 2: a concrete loop, for every number of iterations ---------- *)
Open Scope Z_scope.
Definition s0 : span := (0%N, 0%N, 0%N).
Definition ARG : ast := ArgRef (Lit 0 s0) 0 s0.                                  (* the loop variable n *)
Definition COND : ast := FunCall (Lit b_lt s0) [Lit 0 s0; ARG] s0.               (* 0 < n *)
Definition DEC : ast := FunCall (Lit b_add s0) [ARG; Lit (-1) s0] s0.            (* n + (-1) *)
Definition REC : ast := FunCall (FunRef 0 s0) [DEC] s0.                          (* self (n - 1)  - in tail position *)
Definition BODY : ast := FunCall COND [REC; Lit 0 s0] s0.                        (* (0 < n) selects: self (n - 1), else 0 *)
Definition countdown (N:Z) : ast := FunCall (FunDef BODY s0) [Lit N s0] s0.
Definition depth_of (o:out) : option (res * nat) := match o with Done _ _ r d => Some (r, d) | _ => None end.

(* ---- one-step equations of the specification's interpreter, so that proofs rewrite instead of unfolding ---- *)
Section Steps.
Variable rec : list positive -> heap -> world -> task -> out.
Lemma run_Alloc ip h w a e k : run rec ip h w (Alloc a e k) = run rec ip (fst (alloc h a e)) w (k (next_t h)). Proof. reflexivity. Qed.
Lemma run_Ret ip h w v : run rec ip h w (Ret v) = Done h w (inl v) 0. Proof. reflexivity. Qed.
Lemma run_Peek ip h w t k cl : get h t = Some cl -> run rec ip h w (PeekLit t k) = run rec ip (set_peeked h t) w (k (lit_of (c_ast cl))).
Proof. intros G. cbn [run]. rewrite G. reflexivity. Qed.
Lemma run_Force_cached ip h w u k cl v : get h u = Some cl -> c_cache cl = Some (inl v) -> run rec ip h w (Force (VThunk u) k) = run rec ip h w (k v).
Proof. intros G C. cbn [run]. rewrite G, C. reflexivity. Qed.
Lemma run_Force_eval ip h w u k cl h1 w1 v d : get h u = Some cl -> c_cache cl = None -> existsb (Pos.eqb u) ip = false ->
  rec ip h w (TThunk u) = Done h1 w1 (inl v) d -> run rec ip h w (Force (VThunk u) k) = updd (run rec ip h1 w1 (k v)) (1 + d).
Proof. intros G C E R. cbn [run]. rewrite G, C, E, R. reflexivity. Qed.
Lemma run_Force_value ip h w v k : isthunk v = false -> run rec ip h w (Force v k) = run rec ip h w (k v).
Proof. destruct v; try discriminate; reflexivity. Qed.
Lemma run_Call ip h w p k h1 w1 v d : rec ip h w (TComp (proc_body p)) = Done h1 w1 (inl v) d ->
  run rec ip h w (Call p k) = updd (run rec ip h1 w1 (k v)) (0 + d).
Proof. intros R. cbn [run]. rewrite R. reflexivity. Qed.
Lemma run_AllocBody ip h w g av k cl : PositiveMap.find g (clos h) = Some cl ->
  run rec ip h w (AllocBody g av k) = run rec ip (fst (alloc h (f_body cl) {| funs := funs (f_env cl); args := args (f_env cl) ++ [av] |})) w (k (next_t h)).
Proof. intros F. cbn [run]. unfold alloc_body. rewrite F. reflexivity. Qed.
End Steps.

(* ---- cells ---- *)
Definition cellis (h:heap) (t:positive) (a:ast) (e:env) (c:option res) := exists pk, get h t = Some {| c_ast := a; c_env := e; c_cache := c; c_peeked := pk |}.
Lemma cellis_alloc_new h a e : cellis (fst (alloc h a e)) (next_t h) a e None.
Proof. eexists. apply get_alloc_new. Qed.
Lemma cellis_alloc_old h a e t a' e' c : (t < next_t h)%positive -> cellis h t a' e' c -> cellis (fst (alloc h a e)) t a' e' c.
Proof. intros L [pk G]. exists pk. rewrite get_alloc_old by lia. exact G. Qed.
Lemma cellis_set_other h u r t a e c : t <> u -> cellis h t a e c -> cellis (set_cache h u r) t a e c.
Proof. intros N [pk G]. exists pk. rewrite get_set_other by congruence. exact G. Qed.
Lemma cellis_set_same h t r a e c : cellis h t a e c -> cellis (set_cache h t r) t a e (Some r).
Proof. intros [pk G]. exists pk. rewrite (get_set_same _ _ _ _ G). reflexivity. Qed.
Lemma cellis_peek h u t a e c : cellis h t a e c -> cellis (set_peeked h u) t a e c.
Proof.
  intros [pk G]. destruct (Pos.eq_dec u t) as [->|N].
  - exists true. rewrite (get_peek_same _ _ _ G). reflexivity.
  - exists pk. rewrite get_peek_other by auto. exact G.
Qed.
Lemma cellis_valid h t a e c : wfh h -> cellis h t a e c -> (t < next_t h)%positive.
Proof. intros W [pk G]. eapply get_valid; eauto. Qed.
Lemma next_alloc h a e : next_t (fst (alloc h a e)) = Pos.succ (next_t h). Proof. reflexivity. Qed.
Lemma clos_alloc h a e : clos (fst (alloc h a e)) = clos h. Proof. reflexivity. Qed.
Lemma notin_ip u (ip:list positive) bound : Forall (fun x => (x < bound)%positive) ip -> (bound <= u)%positive -> existsb (Pos.eqb u) ip = false.
Proof.
  intros F L. apply not_true_is_false. intros E. apply existsb_exists in E. destruct E as (x & Hx & Ex). apply Pos.eqb_eq in Ex. subst x.
  rewrite Forall_forall in F. specialize (F _ Hx). lia.
Qed.

(* one level of the big-step semantics on a delayed expression, as an equation *)
Lemma bs_thunk n ip h w t cl : get h t = Some cl ->
  bs (S n) ip h w (TThunk t) =
  match run (bs n) (t :: ip) h w (interpret (c_ast cl) (c_env cl)) with
  | Done h1 w1 (inl (VThunk t')) d0 =>
      match get h1 t' with
      | None => OOF
      | Some cl' =>
          match c_cache cl' with
          | Some r => Done (set_cache h1 t r) w1 r d0
          | None => if existsb (Pos.eqb t') (t :: ip) then Reentry else
              match bs n (t :: ip) h1 w1 (TThunk t') with
              | Done h2 w2 r d2 => Done (set_cache h2 t r) w2 r (Nat.max d0 d2)
              | o => o end end end
  | Done h1 w1 r d0 => Done (set_cache h1 t r) w1 r d0
  | o => o end.
Proof. intros G. cbn [bs]. rewrite G. reflexivity. Qed.
Lemma bs_comp n ip h w c : bs (S n) ip h w (TComp c) = run (bs n) ip h w c. Proof. reflexivity. Qed.

(* ---- a delayed literal evaluates to its integer, in the frame it is forced in ---- *)
Lemma eval_lit m ip h w u n sp e : cellis h u (Lit n sp) e None ->
  bs (S (S m)) ip h w (TThunk u) = Done (set_cache h u (inl (VInt n))) w (inl (VInt n)) 0.
Proof. intros [pk G]. rewrite (bs_thunk _ _ _ _ _ _ G). reflexivity. Qed.

(* ---- the loop variable: an argument reference, whose value is the argument ITSELF (returned in tail position) ---- *)
Definition lenv (g a:positive) : env := {| funs := [g]; args := [[VThunk a]] |}.
Lemma head_arg m ip h w g a :
  Forall (fun x => (x < next_t h)%positive) ip ->
  let h1 := fst (alloc h (Lit 0 s0) (lenv g a)) in
  run (bs (S (S m))) ip h w (interpret ARG (lenv g a)) = Done (set_cache h1 (next_t h) (inl (VInt 0))) w (inl (VThunk a)) 1.
Proof.
  intros F h1. unfold ARG. cbn [interpret lenv args]. change (rnth [[VThunk a]] 0) with (Some [VThunk a]). cbv beta iota.
  rewrite run_Alloc. fold h1. cbn [bind force].
  destruct (cellis_alloc_new h (Lit 0 s0) (lenv g a)) as [pk G]. fold h1 in G.
  erewrite run_Force_eval; [| exact G | reflexivity | eapply notin_ip; [exact F|lia] | apply (eval_lit m ip h1 w (next_t h) 0 s0 (lenv g a)); eexists; exact G].
  reflexivity.
Qed.

Definition after_arg (h:heap) (g a u:positive) (r:res) : heap :=
  set_cache (set_cache (fst (alloc h (Lit 0 s0) (lenv g a))) (next_t h) (inl (VInt 0))) u r.
(* ... when the argument has been evaluated before: its cached value, one frame deep *)
Lemma eval_arg_cached m ip h w g a u aa ae r :
  wfh h -> Forall (fun x => (x < next_t h)%positive) ip ->
  cellis h u ARG (lenv g a) None -> cellis h a aa ae (Some r) ->
  bs (S (S (S m))) ip h w (TThunk u) = Done (after_arg h g a u r) w r 1.
Proof.
  intros W F [pk G] CA. pose proof (get_valid _ _ _ W G) as Lu. pose proof (cellis_valid _ _ _ _ _ W CA) as La.
  rewrite (bs_thunk _ _ _ _ _ _ G). cbn [c_ast c_env].
  rewrite head_arg by (constructor; auto).
  assert (Nn : a <> next_t h) by lia.
  destruct (cellis_set_other _ (next_t h) (inl (VInt 0)) _ _ _ _ Nn (cellis_alloc_old h (Lit 0 s0) (lenv g a) _ _ _ _ La CA)) as [pk' G'].
  rewrite G'. cbn [c_cache]. reflexivity.
Qed.
(* ... when it has not: the argument is evaluated IN PLACE of the reference (tail position), and both are cached *)
Lemma eval_arg_tail m ip h w g a u aa ae h3 r d :
  wfh h -> Forall (fun x => (x < next_t h)%positive) ip -> ~ In a (u :: ip) ->
  cellis h u ARG (lenv g a) None -> cellis h a aa ae None ->
  bs (S (S m)) (u :: ip) (set_cache (fst (alloc h (Lit 0 s0) (lenv g a))) (next_t h) (inl (VInt 0))) w (TThunk a) = Done h3 w r d ->
  bs (S (S (S m))) ip h w (TThunk u) = Done (set_cache h3 u r) w r (Nat.max 1 d).
Proof.
  intros W F Na [pk G] CA Hb. pose proof (get_valid _ _ _ W G) as Lu. pose proof (cellis_valid _ _ _ _ _ W CA) as La.
  rewrite (bs_thunk _ _ _ _ _ _ G). cbn [c_ast c_env].
  rewrite head_arg by (constructor; auto).
  assert (Nn : a <> next_t h) by lia.
  destruct (cellis_set_other _ (next_t h) (inl (VInt 0)) _ _ _ _ Nn (cellis_alloc_old h (Lit 0 s0) (lenv g a) _ _ _ _ La CA)) as [pk' G'].
  rewrite G'. cbn [c_cache].
  replace (existsb (Pos.eqb a) (u :: ip)) with false.
  2:{ symmetry. apply not_true_is_false. intros E. apply existsb_exists in E. destruct E as (x & Hx & Ex). apply Pos.eqb_eq in Ex. subst x. auto. }
  rewrite Hb. reflexivity.
Qed.

(* ---- the two built-ins of the loop, on delayed integer operands ---- *)
Section Builtins.
Variable rec : list positive -> heap -> world -> task -> out.
Lemma run_lt ip h w u1 u2 c1 c2 h1 h2 x y d1 d2 :
  get h u1 = Some c1 -> c_cache c1 = None -> existsb (Pos.eqb u1) ip = false -> rec ip h w (TThunk u1) = Done h1 w (inl (VInt x)) d1 ->
  get h1 u2 = Some c2 -> c_cache c2 = None -> existsb (Pos.eqb u2) ip = false -> rec ip h1 w (TThunk u2) = Done h2 w (inl (VInt y)) d2 ->
  run rec ip h w (builtin b_lt s0 [VThunk u1; VThunk u2]) = Done h2 w (inl (VBool (x <? y))) (Nat.max (1 + d1) (Nat.max (1 + d2) 0)).
Proof.
  intros G1 C1 E1 R1 G2 C2 E2 R2. change (builtin b_lt) with bi_lt. unfold bi_lt, match_arguments.
  cbn [length check_arity existsb Nat.eqb orb bind map_strict force].
  rewrite (run_Force_eval rec ip h w u1 _ c1 h1 w (VInt x) d1 G1 C1 E1 R1).
  rewrite (run_Force_eval rec ip h1 w u2 _ c2 h2 w (VInt y) d2 G2 C2 E2 R2).
  reflexivity.
Qed.
Lemma run_add ip h w u1 u2 c1 c1' c2 h1 h2 x y d1 d2 :
  get h u1 = Some c1 -> c_cache c1 = None -> existsb (Pos.eqb u1) ip = false -> rec ip h w (TThunk u1) = Done h1 w (inl (VInt x)) d1 ->
  get h1 u1 = Some c1' -> c_cache c1' = Some (inl (VInt x)) ->
  get h1 u2 = Some c2 -> c_cache c2 = None -> existsb (Pos.eqb u2) ip = false -> rec ip h1 w (TThunk u2) = Done h2 w (inl (VInt y)) d2 ->
  run rec ip h w (builtin b_add s0 [VThunk u1; VThunk u2]) = Done h2 w (inl (VInt (x + y))) (Nat.max (1 + d1) (Nat.max (1 + d2) 0)).
Proof.
  intros G1 C1 E1 R1 G1' C1' G2 C2 E2 R2. change (builtin b_add) with bi_add. unfold bi_add.
  cbn [length check_min_arity Nat.ltb Nat.leb bind force].
  rewrite (run_Force_eval rec ip h w u1 _ c1 h1 w (VInt x) d1 G1 C1 E1 R1).
  cbn [check_type forallb orp is_num is_bool is_seq is_dict orb andb bind map_strict force].
  rewrite (run_Force_cached rec ip h1 w u1 _ c1' (VInt x) G1' C1').
  rewrite (run_Force_eval rec ip h1 w u2 _ c2 h2 w (VInt y) d2 G2 C2 E2 R2).
  cbn [bind check_type forallb is_num andb].
  change (nums_of [VInt x; VInt y]) with (nums_of (map VInt [x; y])). rewrite int_sum_exact.
  cbn [fold_right val_of_num run updd]. replace (x + (y + 0)) with (x + y) by lia. reflexivity.
Qed.
End Builtins.

(* ---- the head of a call of a built-in named by a literal, with two operands: three delayed expressions are created (the name, the two
        operands), the name is recognised from its syntax, and the built-in is applied to the delayed operands ---- *)
Definition call2_heap (h:heap) (f A1 A2:ast) (e:env) : heap :=
  fst (alloc (fst (alloc (fst (alloc h f e)) A1 e)) A2 e).
Lemma head_builtin_call rec ip h w b A1 A2 e h5 v d :
  existsb (Z.eqb b) builtin_names = true ->
  rec ip (set_peeked (call2_heap h (Lit b s0) A1 A2 e) (next_t h)) w (TComp (builtin b s0 [VThunk (Pos.succ (next_t h)); VThunk (Pos.succ (Pos.succ (next_t h)))])) = Done h5 w (inl v) d ->
  run rec ip h w (interpret (FunCall (Lit b s0) [A1; A2] s0) e) = Done h5 w (inl v) (Nat.max (0 + d) 0).
Proof.
  intros Hb R. cbn [interpret]. rewrite run_Alloc. cbn [allocs_k app]. rewrite run_Alloc. cbn [allocs_k app]. rewrite run_Alloc. cbn [allocs_k app].
  rewrite !next_alloc. fold (call2_heap h (Lit b s0) A1 A2 e).
  unfold functional, strict_functional. cbn [bind].
  assert (G : cellis (call2_heap h (Lit b s0) A1 A2 e) (next_t h) (Lit b s0) e None).
  { unfold call2_heap. apply cellis_alloc_old; [rewrite !next_alloc; lia|]. apply cellis_alloc_old; [rewrite !next_alloc; lia|]. apply cellis_alloc_new. }
  destruct G as [pk G]. rewrite (run_Peek rec ip _ w _ _ _ G). cbn [c_ast lit_of bind proc_functional]. rewrite Hb. cbn [bind]. unfold call.
  erewrite run_Call; [reflexivity|]. exact R.
Qed.

(* ---- frames: what an evaluation leaves alone.  ext h h' xs: h' is h after some allocations, peeks and cache fillings, the latter only at xs ---- *)
Definition ext (h h':heap) (xs:list positive) : Prop :=
  (wfh h -> wfh h') /\ clos h' = clos h /\ (next_t h <= next_t h')%positive /\
  forall t a e c, (t < next_t h)%positive -> ~ In t xs -> cellis h t a e c -> cellis h' t a e c.
Lemma ext_refl h : ext h h []. Proof. split; [auto|]. split; [auto|]. split; [lia|]. auto. Qed.
Lemma ext_trans h1 h2 h3 xs ys : ext h1 h2 xs -> ext h2 h3 ys -> ext h1 h3 (xs ++ ys).
Proof.
  intros (W1 & C1 & N1 & T1) (W2 & C2 & N2 & T2). split; [auto|]. split; [congruence|]. split; [lia|].
  intros t a e c L Ni Ce. apply T2; [lia|intros I; apply Ni; apply in_or_app; auto|]. apply T1; auto. intros I; apply Ni; apply in_or_app; auto.
Qed.
Lemma ext_alloc h a e : wfh h -> ext h (fst (alloc h a e)) [].
Proof.
  intros W. split; [intros _; apply wfh_alloc; auto|]. split; [reflexivity|]. split; [rewrite next_alloc; lia|].
  intros t a' e' c L _ Ce. apply cellis_alloc_old; auto.
Qed.
Lemma ext_set h u r : ext h (set_cache h u r) [u].
Proof.
  split; [apply wfh_set|]. split; [apply clos_set|]. split; [rewrite next_set; lia|].
  intros t a e c _ Ni Ce. apply cellis_set_other; auto. intros ->. apply Ni. left; auto.
Qed.
Lemma ext_peek h u : ext h (set_peeked h u) [].
Proof.
  split; [apply wfh_peek|]. split; [apply clos_peek|]. split; [rewrite next_peek; lia|].
  intros t a e c _ _ Ce. apply cellis_peek; auto.
Qed.
Lemma ext_wfh h h' xs : ext h h' xs -> wfh h -> wfh h'. Proof. intros (W & _) H. auto. Qed.
Lemma ext_ip h h' xs ip : ext h h' xs -> Forall (fun x => (x < next_t h)%positive) ip -> Forall (fun x => (x < next_t h')%positive) ip.
Proof. intros (_ & _ & N & _) F. eapply Forall_impl; [|exact F]. cbn. intros x Hx. lia. Qed.
Lemma ext_cell h h' xs t a e c : ext h h' xs -> wfh h -> ~ In t xs -> cellis h t a e c -> cellis h' t a e c.
Proof. intros (_ & _ & _ & T) W Ni Ce. apply T; auto. eapply cellis_valid; eauto. Qed.
(* only cells that existed before matter in the exception list *)
Lemma ext_restrict h h' xs ys : ext h h' xs -> (forall t, In t xs -> (t < next_t h)%positive -> In t ys) -> ext h h' ys.
Proof. intros (W & C & N & T) I. split; [auto|]. split; [auto|]. split; [auto|]. intros t a e c L Ni. apply T; [exact L|]. intros X. apply Ni. apply I; auto. Qed.
Lemma ext_call2 h f A1 A2 e : wfh h -> ext h (set_peeked (call2_heap h f A1 A2 e) (next_t h)) [].
Proof.
  intros W. unfold call2_heap.
  assert (E1 := ext_alloc h f e W). assert (W1 := ext_wfh _ _ _ E1 W).
  assert (E2 := ext_alloc _ A1 e W1). assert (W2 := ext_wfh _ _ _ E2 W1).
  assert (E3 := ext_alloc _ A2 e W2).
  exact (ext_trans _ _ _ _ _ (ext_trans _ _ _ _ _ (ext_trans _ _ _ _ _ E1 E2) E3) (ext_peek _ _)).
Qed.
Lemma call2_cells h f A1 A2 e : wfh h ->
  let hp := set_peeked (call2_heap h f A1 A2 e) (next_t h) in
  cellis hp (Pos.succ (next_t h)) A1 e None /\ cellis hp (Pos.succ (Pos.succ (next_t h))) A2 e None /\ next_t hp = Pos.succ (Pos.succ (Pos.succ (next_t h))).
Proof.
  intros W hp. unfold hp, call2_heap. split; [|split].
  - apply cellis_peek. apply cellis_alloc_old; [rewrite !next_alloc; lia|]. rewrite <- (next_alloc h f e). apply cellis_alloc_new.
  - apply cellis_peek. rewrite <- (next_alloc h f e), <- (next_alloc _ A1 e). apply cellis_alloc_new.
  - rewrite next_peek, !next_alloc. reflexivity.
Qed.
Lemma ext_after_arg h g a u r : wfh h -> ext h (after_arg h g a u r) [u].
Proof.
  intros W. unfold after_arg. eapply ext_restrict.
  - eapply ext_trans; [eapply ext_trans; [apply ext_alloc; exact W | apply ext_set] | apply ext_set].
  - cbn [app In]. intros t [E|[E|[]]] L; [subst t; lia | left; auto].
Qed.

(* ---- the decrement n + (-1), delayed, with n already evaluated: its value, two frames deep, and nothing else that existed is touched ---- *)
Lemma eval_dec m ip h w g a' a aa ae x :
  wfh h -> Forall (fun y => (y < next_t h)%positive) ip -> ~ In a ip ->
  cellis h a DEC (lenv g a') None -> cellis h a' aa ae (Some (inl (VInt x))) ->
  exists h', bs (S (S (S (S (S (S m)))))) ip h w (TThunk a) = Done h' w (inl (VInt (x + -1))) 2
    /\ ext h h' [a] /\ cellis h' a DEC (lenv g a') (Some (inl (VInt (x + -1)))).
Proof.
  intros W F Na Ca Ca'. pose proof (cellis_valid _ _ _ _ _ W Ca) as La. pose proof (cellis_valid _ _ _ _ _ W Ca') as La'.
  destruct Ca as [pk Ga].
  set (e := lenv g a'). set (hp := set_peeked (call2_heap h (Lit b_add s0) ARG (Lit (-1) s0) e) (next_t h)).
  set (n1 := Pos.succ (next_t h)). set (n2 := Pos.succ n1).
  destruct (call2_cells h (Lit b_add s0) ARG (Lit (-1) s0) e W) as (C1 & C2 & Nx). fold hp n1 n2 in C1, C2, Nx.
  assert (Ep := ext_call2 h (Lit b_add s0) ARG (Lit (-1) s0) e W). fold hp in Ep.
  assert (Wp := ext_wfh _ _ _ Ep W).
  assert (Fp : Forall (fun y => (y < next_t hp)%positive) (a :: ip)) by (constructor; [rewrite Nx; lia | eapply ext_ip; eauto]).
  assert (Cp' : cellis hp a' aa ae (Some (inl (VInt x)))) by (eapply ext_cell; eauto).
  (* first operand: the argument reference, whose argument is cached *)
  pose proof (eval_arg_cached (S m) (a :: ip) hp w g a' n1 aa ae (inl (VInt x)) Wp Fp C1 Cp') as R1.
  set (h1 := after_arg hp g a' n1 (inl (VInt x))) in *.
  assert (E1 := ext_after_arg hp g a' n1 (inl (VInt x)) Wp). fold h1 in E1.
  assert (W1 := ext_wfh _ _ _ E1 Wp).
  assert (C1' : cellis h1 n1 ARG e (Some (inl (VInt x)))).
  { unfold h1, after_arg. eapply cellis_set_same. apply cellis_set_other; [unfold n1; rewrite Nx; lia|]. apply cellis_alloc_old; [rewrite Nx; unfold n1; lia|]. exact C1. }
  assert (C2' : cellis h1 n2 (Lit (-1) s0) e None) by (eapply ext_cell; [exact E1|exact Wp| |exact C2]; cbn [In]; unfold n2, n1; intros [X|[]]; lia).
  pose proof (eval_lit (S (S m)) (a :: ip) h1 w n2 (-1) s0 e C2') as R2.
  destruct C1 as [pk1 G1]. destruct C1' as [pk1' G1']. destruct C2' as [pk2 G2].
  assert (X1 : existsb (Pos.eqb n1) (a :: ip) = false) by (eapply notin_ip; [constructor; [exact La|exact F]| unfold n1; lia]).
  assert (X2 : existsb (Pos.eqb n2) (a :: ip) = false) by (eapply notin_ip; [constructor; [exact La|exact F]| unfold n2, n1; lia]).
  pose proof (run_add (bs (S (S (S (S m))))) (a :: ip) hp w n1 n2 _ _ _ h1 _ x (-1) 1 0 G1 eq_refl X1 R1 G1' eq_refl G2 eq_refl X2 R2) as RA.
  eexists. split; [|split].
  - rewrite (bs_thunk _ _ _ _ _ _ Ga). cbn [c_ast c_env]. fold e. unfold DEC.
    erewrite head_builtin_call; [ | reflexivity | rewrite bs_comp; fold hp n1 n2; exact RA ].
    reflexivity.
  - eapply ext_restrict.
    + eapply ext_trans; [eapply ext_trans; [eapply ext_trans; [exact Ep|exact E1] | apply ext_set] | apply ext_set].
    + cbn [app In]. intros t [E|[E|[E|[]]]] L; subst t; [unfold n1 in L; lia | unfold n2, n1 in L; lia | left; auto].
  - eapply cellis_set_same. eapply ext_cell; [apply ext_set | exact W1 | | eapply ext_cell; [exact E1 | exact Wp | | eapply ext_cell; [exact Ep | exact W | | exists pk; exact Ga]]];
      cbn [In]; unfold n2, n1; try (intros [X|[]]; lia); auto.
Qed.

(* ---- the loop variable's delayed value: already evaluated, or the pending decrement of an evaluated value, or the initial literal ---- *)
Definition argval (h:heap) (a:positive) (k:Z) : Prop :=
  (exists aa ae, cellis h a aa ae (Some (inl (VInt k))))
  \/ (exists g a' aa ae, cellis h a DEC (lenv g a') None /\ cellis h a' aa ae (Some (inl (VInt (k + 1)))))
  \/ (exists e, cellis h a (Lit k s0) e None).
Definition s7 (m:nat) : nat := S (S (S (S (S (S (S m)))))).

Lemma eval_argthunk m ip h w g a u k :
  wfh h -> Forall (fun y => (y < next_t h)%positive) ip -> ~ In a (u :: ip) ->
  cellis h u ARG (lenv g a) None -> argval h a k ->
  exists h' d, bs (s7 m) ip h w (TThunk u) = Done h' w (inl (VInt k)) d /\ (d <= 2)%nat
    /\ ext h h' [u; a] /\ (exists aa ae, cellis h' a aa ae (Some (inl (VInt k)))).
Proof.
  intros W F Na Cu [ (aa & ae & Ca) | [ (g' & a' & aa & ae & Ca & Ca') | (e & Ca) ] ].
  - (* evaluated before *)
    exists (after_arg h g a u (inl (VInt k))), 1%nat. split; [apply (eval_arg_cached (S (S (S (S m)))) ip h w g a u aa ae _ W F Cu Ca)|]. split; [lia|].
    assert (La := cellis_valid _ _ _ _ _ W Ca). assert (Lu := cellis_valid _ _ _ _ _ W Cu).
    split; [eapply ext_restrict; [apply ext_after_arg; exact W|cbn [In]; intros t [E|[]] _; left; auto]|].
    exists aa, ae. eapply ext_cell; [apply ext_after_arg; exact W|exact W| |exact Ca]. cbn [In]. intros [E|[]]. subst u.
    destruct Cu as [p1 G1], Ca as [p2 G2]. rewrite G1 in G2. discriminate.
  - (* the pending decrement: evaluated in place of the reference *)
    assert (La := cellis_valid _ _ _ _ _ W Ca). assert (Lu := cellis_valid _ _ _ _ _ W Cu). assert (La' := cellis_valid _ _ _ _ _ W Ca').
    set (h2 := set_cache (fst (alloc h (Lit 0 s0) (lenv g a))) (next_t h) (inl (VInt 0))).
    assert (E2 : ext h h2 []).
    { eapply ext_restrict; [eapply ext_trans; [apply ext_alloc; exact W|apply ext_set]|]. cbn [app In]. intros t [E|[]] L. subst t. lia. }
    assert (W2 := ext_wfh _ _ _ E2 W).
    assert (F2 : Forall (fun y => (y < next_t h2)%positive) (u :: ip)) by (eapply ext_ip; [exact E2|constructor; auto]).
    destruct (eval_dec m (u :: ip) h2 w g' a' a aa ae (k + 1) W2 F2 Na) as (h3 & Hb & E3 & C3).
    { eapply ext_cell; eauto. } { eapply ext_cell; eauto. }
    replace (k + 1 + -1) with k in * by lia.
    exists (set_cache h3 u (inl (VInt k))), (Nat.max 1 2). split; [|split; [lia|split]].
    + apply (eval_arg_tail (S (S (S (S m)))) ip h w g a u DEC (lenv g' a') h3 _ 2 W F Na Cu Ca). exact Hb.
    + eapply ext_restrict; [eapply ext_trans; [eapply ext_trans; [exact E2|exact E3]|apply ext_set]|].
      cbn [app In]. intros t [E|[E|[]]] _; subst t; auto.
    + exists DEC, (lenv g' a'). apply cellis_set_other; [|exact C3]. intros ->. apply Na. left; auto.
  - (* the initial literal *)
    assert (La := cellis_valid _ _ _ _ _ W Ca). assert (Lu := cellis_valid _ _ _ _ _ W Cu).
    set (h2 := set_cache (fst (alloc h (Lit 0 s0) (lenv g a))) (next_t h) (inl (VInt 0))).
    assert (E2 : ext h h2 []).
    { eapply ext_restrict; [eapply ext_trans; [apply ext_alloc; exact W|apply ext_set]|]. cbn [app In]. intros t [E|[]] L. subst t. lia. }
    assert (W2 := ext_wfh _ _ _ E2 W).
    assert (C2 : cellis h2 a (Lit k s0) e None) by (eapply ext_cell; eauto).
    exists (set_cache (set_cache h2 a (inl (VInt k))) u (inl (VInt k))), (Nat.max 1 0). split; [|split; [lia|split]].
    + apply (eval_arg_tail (S (S (S (S m)))) ip h w g a u (Lit k s0) e _ _ 0 W F Na Cu Ca). apply (eval_lit _ _ _ _ _ _ s0 e). exact C2.
    + eapply ext_restrict; [eapply ext_trans; [eapply ext_trans; [exact E2|apply ext_set]|apply ext_set]|].
      cbn [app In]. intros t [E|[E|[]]] _; subst t; auto.
    + exists (Lit k s0), e. apply cellis_set_other; [intros ->; apply Na; left; auto|]. eapply cellis_set_same. exact C2.
Qed.

(* ---- the loop condition 0 < n, delayed: a Boolean, three frames deep at most; leaves the loop variable evaluated ---- *)
Lemma eval_cond m ip h w g a tf k :
  wfh h -> Forall (fun y => (y < next_t h)%positive) ip -> ~ In a (tf :: ip) ->
  cellis h tf COND (lenv g a) None -> argval h a k ->
  exists h' d, bs (S (S (s7 m))) ip h w (TThunk tf) = Done h' w (inl (VBool (0 <? k))) d /\ (d <= 3)%nat
    /\ ext h h' [tf; a] /\ (exists aa ae, cellis h' a aa ae (Some (inl (VInt k)))).
Proof.
  intros W F Na Ct Av. assert (Lt := cellis_valid _ _ _ _ _ W Ct).
  assert (La : (a < next_t h)%positive).
  { destruct Av as [ (aa & ae & Ca) | [ (g' & a' & aa & ae & Ca & _) | (e & Ca) ] ]; eapply cellis_valid; eauto. }
  set (e := lenv g a). set (hp := set_peeked (call2_heap h (Lit b_lt s0) (Lit 0 s0) ARG e) (next_t h)).
  set (n1 := Pos.succ (next_t h)). set (n2 := Pos.succ n1).
  destruct (call2_cells h (Lit b_lt s0) (Lit 0 s0) ARG e W) as (C1 & C2 & Nx). fold hp n1 n2 in C1, C2, Nx.
  assert (Ep := ext_call2 h (Lit b_lt s0) (Lit 0 s0) ARG e W). fold hp in Ep.
  assert (Wp := ext_wfh _ _ _ Ep W).
  assert (Fp : Forall (fun y => (y < next_t hp)%positive) (tf :: ip)) by (eapply ext_ip; [exact Ep|constructor; auto]).
  (* first operand: the literal 0 *)
  pose proof (eval_lit (S (S (S (S (S m))))) (tf :: ip) hp w n1 0 s0 e C1) as R1. change (S (S (S (S (S (S (S m))))))) with (s7 m) in R1.
  set (h1 := set_cache hp n1 (inl (VInt 0))) in *.
  assert (E1 : ext hp h1 [n1]) by apply ext_set.
  assert (Nn1 : forall x, (x < next_t h)%positive -> ~ In x [n1]) by (intros x Lx [X|[]]; unfold n1 in X; lia).
  assert (W1 := ext_wfh _ _ _ E1 Wp).
  assert (F1 : Forall (fun y => (y < next_t h1)%positive) (tf :: ip)) by (eapply ext_ip; eauto).
  assert (C2' : cellis h1 n2 ARG e None) by (apply cellis_set_other; [unfold n2; lia|exact C2]).
  assert (Av1 : argval h1 a k).
  { assert (T : forall aa ae c, cellis h a aa ae c -> cellis h1 a aa ae c).
    { intros aa ae c Ca. eapply ext_cell; [exact E1|exact Wp|apply Nn1; exact La|]. eapply ext_cell; [exact Ep|exact W|auto|exact Ca]. }
    destruct Av as [ (aa & ae & Ca) | [ (g' & a' & aa & ae & Ca & Ca') | (e' & Ca) ] ].
    - left. exists aa, ae. auto.
    - right; left. exists g', a', aa, ae. split; auto. assert (La' := cellis_valid _ _ _ _ _ W Ca').
      eapply ext_cell; [exact E1|exact Wp|apply Nn1; exact La'|]. eapply ext_cell; [exact Ep|exact W|auto|exact Ca'].
    - right; right. exists e'. auto. }
  assert (Na2 : ~ In a (n2 :: tf :: ip)).
  { intros [X|X]; [unfold n2, n1 in X; lia|auto]. }
  (* second operand: the loop variable *)
  destruct (eval_argthunk m (tf :: ip) h1 w g a n2 k W1 F1 Na2 C2' Av1) as (h2 & d2 & R2 & D2 & E2 & Ca2).
  destruct C1 as [pk1 G1]. destruct C2' as [pk2 G2].
  assert (X1 : existsb (Pos.eqb n1) (tf :: ip) = false) by (eapply notin_ip; [constructor; [exact Lt|exact F]| unfold n1; lia]).
  assert (X2 : existsb (Pos.eqb n2) (tf :: ip) = false) by (eapply notin_ip; [constructor; [exact Lt|exact F]| unfold n2, n1; lia]).
  pose proof (run_lt (bs (s7 m)) (tf :: ip) hp w n1 n2 _ _ h1 h2 0 k 0 d2 G1 eq_refl X1 R1 G2 eq_refl X2 R2) as RL.
  destruct Ct as [pk Gt].
  exists (set_cache h2 tf (inl (VBool (0 <? k)))). eexists. split; [|split; [|split]].
  - rewrite (bs_thunk _ _ _ _ _ _ Gt). cbn [c_ast c_env]. fold e. unfold COND.
    erewrite head_builtin_call; [ | reflexivity | rewrite bs_comp; fold hp n1 n2; exact RL ].
    reflexivity.
  - lia.
  - eapply ext_restrict; [eapply ext_trans; [eapply ext_trans; [eapply ext_trans; [exact Ep|exact E1]|exact E2]|apply ext_set]|].
    cbn [app In]. intros t [E|[E|[E|[E|[]]]]] L; subst t; auto; unfold n2, n1 in L; lia.
  - destruct Ca2 as (aa & ae & Ca2). exists aa, ae. apply cellis_set_other; [|exact Ca2]. intros ->. apply Na. left; auto.
Qed.

(* ---- one iteration, first half: the body  (0 < n) selects [self (n-1) ; 0]  returns - as its result - one of its two DELAYED operands ---- *)
Definition sN (m:nat) : nat := S (S (s7 m)).
Lemma head_body m ip h w g a k :
  wfh h -> Forall (fun y => (y < next_t h)%positive) ip -> ~ In a ip -> argval h a k ->
  let t1 := Pos.succ (next_t h) in let t2 := Pos.succ t1 in
  exists h' d, run (bs (sN m)) ip h w (interpret BODY (lenv g a)) = Done h' w (inl (VThunk (if 0 <? k then t1 else t2))) d /\ (d <= 4)%nat
    /\ ext h h' [a] /\ cellis h' t1 REC (lenv g a) None /\ cellis h' t2 (Lit 0 s0) (lenv g a) None
    /\ (exists aa ae, cellis h' a aa ae (Some (inl (VInt k)))).
Proof.
  intros W F Na Av t1 t2.
  assert (La : (a < next_t h)%positive).
  { destruct Av as [ (aa & ae & Ca) | [ (g' & a' & aa & ae & Ca & _) | (e & Ca) ] ]; eapply cellis_valid; eauto. }
  set (e := lenv g a). set (tf := next_t h).
  set (hp := set_peeked (call2_heap h COND REC (Lit 0 s0) e) tf).
  destruct (call2_cells h COND REC (Lit 0 s0) e W) as (C1 & C2 & Nx). fold tf hp t1 t2 in C1, C2, Nx.
  assert (Ep := ext_call2 h COND REC (Lit 0 s0) e W). fold tf hp in Ep.
  assert (Wp := ext_wfh _ _ _ Ep W).
  assert (Fp : Forall (fun y => (y < next_t hp)%positive) ip) by (eapply ext_ip; eauto).
  assert (Cf : cellis (call2_heap h COND REC (Lit 0 s0) e) tf COND e None).
  { unfold call2_heap. apply cellis_alloc_old; [rewrite !next_alloc; unfold tf; lia|]. apply cellis_alloc_old; [rewrite !next_alloc; unfold tf; lia|]. apply cellis_alloc_new. }
  assert (Cfp : cellis hp tf COND e None) by (apply cellis_peek; exact Cf).
  assert (Avp : argval hp a k).
  { destruct Av as [ (aa & ae & Ca) | [ (g' & a' & aa & ae & Ca & Ca') | (e' & Ca) ] ].
    - left. exists aa, ae. eapply ext_cell; eauto.
    - right; left. exists g', a', aa, ae. split; eapply ext_cell; eauto.
    - right; right. exists e'. eapply ext_cell; eauto. }
  assert (Na' : ~ In a (tf :: ip)) by (intros [X|X]; [unfold tf in X; lia|auto]).
  destruct (eval_cond m ip hp w g a tf k Wp Fp Na' Cfp Avp) as (h2 & d2 & R2 & D2 & E2 & Ca2).
  assert (W2 := ext_wfh _ _ _ E2 Wp).
  assert (Xf : existsb (Pos.eqb tf) ip = false) by (eapply notin_ip; [exact F|unfold tf; lia]).
  destruct Cf as [pkf Gf]. destruct Cfp as [pkp Gp].
  exists h2. exists (Nat.max (1 + d2) 0). split; [|split; [|split; [|split; [|split]]]].
  - remember (0 <? k) as b eqn:Eb. clear Eb.
    unfold BODY. cbn [interpret]. rewrite run_Alloc. cbn [allocs_k app]. rewrite run_Alloc. cbn [allocs_k app]. rewrite run_Alloc. cbn [allocs_k app].
    rewrite !next_alloc. fold e. fold (call2_heap h COND REC (Lit 0 s0) e). fold tf t1 t2.
    unfold functional, strict_functional. cbn [bind].
    rewrite (run_Peek _ ip _ w _ _ _ Gf). cbn [c_ast lit_of COND bind force]. fold hp.
    rewrite (run_Force_eval _ ip hp w tf _ _ h2 w _ d2 Gp eq_refl Xf R2).
    cbn [check_type forallb is_callable andb bind proc_functional orp is_bool orb is_fun is_seq is_dict]. unfold call.
    destruct b.
    + erewrite run_Call; [|unfold sN; rewrite bs_comp; reflexivity]. reflexivity.
    + erewrite run_Call; [|unfold sN; rewrite bs_comp; reflexivity]. reflexivity.
  - lia.
  - eapply ext_restrict; [eapply ext_trans; [exact Ep|exact E2]|]. cbn [app In]. intros t [E|[E|[]]] L; subst t; [unfold tf in L; lia|left; auto].
  - eapply ext_cell; [exact E2|exact Wp| |exact C1]. cbn [In]. unfold t1, tf. intros [X|[X|[]]]; lia.
  - eapply ext_cell; [exact E2|exact Wp| |exact C2]. cbn [In]. unfold t2, t1, tf. intros [X|[X|[]]]; lia.
  - exact Ca2.
Qed.

(* ---- one iteration, second half: self (n + -1) returns - as its result - the delayed BODY of the function applied to the delayed decrement ---- *)
Definition loop_clo (g:positive) : clo := {| f_body := BODY; f_env := {| funs := [g]; args := [] |} |}.
Lemma head_rec m ip h w g a :
  wfh h -> Forall (fun y => (y < next_t h)%positive) ip -> PositiveMap.find g (clos h) = Some (loop_clo g) ->
  let an := Pos.succ (next_t h) in let tn := Pos.succ an in
  exists h', run (bs (S (S (S m)))) ip h w (interpret REC (lenv g a)) = Done h' w (inl (VThunk tn)) 1
    /\ ext h h' [] /\ cellis h' an DEC (lenv g a) None /\ cellis h' tn BODY (lenv g an) None.
Proof.
  intros W F Hg an tn. set (e := lenv g a). set (v0 := next_t h).
  set (hq := fst (alloc (fst (alloc h (FunRef 0 s0) e)) DEC e)). set (hp := set_peeked hq v0).
  assert (Eq1 : ext h hq []).
  { assert (E1 := ext_alloc h (FunRef 0 s0) e W). exact (ext_trans _ _ _ _ _ E1 (ext_alloc _ DEC e (ext_wfh _ _ _ E1 W))). }
  assert (Ep : ext h hp []) by exact (ext_trans _ _ _ _ _ Eq1 (ext_peek _ _)).
  assert (Wp := ext_wfh _ _ _ Ep W).
  assert (Cv : cellis hq v0 (FunRef 0 s0) e None) by (unfold hq; apply cellis_alloc_old; [rewrite next_alloc; unfold v0; lia|apply cellis_alloc_new]).
  assert (Cvp : cellis hp v0 (FunRef 0 s0) e None) by (apply cellis_peek; exact Cv).
  assert (Can : cellis hp an DEC e None).
  { apply cellis_peek. unfold hq, an. rewrite <- (next_alloc h (FunRef 0 s0) e). apply cellis_alloc_new. }
  assert (Nxp : next_t hp = tn) by (unfold hp, hq; rewrite next_peek, !next_alloc; reflexivity).
  set (h1 := set_cache hp v0 (inl (VFun (FClo g)))).
  assert (Rv : bs (S (S (S m))) ip hp w (TThunk v0) = Done h1 w (inl (VFun (FClo g))) 0).
  { destruct Cvp as [pk G]. rewrite (bs_thunk _ _ _ _ _ _ G). reflexivity. }
  assert (E1 : ext hp h1 [v0]) by apply ext_set.
  assert (W1 := ext_wfh _ _ _ E1 Wp).
  assert (Hg1 : PositiveMap.find g (clos h1) = Some (loop_clo g)).
  { destruct E1 as (_ & Cl1 & _). destruct Ep as (_ & Clp & _). rewrite Cl1, Clp. exact Hg. }
  assert (Nx1 : next_t h1 = tn) by (unfold h1; rewrite next_set; exact Nxp).
  set (h2 := fst (alloc h1 BODY (lenv g an))).
  assert (Xv : existsb (Pos.eqb v0) ip = false) by (eapply notin_ip; [exact F|unfold v0; lia]).
  destruct Cv as [pkv Gv]. destruct Cvp as [pkp Gp].
  exists h2. split; [|split; [|split]].
  - unfold REC. cbn [interpret]. rewrite run_Alloc. cbn [allocs_k app]. rewrite run_Alloc. cbn [allocs_k app].
    rewrite !next_alloc. fold e v0 hq an.
    unfold functional, strict_functional. cbn [bind].
    rewrite (run_Peek _ ip _ w _ _ _ Gv). cbn [c_ast lit_of bind force]. fold hp.
    rewrite (run_Force_eval _ ip hp w v0 _ _ h1 w _ 0 Gp eq_refl Xv Rv).
    cbn [check_type forallb is_callable andb bind proc_functional orp is_bool orb is_fun is_seq is_dict]. unfold call.
    erewrite run_Call; [|rewrite bs_comp; cbn [proc_body apply_body];
      rewrite (run_AllocBody _ ip h1 w g _ _ _ Hg1); cbn [loop_clo f_body f_env funs args app]; fold (lenv g an); rewrite Nx1; reflexivity].
    reflexivity.
  - eapply ext_restrict; [eapply ext_trans; [eapply ext_trans; [exact Ep|exact E1]|apply ext_alloc; exact W1]|].
    cbn [app In]. intros t [E|[]] L. subst t. unfold v0 in L. lia.
  - unfold h2. apply cellis_alloc_old; [rewrite Nx1; unfold tn; lia|]. apply cellis_set_other; [unfold an, v0; lia|exact Can].
  - unfold h2. rewrite <- Nx1. apply cellis_alloc_new.
Qed.

(* ---- the loop invariant, one state per tail link ---- *)
Inductive phase := PLit | PBody (i:nat) | PRec (i:nat).
Definition links (p:phase) : nat := match p with PLit => 0 | PBody i => 2 * i + 1 | PRec i => 2 * i + 2 end.
Definition common (g:positive) (h:heap) (t:positive) (ip:list positive) : Prop :=
  wfh h /\ Forall (fun y => (y < next_t h)%positive) ip /\ ~ In t ip /\ PositiveMap.find g (clos h) = Some (loop_clo g).
Definition state (g:positive) (p:phase) (h:heap) (t:positive) (ip:list positive) : Prop :=
  common g h t ip /\
  match p with
  | PLit => exists e, cellis h t (Lit 0 s0) e None
  | PBody i => exists a, cellis h t BODY (lenv g a) None /\ argval h a (Z.of_nat i) /\ ~ In a (t :: ip)
  | PRec i => exists a aa ae, cellis h t REC (lenv g a) None /\ cellis h a aa ae (Some (inl (VInt (Z.of_nat i + 1))))
  end.
Definition P (g:positive) (j:nat) (h:heap) (t:positive) (ip:list positive) : Prop := exists p, links p = j /\ state g p h t ip.

Lemma ext_clos h h' xs g c : ext h h' xs -> PositiveMap.find g (clos h) = Some c -> PositiveMap.find g (clos h') = Some c.
Proof. intros (_ & C & _) H. rewrite C. exact H. Qed.
Lemma notin_new t (ip:list positive) bound : Forall (fun x => (x < bound)%positive) ip -> (bound <= t)%positive -> ~ In t ip.
Proof. intros F L I. rewrite Forall_forall in F. specialize (F _ I). lia. Qed.

Lemma loop_step g w : forall k h t ip, P g (S k) h t ip ->
  exists cl n0 h1 t' d0, get h t = Some cl
    /\ run (bs n0) (t :: ip) h w (interpret (c_ast cl) (c_env cl)) = Done h1 w (inl (VThunk t')) d0
    /\ (d0 <= 4)%nat /\ uncached h1 t' /\ ~ In t' (t :: ip) /\ P g k h1 t' (t :: ip).
Proof.
  intros k h t ip (p & Lk & (W & F & Nt & Hg) & St).
  destruct p as [|i|i]; cbn [links] in Lk; [discriminate| |].
  - (* the body: 0 < i selects the recursive call, otherwise the literal *)
    destruct St as (a & Ct & Av & Na).
    assert (Lt := cellis_valid _ _ _ _ _ W Ct).
    assert (F' : Forall (fun y => (y < next_t h)%positive) (t :: ip)) by (constructor; auto).
    destruct (head_body 0 (t :: ip) h w g a (Z.of_nat i) W F' Na Av) as (h1 & d0 & R & D & E & C1 & C2 & (aa & ae & Ca)).
    destruct Ct as [pk Gt]. eexists. exists (sN 0), h1. 
    assert (W1 := ext_wfh _ _ _ E W). assert (F1 := ext_ip _ _ _ _ E F'). assert (Hg1 := ext_clos _ _ _ _ _ E Hg).
    destruct i as [|i'].
    + (* last iteration *)
      change (0 <? Z.of_nat 0) with false in R. exists (Pos.succ (Pos.succ (next_t h))), d0.
      split; [exact Gt|]. split; [exact R|]. split; [exact D|].
      assert (Nn : ~ In (Pos.succ (Pos.succ (next_t h))) (t :: ip)) by (eapply notin_new; [exact F'|lia]).
      split; [destruct C2 as [pk2 G2]; eexists; split; [exact G2|reflexivity]|]. split; [exact Nn|].
      exists PLit. split; [cbn [links]; lia|]. split; [repeat split; auto|]. eexists; exact C2.
    + replace (0 <? Z.of_nat (S i')) with true in R by (symmetry; apply Z.ltb_lt; lia).
      exists (Pos.succ (next_t h)), d0.
      split; [exact Gt|]. split; [exact R|]. split; [exact D|].
      assert (Nn : ~ In (Pos.succ (next_t h)) (t :: ip)) by (eapply notin_new; [exact F'|lia]).
      split; [destruct C1 as [pk1 G1]; eexists; split; [exact G1|reflexivity]|]. split; [exact Nn|].
      exists (PRec i'). split; [cbn [links]; lia|]. split; [repeat split; auto|].
      exists a, aa, ae. split; [exact C1|]. replace (Z.of_nat i' + 1) with (Z.of_nat (S i')) by lia. exact Ca.
  - (* the recursive call: the function's body applied to the delayed decrement *)
    destruct St as (a & aa & ae & Ct & Ca).
    assert (Lt := cellis_valid _ _ _ _ _ W Ct).
    assert (F' : Forall (fun y => (y < next_t h)%positive) (t :: ip)) by (constructor; auto).
    destruct (head_rec 0 (t :: ip) h w g a W F' Hg) as (h1 & R & E & Can & Ctn).
    destruct Ct as [pk Gt]. eexists. exists 3%nat, h1, (Pos.succ (Pos.succ (next_t h))), 1%nat.
    assert (W1 := ext_wfh _ _ _ E W). assert (F1 := ext_ip _ _ _ _ E F'). assert (Hg1 := ext_clos _ _ _ _ _ E Hg).
    split; [exact Gt|]. split; [exact R|]. split; [lia|].
    assert (Nn : ~ In (Pos.succ (Pos.succ (next_t h))) (t :: ip)) by (eapply notin_new; [exact F'|lia]).
    split; [destruct Ctn as [pk2 G2]; eexists; split; [exact G2|reflexivity]|]. split; [exact Nn|].
    exists (PBody i). split; [cbn [links]; lia|]. split; [repeat split; auto|].
    exists (Pos.succ (next_t h)). split; [exact Ctn|]. split.
    + right; left. exists g, a, aa, ae. split; [exact Can|]. eapply ext_cell; [exact E|exact W|auto|exact Ca].
    + intros [X|X]; [lia|]. revert X. eapply notin_new; [exact F'|lia].
Qed.

Lemma loop_last g w : forall h t ip, P g 0 h t ip ->
  exists n h' r d, bs n ip h w (TThunk t) = Done h' w r d /\ (d <= 4)%nat /\ r = inl (VInt 0).
Proof.
  intros h t ip (p & Lk & Cm & St). destruct p as [|i|i]; cbn [links] in Lk; try lia.
  destruct St as (e & C). exists 2%nat. eexists. exists (inl (VInt 0)), 0%nat. split; [apply (eval_lit 0 ip h w t 0 s0 e C)|]. split; [lia|reflexivity].
Qed.

(* every state of the invariant is evaluated to 0 in at most 4 frames, however many links remain *)
Theorem loop_runs_in_constant_depth g w j h t ip : P g j h t ip ->
  exists n h' r d, bs n ip h w (TThunk t) = Done h' w r d /\ (d <= 4)%nat /\ r = inl (VInt 0).
Proof. exact (loop_constant_depth w 4 (fun r => r = inl (VInt 0)) (P g) (loop_step g w) (loop_last g w) j h t ip). Qed.

(* ---- the whole program: (fun n => (0 < n) selects [self (n-1); 0]) N ---- *)
Lemma run_NewClo rec ip h w b e k : run rec ip h w (NewClo b e k) = run rec ip (fst (newclo h b e)) w (k (next_f h)). Proof. reflexivity. Qed.
Lemma cellis_newclo h b e0 t a e c : cellis h t a e c -> cellis (fst (newclo h b e0)) t a e c.
Proof. intros [pk G]. exists pk. exact G. Qed.
Lemma wfh_newclo h b e : wfh h -> wfh (fst (newclo h b e)). Proof. intros W t L. exact (W t L). Qed.
Definition e0 : env := {| funs := []; args := [] |}.

Lemma head_program ip h w N :
  wfh h -> Forall (fun y => (y < next_t h)%positive) ip ->
  let g := next_f h in let a0 := Pos.succ (next_t h) in let tb := Pos.succ a0 in
  exists h', (forall m, run (bs (S (S (S m)))) ip h w (interpret (countdown N) e0) = Done h' w (inl (VThunk tb)) 1)
    /\ wfh h' /\ next_t h' = Pos.succ tb /\ PositiveMap.find g (clos h') = Some (loop_clo g)
    /\ cellis h' tb BODY (lenv g a0) None /\ cellis h' a0 (Lit N s0) e0 None.
Proof.
  intros W F g a0 tb. set (f0 := next_t h).
  set (hA := fst (alloc (fst (alloc h (FunDef BODY s0) e0)) (Lit N s0) e0)). set (hp := set_peeked hA f0).
  set (hc := fst (newclo hp BODY e0)). set (h1 := set_cache hc f0 (inl (VFun (FClo g)))). set (h2 := fst (alloc h1 BODY (lenv g a0))).
  assert (WA : wfh hA) by (apply wfh_alloc, wfh_alloc; exact W).
  assert (Wp : wfh hp) by (apply wfh_peek; exact WA).
  assert (Wc : wfh hc) by (apply wfh_newclo; exact Wp).
  assert (W1 : wfh h1) by (apply wfh_set; exact Wc).
  assert (NA : next_t hA = tb) by reflexivity.
  assert (Np : next_t hp = tb) by (unfold hp; rewrite next_peek; exact NA).
  assert (N1 : next_t h1 = tb) by (unfold h1; rewrite next_set; exact Np).
  assert (Cf : cellis hA f0 (FunDef BODY s0) e0 None) by (unfold hA; apply cellis_alloc_old; [rewrite next_alloc; unfold f0; lia|apply cellis_alloc_new]).
  assert (Cfp : cellis hp f0 (FunDef BODY s0) e0 None) by (apply cellis_peek; exact Cf).
  assert (Ca : cellis hA a0 (Lit N s0) e0 None) by (unfold hA, a0; rewrite <- (next_alloc h (FunDef BODY s0) e0); apply cellis_alloc_new).
  assert (gf : next_f hp = g) by (unfold hp; unfold set_peeked; destruct (get hA f0); reflexivity).
  assert (Rf : forall m, bs (S (S (S m))) ip hp w (TThunk f0) = Done h1 w (inl (VFun (FClo g))) 0).
  { intros m. destruct Cfp as [pk G]. rewrite (bs_thunk _ _ _ _ _ _ G). cbn [c_ast c_env interpret]. rewrite run_NewClo. fold hc. rewrite gf. reflexivity. }
  assert (Hg1 : PositiveMap.find g (clos h1) = Some (loop_clo g)).
  { unfold h1. rewrite clos_set. unfold hc, newclo. cbn [fst clos]. rewrite gf. apply PositiveMap.gss. }
  assert (Xf : existsb (Pos.eqb f0) ip = false) by (eapply notin_ip; [exact F|unfold f0; lia]).
  destruct Cf as [pkf Gf]. destruct Cfp as [pkp Gp].
  exists h2. split; [|split; [|split; [|split; [|split]]]].
  - intros m. unfold countdown. cbn [interpret]. rewrite run_Alloc. cbn [allocs_k app]. rewrite run_Alloc. cbn [allocs_k app].
    rewrite !next_alloc. fold f0 hA a0.
    unfold functional, strict_functional. cbn [bind].
    rewrite (run_Peek _ ip _ w _ _ _ Gf). cbn [c_ast lit_of bind force]. fold hp.
    rewrite (run_Force_eval _ ip hp w f0 _ _ h1 w _ 0 Gp eq_refl Xf (Rf m)).
    cbn [check_type forallb is_callable andb bind proc_functional orp is_bool orb is_fun is_seq is_dict]. unfold call.
    erewrite run_Call; [|rewrite bs_comp; cbn [proc_body apply_body];
      rewrite (run_AllocBody _ ip h1 w g _ _ _ Hg1); cbn [loop_clo f_body f_env funs args app]; fold (lenv g a0); rewrite N1; reflexivity].
    reflexivity.
  - apply wfh_alloc; exact W1.
  - unfold h2. rewrite next_alloc, N1. reflexivity.
  - exact Hg1.
  - unfold h2. rewrite <- N1. apply cellis_alloc_new.
  - unfold h2. apply cellis_alloc_old; [rewrite N1; unfold tb; lia|]. apply cellis_set_other; [unfold a0, f0; lia|]. apply cellis_newclo. apply cellis_peek. exact Ca.
Qed.

(* THE LOOP THEOREM: for EVERY N the countdown program evaluates to 0 and the evaluation never needs more than 4 frames above the one it runs in *)
Theorem countdown_constant_depth (N:nat) (w:world) :
  exists fuel h' d, bs fuel [] (fst (alloc heap0 (countdown (Z.of_nat N)) e0)) w (TThunk 1%positive) = Done h' w (inl (VInt 0)) d /\ (d <= 4)%nat.
Proof.
  set (h := fst (alloc heap0 (countdown (Z.of_nat N)) e0)).
  assert (W0 : wfh heap0) by (intros t _; apply PositiveMap.gempty).
  assert (W : wfh h) by (apply wfh_alloc; exact W0).
  assert (Ct : cellis h 1%positive (countdown (Z.of_nat N)) e0 None) by apply (cellis_alloc_new heap0).
  assert (F : Forall (fun y => (y < next_t h)%positive) [1%positive]) by (constructor; [reflexivity|constructor]).
  destruct (head_program [1%positive] h w (Z.of_nat N) W F) as (h1 & R & W1 & N1 & Hg & Cb & Ca).
  set (g := next_f h) in *. set (a0 := Pos.succ (next_t h)) in *. set (tb := Pos.succ a0) in *.
  destruct (loop_runs_in_constant_depth g w (2 * N + 1) h1 tb [1%positive]) as (n & h2 & r & d & Hb & Hd & Hr).
  { exists (PBody N). split; [reflexivity|]. split.
    - split; [exact W1|]. split; [constructor; [rewrite N1; unfold tb, a0; cbn; lia|constructor]|]. split; [|exact Hg].
      intros [X|[]]. unfold tb, a0 in X. cbn in X. discriminate.
    - exists a0. split; [exact Cb|]. split; [right; right; exists e0; exact Ca|].
      intros [X|[X|[]]]; unfold tb, a0 in X; cbn in X; try discriminate; try lia. }
  subst r. destruct Ct as [pk Gt]. destruct Cb as [pkb Gb].
  exists (S (S (S (S n)))), (set_cache h2 1%positive (inl (VInt 0))), (Nat.max 1 d). split; [|lia].
  rewrite (bs_thunk _ _ _ _ _ _ Gt). cbn [c_ast c_env]. rewrite (R n). rewrite Gb. cbn [c_cache].
  replace (existsb (Pos.eqb tb) [1%positive]) with false by (unfold tb, a0; reflexivity).
  rewrite (bs_fuel_mono n (S (S (S n))) _ _ _ _ _ _ _ _ ltac:(lia) Hb). reflexivity.
Qed.
Print Assumptions countdown_constant_depth.

(* the same for main.main on the program text: the printed result is "0" and the specification's demand depth is at most 5 for every N ... *)
Theorem countdown_main (N:nat) :
  exists fuel h' w' d, spec_main fuel (countdown (Z.of_nat N)) [] = Done h' w' (inl (VStr [48%N])) d /\ (d <= 5)%nat.
Proof.
  set (w := (world_start [] [])).
  destruct (countdown_constant_depth N w) as (fuel & h' & d & Hb & Hd).
  exists (S (S fuel)), h', w, (Nat.max (0 + Nat.max (1 + d) 0) 0). split; [|lia].
  unfold spec_main. change {| funs := []; args := [] |} with e0.
  change (alloc heap0 (countdown (Z.of_nat N)) e0) with (fst (alloc heap0 (countdown (Z.of_nat N)) e0), 1%positive). cbv beta iota.
  fold w. set (h := fst (alloc heap0 (countdown (Z.of_nat N)) e0)) in *.
  assert (Inner : bs (S fuel) [] h w (TComp (proc_body (PFormat (VThunk 1%positive) false))) = Done h' w (inl (VStr [48%N])) (Nat.max (1 + d) 0)).
  { rewrite bs_comp. cbn [proc_body]. unfold format_body. cbn [bind force].
    rewrite (run_Force_eval _ [] h w 1%positive _ _ h' w (VInt 0) d (get_alloc_new heap0 _ _) eq_refl eq_refl Hb). reflexivity. }
  rewrite bs_comp. unfold call. rewrite (run_Call _ [] h w _ _ h' w _ _ Inner). reflexivity.
Qed.
(* ... hence the trampolined machine of interpret.evaluate runs the loop, for every N, with at most 6 frames on its stack *)
Theorem countdown_machine_frames (N:nat) :
  exists d h' w' q', (d <= 5)%nat /\
    reach (1 + d) (m_heap (init (countdown (Z.of_nat N)) [])) (PositiveMap.empty _) (m_stack (init (countdown (Z.of_nat N)) [])) (m_world (init (countdown (Z.of_nat N)) []))
          h' q' [Fr None (retc (inl (VStr [48%N]))) []] w'.
Proof.
  destruct (countdown_main N) as (fuel & h' & w' & d & Hs & Hd).
  destruct (machine_implements_spec fuel _ _ _ _ _ _ Hs) as (q' & R).
  exists d, h', w', q'. split; [exact Hd|exact R].
Qed.
Print Assumptions countdown_machine_frames.

(* the statements are about an executable model: the same numbers come out of running it *)
Theorem countdown_runs : map (fun N => match spec_main 2000 (countdown N) [] with Done _ _ r d => Some (r, d) | _ => None end) [0; 1; 7; 300]
  = [Some (inl (VStr [48%N]), 4%nat); Some (inl (VStr [48%N]), 5%nat); Some (inl (VStr [48%N]), 5%nat); Some (inl (VStr [48%N]), 5%nat)].
Proof. vm_compute. reflexivity. Qed.
