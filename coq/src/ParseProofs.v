(* C09: parse_token / parse_tokens of Lex.v (the model of parse.parse_token / parse.parse) is the documented postfix stack machine:
   printing any syntax tree in postfix and parsing it returns the same tree INCLUDING every node's span; the parser is total on
   well-formed words (no host failure), and each rejection names the offending token. *)
From Coq Require Import ZArith NArith List Bool Lia.
Import ListNotations.
Require Import Base Num NumProofs Lex.
Require GenParse.
Open Scope N_scope.

(* ---------- the digit alphabet (regenerated): eight distinct letters, none of them ieung / hieuh ---------- *)
Definition dchar (d:Z) : N := nth (Z.to_nat d) GenParse.gen_digits 0.
Lemma digit_cases d : isdigit d -> (d = 0 \/ d = 1 \/ d = 2 \/ d = 3 \/ d = 4 \/ d = 5 \/ d = 6 \/ d = 7)%Z.
Proof. unfold isdigit. lia. Qed.
Lemma digit_roundtrip d : isdigit d -> index_of (dchar d) GenParse.gen_digits 0%Z = Some d.
Proof. intros H. destruct (digit_cases d H) as [->|[->|[->|[->|[->|[->|[->| ->]]]]]]]; vm_compute; reflexivity. Qed.
Lemma digit_not_marker d : isdigit d -> (dchar d =? HIEUH) = false /\ (dchar d =? IEUNG) = false.
Proof. intros H. destruct (digit_cases d H) as [->|[->|[->|[->|[->|[->|[->| ->]]]]]]]; vm_compute; split; reflexivity. Qed.
Lemma digits_of_word_map ds : Forall isdigit ds -> digits_of_word (map dchar ds) = Some ds.
Proof. induction 1 as [|d ds Hd _ IH]; cbn [map digits_of_word]; [reflexivity|]. rewrite (digit_roundtrip d Hd), IH. reflexivity. Qed.

Definition lit_word (n:Z) : list N := map dchar (encode n).
Lemma parse_number_lit n : parse_number (lit_word n) = Some n.
Proof. unfold parse_number, lit_word. rewrite digits_of_word_map by apply encode_digits. rewrite decode_encode. reflexivity. Qed.
Lemma lit_word_shape n : exists c r, lit_word n = c :: r /\ (c =? HIEUH) = false /\ (c =? IEUNG) = false.
Proof.
  unfold lit_word. pose proof (encode_digits n) as D. pose proof (encode_nonempty n) as NE.
  destruct (encode n) as [|d ds]; [congruence|]. inversion D; subst. cbn [map]. exists (dchar d), (map dchar ds).
  destruct (digit_not_marker d H1). auto.
Qed.
(* any spelling of n (padded with pairs of zero digits) reads as n too: C08's "all spellings are interchangeable" at the token level *)
Lemma parse_number_padded n k : parse_number (map dchar (encode n ++ repeat 0%Z (2 * k))) = Some n.
Proof.
  unfold parse_number. rewrite digits_of_word_map.
  - rewrite every_integer_has_spellings. reflexivity.
  - apply Forall_app. split; [apply encode_digits|]. apply Forall_forall. intros x Hx. apply repeat_spec in Hx. subst. unfold isdigit. lia.
Qed.

(* ---------- printing a tree in postfix ---------- *)
Fixpoint unparse (t:ast) : list tok :=
  match t with
  | Lit n m => [(lit_word n, m)]
  | FunRef n m => [(lit_word n, m); ([IEUNG], m)]
  | ArgRef a r m => unparse a ++ [(IEUNG :: lit_word r, m)]
  | FunDef b m => unparse b ++ [([HIEUH], m)]
  | FunCall f args m => flat_map unparse args ++ unparse f ++ [(HIEUH :: lit_word (Z.of_nat (length args)), m)]
  end.

Section AstInd.
  Variable P : ast -> Prop.
  Hypothesis HL : forall n m, P (Lit n m).
  Hypothesis HR : forall r m, P (FunRef r m).
  Hypothesis HA : forall a r m, P a -> P (ArgRef a r m).
  Hypothesis HD : forall b m, P b -> P (FunDef b m).
  Hypothesis HC : forall f args m, P f -> Forall P args -> P (FunCall f args m).
  Fixpoint ast_ind' (t:ast) : P t :=
    match t with
    | Lit n m => HL n m | FunRef r m => HR r m | ArgRef a r m => HA a r m (ast_ind' a) | FunDef b m => HD b m (ast_ind' b)
    | FunCall f args m => HC f args m (ast_ind' f)
        ((fix go (l:list ast) : Forall P l := match l with [] => Forall_nil P | x :: r => Forall_cons x (ast_ind' x) (go r) end) args)
    end.
End AstInd.

(* ---------- one lemma per word shape ---------- *)
Lemma tok_lit n m stk : parse_token (lit_word n, m) stk = inl (Lit n m :: stk).
Proof.
  destruct (lit_word_shape n) as (c & r & E & H1 & H2). unfold parse_token. rewrite E, H1, H2. rewrite <- E, parse_number_lit. reflexivity.
Qed.
Lemma tok_funref n m m0 stk : parse_token ([IEUNG], m) (Lit n m0 :: stk) = inl (FunRef n m :: stk).
Proof. reflexivity. Qed.
Lemma lit_word_cons k : exists c r, lit_word k = c :: r.
Proof. destruct (lit_word_shape k) as (c & r & E & _). eauto. Qed.
Lemma tok_argref r0 m a stk : parse_token (IEUNG :: lit_word r0, m) (a :: stk) = inl (ArgRef a r0 m :: stk).
Proof.
  unfold parse_token. change (IEUNG =? HIEUH) with false. change (IEUNG =? IEUNG) with true. cbv iota.
  destruct (lit_word_cons r0) as (c & r & E). rewrite E, <- E, parse_number_lit. reflexivity.
Qed.
Lemma tok_fundef m b stk : parse_token ([HIEUH], m) (b :: stk) = inl (FunDef b m :: stk).
Proof. reflexivity. Qed.
Lemma tok_funcall m f (args stk:list ast) :
  parse_token (HIEUH :: lit_word (Z.of_nat (length args)), m) (f :: rev args ++ stk) = inl (FunCall f args m :: stk).
Proof.
  unfold parse_token. change (HIEUH =? HIEUH) with true. cbv iota.
  destruct (lit_word_cons (Z.of_nat (length args))) as (c & r & E). rewrite E, <- E, parse_number_lit.
  assert (H : (Z.of_nat (length args) <? 0)%Z = false) by (apply Z.ltb_ge; lia). rewrite H.
  rewrite app_length, rev_length.
  assert (H0 : (Z.of_nat (length args + length stk) <? Z.of_nat (length args))%Z = false) by (apply Z.ltb_ge; lia). rewrite H0. rewrite Nat2Z.id.
  rewrite firstn_app, skipn_app, rev_length, Nat.sub_diag. cbn [firstn skipn].
  rewrite app_nil_r. rewrite <- (rev_length args) at 1 2. rewrite firstn_all, skipn_all. rewrite rev_involutive. reflexivity.
Qed.

Lemma run_app a b s : parse_tokens (a ++ b) s = match parse_tokens a s with inl s' => parse_tokens b s' | inr e => inr e end.
Proof. revert s; induction a as [|t a IH]; intros s; cbn [app parse_tokens]; auto. destruct (parse_token t s); auto. Qed.

Lemma run_unparse : forall t rest stk, parse_tokens (unparse t ++ rest) stk = parse_tokens rest (t :: stk).
Proof.
  induction t as [n m|r m|a r m IH|b m IH|f args m IHf IHargs] using ast_ind'; intros rest stk; cbn [unparse].
  - cbn [app parse_tokens]. rewrite tok_lit. reflexivity.
  - cbn [app parse_tokens]. rewrite tok_lit, tok_funref. reflexivity.
  - rewrite <- app_assoc, IH. cbn [app parse_tokens]. rewrite tok_argref. reflexivity.
  - rewrite <- app_assoc, IH. cbn [app parse_tokens]. rewrite tok_fundef. reflexivity.
  - assert (Hargs : forall rest stk, parse_tokens (flat_map unparse args ++ rest) stk = parse_tokens rest (rev args ++ stk)).
    { clear IHf. induction IHargs as [|x l Hx Hl IHl]; intros rest' stk'; cbn [flat_map rev app]; auto.
      rewrite <- app_assoc. rewrite Hx. rewrite IHl. rewrite <- app_assoc. reflexivity. }
    rewrite <- !app_assoc. rewrite Hargs. rewrite IHf. cbn [app parse_tokens]. rewrite tok_funcall. reflexivity.
Qed.

(* T1: printing any forest in postfix and parsing it returns the same forest, spans included; unbounded size, arity and depth *)
Theorem parse_unparse : forall ts, parse_tokens (flat_map unparse ts) [] = inl (rev ts).
Proof.
  intros ts.
  assert (H : forall stk, parse_tokens (flat_map unparse ts) stk = inl (rev ts ++ stk)).
  { induction ts as [|t ts IH]; intros stk; cbn [flat_map rev app]; auto.
    rewrite run_unparse. rewrite IH. rewrite <- app_assoc. reflexivity. }
  rewrite H, app_nil_r. reflexivity.
Qed.
(* T4: a call keeps the popped arguments in source order *)
Theorem argument_order f args m stk :
  parse_tokens (flat_map unparse args ++ unparse f ++ [(HIEUH :: lit_word (Z.of_nat (length args)), m)]) stk = inl (FunCall f args m :: stk).
Proof. pose proof (run_unparse (FunCall f args m) [] stk) as H. cbn [unparse] in H. rewrite app_nil_r in H. exact H. Qed.
(* T2: a text yields as many trees as its words leave on the stack: each word's net effect on the stack height *)
Definition height_effect (t:tok) (h:nat) : option nat :=
  match fst t with
  | c :: rest =>
      if c =? HIEUH then match rest with [] => if (1 <=? h)%nat then Some h else None
                                    | _ => match parse_number rest with Some k => if (k <? 0)%Z then None else if (Z.to_nat k + 1 <=? h)%nat then Some (h - Z.to_nat k)%nat else None | None => None end end
      else if c =? IEUNG then (if (1 <=? h)%nat then Some h else None)
      else Some (S h)
  | [] => None
  end.
Theorem stack_count t stk stk' : parse_token t stk = inl stk' -> height_effect t (length stk) = Some (length stk').
Proof.
  destruct t as [w m]. unfold parse_token, height_effect. cbn [fst]. destruct w as [|c rest]; [discriminate|].
  destruct (c =? HIEUH).
  - destruct rest as [|c2 r2].
    + destruct stk as [|b r]; [discriminate|]. intros H; inversion H; subst. reflexivity.
    + destruct (parse_number (c2 :: r2)) as [k|]; [|discriminate]. destruct (Z.ltb_spec k 0) as [K0|K0]; [discriminate|].
      destruct stk as [|f r]; [discriminate|]. cbn [length].
      destruct (Z.ltb_spec (Z.of_nat (length r)) k); [discriminate|]. intros E; inversion E; subst. cbn [length]. rewrite skipn_length.
      replace (Z.to_nat k + 1 <=? S (length r))%nat with true by (symmetry; apply Nat.leb_le; lia). f_equal. lia.
  - destruct (c =? IEUNG).
    + destruct rest as [|c2 r2].
      * destruct stk as [|[n m0| | | |] r]; try discriminate; intros E; inversion E; subst; reflexivity.
      * destruct (parse_number (c2 :: r2)); [|discriminate]. destruct stk as [|a r]; [discriminate|]. intros E; inversion E; subst. reflexivity.
    + destruct (parse_number (c :: rest)); [|discriminate]. intros E; inversion E; subst. reflexivity.
Qed.

(* ---------- T3: totality on well-formed words.  tokenize only produces words of the shapes below (C01 table_words_wellformed) ---------- *)
Definition all_digits (w:list N) : bool := forallb (fun c => existsb (N.eqb c) GenParse.gen_digits) w.
Definition tok_wf (t:tok) : bool :=
  match fst t with
  | c :: rest => if (c =? HIEUH) || (c =? IEUNG) then all_digits rest else all_digits (c :: rest)
  | [] => false end.
Lemma index_of_some c l i : existsb (N.eqb c) l = true -> exists d, index_of c l i = Some d.
Proof.
  revert i; induction l as [|x l IH]; intros i H; cbn [existsb index_of] in *; [discriminate|].
  rewrite (N.eqb_sym x c). destruct (c =? x); [eauto|]. cbn [orb] in H. apply IH. exact H.
Qed.
Lemma all_digits_number w : all_digits w = true -> exists n, parse_number w = Some n.
Proof.
  unfold parse_number. intros H. assert (exists ds, digits_of_word w = Some ds).
  { induction w as [|c w IH]; cbn [digits_of_word]; [eauto|]. cbn [all_digits forallb] in H. apply andb_true_iff in H. destruct H as [H1 H2].
    destruct (index_of_some c GenParse.gen_digits 0%Z H1) as [d ->]. destruct (IH H2) as [ds ->]. eauto. }
  destruct H0 as [ds ->]. eauto.
Qed.
Theorem parse_total t stk : tok_wf t = true -> parse_token t stk <> inr HostValueError.
Proof.
  destruct t as [w m]. unfold tok_wf, parse_token. cbn [fst]. destruct w as [|c rest]; [discriminate|].
  destruct (c =? HIEUH) eqn:E1; cbn [orb].
  - intros H. destruct rest as [|c2 r2]; [destruct stk; discriminate|]. destruct (all_digits_number _ H) as [k ->].
    destruct (k <? 0)%Z; [discriminate|]. destruct stk; [discriminate|]. destruct (_ <? _)%Z; discriminate.
  - destruct (c =? IEUNG) eqn:E2.
    + intros H. destruct rest as [|c2 r2]; [destruct stk as [|[]]; discriminate|]. destruct (all_digits_number _ H) as [k ->]. destruct stk; discriminate.
    + intros H. destruct (all_digits_number _ H) as [k ->]. discriminate.
Qed.
(* a rejection carries the span of exactly the token that was rejected, and everything before it was accepted *)
Theorem rejection_names_token : forall ts stk e sp, parse_tokens ts stk = inr (e, sp) ->
  exists pre t post stk', ts = pre ++ t :: post /\ parse_tokens pre stk = inl stk' /\ parse_token t stk' = inr e /\ sp = snd t.
Proof.
  induction ts as [|t ts IH]; intros stk e sp H; cbn [parse_tokens] in H; [discriminate|].
  destruct (parse_token t stk) as [s|e'] eqn:E.
  - destruct (IH _ _ _ H) as (pre & t' & post & stk' & -> & Hp & Ht & Hs). exists (t :: pre), t', post, stk'. cbn [app parse_tokens]. rewrite E. auto.
  - inversion H; subst. exists [], t, ts, stk. auto.
Qed.
(* every accepted token creates exactly one node and that node carries the token's span *)
Theorem span_exact t stk stk' : parse_token t stk = inl stk' -> exists a r, stk' = a :: r /\ ast_span a = snd t.
Proof.
  destruct t as [w m]. unfold parse_token. destruct w as [|c rest]; [discriminate|].
  destruct (c =? HIEUH).
  - destruct rest; [destruct stk; [discriminate|]; intros E; inversion E; subst; eauto|].
    destruct (parse_number _); [|discriminate]. destruct (_ <? 0)%Z; [discriminate|]. destruct stk; [discriminate|].
    destruct (_ <? _)%Z; [discriminate|]. intros E; inversion E; subst; eauto.
  - destruct (c =? IEUNG).
    + destruct rest; [destruct stk as [|[]]; try discriminate; intros E; inversion E; subst; eauto|].
      destruct (parse_number _); [|discriminate]. destruct stk; [discriminate|]. intros E; inversion E; subst; eauto.
    + destruct (parse_number _); [|discriminate]. intros E; inversion E; subst; eauto.
Qed.
