(* C15 inside the main model, the missing link: the tree that ModFS.tree_of_disk builds from a flat disk only has paths that ARE disk files,
   so the file ImpSearch.search finds in it is a file of the disk whose path components - normalised as module._matches_literal normalises
   directory entries - carry exactly the requested literals *)
From Coq Require Import ZArith NArith List Bool Lia.
Import ListNotations.
Require Import Base Lex ImpSearch ImportProofs ModFS.

Lemma name_eqb_eq a b : name_eqb a b = true -> a = b.
Proof. unfold name_eqb. destruct (list_eq_dec N.eq_dec a b); [auto|discriminate]. Qed.
Lemma in_under files nm r0 i :
  In (r0, i) (flat_map (fun x : list (list N) * N => match fst x with c :: r => if name_eqb c nm then [(r, snd x)] else [] | [] => [] end) files) -> In (nm :: r0, i) files.
Proof.
  intros H. apply in_flat_map in H. destruct H as ([cs j] & Hin & H). cbn [fst snd] in H. destruct cs as [|c r]; [contradiction|].
  destruct (name_eqb c nm) eqn:E; [|contradiction]. destruct H as [H|[]]. inversion H; subst. apply name_eqb_eq in E. subst. exact Hin.
Qed.
(* every path of the built tree is (the normalised form of) the remaining components of one of the files it was built from *)
Lemma resolves_build : forall fuel files p id, resolves (build fuel files) p id -> exists cs, In (cs, id) files /\ p = map norm_name cs.
Proof.
  induction fuel as [|f IH]; intros files p id R; cbn [build] in R.
  - destruct p as [|nm r]; cbn [resolves] in R; [contradiction|]. destruct R as (c & [] & _).
  - destruct p as [|nm' r]; cbn [resolves] in R; [contradiction|]. destruct R as (c & Hin & Rc).
    apply in_map_iff in Hin. destruct Hin as (nm & Heq & _). inversion Heq as [[E1 E2]]; clear Heq. subst nm'.
    set (under := flat_map (fun x : list (list N) * N => match fst x with c0 :: r0 => if name_eqb c0 nm then [(r0, snd x)] else [] | [] => [] end) files) in *.
    destruct (find (fun x : list (list N) * N => match fst x with [] => true | _ :: _ => false end) under) as [x|] eqn:F; subst c.
    + destruct r as [|a b]; cbn [resolves] in Rc; [|contradiction]. subst id. apply find_some in F. destruct F as [Hx Ex]. destruct x as [rx ix]. cbn [fst snd] in *.
      destruct rx; [|discriminate]. exists [nm]. split; [apply (in_under files nm [] ix Hx)|reflexivity].
    + destruct (IH under r id Rc) as (cs' & Hin' & Er). exists (nm :: cs'). split; [apply in_under; exact Hin'|cbn [map]; rewrite Er; reflexivity].
Qed.
Lemma in_number {A} (l:list A) : forall k x i, In (x, i) (number l k) -> (k <= i)%N /\ nth_error l (N.to_nat (i - k)) = Some x.
Proof.
  induction l as [|a l IH]; intros k x i H; cbn [number] in H; [contradiction|]. destruct H as [H|H].
  - inversion H; subst. split; [lia|]. rewrite N.sub_diag. reflexivity.
  - destruct (IH _ _ _ H) as [L E]. split; [lia|]. replace (N.to_nat (i - k)) with (S (N.to_nat (i - (k + 1)))) by lia. exact E.
Qed.
(* the file the evaluator's ㅂ finds by literal words: a file OF THE DISK, and each component of its name, normalised like a directory entry,
   reads as the literal requested at that depth *)
Theorem found_file_carries_the_literals disk lits p id : search lits (tree_of_disk disk) = Found p id ->
  exists nm bytes, nth_error disk (N.to_nat id) = Some (nm, bytes) /\ map (fun c => name_lit (norm_name c)) (comps nm) = map Some lits.
Proof.
  intros S. apply found_is_unique in S. assert (Hin : In (p, id) (all_paths lits (tree_of_disk disk))) by (rewrite S; left; reflexivity).
  destruct (paths_sound _ _ _ _ Hin) as [R M]. unfold tree_of_disk in R. apply resolves_build in R. destruct R as (cs & Hcs & Ep).
  apply in_map_iff in Hcs. destruct Hcs as ([[nm bytes] i] & Heq & Hnum). cbn [fst snd] in Heq. inversion Heq; subst. clear Heq.
  apply in_number in Hnum. destruct Hnum as [_ E]. rewrite N.sub_0_r in E. exists nm, bytes. split; [exact E|]. rewrite map_map in M. exact M.
Qed.

(* ---------- the converse: a disk file whose components carry the literals IS a path of the tree ---------- *)
(* well-formed file lists: one file per component list, and no file's name continues another file's name (a name is a file or a directory, not both) *)
Definition files_wf (files:list (list (list N) * N)) : Prop :=
  (forall cs i j, In (cs, i) files -> In (cs, j) files -> i = j) /\ (forall cs ds i j, In (cs, i) files -> In (cs ++ ds, j) files -> ds = []).
Definition under (nm:list N) (files:list (list (list N) * N)) :=
  flat_map (fun x : list (list N) * N => match fst x with c :: r => if name_eqb c nm then [(r, snd x)] else [] | [] => [] end) files.
Lemma name_eqb_refl a : name_eqb a a = true. Proof. unfold name_eqb. destruct (list_eq_dec N.eq_dec a a); [reflexivity|contradiction]. Qed.
Lemma name_eqb_neq a b : a <> b -> name_eqb a b = false. Proof. unfold name_eqb. destruct (list_eq_dec N.eq_dec a b); [contradiction|reflexivity]. Qed.
Lemma under_in files nm r i : In (nm :: r, i) files -> In (r, i) (under nm files).
Proof. intros H. unfold under. apply in_flat_map. exists (nm :: r, i). split; auto. cbn [fst snd]. rewrite name_eqb_refl. left; reflexivity. Qed.
Lemma wf_under files nm : files_wf files -> files_wf (under nm files).
Proof.
  intros [U P]. split.
  - intros cs i j Hi Hj. apply in_under in Hi. apply in_under in Hj. eapply U; eauto.
  - intros cs ds i j Hi Hj. apply in_under in Hi. apply in_under in Hj. eapply (P (nm :: cs) ds); eauto.
Qed.
Lemma in_dedup x : forall l, In x l -> In x (dedup l).
Proof.
  induction l as [|a l IH]; intros H; [contradiction|]. cbn [dedup]. destruct (list_eq_dec N.eq_dec a x) as [E|E]; [left; exact E|right].
  apply filter_In. split. apply IH. destruct H as [H|H]; [contradiction|exact H]. rewrite name_eqb_neq by exact E. reflexivity.
Qed.
Lemma find_first {A} (f:A -> bool) l y : In y l -> f y = true -> exists x, find f l = Some x /\ In x l /\ f x = true.
Proof.
  induction l as [|a l IH]; intros H Fy; [contradiction|]. cbn [find]. destruct (f a) eqn:Fa; [exists a; repeat split; auto; left; reflexivity|].
  destruct H as [H|H]; [subst; congruence|]. destruct (IH H Fy) as (x & E & I & Fx). exists x. repeat split; auto. right; exact I.
Qed.
Lemma build_complete : forall fuel files cs i lits, files_wf files -> In (cs, i) files -> cs <> [] -> (length cs <= fuel)%nat ->
  map (fun c => name_lit (norm_name c)) cs = map Some lits -> In (map norm_name cs, i) (all_paths lits (build fuel files)).
Proof.
  induction fuel as [|f IH]; intros files cs i lits WF Hin NE L M.
  - destruct cs; [contradiction|cbn in L; lia].
  - destruct cs as [|c r]; [contradiction|]. destruct lits as [|l sub]; [discriminate|]. cbn [map] in M. inversion M as [[Ml Ms]]. clear M.
    cbn [build all_paths]. fold (under c files).
    apply in_flat_map. eexists (norm_name c, _). split.
    + apply in_map_iff. exists c. split; [reflexivity|]. apply in_dedup. apply in_flat_map. exists (c :: r, i). split; auto. left; reflexivity.
    + cbn [fst snd]. unfold lit_eqb. rewrite Ml, Z.eqb_refl. apply in_map_iff.
      exists (map norm_name r, i). split; [reflexivity|].
      destruct r as [|c2 r2].
      * destruct sub; [|discriminate]. cbn [map].
        destruct (find_first (fun x : list (list N) * N => match fst x with [] => true | _ :: _ => false end) (under c files) ([], i) (under_in files c [] i Hin) eq_refl) as (x & F & Ix & Px).
        fold (under c files). rewrite F. destruct x as [rx ix]. cbn [fst snd] in *. destruct rx; [|discriminate].
        apply in_under in Ix. destruct WF as [U _]. rewrite (U [c] ix i Ix Hin). cbn [all_paths]. left; reflexivity.
      * fold (under c files).
        destruct (find (fun x : list (list N) * N => match fst x with [] => true | _ :: _ => false end) (under c files)) as [x|] eqn:F.
        -- exfalso. apply find_some in F. destruct F as [Ix Px]. destruct x as [rx ix]. cbn [fst] in Px. destruct rx; [|discriminate].
           apply in_under in Ix. destruct WF as [_ P]. specialize (P [c] (c2 :: r2) ix i Ix Hin). discriminate.
        -- apply IH; auto. apply wf_under; exact WF. apply under_in; exact Hin. discriminate. cbn [length] in *. lia.
Qed.
Lemma number_in {A} (l:list A) : forall n k x, nth_error l n = Some x -> In (x, (k + N.of_nat n)%N) (number l k).
Proof.
  induction l as [|a l IH]; intros n k x H; destruct n; cbn [nth_error] in H; try discriminate.
  - inversion H; subst. cbn [number]. left. f_equal. lia.
  - cbn [number]. right. replace (k + N.of_nat (S n))%N with ((k + 1) + N.of_nat n)%N by lia. apply IH; exact H.
Qed.
Lemma split_on_nonempty sep l cur : split_on sep l cur <> [].
Proof. revert cur. induction l as [|c r IH]; intros cur; cbn [split_on]; [discriminate|]. destruct (N.eqb c sep); [discriminate|apply IH]. Qed.
Lemma le_fold_max (l:list nat) x : In x l -> (x <= fold_right Nat.max 0%nat l)%nat.
Proof. induction l as [|a l IH]; intros H; [contradiction|]. cbn [fold_right]. destruct H as [H|H]; [subst; lia|specialize (IH H); lia]. Qed.
Definition disk_files (disk:list (list N * list N)) := map (fun x : (list N * list N) * N => (comps (fst (fst x)), snd x)) (number disk 0%N).
(* on a well-formed disk, EVERY file whose name components (normalised like directory entries) read as the requested literals is a path of the
   tree the evaluator searches - so "not found" means that no file of the disk matches, and a matching file is found or reported ambiguous *)
Theorem matching_file_is_a_path disk lits n nm bytes : files_wf (disk_files disk) -> nth_error disk n = Some (nm, bytes) ->
  map (fun c => name_lit (norm_name c)) (comps nm) = map Some lits -> In (map norm_name (comps nm), N.of_nat n) (all_paths lits (tree_of_disk disk)).
Proof.
  intros WF Hn M. unfold tree_of_disk. fold (disk_files disk).
  assert (Hin : In (comps nm, N.of_nat n) (disk_files disk)).
  { unfold disk_files. apply in_map_iff. exists ((nm, bytes), N.of_nat n). split; [reflexivity|]. apply (number_in disk n 0%N (nm, bytes) Hn). }
  apply build_complete; auto. apply split_on_nonempty.
  apply le_S. apply le_fold_max. apply in_map_iff. exists (comps nm, N.of_nat n). split; [reflexivity|exact Hin].
Qed.
Corollary not_found_means_no_match disk lits : files_wf (disk_files disk) -> search lits (tree_of_disk disk) = NotFound ->
  forall n nm bytes, nth_error disk n = Some (nm, bytes) -> map (fun c => name_lit (norm_name c)) (comps nm) <> map Some lits.
Proof. intros WF S n nm bytes Hn M. apply not_found_iff in S. pose proof (matching_file_is_a_path disk lits n nm bytes WF Hn M) as H. rewrite S in H. exact H. Qed.
(* ---------- and a single matching file is FOUND: no file is reached along two routes ---------- *)
Lemma nodup_app {A} (l1 l2:list A) : NoDup l1 -> NoDup l2 -> (forall x, In x l1 -> ~ In x l2) -> NoDup (l1 ++ l2).
Proof.
  induction l1 as [|a l1 IH]; intros N1 N2 D; [exact N2|]. cbn [app]. inversion N1 as [|? ? Ha N1']; subst. constructor.
  - intros H. apply in_app_or in H. destruct H as [H|H]; [contradiction|]. apply (D a); [left; reflexivity|exact H].
  - apply IH; auto. intros x Hx. apply D. right; exact Hx.
Qed.
Lemma nodup_flat_map {A B} (f:A -> list B) l : (forall x, In x l -> NoDup (f x)) ->
  (forall x y b, In x l -> In y l -> In b (f x) -> In b (f y) -> x = y) -> NoDup l -> NoDup (flat_map f l).
Proof.
  induction l as [|a l IH]; intros Nf D Nl; [constructor|]. cbn [flat_map]. inversion Nl as [|? ? Ha Nl']; subst. apply nodup_app.
  - apply Nf. left; reflexivity.
  - apply IH; auto. intros x Hx. apply Nf. right; exact Hx. intros x y b Hx Hy. apply D; right; assumption.
  - intros b Hb Hb'. apply in_flat_map in Hb'. destruct Hb' as (y & Hy & Hby). assert (a = y) by (apply (D a y b); auto; [left; reflexivity|right; exact Hy]). subst. contradiction.
Qed.
Lemma nodup_dedup l : NoDup (dedup l).
Proof.
  induction l as [|a l IH]; cbn [dedup]; constructor.
  - intros H. apply filter_In in H. destruct H as [_ H]. rewrite name_eqb_refl in H. discriminate.
  - apply NoDup_filter. exact IH.
Qed.
Lemma same_id_same_file {A} (l:list (A * N)) : NoDup (map snd l) -> forall a b i, In (a, i) l -> In (b, i) l -> a = b.
Proof.
  induction l as [|[c j] l IH]; intros Nl a b i Ha Hb; [contradiction|]. cbn [map snd] in Nl. inversion Nl as [|? ? Hj Nl']; subst.
  destruct Ha as [Ha|Ha]; destruct Hb as [Hb|Hb].
  - congruence.
  - inversion Ha; subst. exfalso. apply Hj. apply in_map_iff. exists (b, i). split; auto.
  - inversion Hb; subst. exfalso. apply Hj. apply in_map_iff. exists (a, i). split; auto.
  - eapply IH; eauto.
Qed.
Lemma under_ids files nm i : In i (map snd (under nm files)) -> In i (map snd files).
Proof. intros H. apply in_map_iff in H. destruct H as ([r j] & E & H). cbn [snd] in E. subst j. apply in_under in H. apply in_map_iff. exists (nm :: r, i). split; auto. Qed.
Lemma nodup_under nm : forall files, NoDup (map snd files) -> NoDup (map snd (under nm files)).
Proof.
  induction files as [|[cs j] files IH]; intros Nl; [constructor|]. cbn [map snd] in Nl. inversion Nl as [|? ? Hj Nl']; subst.
  unfold under. cbn [flat_map fst snd]. fold (under nm files). destruct cs as [|c r]; [apply IH; exact Nl'|].
  destruct (name_eqb c nm); [|apply IH; exact Nl']. cbn [app map snd]. constructor; [|apply IH; exact Nl']. intros H. apply Hj. eapply under_ids; exact H.
Qed.
Lemma path_ids fuel files lits p i : In (p, i) (all_paths lits (build fuel files)) -> In i (map snd files).
Proof. intros H. destruct (paths_sound _ _ _ _ H) as [R _]. apply resolves_build in R. destruct R as (cs & Hcs & _). apply in_map_iff. exists (cs, i). split; auto. Qed.
Lemma map_snd_flat_map {A B C} (f:A -> list (B * C)) l : map snd (flat_map f l) = flat_map (fun x => map snd (f x)) l.
Proof. induction l as [|a l IH]; [reflexivity|]. cbn [flat_map]. rewrite map_app, IH. reflexivity. Qed.
Lemma flat_map_map {A B C} (h:A -> B) (f:B -> list C) l : flat_map f (map h l) = flat_map (fun x => f (h x)) l.
Proof. induction l as [|a l IH]; [reflexivity|]. cbn [map flat_map]. rewrite IH. reflexivity. Qed.
Definition entry_ids (f:nat) (files:list (list (list N) * N)) (l:Z) (sub:list Z) (c:list N) : list N :=
  map snd (if lit_eqb (name_lit (norm_name c)) l then map (fun pi : list (list N) * N => (norm_name c :: fst pi, snd pi))
    (all_paths sub match find (fun x : list (list N) * N => match fst x with [] => true | _ :: _ => false end) (under c files) with Some x => TFile (snd x) | None => build f (under c files) end) else []).
Lemma entry_ids_in f files l sub c b : In b (entry_ids f files l sub c) -> exists r, In (c :: r, b) files.
Proof.
  unfold entry_ids. intros H. destruct (lit_eqb (name_lit (norm_name c)) l); [|contradiction]. rewrite map_map in H. cbn [snd] in H.
  destruct (find (fun x : list (list N) * N => match fst x with [] => true | _ :: _ => false end) (under c files)) as [x|] eqn:F.
  - apply find_some in F. destruct F as [Ix _]. destruct x as [rx ix]. cbn [snd] in H. destruct sub; cbn [all_paths map] in H; [|contradiction].
    destruct H as [H|[]]. cbn [snd] in H. subst ix. exists rx. apply in_under. exact Ix.
  - apply in_map_iff in H. destruct H as ([q j] & E & H). cbn [snd] in E. subst j. apply path_ids in H. apply in_map_iff in H.
    destruct H as ([r j] & E & H). cbn [snd] in E. subst j. exists r. apply in_under. exact H.
Qed.
Lemma build_ids_nodup : forall fuel files lits, NoDup (map snd files) -> NoDup (map snd (all_paths lits (build fuel files))).
Proof.
  induction fuel as [|f IH]; intros files lits Nl.
  - cbn [build]. destruct lits; cbn [all_paths flat_map map]; constructor.
  - destruct lits as [|l sub]; [cbn [build all_paths map]; constructor|]. cbn [build all_paths].
    rewrite map_snd_flat_map, flat_map_map. cbn [fst snd].
    change (NoDup (flat_map (entry_ids f files l sub) (dedup (flat_map (fun x : list (list N) * N => match fst x with c :: _ => [c] | [] => [] end) files)))).
    apply nodup_flat_map; [| |apply nodup_dedup].
    + intros c _. unfold entry_ids. destruct (lit_eqb (name_lit (norm_name c)) l); [|constructor]. rewrite map_map. cbn [snd].
      destruct (find (fun x : list (list N) * N => match fst x with [] => true | _ :: _ => false end) (under c files)) as [x|].
      * destruct sub; cbn [all_paths map]; repeat constructor. intros [].
      * apply IH. apply nodup_under. exact Nl.
    + intros c c' b _ _ Hb Hb'. destruct (entry_ids_in _ _ _ _ _ _ Hb) as (r & Hr). destruct (entry_ids_in _ _ _ _ _ _ Hb') as (r' & Hr').
      pose proof (same_id_same_file files Nl _ _ _ Hr Hr') as E. congruence.
Qed.
Lemma number_ids {A} (l:list A) : forall k, NoDup (map snd (number l k)) /\ (forall i, In i (map snd (number l k)) -> (k <= i)%N).
Proof.
  induction l as [|a l IH]; intros k; cbn [number map snd]; [split; [constructor|intros i []]|]. destruct (IH (k + 1)%N) as [Nl Ge]. split.
  - constructor; [|exact Nl]. intros H. apply Ge in H. lia.
  - intros i [H|H]; [lia|]. apply Ge in H. lia.
Qed.
Lemma one_of_a_kind {A} (l:list (A * N)) a n : NoDup (map snd l) -> In (a, n) l -> (forall b j, In (b, j) l -> j = n) -> l = [(a, n)].
Proof.
  intros Nl Hin All. destruct l as [|[b j] l]; [contradiction|]. assert (j = n) by (apply (All b j); left; reflexivity). subst j.
  destruct l as [|[c k] l].
  - destruct Hin as [Hin|[]]. rewrite Hin. reflexivity.
  - exfalso. assert (k = n) by (apply (All c k); right; left; reflexivity). subst k. cbn [map snd] in Nl. inversion Nl as [|? ? Hn _]. apply Hn. left; reflexivity.
Qed.
(* on a well-formed disk, when exactly one file carries the literals, the search FINDS it (it is neither missing nor ambiguous) *)
Theorem single_match_is_found disk lits n nm bytes : files_wf (disk_files disk) -> nth_error disk n = Some (nm, bytes) ->
  map (fun c => name_lit (norm_name c)) (comps nm) = map Some lits ->
  (forall n' nm' bytes', nth_error disk n' = Some (nm', bytes') -> map (fun c => name_lit (norm_name c)) (comps nm') = map Some lits -> n' = n) ->
  search lits (tree_of_disk disk) = Found (map norm_name (comps nm)) (N.of_nat n).
Proof.
  intros WF Hn M Only. rewrite search_is_classify.
  rewrite (one_of_a_kind (all_paths lits (tree_of_disk disk)) (map norm_name (comps nm)) (N.of_nat n)); [reflexivity| |apply matching_file_is_a_path with bytes; assumption|].
  - unfold tree_of_disk. apply build_ids_nodup. rewrite map_map. cbn [snd]. apply (number_ids disk 0%N).
  - intros q j Hq. destruct (paths_sound _ _ _ _ Hq) as [R Mq]. unfold tree_of_disk in R. apply resolves_build in R. destruct R as (cs & Hcs & Ep).
    apply in_map_iff in Hcs. destruct Hcs as ([[nm' bytes'] i] & Heq & Hnum). cbn [fst snd] in Heq. inversion Heq; subst. clear Heq.
    apply in_number in Hnum. destruct Hnum as [_ E]. rewrite N.sub_0_r in E. rewrite map_map in Mq. rewrite <- (Only _ _ _ E Mq). lia.
Qed.
(* a path of the searched tree is a disk file that carries the literals (the soundness half, for any path - found_file_carries_the_literals is its
   special case), hence: no matching file, no path, "not found" *)
Lemma path_is_a_matching_file disk lits q j : In (q, j) (all_paths lits (tree_of_disk disk)) ->
  exists nm bytes, nth_error disk (N.to_nat j) = Some (nm, bytes) /\ map (fun c => name_lit (norm_name c)) (comps nm) = map Some lits.
Proof.
  intros Hq. destruct (paths_sound _ _ _ _ Hq) as [R Mq]. unfold tree_of_disk in R. apply resolves_build in R. destruct R as (cs & Hcs & Ep).
  apply in_map_iff in Hcs. destruct Hcs as ([[nm bytes] i] & Heq & Hnum). cbn [fst snd] in Heq. inversion Heq; subst. clear Heq.
  apply in_number in Hnum. destruct Hnum as [_ E]. rewrite N.sub_0_r in E. exists nm, bytes. split; [exact E|]. rewrite map_map in Mq. exact Mq.
Qed.
Theorem no_match_is_not_found disk lits :
  (forall n nm bytes, nth_error disk n = Some (nm, bytes) -> map (fun c => name_lit (norm_name c)) (comps nm) <> map Some lits) ->
  search lits (tree_of_disk disk) = NotFound.
Proof.
  intros No. apply not_found_iff. destruct (all_paths lits (tree_of_disk disk)) as [|[q j] r] eqn:E; [reflexivity|exfalso].
  destruct (path_is_a_matching_file disk lits q j) as (nm & bytes & Hn & M); [rewrite E; left; reflexivity|]. exact (No _ _ _ Hn M).
Qed.
(* two different files that both carry the literals: ambiguous *)
Lemma two_paths_ambiguous (l:list (list (list N) * N)) a b : In a l -> In b l -> a <> b -> classify l = Ambiguous.
Proof.
  intros Ha Hb Ne. destruct l as [|x [|y r]]; [contradiction| |destruct x; reflexivity].
  destruct Ha as [Ha|[]]. destruct Hb as [Hb|[]]. congruence.
Qed.
Theorem two_matches_are_ambiguous disk lits n1 nm1 bytes1 n2 nm2 bytes2 : files_wf (disk_files disk) -> n1 <> n2 ->
  nth_error disk n1 = Some (nm1, bytes1) -> map (fun c => name_lit (norm_name c)) (comps nm1) = map Some lits ->
  nth_error disk n2 = Some (nm2, bytes2) -> map (fun c => name_lit (norm_name c)) (comps nm2) = map Some lits ->
  search lits (tree_of_disk disk) = Ambiguous.
Proof.
  intros WF Ne H1 M1 H2 M2. rewrite search_is_classify.
  apply (two_paths_ambiguous _ (map norm_name (comps nm1), N.of_nat n1) (map norm_name (comps nm2), N.of_nat n2)).
  - apply matching_file_is_a_path with bytes1; assumption.
  - apply matching_file_is_a_path with bytes2; assumption.
  - intros E. inversion E. lia.
Qed.
(* the premises hold somewhere: the one-file disk "ㄴ/ㄷ.t" is well formed and its file matches the literals 1, 2 *)
Example wf_holds_somewhere : let disk := [([12596; 47; 12599; 46; 116]%N, [227; 132; 183]%N)] in
  files_wf (disk_files disk) /\ map (fun c => name_lit (norm_name c)) (comps [12596; 47; 12599; 46; 116]%N) = map Some [1; 2]%Z.
Proof.
  cbv zeta. split; [split|vm_compute; reflexivity].
  - intros cs i j [Hi|[]] [Hj|[]]. congruence.
  - intros cs ds i j [Hi|[]] [Hj|[]]. inversion Hi as [[Ec Ei]]. inversion Hj as [[E Ej]]. rewrite <- Ec in E. apply (f_equal (@length _)) in E. rewrite app_length in E. destruct ds; [reflexivity|cbn [length] in E; lia].
Qed.
Print Assumptions found_file_carries_the_literals. Print Assumptions matching_file_is_a_path. Print Assumptions not_found_means_no_match. Print Assumptions single_match_is_found. Print Assumptions no_match_is_not_found. Print Assumptions two_matches_are_ambiguous.
