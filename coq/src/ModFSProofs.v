(* C15 inside the main model, the missing link: the tree that ModFS.tree_of_disk builds from a flat disk only has paths that ARE disk files,
   so the file ImpSearch.search finds in it is a file of the disk whose path components - normalised as module._matches_literal normalises
   directory entries - carry exactly the requested literals *)
From Coq Require Import ZArith NArith List Bool Lia.
Import ListNotations.
Require Import Base Lex ImpSearch ImportProofs ModFS.

Lemma name_eqb_eq a b : name_eqb a b = true -> a = b.
Proof. unfold name_eqb. destruct (list_eq_dec N.eq_dec a b); [auto|discriminate]. Qed.
Lemma in_under files nm r0 i :
  In (r0, i) (flat_map (fun x : list (list N) * N => match fst x with c :: r => if name_eqb c nm then [(r, snd x)] else [] | [] => [] end) files) -> In (nm :: r0, i) files.
Proof.
  intros H. apply in_flat_map in H. destruct H as ([cs j] & Hin & H). cbn [fst snd] in H. destruct cs as [|c r]; [contradiction|].
  destruct (name_eqb c nm) eqn:E; [|contradiction]. destruct H as [H|[]]. inversion H; subst. apply name_eqb_eq in E. subst. exact Hin.
Qed.
(* every path of the built tree is (the normalised form of) the remaining components of one of the files it was built from *)
Lemma resolves_build : forall fuel files p id, resolves (build fuel files) p id -> exists cs, In (cs, id) files /\ p = map norm_name cs.
Proof.
  induction fuel as [|f IH]; intros files p id R; cbn [build] in R.
  - destruct p as [|nm r]; cbn [resolves] in R; [contradiction|]. destruct R as (c & [] & _).
  - destruct p as [|nm' r]; cbn [resolves] in R; [contradiction|]. destruct R as (c & Hin & Rc).
    apply in_map_iff in Hin. destruct Hin as (nm & Heq & _). inversion Heq as [[E1 E2]]; clear Heq. subst nm'.
    set (under := flat_map (fun x : list (list N) * N => match fst x with c0 :: r0 => if name_eqb c0 nm then [(r0, snd x)] else [] | [] => [] end) files) in *.
    destruct (find (fun x : list (list N) * N => match fst x with [] => true | _ :: _ => false end) under) as [x|] eqn:F; subst c.
    + destruct r as [|a b]; cbn [resolves] in Rc; [|contradiction]. subst id. apply find_some in F. destruct F as [Hx Ex]. destruct x as [rx ix]. cbn [fst snd] in *.
      destruct rx; [|discriminate]. exists [nm]. split; [apply (in_under files nm [] ix Hx)|reflexivity].
    + destruct (IH under r id Rc) as (cs' & Hin' & Er). exists (nm :: cs'). split; [apply in_under; exact Hin'|cbn [map]; rewrite Er; reflexivity].
Qed.
Lemma in_number {A} (l:list A) : forall k x i, In (x, i) (number l k) -> (k <= i)%N /\ nth_error l (N.to_nat (i - k)) = Some x.
Proof.
  induction l as [|a l IH]; intros k x i H; cbn [number] in H; [contradiction|]. destruct H as [H|H].
  - inversion H; subst. split; [lia|]. rewrite N.sub_diag. reflexivity.
  - destruct (IH _ _ _ H) as [L E]. split; [lia|]. replace (N.to_nat (i - k)) with (S (N.to_nat (i - (k + 1)))) by lia. exact E.
Qed.
(* the file the evaluator's ㅂ finds by literal words: a file OF THE DISK, and each component of its name, normalised like a directory entry,
   reads as the literal requested at that depth *)
Theorem found_file_carries_the_literals disk lits p id : search lits (tree_of_disk disk) = Found p id ->
  exists nm bytes, nth_error disk (N.to_nat id) = Some (nm, bytes) /\ map (fun c => name_lit (norm_name c)) (comps nm) = map Some lits.
Proof.
  intros S. apply found_is_unique in S. assert (Hin : In (p, id) (all_paths lits (tree_of_disk disk))) by (rewrite S; left; reflexivity).
  destruct (paths_sound _ _ _ _ Hin) as [R M]. unfold tree_of_disk in R. apply resolves_build in R. destruct R as (cs & Hcs & Ep).
  apply in_map_iff in Hcs. destruct Hcs as ([[nm bytes] i] & Heq & Hnum). cbn [fst snd] in Heq. inversion Heq; subst. clear Heq.
  apply in_number in Hnum. destruct Hnum as [_ E]. rewrite N.sub_0_r in E. exists nm, bytes. split; [exact E|]. rewrite map_map in M. exact M.
Qed.
Print Assumptions found_file_carries_the_literals.
