(* C15 inside the main model, the missing link: the tree that ModFS.tree_of_disk builds from a flat disk only has paths that ARE disk files,
   so the file ImpSearch.search finds in it is a file of the disk whose path components - normalised as module._matches_literal normalises
   directory entries - carry exactly the requested literals *)
From Coq Require Import ZArith NArith List Bool Lia.
Import ListNotations.
Require Import Base Lex ImpSearch ImportProofs ModFS.

Lemma name_eqb_eq a b : name_eqb a b = true -> a = b.
Proof. unfold name_eqb. destruct (list_eq_dec N.eq_dec a b); [auto|discriminate]. Qed.
Lemma in_under files nm r0 i :
  In (r0, i) (flat_map (fun x : list (list N) * N => match fst x with c :: r => if name_eqb c nm then [(r, snd x)] else [] | [] => [] end) files) -> In (nm :: r0, i) files.
Proof.
  intros H. apply in_flat_map in H. destruct H as ([cs j] & Hin & H). cbn [fst snd] in H. destruct cs as [|c r]; [contradiction|].
  destruct (name_eqb c nm) eqn:E; [|contradiction]. destruct H as [H|[]]. inversion H; subst. apply name_eqb_eq in E. subst. exact Hin.
Qed.
(* every path of the built tree is (the normalised form of) the remaining components of one of the files it was built from *)
Lemma resolves_build : forall fuel files p id, resolves (build fuel files) p id -> exists cs, In (cs, id) files /\ p = map norm_name cs.
Proof.
  induction fuel as [|f IH]; intros files p id R; cbn [build] in R.
  - destruct p as [|nm r]; cbn [resolves] in R; [contradiction|]. destruct R as (c & [] & _).
  - destruct p as [|nm' r]; cbn [resolves] in R; [contradiction|]. destruct R as (c & Hin & Rc).
    apply in_map_iff in Hin. destruct Hin as (nm & Heq & _). inversion Heq as [[E1 E2]]; clear Heq. subst nm'.
    set (under := flat_map (fun x : list (list N) * N => match fst x with c0 :: r0 => if name_eqb c0 nm then [(r0, snd x)] else [] | [] => [] end) files) in *.
    destruct (find (fun x : list (list N) * N => match fst x with [] => true | _ :: _ => false end) under) as [x|] eqn:F; subst c.
    + destruct r as [|a b]; cbn [resolves] in Rc; [|contradiction]. subst id. apply find_some in F. destruct F as [Hx Ex]. destruct x as [rx ix]. cbn [fst snd] in *.
      destruct rx; [|discriminate]. exists [nm]. split; [apply (in_under files nm [] ix Hx)|reflexivity].
    + destruct (IH under r id Rc) as (cs' & Hin' & Er). exists (nm :: cs'). split; [apply in_under; exact Hin'|cbn [map]; rewrite Er; reflexivity].
Qed.
Lemma in_number {A} (l:list A) : forall k x i, In (x, i) (number l k) -> (k <= i)%N /\ nth_error l (N.to_nat (i - k)) = Some x.
Proof.
  induction l as [|a l IH]; intros k x i H; cbn [number] in H; [contradiction|]. destruct H as [H|H].
  - inversion H; subst. split; [lia|]. rewrite N.sub_diag. reflexivity.
  - destruct (IH _ _ _ H) as [L E]. split; [lia|]. replace (N.to_nat (i - k)) with (S (N.to_nat (i - (k + 1)))) by lia. exact E.
Qed.
(* the file the evaluator's ㅂ finds by literal words: a file OF THE DISK, and each component of its name, normalised like a directory entry,
   reads as the literal requested at that depth *)
Theorem found_file_carries_the_literals disk lits p id : search lits (tree_of_disk disk) = Found p id ->
  exists nm bytes, nth_error disk (N.to_nat id) = Some (nm, bytes) /\ map (fun c => name_lit (norm_name c)) (comps nm) = map Some lits.
Proof.
  intros S. apply found_is_unique in S. assert (Hin : In (p, id) (all_paths lits (tree_of_disk disk))) by (rewrite S; left; reflexivity).
  destruct (paths_sound _ _ _ _ Hin) as [R M]. unfold tree_of_disk in R. apply resolves_build in R. destruct R as (cs & Hcs & Ep).
  apply in_map_iff in Hcs. destruct Hcs as ([[nm bytes] i] & Heq & Hnum). cbn [fst snd] in Heq. inversion Heq; subst. clear Heq.
  apply in_number in Hnum. destruct Hnum as [_ E]. rewrite N.sub_0_r in E. exists nm, bytes. split; [exact E|]. rewrite map_map in M. exact M.
Qed.

(* ---------- the converse: a disk file whose components carry the literals IS a path of the tree ---------- *)
(* well-formed file lists: one file per component list, and no file's name continues another file's name (a name is a file or a directory, not both) *)
Definition files_wf (files:list (list (list N) * N)) : Prop :=
  (forall cs i j, In (cs, i) files -> In (cs, j) files -> i = j) /\ (forall cs ds i j, In (cs, i) files -> In (cs ++ ds, j) files -> ds = []).
Definition under (nm:list N) (files:list (list (list N) * N)) :=
  flat_map (fun x : list (list N) * N => match fst x with c :: r => if name_eqb c nm then [(r, snd x)] else [] | [] => [] end) files.
Lemma name_eqb_refl a : name_eqb a a = true. Proof. unfold name_eqb. destruct (list_eq_dec N.eq_dec a a); [reflexivity|contradiction]. Qed.
Lemma name_eqb_neq a b : a <> b -> name_eqb a b = false. Proof. unfold name_eqb. destruct (list_eq_dec N.eq_dec a b); [contradiction|reflexivity]. Qed.
Lemma under_in files nm r i : In (nm :: r, i) files -> In (r, i) (under nm files).
Proof. intros H. unfold under. apply in_flat_map. exists (nm :: r, i). split; auto. cbn [fst snd]. rewrite name_eqb_refl. left; reflexivity. Qed.
Lemma wf_under files nm : files_wf files -> files_wf (under nm files).
Proof.
  intros [U P]. split.
  - intros cs i j Hi Hj. apply in_under in Hi. apply in_under in Hj. eapply U; eauto.
  - intros cs ds i j Hi Hj. apply in_under in Hi. apply in_under in Hj. eapply (P (nm :: cs) ds); eauto.
Qed.
Lemma in_dedup x : forall l, In x l -> In x (dedup l).
Proof.
  induction l as [|a l IH]; intros H; [contradiction|]. cbn [dedup]. destruct (list_eq_dec N.eq_dec a x) as [E|E]; [left; exact E|right].
  apply filter_In. split. apply IH. destruct H as [H|H]; [contradiction|exact H]. rewrite name_eqb_neq by exact E. reflexivity.
Qed.
Lemma find_first {A} (f:A -> bool) l y : In y l -> f y = true -> exists x, find f l = Some x /\ In x l /\ f x = true.
Proof.
  induction l as [|a l IH]; intros H Fy; [contradiction|]. cbn [find]. destruct (f a) eqn:Fa; [exists a; repeat split; auto; left; reflexivity|].
  destruct H as [H|H]; [subst; congruence|]. destruct (IH H Fy) as (x & E & I & Fx). exists x. repeat split; auto. right; exact I.
Qed.
Lemma build_complete : forall fuel files cs i lits, files_wf files -> In (cs, i) files -> cs <> [] -> (length cs <= fuel)%nat ->
  map (fun c => name_lit (norm_name c)) cs = map Some lits -> In (map norm_name cs, i) (all_paths lits (build fuel files)).
Proof.
  induction fuel as [|f IH]; intros files cs i lits WF Hin NE L M.
  - destruct cs; [contradiction|cbn in L; lia].
  - destruct cs as [|c r]; [contradiction|]. destruct lits as [|l sub]; [discriminate|]. cbn [map] in M. inversion M as [[Ml Ms]]. clear M.
    cbn [build all_paths]. fold (under c files).
    apply in_flat_map. eexists (norm_name c, _). split.
    + apply in_map_iff. exists c. split; [reflexivity|]. apply in_dedup. apply in_flat_map. exists (c :: r, i). split; auto. left; reflexivity.
    + cbn [fst snd]. unfold lit_eqb. rewrite Ml, Z.eqb_refl. apply in_map_iff.
      exists (map norm_name r, i). split; [reflexivity|].
      destruct r as [|c2 r2].
      * destruct sub; [|discriminate]. cbn [map].
        destruct (find_first (fun x : list (list N) * N => match fst x with [] => true | _ :: _ => false end) (under c files) ([], i) (under_in files c [] i Hin) eq_refl) as (x & F & Ix & Px).
        fold (under c files). rewrite F. destruct x as [rx ix]. cbn [fst snd] in *. destruct rx; [|discriminate].
        apply in_under in Ix. destruct WF as [U _]. rewrite (U [c] ix i Ix Hin). cbn [all_paths]. left; reflexivity.
      * fold (under c files).
        destruct (find (fun x : list (list N) * N => match fst x with [] => true | _ :: _ => false end) (under c files)) as [x|] eqn:F.
        -- exfalso. apply find_some in F. destruct F as [Ix Px]. destruct x as [rx ix]. cbn [fst] in Px. destruct rx; [|discriminate].
           apply in_under in Ix. destruct WF as [_ P]. specialize (P [c] (c2 :: r2) ix i Ix Hin). discriminate.
        -- apply IH; auto. apply wf_under; exact WF. apply under_in; exact Hin. discriminate. cbn [length] in *. lia.
Qed.
Lemma number_in {A} (l:list A) : forall n k x, nth_error l n = Some x -> In (x, (k + N.of_nat n)%N) (number l k).
Proof.
  induction l as [|a l IH]; intros n k x H; destruct n; cbn [nth_error] in H; try discriminate.
  - inversion H; subst. cbn [number]. left. f_equal. lia.
  - cbn [number]. right. replace (k + N.of_nat (S n))%N with ((k + 1) + N.of_nat n)%N by lia. apply IH; exact H.
Qed.
Lemma split_on_nonempty sep l cur : split_on sep l cur <> [].
Proof. revert cur. induction l as [|c r IH]; intros cur; cbn [split_on]; [discriminate|]. destruct (N.eqb c sep); [discriminate|apply IH]. Qed.
Lemma le_fold_max (l:list nat) x : In x l -> (x <= fold_right Nat.max 0%nat l)%nat.
Proof. induction l as [|a l IH]; intros H; [contradiction|]. cbn [fold_right]. destruct H as [H|H]; [subst; lia|specialize (IH H); lia]. Qed.
Definition disk_files (disk:list (list N * list N)) := map (fun x : (list N * list N) * N => (comps (fst (fst x)), snd x)) (number disk 0%N).
(* on a well-formed disk, EVERY file whose name components (normalised like directory entries) read as the requested literals is a path of the
   tree the evaluator searches - so "not found" means that no file of the disk matches, and a matching file is found or reported ambiguous *)
Theorem matching_file_is_a_path disk lits n nm bytes : files_wf (disk_files disk) -> nth_error disk n = Some (nm, bytes) ->
  map (fun c => name_lit (norm_name c)) (comps nm) = map Some lits -> In (map norm_name (comps nm), N.of_nat n) (all_paths lits (tree_of_disk disk)).
Proof.
  intros WF Hn M. unfold tree_of_disk. fold (disk_files disk).
  assert (Hin : In (comps nm, N.of_nat n) (disk_files disk)).
  { unfold disk_files. apply in_map_iff. exists ((nm, bytes), N.of_nat n). split; [reflexivity|]. apply (number_in disk n 0%N (nm, bytes) Hn). }
  apply build_complete; auto. apply split_on_nonempty.
  apply le_S. apply le_fold_max. apply in_map_iff. exists (comps nm, N.of_nat n). split; [reflexivity|exact Hin].
Qed.
Corollary not_found_means_no_match disk lits : files_wf (disk_files disk) -> search lits (tree_of_disk disk) = NotFound ->
  forall n nm bytes, nth_error disk n = Some (nm, bytes) -> map (fun c => name_lit (norm_name c)) (comps nm) <> map Some lits.
Proof. intros WF S n nm bytes Hn M. apply not_found_iff in S. pose proof (matching_file_is_a_path disk lits n nm bytes WF Hn M) as H. rewrite S in H. exact H. Qed.
(* the premises hold somewhere: the one-file disk "ㄴ/ㄷ.t" is well formed and its file matches the literals 1, 2 *)
Example wf_holds_somewhere : let disk := [([12596; 47; 12599; 46; 116]%N, [227; 132; 183]%N)] in
  files_wf (disk_files disk) /\ map (fun c => name_lit (norm_name c)) (comps [12596; 47; 12599; 46; 116]%N) = map Some [1; 2]%Z.
Proof.
  cbv zeta. split; [split|vm_compute; reflexivity].
  - intros cs i j [Hi|[]] [Hj|[]]. congruence.
  - intros cs ds i j [Hi|[]] [Hj|[]]. inversion Hi as [[Ec Ei]]. inversion Hj as [[E Ej]]. rewrite <- Ec in E. apply (f_equal (@length _)) in E. rewrite app_length in E. destruct ds; [reflexivity|cbn [length] in E; lia].
Qed.
Print Assumptions found_file_carries_the_literals. Print Assumptions matching_file_is_a_path. Print Assumptions not_found_means_no_match.
