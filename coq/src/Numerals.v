(* C11 / C18: integer numerals as text (Builtins.parse_int, the model of int(text, base)) - what underscores, prefixes and base 0 mean *)
From Coq Require Import ZArith NArith List Bool Lia.
Import ListNotations.
Require Import Base Strings Builtins.
Open Scope Z_scope.

Definition no_underscores (l:list N) : list N := filter (fun c => negb (N.eqb c 95)) l.
(* an accepted numeral denotes what its digits denote with the underscores taken out *)
Theorem underscores_are_ignored b : forall l a st v, scan b l a st = Some v -> parse_digits b (no_underscores l) a = Some v.
Proof.
  induction l as [|c r IH]; intros a st v H; cbn [scan] in H.
  - destruct (Nat.eqb st 1); [exact H|discriminate].
  - unfold no_underscores. cbn [filter]. destruct (N.eqb c 95) eqn:U; cbn [negb].
    + destruct (Nat.eqb st 1 || Nat.eqb st 3); [|discriminate]. apply (IH _ _ _ H).
    + cbn [parse_digits]. destruct (digit_val c) as [d|]; [|discriminate]. destruct (d <? b); [|discriminate]. apply (IH _ _ _ H).
Qed.
(* ... and underscores are accepted only singly and between digits (or right after a prefix): never first, never last, never doubled *)
Theorem underscore_never_first b r a : scan b (95%N :: r) a 0%nat = None.
Proof. reflexivity. Qed.
Theorem underscore_never_doubled b : forall l r a st, scan b (l ++ 95%N :: 95%N :: r) a st = None.
Proof.
  induction l as [|c l IH]; intros r a st; cbn [app scan N.eqb Pos.eqb].
  - destruct (Nat.eqb st 1 || Nat.eqb st 3); reflexivity.
  - destruct (N.eqb c 95); [destruct (Nat.eqb st 1 || Nat.eqb st 3); [apply IH|reflexivity]|]. destruct (digit_val c); [|reflexivity]. destruct (_ <? b); [apply IH|reflexivity].
Qed.
Theorem underscore_never_last b : forall l a st, scan b (l ++ [95%N]) a st = None.
Proof.
  induction l as [|c l IH]; intros a st; cbn [app scan N.eqb Pos.eqb].
  - destruct (Nat.eqb st 1 || Nat.eqb st 3); reflexivity.
  - destruct (N.eqb c 95); [destruct (Nat.eqb st 1 || Nat.eqb st 3); [apply IH|reflexivity]|]. destruct (digit_val c); [|reflexivity]. destruct (_ <? b); [apply IH|reflexivity].
Qed.
(* conversely every well-formed body - digits of the base, single underscores between them - is accepted *)
Inductive wf_body (b:Z) : list N -> Prop :=
  | wf_last c d : digit_val c = Some d -> d < b -> wf_body b [c]
  | wf_digit c d r : digit_val c = Some d -> d < b -> wf_body b r -> wf_body b (c :: r)
  | wf_under c d r : digit_val c = Some d -> d < b -> wf_body b r -> wf_body b (c :: 95%N :: r).
Lemma digit_not_underscore c d : digit_val c = Some d -> N.eqb c 95 = false.
Proof. intros H. destruct (N.eqb_spec c 95) as [->|]; [vm_compute in H; discriminate|reflexivity]. Qed.
Theorem well_formed_is_accepted b l : wf_body b l -> forall a st, exists v, scan b l a st = Some v.
Proof.
  induction 1 as [c d Hd Hb|c d r Hd Hb _ IH|c d r Hd Hb _ IH]; intros a st; cbn [scan]; rewrite (digit_not_underscore c d Hd), Hd; apply Z.ltb_lt in Hb; rewrite Hb.
  - cbn [scan Nat.eqb]. eauto.
  - apply IH.
  - cbn [scan N.eqb Pos.eqb Nat.eqb orb]. apply IH.
Qed.
(* at least one digit is required *)
Theorem no_digits_no_number b a st : st <> 1%nat -> scan b [] a st = None.
Proof. intros H. cbn [scan]. destruct (Nat.eqb_spec st 1); [contradiction|reflexivity]. Qed.
(* base 0: the prefix chooses the base ... *)
Theorem base_zero_prefix d r : parse_unsigned0 (48 :: 120 :: d :: r)%N = scan 16 (d :: r) 0 3%nat /\ parse_unsigned0 (48 :: 111 :: d :: r)%N = scan 8 (d :: r) 0 3%nat
  /\ parse_unsigned0 (48 :: 98 :: d :: r)%N = scan 2 (d :: r) 0 3%nat.
Proof. repeat split; reflexivity. Qed.
(* ... and without a prefix the text is decimal, where a leading zero is allowed only for zero itself ("00", "0_0"; never "010") *)
Theorem base_zero_leading_zero c r n : has_prefix 16 (48%N :: c :: r) = false -> has_prefix 8 (48%N :: c :: r) = false -> has_prefix 2 (48%N :: c :: r) = false ->
  parse_unsigned0 (48%N :: c :: r) = Some n -> n = 0.
Proof.
  intros H16 H8 H2 H. unfold parse_unsigned0 in H. rewrite H16, H8, H2 in H. destruct (scan 10 (48%N :: c :: r) 0 0) as [m|]; [|discriminate].
  cbn [N.eqb Pos.eqb andb] in H. destruct (m =? 0) eqn:E; cbn [negb] in H; [|discriminate]. inversion H; subst. apply Z.eqb_eq in E. exact E.
Qed.
Example numerals_somewhere : parse_int [49; 95; 48; 48; 48]%N 10 = Some 1000 /\ parse_int [45; 48; 120; 95; 102; 70]%N 16 = Some (-255) /\ parse_int [48; 98; 49; 48; 49]%N 0 = Some 5
  /\ parse_int [48; 49]%N 0 = None /\ parse_int [48; 95; 48]%N 0 = Some 0 /\ parse_int [49; 95; 95; 48]%N 10 = None /\ parse_int [48; 120]%N 16 = None.
Proof. vm_compute. repeat split. Qed.
Print Assumptions underscores_are_ignored. Print Assumptions well_formed_is_accepted. Print Assumptions underscore_never_doubled. Print Assumptions underscore_never_last. Print Assumptions base_zero_leading_zero.
