(* C11, the remaining laws: integer powers with non-negative exponents stay exact integers, three-argument ㅅ is the residue of the true power
   (or of a power of the modular inverse) in [0, |m|), Boolean ㄱ / ㄷ are conjunction / disjunction - all on evaluated arguments, under the
   specification's interpreter at any heap and world *)
From Coq Require Import ZArith NArith List Bool Lia.
Import ListNotations.
Require Import Base Float Strings Builtins Interp Machine Spec Refine2 RunG Arith.
Open Scope Z_scope.

Section P.
Variable rec : list positive -> heap -> world -> task -> out.
Theorem int_pow_exact sp b e ip h w : 0 <= e -> runG rec value ip h w (bi_pow sp [VInt b; VInt e]) = DoneG h w (inl (VInt (b ^ e))) 0.
Proof. intros E. unfold bi_pow. cbn. replace (0 <=? e) with true by (symmetry; apply Z.leb_le; exact E). reflexivity. Qed.
Theorem pow_mod_residue sp b e m ip h w : 0 <= e -> m <> 0 ->
  runG rec value ip h w (bi_pow sp [VInt b; VInt e; VInt m]) = DoneG h w (inl (VInt ((b ^ e) mod Z.abs m))) 0 /\ 0 <= (b ^ e) mod Z.abs m < Z.abs m.
Proof.
  intros E M. split; [|apply Z.mod_pos_bound; lia]. unfold bi_pow. cbn.
  replace (Z.abs m =? 0) with false by (symmetry; apply Z.eqb_neq; lia). replace (0 <=? e) with true by (symmetry; apply Z.leb_le; exact E). reflexivity.
Qed.
Theorem pow_mod_inverse sp b e m i ip h w : e < 0 -> m <> 0 -> modinv b (Z.abs m) = Some i ->
  runG rec value ip h w (bi_pow sp [VInt b; VInt e; VInt m]) = DoneG h w (inl (VInt ((i ^ (- e)) mod Z.abs m))) 0
  /\ 0 <= (i ^ (- e)) mod Z.abs m < Z.abs m /\ (((i ^ (- e)) mod Z.abs m) * b ^ (- e)) mod Z.abs m = 1 mod Z.abs m.
Proof.
  intros E M I. split; [|split; [apply Z.mod_pos_bound; lia|apply (pow_mod_neg_spec b e (Z.abs m) i); auto; lia]].
  unfold bi_pow. cbn. replace (Z.abs m =? 0) with false by (symmetry; apply Z.eqb_neq; lia). replace (0 <=? e) with false by (symmetry; apply Z.leb_gt; exact E). rewrite I. reflexivity.
Qed.
Theorem pow_mod_no_inverse sp b e m ip h w : e < 0 -> m <> 0 -> modinv b (Z.abs m) = None ->
  runG rec value ip h w (bi_pow sp [VInt b; VInt e; VInt m]) = DoneG h w (inr (mkerr c_arith sp)) 0.
Proof.
  intros E M I. unfold bi_pow. cbn. replace (Z.abs m =? 0) with false by (symmetry; apply Z.eqb_neq; lia). replace (0 <=? e) with false by (symmetry; apply Z.leb_gt; exact E). rewrite I. reflexivity.
Qed.
Theorem pow_mod_zero_modulus sp b e ip h w : runG rec value ip h w (bi_pow sp [VInt b; VInt e; VInt 0]) = DoneG h w (inr (mkerr c_arith sp)) 0.
Proof. reflexivity. Qed.

(* Booleans: ㄱ is conjunction, ㄷ is disjunction, for any number (>= 1) of operands *)
Lemma all_bools_spec sp stop : forall bs ip h w, runG rec value ip h w (all_bools sp (map VBool bs) stop) =
  DoneG h w (inl (VBool (if stop then existsb (fun b => b) bs else forallb (fun b => b) bs))) 0.
Proof.
  induction bs as [|b bs IH]; intros ip h w; cbn [map all_bools]. destruct stop; reflexivity.
  cbn [force bind runG check_type forallb is_bool andb]. destruct b, stop; cbn [Bool.eqb runG existsb forallb orb andb]; try reflexivity; apply IH.
Qed.
Theorem bool_and_is_conjunction sp b bs ip h w : runG rec value ip h w (bi_multiply sp (map VBool (b :: bs))) = DoneG h w (inl (VBool (forallb (fun x => x) (b :: bs)))) 0.
Proof. unfold bi_multiply. cbn [map length check_min_arity Nat.ltb Nat.leb bind runG force check_type forallb orp is_num is_bool orb andb]. apply (all_bools_spec sp false (b :: bs)). Qed.
Theorem bool_or_is_disjunction sp b bs ip h w : runG rec value ip h w (bi_add sp (map VBool (b :: bs))) = DoneG h w (inl (VBool (existsb (fun x => x) (b :: bs)))) 0.
Proof. unfold bi_add. cbn [map length check_min_arity Nat.ltb Nat.leb bind runG force check_type forallb orp is_num is_bool is_seq is_dict orb andb]. apply (all_bools_spec sp true (b :: bs)). Qed.
End P.
Print Assumptions int_pow_exact. Print Assumptions pow_mod_residue. Print Assumptions pow_mod_inverse. Print Assumptions pow_mod_no_inverse. Print Assumptions pow_mod_zero_modulus.
Print Assumptions bool_and_is_conjunction. Print Assumptions bool_or_is_disjunction.
