(* DRAFT: C15 - resolving an import by skeleton literals over a directory tree.
   Names are given as their normalised code points (C01's function); this file owns trimming, decoding and the search. *)
From Coq Require Import ZArith NArith List Bool Lia.
Import ListNotations.
Open Scope Z_scope.

(* ---- name -> literal : strip, then every character must be one of the eight digits ---- *)
Definition digit_of (c:N) : option Z :=    (* ㄱㄴㄷㄹㅁㅂㅅㅈ ; regenerated from parse.py in the real development *)
  if N.eqb c 12593 then Some 0 else if N.eqb c 12596 then Some 1 else if N.eqb c 12599 then Some 2 else if N.eqb c 12601 then Some 3
  else if N.eqb c 12609 then Some 4 else if N.eqb c 12610 then Some 5 else if N.eqb c 12613 then Some 6 else if N.eqb c 12616 then Some 7 else None.
Fixpoint drop_spaces (l:list N) : list N := match l with 32%N :: r => drop_spaces r | _ => l end.
Definition trim (l:list N) : list N := rev (drop_spaces (rev (drop_spaces l))).
Fixpoint digits (l:list N) : option (list Z) :=
  match l with [] => Some [] | c :: r => match digit_of c, digits r with Some d, Some ds => Some (d :: ds) | _, _ => None end end.
Fixpoint value_lsb (ds:list Z) : Z := match ds with [] => 0 | d :: r => d + 8 * value_lsb r end.
Definition name_lit (nm:list N) : option Z :=
  match trim nm with
  | [] => None
  | t => match digits t with
         | Some ds => Some (if Nat.even (length ds) then - value_lsb ds else value_lsb ds)
         | None => None end
  end.

(* ---- directory trees ---- *)
Inductive tree := TFile (id:N) | TDir (es:list (list N * tree)).
Inductive sres := Found (path:list (list N)) (id:N) | NotFound | Ambiguous.
Inductive acc := Zero | One (path:list (list N)) (id:N) | Many.
Definition add (a:acc) (nm:list N) (r:sres) : acc :=
  match r with
  | NotFound => a
  | Ambiguous => Many                                   (* the exception aborts the whole search *)
  | Found p id => match a with Zero => One (nm :: p) id | _ => Many end
  end.
Definition finish (a:acc) : sres := match a with Zero => NotFound | One p id => Found p id | Many => Ambiguous end.
Definition lit_eqb (o:option Z) (z:Z) : bool := match o with Some x => x =? z | None => false end.

Fixpoint search (lits:list Z) (t:tree) {struct lits} : sres :=
  match lits with
  | [] => match t with TFile id => Found [] id | TDir _ => NotFound end
  | cur :: sub =>
      match t with
      | TFile _ => NotFound                               (* after the repair; the pinned tree lists a file as a directory *)
      | TDir es => finish (fold_left (fun a e => if lit_eqb (name_lit (fst e)) cur then add a (fst e) (search sub (snd e)) else a) es Zero)
      end
  end.

(* ---- specification: all file paths whose components carry exactly the requested literals ---- *)
Fixpoint all_paths (lits:list Z) (t:tree) {struct lits} : list (list (list N) * N) :=
  match lits with
  | [] => match t with TFile id => [([], id)] | TDir _ => [] end
  | cur :: sub =>
      match t with
      | TFile _ => []
      | TDir es => flat_map (fun e => if lit_eqb (name_lit (fst e)) cur then map (fun pi => (fst e :: fst pi, snd pi)) (all_paths sub (snd e)) else []) es
      end
  end.
Definition classify (ps:list (list (list N) * N)) : sres := match ps with [] => NotFound | [(p, id)] => Found p id | _ => Ambiguous end.
