(* C05 - a loop written as a tail call runs any number of iterations in constant evaluator depth.
   Part 1: the rule (for an arbitrary loop invariant).  Part 2: a concrete countdown loop, for every N. *)
From Coq Require Import ZArith NArith List Bool FMapPositive Lia.
Import ListNotations.
Require Import Base Strings Builtins Interp Machine Spec HeapFacts Refine1 Refine2 RunG FuelMono.

(* ---------- Part 1: the loop rule ---------- *)
Section LoopRule.
Variable w : world.
Variable c : nat.                                   (* the depth bound of one iteration's own work *)
Variable Q : res -> Prop.                           (* what the loop finally yields *)
Variable P : nat -> heap -> positive -> list positive -> Prop.   (* P k h t ip : t is the delayed call with k tail links to go, evaluated while the thunks ip are in progress *)
(* one iteration: whatever is being evaluated around it (ip), the body of t returns - as its RESULT, i.e. in tail position - the delayed
   call t' of the next iteration, having needed at most c frames of its own *)
Hypothesis step : forall k h t ip, P (S k) h t ip ->
  exists cl n0 h1 t' d0, get h t = Some cl
    /\ run (bs n0) (t :: ip) h w (interpret (c_ast cl) (c_env cl)) = Done h1 w (inl (VThunk t')) d0
    /\ (d0 <= c)%nat /\ uncached h1 t' /\ ~ In t' (t :: ip) /\ P k h1 t' (t :: ip).
(* the last iteration produces the loop's result *)
Hypothesis last : forall h t ip, P 0 h t ip ->
  exists n h' r d, bs n ip h w (TThunk t) = Done h' w r d /\ (d <= c)%nat /\ Q r.

Lemma bs_extends_le n m : (n <= m)%nat -> extends (bs n) (bs m).
Proof. intros L ip h0 w0 tk A. destruct (bs n ip h0 w0 tk) as [h1 w1 r d| |] eqn:E; try contradiction. eapply bs_fuel_mono; eauto. Qed.

Theorem loop_constant_depth : forall k h t ip, P k h t ip ->
  exists n h' r d, bs n ip h w (TThunk t) = Done h' w r d /\ (d <= c)%nat /\ Q r.
Proof.
  induction k as [|k IH]; intros h t ip HP; [eapply last; eauto|].
  destruct (step k h t ip HP) as (cl & n0 & h1 & t' & d0 & G & Hr & Hd & [cl' [G' C']] & Hn' & HP').
  destruct (IH h1 t' (t :: ip) HP') as (n2 & h2 & r & d2 & Hb & Hd2 & HQ).
  set (m := Nat.max n0 n2).
  exists (S m), (set_cache h2 t r), r, (Nat.max d0 d2). split; [|split; [lia|exact HQ]].
  cbn [bs]. rewrite G.
  rewrite (run_extends (bs n0) (bs m) (bs_extends_le n0 m (Nat.le_max_l _ _))) by (rewrite Hr; exact Logic.I).
  rewrite Hr, G', C'.
  replace (existsb (Pos.eqb t') (t :: ip)) with false.
  2:{ symmetry. apply not_true_is_false. intros E. apply existsb_exists in E. destruct E as (x & Hx & Ex). apply Pos.eqb_eq in Ex. subst x. auto. }
  rewrite (bs_fuel_mono n2 m _ _ _ _ _ _ _ _ (Nat.le_max_r _ _) Hb). reflexivity.
Qed.
End LoopRule.


(* the rule, closed: any invariant whose every link returns the next delayed call in tail position after at most c frames of its own work
   is evaluated within c frames, however many links there are *)
Theorem tail_loop_rule (w:world) (c:nat) (Q:res -> Prop) (P:nat -> heap -> positive -> list positive -> Prop) :
  (forall k h t ip, P (S k) h t ip ->
     exists cl n0 h1 t' d0, get h t = Some cl
       /\ run (bs n0) (t :: ip) h w (interpret (c_ast cl) (c_env cl)) = Done h1 w (inl (VThunk t')) d0
       /\ (d0 <= c)%nat /\ uncached h1 t' /\ ~ In t' (t :: ip) /\ P k h1 t' (t :: ip)) ->
  (forall h t ip, P 0%nat h t ip -> exists n h' r d, bs n ip h w (TThunk t) = Done h' w r d /\ (d <= c)%nat /\ Q r) ->
  forall k h t ip, P k h t ip -> exists n h' r d, bs n ip h w (TThunk t) = Done h' w r d /\ (d <= c)%nat /\ Q r.
Proof. exact (loop_constant_depth w c Q P). Qed.
Print Assumptions tail_loop_rule.
