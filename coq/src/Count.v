(* C13 - "each delayed expression is evaluated at most once; the work is proportional to the number of delayed expressions".
   The specification semantics instrumented with the LIST of delayed expressions whose evaluation begins, in order (bsl).  Erasing the list
   gives back Spec.bs (projection), and in every completed evaluation the list has NO REPETITION, every entry was not yet evaluated before
   and is evaluated (cached) after: so its length - the number of evaluations performed - is at most the number of delayed expressions. *)
From Coq Require Import ZArith NArith List Bool FMapPositive Lia.
Import ListNotations.
Require Import Base Strings Builtins Interp Machine Spec HeapFacts Refine1 Refine2 Refine3 Refine4 CountDef.

(* ---------- erasing the list gives the specification semantics ---------- *)
Lemma runl_erases recl rec : (forall ip h w tk, fst (recl ip h w tk) = rec ip h w tk) ->
  forall c ip h w, fst (runl recl ip h w c) = run rec ip h w c.
Proof.
  intros E c.
  induction c as [v|e|v k IH|a e k IH|b e k IH|fc k IH|fc av k IH|k IH|t k IH|p k IH|c1 hd k IHc IHh IHk|op k IH] using comp_value_ind;
    intros ip h w; cbn [runl run]; auto.
  - destruct v; auto. destruct (get h t) as [cl|]; auto. destruct (c_cache cl) as [[sv|er]|]; auto.
    destruct (existsb (Pos.eqb t) ip); auto.
    rewrite <- (E ip h w (TThunk t)). destruct (recl ip h w (TThunk t)) as [[h1 w1 [v1|e1] d1| |] l]; cbn [fst]; auto.
    specialize (IH v1 ip h1 w1). destruct (runl recl ip h1 w1 (k v1)) as [o2 l2]. cbn [fst] in *. rewrite IH. reflexivity.
  - destruct (alloc h a e). auto.
  - destruct (newclo h b e). auto.
  - destruct (PositiveMap.find fc (clos h)); auto.
  - destruct (alloc_body h fc av) as [[h1 x]|]; auto.
  - destruct (fresh h). auto.
  - destruct (get h t); auto.
  - rewrite <- (E ip h w (TComp (proc_body p))). destruct (recl ip h w (TComp (proc_body p))) as [[h1 w1 [v1|e1] d1| |] l]; cbn [fst]; auto.
    specialize (IH v1 ip h1 w1). destruct (runl recl ip h1 w1 (k v1)) as [o2 l2]. cbn [fst] in *. rewrite IH. reflexivity.
  - rewrite <- (IHc ip h w). destruct (runl recl ip h w c1) as [[h1 w1 [v1|e1] d1| |] l1]; cbn [fst]; auto.
    + specialize (IHk v1 ip h1 w1). destruct (runl recl ip h1 w1 (k v1)) as [o2 l2]. cbn [fst] in *. rewrite IHk. reflexivity.
    + destruct (unmodelled e1); auto. rewrite <- (IHh e1 ip h1 w1).
      destruct (runl recl ip h1 w1 (hd e1)) as [[h2 w2 [v2|e2] d2| |] l2]; cbn [fst]; auto.
      specialize (IHk v2 ip h2 w2). destruct (runl recl ip h2 w2 (k v2)) as [o3 l3]. cbn [fst] in *. rewrite IHk. reflexivity.
  - destruct (wstep w op) as [w2 [rv|re]]; auto.
Qed.
Theorem bsl_erases : forall n ip h w tk, fst (bsl n ip h w tk) = bs n ip h w tk.
Proof.
  induction n as [|n IH]; intros ip h w tk; [reflexivity|]. cbn [bsl bs]. destruct tk as [t|c].
  - destruct (get h t) as [cl|]; auto.
    rewrite <- (runl_erases (bsl n) (bs n) IH). destruct (runl (bsl n) (t :: ip) h w (interpret (c_ast cl) (c_env cl))) as [[h1 w1 [v1|e1] d1| |] l1]; cbn [fst]; auto.
    destruct v1; auto. destruct (get h1 t0) as [cl'|]; auto. destruct (c_cache cl'); auto.
    destruct (existsb (Pos.eqb t0) (t :: ip)); auto.
    rewrite <- (IH (t :: ip) h1 w1 (TThunk t0)). destruct (bsl n (t :: ip) h1 w1 (TThunk t0)) as [[h2 w2 r2 d2| |] l2]; reflexivity.
  - apply runl_erases. exact IH.
Qed.

(* ---------- no repetition ---------- *)
Definition okl (h:heap) (ol:outl) : Prop :=
  match ol with (Done h' _ _ _, l) => NoDup l /\ forall u, In u l -> ~ cached h u /\ cached h' u | _ => True end.
Lemma okl_weaken h0 h ol : hle h0 h -> okl h ol -> okl h0 ol.
Proof.
  intros L. destruct ol as [[h' w' r d| |] l]; cbn [okl]; auto. intros [N A]. split; auto.
  intros u I. destruct (A u I) as [NC C]. split; auto. intros C0. apply NC. eapply hle_cached; eauto.
Qed.
Lemma nodup_app (l1 l2:list positive) : NoDup l1 -> NoDup l2 -> (forall u, In u l1 -> In u l2 -> False) -> NoDup (l1 ++ l2).
Proof.
  induction 1 as [|x l1 Nx N1 IH]; intros N2 D; cbn [app]; auto. constructor.
  - intros I. apply in_app_or in I. destruct I as [I|I]; [auto|]. apply (D x); [left; auto|auto].
  - apply IH; auto. intros u I1 I2. apply (D u); [right; auto|auto].
Qed.
Lemma seq_ok h h1 h2 (l1 l2:list positive) : hle h h1 -> hle h1 h2 ->
  (NoDup l1 /\ forall u, In u l1 -> ~ cached h u /\ cached h1 u) -> (NoDup l2 /\ forall u, In u l2 -> ~ cached h1 u /\ cached h2 u) ->
  NoDup (l1 ++ l2) /\ forall u, In u (l1 ++ l2) -> ~ cached h u /\ cached h2 u.
Proof.
  intros L1 L2 [N1 A1] [N2 A2]. split.
  - apply nodup_app; auto. intros u I1 I2. destruct (A1 u I1) as [_ C1]. destruct (A2 u I2) as [NC _]. auto.
  - intros u I. apply in_app_or in I. destruct I as [I|I].
    + destruct (A1 u I) as [NC C]. split; auto. eapply hle_cached; eauto.
    + destruct (A2 u I) as [NC C]. split; auto. intros C0. apply NC. eapply hle_cached; eauto.
Qed.

Definition stmtLA n := forall ip h w u, uncached h u -> ~ In u ip -> inv h ip -> okl h (bsl n ip h w (TThunk u)).
Definition stmtLC n := forall c ip h w, inv h ip -> okl h (bsl n ip h w (TComp c)).
Definition stmtLB n := forall c ip h w, inv h ip -> okl h (runl (bsl n) ip h w c).

(* facts about the un-instrumented run, transported through the projection *)
Lemma thunk_facts n ip h w u h1 w1 r d l : bsl n ip h w (TThunk u) = (Done h1 w1 r d, l) -> uncached h u -> ~ In u ip -> inv h ip ->
  hle h h1 /\ inv h1 ip /\ cached h1 u.
Proof.
  intros H U N I. assert (B : bs n ip h w (TThunk u) = Done h1 w1 r d) by (rewrite <- bsl_erases, H; reflexivity).
  destruct (sim_all n) as (HA & _ & _). destruct (HA _ _ _ _ _ _ _ _ B U N I) as (_ & L & I1 & C & _). auto.
Qed.
Lemma comp_facts n ip h w c h1 w1 r d l : bsl n ip h w (TComp c) = (Done h1 w1 r d, l) -> inv h ip -> hle h h1 /\ inv h1 ip.
Proof.
  intros H I. assert (B : bs n ip h w (TComp c) = Done h1 w1 r d) by (rewrite <- bsl_erases, H; reflexivity).
  destruct (sim_all n) as (_ & HC & _). destruct (HC _ _ _ _ _ _ _ _ B I) as (_ & L & I1). auto.
Qed.
Lemma run_facts n ip h w c h1 w1 r d l : runl (bsl n) ip h w c = (Done h1 w1 r d, l) -> inv h ip -> hle h h1 /\ inv h1 ip.
Proof.
  intros H I. assert (B : run (bs n) ip h w c = Done h1 w1 r d) by (rewrite <- (runl_erases (bsl n) (bs n) (bsl_erases n)), H; reflexivity).
  destruct (sim_all n) as (_ & _ & HB). destruct (HB _ _ _ _ _ _ _ _ B I) as (_ & L & I1). auto.
Qed.
Lemma okl_nil h h' (w:world) (r:res) (d:nat) : okl h (Done h' w r d, []).
Proof. split; [constructor|]. intros u []. Qed.
Lemma updd_done o d h w r d' : updd o d = Done h w r d' -> exists d0, o = Done h w r d0.
Proof. destruct o; cbn [updd]; intros E; inversion E; subst; eauto. Qed.

(* continuing after a sub-evaluation: the lists concatenate and stay repetition-free *)
Lemma cont_ok n ip h (ol:outl) extra k :
  (forall v ip h w, inv h ip -> okl h (runl (bsl n) ip h w (k v))) ->
  okl h ol -> (forall h1 w1 r d l, ol = (Done h1 w1 r d, l) -> hle h h1 /\ inv h1 ip) ->
  okl h (match ol with
         | (Done h' w' (inl v) d, l) => let (o2, l2) := runl (bsl n) ip h' w' (k v) in (updd o2 (extra + d)%nat, l ++ l2)
         | (Done h' w' (inr e) d, l) => (Done h' w' (inr e) (extra + d)%nat, l)
         | (o', l) => (o', l) end).
Proof.
  intros IHk Ok F. destruct ol as [[h1 w1 [v1|e1] d1| |] l]; cbn [okl] in *; auto.
  destruct (F _ _ _ _ _ eq_refl) as [L1 I1].
  specialize (IHk v1 ip h1 w1 I1). destruct (runl (bsl n) ip h1 w1 (k v1)) as [o2 l2] eqn:R2.
  destruct o2 as [h2 w2 r2 d2| |]; cbn [updd okl]; auto.
  destruct (run_facts n ip h1 w1 (k v1) h2 w2 r2 d2 l2 R2 I1) as [L2 _].
  exact (seq_ok h h1 h2 l l2 L1 L2 Ok IHk).
Qed.

Lemma LB_of n : stmtLA n -> stmtLC n -> stmtLB n.
Proof.
  intros HA HC c.
  induction c as [v|e|v k IH|a e k IH|b e k IH|fc k IH|fc av k IH|k IH|t k IH|p k IH|c1 hd k IHc IHh IHk|op k IH] using comp_value_ind;
    intros ip h w I; cbn [runl]; try apply okl_nil.
  - destruct v; try (apply IH; exact I).
    destruct (get h t) as [cl|] eqn:G; [|apply okl_nil]. destruct (c_cache cl) as [[sv|er]|] eqn:C; [apply IH; exact I|apply okl_nil|].
    destruct (existsb (Pos.eqb t) ip) eqn:E; [exact Logic.I|].
    assert (U : uncached h t) by (exists cl; auto). assert (N : ~ In t ip) by (apply existsb_false_notin; auto).
    apply (cont_ok n ip h (bsl n ip h w (TThunk t)) 1 k IH (HA ip h w t U N I)).
    intros h1 w1 r d l H. destruct (thunk_facts n ip h w t h1 w1 r d l H U N I) as (L & I1 & _). auto.
  - destruct (alloc h a e) as [h' t] eqn:A. assert (h' = fst (alloc h a e)) by (rewrite A; auto). subst h'.
    eapply okl_weaken; [apply hle_alloc; destruct I; auto|]. apply IH. apply inv_alloc; auto.
  - destruct (newclo h b e) as [h' g] eqn:A. assert (h' = fst (newclo h b e)) by (rewrite A; auto). subst h'.
    eapply okl_weaken; [apply hle_newclo|]. apply IH. apply inv_newclo; auto.
  - destruct (PositiveMap.find fc (clos h)); [apply IH; auto|apply okl_nil].
  - unfold alloc_body. destruct (PositiveMap.find fc (clos h)) as [cl|]; [|apply okl_nil].
    destruct (alloc h (f_body cl) {| funs := funs (f_env cl); args := args (f_env cl) ++ [av] |}) as [h' t] eqn:A.
    assert (h' = fst (alloc h (f_body cl) {| funs := funs (f_env cl); args := args (f_env cl) ++ [av] |})) by (rewrite A; auto). subst h'.
    eapply okl_weaken; [apply hle_alloc; destruct I; auto|]. apply IH. apply inv_alloc; auto.
  - destruct (fresh h) as [h' i] eqn:A. assert (h' = fst (fresh h)) by (rewrite A; auto). subst h'.
    eapply okl_weaken; [apply hle_fresh|]. apply IH. apply inv_fresh; auto.
  - destruct (get h t) as [cl|]; [|apply okl_nil]. eapply okl_weaken; [apply hle_peek|]. apply IH. apply inv_peek; auto.
  - apply (cont_ok n ip h (bsl n ip h w (TComp (proc_body p))) 0 k IH (HC _ ip h w I)).
    intros h1 w1 r d l H. exact (comp_facts n ip h w _ h1 w1 r d l H I).
  - pose proof (IHc ip h w I) as O1. destruct (runl (bsl n) ip h w c1) as [[h1 w1 [v1|e1] d1| |] l1] eqn:R1; auto.
    + destruct (run_facts n ip h w c1 h1 w1 _ d1 l1 R1 I) as [L1 I1].
      pose proof (IHk v1 ip h1 w1 I1) as O2. destruct (runl (bsl n) ip h1 w1 (k v1)) as [o2 l2] eqn:R2.
      destruct o2 as [h2 w2 r2 d2| |]; cbn [updd okl]; auto.
      destruct (run_facts n ip h1 w1 (k v1) h2 w2 r2 d2 l2 R2 I1) as [L2 _].
      exact (seq_ok h h1 h2 l1 l2 L1 L2 O1 O2).
    + destruct (unmodelled e1); [exact O1|].
      destruct (run_facts n ip h w c1 h1 w1 _ d1 l1 R1 I) as [L1 I1].
      pose proof (cont_ok n ip h1 (runl (bsl n) ip h1 w1 (hd e1)) 0 k IHk (IHh e1 ip h1 w1 I1)) as O2.
      match type of O2 with _ -> okl _ ?X => destruct X as [o2 l2] eqn:R2 end.
      assert (O2' : okl h1 (o2, l2)).
      { apply O2. intros h2 w2 r d l H. exact (run_facts n ip h1 w1 (hd e1) h2 w2 r d l H I1). }
      destruct o2 as [h2 w2 r2 d2| |]; cbn [updd okl]; auto.
      (* hle h1 h2: from the un-instrumented run of the handler and the continuation *)
      assert (L2 : hle h1 h2).
      { destruct (runl (bsl n) ip h1 w1 (hd e1)) as [[h3 w3 [v3|e3] d3| |] l3] eqn:R3; try discriminate R2.
        - destruct (run_facts n ip h1 w1 (hd e1) h3 w3 _ d3 l3 R3 I1) as [L3 I3].
          destruct (runl (bsl n) ip h3 w3 (k v3)) as [o4 l4] eqn:R4. inversion R2; subst.
          match goal with H : updd o4 _ = Done _ _ _ _ |- _ => destruct (updd_done _ _ _ _ _ _ H) as [d0 ->] end.
          destruct (run_facts n ip h3 w3 (k v3) h2 w2 r2 d0 l4 R4 I3) as [L4 _]. eapply hle_trans; eauto.
        - inversion R2; subst. destruct (run_facts n ip h1 w1 (hd e1) _ _ _ _ _ R3 I1) as [L3 _]. exact L3. }
      exact (seq_ok h h1 h2 l1 l2 L1 L2 O1 O2').
  - destruct (wstep w op) as [w2 [rv|re]]; [apply IH; auto|apply okl_nil].
Qed.

Lemma notcached_uncached h u : uncached h u -> ~ cached h u.
Proof. intros (cl & G & C) (cl' & r & G' & C'). rewrite G in G'. inversion G'; subst. rewrite C in C'. discriminate. Qed.
Lemma cached_after_set h t r cl : get h t = Some cl -> cached (set_cache h t r) t.
Proof. intros G. eexists. exists r. split; [apply (get_set_same _ _ _ _ G)|reflexivity]. Qed.
Lemma cached_set_mono h t r u : cached h u -> uncached h t -> cached (set_cache h t r) u.
Proof. intros C U. eapply hle_cached; [apply hle_set_cache; exact U|exact C]. Qed.

Lemma LA_S n : stmtLA n -> stmtLB n -> stmtLA (S n).
Proof.
  intros HA HB ip h w t U N I. cbn [bsl]. destruct U as (cl & G & Cc). rewrite G.
  assert (U : uncached h t) by (exists cl; auto).
  assert (I' : inv h (t :: ip)).
  { destruct I as (W & S & P). split; [auto|split; [auto|]]. intros x [X|X]; [subst x; exact U|auto]. }
  pose proof (HB (interpret (c_ast cl) (c_env cl)) (t :: ip) h w I') as O1.
  destruct (runl (bsl n) (t :: ip) h w (interpret (c_ast cl) (c_env cl))) as [[h1 w1 r1 d1| |] l1] eqn:R1; auto.
  destruct (run_facts n (t :: ip) h w _ h1 w1 r1 d1 l1 R1 I') as [L1 I1].
  assert (U1 : uncached h1 t) by (destruct I1 as (_ & _ & P); apply P; left; auto).
  assert (Ht : forall hx, hle h1 hx -> uncached hx t -> forall r, okl h (Done (set_cache hx t r) w1 r d1, t :: l1) -> True) by auto.
  (* the common ending: result r stored into t on top of a heap hx that extends h1, with list t :: l *)
  assert (Fin : forall hx l, hle h1 hx -> uncached hx t -> (NoDup l /\ forall u, In u l -> ~ cached h u /\ cached hx u) ->
                forall wx r dx, okl h (Done (set_cache hx t r) wx r dx, t :: l)).
  { intros hx l Lx Ux [Nl Al] wx r dx. cbn [okl]. split.
    - constructor; auto. intros It. destruct (Al t It) as [_ Ct]. exact (notcached_uncached _ _ Ux Ct).
    - intros u [E|Iu].
      + subst u. split; [apply notcached_uncached; exact U|]. destruct Ux as (clx & Gx & _). eapply cached_after_set; eauto.
      + destruct (Al u Iu) as [NC C]. split; auto. apply cached_set_mono; auto. }
  destruct r1 as [v1|e1]; [|apply (Fin h1 l1 (hle_refl _) U1 O1)].
  destruct v1 as [z|fl|b|s|s|l|dc|f|i|sp l| |t'|cr ci]; try apply (Fin h1 l1 (hle_refl _) U1 O1).
  destruct (get h1 t') as [cl'|] eqn:G'; [|exact Logic.I].
  destruct (c_cache cl') as [r|] eqn:C'; [apply (Fin h1 l1 (hle_refl _) U1 O1)|].
  destruct (existsb (Pos.eqb t') (t :: ip)) eqn:E; [exact Logic.I|].
  assert (U' : uncached h1 t') by (exists cl'; auto). assert (N' : ~ In t' (t :: ip)) by (apply existsb_false_notin; auto).
  pose proof (HA (t :: ip) h1 w1 t' U' N' I1) as O2.
  destruct (bsl n (t :: ip) h1 w1 (TThunk t')) as [[h2 w2 r2 d2| |] l2] eqn:R2; auto.
  destruct (thunk_facts n (t :: ip) h1 w1 t' h2 w2 r2 d2 l2 R2 U' N' I1) as (L2 & I2 & _).
  assert (U2 : uncached h2 t) by (destruct I2 as (_ & _ & P); apply P; left; auto).
  apply (Fin h2 (l1 ++ l2) L2 U2). exact (seq_ok h h1 h2 l1 l2 L1 L2 O1 O2).
Qed.
Lemma LC_S n : stmtLB n -> stmtLC (S n).
Proof. intros HB c ip h w I. cbn [bsl]. apply HB. exact I. Qed.
Theorem count_all : forall n, stmtLA n /\ stmtLC n /\ stmtLB n.
Proof.
  induction n as [|n (HA & HC & HB)].
  - assert (A0 : stmtLA 0) by (intros ip h w u _ _ _; exact Logic.I). assert (C0 : stmtLC 0) by (intros c ip h w _; exact Logic.I).
    split; [exact A0|split; [exact C0|apply LB_of; auto]].
  - assert (A1 := LA_S n HA HB). assert (C1 := LC_S n HB). split; [exact A1|split; [exact C1|apply LB_of; auto]].
Qed.

(* ---------- the statements ---------- *)
Theorem trace_main_is_spec_main fuel prog stdin : fst (trace_main fuel prog stdin) = spec_main fuel prog stdin.
Proof. unfold trace_main, spec_main. destruct (alloc heap0 prog {| funs := []; args := [] |}). apply bsl_erases. Qed.
Lemma inv_start prog : inv (fst (alloc heap0 prog {| funs := []; args := [] |})) [].
Proof.
  apply inv_alloc. split; [|split].
  - intros x _. unfold get; simpl. apply PositiveMap.gempty.
  - intros x cl v Gx. unfold get in Gx; simpl in Gx. rewrite PositiveMap.gempty in Gx. discriminate.
  - intros x [].
Qed.
(* EVALUATED AT MOST ONCE: in every completed run no delayed expression begins evaluation twice ... *)
Theorem evaluated_at_most_once fuel prog stdin h' w' r d l :
  trace_main fuel prog stdin = (Done h' w' r d, l) -> NoDup l.
Proof.
  unfold trace_main. destruct (alloc heap0 prog {| funs := []; args := [] |}) as [h t] eqn:A.
  assert (h = fst (alloc heap0 prog {| funs := []; args := [] |})) by (rewrite A; auto). subst h.
  intros H. destruct (count_all fuel) as (_ & HC & _). pose proof (HC (call (PFormat (VThunk t) false)) [] _ (world_start stdin []) (inv_start prog)) as O.
  rewrite H in O. exact (proj1 O).
Qed.
(* ... and every one that was evaluated is a delayed expression of the final heap, holding its result: LINEAR WORK - the number of
   evaluations is at most the number of delayed expressions created *)
Lemma nodup_bounded (l:list positive) (b:positive) : NoDup l -> (forall u, In u l -> (u < b)%positive) -> (length l < Pos.to_nat b)%nat.
Proof.
  intros N B. assert (I : incl l (map Pos.of_nat (seq 1 (Pos.to_nat b - 1)))).
  { intros u Iu. specialize (B u Iu). apply in_map_iff. exists (Pos.to_nat u). split; [apply Pos2Nat.id|]. apply in_seq. lia. }
  pose proof (NoDup_incl_length N I) as L. rewrite map_length, seq_length in L. lia.
Qed.
Theorem work_is_linear fuel prog stdin h' w' r d l :
  trace_main fuel prog stdin = (Done h' w' r d, l) -> (length l < Pos.to_nat (next_t h'))%nat /\ forall u, In u l -> cached h' u.
Proof.
  unfold trace_main. destruct (alloc heap0 prog {| funs := []; args := [] |}) as [h t] eqn:A.
  assert (h = fst (alloc heap0 prog {| funs := []; args := [] |})) by (rewrite A; auto). subst h.
  intros H. destruct (count_all fuel) as (_ & HC & _). pose proof (HC (call (PFormat (VThunk t) false)) [] _ (world_start stdin []) (inv_start prog)) as O.
  rewrite H in O. destruct O as [N Al].
  destruct (comp_facts fuel [] _ _ (call (PFormat (VThunk t) false)) h' w' r d l H (inv_start prog)) as [_ (W & _)].
  split; [|intros u I; exact (proj2 (Al u I))].
  apply nodup_bounded; auto. intros u I. destruct (Al u I) as [_ (cl & r0 & G & _)]. eapply get_valid; eauto.
Qed.
Print Assumptions evaluated_at_most_once. Print Assumptions work_is_linear. Print Assumptions bsl_erases.
