(* C16: UTF-8 as defined by RFC 3629, written independently of any codec library: encoder on scalar values, STRICT decoder (rejects overlong
   forms, surrogates, values above U+10FFFF, truncated sequences), and the round trip for every string of scalar values. *)
From Coq Require Import ZArith List Bool Lia.
Import ListNotations.
Open Scope Z_scope.
Ltac Zify.zify_post_hook ::= Z.to_euclidean_division_equations.
Definition scalar (c:Z) : Prop := 0 <= c < 0x110000 /\ ~ (0xD800 <= c <= 0xDFFF).
Definition enc1 (c:Z) : list Z :=
  if c <? 0x80 then [c]
  else if c <? 0x800 then [0xC0 + c / 64; 0x80 + c mod 64]
  else if c <? 0x10000 then [0xE0 + c / 4096; 0x80 + (c / 64) mod 64; 0x80 + c mod 64]
  else [0xF0 + c / 262144; 0x80 + (c / 4096) mod 64; 0x80 + (c / 64) mod 64; 0x80 + c mod 64].
Definition utf8_encode (s:list Z) : list Z := flat_map enc1 s.

Definition cont (b:Z) : bool := (0x80 <=? b) && (b <=? 0xBF).
Definition consm (c:Z) (o:option (list Z)) := match o with Some l => Some (c :: l) | None => None end.
Fixpoint utf8_decode (l:list Z) : option (list Z) :=
  match l with
  | [] => Some []
  | b0 :: r =>
    if (0 <=? b0) && (b0 <? 0x80) then consm b0 (utf8_decode r)
    else if (0xC2 <=? b0) && (b0 <=? 0xDF) then
      match r with
      | b1 :: r1 => if cont b1 then consm ((b0 - 0xC0) * 64 + (b1 - 0x80)) (utf8_decode r1) else None
      | _ => None end
    else if (0xE0 <=? b0) && (b0 <=? 0xEF) then
      match r with
      | b1 :: b2 :: r2 =>
          let c := (b0 - 0xE0) * 4096 + (b1 - 0x80) * 64 + (b2 - 0x80) in
          if cont b1 && cont b2 && (0x800 <=? c) && negb ((0xD800 <=? c) && (c <=? 0xDFFF)) then consm c (utf8_decode r2) else None
      | _ => None end
    else if (0xF0 <=? b0) && (b0 <=? 0xF4) then
      match r with
      | b1 :: b2 :: b3 :: r3 =>
          let c := (b0 - 0xF0) * 262144 + (b1 - 0x80) * 4096 + (b2 - 0x80) * 64 + (b3 - 0x80) in
          if cont b1 && cont b2 && cont b3 && (0x10000 <=? c) && (c <=? 0x10FFFF) then consm c (utf8_decode r3) else None
      | _ => None end
    else None
  end.

Ltac tt H := replace H with true by (symmetry; unfold cont; rewrite ?andb_true_iff, ?negb_true_iff, ?andb_false_iff; repeat split; try (apply Z.leb_le; lia); try (apply Z.ltb_lt; lia)).

Lemma decode_enc1 c rest : scalar c -> utf8_decode (enc1 c ++ rest) = consm c (utf8_decode rest).
Proof.
  intros [[H0 H1] Hs]. unfold enc1.
  destruct (c <? 0x80) eqn:E1; [apply Z.ltb_lt in E1|apply Z.ltb_ge in E1].
  { cbn [app utf8_decode]. replace ((0 <=? c) && (c <? 128)) with true; auto.
    symmetry; apply andb_true_iff; split; [apply Z.leb_le|apply Z.ltb_lt]; lia. }
  destruct (c <? 0x800) eqn:E2; [apply Z.ltb_lt in E2|apply Z.ltb_ge in E2].
  { cbn [app utf8_decode].
    replace ((0 <=? 192 + c / 64) && (192 + c / 64 <? 128)) with false
      by (symmetry; apply andb_false_iff; right; apply Z.ltb_ge; lia).
    replace ((194 <=? 192 + c / 64) && (192 + c / 64 <=? 223)) with true
      by (symmetry; apply andb_true_iff; split; apply Z.leb_le; lia).
    replace (cont (128 + c mod 64)) with true
      by (symmetry; unfold cont; apply andb_true_iff; split; apply Z.leb_le; lia).
    f_equal. lia. }
  destruct (c <? 0x10000) eqn:E3; [apply Z.ltb_lt in E3|apply Z.ltb_ge in E3].
  { cbn [app utf8_decode].
    replace ((0 <=? 224 + c / 4096) && (224 + c / 4096 <? 128)) with false
      by (symmetry; apply andb_false_iff; right; apply Z.ltb_ge; lia).
    replace ((194 <=? 224 + c / 4096) && (224 + c / 4096 <=? 223)) with false
      by (symmetry; apply andb_false_iff; right; apply Z.leb_gt; lia).
    replace ((224 <=? 224 + c / 4096) && (224 + c / 4096 <=? 239)) with true
      by (symmetry; apply andb_true_iff; split; apply Z.leb_le; lia).
    cbv zeta.
    assert (Ec : (224 + c / 4096 - 224) * 4096 + (128 + (c / 64) mod 64 - 128) * 64 + (128 + c mod 64 - 128) = c) by lia.
    rewrite Ec.
    replace (cont (128 + (c / 64) mod 64)) with true by (symmetry; unfold cont; apply andb_true_iff; split; apply Z.leb_le; lia).
    replace (cont (128 + c mod 64)) with true by (symmetry; unfold cont; apply andb_true_iff; split; apply Z.leb_le; lia).
    replace (2048 <=? c) with true by (symmetry; apply Z.leb_le; lia).
    replace ((55296 <=? c) && (c <=? 57343)) with false.
    2:{ symmetry. apply andb_false_iff. destruct (Z_lt_ge_dec c 55296); [left; apply Z.leb_gt; lia|right; apply Z.leb_gt; lia]. }
    reflexivity. }
  { cbn [app utf8_decode].
    replace ((0 <=? 240 + c / 262144) && (240 + c / 262144 <? 128)) with false
      by (symmetry; apply andb_false_iff; right; apply Z.ltb_ge; lia).
    replace ((194 <=? 240 + c / 262144) && (240 + c / 262144 <=? 223)) with false
      by (symmetry; apply andb_false_iff; right; apply Z.leb_gt; lia).
    replace ((224 <=? 240 + c / 262144) && (240 + c / 262144 <=? 239)) with false
      by (symmetry; apply andb_false_iff; right; apply Z.leb_gt; lia).
    replace ((240 <=? 240 + c / 262144) && (240 + c / 262144 <=? 244)) with true
      by (symmetry; apply andb_true_iff; split; apply Z.leb_le; lia).
    cbv zeta.
    assert (Ec : (240 + c / 262144 - 240) * 262144 + (128 + (c / 4096) mod 64 - 128) * 4096 + (128 + (c / 64) mod 64 - 128) * 64 + (128 + c mod 64 - 128) = c) by lia.
    rewrite Ec.
    replace (cont (128 + (c / 4096) mod 64)) with true by (symmetry; unfold cont; apply andb_true_iff; split; apply Z.leb_le; lia).
    replace (cont (128 + (c / 64) mod 64)) with true by (symmetry; unfold cont; apply andb_true_iff; split; apply Z.leb_le; lia).
    replace (cont (128 + c mod 64)) with true by (symmetry; unfold cont; apply andb_true_iff; split; apply Z.leb_le; lia).
    replace (65536 <=? c) with true by (symmetry; apply Z.leb_le; lia).
    replace (c <=? 1114111) with true by (symmetry; apply Z.leb_le; lia).
    reflexivity. }
Qed.

Theorem utf8_roundtrip : forall s, Forall scalar s -> utf8_decode (utf8_encode s) = Some s.
Proof.
  induction 1 as [|c s Hc Hs IH]; cbn [utf8_encode flat_map]; auto.
  rewrite decode_enc1 by auto. fold (utf8_encode s). rewrite IH. reflexivity.
Qed.
(* every encoded byte is a byte, and the encoder is injective on scalar strings (from the round trip) *)
Theorem utf8_bytes c : scalar c -> Forall (fun b => 0 <= b < 256) (enc1 c).
Proof.
  intros [[H0 H1] Hs]. unfold enc1.
  destruct (c <? 0x80) eqn:E1; [apply Z.ltb_lt in E1; repeat constructor; lia|apply Z.ltb_ge in E1].
  destruct (c <? 0x800) eqn:E2; [apply Z.ltb_lt in E2; repeat constructor; lia|apply Z.ltb_ge in E2].
  destruct (c <? 0x10000) eqn:E3; [apply Z.ltb_lt in E3; repeat constructor; lia|apply Z.ltb_ge in E3].
  repeat constructor; lia.
Qed.
Theorem utf8_injective s t : Forall scalar s -> Forall scalar t -> utf8_encode s = utf8_encode t -> s = t.
Proof. intros Hs Ht E. assert (Some s = Some t) by (rewrite <- (utf8_roundtrip s Hs), <- (utf8_roundtrip t Ht), E; reflexivity). congruence. Qed.
