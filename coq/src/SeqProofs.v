(* DRAFT proofs for C12: split / join round trip on the model's definitions *)
From Coq Require Import ZArith NArith List Bool Lia.
Import ListNotations.
Require Import Base Builtins.

Lemma is_prefix_app p l : is_prefix p l = true -> l = p ++ skipn (length p) l.
Proof.
  revert l; induction p as [|x p IH]; intros l H; cbn [is_prefix length skipn app] in *; auto.
  destruct l as [|y l]; [discriminate|]. apply andb_true_iff in H. destruct H as [E H]. apply N.eqb_eq in E. subst. f_equal. auto.
Qed.
Lemma split_on_nonempty fuel sep l cur : split_on fuel sep l cur <> [].
Proof. revert l cur; induction fuel as [|f IH]; intros l cur; cbn [split_on]; [discriminate|]. destruct l as [|c r]; [discriminate|]. destruct (is_prefix sep (c :: r)); [discriminate|apply IH]. Qed.
Lemma joinN_cons sep x r : r <> [] -> joinN sep (x :: r) = x ++ sep ++ joinN sep r.
Proof. destruct r; [congruence|reflexivity]. Qed.

Theorem join_split_gen sep : sep <> [] -> forall fuel l cur, (length l < fuel)%nat -> joinN sep (split_on fuel sep l cur) = rev cur ++ l.
Proof.
  intros Hs. induction fuel as [|f IH]; intros l cur Hl; [lia|]. cbn [split_on].
  destruct l as [|c r].
  - cbn [joinN]. rewrite app_nil_r. reflexivity.
  - destruct (is_prefix sep (c :: r)) eqn:P.
    + rewrite joinN_cons by apply split_on_nonempty. rewrite IH.
      * cbn [rev app]. rewrite <- (is_prefix_app _ _ P). reflexivity.
      * rewrite skipn_length. destruct sep; [congruence|]. cbn [length] in *. lia.
    + rewrite IH by (cbn [length] in Hl; lia). cbn [rev]. rewrite <- app_assoc. reflexivity.
Qed.
(* C12-T5 (strings and byte strings share this model function): joining the pieces of a split with the same
   non-empty separator restores the original *)
Theorem join_split sep s : sep <> [] -> joinN sep (split_on (S (length s)) sep s []) = s.
Proof. intros Hs. rewrite (join_split_gen sep Hs) by lia. reflexivity. Qed.
Theorem join_split_chars s : joinN [] (map (fun c => [c]) s) = s.
Proof. induction s as [|c s IH]; auto. cbn [map]. destruct s; [reflexivity|]. cbn [map] in *. change (joinN [] ([c] :: [n] :: map (fun c0 => [c0]) s)) with ([c] ++ [] ++ joinN [] ([n] :: map (fun c0 => [c0]) s)). rewrite IH. reflexivity. Qed.
Print Assumptions join_split.

(* C12-T4: indexing accepts exactly -len..len-1 (all sequence kinds and exceptions use py_nth) *)
Open Scope Z_scope.
Theorem index_range {A} (l:list A) (i:Z) :
  (exists x, py_nth l i = Some x) <-> - Z.of_nat (length l) <= i < Z.of_nat (length l).
Proof.
  unfold py_nth. set (n := Z.of_nat (length l)).
  destruct ((- n <=? i) && (i <? n)) eqn:E.
  - apply andb_true_iff in E. destruct E as [E1 E2]. apply Z.leb_le in E1. apply Z.ltb_lt in E2. split; [lia|]. intros _.
    destruct (nth_error l (Z.to_nat (if i <? 0 then i + n else i))) eqn:N; [eauto|].
    apply nth_error_None in N. exfalso. destruct (i <? 0) eqn:E3; [apply Z.ltb_lt in E3|apply Z.ltb_ge in E3]; unfold n in *; lia.
  - split; [intros [x H]; discriminate|]. intros [H1 H2]. apply andb_false_iff in E. destruct E as [E|E]; [apply Z.leb_gt in E|apply Z.ltb_ge in E]; lia.
Qed.
Theorem index_value {A} (l:list A) (i:Z) x : py_nth l i = Some x -> nth_error l (Z.to_nat (i mod Z.of_nat (length l))) = Some x.
Proof.
  unfold py_nth. set (n := Z.of_nat (length l)). destruct ((- n <=? i) && (i <? n)) eqn:E; [|discriminate].
  apply andb_true_iff in E. destruct E as [E1 E2]. apply Z.leb_le in E1. apply Z.ltb_lt in E2. intros H. rewrite <- H. f_equal. f_equal.
  destruct (i <? 0) eqn:E3; [apply Z.ltb_lt in E3|apply Z.ltb_ge in E3].
  - symmetry. apply Z.mod_unique with (q := -1); lia.
  - apply Z.mod_small; lia.
Qed.
Print Assumptions index_value.
