(* DRAFT: integer literal codec (parse_number / encode_number); theorems are in proto/Num.v *)
From Coq Require Import ZArith List Bool.
Import ListNotations.
Open Scope Z_scope.
Fixpoint dvalue (ds:list Z) : Z := match ds with [] => 0 | d::r => d + 8 * dvalue r end.
Definition decode (ds:list Z) : Z := if Nat.even (length ds) then - dvalue ds else dvalue ds.
Fixpoint to_digits (fuel:nat) (n:Z) : list Z :=
  match fuel with O => [n] | S f => if n <? 8 then [n] else (n mod 8) :: to_digits f (n / 8) end.
Definition digits_of (n:Z) : list Z := to_digits (Z.to_nat (Z.log2 n)) n.
Definition encode (n:Z) : list Z :=
  let ds := digits_of (Z.abs n) in if Bool.eqb (Nat.even (length ds)) (n <? 0) then ds else ds ++ [0].
