(* C11: ㅈ (less-than) is a strict total order on finite reals - integers of any size and doubles, mixed freely - and it is the order of their
   exact values.  A finite real is measured by sval = value * 2^1074, an INTEGER for every integer and every double in canonical form (the
   smallest exponent of binary64 is -1074); the built-in's four comparisons (integer / integer, the exact integer / double comparison cmp_zf
   both ways, SFcompare on two doubles) all decide  sval a < sval b. *)
From Coq Require Import ZArith NArith List Bool SpecFloat Lia.
Import ListNotations.
Require Import Base Float Strings Builtins Interp Machine Spec Refine2 RunG Eq.
Open Scope Z_scope.

(* a double as the standard's operations deliver it: mantissa below 2^53; below 2^52 only at the smallest exponent (subnormals) *)
Definition canon (f:spec_float) : Prop :=
  match f with S754_finite _ m e => Zpos m < 2 ^ 53 /\ -1074 <= e /\ (e = -1074 \/ 2 ^ 52 <= Zpos m) | _ => True end.
Definition finite_real (v:value) : Prop :=
  match v with VInt _ => True | VFloat (S754_zero _) => True | VFloat (S754_finite s m e) => canon (S754_finite s m e) | _ => False end.
Definition sval (v:value) : Z :=
  match v with
  | VInt n => n * 2 ^ 1074
  | VFloat (S754_finite s m e) => (if s then Zneg m else Zpos m) * 2 ^ (e + 1074)
  | _ => 0 end.
(* the comparison the built-in makes, on evaluated arguments *)
Definition lt_val (a b:value) : bool :=
  match a, b with
  | VInt x, VInt y => x <? y
  | VInt x, VFloat y => match cmp_zf x y with Some Lt => true | _ => false end
  | VFloat x, VInt y => match cmp_zf y x with Some Gt => true | _ => false end
  | VFloat x, VFloat y => match cmp_ff x y with Some Lt => true | _ => false end
  | _, _ => false end.

Lemma pow_split e : -1074 <= e -> 0 <= e -> 2 ^ (e + 1074) = 2 ^ e * 2 ^ 1074.
Proof. intros. rewrite Z.pow_add_r by lia. reflexivity. Qed.
Lemma pow_split_neg e : -1074 <= e -> e < 0 -> 2 ^ 1074 = 2 ^ (- e) * 2 ^ (e + 1074).
Proof. intros. rewrite <- Z.pow_add_r by lia. f_equal. lia. Qed.
Lemma P1074 : 0 < 2 ^ 1074. Proof. apply Z.pow_pos_nonneg; lia. Qed.
Lemma cmp_scale a b k : 0 < k -> Z.compare (a * k) (b * k) = Z.compare a b.
Proof. intros K. destruct (Z.compare_spec a b) as [E|L|G]; [subst; apply Z.compare_eq_iff; reflexivity|apply Z.compare_lt_iff; nia|apply Z.compare_gt_iff; nia]. Qed.

(* integer against double: cmp_zf is the comparison of the exact values *)
Lemma cmp_zf_sval n f : finite_real (VFloat f) -> cmp_zf n f = Some (Z.compare (sval (VInt n)) (sval (VFloat f))).
Proof.
  destruct f as [s|s| |s m e]; cbn [finite_real]; try contradiction; intros C.
  - cbn [cmp_zf sval]. f_equal. pose proof P1074. symmetry. apply (cmp_scale n 0 (2 ^ 1074)). lia.
  - destruct C as (_ & E & _). cbn [cmp_zf sval]. f_equal. set (v := if s then Z.neg m else Z.pos m). pose proof P1074 as P.
    destruct (Z.leb_spec 0 e) as [L|L].
    + rewrite pow_split by lia. rewrite Z.mul_assoc. rewrite cmp_scale by lia. reflexivity.
    + rewrite (pow_split_neg e) by lia. rewrite Z.mul_assoc. rewrite cmp_scale by (apply Z.pow_pos_nonneg; lia). reflexivity.
Qed.

(* two doubles in canonical form: the structural comparison of SFcompare (exponents first, then mantissas) is the comparison of the values *)
Lemma mag_order m1 e1 m2 e2 : canon (S754_finite false m1 e1) -> canon (S754_finite false m2 e2) -> e1 < e2 -> Zpos m1 * 2 ^ (e1 + 1074) < Zpos m2 * 2 ^ (e2 + 1074).
Proof.
  intros (B1 & E1 & _) (B2 & E2 & N2) L. destruct N2 as [N2|N2]; [lia|].
  replace (e2 + 1074) with ((e2 - e1 - 1) + (e1 + 1074 + 1)) by lia. rewrite (Z.pow_add_r 2 (e2 - e1 - 1)) by lia.
  rewrite (Z.pow_add_r 2 (e1 + 1074) 1) by lia. change (2 ^ 1) with 2.
  assert (0 < 2 ^ (e1 + 1074)) by (apply Z.pow_pos_nonneg; lia). assert (0 < 2 ^ (e2 - e1 - 1)) by (apply Z.pow_pos_nonneg; lia).
  change (2 ^ 53) with (2 * 2 ^ 52) in B1. set (P := 2 ^ (e1 + 1074)) in *. set (K := 2 ^ (e2 - e1 - 1)) in *. set (T := 2 ^ 52) in *.
  assert (A1 : Z.pos m1 * P < 2 * T * P) by nia. assert (A2 : 2 * T * P <= 2 * Z.pos m2 * P) by nia.
  assert (A3 : 0 < Z.pos m2 * P) by nia. assert (A4 : 2 * Z.pos m2 * P <= Z.pos m2 * (K * (P * 2))) by nia. lia.
Qed.
Lemma cmp_ff_sval a b : finite_real (VFloat a) -> finite_real (VFloat b) -> cmp_ff a b = Some (Z.compare (sval (VFloat a)) (sval (VFloat b))).
Proof.
  unfold cmp_ff. destruct a as [sa|sa| |sa ma ea], b as [sb|sb| |sb mb eb]; cbn [finite_real]; try contradiction; intros Ca Cb; cbn [SFcompare sval].
  - reflexivity.
  - destruct Cb as (_ & Eb & _). assert (0 < 2 ^ (eb + 1074)) by (apply Z.pow_pos_nonneg; lia). f_equal. destruct sb; symmetry; [apply Z.compare_gt_iff|apply Z.compare_lt_iff]; nia.
  - destruct Ca as (_ & Ea & _). assert (0 < 2 ^ (ea + 1074)) by (apply Z.pow_pos_nonneg; lia). f_equal. destruct sa; symmetry; [apply Z.compare_lt_iff|apply Z.compare_gt_iff]; nia.
  - assert (Pa : 0 < 2 ^ (ea + 1074)) by (destruct Ca as (_ & Ea & _); apply Z.pow_pos_nonneg; lia).
    assert (Pb : 0 < 2 ^ (eb + 1074)) by (destruct Cb as (_ & Eb & _); apply Z.pow_pos_nonneg; lia).
    assert (Ca' : canon (S754_finite false ma ea)) by exact Ca. assert (Cb' : canon (S754_finite false mb eb)) by exact Cb.
    f_equal. destruct sa, sb.
    + (* both negative *)
      destruct (Z.compare_spec ea eb) as [E|L|G].
      * subst eb. rewrite Pos.compare_cont_spec.
        destruct (Pos.compare_spec ma mb) as [E|L|G]; cbn [Pos.switch_Eq CompOpp]; symmetry; [subst; apply Z.compare_eq_iff; reflexivity|apply Z.compare_gt_iff|apply Z.compare_lt_iff]; nia.
      * symmetry. apply Z.compare_gt_iff. pose proof (mag_order ma ea mb eb Ca' Cb' L). lia.
      * symmetry. apply Z.compare_lt_iff. pose proof (mag_order mb eb ma ea Cb' Ca' ltac:(lia)). lia.
    + symmetry. apply Z.compare_lt_iff. nia.
    + symmetry. apply Z.compare_gt_iff. nia.
    + destruct (Z.compare_spec ea eb) as [E|L|G].
      * subst eb. rewrite Pos.compare_cont_spec.
        destruct (Pos.compare_spec ma mb) as [E|L|G]; cbn [Pos.switch_Eq]; symmetry; [subst; apply Z.compare_eq_iff; reflexivity|apply Z.compare_lt_iff|apply Z.compare_gt_iff]; nia.
      * symmetry. apply Z.compare_lt_iff. exact (mag_order ma ea mb eb Ca' Cb' L).
      * symmetry. apply Z.compare_gt_iff. pose proof (mag_order mb eb ma ea Cb' Ca' ltac:(lia)). lia.
Qed.

(* ㅈ decides the order of the exact values *)
Theorem lt_is_value_order a b : finite_real a -> finite_real b -> (lt_val a b = true <-> sval a < sval b).
Proof.
  intros Fa Fb. destruct a as [x|x| | | | | | | | | | |], b as [y|y| | | | | | | | | | |]; cbn [finite_real] in Fa, Fb; try contradiction; cbn [lt_val].
  - cbn [sval]. pose proof P1074. rewrite Z.ltb_lt. nia.
  - rewrite (cmp_zf_sval x y Fb). destruct (Z.compare_spec (sval (VInt x)) (sval (VFloat y))); split; intros; try discriminate; try lia; auto.
  - rewrite (cmp_zf_sval y x Fa). destruct (Z.compare_spec (sval (VInt y)) (sval (VFloat x))); split; intros; try discriminate; try lia; auto.
  - rewrite (cmp_ff_sval x y Fa Fb). destruct (Z.compare_spec (sval (VFloat x)) (sval (VFloat y))); split; intros; try discriminate; try lia; auto.
Qed.
(* ... hence a strict total order: irreflexive, transitive, and exactly one of a < b, b < a, equal values *)
Corollary lt_irreflexive a : finite_real a -> lt_val a a = false.
Proof. intros F. destruct (lt_val a a) eqn:E; auto. apply (lt_is_value_order a a F F) in E. lia. Qed.
Corollary lt_transitive a b c : finite_real a -> finite_real b -> finite_real c -> lt_val a b = true -> lt_val b c = true -> lt_val a c = true.
Proof. intros Fa Fb Fc H1 H2. apply (lt_is_value_order a b Fa Fb) in H1. apply (lt_is_value_order b c Fb Fc) in H2. apply (lt_is_value_order a c Fa Fc). lia. Qed.
Corollary lt_trichotomy a b : finite_real a -> finite_real b ->
  (lt_val a b = true /\ lt_val b a = false /\ sval a <> sval b) \/ (lt_val a b = false /\ lt_val b a = true /\ sval a <> sval b) \/ (lt_val a b = false /\ lt_val b a = false /\ sval a = sval b).
Proof.
  intros Fa Fb. pose proof (lt_is_value_order a b Fa Fb) as H1. pose proof (lt_is_value_order b a Fb Fa) as H2.
  destruct (lt_val a b), (lt_val b a); destruct (Z.lt_trichotomy (sval a) (sval b)) as [L|[E|G]];
    try (exfalso; (assert (sval a < sval b) by (apply H1; reflexivity) || idtac); (assert (sval b < sval a) by (apply H2; reflexivity) || idtac); lia);
    try (left; repeat split; auto; lia); try (right; left; repeat split; auto; lia); try (right; right; repeat split; auto; lia);
    exfalso; try (assert (true = true -> False) by (intros _; apply H1 in L; discriminate)); try (apply H1 in L; discriminate); try (apply H2 in G; discriminate).
Qed.

(* ㄴ on finite reals is equality of the exact values (so "equal values" in the trichotomy is the language's own equality) *)
Definition skey (k:nkeyv) : option Z :=          (* the value * 2^1074 a key stands for *)
  match k with KZero => Some 0 | KFin s m e => Some ((if s then Zneg m else Zpos m) * 2 ^ (e + 1074)) | _ => None end.
Lemma key_value v : finite_real v -> skey (nkey v) = Some (sval v) /\ match nkey v with KFin _ m e => Z.odd (Zpos m) = true /\ 0 <= e + 1074 | KZero => True | _ => False end.
Proof.
  destruct v as [n|f| | | | | | | | | | |]; cbn [finite_real]; try contradiction.
  - intros _. destruct n as [|p|p]; cbn [nkey]. split; [reflexivity|exact I].
    + pose proof (pstrip_spec p) as (E & K & O). destruct (pstrip p) as [m k]. cbn [fst snd] in *. cbn [skey sval]. split; [|split; [exact O|lia]].
      f_equal. rewrite E. rewrite Z.pow_add_r by lia. ring.
    + pose proof (pstrip_spec p) as (E & K & O). destruct (pstrip p) as [m k]. cbn [fst snd] in *. cbn [skey sval]. split; [|split; [exact O|lia]].
      f_equal. change (Z.neg p) with (- Z.pos p). rewrite E. change (Z.neg m) with (- Z.pos m). rewrite Z.pow_add_r by lia. ring.
  - destruct f as [s|s| |s m e]; try contradiction. intros _. cbn [nkey skey sval]. split; [reflexivity|exact I].
    intros (_ & Ee & _). cbn [nkey]. pose proof (pstrip_spec m) as (E & K & O). destruct (pstrip m) as [m' k]. cbn [fst snd] in *. cbn [skey sval]. split; [|split; [exact O|lia]].
    f_equal. replace (e + k + 1074) with (k + (e + 1074)) by lia. rewrite Z.pow_add_r by lia.
    destruct s; [change (Z.neg m) with (- Z.pos m); change (Z.neg m') with (- Z.pos m')|]; rewrite E; ring.
Qed.
Theorem eq_is_value_equality a b : finite_real a -> finite_real b -> (num_eq a b = true <-> sval a = sval b).
Proof.
  intros Fa Fb. assert (Ra : is_real a = true) by (destruct a; try contradiction; reflexivity). assert (Rb : is_real b = true) by (destruct b; try contradiction; reflexivity).
  rewrite (num_eq_real a b Ra Rb). destruct (key_value a Fa) as (Ka & Pa). destruct (key_value b Fb) as (Kb & Pb). split.
  - intros H. apply nkey_eqb_eq in H. rewrite H in Ka. rewrite Ka in Kb. inversion Kb. reflexivity.
  - intros E. rewrite <- E in Kb. destruct (nkey a) as [|sa ma ea| | |], (nkey b) as [|sb mb eb| | |]; try contradiction; cbn [skey] in Ka, Kb; try reflexivity.
    + exfalso. inversion Ka as [Ea]. inversion Kb as [Eb]. destruct Pb as (_ & Jb). assert (0 < 2 ^ (eb + 1074)) by (apply Z.pow_pos_nonneg; lia). destruct sb; nia.
    + exfalso. inversion Ka as [Ea]. inversion Kb as [Eb]. destruct Pa as (_ & Ja). assert (0 < 2 ^ (ea + 1074)) by (apply Z.pow_pos_nonneg; lia). destruct sa; nia.
    + destruct Pa as (Oa & Ja), Pb as (Ob & Jb). inversion Ka as [Ea]. inversion Kb as [Eb]. rewrite <- Ea in Eb.
      assert (Ha : 0 < 2 ^ (ea + 1074)) by (apply Z.pow_pos_nonneg; lia). assert (Hb : 0 < 2 ^ (eb + 1074)) by (apply Z.pow_pos_nonneg; lia).
      assert (S : sa = sb) by (destruct sa, sb; auto; exfalso; nia). subst sb.
      assert (M : Z.pos mb * 2 ^ (eb + 1074) = Z.pos ma * 2 ^ (ea + 1074)) by (destruct sa; [change (Z.neg mb) with (- Z.pos mb) in Eb; change (Z.neg ma) with (- Z.pos ma) in Eb; lia|exact Eb]).
      destruct (odd_pow2_unique _ _ _ _ Ob Oa Jb Ja M) as (M1 & M2). inversion M1; subst. assert (eb = ea) by lia. subst.
      cbn [nkey_eqb]. rewrite Bool.eqb_reflx, Pos.eqb_refl, Z.eqb_refl. reflexivity.
Qed.
(* ... so for finite reals exactly one of  a ㅈ b,  b ㅈ a,  a ㄴ b  holds *)
Corollary lt_eq_trichotomy a b : finite_real a -> finite_real b ->
  (lt_val a b = true /\ lt_val b a = false /\ num_eq a b = false) \/ (lt_val a b = false /\ lt_val b a = true /\ num_eq a b = false) \/ (lt_val a b = false /\ lt_val b a = false /\ num_eq a b = true).
Proof.
  intros Fa Fb. pose proof (eq_is_value_equality a b Fa Fb) as Q.
  destruct (lt_trichotomy a b Fa Fb) as [(A & B & C)|[(A & B & C)|(A & B & C)]].
  - left. repeat split; auto. destruct (num_eq a b); auto. exfalso. apply C. apply Q. reflexivity.
  - right; left. repeat split; auto. destruct (num_eq a b); auto. exfalso. apply C. apply Q. reflexivity.
  - right; right. repeat split; auto. apply Q. exact C.
Qed.

(* the built-in on evaluated arguments *)
Theorem bi_lt_is_lt_val (rec:list positive -> heap -> world -> task -> out) sp a b ip h w : finite_real a -> finite_real b ->
  runG rec value ip h w (bi_lt sp [a; b]) = DoneG h w (inl (VBool (lt_val a b))) 0.
Proof.
  intros Fa Fb. destruct a as [x|x| | | | | | | | | | |], b as [y|y| | | | | | | | | | |]; cbn [finite_real] in Fa, Fb; try contradiction; reflexivity.
Qed.
Example order_met : finite_real (VFloat (S754_finite false 4503599627370496 (-52))) /\ finite_real (VInt (2 ^ 70)) /\ finite_real (VFloat (S754_finite true 1 (-1074)))
  /\ lt_val (VFloat (S754_finite false 4503599627370496 (-52))) (VInt 2) = true /\ lt_val (VInt (2 ^ 53 + 1)) (VFloat (S754_finite false 4503599627370496 1)) = false
  /\ lt_val (VFloat (S754_finite false 4503599627370496 1)) (VInt (2 ^ 53 + 1)) = true.
Proof. repeat split; cbn; try lia; try (right; lia); reflexivity. Qed.
Print Assumptions lt_is_value_order. Print Assumptions lt_irreflexive. Print Assumptions lt_transitive. Print Assumptions lt_trichotomy. Print Assumptions bi_lt_is_lt_val. Print Assumptions eq_is_value_equality. Print Assumptions lt_eq_trichotomy.
