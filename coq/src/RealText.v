(* C18 for reals inside the main model: ㅁㅈ of a real is FloatText.repr_float, ㅅㅅ of a string is FloatText.parse_float_text, and
   reading what was printed gives the real back (FloatTextProofs.repr_reads_back) *)
From Coq Require Import ZArith NArith List Bool SpecFloat.
Import ListNotations.
Require Import Base Float Strings Builtins Interp Machine Spec Refine2 RunG.
Require Import FloatText FloatTextProofs.

Section R.
Variable rec : list positive -> heap -> world -> task -> out.
(* the printed form of a real is the string built-in's result *)
Theorem string_of_real sp f ip h w : runG rec value ip h w (bi_string sp [VFloat f]) = DoneG h w (inl (VStr (show_float f))) 0.
Proof. reflexivity. Qed.
(* reading a string as a real: the double nearest to the decimal, a value error for a text that is no number *)
Theorem real_of_string sp s ip h w f : parse_float_text s = PFloat f -> runG rec value ip h w (bi_float sp [VStr s]) = DoneG h w (inl (VFloat f)) 0.
Proof. intros P. unfold bi_float. cbn. rewrite P. reflexivity. Qed.
Theorem real_of_bad_string sp s ip h w : parse_float_text s = PBad -> runG rec value ip h w (bi_float sp [VStr s]) = DoneG h w (inr (mkerr c_value sp)) 0.
Proof. intros P. unfold bi_float. cbn. rewrite P. reflexivity. Qed.
(* print, then read: the same real - every double the printer finds digits for (sign of zero, infinities included); NaN reads back as NaN *)
Theorem read_what_was_printed sp f txt ip h w : repr_float f = Some txt ->
  runG rec value ip h w (bi_float sp [VStr (show_float f)]) = DoneG h w (inl (VFloat f)) 0.
Proof. intros R. apply real_of_string. unfold show_float. rewrite R. apply repr_reads_back. exact R. Qed.
End R.
Example printed_tenth : repr_float (S754_finite false 7205759403792794 (-56)) = Some [48; 46; 49]%N                                (* 0.1 *)
  /\ repr_float (S754_finite true 4503599627370496 1) = Some [45; 57; 48; 48; 55; 49; 57; 57; 50; 53; 52; 55; 52; 48; 57; 57; 50; 46; 48]%N   (* -9007199254740992.0 *)
  /\ repr_float (S754_finite false 1 (-1074)) = Some [53; 101; 45; 51; 50; 52]%N                                                     (* 5e-324 *)
  /\ repr_float (S754_finite false 5000000000000000 1) = Some [49; 101; 43; 49; 54]%N.                                               (* 1e+16 *)
Proof. repeat split; vm_compute; reflexivity. Qed.
(* the two tolerances of Complex.__str__ (math.isclose: rel_tol 1e-9, abs_tol 1e-16) ARE the doubles their decimal texts denote - read here by the
   decimal reader whose agreement with float() is checked on every run (the constants were once mistyped by hand: found by a boundary case) *)
Example tolerances_are_the_decimals : parse_float_text [49; 101; 45; 57]%N = PFloat Float.rel_tol /\ parse_float_text [49; 101; 45; 49; 54]%N = PFloat Float.abs_tol.
Proof. split; vm_compute; reflexivity. Qed.
(* likewise the module constants pi and e of Builtins.v: the doubles that CPython prints as 3.141592653589793 and 2.718281828459045 *)
Example module_constants_are_the_decimals :
  parse_float_text [51; 46; 49; 52; 49; 53; 57; 50; 54; 53; 51; 53; 56; 57; 55; 57; 51]%N = PFloat (S754_finite false 7074237752028440 (-51))
  /\ parse_float_text [50; 46; 55; 49; 56; 50; 56; 49; 56; 50; 56; 52; 53; 57; 48; 52; 53]%N = PFloat (S754_finite false 6121026514868073 (-51)).
Proof. split; vm_compute; reflexivity. Qed.
Print Assumptions read_what_was_printed. Print Assumptions real_of_string. Print Assumptions string_of_real. Print Assumptions real_of_bad_string.
