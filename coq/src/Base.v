(* DRAFT (head start, not yet part of /verif): values, heap, generator protocol.
   Mirrors pbhhg_py/abstract_syntax.py.  Definitions only. *)
From Coq Require Import ZArith NArith List Bool FMapPositive SpecFloat.
Import ListNotations.
Require Files FilesTotal.      (* the byte-file model: modes, operations, refusals *)

Definition span := (N * N * N)%type.            (* line, start col, end col *)
Inductive ast :=
| Lit (n:Z) (m:span) | FunRef (r:Z) (m:span) | ArgRef (a:ast) (r:Z) (m:span)
| FunDef (b:ast) (m:span) | FunCall (f:ast) (args:list ast) (m:span).
Definition ast_span (a:ast) : span :=
  match a with Lit _ m | FunRef _ m | ArgRef _ _ m | FunDef _ m | FunCall _ _ m => m end.

Notation tid := positive (only parsing).
Notation fid := positive (only parsing).
Notation oid := positive (only parsing).       (* identity of function / IO objects *)

Inductive value :=
| VInt (n:Z) | VFloat (x:spec_float) | VBool (b:bool) | VStr (s:list N) | VBytes (s:list N) | VList (l:list value) | VDict (d:list (value * value))
| VFun (f:funv) | VIO (i:iov) | VErr (sp:list span) (l:list value) | VNil | VThunk (t:positive) | VComplex (re im:spec_float)
with funv :=
| FClo (f:positive) | FModule (name:list Z) | FCodec (id:positive) (scheme:Z) (width:Z) (big:option bool) | FPipe (id:positive) (es:list evalr) | FCollect (id:positive) (e:evalr) | FSpread (id:positive) (e:evalr) | FFile (hd:positive)
with evalr :=                                   (* what proc_functional returns *)
| EBuiltin (n:Z) | EBool (b:bool) | EDict (d:list (value * value)) | ESeq (v:value) | EFun (f:funv)
with iov :=
| IOInput | IOPrint (s:list N) | IOReturn (v:value)
| IOOpen (sp:span) (path:list N) (m:Files.mode) | IOFile (sp:span) (hd:positive) (o:FilesTotal.xop)      (* ㄱㄴ on a path; one command on a file handle *)
| IOBind (sp:span) (m:value) (f:evalr) (h:option evalr) (argv:list value).

Record env := { funs : list positive; args : list (list value) }.
Record error := { e_spans : list span; e_vals : list value }.
Definition res := (value + error)%type.
Record cell := { c_ast : ast; c_env : env; c_cache : option res; c_peeked : bool (* ghost: syntax was inspected *) }.
Record clo := { f_body : ast; f_env : env }.
Record heap := { cells : PositiveMap.t cell; next_t : positive; clos : PositiveMap.t clo; next_f : positive; next_o : positive }.
Definition heap0 : heap := {| cells := PositiveMap.empty _; next_t := 1; clos := PositiveMap.empty _; next_f := 1; next_o := 1 |}.

Inductive proc :=
| PApply (e:evalr) (sp:span) (argv:list value)
| PFormat (v:value) (format_io:bool) | PDeep (v:value) | PKey (v:value) | PDoIO (v:value).

Inductive worldop := WRead | WPrint (s:list N) | WOpen (sp:span) (path:list N) (m:Files.mode) | WFile (sp:span) (hd:positive) (o:FilesTotal.xop)
| WFind (sp:span) (lits:list Z)              (* ㅂ with literal words: search the directory tree for the module file *)
| WLoad (sp:span) (path:list N)              (* the module registered for that file, or the file's text *)
| WRegister (path:list N) (t:positive).      (* enter a module (a delayed expression) in the registry *)
(* the requests that evaluation itself may make (C07: "reading module files for ㅂ aside") *)
Definition module_op (o:worldop) : bool := match o with WFind _ _ | WLoad _ _ | WRegister _ _ => true | _ => false end.

Inductive Comp (A:Type) : Type :=
| Ret (a:A) | Raise (e:error)
| Force (v:value) (k:value -> Comp A)
| Alloc (a:ast) (e:env) (k:positive -> Comp A)
| NewClo (b:ast) (e:env) (k:positive -> Comp A)
| CloDepth (f:positive) (k:nat -> Comp A)                      (* len(closure.env.args), for printing *)
| AllocBody (f:positive) (argv:list value) (k:positive -> Comp A) (* Expr(closure.body, env + [argv]) *)
| Fresh (k:positive -> Comp A)
| PeekLit (t:positive) (k:option Z -> Comp A)                  (* is the unevaluated syntax a literal? *)
| Call (p:proc) (k:value -> Comp A)
| Catch (c:Comp value) (h:error -> Comp value) (k:value -> Comp A)
| World (op:worldop) (k:value -> Comp A).
Arguments Ret {A}. Arguments Raise {A}. Arguments Force {A}. Arguments Alloc {A}. Arguments NewClo {A}.
Arguments CloDepth {A}. Arguments AllocBody {A}. Arguments Fresh {A}. Arguments PeekLit {A}. Arguments Call {A}. Arguments Catch {A}. Arguments World {A}.

Fixpoint bind {A B} (c:Comp A) (f:A -> Comp B) : Comp B :=
  match c with
  | Ret a => f a | Raise e => Raise e
  | Force v k => Force v (fun x => bind (k x) f)
  | Alloc a e k => Alloc a e (fun x => bind (k x) f)
  | NewClo a e k => NewClo a e (fun x => bind (k x) f)
  | CloDepth g k => CloDepth g (fun x => bind (k x) f)
  | AllocBody g av k => AllocBody g av (fun x => bind (k x) f)
  | Fresh k => Fresh (fun x => bind (k x) f)
  | PeekLit t k => PeekLit t (fun x => bind (k x) f)
  | Call p k => Call p (fun x => bind (k x) f)
  | Catch c h k => Catch c h (fun x => bind (k x) f)
  | World o k => World o (fun x => bind (k x) f)
  end.
Notation "x <- c ;; d" := (bind c (fun x => d)) (at level 61, c at next level, right associativity).
Notation "c ;;; d" := (bind c (fun _ => d)) (at level 61, right associativity).
Definition force (v:value) : Comp value := Force v Ret.
Definition call (p:proc) : Comp value := Call p Ret.

(* language-level error classes (codes regenerated from error.py into Gen/GenErr.v; these are the pinned values) *)
Definition c_type := 0%Z.  Definition c_value := (-39)%Z. Definition c_div := (-9)%Z. Definition c_notfound := (-60)%Z.
Definition c_range := (-5)%Z. Definition c_arith := (-54)%Z. Definition c_syntax := (-44)%Z. Definition c_import := 5%Z. Definition c_os := (-63)%Z.
Definition mkerr (code:Z) (sp:span) : error := {| e_spans := [sp]; e_vals := [VInt 5; VInt code] |}.
Definition raise {A} (code:Z) (sp:span) : Comp A := Raise (mkerr code sp).

(* a computation that left the modelled fragment: never catchable, the harness skips the case *)
Definition unmodelled (e:error) : bool := match e_vals e with [VInt 5; VInt 999] => true | _ => false end.
