(* the frame-stack bound of the model is the constant regenerated from interpret.py (and the guard is `len(tail) >= MAX_STACK_SIZE`) *)
From Coq Require Import ZArith NArith List Bool Lia.
Require Import Base Machine.
Require GenStack.
Lemma model_max_stack : MAX_STACK_SIZE = GenStack.gen_max_stack_size. Proof. reflexivity. Qed.
Lemma max_stack_thousands : (1000 <= GenStack.gen_max_stack_size)%nat.
Proof. unfold GenStack.gen_max_stack_size. apply Nat.leb_le. vm_compute. reflexivity. Qed.
