(* C15, end to end on the disk: what ㅂ with literal words does is decided by how many files of the disk carry the literals *)
From Coq Require Import ZArith NArith List Bool Lia.
Import ListNotations.
Require Import Base Strings Builtins Interp Machine Spec RunG ImpSearch ModFS ModFSProofs ImportMain.

Definition carries (lits:list Z) (nm:list N) : Prop := map (fun c => name_lit (norm_name c)) (comps nm) = map Some lits.

(* exactly one file carries the literals: ㅂ hands THAT file to the common loader *)
Theorem import_the_single_match rec sp argv ip h w h1 l0 lits n nm bytes :
  runG rec (option (list Z)) ip h w (peek_lits argv) = DoneG h1 w (inl (Some (l0 :: lits))) 0 -> argv <> [] -> l0 <> 5%Z ->
  files_wf (disk_files (w_disk w)) -> nth_error (w_disk w) n = Some (nm, bytes) -> carries (l0 :: lits) nm ->
  (forall n' nm' bytes', nth_error (w_disk w) n' = Some (nm', bytes') -> carries (l0 :: lits) nm' -> n' = n) ->
  runG rec value ip h w (bi_import sp argv) = runG rec value ip h1 w (load_from_path sp (46 :: 47 :: nm)%N).
Proof.
  intros P NE N5 WF Hn M Only. apply (import_by_literals rec sp argv ip h w h1 l0 lits (map norm_name (comps nm)) (N.of_nat n) nm bytes); auto.
  - apply single_match_is_found with bytes; assumption.
  - rewrite Nnat.Nat2N.id. exact Hn.
Qed.
(* no file carries them: the language's not-found error at the call, nothing changes (any disk) *)
Theorem import_no_match rec sp argv ip h w h1 l0 lits :
  runG rec (option (list Z)) ip h w (peek_lits argv) = DoneG h1 w (inl (Some (l0 :: lits))) 0 -> argv <> [] -> l0 <> 5%Z ->
  (forall n nm bytes, nth_error (w_disk w) n = Some (nm, bytes) -> ~ carries (l0 :: lits) nm) ->
  runG rec value ip h w (bi_import sp argv) = DoneG h1 w (inr (mkerr c_notfound sp)) 0.
Proof. intros P NE N5 No. apply (import_by_literals_not_found rec sp argv ip h w h1 l0 lits); auto. apply no_match_is_not_found. exact No. Qed.
(* two different files carry them: the import error, nothing changes *)
Theorem import_two_matches rec sp argv ip h w h1 l0 lits n1 nm1 bytes1 n2 nm2 bytes2 :
  runG rec (option (list Z)) ip h w (peek_lits argv) = DoneG h1 w (inl (Some (l0 :: lits))) 0 -> argv <> [] -> l0 <> 5%Z ->
  files_wf (disk_files (w_disk w)) -> n1 <> n2 ->
  nth_error (w_disk w) n1 = Some (nm1, bytes1) -> carries (l0 :: lits) nm1 -> nth_error (w_disk w) n2 = Some (nm2, bytes2) -> carries (l0 :: lits) nm2 ->
  runG rec value ip h w (bi_import sp argv) = DoneG h1 w (inr (mkerr c_import sp)) 0.
Proof.
  intros P NE N5 WF Ne H1 M1 H2 M2. apply (import_by_literals_ambiguous rec sp argv ip h w h1 l0 lits); auto.
  apply (two_matches_are_ambiguous (w_disk w) (l0 :: lits) n1 nm1 bytes1 n2 nm2 bytes2); assumption.
Qed.
Print Assumptions import_the_single_match. Print Assumptions import_no_match. Print Assumptions import_two_matches.
