(* C18: a dictionary prints its entries sorted by (printed key, printed value), whatever the insertion order.
   The model's formatter sorts the printed pairs with Interp.sort_pairs (insertion sort by the lexicographic order pair_le on code-point lists).
   Theorem: sort_pairs of any permutation of the printed entries is the same list - the printed form does not depend on insertion order. *)
From Coq Require Import ZArith NArith List Bool Lia Permutation Sorting.Sorted.
Import ListNotations.
Require Import Base Float Strings Num Builtins Interp.

(* ---- lex_lt is a strict total order on code-point lists ---- *)
Lemma lex_irrefl a : lex_lt a a = false.
Proof. induction a as [|x a IH]; cbn [lex_lt]; auto. rewrite N.ltb_irrefl. exact IH. Qed.
Lemma lex_trichotomy a b : lex_lt a b = false -> lex_lt b a = false -> a = b.
Proof.
  revert b; induction a as [|x a IH]; intros [|y b]; cbn [lex_lt]; try discriminate; auto.
  destruct (N.ltb_spec x y); [discriminate|]. destruct (N.ltb_spec y x); [discriminate|].
  intros H1 H2. assert (x = y) by lia. subst. f_equal. auto.
Qed.
Lemma lex_asym a b : lex_lt a b = true -> lex_lt b a = false.
Proof.
  revert b; induction a as [|x a IH]; intros [|y b]; cbn [lex_lt]; try discriminate; auto.
  destruct (N.ltb_spec x y); [destruct (N.ltb_spec y x); [lia|reflexivity]|]. destruct (N.ltb_spec y x); [discriminate|]. apply IH.
Qed.
Lemma lex_trans a b c : lex_lt a b = true -> lex_lt b c = true -> lex_lt a c = true.
Proof.
  revert b c; induction a as [|x a IH]; intros [|y b] [|z c]; cbn [lex_lt]; try discriminate; auto.
  destruct (N.ltb_spec x y) as [Lxy|Lxy].
  - intros _. destruct (N.ltb_spec y z) as [Lyz|Lyz].
    + intros _. destruct (N.ltb_spec x z); [reflexivity|lia].
    + destruct (N.ltb_spec z y) as [Lzy|Lzy]; [discriminate|]. intros _. destruct (N.ltb_spec x z); [reflexivity|lia].
  - destruct (N.ltb_spec y x) as [Lyx|Lyx]; [discriminate|]. intros Hab. assert (x = y) by lia. subst y.
    destruct (N.ltb_spec x z) as [Lxz|Lxz]; [reflexivity|].
    destruct (N.ltb_spec z x) as [Lzx|Lzx]; [discriminate|]. intros Hbc. eapply IH; eauto.
Qed.
(* ---- pair_le is a total order (reflexive, antisymmetric, transitive, total) on printed pairs ---- *)
Definition ple p q := pair_le p q = true.
Lemma ple_total p q : ple p q \/ ple q p.
Proof.
  unfold ple, pair_le. destruct (lex_lt (fst p) (fst q)) eqn:A; auto. destruct (lex_lt (fst q) (fst p)) eqn:B; auto.
  destruct (lex_lt (snd q) (snd p)) eqn:C; cbn; auto. right. rewrite (lex_asym _ _ C). reflexivity.
Qed.
Lemma ple_antisym p q : ple p q -> ple q p -> p = q.
Proof.
  unfold ple, pair_le. destruct p as [a b], q as [c d]; cbn [fst snd].
  destruct (lex_lt a c) eqn:A.
  - pose proof (lex_asym _ _ A) as A'. rewrite A'. discriminate.
  - destruct (lex_lt c a) eqn:B; [discriminate|]. pose proof (lex_trichotomy _ _ A B). subst c.
    intros H1 H2. apply negb_true_iff in H1, H2. rewrite (lex_trichotomy _ _ H2 H1). reflexivity.
Qed.
Lemma ple_trans p q r : ple p q -> ple q r -> ple p r.
Proof.
  unfold ple, pair_le. destruct p as [a b], q as [c d], r as [e f]; cbn [fst snd].
  destruct (lex_lt a c) eqn:A.
  - intros _. destruct (lex_lt c e) eqn:B; [intros _; rewrite (lex_trans _ _ _ A B); reflexivity|].
    destruct (lex_lt e c) eqn:C; [discriminate|]. rewrite <- (lex_trichotomy _ _ B C). rewrite A. reflexivity.
  - destruct (lex_lt c a) eqn:B; [discriminate|]. rewrite (lex_trichotomy _ _ A B). intros H1.
    destruct (lex_lt c e) eqn:C; [reflexivity|]. destruct (lex_lt e c) eqn:D; [discriminate|]. intros H2.
    apply negb_true_iff in H1, H2. apply negb_true_iff.
    destruct (lex_lt f b) eqn:F; [|reflexivity]. exfalso.
    (* f < b, not d < b, not f < d  ->  b = d or b < d ... derive contradiction *)
    destruct (lex_lt b d) eqn:G.
    + destruct (lex_lt d f) eqn:Hd.
      * pose proof (lex_trans _ _ _ G Hd) as K. rewrite (lex_asym _ _ K) in F. discriminate.
      * rewrite (lex_trichotomy _ _ Hd H2) in G. rewrite (lex_asym _ _ G) in F. discriminate.
    + rewrite (lex_trichotomy _ _ G H1) in F. rewrite F in H2. discriminate.
Qed.
(* ---- insertion sort: output is sorted and a permutation; sorted permutations are equal ---- *)
Lemma insert_perm p l : Permutation (insert_sorted p l) (p :: l).
Proof. induction l as [|q l IH]; cbn [insert_sorted]; auto. destruct (pair_le p q); auto. rewrite IH. apply perm_swap. Qed.
Lemma sort_perm l : Permutation (sort_pairs l) l.
Proof. induction l as [|p l IH]; cbn; auto. rewrite insert_perm. auto. Qed.
Lemma insert_sorted_ok p l : StronglySorted ple l -> StronglySorted ple (insert_sorted p l).
Proof.
  induction 1 as [|q l S IH F]; cbn [insert_sorted]; [repeat constructor|].
  destruct (pair_le p q) eqn:E.
  - constructor; [constructor; auto|]. constructor; [exact E|]. eapply Forall_impl; [|exact F]. intros r Hr. eapply ple_trans; eauto. 
  - constructor; auto. assert (Q : ple q p) by (destruct (ple_total p q) as [X|X]; [unfold ple in X; congruence|exact X]).
    eapply Permutation_Forall; [symmetry; apply insert_perm|]. constructor; auto.
Qed.
Lemma sort_sorted l : StronglySorted ple (sort_pairs l).
Proof. induction l as [|p l IH]; cbn; [constructor|]. apply insert_sorted_ok. exact IH. Qed.
Lemma sorted_perm_eq : forall l1 l2, StronglySorted ple l1 -> StronglySorted ple l2 -> Permutation l1 l2 -> l1 = l2.
Proof.
  induction l1 as [|p l1 IH]; intros l2 S1 S2 P.
  - apply Permutation_nil in P. auto.
  - destruct l2 as [|q l2]; [apply Permutation_sym, Permutation_nil in P; discriminate|].
    inversion S1 as [|? ? S1' F1]; subst. inversion S2 as [|? ? S2' F2]; subst.
    assert (p = q).
    { assert (Hp : In p (q :: l2)) by (eapply Permutation_in; [exact P|left; auto]).
      assert (Hq : In q (p :: l1)) by (eapply Permutation_in; [symmetry; exact P|left; auto]).
      destruct Hp as [->|Hp]; auto. destruct Hq as [<-|Hq]; auto.
      apply ple_antisym; [eapply Forall_forall in F1; eauto | eapply Forall_forall in F2; eauto]. }
    subst. f_equal. apply IH; auto. eapply Permutation_cons_inv; eauto.
Qed.
(* the printed entry list of a dictionary is the same for every insertion order *)
Theorem dict_print_order_free l l' : Permutation l l' -> sort_pairs l = sort_pairs l'.
Proof.
  intros P. apply sorted_perm_eq; try apply sort_sorted.
  rewrite sort_perm. rewrite P. symmetry. apply sort_perm.
Qed.
Theorem dict_print_sorted l : StronglySorted ple (sort_pairs l) /\ Permutation (sort_pairs l) l.
Proof. split; [apply sort_sorted|apply sort_perm]. Qed.
