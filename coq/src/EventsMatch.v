(* C19: what the bracket checker `replay` of Events.v accepts, read as the property words it: every 'about to evaluate' event is matched by a later
   'finished' event of the same depth and the same delayed expression, what lies between the two is itself well nested and never closes the
   pending evaluation, and over a completed run there are exactly as many of one kind as of the other.  Statements about event lists alone;
   Events.events_well_nested / depth_zero_at_end say the machine's stream is accepted by `replay`. *)
From Coq Require Import ZArith NArith List Bool Lia.
Import ListNotations.
Require Import Base Strings Builtins Interp Machine Events.

Definition befores (evs:list event) : nat := length (filter (fun e => match e with EB _ _ _ => true | _ => false end) evs).
Definition afters (evs:list event) : nat := length (filter (fun e => match e with EA _ _ _ _ => true | _ => false end) evs).

Theorem replay_counts : forall evs s s', replay evs s = Some s' -> (befores evs + length s = afters evs + length s')%nat.
Proof.
  unfold befores, afters. induction evs as [|e evs IH]; intros s s' H; cbn [replay] in H.
  - inversion H. reflexivity.
  - destruct e as [d t sp|d t sp k]; cbn [filter length].
    + destruct (Nat.eqb d (S (length s))); [|discriminate]. apply IH in H. cbn [length] in H. lia.
    + destruct s as [|[d' t'] s0]; [discriminate|]. destruct (Nat.eqb d d' && Pos.eqb t t'); [|discriminate]. apply IH in H. cbn [length]. lia.
Qed.
Corollary balanced_counts evs : replay evs [] = Some [] -> befores evs = afters evs.
Proof. intros H. apply replay_counts in H. cbn [length] in H. lia. Qed.

(* the general form: with x pending below `top`, a stream that ends at or below x's level closes x at some point; before that point x stays pending *)
Lemma closes_pending : forall r top x base s', replay r (top ++ x :: base) = Some s' -> (length s' <= length base)%nat ->
  exists inner sp k rest, r = inner ++ EA (fst x) (snd x) sp k :: rest /\ replay inner (top ++ x :: base) = Some (x :: base) /\ replay rest base = Some s' /\
    forall p q, inner = p ++ q -> exists top', replay p (top ++ x :: base) = Some (top' ++ x :: base).
Proof.
  induction r as [|e r IH]; intros top x base s' H L.
  - cbn [replay] in H. inversion H; subst. rewrite app_length in L. cbn [length] in L. lia.
  - destruct e as [d t sp|d t sp k]; cbn [replay] in H.
    + destruct (Nat.eqb d (S (length (top ++ x :: base)))) eqn:E; [|discriminate].
      destruct (IH ((d, t) :: top) x base s' H L) as (inner & sp' & k & rest & -> & Hi & Hr & Hp).
      exists (EB d t sp :: inner), sp', k, rest. split; [reflexivity|]. split; [cbn [replay]; rewrite E; exact Hi|]. split; [exact Hr|].
      intros p q Epq. destruct p as [|e p]. { exists top. reflexivity. }
      cbn [app] in Epq. inversion Epq; subst. destruct (Hp p q eq_refl) as [top' Ht]. exists top'. cbn [replay]. rewrite E. exact Ht.
    + destruct top as [|[d' t'] top0]; cbn [app] in H.
      * destruct x as [dx tx]. destruct (Nat.eqb d dx && Pos.eqb t tx) eqn:E; [|discriminate].
        apply andb_true_iff in E. destruct E as [E1 E2]. apply Nat.eqb_eq in E1. apply Pos.eqb_eq in E2. subst.
        exists [], sp, k, r. cbn [app fst snd replay]. split; [reflexivity|]. split; [reflexivity|]. split; [exact H|].
        intros p q Epq. destruct p; [|discriminate]. exists []. reflexivity.
      * destruct (Nat.eqb d d' && Pos.eqb t t') eqn:E; [|discriminate].
        destruct (IH top0 x base s' H L) as (inner & sp' & k' & rest & -> & Hi & Hr & Hp).
        exists (EA d t sp k :: inner), sp', k', rest. split; [reflexivity|]. split; [cbn [replay app]; rewrite E; exact Hi|]. split; [exact Hr|].
        intros p q Epq. destruct p as [|e p]. { exists ((d', t') :: top0). reflexivity. }
        cbn [app] in Epq. inversion Epq; subst. destruct (Hp p q eq_refl) as [top' Ht]. exists top'. cbn [replay app]. rewrite E. exact Ht.
Qed.

(* EVERY 'about to evaluate' event of an accepted stream that ends no deeper than it began is followed by its 'finished' event - same depth, same
   delayed expression; the events between the two are well nested above it and none of their prefixes closes it (so that event is THE match). *)
Theorem before_has_its_after d t sp r base s' : replay (EB d t sp :: r) base = Some s' -> (length s' <= length base)%nat ->
  exists inner sp' k rest, r = inner ++ EA d t sp' k :: rest /\ replay inner ((d, t) :: base) = Some ((d, t) :: base) /\ replay rest base = Some s' /\
    forall p q, inner = p ++ q -> exists top', replay p ((d, t) :: base) = Some (top' ++ (d, t) :: base).
Proof.
  intros H L. cbn [replay] in H. destruct (Nat.eqb d (S (length base))); [|discriminate].
  exact (closes_pending r [] (d, t) base s' H L).
Qed.
(* and its depth is one more than the number of evaluations pending at that moment *)
Theorem before_depth d t sp r base s' : replay (EB d t sp :: r) base = Some s' -> d = S (length base).
Proof. cbn [replay]. destruct (Nat.eqb d (S (length base))) eqn:E; [|discriminate]. intros _. apply Nat.eqb_eq in E. exact E. Qed.

(* on the machine: at the end of a completed run (value or language error) the two kinds of event are equally many *)
Theorem finished_run_is_balanced lim n prog stdin s o :
  msteps lim n (init prog stdin) = inl s -> step_with lim s = inr o -> (exists v, o = ODone v) \/ (exists e, o = OErr e) ->
  befores (rev (events (m_dbg s))) = afters (rev (events (m_dbg s))).
Proof.
  intros E St Fin. apply balanced_counts. eapply depth_zero_at_end; eauto.
Qed.
(* at EVERY moment of a run the depth the observer is told is the number of evaluations begun and not yet finished *)
Theorem depth_is_pending_count lim n prog stdin s : msteps lim n (init prog stdin) = inl s ->
  befores (rev (events (m_dbg s))) = (afters (rev (events (m_dbg s))) + depth (m_dbg s))%nat.
Proof.
  intros E. destruct (events_well_nested _ _ _ _ _ E) as (Hd & Hr & _). apply replay_counts in Hr. rewrite tagged_length in Hr. cbn [length] in Hr. lia.
Qed.
Example nested_somewhere : replay [EB 1 2%positive (0,0,0)%N; EB 2 3%positive (0,0,0)%N; EA 2 3%positive (0,0,0)%N 0%N; EA 1 2%positive (0,0,0)%N 0%N] [] = Some [].
Proof. reflexivity. Qed.
