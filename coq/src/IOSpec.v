(* DRAFT: C07 - what executing an action does to the world, and in which order. *)
From Coq Require Import ZArith NArith List Bool FMapPositive Lia.
Import ListNotations.
Require Import Base Strings Builtins Interp Machine Spec HeapFacts Refine1 Refine2 RunG.

Definition exec n ip h w (v:value) : out := bs n ip h w (TComp (doio_body v)).

(* a value that is not an action is its own result: executing it touches nothing *)
Theorem exec_non_action n ip h w v : is_io v = false -> exec (S n) ip h w v = Done h w (inl v) 0.
Proof. destruct v; try discriminate; reflexivity. Qed.

(* print: exactly the text and one newline are appended to the output, nothing is read, result is nil *)
Theorem print_spec n ip h w s :
  exec (S (S n)) ip h w (VIO (IOPrint s)) = Done h (with_io w (w_in w) (w_out w ++ s ++ [10%N])) (inl VNil) 0.
Proof. reflexivity. Qed.
(* input: consumes exactly one line, or yields nil at end of input and consumes nothing *)
Theorem read_line_spec n ip h w l r : w_in w = l :: r ->
  exec (S (S n)) ip h w (VIO IOInput) = Done h (with_io w r (w_out w)) (inl (VStr l)) 0.
Proof. intros E. unfold exec. cbn [bs doio_body bind run force wstep]. rewrite E. reflexivity. Qed.
Theorem read_eof_spec n ip h w : w_in w = [] -> exec (S (S n)) ip h w (VIO IOInput) = Done h w (inl VNil) 0.
Proof. intros E. unfold exec. cbn [bs doio_body bind run force wstep]. rewrite E. reflexivity. Qed.
(* return: no effect at all *)
Theorem return_spec n ip h w v : isthunk v = false -> is_io v = false ->
  exec (S (S n)) ip h w (VIO (IOReturn v)) = Done h w (inl v) 0.
Proof. intros T I. destruct v; try discriminate; reflexivity. Qed.

(* bind without handler: first the bound action runs to completion (its effects come first), then the
   continuation is applied to its result, must produce an action, and that action runs from the world left by the first *)
Definition then_ (o:out) (f:heap -> world -> value -> out) : out :=
  match o with
  | Done h w (inl v) d => updd (f h w v) d
  | o' => o' end.
Lemma to_out_thenG o f : to_out (thenG o f) = then_ (to_out o) (fun h w v => to_out (f h w v)).
Proof. destruct o as [h w [v|e] d| |]; simpl; auto. destruct (f h w v); reflexivity. Qed.

Theorem bind_runs_in_order n ip h w sp m f argv : late_ok f = true ->
  exec (S n) ip h w (VIO (IOBind sp m f None argv)) =
  match exec n ip h w m with
  | Done h1 w1 (inl x) d1 =>
      updd (then_ (bs n ip h1 w1 (TComp (apply_body f sp [x]))) (fun h2 w2 r =>
            then_ (run (bs n) ip h2 w2 (force r)) (fun h3 w3 r' =>
              if is_io r' then exec n ip h3 w3 r' else Done h3 w3 (inr (mkerr c_type sp)) 0))) d1
  | Done h1 w1 (inr e) d1 => Done h1 w1 (inr e) d1
  | o => o end.
Proof.
  intros Hok. unfold exec. cbn [bs]. rewrite run_is_runG. unfold doio_body at 1. rewrite runG_bind.
  cbn [runG]. unfold call. rewrite runG_bind. cbn [runG]. change (proc_body (PDoIO m)) with (doio_body m).
  destruct (bs n ip h w (TComp (doio_body m))) as [h1 w1 [x|e] d1| |]; cbn [of_out thenG runG upddG to_out]; auto.
  2:{ destruct (unmodelled e); cbn [thenG upddG to_out runG Nat.add]; f_equal; lia. }
  unfold late_apply, call. rewrite Hok. cbn [Nat.add bind]. cbn [runG]. change (proc_body (PApply f sp [x])) with (apply_body f sp [x]).
  destruct (bs n ip h1 w1 (TComp (apply_body f sp [x]))) as [h2 w2 [r|e] d2| |]; cbn [of_out thenG runG upddG to_out then_ updd Nat.add]; auto.
  2:{ cbn [updd]; f_equal; lia. }
  rewrite runG_bind. rewrite (run_is_runG (bs n) (force r)).
  destruct (runG (bs n) value ip h2 w2 (force r)) as [h3 w3 [r'|e] d3| |]; cbn [thenG upddG to_out then_ updd]; auto.
  2:{ cbn [updd]; f_equal; lia. }
  unfold check_type. cbn [forallb]. destruct (is_io r') eqn:Io; cbn [andb bind runG thenG upddG to_out raise].
  2:{ cbn [updd]; f_equal; lia. }
  destruct r'; try discriminate Io. cbn [force runG bind]. change (proc_body (PDoIO (VIO i))) with (doio_body (VIO i)).
  destruct (bs n ip h3 w3 (TComp (doio_body (VIO i)))) as [h4 w4 [y|e] d4| |]; cbn [of_out upddG to_out updd runG Nat.add]; auto; cbn [updd]; f_equal; lia.
Qed.
(* bind with a handler: if the bound action fails, the handler gets the exception value - contents and locations
   intact - in the world the failed action left behind, and must itself produce the action that runs next *)
Theorem bind_handler n ip h w sp m f rej argv h1 w1 e d1 :
  exec n ip h w m = Done h1 w1 (inr e) d1 -> unmodelled e = false -> late_ok rej = true ->
  exec (S n) ip h w (VIO (IOBind sp m f (Some rej) argv)) =
  updd (then_ (bs n ip h1 w1 (TComp (apply_body rej sp [VErr (e_spans e) (e_vals e)]))) (fun h2 w2 r =>
        then_ (run (bs n) ip h2 w2 (force r)) (fun h3 w3 r' =>
          if is_io r' then exec n ip h3 w3 r' else Done h3 w3 (inr (mkerr c_type sp)) 0))) d1.
Proof.
  unfold exec. intros Hm U Hok. cbn [bs]. rewrite run_is_runG. unfold doio_body at 1. rewrite runG_bind.
  cbn [runG]. unfold call. rewrite runG_bind. cbn [runG]. change (proc_body (PDoIO m)) with (doio_body m). rewrite Hm.
  cbn [of_out thenG runG upddG to_out]. rewrite U. unfold late_apply, call. rewrite Hok. cbn [Nat.add bind runG]. change (proc_body (PApply rej sp [VErr (e_spans e) (e_vals e)])) with (apply_body rej sp [VErr (e_spans e) (e_vals e)]).
  destruct (bs n ip h1 w1 (TComp (apply_body rej sp [VErr (e_spans e) (e_vals e)]))) as [h2 w2 [r|e2] d2| |]; cbn [of_out thenG runG upddG to_out then_ updd Nat.add]; auto; try (cbn [updd]; f_equal; lia; fail).
  rewrite runG_bind. rewrite (run_is_runG (bs n) (force r)).
  destruct (runG (bs n) value ip h2 w2 (force r)) as [h3 w3 [r'|e3] d3| |]; cbn [thenG upddG to_out then_ updd]; auto; try (cbn [updd]; f_equal; lia; fail).
  unfold check_type. cbn [forallb]. destruct (is_io r') eqn:Io; cbn [andb bind runG thenG upddG to_out raise]; try (cbn [updd]; f_equal; lia; fail).
  destruct r'; try discriminate Io. cbn [thenG upddG force runG bind]. change (proc_body (PDoIO (VIO i))) with (doio_body (VIO i)).
  destruct (bs n ip h3 w3 (TComp (doio_body (VIO i)))) as [h4 w4 [y|e4] d4| |]; cbn [of_out upddG to_out updd runG Nat.add]; auto; cbn [updd]; f_equal; lia.
Qed.

(* a continuation that is not a function (a Boolean, a list, a dictionary ... - strict_functional accepted it when the bind was BUILT) or a literal
   that names no built-in: the bound action runs first, with all its effects, and only then does the bind fail - in the world the action left *)
Definition late_code (e:evalr) : Z := match e with EBuiltin _ => c_notfound | _ => c_type end.
Theorem bind_continuation_checked_late n ip h w sp m f rej argv h1 w1 x d1 : late_ok f = false ->
  exec n ip h w m = Done h1 w1 (inl x) d1 ->
  exec (S n) ip h w (VIO (IOBind sp m f rej argv)) = Done h1 w1 (inr (mkerr (late_code f) sp)) d1.
Proof.
  intros Hok Hm.
  unfold exec in *. cbn [bs]. rewrite run_is_runG. unfold doio_body at 1. rewrite runG_bind.
  cbn [runG]. unfold call. rewrite runG_bind. cbn [runG]. change (proc_body (PDoIO m)) with (doio_body m). rewrite Hm.
  cbn [of_out thenG runG upddG to_out]. unfold late_apply. rewrite Hok. cbn [Nat.add bind runG raise thenG upddG to_out]. unfold late_code. f_equal. lia.
Qed.
Print Assumptions bind_handler. Print Assumptions bind_continuation_checked_late.
Print Assumptions bind_runs_in_order. Print Assumptions print_spec. Print Assumptions read_line_spec.
