(* DRAFT: the specification's Comp interpreter at every result type, and the law that makes
   per-built-in reasoning compositional:  run (x <- c ;; f x) = run c, then run (f x).
   `run` of Spec.v is the instance at `value` (run_is_runG). *)
From Coq Require Import ZArith NArith List Bool FMapPositive Lia.
Import ListNotations.
Require Import Base Strings Builtins Interp Machine Spec Refine2.

Inductive outG (A:Type) := DoneG (h:heap) (w:world) (r:A + error) (d:nat) | OOFG | ReentryG.
Arguments DoneG {A}. Arguments OOFG {A}. Arguments ReentryG {A}.
Definition upddG {A} (o:outG A) (d0:nat) : outG A := match o with DoneG h w r d => DoneG h w r (Nat.max d0 d) | o' => o' end.
Definition of_out (o:out) : outG value := match o with Done h w r d => DoneG h w r d | OOF => OOFG | Reentry => ReentryG end.
Definition to_out (o:outG value) : out := match o with DoneG h w r d => Done h w r d | OOFG => OOF | ReentryG => Reentry end.
Definition eerr0 : error := {| e_spans := []; e_vals := [] |}.

Section RunG.
Variable rec : list positive -> heap -> world -> task -> out.
Fixpoint runG (A:Type) (ip:list positive) (h:heap) (w:world) (c:Comp A) {struct c} : outG A :=
  let cont (o:outG value) (extra:nat) (k:value -> Comp A) : outG A :=
    match o with
    | DoneG h' w' (inl v) d => upddG (runG A ip h' w' (k v)) (extra + d)%nat
    | DoneG h' w' (inr e) d => DoneG h' w' (inr e) (extra + d)%nat
    | OOFG => OOFG | ReentryG => ReentryG end in
  match c with
  | Ret v => DoneG h w (inl v) 0%nat
  | Raise e => DoneG h w (inr e) 0%nat
  | Force (VThunk u) k =>
      match get h u with
      | None => DoneG h w (inr eerr0) 0%nat
      | Some cl => match c_cache cl with
                   | Some (inl v) => runG A ip h w (k v)
                   | Some (inr e) => DoneG h w (inr e) 0%nat
                   | None => if existsb (Pos.eqb u) ip then ReentryG else cont (of_out (rec ip h w (TThunk u))) 1%nat k end end
  | Force v k => runG A ip h w (k v)
  | Alloc a e k => let (h', t) := alloc h a e in runG A ip h' w (k t)
  | NewClo b e k => let (h', g) := newclo h b e in runG A ip h' w (k g)
  | CloDepth g k => match PositiveMap.find g (clos h) with Some cl => runG A ip h w (k (length (args (f_env cl)))) | None => DoneG h w (inr eerr0) 0%nat end
  | AllocBody g av k => match alloc_body h g av with Some (h', t) => runG A ip h' w (k t) | None => DoneG h w (inr eerr0) 0%nat end
  | Fresh k => let (h', i) := fresh h in runG A ip h' w (k i)
  | PeekLit t k => match get h t with Some cl => runG A ip (set_peeked h t) w (k (lit_of (c_ast cl))) | None => DoneG h w (inr eerr0) 0%nat end
  | Call p k => cont (of_out (rec ip h w (TComp (proc_body p)))) 0%nat k
  | Catch c1 hd k =>
      match runG value ip h w c1 with
      | DoneG h' w' (inl v) d => upddG (runG A ip h' w' (k v)) d
      | DoneG h' w' (inr e) d => if unmodelled e then DoneG h' w' (inr e) d else upddG (cont (runG value ip h' w' (hd e)) 0%nat k) d
      | OOFG => OOFG | ReentryG => ReentryG end
  | World op k => let (w', r) := wstep w op in match r with inl v => runG A ip h w' (k v) | inr e => DoneG h w' (inr e) 0%nat end
  end.

(* sequencing of outcomes *)
Definition thenG {A B} (o:outG A) (f:heap -> world -> A -> outG B) : outG B :=
  match o with
  | DoneG h w (inl a) d => upddG (f h w a) d
  | DoneG h w (inr e) d => DoneG h w (inr e) d
  | OOFG => OOFG | ReentryG => ReentryG end.

Lemma upddG_upddG {A} (o:outG A) a b : upddG (upddG o a) b = upddG o (Nat.max b a).
Proof. destruct o; simpl; auto. f_equal. lia. Qed.
Lemma upddG_0 {A} (o:outG A) : upddG o 0 = o.
Proof. destruct o; simpl; auto. Qed.
Lemma thenG_upddG {A B} (o:outG A) d (f:heap -> world -> A -> outG B) : thenG (upddG o d) f = upddG (thenG o f) d.
Proof. destruct o as [h w [a|e] d0| |]; simpl; auto. rewrite upddG_upddG. reflexivity. Qed.

Lemma run_is_runG : forall c ip h w, run rec ip h w c = to_out (runG value ip h w c).
Proof.
  induction c as [v|e|v k IH|a e k IH|b e k IH|fc k IH|fc av k IH|k IH|t k IH|p k IH|c1 hd k IHc IHh IHk|op k IH] using comp_value_ind;
    intros ip h w; cbn [run runG]; auto.
  - destruct v; auto. destruct (get h t) as [cl|]; auto. destruct (c_cache cl) as [[sv|er]|]; auto.
    destruct (existsb (Pos.eqb t) ip); auto.
    destruct (rec ip h w (TThunk t)) as [h1 w1 [sv|er] d1| |]; cbn [of_out]; auto.
    rewrite IH. destruct (runG value ip h1 w1 (k sv)); auto.
  - destruct (alloc h a e). auto.
  - destruct (newclo h b e). auto.
  - destruct (PositiveMap.find fc (clos h)); auto.
  - destruct (alloc_body h fc av) as [[h1 x]|]; auto.
  - destruct (fresh h). auto.
  - destruct (get h t); auto.
  - destruct (rec ip h w (TComp (proc_body p))) as [h1 w1 [sv|er] d1| |]; cbn [of_out]; auto.
    rewrite IH. destruct (runG value ip h1 w1 (k sv)); auto.
  - rewrite IHc. destruct (runG value ip h w c1) as [h1 w1 [sv|er] d1| |]; cbn [to_out]; auto.
    + rewrite IHk. destruct (runG value ip h1 w1 (k sv)); auto.
    + destruct (unmodelled er); auto. rewrite IHh.
      destruct (runG value ip h1 w1 (hd er)) as [h2 w2 [sv|er2] d2| |]; cbn [to_out]; auto.
      rewrite IHk. destruct (runG value ip h2 w2 (k sv)); cbn [upddG to_out updd]; auto.
  - destruct (wstep w op) as [w2 [rv|re]]; auto.
Qed.

(* the law: running a sequenced computation = running the first part, then the rest from its outcome *)
Lemma runG_bind : forall A (c:Comp A) B (f:A -> Comp B) ip h w,
  runG B ip h w (bind c f) = thenG (runG A ip h w c) (fun h' w' a => runG B ip h' w' (f a)).
Proof.
  apply (Comp_ind (fun A c => forall B (f:A -> Comp B) ip h w,
    runG B ip h w (bind c f) = thenG (runG A ip h w c) (fun h' w' a => runG B ip h' w' (f a))));
    intros A.
  - intros a B f ip h w. cbn [bind runG thenG]. rewrite upddG_0. reflexivity.
  - intros e B f ip h w. reflexivity.
  - intros v k IH B f ip h w. cbn [bind runG]. destruct v; auto.
    destruct (get h t) as [cl|]; auto. destruct (c_cache cl) as [[sv|er]|]; auto.
    destruct (existsb (Pos.eqb t) ip); auto.
    destruct (of_out (rec ip h w (TThunk t))) as [h1 w1 [sv|er] d1| |]; auto.
    rewrite IH, thenG_upddG. reflexivity.
  - intros a e k IH B f ip h w. cbn [bind runG]. destruct (alloc h a e). auto.
  - intros b e k IH B f ip h w. cbn [bind runG]. destruct (newclo h b e). auto.
  - intros fc k IH B f ip h w. cbn [bind runG]. destruct (PositiveMap.find fc (clos h)); auto.
  - intros fc av k IH B f ip h w. cbn [bind runG]. destruct (alloc_body h fc av) as [[h1 x]|]; auto.
  - intros k IH B f ip h w. cbn [bind runG]. destruct (fresh h). auto.
  - intros t k IH B f ip h w. cbn [bind runG]. destruct (get h t); auto.
  - intros p k IH B f ip h w. cbn [bind runG].
    destruct (of_out (rec ip h w (TComp (proc_body p)))) as [h1 w1 [sv|er] d1| |]; auto.
    rewrite IH, thenG_upddG. reflexivity.
  - intros c1 _ hd _ k IH B f ip h w. cbn [bind runG].
    destruct (runG value ip h w c1) as [h1 w1 [sv|er] d1| |]; auto.
    + rewrite IH, thenG_upddG. reflexivity.
    + destruct (unmodelled er); auto.
      destruct (runG value ip h1 w1 (hd er)) as [h2 w2 [sv|er2] d2| |]; auto;
        try (rewrite IH; rewrite !thenG_upddG; reflexivity).
  - intros op k IH B f ip h w. cbn [bind runG]. destruct (wstep w op) as [w2 [rv|re]]; auto.
Qed.
End RunG.
Print Assumptions runG_bind.
