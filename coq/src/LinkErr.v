(* the error-class code words regenerated from pbhhg_py/error.py are the codes the model raises *)
From Coq Require Import ZArith NArith List Bool Lia.
Import ListNotations.
Require Import Base.
Require GenErr.
Open Scope Z_scope.
Lemma model_codes : (c_type, c_value, c_div, c_notfound, c_range, c_arith, c_syntax, c_import, c_os)
  = (GenErr.gen_code_Type, GenErr.gen_code_Value, GenErr.gen_code_Division, GenErr.gen_code_NotFound, GenErr.gen_code_OutOfRange,
     GenErr.gen_code_Arithmetic, GenErr.gen_code_Syntax, GenErr.gen_code_Import, GenErr.gen_code_OS).
Proof. reflexivity. Qed.
Lemma model_marker : GenErr.gen_marker = 5. Proof. reflexivity. Qed.
Lemma codes_distinct : NoDup GenErr.gen_codes.
Proof. repeat constructor; simpl; intuition discriminate. Qed.
