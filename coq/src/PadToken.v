(* C08: a word zero-padded by two digits is the SAME token wherever a literal is used by the parser - as a value, as the arity of ㅎ+n, as the
   position of ㅇ+m (and, being a value, as the nesting index that a following ㅇ takes) - for every word, not only the encoder's spellings *)
From Coq Require Import ZArith NArith List Bool Lia.
Import ListNotations.
Require Import Base Num NumProofs Lex.
Open Scope N_scope.

Definition G : N := 12593.          (* ㄱ, the digit 0 *)
Lemma digits_of_word_app w : forall v, digits_of_word (w ++ v) = match digits_of_word w, digits_of_word v with Some a, Some b => Some (a ++ b) | _, _ => None end.
Proof.
  induction w as [|c w IH]; intros v; cbn [app digits_of_word].
  - destruct (digits_of_word v); reflexivity.
  - rewrite IH. destruct (index_of c GenParse.gen_digits 0%Z); [|reflexivity]. destruct (digits_of_word w); [|reflexivity]. destruct (digits_of_word v); reflexivity.
Qed.
Theorem parse_number_two_zeros w : parse_number (w ++ [G; G]) = parse_number w.
Proof.
  unfold parse_number. rewrite digits_of_word_app. change (digits_of_word [G; G]) with (Some [0; 0]%Z).
  destruct (digits_of_word w) as [ds|]; [|reflexivity]. rewrite pad_two_zeros. reflexivity.
Qed.
(* the token: any word except the bare markers ㅎ / ㅇ (which padding would turn into ㅎ+0 / ㅇ+0) *)
Theorem padded_word_same_token (c:N) rest m stk : (N.eqb c HIEUH || N.eqb c IEUNG = true -> rest <> []) ->
  parse_token ((c :: rest) ++ [G; G], m) stk = parse_token (c :: rest, m) stk.
Proof.
  intros NB. unfold parse_token. cbn [app]. destruct (c =? HIEUH) eqn:H1; [|destruct (c =? IEUNG) eqn:H2].
  - destruct rest as [|r0 rest']; [elim (NB eq_refl); reflexivity|]. cbn [app]. change (r0 :: rest' ++ [G; G]) with ((r0 :: rest') ++ [G; G]).
    rewrite parse_number_two_zeros. reflexivity.
  - destruct rest as [|r0 rest']; [elim (NB eq_refl); reflexivity|]. cbn [app]. change (r0 :: rest' ++ [G; G]) with ((r0 :: rest') ++ [G; G]).
    rewrite parse_number_two_zeros. reflexivity.
  - change (c :: rest ++ [G; G]) with ((c :: rest) ++ [G; G]). rewrite parse_number_two_zeros. reflexivity.
Qed.
(* ... hence the whole text: padding one word anywhere leaves the parser's result - trees or rejection - unchanged (spans as given) *)
Theorem padded_word_same_trees (c:N) rest m : (N.eqb c HIEUH || N.eqb c IEUNG = true -> rest <> []) ->
  forall ts1 ts2 stk, parse_tokens (ts1 ++ ((c :: rest) ++ [G; G], m) :: ts2) stk = parse_tokens (ts1 ++ (c :: rest, m) :: ts2) stk.
Proof.
  intros NB. induction ts1 as [|t ts1 IH]; intros ts2 stk.
  - change (parse_tokens (((c :: rest) ++ [G; G], m) :: ts2) stk = parse_tokens ((c :: rest, m) :: ts2) stk). cbn [parse_tokens snd].
    rewrite padded_word_same_token by exact NB. reflexivity.
  - change (parse_tokens (t :: (ts1 ++ ((c :: rest) ++ [G; G], m) :: ts2)) stk = parse_tokens (t :: (ts1 ++ (c :: rest, m) :: ts2)) stk). cbn [parse_tokens].
    destruct (parse_token t stk); [apply IH|reflexivity].
Qed.
Example padding_somewhere : parse_token ([HIEUH; 12599; G; G], (0, 0, 4)) [Lit 1 (0,0,0); Lit 2 (0,0,0); Lit 3 (0,0,0)] = parse_token ([HIEUH; 12599], (0, 0, 4)) [Lit 1 (0,0,0); Lit 2 (0,0,0); Lit 3 (0,0,0)]
  /\ parse_token ([HIEUH; G; G], (0, 0, 3)) [Lit 1 (0,0,0)] <> parse_token ([HIEUH], (0, 0, 3)) [Lit 1 (0,0,0)].
Proof. split; [reflexivity|vm_compute; discriminate]. Qed.
Print Assumptions parse_number_two_zeros. Print Assumptions padded_word_same_token. Print Assumptions padded_word_same_trees.
