(* DRAFT: C06 - the equality built-in is an equivalence (reflexive except at NaN), symmetric, transitive. *)
From Coq Require Import ZArith NArith List Bool Lia SpecFloat.
Import ListNotations.
Require Import Base Float Builtins.
Open Scope Z_scope.

(* ---------- induction over the positions equality looks at ---------- *)
Section ValueInd.
  Variable P : value -> Prop.
  Hypothesis HInt : forall n, P (VInt n). Hypothesis HFloat : forall f, P (VFloat f). Hypothesis HBool : forall b, P (VBool b).
  Hypothesis HStr : forall s, P (VStr s). Hypothesis HBytes : forall s, P (VBytes s). Hypothesis HFun : forall f, P (VFun f).
  Hypothesis HNil : P VNil. Hypothesis HThunk : forall t, P (VThunk t).
  Hypothesis HList : forall l, Forall P l -> P (VList l).
  Hypothesis HErr : forall s l, Forall P l -> P (VErr s l).
  Hypothesis HDict : forall d, Forall (fun kv => P (fst kv) /\ P (snd kv)) d -> P (VDict d).
  Hypothesis HIn : P (VIO IOInput). Hypothesis HPr : forall s, P (VIO (IOPrint s)).
  Hypothesis HRet : forall v, P v -> P (VIO (IOReturn v)).
  Hypothesis HBind : forall sp m f h l, Forall P l -> P (VIO (IOBind sp m f h l)).
  Hypothesis HComplex : forall r i, P (VComplex r i).
  Hypothesis HOpen : forall sp p m, P (VIO (IOOpen sp p m)). Hypothesis HFile : forall sp hd o, P (VIO (IOFile sp hd o)).
  Fixpoint value_nest_ind (v:value) : P v :=
    match v with
    | VInt n => HInt n | VFloat f => HFloat f | VBool b => HBool b | VStr s => HStr s | VBytes s => HBytes s
    | VFun f => HFun f | VNil => HNil | VThunk t => HThunk t | VComplex r i => HComplex r i
    | VList l => HList l ((fix go (l:list value) : Forall P l := match l with [] => Forall_nil _ | x :: r => Forall_cons _ (value_nest_ind x) (go r) end) l)
    | VErr s l => HErr s l ((fix go (l:list value) : Forall P l := match l with [] => Forall_nil _ | x :: r => Forall_cons _ (value_nest_ind x) (go r) end) l)
    | VDict d => HDict d ((fix go (d:list (value*value)) : Forall (fun kv => P (fst kv) /\ P (snd kv)) d :=
                            match d with [] => Forall_nil _ | p :: r => Forall_cons p (conj (value_nest_ind (fst p)) (value_nest_ind (snd p))) (go r) end) d)
    | VIO IOInput => HIn | VIO (IOPrint s) => HPr s | VIO (IOOpen sp p m) => HOpen sp p m | VIO (IOFile sp hd o) => HFile sp hd o
    | VIO (IOReturn x) => HRet x (value_nest_ind x)
    | VIO (IOBind sp m f h l) => HBind sp m f h l ((fix go (l:list value) : Forall P l := match l with [] => Forall_nil _ | x :: r => Forall_cons _ (value_nest_ind x) (go r) end) l)
    end.
End ValueInd.

(* ---------- generic facts about list_eq / dict_eq ---------- *)
Section Generic.
Variable eq : value -> value -> bool.
Lemma list_eq_sym l1 : Forall (fun p => forall q, eq p q = eq q p) l1 -> forall l2, list_eq eq l1 l2 = list_eq eq l2 l1.
Proof. induction 1 as [|p r Hp Hr IH]; intros [|q r2]; simpl; auto. rewrite Hp, IH. reflexivity. Qed.
Lemma list_eq_refl l : Forall (fun p => eq p p = true) l -> list_eq eq l l = true.
Proof. induction 1 as [|p r Hp Hr IH]; simpl; auto. rewrite Hp, IH. reflexivity. Qed.
Lemma list_eq_trans l1 : Forall (fun p => forall q r, eq p q = true -> eq q r = true -> eq p r = true) l1 ->
  forall l2 l3, list_eq eq l1 l2 = true -> list_eq eq l2 l3 = true -> list_eq eq l1 l3 = true.
Proof.
  induction 1 as [|p r Hp Hr IH]; intros [|q r2] [|s r3]; simpl; auto; try discriminate.
  intros A B. apply andb_true_iff in A. apply andb_true_iff in B. destruct A as [A1 A2], B as [B1 B2].
  rewrite (Hp _ _ A1 B1), (IH _ _ A2 B2). reflexivity.
Qed.
End Generic.

Section GenericDict.
Variable eq : value -> value -> bool.
Definition E (p1 p2:value*value) : bool := eq (fst p1) (fst p2) && eq (snd p1) (snd p2).
Definition subL (x y:list (value*value)) : bool := forallb (fun p1 => existsb (fun p2 => E p1 p2) y) x.
Definition subR (x y:list (value*value)) : bool := forallb (fun p2 => existsb (fun p1 => E p1 p2) x) y.
Lemma fa_ext {A} (f g:A -> bool) l : (forall a, f a = g a) -> forallb f l = forallb g l.
Proof. intros H; induction l as [|a l IH]; simpl; auto. rewrite H, IH; reflexivity. Qed.
Lemma ex_ext {A} (f g:A -> bool) l : (forall a, f a = g a) -> existsb f l = existsb g l.
Proof. intros H; induction l as [|a l IH]; simpl; auto. rewrite H, IH; reflexivity. Qed.
Lemma dict_eq_unfold x y : dict_eq eq x y = Nat.eqb (length x) (length y) && subL x y && subR x y.
Proof.
  unfold dict_eq, subL, subR, E.
  rewrite (fa_ext (fun p1 : value * value => let '(k1, v1) := p1 in existsb (fun p2 : value * value => let '(k2, v2) := p2 in eq k1 k2 && eq v1 v2) y)
                  (fun p1 => existsb (fun p2 => eq (fst p1) (fst p2) && eq (snd p1) (snd p2)) y) x)
    by (intros [k1 v1]; apply ex_ext; intros [k2 v2]; reflexivity).
  rewrite (fa_ext (fun p2 : value * value => let '(k2, v2) := p2 in existsb (fun p1 : value * value => let '(k1, v1) := p1 in eq k1 k2 && eq v1 v2) x)
                  (fun p2 => existsb (fun p1 => eq (fst p1) (fst p2) && eq (snd p1) (snd p2)) x) y)
    by (intros [k2 v2]; apply ex_ext; intros [k1 v1]; reflexivity).
  reflexivity.
Qed.
Lemma subL_spec x y : subL x y = true <-> forall p1, In p1 x -> exists p2, In p2 y /\ E p1 p2 = true.
Proof. unfold subL. rewrite forallb_forall. split; intros H p1 Hp; specialize (H p1 Hp).
  - apply existsb_exists in H; exact H.
  - apply existsb_exists; exact H.
Qed.
Lemma subR_spec x y : subR x y = true <-> forall p2, In p2 y -> exists p1, In p1 x /\ E p1 p2 = true.
Proof. unfold subR. rewrite forallb_forall. split; intros H p2 Hp; specialize (H p2 Hp).
  - apply existsb_exists in H; exact H.
  - apply existsb_exists; exact H.
Qed.
End GenericDict.

Lemma bool_ext (a b:bool) : (a = true <-> b = true) -> a = b.
Proof. destruct a, b; intros [H1 H2]; auto; try (symmetry; apply H1; reflexivity); apply H2; reflexivity. Qed.

Section DictLaws.
Variable eq : value -> value -> bool.
Definition symP (p:value) := forall q, eq p q = eq q p.
Definition transP (p:value) := forall q r, eq p q = true -> eq q r = true -> eq p r = true.
Definition reflP (p:value) := eq p p = true.
Lemma dict_eq_sym x : Forall (fun kv => symP (fst kv) /\ symP (snd kv)) x -> forall y, dict_eq eq x y = dict_eq eq y x.
Proof.
  intros F y. rewrite Forall_forall in F. rewrite !dict_eq_unfold.
  assert (A : subR eq y x = subL eq x y).
  { apply bool_ext. rewrite subL_spec, subR_spec. split; intros H p1 Hp; destruct (H p1 Hp) as (p2 & Hq & He); exists p2; split; auto;
      unfold E in *; destruct (F _ Hp) as [S1 S2]; unfold symP in *; rewrite ?S1, ?S2 in *; auto; rewrite <- S1, <- S2; auto. }
  assert (B : subL eq y x = subR eq x y).
  { apply bool_ext. rewrite subL_spec, subR_spec. split; intros H p2 Hp; destruct (H p2 Hp) as (p1 & Hq & He); exists p1; split; auto;
      unfold E in *; destruct (F _ Hq) as [S1 S2]; unfold symP in *; rewrite ?S1, ?S2 in *; auto; rewrite <- S1, <- S2; auto. }
  rewrite A, B, (Nat.eqb_sym (length y)).
  destruct (Nat.eqb (length x) (length y)), (subL eq x y), (subR eq x y); reflexivity.
Qed.
Lemma dict_eq_refl x : Forall (fun kv => reflP (fst kv) /\ reflP (snd kv)) x -> dict_eq eq x x = true.
Proof.
  intros F. rewrite Forall_forall in F. rewrite dict_eq_unfold, Nat.eqb_refl. simpl. apply andb_true_iff; split.
  - apply subL_spec. intros p Hp. exists p; split; auto. unfold E. destruct (F _ Hp) as [A B]. unfold reflP in *. rewrite A, B. reflexivity.
  - apply subR_spec. intros p Hp. exists p; split; auto. unfold E. destruct (F _ Hp) as [A B]. unfold reflP in *. rewrite A, B. reflexivity.
Qed.
Lemma dict_eq_trans x : Forall (fun kv => transP (fst kv) /\ transP (snd kv)) x ->
  forall y z, dict_eq eq x y = true -> dict_eq eq y z = true -> dict_eq eq x z = true.
Proof.
  intros F y z. rewrite Forall_forall in F. rewrite !dict_eq_unfold. rewrite !andb_true_iff.
  intros [[L1 A1] B1] [[L2 A2] B2]. apply Nat.eqb_eq in L1. apply Nat.eqb_eq in L2. split; [split|].
  - apply Nat.eqb_eq. congruence.
  - rewrite subL_spec in *. intros p1 Hp. destruct (A1 _ Hp) as (p2 & H2 & E12). destruct (A2 _ H2) as (p3 & H3 & E23).
    exists p3; split; auto. unfold E in *. apply andb_true_iff in E12. apply andb_true_iff in E23. destruct E12, E23, (F _ Hp) as [T1 T2].
    rewrite (T1 (fst p2) (fst p3)), (T2 (snd p2) (snd p3)); auto.
  - rewrite subR_spec in *. intros p3 Hp. destruct (B2 _ Hp) as (p2 & H2 & E23). destruct (B1 _ H2) as (p1 & H1 & E12).
    exists p1; split; auto. unfold E in *. apply andb_true_iff in E12. apply andb_true_iff in E23. destruct E12, E23, (F _ H1) as [T1 T2].
    rewrite (T1 (fst p2) (fst p3)), (T2 (snd p2) (snd p3)); auto.
Qed.
End DictLaws.

(* ---------- numbers ---------- *)
Definition feq (a b:spec_float) : Prop :=
  match a, b with
  | S754_zero _, S754_zero _ => True
  | S754_infinity s, S754_infinity s' => s = s'
  | S754_finite s m e, S754_finite s' m' e' => s = s' /\ m = m' /\ e = e'
  | _, _ => False end.
Lemma cmp_ff_eq_iff a b : cmp_ff a b = Some Eq <-> feq a b.
Proof.
  unfold cmp_ff, SFcompare, feq. destruct a as [sa|sa| |sa ma ea], b as [sb|sb| |sb mb eb].
  16: shelve.
  all: try destruct sa; try destruct sb; split; intros H; try discriminate H; try contradiction; try reflexivity; auto.
  Unshelve.
  - destruct sa, sb; try (split; intros H; [discriminate H|destruct H as [H _]; discriminate H]).
    + destruct (Z.compare_spec ea eb) as [He|He|He]; split; intros H; try discriminate H; try (destruct H as (_ & _ & H); lia).
      * inversion H as [H1]. destruct (Pos.compare_cont Eq ma mb) eqn:C; try discriminate H1. apply Pos.compare_eq_iff in C. subst; auto.
      * destruct H as (_ & -> & _). change (Pos.compare_cont Eq mb mb) with (Pos.compare mb mb). rewrite Pos.compare_refl. reflexivity.
    + destruct (Z.compare_spec ea eb) as [He|He|He]; split; intros H; try discriminate H; try (destruct H as (_ & _ & H); lia).
      * inversion H as [H1]. destruct (Pos.compare_cont Eq ma mb) eqn:C; try discriminate H1. apply Pos.compare_eq_iff in C. subst; auto.
      * destruct H as (_ & -> & _). change (Pos.compare_cont Eq mb mb) with (Pos.compare mb mb). rewrite Pos.compare_refl. reflexivity.
Qed.
Lemma feq_sym a b : feq a b -> feq b a.
Proof. destruct a, b; simpl; auto; intuition congruence. Qed.
Lemma feq_trans a b c : feq a b -> feq b c -> feq a c.
Proof. destruct a, b, c; simpl; auto; try contradiction; intuition congruence. Qed.
Definition ffb (a b:spec_float) : bool := match cmp_ff a b with Some Eq => true | _ => false end.
Lemma ffb_iff a b : ffb a b = true <-> feq a b.
Proof. unfold ffb. rewrite <- cmp_ff_eq_iff. destruct (cmp_ff a b) as [[| |]|]; split; intros H; try discriminate H; auto. Qed.
Lemma ffb_sym a b : ffb a b = ffb b a.
Proof. apply bool_ext. rewrite !ffb_iff. split; apply feq_sym. Qed.
Print Assumptions cmp_ff_eq_iff.

(* ---------- numeric keys ---------- *)
Lemma beqb_sym (a b:bool) : Bool.eqb a b = Bool.eqb b a. Proof. destruct a, b; reflexivity. Qed.
Lemma nkey_eqb_sym a b : nkey_eqb a b = nkey_eqb b a.
Proof. destruct a, b; simpl; auto. - rewrite (beqb_sym s), (Pos.eqb_sym m), (Z.eqb_sym e). reflexivity. - apply beqb_sym. Qed.
Lemma nkey_eqb_eq a b : nkey_eqb a b = true -> a = b.
Proof.
  destruct a, b; simpl; try discriminate; auto.
  - rewrite !andb_true_iff. intros [[A B] C]. apply eqb_prop in A. apply Pos.eqb_eq in B. apply Z.eqb_eq in C. subst; auto.
  - intros A. apply eqb_prop in A. subst; auto.
Qed.
Lemma nkey_eqb_trans a b c : nkey_eqb a b = true -> nkey_eqb b c = true -> nkey_eqb a c = true.
Proof. intros H1 H2. apply nkey_eqb_eq in H1. subst. exact H2. Qed.
Definition proper_key (k:nkeyv) : bool := match k with KNan | KNone => false | _ => true end.
Lemma nkey_eqb_refl k : proper_key k = true -> nkey_eqb k k = true.
Proof. destruct k; simpl; try discriminate; auto. - intros _. rewrite Bool.eqb_reflx, Pos.eqb_refl, Z.eqb_refl. reflexivity. - intros _. apply Bool.eqb_reflx. Qed.

(* the key is the exact value: odd mantissa times a power of two *)
Lemma pstrip_spec p : Zpos p = Zpos (fst (pstrip p)) * 2 ^ (snd (pstrip p)) /\ 0 <= snd (pstrip p) /\ Z.odd (Zpos (fst (pstrip p))) = true.
Proof.
  induction p as [q IH|q IH|]; cbn [pstrip]; try (simpl; split; [lia|split; [lia|reflexivity]]).
  destruct (pstrip q) as [m k]. cbn [fst snd] in *. destruct IH as (E & K & O). split; [|split; auto; lia].
  rewrite Z.pow_add_r by lia. change (2 ^ 1) with 2. rewrite Pos2Z.inj_xO, E. ring.
Qed.
(* an odd number times a power of two is written in one way only *)
Lemma odd_pow2_unique m k m' k' : Z.odd m = true -> Z.odd m' = true -> 0 <= k -> 0 <= k' -> m * 2 ^ k = m' * 2 ^ k' -> m = m' /\ k = k'.
Proof.
  intros Om Om' K K' H.
  assert (G : forall a b i j, Z.odd a = true -> 0 <= i -> i < j -> a * 2 ^ i = b * 2 ^ j -> False).
  { intros a b i j Oa I J Hab. replace j with (i + (j - i)) in Hab by lia. rewrite Z.pow_add_r in Hab by lia.
    assert (P : 0 < 2 ^ i) by (apply Z.pow_pos_nonneg; lia).
    assert (a = b * 2 ^ (j - i)) by nia.
    replace (j - i) with (1 + (j - i - 1)) in H0 by lia. rewrite Z.pow_add_r in H0 by lia. change (2 ^ 1) with 2 in H0.
    subst a. rewrite Z.odd_mul, Z.odd_mul in Oa. simpl in Oa. rewrite andb_false_r in Oa. discriminate. }
  destruct (Z.lt_trichotomy k k') as [L|[L|L]].
  - exfalso. eapply (G m m' k k'); eauto.
  - subst k'. split; auto. assert (P : 0 < 2 ^ k) by (apply Z.pow_pos_nonneg; lia). nia.
  - exfalso. eapply (G m' m k' k); eauto.
Qed.
(* on integers and reals the imaginary parts are both zero: equality is equality of the real keys *)
Lemma num_eq_real a b : is_real a = true -> is_real b = true -> num_eq a b = nkey_eqb (nkey a) (nkey b).
Proof. destruct a; try discriminate; destruct b; try discriminate; intros _ _; unfold num_eq; cbn [ckey fst snd nkey_eqb]; apply andb_true_r. Qed.
Lemma num_eq_sym a b : num_eq a b = num_eq b a.
Proof. unfold num_eq. rewrite (nkey_eqb_sym (fst (ckey a))), (nkey_eqb_sym (snd (ckey a))). reflexivity. Qed.
Lemma num_eq_trans a b c : num_eq a b = true -> num_eq b c = true -> num_eq a c = true.
Proof.
  unfold num_eq. intros H1 H2. apply andb_true_iff in H1. apply andb_true_iff in H2. destruct H1 as [A1 A2], H2 as [B1 B2].
  apply andb_true_iff. split; eapply nkey_eqb_trans; eauto.
Qed.
Theorem int_eq_exact x y : num_eq (VInt x) (VInt y) = true <-> x = y.
Proof.
  rewrite num_eq_real by reflexivity.
  split; [|intros ->; apply nkey_eqb_refl; destruct y; simpl; auto; destruct (pstrip p); reflexivity].
  intros H. apply nkey_eqb_eq in H.
  destruct x as [|p|p], y as [|q|q]; cbn [nkey] in H; try reflexivity;
    try (destruct (pstrip p); discriminate H); try (destruct (pstrip q); discriminate H);
    try (destruct (pstrip p), (pstrip q); discriminate H).
  - pose proof (pstrip_spec p) as (E1 & _ & _). pose proof (pstrip_spec q) as (E2 & _ & _).
    destruct (pstrip p) as [m k], (pstrip q) as [m' k']. cbn [fst snd] in *. inversion H; subst. congruence.
  - pose proof (pstrip_spec p) as (E1 & _ & _). pose proof (pstrip_spec q) as (E2 & _ & _).
    destruct (pstrip p) as [m k], (pstrip q) as [m' k']. cbn [fst snd] in *. inversion H; subst.
    assert (Zpos p = Zpos q) by congruence. inversion H0; subst; reflexivity.
Qed.
Print Assumptions int_eq_exact.

(* ---------- the equality built-in ---------- *)
Lemma codes_eq_true' x y : codes_eq x y = true <-> x = y.
Proof. unfold codes_eq. destruct (list_eq_dec N.eq_dec x y); split; auto; discriminate. Qed.
Lemma op_eqb_true a b : op_eqb a b = true <-> a = b.
Proof.
  destruct a, b; cbn [op_eqb]; try (split; [discriminate|intros H; discriminate H]); try (split; reflexivity);
    try (rewrite Z.eqb_eq; split; [intros ->; reflexivity|intros H; inversion H; reflexivity]).
  rewrite codes_eq_true'. split; [intros ->; reflexivity|intros H; inversion H; reflexivity].
Qed.
Lemma xop_eqb_true a b : xop_eqb a b = true <-> a = b.
Proof.
  destruct a as [x|], b as [y|]; cbn [xop_eqb]; try (split; [discriminate|intros H; discriminate H]); try (split; reflexivity).
  rewrite op_eqb_true. split; [intros ->; reflexivity|intros H; inversion H; reflexivity].
Qed.
Lemma bool_of_iff (a b:bool) : (a = true <-> b = true) -> a = b.
Proof. destruct a, b; intros [H1 H2]; try reflexivity; [symmetry; apply H1|apply H2]; reflexivity. Qed.
Lemma xop_eqb_sym a b : xop_eqb a b = xop_eqb b a.
Proof. apply bool_of_iff. rewrite !xop_eqb_true. split; congruence. Qed.
Definition io_leaf_eq (i j:iov) : bool :=
  match i, j with
  | IOOpen _ p m, IOOpen _ p' m' => codes_eq p p' && (if Files_mode_eq m m' then true else false)
  | IOFile _ h o, IOFile _ h' o' => Pos.eqb h h' && xop_eqb o o'
  | _, _ => false end.
Lemma codes_eq_sym x y : codes_eq x y = codes_eq y x.
Proof. unfold codes_eq. destruct (list_eq_dec N.eq_dec x y), (list_eq_dec N.eq_dec y x); auto; congruence. Qed.
Lemma codes_eq_true x y : codes_eq x y = true <-> x = y.
Proof. unfold codes_eq. destruct (list_eq_dec N.eq_dec x y); split; auto; discriminate. Qed.
Lemma fun_eq_sym f g : fun_eq f g = fun_eq g f.
Proof. destruct f, g; simpl; auto using Pos.eqb_sym. destruct (list_eq_dec Z.eq_dec name name0), (list_eq_dec Z.eq_dec name0 name); auto; congruence. Qed.
Lemma fun_eq_trans f g k : fun_eq f g = true -> fun_eq g k = true -> fun_eq f k = true.
Proof.
  destruct f, g; simpl; try discriminate; destruct k; simpl; try discriminate;
    try (intros A B; apply Pos.eqb_eq in A; apply Pos.eqb_eq in B; apply Pos.eqb_eq; congruence).
  destruct (list_eq_dec Z.eq_dec name name0), (list_eq_dec Z.eq_dec name0 name1), (list_eq_dec Z.eq_dec name name1); auto; congruence.
Qed.
Lemma fun_eq_refl f : fun_eq f f = true.
Proof. destruct f; simpl; auto using Pos.eqb_refl. destruct (list_eq_dec Z.eq_dec name name); auto. Qed.

Definition numeric (v:value) : bool := match v with VInt _ | VFloat _ | VComplex _ _ => true | _ => false end.
Lemma num_eq_nonnum_l a b : numeric a = false -> num_eq a b = false.
Proof. destruct a; try discriminate; reflexivity. Qed.
Lemma num_eq_nonnum_r a b : numeric b = false -> num_eq a b = false.
Proof. intros H. rewrite num_eq_sym. apply num_eq_nonnum_l. exact H. Qed.
Lemma veqb_num a b : numeric a = true -> veqb a b = num_eq a b.
Proof. destruct a; try discriminate; reflexivity. Qed.
Lemma veqb_num_r a b : numeric b = true -> veqb a b = num_eq a b.
Proof. intros H. destruct a; try reflexivity; destruct b; try discriminate H; reflexivity. Qed.

Ltac num_case b :=
  let Nb := fresh "Nb" in
  destruct (numeric b) eqn:Nb;
  [rewrite (veqb_num b) by exact Nb; rewrite num_eq_nonnum_r by reflexivity; destruct b; try discriminate Nb; reflexivity|].
Theorem veqb_sym : forall a b, veqb a b = veqb b a.
Proof.
  induction a as [n|f|bb|s|s|f| |t|l IH|sp l IH|d IH| |s|v IH|sp m f h l IH|cr ci|sp0 p0 m0|sp0 hd0 o0] using value_nest_ind; intros b.
  - rewrite veqb_num, veqb_num_r by reflexivity. apply num_eq_sym.
  - rewrite veqb_num, veqb_num_r by reflexivity. apply num_eq_sym.
  - num_case b. destruct b; try discriminate Nb; try reflexivity. cbn [veqb]. apply beqb_sym.
  - num_case b. destruct b; try discriminate Nb; try reflexivity. cbn [veqb]. apply codes_eq_sym.
  - num_case b. destruct b; try discriminate Nb; try reflexivity. cbn [veqb]. apply codes_eq_sym.
  - num_case b. destruct b; try discriminate Nb; try reflexivity. cbn [veqb]. apply fun_eq_sym.
  - num_case b. destruct b; try discriminate Nb; reflexivity.
  - num_case b. destruct b; try discriminate Nb; reflexivity.
  - num_case b. destruct b; try discriminate Nb; try reflexivity. cbn [veqb]. apply (list_eq_sym (fun p q => veqb p q)). exact IH.
  - num_case b. destruct b; try discriminate Nb; try reflexivity. cbn [veqb]. apply (list_eq_sym (fun p q => veqb p q)). exact IH.
  - num_case b. destruct b; try discriminate Nb; try reflexivity. cbn [veqb]. apply (dict_eq_sym (fun p q => veqb p q)). exact IH.
  - num_case b. destruct b as [| | | | | | | |i| | | |]; try discriminate Nb; try reflexivity; try (destruct i; reflexivity).
  - num_case b. destruct b as [| | | | | | | |i| | | |]; try discriminate Nb; try reflexivity. destruct i; try reflexivity; cbn [veqb]; apply codes_eq_sym.
  - num_case b. destruct b as [| | | | | | | |i| | | |]; try discriminate Nb; try reflexivity. destruct i; try reflexivity; cbn [veqb]; apply IH.
  - num_case b. destruct b as [| | | | | | | |i| | | |]; try discriminate Nb; try reflexivity. destruct i; try reflexivity; cbn [veqb]; apply (list_eq_sym (fun p q => veqb p q)); exact IH.
  - rewrite veqb_num, veqb_num_r by reflexivity. apply num_eq_sym.
  - num_case b. destruct b as [| | | | | | | |i| | | |]; try discriminate Nb; try reflexivity. destruct i; try reflexivity; cbn [veqb].
    rewrite codes_eq_sym. f_equal. destruct (Files_mode_eq m0 m), (Files_mode_eq m m0); congruence.
  - num_case b. destruct b as [| | | | | | | |i| | | |]; try discriminate Nb; try reflexivity. destruct i; try reflexivity; cbn [veqb].
    rewrite Pos.eqb_sym, xop_eqb_sym. reflexivity.
Qed.

Theorem veqb_trans : forall a b c, veqb a b = true -> veqb b c = true -> veqb a c = true.
Proof.
  induction a as [n|f|bb|s|s|f| |t|l IH|sp l IH|d IH| |s|v IH|sp m f h l IH|cr ci|sp0 p0 m0|sp0 hd0 o0] using value_nest_ind; intros b c H1 H2.
  - rewrite veqb_num in * by reflexivity. destruct (numeric b) eqn:Nb; [|rewrite num_eq_nonnum_r in H1 by auto; discriminate].
    rewrite veqb_num in H2 by auto. eapply num_eq_trans; eauto.
  - rewrite veqb_num in * by reflexivity. destruct (numeric b) eqn:Nb; [|rewrite num_eq_nonnum_r in H1 by auto; discriminate].
    rewrite veqb_num in H2 by auto. eapply num_eq_trans; eauto.
  - destruct b; try discriminate H1. destruct c; try discriminate H2. cbn [veqb] in *. apply eqb_prop in H1. apply eqb_prop in H2. subst. apply Bool.eqb_reflx.
  - destruct b; try discriminate H1. destruct c; try discriminate H2. cbn [veqb] in *. apply codes_eq_true in H1. apply codes_eq_true in H2. apply codes_eq_true. congruence.
  - destruct b; try discriminate H1. destruct c; try discriminate H2. cbn [veqb] in *. apply codes_eq_true in H1. apply codes_eq_true in H2. apply codes_eq_true. congruence.
  - destruct b; try discriminate H1. destruct c; try discriminate H2. cbn [veqb] in *. eapply fun_eq_trans; eauto.
  - destruct b; try discriminate H1. destruct c; try discriminate H2. reflexivity.
  - destruct b; discriminate H1.
  - destruct b; try discriminate H1. destruct c; try discriminate H2. cbn [veqb] in *. eapply (list_eq_trans (fun p q => veqb p q)); eauto.
  - destruct b; try discriminate H1. destruct c; try discriminate H2. cbn [veqb] in *. eapply (list_eq_trans (fun p q => veqb p q)); eauto.
  - destruct b; try discriminate H1. destruct c; try discriminate H2. cbn [veqb] in *. eapply (dict_eq_trans (fun p q => veqb p q)); eauto.
  - destruct b as [| | | | | | | |i| | | |]; try discriminate H1. destruct i; try discriminate H1. exact H2.
  - destruct b as [| | | | | | | |i| | | |]; try discriminate H1. destruct i; try discriminate H1.
    destruct c as [| | | | | | | |j| | | |]; try discriminate H2. destruct j; try discriminate H2. cbn [veqb] in *.
    apply codes_eq_true in H1. apply codes_eq_true in H2. apply codes_eq_true. congruence.
  - destruct b as [| | | | | | | |i| | | |]; try discriminate H1. destruct i; try discriminate H1.
    destruct c as [| | | | | | | |j| | | |]; try discriminate H2. destruct j; try discriminate H2. cbn [veqb] in *. eapply IH; eauto.
  - destruct b as [| | | | | | | |i| | | |]; try discriminate H1. destruct i; try discriminate H1.
    destruct c as [| | | | | | | |j| | | |]; try discriminate H2. destruct j; try discriminate H2. cbn [veqb] in *.
    eapply (list_eq_trans (fun p q => veqb p q)); eauto.
  - rewrite veqb_num in * by reflexivity. destruct (numeric b) eqn:Nb; [|rewrite num_eq_nonnum_r in H1 by auto; discriminate].
    rewrite veqb_num in H2 by auto. eapply num_eq_trans; eauto.
  - destruct b as [| | | | | | | |i| | | |]; try discriminate H1. destruct i; try discriminate H1.
    destruct c as [| | | | | | | |j| | | |]; try discriminate H2. destruct j; try discriminate H2. cbn [veqb] in *.
    apply andb_true_iff in H1. apply andb_true_iff in H2. destruct H1 as [A1 A2], H2 as [B1 B2]. apply codes_eq_true in A1. apply codes_eq_true in B1. subst.
    destruct (Files_mode_eq m0 m); [|discriminate]. destruct (Files_mode_eq m m1); [|discriminate]. subst.
    apply andb_true_iff. split; [apply codes_eq_true; reflexivity|]. destruct (Files_mode_eq m1 m1); congruence.
  - destruct b as [| | | | | | | |i| | | |]; try discriminate H1. destruct i; try discriminate H1.
    destruct c as [| | | | | | | |j| | | |]; try discriminate H2. destruct j; try discriminate H2. cbn [veqb] in *.
    apply andb_true_iff in H1. apply andb_true_iff in H2. destruct H1 as [A1 A2], H2 as [B1 B2].
    apply Pos.eqb_eq in A1. apply Pos.eqb_eq in B1. apply xop_eqb_true in A2. apply xop_eqb_true in B2. subst.
    apply andb_true_iff. split; [apply Pos.eqb_refl|apply xop_eqb_true; reflexivity].
Qed.

(* reflexive on every fully evaluated value that contains no NaN in a position equality looks at *)
Fixpoint nan_free (v:value) : Prop :=
  match v with
  | VFloat f => f_nan f = false
  | VComplex r i => f_nan r = false /\ f_nan i = false
  | VThunk _ => False
  | VList l | VErr _ l => (fix all (l:list value) := match l with [] => True | x :: r => nan_free x /\ all r end) l
  | VDict d => (fix all (d:list (value*value)) := match d with [] => True | (k, x) :: r => (nan_free k /\ nan_free x) /\ all r end) d
  | VIO (IOReturn x) => nan_free x
  | VIO (IOBind _ _ _ _ l) => (fix all (l:list value) := match l with [] => True | x :: r => nan_free x /\ all r end) l
  | _ => True end.
Lemma all_Forall (l:list value) : (fix all (l:list value) := match l with [] => True | x :: r => nan_free x /\ all r end) l -> Forall nan_free l.
Proof. induction l as [|x r IH]; intros H; constructor; destruct H; auto. Qed.
Lemma allp_Forall (d:list (value*value)) :
  (fix all (d:list (value*value)) := match d with [] => True | (k, x) :: r => (nan_free k /\ nan_free x) /\ all r end) d -> Forall (fun kv => nan_free (fst kv) /\ nan_free (snd kv)) d.
Proof. induction d as [|[k x] r IH]; intros H; constructor; destruct H; auto. Qed.
Lemma Forall_mp {A} (P Q:A -> Prop) l : Forall (fun x => P x -> Q x) l -> Forall P l -> Forall Q l.
Proof. induction 1 as [|x l Hx Hl IH]; intros HP; inversion HP; subst; constructor; auto. Qed.

Theorem veqb_refl : forall a, nan_free a -> veqb a a = true.
Proof.
  induction a as [n|f|bb|s|s|f| |t|l IH|sp l IH|d IH| |s|v IH|sp m f h l IH|cr ci|sp0 p0 m0|sp0 hd0 o0] using value_nest_ind; intros NF.
  - rewrite veqb_num by reflexivity. apply int_eq_exact. reflexivity.
  - rewrite veqb_num by reflexivity. rewrite num_eq_real by reflexivity. apply nkey_eqb_refl. destruct f; try reflexivity; try discriminate NF. cbn [nkey]. destruct (pstrip m); reflexivity.
  - apply Bool.eqb_reflx.
  - cbn [veqb]. apply codes_eq_true; reflexivity.
  - cbn [veqb]. apply codes_eq_true; reflexivity.
  - apply fun_eq_refl.
  - reflexivity.
  - destruct NF.
  - cbn [veqb]. apply (list_eq_refl (fun p q => veqb p q)). apply (Forall_mp _ _ _ IH). apply all_Forall. exact NF.
  - cbn [veqb]. apply (list_eq_refl (fun p q => veqb p q)). apply (Forall_mp _ _ _ IH). apply all_Forall. exact NF.
  - cbn [veqb]. apply (dict_eq_refl (fun p q => veqb p q)). apply allp_Forall in NF.
    rewrite Forall_forall in *. intros kv Hk. destruct (IH _ Hk) as [I1 I2]. destruct (NF _ Hk) as [N1 N2]. split; [apply I1; exact N1|apply I2; exact N2].
  - reflexivity.
  - cbn [veqb]. apply codes_eq_true; reflexivity.
  - cbn [veqb]. apply IH. exact NF.
  - cbn [veqb]. apply (list_eq_refl (fun p q => veqb p q)). apply (Forall_mp _ _ _ IH). apply all_Forall. exact NF.
  - rewrite veqb_num by reflexivity. destruct NF as [N1 N2]. unfold num_eq. cbn [ckey fst snd]. apply andb_true_iff. split; apply nkey_eqb_refl.
    + destruct cr; try reflexivity; try discriminate N1. cbn [nkey]. destruct (pstrip m); reflexivity.
    + destruct ci; try reflexivity; try discriminate N2. cbn [nkey]. destruct (pstrip m); reflexivity.
  - cbn [veqb]. apply andb_true_iff. split; [apply codes_eq_true; reflexivity|]. destruct (Files_mode_eq m0 m0); congruence.
  - cbn [veqb]. apply andb_true_iff. split; [apply Pos.eqb_refl|apply xop_eqb_true; reflexivity].
Qed.
(* NaN equals nothing, itself included *)
Theorem nan_irreflexive b : veqb (VFloat S754_nan) b = false /\ veqb b (VFloat S754_nan) = false.
Proof. split; [|rewrite veqb_sym]; rewrite veqb_num by reflexivity; reflexivity. Qed.

(* values of different kinds differ (the two real kinds form one numeric class) *)
Definition kclass (v:value) : nat :=
  match v with VInt _ | VFloat _ | VComplex _ _ => 1 | VBool _ => 2 | VStr _ => 3 | VList _ => 4 | VDict _ => 5 | VFun _ => 6 | VIO _ => 7 | VErr _ _ => 8 | VNil => 9 | VThunk _ => 10 | VBytes _ => 11 end%nat.
Theorem kinds_differ a b : veqb a b = true -> kclass a = kclass b.
Proof.
  destruct (numeric a) eqn:Na.
  - rewrite veqb_num by exact Na. destruct (numeric b) eqn:Nb.
    + destruct a, b; try discriminate Na; try discriminate Nb; reflexivity.
    + rewrite num_eq_nonnum_r by exact Nb. discriminate.
  - destruct (numeric b) eqn:Nb.
    + rewrite veqb_num_r by exact Nb. rewrite num_eq_nonnum_l by exact Na. discriminate.
    + destruct a, b; try discriminate Na; try discriminate Nb; cbn [veqb kclass]; intros H; try discriminate H; reflexivity.
Qed.

Print Assumptions veqb_sym. Print Assumptions veqb_trans. Print Assumptions veqb_refl. Print Assumptions kinds_differ.

(* ---------- dictionaries key by exactly this equality ---------- *)
Theorem lookup_insert d k v k2 :
  dict_lookup (dict_insert d k v) k2 = if veqb k k2 then Some v else dict_lookup d k2.
Proof.
  induction d as [|[k' v'] r IH]; cbn [dict_insert dict_lookup]; auto.
  destruct (veqb k' k) eqn:E1; cbn [dict_lookup].
  - destruct (veqb k k2) eqn:E2; auto. destruct (veqb k' k2) eqn:E3; auto.
    rewrite veqb_sym in E1. rewrite (veqb_trans _ _ _ E1 E3) in E2. discriminate.
  - rewrite IH. destruct (veqb k' k2) eqn:E3; auto. destruct (veqb k k2) eqn:E2; auto.
    rewrite veqb_sym in E2. rewrite (veqb_trans _ _ _ E3 E2) in E1. discriminate.
Qed.
(* a key finds an entry iff it equals a stored key; what it finds is the value stored last under an equal key *)
Definition build (kvs:list (value*value)) : list (value*value) := fold_left (fun a kv => dict_insert a (fst kv) (snd kv)) kvs [].
Fixpoint last_equal (kvs:list (value*value)) (k:value) (acc:option value) : option value :=
  match kvs with [] => acc | (k', v) :: r => last_equal r k (if veqb k' k then Some v else acc) end.
Lemma lookup_fold kvs : forall d k, dict_lookup (fold_left (fun a kv => dict_insert a (fst kv) (snd kv)) kvs d) k = last_equal kvs k (dict_lookup d k).
Proof. induction kvs as [|[k' v] r IH]; intros d k; cbn [fold_left last_equal fst snd]; auto. rewrite IH, lookup_insert. reflexivity. Qed.
Theorem dict_lookup_iff kvs k : dict_lookup (build kvs) k = last_equal kvs k None.
Proof. unfold build. rewrite lookup_fold. reflexivity. Qed.
Theorem dict_miss_iff kvs k : dict_lookup (build kvs) k = None <-> Forall (fun kv => veqb (fst kv) k = false) kvs.
Proof.
  rewrite dict_lookup_iff.
  assert (G : forall acc, last_equal kvs k acc = None <-> acc = None /\ Forall (fun kv => veqb (fst kv) k = false) kvs).
  { induction kvs as [|[k' v] r IH]; intros acc; cbn [last_equal].
    - split; [intros ->; auto|intros [-> _]; auto].
    - rewrite IH. destruct (veqb k' k) eqn:E; split.
      + intros [H _]; discriminate H.
      + intros [_ H]. inversion H; subst. cbn [fst] in *. congruence.
      + intros [-> H]. split; auto.
      + intros [-> H]. inversion H; subst. split; auto. }
  rewrite G. split; [intros [_ H]; exact H|intros H; split; auto].
Qed.
(* merging dictionaries = inserting all their entries left to right *)
Lemma last_equal_app d rest k o : last_equal (d ++ rest) k o = last_equal rest k (last_equal d k o).
Proof. revert o; induction d as [|[k' v] d IH]; intros o; cbn [app last_equal]; auto. Qed.
Theorem merge_spec ds k :
  dict_lookup (fold_left (fun acc d => fold_left (fun a kv => dict_insert a (fst kv) (snd kv)) d acc) ds []) k = last_equal (concat ds) k None.
Proof.
  assert (G : forall acc, dict_lookup (fold_left (fun acc d => fold_left (fun a kv => dict_insert a (fst kv) (snd kv)) d acc) ds acc) k = last_equal (concat ds) k (dict_lookup acc k)).
  { induction ds as [|d r IH]; intros acc; cbn [fold_left concat]; auto. rewrite IH, lookup_fold, last_equal_app. reflexivity. }
  apply G.
Qed.
Print Assumptions lookup_insert. Print Assumptions dict_lookup_iff. Print Assumptions dict_miss_iff. Print Assumptions merge_spec.
