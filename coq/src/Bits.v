(* DRAFT: C17 - the bitwise built-ins are the operations of infinite two's complement, bit by bit;
   C16 - link from the codec built-in (on already evaluated arguments) to enc / dec of Codec.v. *)
From Coq Require Import ZArith NArith List Bool Lia.
Import ListNotations.
Require Import Base Strings Builtins Interp Machine Spec RunG Codec.
Open Scope Z_scope.

(* bit i of a two's complement integer: Z.testbit (sign-extended to the left for negatives) *)
Definition bw (k:Z) (x y:Z) : Z := if k =? 0 then Z.land x y else if k =? 2 then Z.lor x y else if k =? 5 then Z.lxor x y else if y <? 0 then Z.shiftr x (- y) else Z.shiftl x y.
Theorem and_bits x y i : Z.testbit (bw 0 x y) i = Z.testbit x i && Z.testbit y i. Proof. apply Z.land_spec. Qed.
Theorem or_bits x y i : Z.testbit (bw 2 x y) i = Z.testbit x i || Z.testbit y i. Proof. apply Z.lor_spec. Qed.
Theorem xor_bits x y i : Z.testbit (bw 5 x y) i = xorb (Z.testbit x i) (Z.testbit y i). Proof. apply Z.lxor_spec. Qed.
Theorem not_bits x i : 0 <= i -> Z.testbit (Z.lnot x) i = negb (Z.testbit x i). Proof. apply Z.lnot_spec. Qed.
Theorem not_is_minus x : Z.lnot x = - x - 1. Proof. unfold Z.lnot. lia. Qed.
Lemma bw7_neg x n : n < 0 -> bw 7 x n = Z.shiftr x (- n).
Proof. intros N. unfold bw. change (7 =? 0) with false. change (7 =? 2) with false. change (7 =? 5) with false. cbv iota. replace (n <? 0) with true by (symmetry; apply Z.ltb_lt; lia). reflexivity. Qed.
Lemma bw7_pos x n : 0 <= n -> bw 7 x n = Z.shiftl x n.
Proof. intros N. unfold bw. change (7 =? 0) with false. change (7 =? 2) with false. change (7 =? 5) with false. cbv iota. replace (n <? 0) with false by (symmetry; apply Z.ltb_ge; lia). reflexivity. Qed.
Theorem shift_left_bits x n i : 0 <= n -> 0 <= i -> Z.testbit (bw 7 x n) i = Z.testbit x (i - n).
Proof. intros N I. rewrite bw7_pos by lia. apply Z.shiftl_spec; lia. Qed.
Theorem shift_right_bits x n i : n < 0 -> 0 <= i -> Z.testbit (bw 7 x n) i = Z.testbit x (i - n).
Proof. intros N I. rewrite bw7_neg by lia. rewrite Z.shiftr_spec by lia. f_equal; lia. Qed.
Theorem shift_left_value x n : 0 <= n -> bw 7 x n = x * 2 ^ n.
Proof. intros N. rewrite bw7_pos by lia. apply Z.shiftl_mul_pow2; lia. Qed.
Theorem shift_right_value x n : n < 0 -> bw 7 x n = x / 2 ^ (- n).       (* floor division: rounds toward minus infinity *)
Proof. intros N. rewrite bw7_neg by lia. apply Z.shiftr_div_pow2; lia. Qed.
(* the module function computes exactly bw / lnot on evaluated integer arguments, touching nothing *)
Section Link.
Variable rec : list positive -> heap -> world -> task -> out.
Theorem bitwise_module_is_bw k x y sp ip h w : In k [0; 2; 5; 7] ->
  runG rec value ip h w (module_body [5; m_bitwise; k] sp [VInt x; VInt y]) = DoneG h w (inl (VInt (bw k x y))) 0.
Proof. intros [<-|[<-|[<-|[<-|[]]]]]; reflexivity. Qed.
Theorem bitwise_module_not x sp ip h w : runG rec value ip h w (module_body [5; m_bitwise; 4] sp [VInt x]) = DoneG h w (inl (VInt (Z.lnot x))) 0.
Proof. reflexivity. Qed.

(* codec built-in on an evaluated integer / byte string argument *)
Theorem codec_body_encodes scheme w big sp n ip h wd : In scheme [1; 2] ->
  runG rec value ip h wd (codec_body scheme (Z.of_nat w) big sp [VInt n]) =
  match enc (scheme =? 2) (match big with Some true => true | _ => false end) w n with
  | Some bs => DoneG h wd (inl (VBytes bs)) 0 | None => DoneG h wd (inr (mkerr c_value sp)) 0 end.
Proof.
  intros S. unfold codec_body, enc, P. cbn [map_strict force bind runG].
  assert (E : (scheme =? 1) || (scheme =? 2) = true) by (destruct S as [<-|[<-|[]]]; reflexivity). rewrite E.
  cbn [check_type forallb orp is_int orb andb bind]. replace (Z.of_nat w <? 0) with false by (symmetry; apply Z.ltb_ge; lia).
  rewrite Nat2Z.id.
  destruct (scheme =? 2); [destruct ((_ <=? 2 * n) && (2 * n <? _))|destruct ((_ <=? n) && (n <? _))]; reflexivity.
Qed.
Theorem codec_body_decodes scheme w big sp bs ip h wd : In scheme [1; 2] ->
  runG rec value ip h wd (codec_body scheme w big sp [VBytes bs]) =
  DoneG h wd (inl (VInt (dec (scheme =? 2) (match big with Some true => true | _ => false end) bs))) 0.
Proof.
  intros S. unfold codec_body, dec, P. cbn [map_strict force bind runG].
  assert (E : (scheme =? 1) || (scheme =? 2) = true) by (destruct S as [<-|[<-|[]]]; reflexivity). rewrite E.
  cbn [check_type forallb orp is_int is_bytes orb andb bind runG].
  reflexivity.
Qed.
End Link.
Print Assumptions shift_right_value. Print Assumptions bitwise_module_is_bw. Print Assumptions codec_body_encodes. Print Assumptions codec_body_decodes.
