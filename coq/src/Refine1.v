(* DRAFT proofs: machine (without stack limit) implements the big-step specification - part 1: set-up *)
From Coq Require Import ZArith NArith List Bool FMapPositive Lia.
Import ListNotations.
Require Import Base Strings Builtins Interp Machine Spec HeapFacts.

Lemma add_ident {A} (m:PositiveMap.t A) i v : PositiveMap.find i m = Some v -> PositiveMap.add i v m = m.
Proof.
  revert m. induction i; intros m H; destruct m as [|l o r]; simpl in *; try discriminate.
  - f_equal. apply IHi; auto.
  - f_equal. apply IHi; auto.
  - congruence.
Qed.
Lemma set_cache_idem h t cl r : get h t = Some cl -> c_cache cl = Some r -> set_cache h t r = h.
Proof.
  intros G C. unfold set_cache. rewrite G. destruct h as [cs nt fs nf no]; simpl. f_equal.
  apply add_ident. unfold get in G; simpl in G. rewrite G. destruct cl; simpl in *; subst; reflexivity.
Qed.

Definition isthunk (v:value) := match v with VThunk _ => true | _ => false end.
Definition rstrict (r:res) := match r with inl v => isthunk v = false | _ => True end.
Definition strict_caches (h:heap) := forall t cl v, get h t = Some cl -> c_cache cl = Some (inl v) -> isthunk v = false.
Definition rlook (q:PositiveMap.t positive) (t:positive) := PositiveMap.find t q.
Definition Iq (q:PositiveMap.t positive) (h:heap) (ip:list positive) := forall u w, rlook q u = Some w -> cached h u \/ In u ip.
Inductive chain (q:PositiveMap.t positive) : positive -> list positive -> Prop :=
| ch_nil u : rlook q u = None -> chain q u []
| ch_cons u w l : rlook q u = Some w -> chain q w l -> chain q u (w::l).
Fixpoint set_caches (h:heap) (l:list positive) (r:res) := match l with [] => h | t::l' => set_caches (set_cache h t r) l' r end.
Definition retc (r:res) : Comp value := match r with inl v => Ret v | inr e => Raise e end.
Definition ipun (h:heap) (ip:list positive) := forall x, In x ip -> uncached h x.

Definition mk h q stk w d := {| m_heap := h; m_req := q; m_stack := stk; m_world := w; m_dbg := d |}.
Definition stepn := step_with None.
Fixpoint steps (n:nat) (s:mstate) : mstate + outcome :=
  match n with O => inl s | S k => match stepn s with inl s' => steps k s' | inr o => inr o end end.
Definition slen (s:mstate) : nat := length (m_stack s).
(* reachability through states whose evaluator stack never exceeds b frames *)
Inductive R (b:nat) : mstate -> mstate -> Prop :=
| R_refl s : (slen s <= b)%nat -> R b s s
| R_step s s1 s' : (slen s <= b)%nat -> stepn s = inl s1 -> R b s1 s' -> R b s s'.
Definition reach (b:nat) h q stk w h' q' stk' w' := forall d, exists d', R b (mk h q stk w d) (mk h' q' stk' w' d').

Lemma R_trans b s1 s2 s3 : R b s1 s2 -> R b s2 s3 -> R b s1 s3.
Proof. induction 1; intros H3; auto. eapply R_step; eauto. Qed.
Lemma R_weaken b b' s s' : (b <= b')%nat -> R b s s' -> R b' s s'.
Proof. intros L. induction 1. apply R_refl; lia. eapply R_step; eauto. lia. Qed.
Lemma reach_refl b h q stk w : (length stk <= b)%nat -> reach b h q stk w h q stk w.
Proof. intros L d. exists d. apply R_refl. exact L. Qed.
Lemma reach_trans b h q s w h1 q1 s1 w1 h2 q2 s2 w2 : reach b h q s w h1 q1 s1 w1 -> reach b h1 q1 s1 w1 h2 q2 s2 w2 -> reach b h q s w h2 q2 s2 w2.
Proof. intros R1 R2 d. destruct (R1 d) as (d1 & E1). destruct (R2 d1) as (d2 & E2). exists d2. eapply R_trans; eauto. Qed.
Lemma reach_weaken b b' h q s w h1 q1 s1 w1 : (b <= b')%nat -> reach b h q s w h1 q1 s1 w1 -> reach b' h q s w h1 q1 s1 w1.
Proof. intros L R1 d. destruct (R1 d) as (d1 & E1). exists d1. eapply R_weaken; eauto. Qed.
Lemma reach_step b h q s w h1 q1 s1 w1 h2 q2 s2 w2 : (length s <= b)%nat ->
  (forall d, exists d1, stepn (mk h q s w d) = inl (mk h1 q1 s1 w1 d1)) -> reach b h1 q1 s1 w1 h2 q2 s2 w2 -> reach b h q s w h2 q2 s2 w2.
Proof.
  intros L S1 R2 d. destruct (S1 d) as (d1 & E1). destruct (R2 d1) as (d2 & E2). exists d2. eapply R_step; eauto.
Qed.
(* the machine with the explicit limit behaves identically as long as the stack stays below it *)
Lemma R_limit b m s s' : (b <= m)%nat -> R b s s' -> exists n, (fix go n s := match n with O => inl s | S k => match step_with (Some m) s with inl s1 => go k s1 | inr o => inr o end end) n s = inl s'.
Proof.
  intros L. induction 1 as [s Hs|s s1 s' Hs St _ IH]. exists O; reflexivity.
  destruct IH as [n En]. exists (S n).
  assert (step_with (Some m) s = stepn s).
  { unfold stepn, step_with. destruct (m_stack s) as [|top rest] eqn:Es; auto. unfold slen in Hs. rewrite Es in Hs. cbn [length] in Hs.
    assert ((negb (length rest =? 0)%nat && (m <=? length rest)%nat) = false).
    { destruct (m <=? length rest)%nat eqn:E; [apply Nat.leb_le in E; lia|]. apply andb_false_r. }
    rewrite H. reflexivity. }
  rewrite H, St. exact En.
Qed.

(* a frame step that stays inside the frame *)
Lemma step_cont h q f rest w f' h' w' :
  frame_step h w f = FCont f' h' w' -> forall d, exists d1, stepn (mk h q (f :: rest) w d) = inl (mk h' q (f' :: rest) w' d1).
Proof. intros E d. exists d. unfold stepn, step_with, mk; simpl. rewrite E. reflexivity. Qed.

Lemma existsb_false_notin t ip : existsb (Pos.eqb t) ip = false -> ~ In t ip.
Proof. intros H K. assert (existsb (Pos.eqb t) ip = true). { apply existsb_exists. exists t. split; auto. apply Pos.eqb_refl. } congruence. Qed.

Lemma strict_alloc h a e : wfh h -> strict_caches h -> strict_caches (fst (alloc h a e)).
Proof.
  intros W Hs t cl v G C. destruct (Pos.eq_dec t (next_t h)) as [->|N].
  - rewrite get_alloc_new in G. inversion G; subst; simpl in C; discriminate.
  - rewrite get_alloc_old in G by auto. eapply Hs; eauto.
Qed.
Lemma strict_set h t r : strict_caches h -> rstrict r -> strict_caches (set_cache h t r).
Proof.
  intros Hs Hr u cl v G C. destruct (Pos.eq_dec t u) as [<-|N].
  - destruct (get h t) as [c0|] eqn:G0.
    + rewrite (get_set_same _ _ _ _ G0) in G. inversion G; subst; simpl in C. inversion C; subst. exact Hr.
    + rewrite set_cache_none in G by auto. congruence.
  - rewrite get_set_other in G by auto. eapply Hs; eauto.
Qed.
Lemma Iq_mono q h h' ip : Iq q h ip -> hle h h' -> Iq q h' ip.
Proof. intros HI Hle u w L. destruct (HI _ _ L); auto. left. eapply hle_cached; eauto. Qed.
Lemma uncached_alloc h a e x : wfh h -> uncached h x -> uncached (fst (alloc h a e)) x.
Proof. intros W [cl [G C]]. exists cl. rewrite get_alloc_old; auto. pose proof (get_valid _ _ _ W G). lia. Qed.
Lemma ipun_alloc h a e ip : wfh h -> ipun h ip -> ipun (fst (alloc h a e)) ip.
Proof. intros W HI x Hx. apply uncached_alloc; auto. Qed.
Lemma resolve_chain q u l : chain q u l -> forall fuel h r, (length l < fuel)%nat -> resolve fuel h q u r = set_caches h (u::l) r.
Proof.
  induction 1; intros fuel h r L; destruct fuel; simpl in *; try lia.
  - unfold rlook in H. rewrite H. reflexivity.
  - unfold rlook in H. rewrite H. rewrite IHchain by lia. reflexivity.
Qed.
Lemma chain_same q q' u l : chain q u l -> (forall x, In x (u::l) -> rlook q' x = rlook q x) -> chain q' u l.
Proof.
  induction 1; intros Hq.
  - apply ch_nil. rewrite Hq by (left; auto). auto.
  - eapply ch_cons. rewrite Hq by (left; auto). eauto. apply IHchain. intros x Hx. apply Hq. right; auto.
Qed.
Lemma nodup_bound (l:list nat) n : NoDup l -> (forall x, In x l -> (x < n)%nat) -> (length l <= n)%nat.
Proof.
  intros ND B. assert (incl l (seq 0 n)). { intros x Hx. apply in_seq. specialize (B _ Hx). lia. }
  pose proof (NoDup_incl_length ND H). rewrite seq_length in H0. exact H0.
Qed.
Lemma nodup_map_inj {A B} (f:A->B) l : (forall a b, f a = f b -> a = b) -> NoDup l -> NoDup (map f l).
Proof.
  intros Inj ND. induction ND; simpl; constructor; auto.
  intros K. apply in_map_iff in K. destruct K as [y [E Hy]]. apply Inj in E. subst. contradiction.
Qed.
Lemma fuel_ok_gen h u l : wfh h -> NoDup (u::l) -> (forall x, In x (u::l) -> get h x <> None) -> (length l < Pos.to_nat (next_t h))%nat.
Proof.
  intros W ND V.
  assert (ND' : NoDup (map Pos.to_nat (u::l))). { apply nodup_map_inj; auto. intros a b. apply Pos2Nat.inj. }
  assert (B : forall x, In x (map Pos.to_nat (u::l)) -> (x < Pos.to_nat (next_t h))%nat).
  { intros x Hx. apply in_map_iff in Hx. destruct Hx as [y [<- Hy]]. specialize (V _ Hy). destruct (get h y) as [cl|] eqn:G; [|congruence].
    pose proof (get_valid _ _ _ W G). lia. }
  pose proof (nodup_bound _ _ ND' B). rewrite map_length in H. simpl in H. lia.
Qed.
Lemma fuel_ok h u l : wfh h -> NoDup (u::l) -> (forall x, In x (u::l) -> uncached h x) -> (length l < S (Pos.to_nat (next_t h)))%nat.
Proof.
  intros W ND V. assert (length l < Pos.to_nat (next_t h))%nat; [|lia].
  eapply fuel_ok_gen; eauto. intros x Hx. destruct (V _ Hx) as [cl [G _]]. congruence.
Qed.
Lemma Iq_drop q h u ip r : Iq q h (u::ip) -> uncached h u -> Iq q (set_cache h u r) ip.
Proof.
  intros HI Hu a b L. destruct (HI _ _ L) as [Hc|[<-|Hin]]; auto.
  - left. eapply hle_cached; [apply hle_set_cache; auto|auto].
  - left. apply cached_set; auto.
Qed.
Lemma ipun_set h u ip r : ipun h (u::ip) -> ~ In u ip -> ipun (set_cache h u r) ip.
Proof.
  intros HI Hn x Hx. destruct (HI x (or_intror Hx)) as [cl [G C]]. exists cl.
  rewrite get_set_other; auto. intros ->. contradiction.
Qed.
