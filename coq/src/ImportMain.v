(* C15 inside the main model.  ㅂ on a file: search (ImpSearch.search over the tree the disk denotes) or a path string, then
   Builtins.load_from_path: the module registered for that FILE, or else read - parse - delay in the EMPTY environment - register.
   The statements are over the specification's interpreter at any result type (RunG.runG), for any heap, world and evaluator `rec`. *)
From Coq Require Import ZArith NArith List Bool FMapPositive Lia.
Import ListNotations.
Require Import Base Strings Builtins Interp Machine Spec Refine2 RunG.
Require Import ImpSearch ModFS.
Require Lex.

Definition register (w:world) (id:N) (t:positive) : world :=
  {| w_in := w_in w; w_out := w_out w; w_disk := w_disk w; w_handles := w_handles w; w_nexth := w_nexth w; w_mods := (id, t) :: w_mods w |}.
Definition module_cell (a:ast) : cell := {| c_ast := a; c_env := empty_env; c_cache := None; c_peeked := false |}.

Section Load.
Variable rec : list positive -> heap -> world -> task -> out.

(* first import of a file holding exactly one expression: ONE new delayed expression - the file's expression in the EMPTY environment, not yet
   evaluated - is entered in the registry under the file and handed back; nothing else changes (no input, output, file or handle) *)
Theorem load_fresh sp path ip h w id bytes text a :
  index_of (w_disk w) (strip_dot path) 0 = Some (id, bytes) -> mod_get (w_mods w) id = None ->
  text_of bytes = Some text -> Lex.parse_text text = inl [a] ->
  runG rec value ip h w (load_from_path sp path) = DoneG (fst (alloc h a empty_env)) (register w id (next_t h)) (inl (VThunk (next_t h))) 0.
Proof.
  intros I M T P. unfold load_from_path. cbn [runG wstep]. rewrite I, M, T. cbn [runG]. rewrite P. cbn [runG alloc wstep]. rewrite I. reflexivity.
Qed.
(* what was allocated: the file's own expression with no function and no argument in scope - whatever expression did the importing *)
Theorem module_is_the_files_expression h a : get (fst (alloc h a empty_env)) (next_t h) = Some (module_cell a).
Proof. unfold get, alloc. cbn [fst cells]. apply PositiveMap.gss. Qed.
(* any later import of the same FILE, by any spelling of its path: the registered object, no reading, no parsing, no allocation, world untouched *)
Theorem load_registered sp path ip h w id bytes t :
  index_of (w_disk w) (strip_dot path) 0 = Some (id, bytes) -> mod_get (w_mods w) id = Some t ->
  runG rec value ip h w (load_from_path sp path) = DoneG h w (inl (VThunk t)) 0.
Proof. intros I M. unfold load_from_path. cbn [runG wstep]. rewrite I, M. reflexivity. Qed.
(* import once: after the first import, every import of a path naming the same file yields that very object - whatever the heap has become *)
Theorem module_loaded_once sp1 sp2 p1 p2 ip1 ip2 h h2 w id bytes text a :
  index_of (w_disk w) (strip_dot p1) 0 = Some (id, bytes) -> mod_get (w_mods w) id = None -> text_of bytes = Some text -> Lex.parse_text text = inl [a] ->
  strip_dot p2 = strip_dot p1 ->
  exists w1 t, runG rec value ip1 h w (load_from_path sp1 p1) = DoneG (fst (alloc h a empty_env)) w1 (inl (VThunk t)) 0 /\
               runG rec value ip2 h2 w1 (load_from_path sp2 p2) = DoneG h2 w1 (inl (VThunk t)) 0.
Proof.
  intros I M T P E. exists (register w id (next_t h)), (next_t h). split. eapply load_fresh; eauto.
  eapply load_registered with (id := id) (bytes := bytes). cbn [register w_disk]. rewrite E. exact I. cbn [register w_mods mod_get]. rewrite N.eqb_refl. reflexivity.
Qed.

(* bad modules: no expression / several / a syntax error / not UTF-8 / no such file - a language-level error, and NOTHING changes (registry included) *)
Theorem load_empty_module sp path ip h w id bytes text :
  index_of (w_disk w) (strip_dot path) 0 = Some (id, bytes) -> mod_get (w_mods w) id = None -> text_of bytes = Some text -> Lex.parse_text text = inl [] ->
  runG rec value ip h w (load_from_path sp path) = DoneG h w (inr (mkerr c_value sp)) 0.
Proof. intros I M T P. unfold load_from_path. cbn [runG wstep]. rewrite I, M, T. cbn [runG]. rewrite P. reflexivity. Qed.
Theorem load_several_expressions sp path ip h w id bytes text a b r :
  index_of (w_disk w) (strip_dot path) 0 = Some (id, bytes) -> mod_get (w_mods w) id = None -> text_of bytes = Some text -> Lex.parse_text text = inl (a :: b :: r) ->
  runG rec value ip h w (load_from_path sp path) = DoneG h w (inr (mkerr c_value (ast_span a))) 0.
Proof. intros I M T P. unfold load_from_path. cbn [runG wstep]. rewrite I, M, T. cbn [runG]. rewrite P. reflexivity. Qed.
Theorem load_syntax_error sp path ip h w id bytes text pe psp :
  index_of (w_disk w) (strip_dot path) 0 = Some (id, bytes) -> mod_get (w_mods w) id = None -> text_of bytes = Some text -> Lex.parse_text text = inr (pe, psp) ->
  runG rec value ip h w (load_from_path sp path) = DoneG h w (inr (mkerr c_syntax psp)) 0.
Proof. intros I M T P. unfold load_from_path. cbn [runG wstep]. rewrite I, M, T. cbn [runG]. rewrite P. reflexivity. Qed.
Theorem load_not_utf8 sp path ip h w id bytes :
  index_of (w_disk w) (strip_dot path) 0 = Some (id, bytes) -> mod_get (w_mods w) id = None -> text_of bytes = None ->
  runG rec value ip h w (load_from_path sp path) = DoneG h w (inr (mkerr c_import sp)) 0.
Proof. intros I M T. unfold load_from_path. cbn [runG wstep]. rewrite I, M, T. reflexivity. Qed.
Theorem load_no_such_file sp path ip h w :
  index_of (w_disk w) (strip_dot path) 0 = None ->
  runG rec value ip h w (load_from_path sp path) = DoneG h w (inr (os_error sp (open_errno (w_disk w) (strip_dot path)))) 0.
Proof. intros I. unfold load_from_path. cbn [runG wstep]. rewrite I. reflexivity. Qed.
End Load.

(* ---------- the literal route: the search is ImpSearch.search on the tree the disk denotes ---------- *)
Theorem find_is_search w sp lits :
  wstep w (WFind sp lits) =
  (w, match search lits (tree_of_disk (w_disk w)) with
      | Found _ id => match nth_error (w_disk w) (N.to_nat id) with Some (nm, _) => inl (VStr (46 :: 47 :: nm)%N) | None => inr (mkerr c_notfound sp) end
      | NotFound => inr (mkerr c_notfound sp)
      | Ambiguous => inr (mkerr c_import sp) end).
Proof. cbn [wstep]. destruct (search lits (tree_of_disk (w_disk w))); reflexivity. Qed.
(* the path the search hands on ("./" + the name on disk) names the same file as the plain name: both routes reach one registry entry *)
Lemma strip_dot_found nm : strip_dot (46 :: 47 :: nm)%N = strip_dot nm.
Proof. reflexivity. Qed.

(* ㅂ with literal words that do not start with the built-in marker 5: the words are read off the argument SYNTAX (nothing is evaluated), the
   tree is searched, and the file found is loaded by load_from_path under the name "./<name on disk>" - so both routes end in the same loader *)
Theorem import_by_literals rec sp argv ip h w h1 l0 lits p id nm bytes :
  runG rec (option (list Z)) ip h w (peek_lits argv) = DoneG h1 w (inl (Some (l0 :: lits))) 0 -> argv <> [] -> l0 <> 5%Z ->
  search (l0 :: lits) (tree_of_disk (w_disk w)) = Found p id -> nth_error (w_disk w) (N.to_nat id) = Some (nm, bytes) ->
  runG rec value ip h w (bi_import sp argv) = runG rec value ip h1 w (load_from_path sp (46 :: 47 :: nm)%N).
Proof.
  intros P NE N5 S Nth. unfold bi_import. rewrite runG_bind.
  assert (A : check_min_arity sp (length argv) 1 = Ret tt) by (destruct argv; [elim NE; reflexivity|reflexivity]). rewrite A. cbn [runG thenG]. rewrite upddG_0.
  rewrite runG_bind, P. cbn [thenG]. rewrite upddG_0.
  destruct l0 as [|q|q]; try (cbn [runG wstep]; rewrite S, Nth; reflexivity).
  destruct q as [q|q|]; try (cbn [runG wstep]; rewrite S, Nth; reflexivity). destruct q as [q|q|]; try (cbn [runG wstep]; rewrite S, Nth; reflexivity). destruct q as [q|q|]; try (cbn [runG wstep]; rewrite S, Nth; reflexivity). elim N5; reflexivity.
Qed.
(* ... not found / ambiguous: the language's not-found / import error at the call, nothing changes *)
Theorem import_by_literals_not_found rec sp argv ip h w h1 l0 lits :
  runG rec (option (list Z)) ip h w (peek_lits argv) = DoneG h1 w (inl (Some (l0 :: lits))) 0 -> argv <> [] -> l0 <> 5%Z ->
  search (l0 :: lits) (tree_of_disk (w_disk w)) = NotFound ->
  runG rec value ip h w (bi_import sp argv) = DoneG h1 w (inr (mkerr c_notfound sp)) 0.
Proof.
  intros P NE N5 S. unfold bi_import. rewrite runG_bind.
  assert (A : check_min_arity sp (length argv) 1 = Ret tt) by (destruct argv; [elim NE; reflexivity|reflexivity]). rewrite A. cbn [runG thenG]. rewrite upddG_0.
  rewrite runG_bind, P. cbn [thenG]. rewrite upddG_0.
  destruct l0 as [|q|q]; try (cbn [runG wstep]; rewrite S; reflexivity).
  destruct q as [q|q|]; try (cbn [runG wstep]; rewrite S; reflexivity). destruct q as [q|q|]; try (cbn [runG wstep]; rewrite S; reflexivity). destruct q as [q|q|]; try (cbn [runG wstep]; rewrite S; reflexivity). elim N5; reflexivity.
Qed.
Theorem import_by_literals_ambiguous rec sp argv ip h w h1 l0 lits :
  runG rec (option (list Z)) ip h w (peek_lits argv) = DoneG h1 w (inl (Some (l0 :: lits))) 0 -> argv <> [] -> l0 <> 5%Z ->
  search (l0 :: lits) (tree_of_disk (w_disk w)) = Ambiguous ->
  runG rec value ip h w (bi_import sp argv) = DoneG h1 w (inr (mkerr c_import sp)) 0.
Proof.
  intros P NE N5 S. unfold bi_import. rewrite runG_bind.
  assert (A : check_min_arity sp (length argv) 1 = Ret tt) by (destruct argv; [elim NE; reflexivity|reflexivity]). rewrite A. cbn [runG thenG]. rewrite upddG_0.
  rewrite runG_bind, P. cbn [thenG]. rewrite upddG_0.
  destruct l0 as [|q|q]; try (cbn [runG wstep]; rewrite S; reflexivity).
  destruct q as [q|q|]; try (cbn [runG wstep]; rewrite S; reflexivity). destruct q as [q|q|]; try (cbn [runG wstep]; rewrite S; reflexivity). destruct q as [q|q|]; try (cbn [runG wstep]; rewrite S; reflexivity). elim N5; reflexivity.
Qed.

(* ---------- a concrete session: the hypotheses are met ---------- *)
Definition disk1 : list (list N * list N) := [([12596; 47; 12599; 46; 116]%N, [227; 132; 177; 32; 227; 132; 180]%N)].   (* "ㄴ/ㄷ.t" holding "ㄱ ㄴ": two expressions *)
Definition disk2 : list (list N * list N) := [([12596; 47; 12599; 46; 116]%N, [227; 132; 183]%N)].                     (* ... holding "ㄷ": the literal 2 *)
Example search_finds_it : exists p, search [1; 2]%Z (tree_of_disk disk2) = Found p 0%N /\ search [1; 3]%Z (tree_of_disk disk2) = NotFound.
Proof. eexists. vm_compute. split; reflexivity. Qed.
Example session_loads_once : exists w1 t, runG (fun _ _ _ _ => OOF) value [] heap0 (world_start [] disk2) (load_from_path (0,0,0)%N [46; 47; 12596; 47; 12599; 46; 116]%N)
    = DoneG (fst (alloc heap0 (Lit 2 (0, 0, 1)%N) empty_env)) w1 (inl (VThunk t)) 0
  /\ runG (fun _ _ _ _ => OOF) value [] heap0 w1 (load_from_path (0,0,0)%N [12596; 47; 12599; 46; 116]%N) = DoneG heap0 w1 (inl (VThunk t)) 0.
Proof. eapply module_loaded_once with (id := 0%N); vm_compute; reflexivity. Qed.
Example session_two_expressions : exists sp, runG (fun _ _ _ _ => OOF) value [] heap0 (world_start [] disk1) (load_from_path (9,9,9)%N [12596; 47; 12599; 46; 116]%N)
    = DoneG heap0 (world_start [] disk1) (inr (mkerr c_value sp)) 0.
Proof. eexists. vm_compute. reflexivity. Qed.
Print Assumptions load_fresh. Print Assumptions module_is_the_files_expression. Print Assumptions load_registered. Print Assumptions module_loaded_once.
Print Assumptions load_empty_module. Print Assumptions load_several_expressions. Print Assumptions load_syntax_error. Print Assumptions load_not_utf8. Print Assumptions load_no_such_file. Print Assumptions find_is_search. Print Assumptions import_by_literals. Print Assumptions import_by_literals_not_found. Print Assumptions import_by_literals_ambiguous.
