(* C17: the five rounding functions of the math module (ㅂ ㅅ ㅂㄹ k) on an evaluated real ARE Float.rounding k - whose results rounding_floor /
   _ceil / _trunc / _away / _nearest characterise exactly -, integers pass through unchanged, infinities and NaN are the arithmetic error *)
From Coq Require Import ZArith NArith List Bool SpecFloat Lia.
Import ListNotations.
Require Import Base Float Strings Builtins Interp Machine Spec Refine2 RunG.
Open Scope Z_scope.
Section R.
Variable rec : list positive -> heap -> world -> task -> out.
Theorem rounding_module_on_real k f n sp ip h w : rounding k f = Some n ->
  runG rec value ip h w (module_body [5; 6; -29; k] sp [VFloat f]) = DoneG h w (inl (VInt n)) 0.
Proof. intros R. unfold module_body. cbn. rewrite R. reflexivity. Qed.
Theorem rounding_module_on_integer k n sp ip h w : runG rec value ip h w (module_body [5; 6; -29; k] sp [VInt n]) = DoneG h w (inl (VInt n)) 0.
Proof. reflexivity. Qed.
Theorem rounding_module_not_finite k f sp ip h w : rounding k f = None ->
  runG rec value ip h w (module_body [5; 6; -29; k] sp [VFloat f]) = DoneG h w (inr (mkerr c_arith sp)) 0.
Proof. intros R. unfold module_body. cbn. rewrite R. reflexivity. Qed.
End R.
Print Assumptions rounding_module_on_real. Print Assumptions rounding_module_on_integer. Print Assumptions rounding_module_not_finite.
