(* Theorems ABOUT the integer kernels regenerated from pbhhg_py/builtins/arithmetics.py (Gen/GenArith.v),
   and the link between them and the hand-written model.  An edit of _integer_division / _remainder re-checks these. *)
From Coq Require Import ZArith NArith List Bool Lia.
Import ListNotations.
Require Import Base Builtins.
Require GenArith.
Open Scope Z_scope.

Theorem int_div_is_quot a d : d <> 0 -> GenArith.gen_int_div a d = Z.quot a d.
Proof.
  intros Hd. unfold GenArith.gen_int_div. cbv zeta.
  destruct (a / d <? 0) eqn:E; [apply Z.ltb_lt in E|apply Z.ltb_ge in E];
    Z.to_euclidean_division_equations; nia.
Qed.
Theorem int_rem_is_rem a d : d <> 0 -> GenArith.gen_int_rem a d = Z.rem a d.
Proof.
  intros Hd. rewrite (Z.rem_eq a d Hd). rewrite <- (int_div_is_quot a d Hd).
  unfold GenArith.gen_int_rem, GenArith.gen_int_div. cbv zeta.
  rewrite (Z.mod_eq a d Hd), (Z.mod_eq (- a) d Hd). rewrite Z.geb_leb.
  destruct (a / d <? 0) eqn:E1; destruct (0 <=? a / d) eqn:E2;
    try (apply Z.ltb_lt in E1); try (apply Z.ltb_ge in E1); try (apply Z.leb_le in E2); try (apply Z.leb_gt in E2); lia.
Qed.
Corollary division_law a d : d <> 0 ->
  a = GenArith.gen_int_div a d * d + GenArith.gen_int_rem a d /\ Z.abs (GenArith.gen_int_rem a d) < Z.abs d
  /\ (0 <= a -> 0 <= GenArith.gen_int_rem a d) /\ (a <= 0 -> GenArith.gen_int_rem a d <= 0).
Proof.
  intros Hd. rewrite int_div_is_quot, int_rem_is_rem by auto.
  pose proof (Z.quot_rem' a d). pose proof (Z.rem_bound_abs a d Hd). pose proof (Z.rem_nonneg a d Hd). pose proof (Z.rem_nonpos a d Hd).
  repeat split; try lia; auto.
Qed.
(* the hand-written model uses exactly the regenerated kernels *)
Lemma model_int_div a d : int_div a d = GenArith.gen_int_div a d. Proof. reflexivity. Qed.
Lemma model_int_rem a d : int_rem a d = GenArith.gen_int_rem a d.
Proof. unfold int_rem, GenArith.gen_int_rem. rewrite Z.geb_leb. reflexivity. Qed.
(* the except clauses wrapped around the kernels: division by zero becomes the language's division error (and nothing else is mapped to it),
   a failing modular inverse (ValueError of pow) the arithmetic error; every handler raises a language-level exception class *)
Definition ZDE : list N := [90;101;114;111;68;105;118;105;115;105;111;110;69;114;114;111;114]%N.                (* "ZeroDivisionError" *)
Definition DIVERR : list N := [101;114;114;111;114;46;85;110;115;117;115;112;101;99;116;101;100;72;97;110;103;101;117;108;68;105;118;105;115;105;111;110;69;114;114;111;114]%N.   (* "error.UnsuspectedHangeulDivisionError" *)
Definition handled_as (hs:list (list N * list N)) (exc cls:list N) : bool :=
  existsb (fun h => if list_eq_dec N.eq_dec (fst h) exc then (if list_eq_dec N.eq_dec (snd h) cls then true else false) else false) hs.
Definition language_level (cls:list N) : bool :=      (* starts with "error.UnsuspectedHangeul" *)
  if list_eq_dec N.eq_dec (firstn 24 cls) [101;114;114;111;114;46;85;110;115;117;115;112;101;99;116;101;100;72;97;110;103;101;117;108]%N then true else false.
Lemma kernel_handlers :
  handled_as GenArith.gen_int_div_handlers ZDE DIVERR = true /\ handled_as GenArith.gen_int_rem_handlers ZDE DIVERR = true /\
  map fst GenArith.gen_pow3_handlers = [[86;97;108;117;101;69;114;114;111;114]%N] /\
  forallb (fun h => language_level (snd h)) (GenArith.gen_int_div_handlers ++ GenArith.gen_int_rem_handlers ++ GenArith.gen_pow3_handlers) = true.
Proof. repeat split; vm_compute; reflexivity. Qed.
