(* Theorems ABOUT the integer kernels regenerated from pbhhg_py/builtins/arithmetics.py (Gen/GenArith.v),
   and the link between them and the hand-written model.  An edit of _integer_division / _remainder re-checks these. *)
From Coq Require Import ZArith NArith List Bool Lia.
Import ListNotations.
Require Import Base Builtins.
Require GenArith.
Open Scope Z_scope.

Theorem int_div_is_quot a d : d <> 0 -> GenArith.gen_int_div a d = Z.quot a d.
Proof.
  intros Hd. unfold GenArith.gen_int_div. cbv zeta.
  destruct (a / d <? 0) eqn:E; [apply Z.ltb_lt in E|apply Z.ltb_ge in E];
    Z.to_euclidean_division_equations; nia.
Qed.
Theorem int_rem_is_rem a d : d <> 0 -> GenArith.gen_int_rem a d = Z.rem a d.
Proof.
  intros Hd. rewrite (Z.rem_eq a d Hd). rewrite <- (int_div_is_quot a d Hd).
  unfold GenArith.gen_int_rem, GenArith.gen_int_div. cbv zeta.
  rewrite (Z.mod_eq a d Hd), (Z.mod_eq (- a) d Hd). rewrite Z.geb_leb.
  destruct (a / d <? 0) eqn:E1; destruct (0 <=? a / d) eqn:E2;
    try (apply Z.ltb_lt in E1); try (apply Z.ltb_ge in E1); try (apply Z.leb_le in E2); try (apply Z.leb_gt in E2); lia.
Qed.
Corollary division_law a d : d <> 0 ->
  a = GenArith.gen_int_div a d * d + GenArith.gen_int_rem a d /\ Z.abs (GenArith.gen_int_rem a d) < Z.abs d
  /\ (0 <= a -> 0 <= GenArith.gen_int_rem a d) /\ (a <= 0 -> GenArith.gen_int_rem a d <= 0).
Proof.
  intros Hd. rewrite int_div_is_quot, int_rem_is_rem by auto.
  pose proof (Z.quot_rem' a d). pose proof (Z.rem_bound_abs a d Hd). pose proof (Z.rem_nonneg a d Hd). pose proof (Z.rem_nonpos a d Hd).
  repeat split; try lia; auto.
Qed.
(* the hand-written model uses exactly the regenerated kernels *)
Lemma model_int_div a d : int_div a d = GenArith.gen_int_div a d. Proof. reflexivity. Qed.
Lemma model_int_rem a d : int_rem a d = GenArith.gen_int_rem a d.
Proof. unfold int_rem, GenArith.gen_int_rem. rewrite Z.geb_leb. reflexivity. Qed.
(* the except clauses wrapped around the kernels: division by zero becomes the language's division error,
   a failing modular inverse (ValueError of pow) the arithmetic error *)
Definition ascii (l:list N) := l.
Lemma kernel_handlers :
  map fst GenArith.gen_int_div_handlers = [[90;101;114;111;68;105;118;105;115;105;111;110;69;114;114;111;114]%N] /\
  map fst GenArith.gen_int_rem_handlers = [[90;101;114;111;68;105;118;105;115;105;111;110;69;114;114;111;114]%N] /\
  map fst GenArith.gen_pow3_handlers = [[86;97;108;117;101;69;114;114;111;114]%N] /\
  map snd GenArith.gen_int_div_handlers = map snd GenArith.gen_int_rem_handlers.
Proof. repeat split. Qed.
