(* C18: sequences and exceptions print their contents IN ORDER - the formatter on a list / exception whose elements print as (pr x), each
   without touching heap or world (hypothesis PRINTS: the evaluation oracle answers the formatting of an element x with the text pr x), gives
   "[" / the exception brackets around the elements' texts joined by ", ", in the order of the elements *)
From Coq Require Import ZArith NArith List Bool Lia.
Import ListNotations.
Require Import Base Float Strings Builtins Interp Machine Spec Refine2 RunG.

Section PrintSeq.
Variable rec : list positive -> heap -> world -> task -> out.
Variable flag : bool.
Variable pr : value -> list N.
Hypothesis PRINTS : forall ip h w x, rec ip h w (TComp (proc_body (PFormat x flag))) = Done h w (inl (VStr (pr x))) 0.

Lemma format_call A (k:value -> Comp A) ip h w x : runG rec A ip h w (Call (PFormat x flag) k) = runG rec A ip h w (k (VStr (pr x))).
Proof. cbn [runG]. rewrite PRINTS. cbn [of_out]. destruct (runG rec A ip h w (k (VStr (pr x)))); reflexivity. Qed.
Lemma formats_in_order : forall l ip h w, runG rec (list value) ip h w (map_call (fun i => PFormat i flag) l) = DoneG h w (inl (map (fun x => VStr (pr x)) l)) 0.
Proof.
  induction l as [|x l IH]; intros ip h w; cbn [map_call map]; [reflexivity|].
  unfold call. cbn [bind]. rewrite format_call. cbn [bind]. rewrite runG_bind, IH. reflexivity.
Qed.
Lemma strs_of_texts l : strs_of (map (fun x => VStr (pr x)) l) = map pr l.
Proof. unfold strs_of. rewrite map_map. reflexivity. Qed.
Theorem list_prints_in_order l ip h w :
  runG rec value ip h w (format_body (VList l) flag) = DoneG h w (inl (VStr ([91%N] ++ join s_sep (map pr l) ++ [93%N]))) 0.
Proof. unfold format_body. cbn [force bind runG]. rewrite runG_bind, formats_in_order. cbn [thenG upddG runG Nat.max]. rewrite strs_of_texts. reflexivity. Qed.
Theorem exception_prints_in_order sps l ip h w :
  runG rec value ip h w (format_body (VErr sps l) flag) = DoneG h w (inl (VStr (s_exc_open ++ join s_sep (map pr l) ++ s_exc_close))) 0.
Proof. unfold format_body. cbn [force bind runG]. rewrite runG_bind, formats_in_order. cbn [thenG upddG runG Nat.max]. rewrite strs_of_texts. reflexivity. Qed.
End PrintSeq.
(* the hypothesis is met by numbers, Booleans, strings, the empty value: their formatting is a function of the value alone *)
Example atom_prints rec flag ip h w : runG rec value ip h w (format_body (VInt 42) flag) = DoneG h w (inl (VStr [52; 50]%N)) 0
  /\ runG rec value ip h w (format_body (VBool true) flag) = DoneG h w (inl (VStr (str_of_bool true))) 0.
Proof. split; reflexivity. Qed.
Print Assumptions list_prints_in_order. Print Assumptions exception_prints_in_order.
