(* C02 - calling a value that is not a function: the selection / indexing rule of each kind, as equations of the shared interpreter
   (apply_body is what BOTH the machine and the specification run when a call reaches a non-function; interpret.proc_functional).
   Every statement returns the heap and world it was given: a call of these values evaluates nothing but its (already evaluated) index. *)
From Coq Require Import ZArith NArith List Bool FMapPositive Lia.
Import ListNotations.
Require Import Base Strings Builtins Interp Machine Spec HeapFacts Refine1 Refine2 RunG SeqProofs.
Open Scope Z_scope.

(* the one indexing rule of lists, strings, byte strings and exceptions: positions -len .. len-1, a negative one counted from the end ONCE *)
Theorem index_rule {A} (l:list A) (i:Z) :
  py_nth l i = if (- Z.of_nat (length l) <=? i) && (i <? Z.of_nat (length l))
               then nth_error l (Z.to_nat (i mod Z.of_nat (length l))) else None.
Proof.
  destruct ((- Z.of_nat (length l) <=? i) && (i <? Z.of_nat (length l))) eqn:E.
  - destruct (proj2 (index_range l i)) as [x Hx].
    { apply andb_true_iff in E. destruct E as [E1 E2]. apply Z.leb_le in E1. apply Z.ltb_lt in E2. lia. }
    rewrite Hx. symmetry. apply index_value. exact Hx.
  - unfold py_nth. rewrite E. reflexivity.
Qed.


(* which rule a value gets when it stands in function position (the argument `true`: any callable is accepted) *)
Theorem callable_kinds rec ip h w sp v : runG rec value ip h w (e <- proc_functional sp (inr v) true ;; Ret (VNil)) =
  match v with
  | VBool _ | VDict _ | VList _ | VStr _ | VBytes _ | VErr _ _ | VFun _ | VComplex _ _ => DoneG h w (inl VNil) 0
  | _ => DoneG h w (inr (mkerr c_type sp)) 0 end.
Proof. destruct v as [z|fl|b|s|s|l|dc|f|i|s l| |u|cr ci]; reflexivity. Qed.
Theorem kind_of_boolean rec ip h w sp b : runG rec evalr ip h w (proc_functional sp (inr (VBool b)) true) = DoneG h w (inl (EBool b)) 0. Proof. reflexivity. Qed.
Theorem kind_of_dict rec ip h w sp d : runG rec evalr ip h w (proc_functional sp (inr (VDict d)) true) = DoneG h w (inl (EDict d)) 0. Proof. reflexivity. Qed.
Theorem kind_of_list rec ip h w sp l : runG rec evalr ip h w (proc_functional sp (inr (VList l)) true) = DoneG h w (inl (ESeq (VList l))) 0. Proof. reflexivity. Qed.
Theorem kind_of_string rec ip h w sp s : runG rec evalr ip h w (proc_functional sp (inr (VStr s)) true) = DoneG h w (inl (ESeq (VStr s))) 0. Proof. reflexivity. Qed.
Theorem kind_of_bytes rec ip h w sp s : runG rec evalr ip h w (proc_functional sp (inr (VBytes s)) true) = DoneG h w (inl (ESeq (VBytes s))) 0. Proof. reflexivity. Qed.
Theorem kind_of_exception rec ip h w sp s l : runG rec evalr ip h w (proc_functional sp (inr (VErr s l)) true) = DoneG h w (inl (ESeq (VErr s l))) 0. Proof. reflexivity. Qed.

(* Boolean: exactly two arguments; True selects the first, False the second; neither is evaluated *)
Theorem call_boolean rec ip h w sp b x y : runG rec value ip h w (apply_body (EBool b) sp [x; y]) = DoneG h w (inl (if b then x else y)) 0.
Proof. reflexivity. Qed.
Theorem call_boolean_arity rec ip h w sp b argv : length argv <> 2%nat -> runG rec value ip h w (apply_body (EBool b) sp argv) = DoneG h w (inr (mkerr c_value sp)) 0.
Proof. intros L. destruct argv as [|x [|y [|z r]]]; try reflexivity. elim L; reflexivity. Qed.

(* list / exception: the element at the position, UNEVALUATED; out of range is the range error *)
Theorem call_list rec ip h w sp l i : runG rec value ip h w (apply_body (ESeq (VList l)) sp [VInt i]) =
  match py_nth l i with Some x => DoneG h w (inl x) 0 | None => DoneG h w (inr (mkerr c_range sp)) 0 end.
Proof. cbn. destruct (py_nth l i); reflexivity. Qed.
Theorem call_exception rec ip h w sp s l i : runG rec value ip h w (apply_body (ESeq (VErr s l)) sp [VInt i]) =
  match py_nth l i with Some x => DoneG h w (inl x) 0 | None => DoneG h w (inr (mkerr c_range sp)) 0 end.
Proof. cbn. destruct (py_nth l i); reflexivity. Qed.
(* string / byte string: the one-character string / one-byte byte string at the position *)
Theorem call_string rec ip h w sp s i : runG rec value ip h w (apply_body (ESeq (VStr s)) sp [VInt i]) =
  match py_nth s i with Some c => DoneG h w (inl (VStr [c])) 0 | None => DoneG h w (inr (mkerr c_range sp)) 0 end.
Proof. cbn. destruct (py_nth s i); reflexivity. Qed.
Theorem call_bytes rec ip h w sp s i : runG rec value ip h w (apply_body (ESeq (VBytes s)) sp [VInt i]) =
  match py_nth s i with Some c => DoneG h w (inl (VBytes [c])) 0 | None => DoneG h w (inr (mkerr c_range sp)) 0 end.
Proof. cbn. destruct (py_nth s i); reflexivity. Qed.
(* complex number: position 0 is the real part, position 1 the imaginary part, both as reals; any other position is the value error *)
Theorem kind_of_complex rec ip h w sp re im : runG rec evalr ip h w (proc_functional sp (inr (VComplex re im)) true) = DoneG h w (inl (ESeq (VComplex re im))) 0. Proof. reflexivity. Qed.
Theorem call_complex rec ip h w sp re im i : runG rec value ip h w (apply_body (ESeq (VComplex re im)) sp [VInt i]) =
  if i =? 0 then DoneG h w (inl (VFloat re)) 0 else if i =? 1 then DoneG h w (inl (VFloat im)) 0 else DoneG h w (inr (mkerr c_value sp)) 0.
Proof. cbn. destruct (i =? 0); [reflexivity|]. destruct (i =? 1); reflexivity. Qed.
(* a sequence takes exactly one argument, and it must be an integer *)
Theorem call_sequence_arity rec ip h w sp sq argv : length argv <> 1%nat -> runG rec value ip h w (apply_body (ESeq sq) sp argv) = DoneG h w (inr (mkerr c_value sp)) 0.
Proof. intros L. destruct argv as [|x [|y r]]; try reflexivity. elim L; reflexivity. Qed.
Theorem call_sequence_index_type rec ip h w sp sq a : isthunk a = false -> is_int a = false -> runG rec value ip h w (apply_body (ESeq sq) sp [a]) = DoneG h w (inr (mkerr c_type sp)) 0.
Proof. intros T I. destruct a as [z|fl|b|s|s|l|dc|f|i|s l| |u|cr ci]; try discriminate; reflexivity. Qed.

(* dictionary: exactly one argument; the value stored under the key equal (ㄴ) to the argument's key form, else the not-found error.
   The key form is computed by PKey (as_key: deep evaluation of the argument), a call into the evaluator: stated over `run`. *)
Theorem call_dict rec ip h w sp d a h1 w1 k d1 :
  rec ip h w (TComp (proc_body (PKey a))) = Done h1 w1 (inl k) d1 ->
  runG rec value ip h w (apply_body (EDict d) sp [a]) =
  match dict_lookup d k with Some v => DoneG h1 w1 (inl v) d1 | None => DoneG h1 w1 (inr (mkerr c_notfound sp)) d1 end.
Proof.
  intros H. cbn [apply_body length check_arity existsb Nat.eqb orb bind runG call]. rewrite H. cbn [of_out Nat.add].
  destruct (dict_lookup d k); cbn [runG upddG raise]; f_equal; lia.
Qed.
Theorem call_dict_arity rec ip h w sp d argv : length argv <> 1%nat ->
  runG rec value ip h w (apply_body (EDict d) sp argv) = DoneG h w (inr (mkerr c_value sp)) 0.
Proof. intros L. destruct argv as [|x [|y r]]; try reflexivity. elim L; reflexivity. Qed.
Print Assumptions index_rule. Print Assumptions call_list. Print Assumptions call_dict. Print Assumptions callable_kinds.

(* ---------- functions made by ㄴㄱ (pipe), ㅂㅂ (spread) and ㅁㅂ (collect) ---------- *)
(* a pipe applies its stages from left to right; every stage receives what the stage before it RETURNED, as it is - nothing between two stages
   evaluates it - and the pipe returns what its last stage returned, as it is (so a delayed call stays a tail call) *)
Fixpoint pipe_spec (rec:list positive -> heap -> world -> task -> out) (ip:list positive) (sp:span) (es:list evalr) (h:heap) (w:world) (argv:list value) : outG value :=
  match es with
  | [] => match argv with a :: _ => DoneG h w (inl a) 0 | [] => DoneG h w (inr (mkerr c_value sp)) 0 end
  | e :: r => thenG (of_out (rec ip h w (TComp (apply_body e sp argv)))) (fun h1 w1 x => pipe_spec rec ip sp r h1 w1 [x])
  end.
Definition pipe_go (sp:span) := fix go (es:list evalr) (argv:list value) : Comp value :=
  match es with
  | [] => match argv with a :: _ => Ret a | [] => raise c_value sp end
  | e1 :: r => x <- call (PApply e1 sp argv) ;; go r [x] end.
Lemma pipe_go_spec rec ip sp : forall es h w argv, runG rec value ip h w (pipe_go sp es argv) = pipe_spec rec ip sp es h w argv.
Proof.
  induction es as [|e r IH]; intros h w argv; cbn [pipe_go pipe_spec].
  - destruct argv; reflexivity.
  - unfold call. cbn [bind runG]. change (proc_body (PApply e sp argv)) with (apply_body e sp argv).
    destruct (rec ip h w (TComp (apply_body e sp argv))) as [h1 w1 [x|er] d1| |]; cbn [of_out thenG Nat.add]; auto.
    fold (pipe_go sp). rewrite IH. reflexivity.
Qed.
Theorem call_pipe rec ip h w sp i es argv : runG rec value ip h w (apply_body (EFun (FPipe i es)) sp argv) = pipe_spec rec ip sp es h w argv.
Proof. change (apply_body (EFun (FPipe i es)) sp argv) with (pipe_go sp es argv). apply pipe_go_spec. Qed.
(* a spread function hands its function ONE argument: the list of the arguments it was given, none of them evaluated *)
Theorem call_spread rec ip h w sp i e argv :
  runG rec value ip h w (apply_body (EFun (FSpread i e)) sp argv) =
  thenG (of_out (rec ip h w (TComp (apply_body e sp [VList argv])))) (fun h1 w1 x => DoneG h1 w1 (inl x) 0).
Proof.
  cbn [apply_body call runG]. change (proc_body (PApply e sp [VList argv])) with (apply_body e sp [VList argv]).
  destruct (rec ip h w (TComp (apply_body e sp [VList argv]))) as [h1 w1 [x|er] d1| |]; cbn [of_out thenG runG upddG Nat.add]; auto; try (f_equal; lia).
Qed.
(* a collect function takes ONE list (or exception) and hands its elements, unevaluated, to its function as separate arguments *)
Theorem call_collect_list rec ip h w sp i e l :
  runG rec value ip h w (apply_body (EFun (FCollect i e)) sp [VList l]) =
  thenG (of_out (rec ip h w (TComp (apply_body e sp l)))) (fun h1 w1 x => DoneG h1 w1 (inl x) 0).
Proof.
  cbn [apply_body match_arguments length check_arity existsb Nat.eqb orb bind map_strict force runG check_type forallb orp is_list is_err andb call].
  change (proc_body (PApply e sp l)) with (apply_body e sp l).
  destruct (rec ip h w (TComp (apply_body e sp l))) as [h1 w1 [x|er] d1| |]; cbn [of_out thenG runG upddG Nat.add]; auto; try (f_equal; lia).
Qed.
Print Assumptions call_pipe. Print Assumptions call_spread. Print Assumptions call_collect_list.
