(* C17: the five roundings of Float.rounding (the model of math.trunc / floor / round / ceil / _round_to_inf on a finite double) return the
   unique integer their direction defines, EXACTLY, for every finite double: x = (-1)^s * m * 2^e with m a positive integer of any size, so
   magnitudes beyond 2^53 are covered identically.  Everything is stated in integer arithmetic: with k = 2^(-e) for e < 0,
   "n <= x < n + 1" is "n * k <= v < (n + 1) * k" where v = +-m. *)
From Coq Require Import ZArith List Bool Lia SpecFloat.
Import ListNotations.
Require Import Float.
Open Scope Z_scope.

Lemma pow_pos_k e : e < 0 -> 0 < 2 ^ (- e). Proof. intros. apply Z.pow_pos_nonneg; lia. Qed.
Theorem floor_unique m e n : 0 <= m -> e < 0 -> (n * 2 ^ (- e) <= m < (n + 1) * 2 ^ (- e) <-> n = mag_floor m e).
Proof.
  intros Hm He. unfold mag_floor. assert (H : 0 <=? e = false) by (apply Z.leb_gt; lia). rewrite H.
  pose proof (pow_pos_k e He) as Hk. set (k := 2 ^ (- e)) in *. split.
  - intros [A B]. apply Z.div_unique with (r := m - n * k); [left; lia|lia].
  - intros ->. pose proof (Z.div_mod m k). pose proof (Z.mod_pos_bound m k Hk). nia.
Qed.
Theorem ceil_unique m e n : e < 0 -> ((n - 1) * 2 ^ (- e) < m <= n * 2 ^ (- e) <-> n = mag_ceil m e).
Proof.
  intros He. unfold mag_ceil. assert (H : 0 <=? e = false) by (apply Z.leb_gt; lia). rewrite H.
  pose proof (pow_pos_k e He) as Hk. set (k := 2 ^ (- e)) in *. split.
  - intros [A B]. assert (- n = (- m) / k); [|lia]. apply Z.div_unique with (r := - m + n * k); [left; lia|lia].
  - intros ->. pose proof (Z.div_mod (- m) k). pose proof (Z.mod_pos_bound (- m) k Hk). nia.
Qed.
Theorem integral_exact m e : 0 <= e -> mag_floor m e = m * 2 ^ e /\ mag_ceil m e = m * 2 ^ e /\ mag_round_even m e = m * 2 ^ e.
Proof. intros He. unfold mag_floor, mag_ceil, mag_round_even. assert (H : 0 <=? e = true) by (apply Z.leb_le; lia). rewrite H. auto. Qed.
Theorem round_even_spec m e : 0 <= m -> e < 0 ->
  let n := mag_round_even m e in let k := 2 ^ (- e) in
  Z.abs (2 * m - 2 * n * k) <= k /\ (Z.abs (2 * m - 2 * n * k) = k -> Z.even n = true).
Proof.
  intros Hm He. cbv zeta. unfold mag_round_even. assert (H : 0 <=? e = false) by (apply Z.leb_gt; lia). rewrite H.
  pose proof (pow_pos_k e He) as Hk. set (k := 2 ^ (- e)) in *.
  pose proof (Z.div_mod m k) as D. pose proof (Z.mod_pos_bound m k Hk) as B. set (q := m / k) in *. set (r := m mod k) in *.
  destruct (2 * r <? k) eqn:E1; [apply Z.ltb_lt in E1|apply Z.ltb_ge in E1].
  - split; [nia|]. intros Ha. exfalso. nia.
  - destruct (k <? 2 * r) eqn:E2; [apply Z.ltb_lt in E2|apply Z.ltb_ge in E2].
    + split; [nia|]. intros Ha. exfalso. nia.
    + destruct (Z.even q) eqn:Ev.
      * split; [nia|auto].
      * split; [nia|]. intros _. rewrite Z.even_add. rewrite Ev. reflexivity.
Qed.

(* ---- the five directions on a signed finite double with a fractional part possible (e < 0); v = the signed mantissa ---- *)
Definition sgn_m (s:bool) (m:positive) : Z := if s then Zneg m else Zpos m.
Theorem rounding_floor s m e n : e < 0 -> rounding 1 (S754_finite s m e) = Some n -> n * 2 ^ (- e) <= sgn_m s m < (n + 1) * 2 ^ (- e).
Proof.
  intros He H. cbn in H. inversion H; subst; clear H. unfold sgn_m. destruct s.
  - pose proof (proj2 (ceil_unique (Zpos m) e _ He) eq_refl). change (Zneg m) with (- Zpos m). pose proof (pow_pos_k e He). nia.
  - apply (proj2 (floor_unique (Zpos m) e _ ltac:(lia) He) eq_refl).
Qed.
Theorem rounding_ceil s m e n : e < 0 -> rounding 3 (S754_finite s m e) = Some n -> (n - 1) * 2 ^ (- e) < sgn_m s m <= n * 2 ^ (- e).
Proof.
  intros He H. cbn in H. inversion H; subst; clear H. unfold sgn_m. destruct s.
  - pose proof (proj2 (floor_unique (Zpos m) e _ ltac:(lia) He) eq_refl). change (Zneg m) with (- Zpos m). pose proof (pow_pos_k e He). nia.
  - apply (proj2 (ceil_unique (Zpos m) e _ He) eq_refl).
Qed.
(* toward zero: |n| <= |x| < |n| + 1 and n has the sign of x (or is 0) *)
Theorem rounding_trunc s m e n : e < 0 -> rounding 0 (S754_finite s m e) = Some n ->
  Z.abs n * 2 ^ (- e) <= Zpos m < (Z.abs n + 1) * 2 ^ (- e) /\ (if s then n <= 0 else 0 <= n).
Proof.
  intros He H. cbn in H. inversion H; subst; clear H.
  pose proof (proj2 (floor_unique (Zpos m) e _ ltac:(lia) He) eq_refl) as F. pose proof (pow_pos_k e He) as K.
  assert (0 <= mag_floor (Zpos m) e). { unfold mag_floor. replace (0 <=? e) with false by (symmetry; apply Z.leb_gt; lia). apply Z.div_pos; lia. }
  destruct s; [rewrite Z.abs_opp|]; rewrite Z.abs_eq by lia; split; try lia.
Qed.
(* away from zero: |n| - 1 < |x| <= |n| and n has the sign of x *)
Theorem rounding_away s m e n : e < 0 -> rounding 4 (S754_finite s m e) = Some n ->
  (Z.abs n - 1) * 2 ^ (- e) < Zpos m <= Z.abs n * 2 ^ (- e) /\ (if s then n < 0 else 0 < n).
Proof.
  intros He H. cbn in H. inversion H; subst; clear H.
  pose proof (proj2 (ceil_unique (Zpos m) e _ He) eq_refl) as C. pose proof (pow_pos_k e He) as K.
  assert (0 < mag_ceil (Zpos m) e) by nia.
  destruct s; [rewrite Z.abs_opp|]; rewrite Z.abs_eq by lia; split; try lia.
Qed.
(* to nearest, ties to even *)
Theorem rounding_nearest s m e n : e < 0 -> rounding 2 (S754_finite s m e) = Some n ->
  Z.abs (2 * sgn_m s m - 2 * n * 2 ^ (- e)) <= 2 ^ (- e) /\ (Z.abs (2 * sgn_m s m - 2 * n * 2 ^ (- e)) = 2 ^ (- e) -> Z.even n = true).
Proof.
  intros He H. cbn in H. inversion H; subst; clear H.
  destruct (round_even_spec (Zpos m) e ltac:(lia) He) as [A B]. unfold sgn_m. destruct s.
  - change (Zneg m) with (- Zpos m).
    replace (2 * - Zpos m - 2 * - mag_round_even (Zpos m) e * 2 ^ (- e)) with (- (2 * Zpos m - 2 * mag_round_even (Zpos m) e * 2 ^ (- e))) by ring.
    rewrite Z.abs_opp, Z.even_opp. auto.
  - auto.
Qed.
(* integral doubles (e >= 0, in particular everything beyond 2^53) are returned unchanged by all five; zero gives zero; inf / nan give no value *)
Theorem rounding_integral k s m e : 0 <= e -> rounding k (S754_finite s m e) = Some (sgn_m s m * 2 ^ e).
Proof.
  intros He. destruct (integral_exact (Zpos m) e He) as (A & B & C). cbn. rewrite A, B, C. unfold sgn_m.
  destruct (k =? 0), (k =? 1), (k =? 2), (k =? 3), s; f_equal; change (Zneg m) with (- Zpos m); ring.
Qed.
Theorem rounding_defined k f : rounding k f = None <-> (f = S754_nan \/ exists s, f = S754_infinity s).
Proof.
  split.
  - destruct f; cbn; try discriminate; eauto.
  - intros [->|[s ->]]; reflexivity.
Qed.
