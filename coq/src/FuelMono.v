(* DRAFT proofs: more fuel never changes an answer of the specification semantics *)
From Coq Require Import ZArith NArith List Bool FMapPositive Lia.
Import ListNotations.
Require Import Base Strings Num Builtins Interp Machine Spec Refine2.

Definition answers (o:out) := match o with Done _ _ _ _ => True | _ => False end.
Definition extends (f g : list positive -> heap -> world -> task -> out) :=
  forall ip h w tk, answers (f ip h w tk) -> g ip h w tk = f ip h w tk.

Lemma answers_updd o d : answers (updd o d) -> answers o.
Proof. destruct o; simpl; auto. Qed.
Lemma run_extends f g : extends f g -> forall c ip h w, answers (run f ip h w c) -> run g ip h w c = run f ip h w c.
Proof.
  intros E c.
  induction c as [v|e|v k IH|a e k IH|b e k IH|fc k IH|fc av k IH|k IH|t k IH|p k IH|c1 hd k IHc IHh IHk|op k IH] using comp_value_ind;
    intros ip h w A; cbn [run] in *; auto.
  - destruct v; auto. destruct (get h t) as [cl|]; auto. destruct (c_cache cl) as [[sv|er]|]; auto.
    destruct (existsb (Pos.eqb t) ip); auto.
    destruct (f ip h w (TThunk t)) as [h1 w1 r1 d1| |] eqn:F; try contradiction.
    rewrite (E ip h w (TThunk t)) by (rewrite F; exact I). rewrite F. destruct r1; auto.
    apply answers_updd in A. rewrite IH; auto.
  - destruct (alloc h a e). auto.
  - destruct (newclo h b e). auto.
  - destruct (PositiveMap.find fc (clos h)); auto.
  - destruct (alloc_body h fc av) as [[h1 x]|]; auto.
  - destruct (fresh h). auto.
  - destruct (get h t); auto.
  - destruct (f ip h w (TComp (proc_body p))) as [h1 w1 r1 d1| |] eqn:F; try contradiction.
    rewrite (E ip h w (TComp (proc_body p))) by (rewrite F; exact I). rewrite F. destruct r1; auto.
    apply answers_updd in A. rewrite IH; auto.
  - destruct (run f ip h w c1) as [h1 w1 r1 d1| |] eqn:R1; try contradiction.
    rewrite (IHc ip h w) by (rewrite R1; exact I). rewrite R1.
    destruct r1 as [sv|er]. { apply answers_updd in A. rewrite IHk; auto. }
    destruct (unmodelled er); auto. apply answers_updd in A.
    destruct (run f ip h1 w1 (hd er)) as [h2 w2 r2 d2| |] eqn:R2; try contradiction.
    rewrite (IHh er ip h1 w1) by (rewrite R2; exact I). rewrite R2. destruct r2; auto.
    apply answers_updd in A. rewrite IHk; auto.
  - destruct (wstep w op) as [w2 [rv|re]]; auto.
Qed.

Definition bs_body (rec : list positive -> heap -> world -> task -> out) (ip:list positive) (h:heap) (w:world) (tk:task) : out :=
  match tk with
  | TComp c => run rec ip h w c
  | TThunk t =>
      match get h t with
      | None => Done h w (inr {| e_spans := []; e_vals := [] |}) 0%nat
      | Some cl =>
          match run rec (t :: ip) h w (interpret (c_ast cl) (c_env cl)) with
          | Done h1 w1 (inl (VThunk t')) d0 =>
              match get h1 t' with
              | None => OOF
              | Some cl' =>
                  match c_cache cl' with
                  | Some r => Done (set_cache h1 t r) w1 r d0
                  | None => if existsb (Pos.eqb t') (t :: ip) then Reentry else
                      match rec (t :: ip) h1 w1 (TThunk t') with
                      | Done h2 w2 r d2 => Done (set_cache h2 t r) w2 r (Nat.max d0 d2)
                      | o => o end end end
          | Done h1 w1 r d0 => Done (set_cache h1 t r) w1 r d0
          | o => o end end end.
Lemma bs_S n ip h w tk : bs (S n) ip h w tk = bs_body (bs n) ip h w tk.
Proof. reflexivity. Qed.

Lemma body_extends f g : extends f g -> extends (bs_body f) (bs_body g).
Proof.
  intros E ip h w tk A. destruct tk as [t|c]; unfold bs_body in *.
  - destruct (get h t) as [cl|]; auto.
    destruct (run f (t::ip) h w (interpret (c_ast cl) (c_env cl))) as [h1 w1 r1 d1| |] eqn:R; try contradiction.
    rewrite (run_extends _ _ E) by (rewrite R; exact I). rewrite R.
    destruct r1 as [v1|e1]; auto. destruct v1; auto.
    destruct (get h1 t0) as [cl'|]; auto. destruct (c_cache cl'); auto.
    destruct (existsb (Pos.eqb t0) (t::ip)); auto.
    destruct (f (t::ip) h1 w1 (TThunk t0)) as [h2 w2 r2 d2| |] eqn:B; try contradiction.
    rewrite (E (t::ip) h1 w1 (TThunk t0)) by (rewrite B; exact I). rewrite B. reflexivity.
  - apply run_extends; auto.
Qed.
Lemma bs_extends n : extends (bs n) (bs (S n)).
Proof.
  induction n as [|n IH]; intros ip h w tk A. contradiction.
  rewrite (bs_S (S n)). rewrite (bs_S n) in *. apply body_extends; auto.
Qed.

Theorem bs_fuel_mono n m ip h w tk h' w' r d : (n <= m)%nat -> bs n ip h w tk = Done h' w' r d -> bs m ip h w tk = Done h' w' r d.
Proof.
  intros L. induction L as [|m L IH]; auto. intros B. specialize (IH B).
  rewrite (bs_extends m) by (rewrite IH; exact I). exact IH.
Qed.
Corollary spec_main_fuel_mono n m prog stdin h w r d : (n <= m)%nat -> spec_main n prog stdin = Done h w r d -> spec_main m prog stdin = Done h w r d.
Proof. unfold spec_main. destruct (alloc heap0 prog _). apply bs_fuel_mono. Qed.
(* hence the specification is a partial function of (program, stdin): any two answers agree *)
Corollary spec_deterministic n m prog stdin h w r d h2 w2 r2 d2 :
  spec_main n prog stdin = Done h w r d -> spec_main m prog stdin = Done h2 w2 r2 d2 -> h = h2 /\ w = w2 /\ r = r2 /\ d = d2.
Proof.
  intros A B. destruct (Nat.le_ge_cases n m) as [L|L].
  - rewrite (spec_main_fuel_mono _ _ _ _ _ _ _ _ L A) in B. inversion B; auto.
  - rewrite (spec_main_fuel_mono _ _ _ _ _ _ _ _ L B) in A. inversion A; auto.
Qed.
Print Assumptions spec_deterministic.
