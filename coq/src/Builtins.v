(* DRAFT: utils.py + builtins/*.py + proc_functional, transcribed into Comp (ints, bools, strings, lists, dicts,
   exceptions, functions, IO values; floats/complex/bytes/files/import still to come). *)
From Coq Require Import ZArith NArith List Bool FMapPositive.
Import ListNotations.
Require Import Base Float.
Require Lex.           (* parse.parse: a module file's text is parsed when it is first imported *)
Require Utf Utf16.          (* RFC 3629 / UTF-16 / UTF-32, proved and compared with the implementation on their own (C16); used by the string codecs *)
From Coq Require Import SpecFloat.
Open Scope Z_scope.

(* ---------- kinds ---------- *)
Definition is_int v := match v with VInt _ => true | _ => false end.
Definition is_float v := match v with VFloat _ => true | _ => false end.
Definition is_complex v := match v with VComplex _ _ => true | _ => false end.
Definition is_real v := match v with VInt _ | VFloat _ => true | _ => false end.                    (* AS.Real *)
Definition is_num v := match v with VInt _ | VFloat _ | VComplex _ _ => true | _ => false end.       (* AS.Number *)
Definition is_bool v := match v with VBool _ => true | _ => false end.
Definition is_str v := match v with VStr _ => true | _ => false end.
Definition is_bytes v := match v with VBytes _ => true | _ => false end.
Definition is_list v := match v with VList _ => true | _ => false end.
Definition is_dict v := match v with VDict _ => true | _ => false end.
Definition is_err v := match v with VErr _ _ => true | _ => false end.
Definition is_fun v := match v with VFun _ => true | _ => false end.
Definition is_io v := match v with VIO _ => true | _ => false end.
Definition is_seq v := is_list v || is_str v || is_bytes v.
Definition is_callable v := is_fun v || is_bool v || is_seq v || is_dict v || is_err v || is_complex v.
Definition orp (p q : value -> bool) v := p v || q v.

(* ---------- utils.py ---------- *)
Definition check_type (sp:span) (vs:list value) (p:value -> bool) : Comp unit :=
  if forallb p vs then Ret tt else raise c_type sp.
Definition check_arity (sp:span) (n:nat) (allowed:list nat) : Comp unit :=
  if existsb (Nat.eqb n) allowed then Ret tt else raise c_value sp.
Definition check_min_arity (sp:span) (n m:nat) : Comp unit := if (n <? m)%nat then raise c_value sp else Ret tt.
Definition check_max_arity (sp:span) (n m:nat) : Comp unit := if (m <? n)%nat then raise c_value sp else Ret tt.
Fixpoint map_strict (l:list value) : Comp (list value) :=
  match l with [] => Ret [] | v :: r => x <- force v ;; xs <- map_strict r ;; Ret (x :: xs) end.
Definition match_arguments (sp:span) (argv:list value) (p:value -> bool) (arities:list nat) : Comp (list value) :=
  check_arity sp (length argv) arities ;;; vs <- map_strict argv ;; check_type sp vs p ;;; Ret vs.
Definition match_arguments_any (sp:span) (argv:list value) (p:value -> bool) : Comp (list value) :=
  vs <- map_strict argv ;; check_type sp vs p ;;; Ret vs.
Fixpoint map_call (f:value -> proc) (l:list value) : Comp (list value) :=
  match l with [] => Ret [] | v :: r => x <- call (f v) ;; xs <- map_call f r ;; Ret (x :: xs) end.

(* strict_functional: a literal in function position is a built-in name (looks at the unevaluated syntax) *)
Definition strict_functional (sp:span) (v:value) : Comp (Z + value) :=
  let general := (x <- force v ;; check_type sp [x] is_callable ;;; Ret (inr x)) in
  match v with
  | VThunk t => PeekLit t (fun a => match a with Some n => Ret (inl n) | None => general end)
  | _ => general
  end.

(* ---------- numbers <-> strings ---------- *)
Fixpoint pos_digits (fuel:nat) (n:Z) (acc:list N) : list N :=
  match fuel with O => acc | S f => let acc' := Z.to_N (48 + n mod 10) :: acc in if n <? 10 then acc' else pos_digits f (n / 10) acc' end.
Definition str_of_int (n:Z) : list N :=
  let ds := pos_digits (S (Z.to_nat (Z.log2 (Z.abs n)))) (Z.abs n) [] in if n <? 0 then 45%N :: ds else ds.
Definition str_of_bool (b:bool) : list N := if b then [84;114;117;101]%N else [70;97;108;115;101]%N.

(* ---------- indexing with Python's negative wrap ---------- *)
Definition py_nth {A} (l:list A) (i:Z) : option A :=
  let n := Z.of_nat (length l) in
  if (- n <=? i) && (i <? n) then nth_error l (Z.to_nat (if i <? 0 then i + n else i)) else None.

(* ---------- equality keys (after the C06 repair: structural) ---------- *)
(* generic pieces, parametrised by the equality on elements (veqb passes itself) *)
Section ListEq.
Variable eq : value -> value -> bool.
Fixpoint list_eq (l1 l2:list value) {struct l1} : bool :=
  match l1, l2 with [], [] => true | p :: r1, q :: r2 => eq p q && list_eq r1 r2 | _, _ => false end.
End ListEq.
(* dictionaries compare as sets of (key, value) pairs: mutual inclusion; the element equality is always called
   with the left dictionary's component first *)
Definition dict_eq (eq:value -> value -> bool) (x y:list (value * value)) : bool :=
  Nat.eqb (length x) (length y)
  && forallb (fun p1 => let '(k1, v1) := p1 in existsb (fun p2 => let '(k2, v2) := p2 in eq k1 k2 && eq v1 v2) y) x
  && forallb (fun p2 => let '(k2, v2) := p2 in existsb (fun p1 => let '(k1, v1) := p1 in eq k1 k2 && eq v1 v2) x) y.
(* numbers compare by exact value across the tower: canonical key = sign, odd mantissa, binary exponent *)
Inductive nkeyv := KZero | KFin (s:bool) (m:positive) (e:Z) | KInf (s:bool) | KNan | KNone.
Fixpoint pstrip (p:positive) : positive * Z :=
  match p with xO q => let (m, k) := pstrip q in (m, k + 1) | _ => (p, 0) end.
Definition nkey (v:value) : nkeyv :=
  match v with
  | VInt 0 => KZero
  | VInt (Zpos p) => let (m, k) := pstrip p in KFin false m k
  | VInt (Zneg p) => let (m, k) := pstrip p in KFin true m k
  | VFloat (S754_zero _) => KZero
  | VFloat (S754_finite s m e) => let (m', k) := pstrip m in KFin s m' (e + k)
  | VFloat (S754_infinity s) => KInf s
  | VFloat S754_nan => KNan
  | _ => KNone end.
Definition nkey_eqb (a b:nkeyv) : bool :=
  match a, b with
  | KZero, KZero => true
  | KFin s m e, KFin s' m' e' => Bool.eqb s s' && Pos.eqb m m' && (e =? e')
  | KInf s, KInf s' => Bool.eqb s s'
  | _, _ => false end.
(* a number's key is the pair (real part, imaginary part); integers and reals have imaginary part zero: complex(a, b) == r  iff  b == 0 and a == r *)
Definition ckey (v:value) : nkeyv * nkeyv :=
  match v with
  | VComplex r i => (nkey (VFloat r), nkey (VFloat i))
  | VInt _ | VFloat _ => (nkey v, KZero)
  | _ => (KNone, KNone) end.
Definition num_eq (a b:value) : bool := nkey_eqb (fst (ckey a)) (fst (ckey b)) && nkey_eqb (snd (ckey a)) (snd (ckey b)).
Definition fun_eq (f g:funv) : bool :=
  match f, g with
  | FClo p, FClo q => Pos.eqb p q
  | FFile p, FFile q => Pos.eqb p q
  | FPipe p _, FPipe q _ | FCollect p _, FCollect q _ | FSpread p _, FSpread q _ | FCodec p _ _ _, FCodec q _ _ _ => Pos.eqb p q
  | FModule a, FModule b => if list_eq_dec Z.eq_dec a b then true else false
  | _, _ => false end.
Definition codes_eq (x y:list N) : bool := if list_eq_dec N.eq_dec x y then true else false.
Definition Files_mode_eq (a b:Files.mode) : {a = b} + {a <> b}. Proof. decide equality. Defined.
Definition op_eqb (a b:Files.op) : bool :=
  match a, b with
  | Files.ORead x, Files.ORead y | Files.OSeekSet x, Files.OSeekSet y | Files.OSeekCur x, Files.OSeekCur y | Files.OTruncN x, Files.OTruncN y => Z.eqb x y
  | Files.OWrite x, Files.OWrite y => codes_eq x y
  | Files.OTell, Files.OTell | Files.OTrunc, Files.OTrunc => true
  | _, _ => false end.
Definition xop_eqb (a b:FilesTotal.xop) : bool :=
  match a, b with FilesTotal.XOp x, FilesTotal.XOp y => op_eqb x y | FilesTotal.XClose, FilesTotal.XClose => true | _, _ => false end.
Fixpoint veqb (a b:value) {struct a} : bool :=
  match a, b with
  | VInt _, _ | VFloat _, _ | VComplex _ _, _ => num_eq a b
  | VBool x, VBool y => Bool.eqb x y
  | VStr x, VStr y => codes_eq x y
  | VBytes x, VBytes y => codes_eq x y
  | VList x, VList y => list_eq (fun p q => veqb p q) x y
  | VErr _ x, VErr _ y => list_eq (fun p q => veqb p q) x y
  | VDict x, VDict y => dict_eq (fun p q => veqb p q) x y
  | VFun f, VFun g => fun_eq f g
  | VNil, VNil => true
  | VIO i, VIO j =>
      match i, j with
      | IOInput, IOInput => true
      | IOPrint s, IOPrint s' => codes_eq s s'
      | IOReturn v, IOReturn w => veqb v w
      | IOBind _ _ _ _ l1, IOBind _ _ _ _ l2 => list_eq (fun p q => veqb p q) l1 l2
      | IOOpen _ p m, IOOpen _ p' m' => codes_eq p p' && (if Files_mode_eq m m' then true else false)
      | IOFile _ h o, IOFile _ h' o' => Pos.eqb h h' && xop_eqb o o'
      | _, _ => false end
  | _, _ => false
  end.
Fixpoint dict_lookup (d:list (value*value)) (k:value) : option value :=
  match d with [] => None | (k', v) :: r => if veqb k' k then Some v else dict_lookup r k end.
(* later equal key replaces the earlier entry, keeping the earlier position (Python dict semantics) *)
Fixpoint dict_insert (d:list (value*value)) (k v:value) : list (value*value) :=
  match d with [] => [(k, v)] | (k', v') :: r => if veqb k' k then (k, v) :: r else (k', v') :: dict_insert r k v end.

(* ---------- built-in names (pinned values; Gen/GenTables.v in the real development) ---------- *)
Definition b_mul := 0. Definition b_add := 2. Definition b_pow := 6. Definition b_div := -9. Definition b_mod := -33.
Definition b_exc := -42. Definition b_list := -28. Definition b_str := -60. Definition b_nil := -5. Definition b_dict := -62.
Definition b_throw := -58. Definition b_try := -22. Definition b_pipe := -1. Definition b_collect := -44. Definition b_spread := -45.
Definition b_input := 3. Definition b_print := -31. Definition b_return := -48. Definition b_bind := -24.
Definition b_eq := 1. Definition b_not := 4. Definition b_lt := 7. Definition b_true := -63. Definition b_false := -56.
Definition b_len := -23. Definition b_slice := -61. Definition b_map := -20. Definition b_filter := -46. Definition b_fold := -30.
Definition b_open := -8. Definition b_complexc := -53. Definition b_floatc := -54. Definition b_int := -55. Definition b_split := -29. Definition b_join := -32. Definition b_import := 5.
Definition c_unmodelled := 999.   (* outside the model: the harness skips the case *)
Definition builtin_names : list Z := [b_open;b_complexc;b_floatc;b_int;b_split;b_join;b_import;b_mul;b_add;b_pow;b_div;b_mod;b_exc;b_list;b_str;b_nil;b_dict;b_throw;b_try;b_pipe;b_collect;b_spread;
  b_input;b_print;b_return;b_bind;b_eq;b_not;b_lt;b_true;b_false;b_len;b_slice;b_map;b_filter;b_fold].

(* proc_functional *)
Definition proc_functional (sp:span) (f:Z + value) (general:bool) : Comp evalr :=
  match f with
  | inl n => if existsb (Z.eqb n) builtin_names then Ret (EBuiltin n) else raise c_notfound sp
  | inr v =>
      check_type sp [v] (if general then is_callable else is_fun) ;;;
      match v with
      | VBool b => Ret (EBool b) | VDict d => Ret (EDict d)
      | VList _ | VStr _ | VBytes _ | VErr _ _ | VComplex _ _ => Ret (ESeq v)
      | VFun g => Ret (EFun g)
      | _ => raise c_type sp end
  end.
Definition functional (sp:span) (v:value) (general:bool) : Comp evalr :=
  f <- strict_functional sp v ;; proc_functional sp f general.
(* what ㄱㄹ keeps of its continuation / handler: strict_functional only (any callable value, or a literal taken as a built-in name whether or not it
   exists); proc_functional - the check that it is a function, the look-up of the name - happens when the action RUNS (late_apply in Interp.v) *)
Definition late_functional (sp:span) (v:value) : Comp evalr :=
  f <- strict_functional sp v ;; match f with inl n => Ret (EBuiltin n) | inr x => proc_functional sp (inr x) true end.

(* ---------- arithmetics.py ---------- *)
Fixpoint all_bools (sp:span) (argv:list value) (stop_on:bool) : Comp value :=   (* _all: stop_on=false ; _any: stop_on=true *)
  match argv with
  | [] => Ret (VBool (negb stop_on))
  | a :: r => x <- force a ;; check_type sp [x] is_bool ;;;
      match x with VBool b => if Bool.eqb b stop_on then Ret (VBool stop_on) else all_bools sp r stop_on | _ => raise c_type sp end
  end.
Definition nums_of (l:list value) : list num := flat_map (fun v => match v with VInt n => [NI n] | VFloat f => [NF f] | VComplex r i => [NC r i] | _ => [] end) l.
Definition val_of_num (n:num) : value := match n with NI z => VInt z | NF f => VFloat f | NC r i => VComplex r i end.
Definition ints_of (l:list value) : list Z := flat_map (fun v => match v with VInt n => [n] | _ => [] end) l.
Definition bi_multiply (sp:span) (argv:list value) : Comp value :=
  check_min_arity sp (length argv) 1 ;;;
  match argv with [] => raise c_value sp | a0 :: rest =>
    first <- force a0 ;; check_type sp [first] (orp is_num is_bool) ;;;
    if is_bool first then all_bools sp argv false
    else rs <- match_arguments_any sp rest is_num ;;
      match nums_of (first :: rs) with
      | x :: r => match py_prod x r with Some v => Ret (val_of_num v) | None => raise c_arith sp (* repaired: host OverflowError *) end
      | [] => raise c_type sp end end.
Definition bi_add (sp:span) (argv:list value) : Comp value :=
  check_min_arity sp (length argv) 1 ;;;
  match argv with [] => raise c_value sp | a0 :: _ =>
    first <- force a0 ;; check_type sp [first] (orp (orp is_num is_bool) (orp is_seq is_dict)) ;;;
    if is_bool first then all_bools sp argv true
    else vs <- map_strict argv ;;
      match first with
      | VList _ => check_type sp vs is_list ;;; Ret (VList (flat_map (fun v => match v with VList l => l | _ => [] end) vs))
      | VStr _ => check_type sp vs is_str ;;; Ret (VStr (flat_map (fun v => match v with VStr l => l | _ => [] end) vs))
      | VBytes _ => check_type sp vs is_bytes ;;; Ret (VBytes (flat_map (fun v => match v with VBytes l => l | _ => [] end) vs))
      | VDict _ => check_type sp vs is_dict ;;;
          Ret (VDict (fold_left (fun acc v => match v with VDict d => fold_left (fun a kv => dict_insert a (fst kv) (snd kv)) d acc | _ => acc end) vs []))
      | _ => check_type sp vs is_num ;;; match py_sum 0 (nums_of vs) with Some v => Ret (val_of_num v) | None => raise c_arith sp (* repaired: host OverflowError *) end
      end end.
Definition int_div (a d:Z) : Z := let v := a / d in if v <? 0 then - ((- a) / d) else v.       (* regenerated kernel *)
Definition int_rem (a d:Z) : Z := if 0 <=? a / d then a mod d else - ((- a) mod d).            (* regenerated kernel *)
(* an operand of a real operation: a double, or an integer converted to the nearest double (None = too large: CPython's OverflowError) *)
Definition as_float (v:value) : option spec_float := match v with VFloat f => Some f | VInt n => float_of_int n | _ => None end.
Definition real_binop (sp:span) (op:spec_float -> spec_float -> fres) (a d:value) : Comp value :=
  match as_float a, as_float d with
  | Some x, Some y => match op x y with FOk v => Ret (VFloat v) | FZeroDiv => raise c_div sp | FDomain => raise c_arith sp end
  | _, _ => raise c_arith sp       (* repaired: host OverflowError *)
  end.
Definition bi_div (sp:span) (argv:list value) : Comp value :=
  vs <- match_arguments sp argv is_real [2%nat] ;;
  match vs with [VInt a; VInt d] => if d =? 0 then raise c_div sp else Ret (VInt (int_div a d)) | [a; d] => real_binop sp py_truncdiv a d | _ => raise c_type sp end.
Definition bi_mod (sp:span) (argv:list value) : Comp value :=
  vs <- match_arguments sp argv is_real [2%nat] ;;
  match vs with [VInt a; VInt d] => if d =? 0 then raise c_div sp else Ret (VInt (int_rem a d)) | [a; d] => real_binop sp py_fmod a d | _ => raise c_type sp end.

(* ---------- logic.py ---------- *)
Fixpoint equals_loop (argv:list value) (k0:option value) : Comp value :=
  match argv with
  | [] => Ret (VBool true)
  | a :: r => k <- call (PKey a) ;;
      match k0 with None => equals_loop r (Some k) | Some k1 => if veqb k1 k then equals_loop r k0 else Ret (VBool false) end
  end.
Definition bi_eq (sp:span) (argv:list value) : Comp value := equals_loop argv None.
Definition bi_not (sp:span) (argv:list value) : Comp value :=
  vs <- match_arguments sp argv is_bool [1%nat] ;; match vs with [VBool b] => Ret (VBool (negb b)) | _ => raise c_type sp end.
Definition bi_lt (sp:span) (argv:list value) : Comp value :=
  vs <- match_arguments sp argv is_real [2%nat] ;;
  match vs with
  | [VInt a; VInt b] => Ret (VBool (a <? b))
  | [VInt a; VFloat b] => Ret (VBool (match cmp_zf a b with Some Lt => true | _ => false end))
  | [VFloat a; VInt b] => Ret (VBool (match cmp_zf b a with Some Gt => true | _ => false end))
  | [VFloat a; VFloat b] => Ret (VBool (match cmp_ff a b with Some Lt => true | _ => false end))
  | _ => raise c_type sp end.
Definition bi_const (b:bool) (sp:span) (argv:list value) : Comp value := check_arity sp (length argv) [0%nat] ;;; Ret (VBool b).

(* ---------- constructors.py ---------- *)
Fixpoint evens {A} (l:list A) : list A := match l with [] => [] | x :: r => x :: match r with [] => [] | _ :: r' => evens r' end end.
Definition odds {A} (l:list A) : list A := match l with [] => [] | _ :: r => evens r end.
Fixpoint zipd (ks vs:list value) (acc:list (value*value)) : list (value*value) :=
  match ks, vs with k :: kr, v :: vr => zipd kr vr (dict_insert acc k v) | _, _ => acc end.
Definition bi_dict (sp:span) (argv:list value) : Comp value :=
  if Nat.odd (length argv) then raise c_value sp else
  ks <- map_call PDeep (evens argv) ;;
  keys <- map_call PKey ks ;;           (* as_key of each key: forces nested content, including the arguments of action values *)
  Ret (VDict (zipd keys (odds argv) [])).      (* entries are found by their keys (Python: mapping keyed by as_key) *)
Definition bi_list (sp:span) (argv:list value) : Comp value := Ret (VList argv).
Definition bi_string (sp:span) (argv:list value) : Comp value :=
  vs <- match_arguments sp argv (orp is_num is_str) [0%nat; 1%nat] ;;
  match vs with [] => Ret (VStr []) | [VInt n] => Ret (VStr (str_of_int n)) | [VFloat f] => Ret (VStr (show_float f)) | [VComplex r i] => Ret (VStr (show_complex r i)) | [v] => Ret v | _ => raise c_value sp end.
Definition bi_nil (sp:span) (argv:list value) : Comp value := check_arity sp (length argv) [0%nat] ;;; Ret VNil.
Definition bi_exception (sp:span) (argv:list value) : Comp value := vs <- map_strict argv ;; Ret (VErr [sp] vs).

(* ---------- control.py ---------- *)
Definition bi_throw (sp:span) (argv:list value) : Comp value :=
  check_arity sp (length argv) [1%nat] ;;; vs <- map_strict argv ;; check_type sp vs is_err ;;;
  match vs with [VErr s l] => Raise {| e_spans := s; e_vals := l |} | _ => raise c_type sp end.
Definition bi_try (sp:span) (argv:list value) : Comp value :=
  check_arity sp (length argv) [2%nat] ;;;
  match argv with [a; h] =>
    Catch (call (PDeep a))
          (fun e => f <- functional sp h false ;; call (PApply f sp [VErr (e_spans e) (e_vals e)]))
          Ret
  | _ => raise c_value sp end.

(* ---------- sequence.py ---------- *)
Definition bi_len (sp:span) (argv:list value) : Comp value :=
  vs <- match_arguments sp argv (orp is_seq is_err) [1%nat] ;;
  match vs with [VList l] => Ret (VInt (Z.of_nat (length l))) | [VStr l] | [VBytes l] => Ret (VInt (Z.of_nat (length l)))
              | [VErr _ l] => Ret (VInt (Z.of_nat (length l))) | _ => raise c_type sp end.
Definition clamp (len x step : Z) : Z :=
  if x <? 0 then (let y := x + len in if y <? 0 then (if step <? 0 then -1 else 0) else y)
  else if x >=? len then (if step <? 0 then len - 1 else len) else x.
Definition slice_len (s e step : Z) : Z :=
  if step <? 0 then (if e <? s then (s - e - 1) / (- step) + 1 else 0) else (if s <? e then (e - s - 1) / step + 1 else 0).
Definition slice_list {A} (l:list A) (start stop step:Z) : list A :=
  let len := Z.of_nat (length l) in let s := clamp len start step in let e := clamp len stop step in
  flat_map (fun k => match nth_error l (Z.to_nat (s + Z.of_nat k * step)) with Some x => [x] | None => [] end)
           (seq 0 (Z.to_nat (slice_len s e step))).
Definition bi_slice (sp:span) (argv:list value) : Comp value :=
  check_arity sp (length argv) [2%nat;3%nat;4%nat] ;;;
  vs <- map_strict argv ;;
  match vs with
  | sq :: rest =>
      check_type sp [sq] is_seq ;;; check_type sp rest is_int ;;;
      let n := match sq with VList l => Z.of_nat (length l) | VStr l | VBytes l => Z.of_nat (length l) | _ => 0 end in
      let '(a, b, c) := match ints_of rest with [a] => (a, n, 1) | [a; b] => (a, b, 1) | [a; b; c] => (a, b, c) | _ => (0, 0, 1) end in
      if c =? 0 then raise c_value sp (* repaired: was a host ValueError *) else
      match sq with VList l => Ret (VList (slice_list l a b c)) | VStr l => Ret (VStr (slice_list l a b c)) | VBytes l => Ret (VBytes (slice_list l a b c)) | _ => raise c_type sp end
  | [] => raise c_value sp end.
Definition bi_map (sp:span) (argv:list value) : Comp value :=
  check_arity sp (length argv) [2%nat] ;;;
  match argv with [a; fv] =>
    sq <- force a ;; check_type sp [sq] is_list ;;;
    f <- functional sp fv false ;;
    match sq with VList l => ys <- map_call (fun x => PApply f sp [x]) l ;; Ret (VList ys) | _ => raise c_type sp end
  | _ => raise c_value sp end.
Definition bi_filter (sp:span) (argv:list value) : Comp value :=
  check_arity sp (length argv) [2%nat] ;;;
  match argv with [a; fv] =>
    sq <- force a ;; check_type sp [sq] is_list ;;;
    f <- functional sp fv false ;;
    match sq with VList l =>
      ys <- map_call (fun x => PApply f sp [x]) l ;; bs <- map_strict ys ;; check_type sp bs is_bool ;;;
      Ret (VList (flat_map (fun p => match snd p with VBool true => [fst p] | _ => [] end) (combine l bs)))
    | _ => raise c_type sp end
  | _ => raise c_value sp end.
Fixpoint fold_loop (f:evalr) (sp:span) (from_right:bool) (acc:value) (feed:list value) : Comp value :=
  match feed with [] => Ret acc | item :: r =>
    acc' <- call (PApply f sp (if from_right then [item; acc] else [acc; item])) ;; fold_loop f sp from_right acc' r end.
Definition bi_fold (sp:span) (argv:list value) : Comp value :=
  check_arity sp (length argv) [2%nat;3%nat] ;;;
  let '(x, init, y) := match argv with [x; i; y] => (x, Some i, y) | [x; y] => (x, None, y) | _ => (VNil, None, VNil) end in
  first <- force x ;;
  let from_right := is_list first in
  let '(fv, sv) := if from_right then (y, x) else (x, y) in
  f <- functional sp fv false ;;
  sq <- force sv ;; check_type sp [sq] is_list ;;;
  match sq with VList l =>
    let feed := if from_right then rev l else l in
    match init with
    | Some a => fold_loop f sp from_right a feed
    | None => match feed with a :: r => fold_loop f sp from_right a r | [] => raise c_value sp (* repaired: host IndexError *) end end
  | _ => raise c_type sp end.

(* ---------- functional.py ---------- *)
Fixpoint procs (sp:span) (l:list value) : Comp (list evalr) :=
  match l with [] => Ret [] | v :: r => e <- functional sp v true ;; es <- procs sp r ;; Ret (e :: es) end.
Definition bi_pipe (sp:span) (argv:list value) : Comp value := es <- procs sp argv ;; Fresh (fun i => Ret (VFun (FPipe i es))).
Definition bi_collect (sp:span) (argv:list value) : Comp value :=
  check_arity sp (length argv) [1%nat] ;;; match argv with [v] => e <- functional sp v true ;; Fresh (fun i => Ret (VFun (FCollect i e))) | _ => raise c_value sp end.
Definition bi_spread (sp:span) (argv:list value) : Comp value :=
  check_arity sp (length argv) [1%nat] ;;; match argv with [v] => e <- functional sp v true ;; Fresh (fun i => Ret (VFun (FSpread i e))) | _ => raise c_value sp end.

(* ---------- io.py (values only; effects are in do_io) ---------- *)
Definition bi_input (sp:span) (argv:list value) : Comp value := check_arity sp (length argv) [0%nat] ;;; Ret (VIO IOInput).
Definition bi_print (sp:span) (argv:list value) : Comp value :=
  check_arity sp (length argv) [1%nat] ;;; vs <- map_strict argv ;;
  match vs with [VStr s] => Ret (VIO (IOPrint s)) | _ => raise c_type sp end.
Definition bi_return (sp:span) (argv:list value) : Comp value :=
  check_arity sp (length argv) [1%nat] ;;; match argv with [a] => v <- call (PDeep a) ;; Ret (VIO (IOReturn v)) | _ => raise c_value sp end.
Definition bi_bind (sp:span) (argv:list value) : Comp value :=
  check_arity sp (length argv) [2%nat;3%nat] ;;;
  match argv with
  | m :: f :: rest =>
      io <- force m ;; check_type sp [io] is_io ;;;
      resolve <- late_functional sp f ;;      (* strict_functional; proc_functional happens when the action runs *)
      match rest with
      | [] => Ret (VIO (IOBind sp io resolve None argv))
      | h :: _ => reject <- late_functional sp h ;; Ret (VIO (IOBind sp io resolve (Some reject) argv)) end
  | _ => raise c_value sp end.


(* ㄱㄴ: the action that opens a file.  Everything is checked when the action is BUILT (kinds, the mode word); opening happens when it runs.
   Descriptors (integers) are outside the model. *)
Definition mode_of (n:Z) : option Files.mode :=
  if n =? 3 then Some Files.MR else if n =? -31 then Some Files.MW else if n =? -7 then Some Files.MA
  else if n =? 251 then Some Files.MRW else if n =? 223 then Some Files.MWR else if n =? 199 then Some Files.MAR else None.
Definition bi_open (sp:span) (argv:list value) : Comp value :=
  check_arity sp (length argv) [2%nat] ;;; vs <- map_strict argv ;;
  match vs with
  | [t; m] => check_type sp [t] (orp is_int is_str) ;;; check_type sp [m] is_int ;;;
      match m with
      | VInt mn => match mode_of mn with
                   | None => raise c_value sp
                   | Some md => match t with VStr p => Ret (VIO (IOOpen sp p md)) | _ => raise c_unmodelled sp end end
      | _ => raise c_type sp end
  | _ => raise c_value sp end.
(* calling a file handle: the LAST argument is the command word; each command checks its own arguments and builds the action *)
Definition file_call (hd:positive) (sp:span) (argv:list value) : Comp value :=
  check_min_arity sp (length argv) 1 ;;;
  cmd <- force (last argv VNil) ;; check_type sp [cmd] is_int ;;;
  match cmd with
  | VInt c =>
      if c =? 2 then check_arity sp (length argv) [1%nat] ;;; Ret (VIO (IOFile sp hd FilesTotal.XClose))
      else if c =? 3 then check_arity sp (length argv) [2%nat] ;;;
        vs <- match_arguments_any sp (firstn 1 argv) is_int ;; match vs with [VInt n] => Ret (VIO (IOFile sp hd (FilesTotal.XOp (Files.ORead n)))) | _ => raise c_type sp end
      else if c =? -31 then check_arity sp (length argv) [2%nat] ;;;
        vs <- match_arguments_any sp (firstn 1 argv) is_bytes ;; match vs with [VBytes b] => Ret (VIO (IOFile sp hd (FilesTotal.XOp (Files.OWrite b)))) | _ => raise c_type sp end
      else if c =? 7 then check_max_arity sp (length argv) 3 ;;;
        match argv with
        | [_] => Ret (VIO (IOFile sp hd (FilesTotal.XOp Files.OTell)))
        | _ => vs <- map_strict argv ;;
            match rev vs with
            | _ :: off :: rest =>
                check_type sp [off] is_int ;;;
                match off, rest with
                | VInt o, [] => Ret (VIO (IOFile sp hd (FilesTotal.XOp (Files.OSeekSet o))))
                | VInt o, wh :: _ => check_type sp [wh] is_int ;;;
                    match wh with
                    | VInt k => if k =? -1406 then Ret (VIO (IOFile sp hd (FilesTotal.XOp (Files.OSeekSet o))))
                                else if k =? -1351 then Ret (VIO (IOFile sp hd (FilesTotal.XOp (Files.OSeekCur o)))) else raise c_value sp
                    | _ => raise c_type sp end
                | _, _ => raise c_type sp end
            | _ => raise c_value sp end
        end
      else if c =? 0 then
        check_max_arity sp (length argv) 2 ;;; vs <- map_strict argv ;; check_type sp vs is_int ;;;
        match vs with
        | [_] => Ret (VIO (IOFile sp hd (FilesTotal.XOp Files.OTrunc)))
        | [VInt n; _] => Ret (VIO (IOFile sp hd (FilesTotal.XOp (Files.OTruncN n))))
        | _ => raise c_value sp end
      else raise c_value sp
  | _ => raise c_type sp end.

(* ---------- more arithmetics: power ---------- *)
Fixpoint egcd (fuel:nat) (a b:Z) : Z * Z * Z :=          (* g, x, y with a*x + b*y = g *)
  match fuel with O => (a, 1, 0) | S f => if b =? 0 then (a, 1, 0) else let '(g, x, y) := egcd f b (a mod b) in (g, y, x - (a / b) * y) end.
Definition modinv (b m:Z) : option Z :=
  let '(g, x, _) := egcd (S (Z.to_nat (2 * Z.log2 (Z.abs b + m) + 2))) (b mod m) m in if g =? 1 then Some (x mod m) else None.
(* real powers are libm's pow and are outside the model, EXCEPT the exact case (a positive power of two) ** integer while the result is a normal double:
   2^k is the double with mantissa 2^52 and exponent k - 52, and libm's pow is exact there *)
Definition pow2_exp (v:value) : option Z :=
  match v with
  | VFloat (S754_finite false m x) => if Zpos m =? 2 ^ 52 then Some (x + 52) else None
  | VInt (Zpos m) => if Zpos m =? 2 ^ Z.log2 (Zpos m) then Some (Z.log2 (Zpos m)) else None
  | _ => None end.
Definition pow2_result (k e:Z) : option value :=
  let K := k * e in if (-1022 <=? K) && (K <=? 1023) then Some (VFloat (S754_finite false (Z.to_pos (2 ^ 52)) (K - 52))) else None.
Definition bi_pow (sp:span) (argv:list value) : Comp value :=
  vs <- match_arguments sp argv is_num [2%nat; 3%nat] ;;
  match vs with
  | [VFloat f; VInt e] => match pow2_exp (VFloat f) with Some k => match pow2_result k e with Some v => Ret v | None => raise c_unmodelled sp end | None => raise c_unmodelled sp end
  | [VFloat _; _] | [_; VFloat _] | [VComplex _ _; _] | [_; VComplex _ _] => raise c_unmodelled sp
  | [VInt b; VInt e] => if 0 <=? e then Ret (VInt (b ^ e)) else if b =? 0 then raise c_div sp else
      match pow2_exp (VInt b) with Some k => match pow2_result k e with Some v => Ret v | None => raise c_unmodelled sp end | None => raise c_unmodelled sp end
  | [VInt b; VInt e; VInt m] =>
      let m' := Z.abs m in
      if m' =? 0 then raise c_arith sp
      else if 0 <=? e then Ret (VInt ((b ^ e) mod m'))
      else match modinv b m' with Some i => Ret (VInt ((i ^ (- e)) mod m')) | None => raise c_arith sp end
  | _ => raise c_type sp end.

(* ---------- constructors: integer conversion (subset: optional sign + digits of the base) ---------- *)
Definition digit_val (c:N) : option Z :=
  let z := Z.of_N c in
  if (48 <=? z) && (z <=? 57) then Some (z - 48) else if (97 <=? z) && (z <=? 122) then Some (z - 87) else if (65 <=? z) && (z <=? 90) then Some (z - 55) else None.
Fixpoint parse_digits (base:Z) (l:list N) (acc:Z) : option Z :=
  match l with [] => Some acc | c :: r => match digit_val c with Some d => if d <? base then parse_digits base r (acc * base + d) else None | None => None end end.
(* int(s, base): an optional sign, then - for base 16 / 8 / 2 only - an optional prefix 0x / 0o / 0b (either case), then at least one digit *)
Definition prefix_letter (base:Z) (c:N) : bool :=
  let lc := if ((65 <=? c) && (c <=? 90))%N then (c + 32)%N else c in
  ((base =? 16) && N.eqb lc 120) || ((base =? 8) && N.eqb lc 111) || ((base =? 2) && N.eqb lc 98).
Definition has_prefix (base:Z) (r:list N) : bool := match r with a :: c :: (d :: r') => N.eqb a 48 && prefix_letter base c | _ => false end.
Definition drop_prefix (base:Z) (r:list N) : list N :=
  match r with a :: c :: (d :: r') => if N.eqb a 48 && prefix_letter base c then d :: r' else r | _ => r end.
(* digits with single underscores BETWEEN them ("1_000"; one may also follow the prefix: "0x_ff"); st: 0 = at the start, 1 = after a digit,
   2 = after an underscore, 3 = after the prefix *)
Fixpoint scan (base:Z) (l:list N) (acc:Z) (st:nat) : option Z :=
  match l with
  | [] => if Nat.eqb st 1 then Some acc else None
  | c :: r => if N.eqb c 95 then (if Nat.eqb st 1 || Nat.eqb st 3 then scan base r acc 2%nat else None)
              else match digit_val c with Some d => if d <? base then scan base r (acc * base + d) 1%nat else None | None => None end
  end.
Definition parse_unsigned (r:list N) (base:Z) : option Z := scan base (drop_prefix base r) 0 (if has_prefix base r then 3%nat else 0%nat).
(* base 0: the prefix chooses 16 / 8 / 2; without one the text is decimal, and a decimal that starts with 0 must BE zero ("00", "0_0"; not "01") *)
Definition parse_unsigned0 (r:list N) : option Z :=
  if has_prefix 16 r then parse_unsigned r 16 else if has_prefix 8 r then parse_unsigned r 8 else if has_prefix 2 r then parse_unsigned r 2
  else match scan 10 r 0 0%nat with
       | Some n => match r with c :: _ => if N.eqb c 48 && negb (n =? 0) then None else Some n | [] => None end
       | None => None end.
Definition parse_int (s:list N) (base:Z) : option Z :=
  let pu r := if base =? 0 then parse_unsigned0 r else parse_unsigned r base in
  match s with
  | c :: r => if N.eqb c 45 then match pu r with Some n => Some (- n) | None => None end
              else if N.eqb c 43 then pu r else pu s
  | [] => None end.
Definition simple_numeral (s:list N) : bool := forallb (fun c => match digit_val c with Some _ => true | None => N.eqb c 45 || N.eqb c 43 || N.eqb c 95 end) s.
(* a printable ASCII character that is no digit, letter, sign or underscore: no spelling of an integer in any base contains one *)
Definition hopeless_numeral (s:list N) : bool :=
  existsb (fun c => let z := Z.of_N c in (33 <=? z) && (z <=? 126) && negb (match digit_val c with Some _ => true | None => false end) && negb (N.eqb c 45 || N.eqb c 43 || N.eqb c 95)) s.
Definition bi_integer (sp:span) (argv:list value) : Comp value :=
  vs <- match_arguments sp argv (orp is_real is_str) [1%nat; 2%nat] ;;
  match vs with
  | VInt n :: rest => check_arity sp (length vs) [1%nat] ;;; Ret (VInt n)
  | VFloat f :: rest => check_arity sp (length vs) [1%nat] ;;; match rounding 0 f with Some n => Ret (VInt n) | None => raise c_value sp (* repaired: host OverflowError / ValueError *) end
  | [VStr s0] => let s := FloatText.strip s0 in          (* int() strips blanks (ASCII ones modelled) *)
                 if simple_numeral s then match parse_int s 10 with Some n => Ret (VInt n) | None => raise c_value sp end
                 else if hopeless_numeral s then raise c_value sp else raise c_unmodelled sp
  | [VStr s0; VInt b] => let s := FloatText.strip s0 in
      if (2 <=? b) && (b <=? 36) then
        if simple_numeral s then match parse_int s b with Some n => Ret (VInt n) | None => raise c_value sp end
        else if hopeless_numeral s then raise c_value sp else raise c_unmodelled sp
      else if b =? 0 then
        if simple_numeral s then match parse_int s 0 with Some n => Ret (VInt n) | None => raise c_value sp end
        else if hopeless_numeral s then raise c_value sp else raise c_unmodelled sp
      else if 2147483648 <=? Z.abs b then raise c_unmodelled sp      (* a base the host cannot take as a C integer *)
      else raise c_value sp                                                       (* int(): base must be >= 2 and <= 36, or 0 *)
  | [VStr _; _] => raise c_type sp
  | _ => raise c_type sp end.

(* ㅅㅅ with a base other than ten (constructors._float): the stripped text is split at ".", integer and fraction digits are read TOGETHER as one
   integer of that base (int(): sign, prefix), and that integer is divided by base ^ (number of fraction digits) - int / int, correctly rounded *)
Fixpoint split_dots (l cur:list N) : list (list N) :=
  match l with [] => [rev cur] | c :: r => if N.eqb c 46 then rev cur :: split_dots r [] else split_dots r (c :: cur) end.
Definition float_in_base (s:list N) (b:Z) : FloatText.ptext :=
  if existsb (fun c => (127 <? c)%N || ((c <? 32)%N && negb (FloatText.is_space c))) s then FloatText.PUnmodelled
  else
    let go (ip fp:list N) :=
      if (b =? 0) && negb (Nat.eqb (length fp) 0) then FloatText.PBad else          (* 0 ** len(frac) = 0: ZeroDivisionError *)
      if negb ((b =? 0) || ((2 <=? b) && (b <=? 36))) then FloatText.PBad else
      match parse_int (ip ++ fp) b with
      | None => FloatText.PBad
      | Some n =>
          if n =? 0 then FloatText.PFloat (S754_zero false)
          else match SFdiv FloatText.fprec FloatText.femax (S754_finite (n <? 0) (Z.to_pos (Z.abs n)) 0) (S754_finite false (Z.to_pos (b ^ Z.of_nat (length fp))) 0) with
               | S754_infinity _ => FloatText.PBad          (* OverflowError: integer division result too large for a float *)
               | f => FloatText.PFloat f end
      end in
    match split_dots (FloatText.strip s) [] with
    | [ip] => go ip []
    | [ip; fp] => go ip fp
    | _ => FloatText.PBad end.
Definition bi_float (sp:span) (argv:list value) : Comp value :=
  vs <- match_arguments sp argv (orp is_real is_str) [1%nat; 2%nat] ;;
  match vs with
  | VInt n :: rest => check_arity sp (length vs) [1%nat] ;;; match float_of_int n with Some f => Ret (VFloat f) | None => raise c_arith sp (* repaired: host OverflowError *) end
  | VFloat f :: rest => check_arity sp (length vs) [1%nat] ;;; Ret (VFloat f)
  | [VStr s] | [VStr s; VInt 10] =>                       (* float(string): FloatText.parse_float_text, the double nearest to the decimal *)
      match FloatText.parse_float_text s with
      | FloatText.PFloat f => Ret (VFloat f) | FloatText.PBad => raise c_value sp | FloatText.PUnmodelled => raise c_unmodelled sp end
  | [VStr s; VInt b] =>
      match float_in_base s b with
      | FloatText.PFloat f => Ret (VFloat f) | FloatText.PBad => raise c_value sp | FloatText.PUnmodelled => raise c_unmodelled sp end
  | [VStr _; _] => raise c_type sp
  | _ => raise c_unmodelled sp end.

(* ㅂㅅ: complex(real, imag) of CPython - either part may itself be complex:  real - Im(imag)  and  Re(imag) + Im(real) *)
Definition cparts (a:num) : option (spec_float * spec_float * bool) :=
  match a with
  | NI x => match float_of_int x with Some f => Some (f, f_zero, false) | None => None end
  | NF f => Some (f, f_zero, false)
  | NC r i => Some (r, i, true) end.
Definition bi_complex (sp:span) (argv:list value) : Comp value :=
  vs <- match_arguments sp argv (orp is_num is_str) [1%nat; 2%nat] ;;
  if forallb is_num vs then
    let '(a, b) := match nums_of vs with [a] => (a, NF f_zero) | [a; b] => (a, b) | _ => (NI 0, NI 0) end in
    match cparts a, cparts b with
    | Some (ar, ai, ac), Some (br, bi, bc) =>
        Ret (VComplex (if bc then fsub ar bi else ar) (if ac then fadd br ai else br))
    | _, _ => raise c_arith sp end
  else check_type sp vs is_str ;;; check_arity sp (length vs) [1%nat] ;;;
       match vs with
       | [VStr s] =>          (* complex(text with every "i" written "j") - so "inf" and "infinity" in lower case never get through *)
           match FloatText.parse_complex_text (map (fun c => if N.eqb c 105 then 106%N else c) s) with
           | FloatText.CComplex re im => Ret (VComplex re im) | FloatText.CBad => raise c_value sp | FloatText.CUnmodelled => raise c_unmodelled sp end
       | _ => raise c_unmodelled sp end.

(* ---------- string.py ---------- *)
Fixpoint is_prefix (p l:list N) : bool := match p, l with [], _ => true | x :: p', y :: l' => N.eqb x y && is_prefix p' l' | _, [] => false end.
Fixpoint split_on (fuel:nat) (sep l cur:list N) : list (list N) :=          (* Python str.split(sep), sep non-empty *)
  match fuel with O => [rev cur ++ l] | S f =>
    match l with
    | [] => [rev cur]
    | c :: r => if is_prefix sep l then rev cur :: split_on f sep (skipn (length sep) l) [] else split_on f sep r (c :: cur) end end.
Definition bi_split (sp:span) (argv:list value) : Comp value :=
  vs <- match_arguments sp argv (orp is_str is_bytes) [1%nat; 2%nat] ;;
  match vs with
  | VStr s :: rest => check_type sp vs is_str ;;;
      let sep := match rest with [VStr d] => d | _ => [] end in
      Ret (VList (map VStr (match sep with [] => map (fun c => [c]) s | _ => split_on (S (length s)) sep s [] end)))
  | VBytes s :: rest => check_type sp vs is_bytes ;;;
      let sep := match rest with [VBytes d] => d | _ => [] end in
      Ret (VList (map VBytes (match sep with [] => map (fun c => [c]) s | _ => split_on (S (length s)) sep s [] end)))
  | _ => raise c_type sp end.
Fixpoint joinN (sep:list N) (l:list (list N)) : list N := match l with [] => [] | [x] => x | x :: r => x ++ sep ++ joinN sep r end.
Definition bi_join (sp:span) (argv:list value) : Comp value :=
  check_arity sp (length argv) [1%nat; 2%nat] ;;;
  vs <- map_strict argv ;;
  match vs with
  | sq :: rest =>
      check_type sp [sq] is_list ;;;
      match sq with VList l =>
        ps <- map_strict l ;; check_type sp ps (orp is_str is_bytes) ;;;
        match ps with
        | [] => match rest with [VBytes _] => Ret (VBytes []) | [VStr _] | [] => Ret (VStr []) | _ => raise c_type sp end   (* repaired: host IndexError *)
        | VStr _ :: _ => check_type sp ps is_str ;;;
            match rest with
            | [] => Ret (VStr (joinN [] (map (fun v => match v with VStr x => x | _ => [] end) ps)))
            | [VStr d] => Ret (VStr (joinN d (map (fun v => match v with VStr x => x | _ => [] end) ps)))
            | _ => raise c_type sp end
        | _ => check_type sp ps is_bytes ;;;
            match rest with
            | [] => Ret (VBytes (joinN [] (map (fun v => match v with VBytes x => x | _ => [] end) ps)))
            | [VBytes d] => Ret (VBytes (joinN d (map (fun v => match v with VBytes x => x | _ => [] end) ps)))
            | _ => raise c_type sp end
        end
      | _ => raise c_type sp end
  | [] => raise c_value sp end.

(* ---------- module.py: built-in modules only (file import is modelled in World/Import later) ---------- *)
Definition m_bitwise := -21. Definition m_math := 6.
Definition bitwise_dict : value :=
  VDict (map (fun k => (VInt k, VFun (FModule [5; m_bitwise; k]))) [0; 2; 4; 5; 7]).
Fixpoint peek_lits (l:list value) : Comp (option (list Z)) :=
  match l with
  | [] => Ret (Some [])
  | VThunk t :: r => PeekLit t (fun a => match a with Some n => o <- peek_lits r ;; Ret (match o with Some ns => Some (n :: ns) | None => None end) | None => Ret None end)
  | _ :: _ => Ret None end.
(* module._load_from_path: the registered module of that FILE, or - read, parse (exactly one expression), delay it in the EMPTY environment,
   register it, hand the delayed expression back unevaluated (whoever needs it evaluates it, once: it is a delayed expression like any other) *)
Definition empty_env : env := {| funs := []; args := [] |}.
Definition load_from_path (sp:span) (path:list N) : Comp value :=
  World (WLoad sp path) (fun r =>
    match r with
    | VStr text =>
        match Lex.parse_text text with
        | inr (_, psp) => Raise (mkerr c_syntax psp)
        | inl [a] => Alloc a empty_env (fun t => World (WRegister path t) (fun _ => Ret (VThunk t)))
        | inl [] => raise c_value sp
        | inl (a :: _) => Raise (mkerr c_value (ast_span a)) end
    | v => Ret v end).
Definition bi_import (sp:span) (argv:list value) : Comp value :=
  check_min_arity sp (length argv) 1 ;;;
  lits <- peek_lits argv ;;
  match lits with
  | Some (5 :: path) =>
      match path with
      | [5] => Ret (VFun (FModule [5; 5]))
      | [n] => if n =? m_bitwise then Ret bitwise_dict else if n =? m_math then raise c_unmodelled sp else raise c_notfound sp   (* repaired: host KeyError *)
      | [6; 4] => Ret (VFloat (S754_infinity false))
      | [6; 1] => Ret (VFloat S754_nan)
      | [6; 5] => Ret (VFloat (S754_finite false 7074237752028440 (-51)))          (* math.pi *)
      | [6; 7] => Ret (VFloat (S754_finite false 6121026514868073 (-51)))          (* math.e *)
      | [6; -29; k] => if existsb (Z.eqb k) [0;1;2;3;4] then Ret (VFun (FModule [5; 6; -29; k])) else raise c_notfound sp
      | [n; k] => if n =? m_bitwise then (if existsb (Z.eqb k) [0;2;4;5;7] then Ret (VFun (FModule [5; m_bitwise; k])) else raise c_notfound sp)
                  else if n =? m_math then (if existsb (Z.eqb k) [-9; -12; -23] then Ret (VFun (FModule [5; m_math; k])) else raise c_unmodelled sp) else raise c_notfound sp
      | _ => match path with n :: _ => if n =? m_math then raise c_unmodelled sp else raise c_notfound sp | [] => raise c_unmodelled sp end
      end
  | Some ls => World (WFind sp ls) (fun r => match r with VStr p => load_from_path sp p | _ => raise c_unmodelled sp end)
  | None =>
      check_arity sp (length argv) [1%nat] ;;;
      match argv with
      | [a] => v <- force a ;; check_type sp [v] is_str ;;; match v with VStr p => load_from_path sp p | _ => raise c_type sp end
      | _ => raise c_type sp end
  end.

(* ---------- modules: bitwise and the integer codecs ---------- *)
Definition module_body (name:list Z) (sp:span) (argv:list value) : Comp value :=
  match name with
  | [5; 5] =>                                          (* ㅂ ㅂ : codec constructor *)
      check_arity sp (length argv) [2%nat; 3%nat] ;;;
      vs <- map_strict argv ;;
      match vs with
      | sc :: wd :: rest =>
          check_type sp [sc; wd] is_int ;;;
          match sc, wd with
          | VInt s, VInt w =>
              if (0 <=? s) && (s <=? 3) then
                match rest with
                | [] => Fresh (fun i => Ret (VFun (FCodec i s w None)))
                | [b] => check_type sp [b] is_bool ;;; match b with VBool bb => Fresh (fun i => Ret (VFun (FCodec i s w (Some bb)))) | _ => raise c_type sp end
                | _ => raise c_value sp end
              else raise c_value sp                      (* repaired: host IndexError / silent negative wrap *)
          | _, _ => raise c_type sp end
      | _ => raise c_value sp end
  | [5; 6; -29; k] =>
      vs <- match_arguments sp argv is_real [1%nat] ;;
      match vs with
      | [VInt n] => Ret (VInt n)
      | [VFloat f] => match rounding k f with Some n => Ret (VInt n) | None => raise c_arith sp (* repaired: host OverflowError / ValueError *) end
      | _ => raise c_type sp end
  | [5; m; k] =>
      if m =? m_bitwise then
        if k =? 4 then vs <- match_arguments sp argv is_int [1%nat] ;; match vs with [VInt x] => Ret (VInt (Z.lnot x)) | _ => raise c_type sp end
        else vs <- match_arguments sp argv is_int [2%nat] ;;
          match vs with
          | [VInt x; VInt y] =>
              if k =? 0 then Ret (VInt (Z.land x y)) else if k =? 2 then Ret (VInt (Z.lor x y)) else if k =? 5 then Ret (VInt (Z.lxor x y))
              else if k =? 7 then Ret (VInt (if y <? 0 then Z.shiftr x (- y) else Z.shiftl x y)) else raise c_notfound sp
          | _ => raise c_type sp end
      else if m =? m_math then
        (* ㄴㄴ (is NaN), ㅁㄴ (is infinite), ㅈㄷ (absolute value): exact on integers, reals and - for the two tests - complex numbers *)
        vs <- match_arguments sp argv is_num [1%nat] ;;
        match vs with
        | [VInt n] => if k =? -23 then Ret (VInt (Z.abs n)) else match float_of_int n with Some _ => Ret (VBool false) | None => raise c_arith sp end
        | [VFloat f] => if k =? -23 then Ret (VFloat (fabs f)) else if k =? -9 then Ret (VBool (f_nan f)) else Ret (VBool (match f with S754_infinity _ => true | _ => false end))
        | [VComplex r i] => if k =? -23 then raise c_unmodelled sp (* hypot *)
                            else if k =? -9 then Ret (VBool (f_nan r || f_nan i)) else Ret (VBool (match r, i with S754_infinity _, _ | _, S754_infinity _ => true | _, _ => false end))
        | _ => raise c_type sp end
      else raise c_unmodelled sp
  | _ => raise c_unmodelled sp
  end.
Fixpoint le_bytes (w:nat) (n:Z) : list N := match w with O => [] | S k => Z.to_N (n mod 256) :: le_bytes k (n / 256) end.
Fixpoint le_value (l:list N) : Z := match l with [] => 0 | b :: r => Z.of_N b + 256 * le_value r end.
Definition codec_body (scheme width:Z) (big:option bool) (sp:span) (argv:list value) : Comp value :=
  vs <- map_strict argv ;;
  match vs with
  | [a] =>
      if (scheme =? 1) || (scheme =? 2) then
        let signed := scheme =? 2 in
        let bigend := match big with Some true => true | _ => false end in
        check_type sp [a] (orp is_int is_bytes) ;;;
        match a with
        | VInt n =>
            if width <? 0 then raise c_value sp else
            (* representable: 0 <= n < 256^w, resp. -256^w <= 2n < 256^w (so that no bytes hold 0 only - the repaired width-0 case) *)
            if (if signed then (- 256 ^ width <=? 2 * n) && (2 * n <? 256 ^ width) else (0 <=? n) && (n <? 256 ^ width)) then
              let bs := le_bytes (Z.to_nat width) (n mod 256 ^ width) in Ret (VBytes (if bigend then rev bs else bs))
            else raise c_value sp
        | VBytes bs =>
            let l := if bigend then rev bs else bs in
            let v := le_value l in
            let w := Z.of_nat (length bs) in
            Ret (VInt (if signed && (256 ^ w <=? 2 * v) then v - 256 ^ w else v))
        | _ => raise c_type sp end
      else if scheme =? 0 then
        (* strings <-> byte strings: UTF-8 (width 1, no byte order), UTF-16 / UTF-32 (width 2 / 4; without a byte order: a byte-order mark and little-endian
           when encoding, the mark honoured when decoding); any other width or a byte order for UTF-8 names no codec: value error *)
        check_type sp [a] (orp is_str is_bytes) ;;;
        let enc (cs:list Z) : option (list Z) :=
          if width =? 1 then match big with None => Some (Utf.utf8_encode cs) | Some _ => None end
          else if width =? 2 then Some (match big with None => Utf16.utf16_encode_bom cs | Some b => Utf16.utf16_encode b cs end)
          else if width =? 4 then Some (match big with None => Utf16.utf32_encode_bom cs | Some b => Utf16.utf32_encode b cs end)
          else None in
        let dec (bs:list Z) : option (list Z) :=
          if width =? 1 then match big with None => Utf.utf8_decode bs | Some _ => None end
          else if width =? 2 then match big with None => Utf16.utf16_decode_bom bs | Some b => Utf16.utf16_decode b bs end
          else if width =? 4 then match big with None => Utf16.utf32_decode_bom bs | Some b => Utf16.utf32_decode b bs end
          else None in
        match a with
        | VStr s0 => let cs := map Z.of_N s0 in
            if forallb Utf16.scalarb cs then match enc cs with Some bs => Ret (VBytes (map Z.to_N bs)) | None => raise c_value sp end else raise c_value sp
        | VBytes b0 => match dec (map Z.of_N b0) with Some cs => Ret (VStr (map Z.to_N cs)) | None => raise c_value sp end
        | _ => raise c_type sp end
      else if scheme =? 3 then raise c_value sp else raise c_unmodelled sp
  | _ => raise c_value sp end.

Definition builtin (n:Z) : span -> list value -> Comp value :=
  if n =? b_mul then bi_multiply else if n =? b_add then bi_add else if n =? b_div then bi_div else if n =? b_mod then bi_mod
  else if n =? b_eq then bi_eq else if n =? b_not then bi_not else if n =? b_lt then bi_lt
  else if n =? b_true then bi_const true else if n =? b_false then bi_const false
  else if n =? b_dict then bi_dict else if n =? b_list then bi_list else if n =? b_str then bi_string else if n =? b_nil then bi_nil
  else if n =? b_exc then bi_exception else if n =? b_throw then bi_throw else if n =? b_try then bi_try
  else if n =? b_len then bi_len else if n =? b_slice then bi_slice else if n =? b_map then bi_map else if n =? b_filter then bi_filter
  else if n =? b_fold then bi_fold else if n =? b_pipe then bi_pipe else if n =? b_collect then bi_collect else if n =? b_spread then bi_spread
  else if n =? b_input then bi_input else if n =? b_print then bi_print else if n =? b_return then bi_return else if n =? b_bind then bi_bind
  else if n =? b_pow then bi_pow else if n =? b_int then bi_integer else if n =? b_split then bi_split else if n =? b_join then bi_join
  else if n =? b_import then bi_import else if n =? b_floatc then bi_float else if n =? b_complexc then bi_complex else if n =? b_open then bi_open
  else fun sp _ => raise c_notfound sp.
