(* C02 / C04 / C11 - the kinds of values and what each built-in checks its arguments against, REGENERATED from abstract_syntax.py / utils.py / interpret.py /
   builtins/*.py / modules/*.py on every run (Gen/GenKinds.v): the model's predicates ARE the source's unions, and the list of type checks is the audited one *)
From Coq Require Import List Bool.
From Coq Require String.
Import ListNotations. Import String.StringSyntax.
Notation string := String.string (only parsing).
Require Import Base Builtins.
Require GenKinds.
Local Open Scope string_scope.

Definition kind_name (v:value) : string :=
  match v with
  | VInt _ => "Integer" | VFloat _ => "Float" | VComplex _ _ => "Complex" | VBool _ => "Boolean" | VStr _ => "String" | VBytes _ => "Bytes"
  | VList _ => "List" | VDict _ => "Dict" | VFun _ => "Function" | VIO _ => "IO" | VErr _ _ => "ErrorValue" | VNil => "Nil" | VThunk _ => "Expr" end.
Definition is_delayed (v:value) : bool := match v with VThunk _ => true | _ => false end.
Definition in_union (u:list string) (v:value) : bool := existsb (String.eqb (kind_name v)) u.

(* AS.Real, AS.Number, AS.Sequence, AS.Callable as the source defines them today = the predicates the model's built-ins test *)
Theorem real_is_the_source_union v : is_real v = in_union GenKinds.gen_Real v. Proof. destruct v; reflexivity. Qed.
Theorem number_is_the_source_union v : is_num v = in_union GenKinds.gen_Number v. Proof. destruct v; reflexivity. Qed.
Theorem sequence_is_the_source_union v : is_seq v = in_union GenKinds.gen_Sequence v. Proof. destruct v; reflexivity. Qed.
Theorem callable_is_the_source_union v : is_callable v = in_union GenKinds.gen_Callable v. Proof. destruct v; reflexivity. Qed.
(* every kind of value the model has is a strict value of the source, except the delayed expression; actions are the one strict kind that is no NonIOStrictValue *)
Theorem strict_is_the_source_union v : in_union GenKinds.gen_StrictValue v = negb (is_delayed v). Proof. destruct v; reflexivity. Qed.
Theorem non_io_is_the_source_union v : in_union GenKinds.gen_NonIOStrictValue v = negb (is_delayed v) && negb (is_io v). Proof. destruct v; reflexivity. Qed.

(* the classes of function objects, and EVERY type expression a built-in hands to check_type / match_arguments / is_type, in source order: what was
   audited when the model's built-ins were written.  A built-in that starts accepting or refusing another kind changes this list. *)
Definition audited_function_classes : list string := ["abstract_syntax.py:Closure"; "builtins/functional.py:Pipe"; "builtins/functional.py:Collect"; "builtins/functional.py:Spread"; "builtins/io.py:File"; "builtins/module.py:BuiltinModule"; "modules/byte.py:Codec"].
Definition audited_type_checks : list (string * string * string) := [("utils.py", "strict_functional", "Callable");
  ("utils.py", "check_type", "types");
  ("utils.py", "match_arguments", "types");
  ("interpret.py", "interpret", "Integer");
  ("interpret.py", "proc_functional", "allow");
  ("interpret.py", "proc_functional._proc_complex", "Integer");
  ("interpret.py", "proc_functional._proc_seq", "Integer");
  ("builtins/arithmetics.py", "build_tbl._all", "Boolean");
  ("builtins/arithmetics.py", "build_tbl._multiply", "Number | Boolean");
  ("builtins/arithmetics.py", "build_tbl._multiply", "Number");
  ("builtins/arithmetics.py", "build_tbl._any", "Boolean");
  ("builtins/arithmetics.py", "build_tbl._add", "Number | Boolean | Sequence | Dict");
  ("builtins/arithmetics.py", "build_tbl._add", "List");
  ("builtins/arithmetics.py", "build_tbl._add", "String");
  ("builtins/arithmetics.py", "build_tbl._add", "Bytes");
  ("builtins/arithmetics.py", "build_tbl._add", "Dict");
  ("builtins/arithmetics.py", "build_tbl._add", "Number");
  ("builtins/arithmetics.py", "build_tbl._exponentiate", "Number");
  ("builtins/arithmetics.py", "build_tbl._exponentiate", "Integer");
  ("builtins/arithmetics.py", "build_tbl._integer_division", "Real");
  ("builtins/arithmetics.py", "build_tbl._remainder", "Real");
  ("builtins/arithmetics.py", "build_tbl._remainder", "Integer");
  ("builtins/constructors.py", "_parse_str_to_number", "String");
  ("builtins/constructors.py", "_parse_str_to_number", "Integer");
  ("builtins/constructors.py", "build_tbl._string", "Number | String");
  ("builtins/constructors.py", "build_tbl._string", "Real");
  ("builtins/constructors.py", "build_tbl._string", "Complex");
  ("builtins/constructors.py", "build_tbl._integer", "Real | String");
  ("builtins/constructors.py", "build_tbl._integer", "Real");
  ("builtins/constructors.py", "build_tbl._float", "Real | String");
  ("builtins/constructors.py", "build_tbl._float", "Real");
  ("builtins/constructors.py", "build_tbl._complex", "Number | String");
  ("builtins/constructors.py", "build_tbl._complex", "Number");
  ("builtins/constructors.py", "build_tbl._complex", "String");
  ("builtins/control.py", "build_tbl._throw", "ErrorValue");
  ("builtins/functional.py", "Collect.__call__", "List | ErrorValue");
  ("builtins/io.py", "File.__call__", "Integer");
  ("builtins/io.py", "File._read", "Integer");
  ("builtins/io.py", "File._write", "Bytes");
  ("builtins/io.py", "File._seek_or_tell", "Integer");
  ("builtins/io.py", "File._seek_or_tell", "Integer");
  ("builtins/io.py", "File._truncate", "Integer");
  ("builtins/io.py", "_print", "String");
  ("builtins/io.py", "_file", "Integer | String");
  ("builtins/io.py", "_file", "Integer");
  ("builtins/io.py", "build_tbl._bind", "IO");
  ("builtins/io.py", "build_tbl._bind._fn", "IO");
  ("builtins/io.py", "build_tbl._bind._fn", "IO");
  ("builtins/logic.py", "build_tbl._negate", "Boolean");
  ("builtins/logic.py", "build_tbl._less_than", "Real");
  ("builtins/module.py", "build_tbl._import", "String");
  ("builtins/sequence.py", "build_tbl._len", "Sequence | ErrorValue");
  ("builtins/sequence.py", "build_tbl._slice", "Sequence");
  ("builtins/sequence.py", "build_tbl._slice", "Integer");
  ("builtins/sequence.py", "build_tbl._map", "List");
  ("builtins/sequence.py", "build_tbl._filter", "List");
  ("builtins/sequence.py", "build_tbl._filter", "Boolean");
  ("builtins/sequence.py", "build_tbl._fold", "List");
  ("builtins/sequence.py", "build_tbl._fold", "List");
  ("builtins/string.py", "build_tbl._split", "String | Bytes");
  ("builtins/string.py", "build_tbl._split", "String");
  ("builtins/string.py", "build_tbl._split", "Bytes");
  ("builtins/string.py", "build_tbl._join", "List");
  ("builtins/string.py", "build_tbl._join", "String | Bytes");
  ("builtins/string.py", "build_tbl._join", "String | Bytes");
  ("builtins/string.py", "build_tbl._join", "String");
  ("builtins/string.py", "build_tbl._join", "String");
  ("builtins/string.py", "build_tbl._join", "Bytes");
  ("builtins/string.py", "build_tbl._join", "Bytes");
  ("modules/bitwise.py", "build_tbl._wrap._proc", "Integer");
  ("modules/bitwise.py", "build_tbl", "-");
  ("modules/bitwise.py", "build_tbl", "-");
  ("modules/bitwise.py", "build_tbl", "-");
  ("modules/bitwise.py", "build_tbl", "-");
  ("modules/bitwise.py", "build_tbl", "-");
  ("modules/byte.py", "Codec.__init__", "Integer");
  ("modules/byte.py", "Codec.__init__", "Boolean");
  ("modules/byte.py", "Codec._unicode_codec", "String | Bytes");
  ("modules/byte.py", "Codec._integer_codec", "Integer | Bytes");
  ("modules/math.py", "build_tbl._wrap._proc", "arg_type");
  ("modules/math.py", "build_tbl._wrap2._proc", "Number");
  ("modules/math.py", "build_tbl", "Real");
  ("modules/math.py", "build_tbl", "Number");
  ("modules/math.py", "build_tbl", "Number");
  ("modules/math.py", "build_tbl", "Number");
  ("modules/math.py", "build_tbl", "Number");
  ("modules/math.py", "build_tbl", "Real");
  ("modules/math.py", "build_tbl", "Real");
  ("modules/math.py", "build_tbl", "Real");
  ("modules/math.py", "build_tbl", "Real");
  ("modules/math.py", "build_tbl", "Real")].
Theorem function_classes_audited : GenKinds.gen_function_classes = audited_function_classes. Proof. reflexivity. Qed.
Theorem type_checks_audited : GenKinds.gen_type_checks = audited_type_checks. Proof. reflexivity. Qed.
(* ... and every arity / arity list handed to check_arity / check_min_arity / check_max_arity / match_arguments / match_defaults, in source order:
   the arities the model's built-ins check were written against this list *)
Definition audited_arity_checks : list (string * string * string) := [("utils.py", "match_arguments", "check_arity arities");
  ("utils.py", "match_arguments", "check_min_arity min_arity");
  ("utils.py", "match_arguments", "check_max_arity max_arity");
  ("utils.py", "match_defaults", "check_max_arity arity");
  ("utils.py", "match_defaults", "check_min_arity arity - len(defaults)");
  ("interpret.py", "proc_functional._proc_boolean", "check_arity 2");
  ("interpret.py", "proc_functional._proc_dict", "check_arity 1");
  ("interpret.py", "proc_functional._proc_complex", "match_arguments 1");
  ("interpret.py", "proc_functional._proc_seq", "match_arguments 1");
  ("builtins/arithmetics.py", "build_tbl._multiply", "check_min_arity 1");
  ("builtins/arithmetics.py", "build_tbl._add", "check_min_arity 1");
  ("builtins/arithmetics.py", "build_tbl._exponentiate", "match_arguments [2, 3]");
  ("builtins/arithmetics.py", "build_tbl._integer_division", "match_arguments 2");
  ("builtins/arithmetics.py", "build_tbl._remainder", "match_arguments 2");
  ("builtins/constructors.py", "_parse_str_to_number", "match_defaults 2");
  ("builtins/constructors.py", "build_tbl._string", "match_arguments [0, 1]");
  ("builtins/constructors.py", "build_tbl._integer", "match_arguments [1, 2]");
  ("builtins/constructors.py", "build_tbl._integer", "check_arity 1");
  ("builtins/constructors.py", "build_tbl._float", "match_arguments [1, 2]");
  ("builtins/constructors.py", "build_tbl._float", "check_arity 1");
  ("builtins/constructors.py", "build_tbl._float", "match_defaults 2");
  ("builtins/constructors.py", "build_tbl._complex", "match_arguments [1, 2]");
  ("builtins/constructors.py", "build_tbl._complex", "match_defaults 2");
  ("builtins/constructors.py", "build_tbl._complex", "check_arity 1");
  ("builtins/constructors.py", "build_tbl._nil", "check_arity 0");
  ("builtins/control.py", "build_tbl._throw", "check_arity 1");
  ("builtins/control.py", "build_tbl._try", "check_arity 2");
  ("builtins/functional.py", "Pipe.__call__", "check_min_arity 1");
  ("builtins/functional.py", "Collect.__call__", "match_arguments 1");
  ("builtins/functional.py", "build_tbl._collect", "check_arity 1");
  ("builtins/functional.py", "build_tbl._spread", "check_arity 1");
  ("builtins/io.py", "File.__call__", "check_min_arity 1");
  ("builtins/io.py", "File._close", "check_arity 1");
  ("builtins/io.py", "File._read", "check_arity 2");
  ("builtins/io.py", "File._write", "check_arity 2");
  ("builtins/io.py", "File._seek_or_tell", "check_max_arity 3");
  ("builtins/io.py", "_input", "check_arity 0");
  ("builtins/io.py", "_print", "check_arity 1");
  ("builtins/io.py", "_return", "check_arity 1");
  ("builtins/io.py", "_file", "check_arity 2");
  ("builtins/io.py", "build_tbl._bind", "check_arity [2, 3]");
  ("builtins/logic.py", "build_tbl._negate", "match_arguments 1");
  ("builtins/logic.py", "build_tbl._less_than", "match_arguments 2");
  ("builtins/logic.py", "build_tbl._true", "check_arity 0");
  ("builtins/logic.py", "build_tbl._false", "check_arity 0");
  ("builtins/module.py", "build_tbl._import", "check_min_arity 1");
  ("builtins/module.py", "build_tbl._import", "check_arity 1");
  ("builtins/sequence.py", "build_tbl._len", "match_arguments 1");
  ("builtins/sequence.py", "build_tbl._slice", "check_arity [2, 3, 4]");
  ("builtins/sequence.py", "build_tbl._slice", "match_defaults 3");
  ("builtins/sequence.py", "build_tbl._map", "check_arity 2");
  ("builtins/sequence.py", "build_tbl._filter", "check_arity 2");
  ("builtins/sequence.py", "build_tbl._fold", "check_arity [2, 3]");
  ("builtins/string.py", "build_tbl._split", "match_arguments [1, 2]");
  ("builtins/string.py", "build_tbl._split", "match_defaults 2");
  ("builtins/string.py", "build_tbl._split", "match_defaults 2");
  ("builtins/string.py", "build_tbl._join", "check_arity [1, 2]");
  ("modules/bitwise.py", "build_tbl._wrap._proc", "match_arguments arity");
  ("modules/byte.py", "build_tbl._codec", "check_arity [2, 3]");
  ("modules/math.py", "build_tbl._wrap._proc", "match_arguments arity");
  ("modules/math.py", "build_tbl._wrap2._proc", "match_arguments 1")].
Theorem arity_checks_audited : GenKinds.gen_arity_checks = audited_arity_checks. Proof. reflexivity. Qed.
