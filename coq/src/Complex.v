(* Complex numbers in the model: the numeric tower widens integer -> real -> complex exactly when an operand is wider (C11), equality across the
   three kinds is equality of the (real, imaginary) pair with integers and reals having imaginary part zero (C06), the constructor ㅂㅅ. *)
From Coq Require Import ZArith NArith List Bool Lia SpecFloat.
Import ListNotations.
Require Import Base Float Builtins Eq.
Open Scope Z_scope.

(* ---------- the tower: rank of a result = the widest operand ---------- *)
Definition rank (a:num) : nat := match a with NI _ => 0 | NF _ => 1 | NC _ _ => 2 end%nat.
Definition widest (l:list num) (r0:nat) : nat := fold_left Nat.max (map rank l) r0.
Lemma add_num_rank a b v : add_num a b = Some v -> rank v = Nat.max (rank a) (rank b).
Proof.
  destruct a as [x|x|xr xi], b as [y|y|yr yi]; intros H; cbv [add_num c_add to_c] in H;
    repeat match type of H with context [match float_of_int ?n with _ => _ end] => destruct (float_of_int n) end;
    inversion H; reflexivity.
Qed.
Lemma mul_num_rank a b v : mul_num a b = Some v -> rank v = Nat.max (rank a) (rank b).
Proof.
  destruct a as [x|x|xr xi], b as [y|y|yr yi]; intros H; cbv [mul_num c_mul to_c] in H;
    repeat match type of H with context [match float_of_int ?n with _ => _ end] => destruct (float_of_int n) end;
    inversion H; reflexivity.
Qed.
Lemma sum_any_rank : forall l acc v, sum_any acc l = Some v -> rank v = widest l (rank acc).
Proof.
  induction l as [|x l IH]; intros acc v H; cbn [sum_any] in H; [inversion H; reflexivity|].
  destruct (add_num acc x) as [a|] eqn:A; [|discriminate]. rewrite (IH _ _ H). unfold widest. cbn [map fold_left]. rewrite (add_num_rank _ _ _ A). reflexivity.
Qed.
Lemma widest_ge : forall l r, (r <= widest l r)%nat.
Proof. induction l as [|x l IH]; intros r; unfold widest in *; cbn [map fold_left]; [lia|]. specialize (IH (Nat.max r (rank x))). lia. Qed.
Lemma widest_max : forall l a b, widest l (Nat.max a b) = Nat.max a (widest l b).
Proof. induction l as [|x l IH]; intros a b; unfold widest in *; cbn [map fold_left]; [reflexivity|]. rewrite <- Nat.max_assoc. apply IH. Qed.
Lemma sum_float_rank : forall l f c v, sum_float f c l = Some v -> rank v = widest l 1%nat.
Proof.
  induction l as [|x l IH]; intros f c v H; cbn [sum_float] in H; [inversion H; reflexivity|].
  destruct x as [n|x|xr xi].
  - destruct (fits_long n).
    + rewrite (IH _ _ _ H). unfold widest. reflexivity.
    + rewrite (sum_any_rank _ _ _ H). reflexivity.
  - rewrite (IH _ _ _ H). unfold widest. reflexivity.
  - rewrite (sum_any_rank _ _ _ H). reflexivity.
Qed.
(* the sum of any list of numbers is of the widest kind among its operands - an integer when all are integers, complex only when one is *)
Theorem sum_widens_only_when_needed : forall l s v, py_sum s l = Some v -> rank v = widest l 0%nat.
Proof.
  induction l as [|x l IH]; intros s v H; cbn [py_sum] in H; [inversion H; reflexivity|].
  destruct x as [n|x|xr xi].
  - destruct (fits_long n && fits_long (s + n)).
    + rewrite (IH _ _ H). reflexivity.
    + rewrite (sum_any_rank _ _ _ H). reflexivity.
  - destruct (float_of_int s); [|discriminate]. rewrite (sum_float_rank _ _ _ _ H). reflexivity.
  - rewrite (sum_any_rank _ _ _ H). reflexivity.
Qed.
Theorem product_widens_only_when_needed : forall l acc v, py_prod acc l = Some v -> rank v = widest l (rank acc).
Proof.
  induction l as [|x l IH]; intros acc v H; cbn [py_prod] in H; [inversion H; reflexivity|].
  destruct (mul_num acc x) as [a|] eqn:A; [|discriminate]. rewrite (IH _ _ H). unfold widest. cbn [map fold_left]. rewrite (mul_num_rank _ _ _ A). reflexivity.
Qed.
(* complex arithmetic itself: component-wise sum, the four-product rule *)
Theorem complex_add ar ai br bi : add_num (NC ar ai) (NC br bi) = Some (NC (fadd ar br) (fadd ai bi)). Proof. reflexivity. Qed.
Theorem complex_mul ar ai br bi : mul_num (NC ar ai) (NC br bi) = Some (NC (fsub (fmul ar br) (fmul ai bi)) (fadd (fmul ar bi) (fmul ai br))). Proof. reflexivity. Qed.
Theorem real_joins_complex_as_x_plus_0i x br bi : add_num (NF x) (NC br bi) = Some (NC (fadd x br) (fadd f_zero bi)). Proof. reflexivity. Qed.

(* ---------- equality across the tower ---------- *)
Theorem complex_eq_componentwise r i r' i' :
  num_eq (VComplex r i) (VComplex r' i') = num_eq (VFloat r) (VFloat r') && num_eq (VFloat i) (VFloat i').
Proof. rewrite !(num_eq_real (VFloat _) (VFloat _)) by reflexivity. reflexivity. Qed.
(* a complex number equals an integer or a real exactly when its imaginary part is zero and its real part equals it *)
Theorem complex_eq_real r i x : is_real x = true ->
  num_eq (VComplex r i) x = num_eq (VFloat r) x && f_is_zero i.
Proof.
  intros R. rewrite (num_eq_real (VFloat r) x) by (auto). unfold num_eq. destruct x; try discriminate R; cbn [ckey fst snd]; f_equal;
    destruct i; try reflexivity; cbn [nkey]; destruct (pstrip m); reflexivity.
Qed.
Theorem complex_never_equals_other_kinds r i b : numeric b = false -> veqb (VComplex r i) b = false /\ veqb b (VComplex r i) = false.
Proof. intros N. split; [rewrite veqb_num by reflexivity|rewrite veqb_num_r by reflexivity]; [apply num_eq_nonnum_r|apply num_eq_nonnum_l]; exact N. Qed.

(* ---------- the constructor ㅂㅅ on two reals, and its printed form ---------- *)
Example complex_prints :
  show_complex (f_of_Z 3) (f_of_Z (-1)) = [51; 45; 105]%N                                   (* 3-i *)
  /\ show_complex (S754_zero false) (f_of_Z 2) = [50; 105]%N                                (* 2i *)
  /\ show_complex (f_of_Z 1) (S754_zero true) = [49; 43; 48; 105]%N                          (* 1+0i *)
  /\ show_complex (fdiv (f_of_Z 1) (f_of_Z 2)) (f_of_Z 1) = [48; 46; 53; 43; 105]%N.                 (* 0.5+i *)
Proof. repeat split; vm_compute; reflexivity. Qed.
Print Assumptions sum_widens_only_when_needed. Print Assumptions complex_eq_real. Print Assumptions product_widens_only_when_needed.
