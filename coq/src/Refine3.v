(* DRAFT proofs: machine implements spec WITH STACK BOUND - part 3: the Comp-level lemma B from A and C *)
From Coq Require Import ZArith NArith List Bool FMapPositive Lia.
Import ListNotations.
Require Import Base Strings Builtins Interp Machine Spec HeapFacts Refine1 Refine2.

Ltac bnd := cbn [length]; lia.

Lemma goodB_cont ip h w c h1 w1 c1 h' w' r d :
  (forall tid ks, frame_step h w (Fr tid c ks) = FCont (Fr tid c1 ks) h1 w1) ->
  (forall q, Iq q h ip -> Iq q h1 ip) ->
  goodB ip h1 w1 c1 h' w' r d -> goodB ip h w c h' w' r d.
Proof.
  intros Hs Ht G q tid ks rest HIq. destruct (G q tid ks rest (Ht _ HIq)) as (q' & R & I' & L').
  exists q'. split; [|split]; auto. eapply reach_step; [bnd|apply step_cont; apply Hs|exact R].
Qed.
Lemma goodB_refl ip h w r d : goodB ip h w (retc r) h w r d.
Proof. intros q tid ks rest HIq. exists q. split; [apply reach_refl; bnd|split; auto]. Qed.
Lemma goodB_done ip h w c r d :
  (forall tid ks, frame_step h w (Fr tid c ks) = FCont (Fr tid (retc r) ks) h w) -> goodB ip h w c h w r d.
Proof. intros Hs. eapply goodB_cont; eauto. apply goodB_refl. Qed.

Definition eerr : error := {| e_spans := []; e_vals := [] |}.

(* sequencing two segments of a frame's execution *)
Lemma goodB_seq ip h w c h1 w1 c1 h' w' r d1 d2 :
  (forall q tid ks rest, Iq q h ip -> exists q1,
      reach (S (length rest) + d1) h q (Fr tid c ks :: rest) w h1 q1 (Fr tid c1 ks :: rest) w1
      /\ Iq q1 h1 ip /\ (forall x, In x ip -> rlook q1 x = rlook q x)) ->
  goodB ip h1 w1 c1 h' w' r d2 -> goodB ip h w c h' w' r (Nat.max d1 d2).
Proof.
  intros S1 G q tid ks rest HIq. destruct (S1 q tid ks rest HIq) as (q1 & R1 & HI1 & Hl1).
  destruct (G q1 tid ks rest HI1) as (q' & R' & HI' & Hl'). exists q'. split; [|split; auto].
  - eapply reach_trans; [eapply reach_weaken; [|exact R1]|eapply reach_weaken; [|exact R']]; lia.
  - intros x Hx. rewrite Hl' by auto. auto.
Qed.
Lemma seg_done ip h w c h1 w1 r d1 :
  (forall q tid ks rest, Iq q h ip -> exists q1,
      reach (S (length rest) + d1) h q (Fr tid c ks :: rest) w h1 q1 (Fr tid (retc r) ks :: rest) w1
      /\ Iq q1 h1 ip /\ (forall x, In x ip -> rlook q1 x = rlook q x)) ->
  goodB ip h w c h1 w1 r d1.
Proof. intros S1. exact S1. Qed.

Lemma A_C_B n : stmtA n -> stmtC n -> stmtB n.
Proof.
  intros HA HC c.
  induction c as [v|e|v k IH|a e k IH|b e k IH|f k IH|f av k IH|k IH|t k IH|p k IH|c1 hd k IHc IHh IHk|op k IH] using comp_value_ind;
    intros ip h w h' w' r D Hr Hinv; cbn [run] in Hr.
  - inversion Hr; subst. split; [apply (goodB_refl ip h' w' (inl v))|split; auto using hle_refl].
  - inversion Hr; subst. split; [apply (goodB_refl ip h' w' (inr e))|split; auto using hle_refl].
  - (* Force *)
    destruct v as [z|fl|b|s|s|l|d|f|i|sp l| |u|cr ci];
      try (destruct (IH _ _ _ _ _ _ _ _ Hr Hinv) as (G & L & I); split; [|split; auto];
           eapply goodB_cont; [intros; reflexivity|auto|exact G]).
    destruct (get h u) as [cl|] eqn:Gu.
    2:{ inversion Hr; subst. split; [|split; auto using hle_refl].
        apply (goodB_done ip h' w' _ (inr eerr)). intros; cbn [frame_step Fr fr_comp]. rewrite Gu. reflexivity. }
    destruct (c_cache cl) as [[sv|e]|] eqn:Cu.
    + destruct (IH _ _ _ _ _ _ _ _ Hr Hinv) as (G & L & I); split; [|split; auto].
      eapply goodB_cont; [intros; cbn [frame_step Fr fr_comp]; rewrite Gu, Cu; reflexivity|auto|exact G].
    + inversion Hr; subst. split; [|split; auto using hle_refl].
      apply (goodB_done ip h' w' _ (inr e)). intros; cbn [frame_step Fr fr_comp]. rewrite Gu, Cu. reflexivity.
    + destruct (existsb (Pos.eqb u) ip) eqn:Ex; [discriminate|].
      destruct (bs n ip h w (TThunk u)) as [h1 w1 r1 d1| |] eqn:Hb; try discriminate.
      assert (Hun : uncached h u) by (exists cl; auto).
      destruct (HA _ _ _ _ _ _ _ _ Hb Hun (existsb_false_notin _ _ Ex) Hinv) as (GA & L1 & I1 & C1 & S1).
      assert (Push : forall q tid ks rest, Iq q h ip -> exists q1,
                reach (S (length rest) + (1 + d1)) h q (Fr tid (Force (VThunk u) k) ks :: rest) w h1 q1 (deliver_res (Fr tid (Force (VThunk u) k) ks) r1 :: rest) w1
                /\ Iq q1 h1 ip /\ (forall x, In x ip -> rlook q1 x = rlook q x)).
      { intros q tid ks rest HIq.
        assert (Hq0 : rlook q u = None).
        { destruct (rlook q u) eqn:Lq; auto. destruct (HIq _ _ Lq) as [(c' & r' & G' & C')|Hin].
          - rewrite Gu in G'. inversion G'; subst. congruence.
          - exfalso. eapply existsb_false_notin; eauto. }
        destruct (GA q (Fr tid (Force (VThunk u) k) ks) rest [] (ch_nil _ _ Hq0)) as (q1 & R1 & HI1 & Hl1).
        { constructor; [intros []|constructor]. } { intros x []. }
        { intros a0 b0 L0. destruct (HIq _ _ L0); auto. right; right; auto. }
        exists q1. split; [|split; auto]. cbn [set_caches] in R1.
        eapply reach_step; [bnd| |eapply reach_weaken; [|exact R1]; lia].
        intros d0. eexists. unfold stepn, step_with, mk; cbn [m_stack m_heap m_world m_dbg m_req].
        cbn [frame_step Fr fr_comp]. rewrite Gu, Cu. reflexivity. }
      destruct r1 as [sv|e].
      * apply updd_inv in Hr. destruct Hr as (d2 & Hr & ->).
        destruct (IH _ _ _ _ _ _ _ _ Hr I1) as (G & L & I). split; [|split; auto]. 2:{ eapply hle_trans; eauto. }
        eapply goodB_seq; [exact Push|exact G].
      * inversion Hr; subst. split; [|split; auto]. apply seg_done. exact Push.
  - (* Alloc *)
    destruct (alloc h a e) as [h1 x] eqn:Al. assert (E1 : h1 = fst (alloc h a e)) by (rewrite Al; auto).
    destruct Hinv as (W & Sx & Ix).
    assert (Hinv1 : inv h1 ip) by (subst h1; apply inv_alloc; repeat split; auto).
    destruct (IH _ _ _ _ _ _ _ _ Hr Hinv1) as (G & L & I). split; [|split; auto].
    + eapply goodB_cont; [intros; cbn [frame_step Fr fr_comp]; rewrite Al; reflexivity| |exact G].
      intros q HIq. subst h1. eapply Iq_mono; eauto. apply hle_alloc; auto.
    + eapply hle_trans; [|exact L]. subst h1. apply hle_alloc; auto.
  - (* NewClo *)
    destruct (newclo h b e) as [h1 x] eqn:Al. assert (E1 : h1 = fst (newclo h b e)) by (rewrite Al; auto).
    assert (Hinv1 : inv h1 ip) by (subst h1; apply inv_newclo; auto).
    destruct (IH _ _ _ _ _ _ _ _ Hr Hinv1) as (G & L & I). split; [|split; auto].
    + eapply goodB_cont; [intros; cbn [frame_step Fr fr_comp]; rewrite Al; reflexivity| |exact G].
      intros q HIq. subst h1. eapply Iq_same_cells; eauto; intros; reflexivity.
    + eapply hle_trans; [|exact L]. subst h1. apply hle_newclo.
  - (* CloDepth *)
    destruct (PositiveMap.find f (clos h)) as [cl|] eqn:Fc.
    + destruct (IH _ _ _ _ _ _ _ _ Hr Hinv) as (G & L & I); split; [|split; auto].
      eapply goodB_cont; [intros; cbn [frame_step Fr fr_comp]; rewrite Fc; reflexivity|auto|exact G].
    + inversion Hr; subst. split; [|split; auto using hle_refl].
      apply (goodB_done ip h' w' _ (inr eerr)). intros; cbn [frame_step Fr fr_comp]. rewrite Fc. reflexivity.
  - (* AllocBody *)
    destruct (alloc_body h f av) as [[h1 x]|] eqn:Ab.
    + destruct (alloc_body_spec _ _ _ _ _ Ab) as (cl & Fc & E1 & Ex).
      destruct Hinv as (W & Sx & Ix).
      assert (Hinv1 : inv h1 ip) by (subst h1; apply inv_alloc; repeat split; auto).
      destruct (IH _ _ _ _ _ _ _ _ Hr Hinv1) as (G & L & I). split; [|split; auto].
      * eapply goodB_cont; [intros; cbn [frame_step Fr fr_comp]; rewrite Ab; reflexivity| |exact G].
        intros q HIq. subst h1. eapply Iq_mono; eauto. apply hle_alloc; auto.
      * eapply hle_trans; [|exact L]. subst h1. apply hle_alloc; auto.
    + inversion Hr; subst. split; [|split; auto using hle_refl].
      apply (goodB_done ip h' w' _ (inr eerr)). intros; cbn [frame_step Fr fr_comp]. rewrite Ab. reflexivity.
  - (* Fresh *)
    destruct (fresh h) as [h1 x] eqn:Al. assert (E1 : h1 = fst (fresh h)) by (rewrite Al; auto).
    assert (Hinv1 : inv h1 ip) by (subst h1; apply inv_fresh; auto).
    destruct (IH _ _ _ _ _ _ _ _ Hr Hinv1) as (G & L & I). split; [|split; auto].
    + eapply goodB_cont; [intros; cbn [frame_step Fr fr_comp]; rewrite Al; reflexivity| |exact G].
      intros q HIq. subst h1. eapply Iq_same_cells; eauto; intros; reflexivity.
    + eapply hle_trans; [|exact L]. subst h1. apply hle_fresh.
  - (* PeekLit *)
    destruct (get h t) as [cl|] eqn:Gt.
    + assert (Hinv1 : inv (set_peeked h t) ip) by (apply inv_peek; auto).
      destruct (IH _ _ _ _ _ _ _ _ Hr Hinv1) as (G & L & I); split; [|split; auto].
      * eapply goodB_cont; [intros; cbn [frame_step Fr fr_comp]; rewrite Gt; reflexivity| |exact G].
        intros q HIq. eapply Iq_mono; eauto. apply hle_peek.
      * eapply hle_trans; [apply hle_peek|exact L].
    + inversion Hr; subst. split; [|split; auto using hle_refl].
      apply (goodB_done ip h' w' _ (inr eerr)). intros; cbn [frame_step Fr fr_comp]. rewrite Gt. reflexivity.
  - (* Call *)
    destruct (bs n ip h w (TComp (proc_body p))) as [h1 w1 r1 d1| |] eqn:Hb; try discriminate.
    destruct (HC _ _ _ _ _ _ _ _ Hb Hinv) as (GC & L1 & I1).
    assert (Body : forall q tid ks rest, Iq q h ip -> exists q1,
              reach (S (length rest) + (0 + d1)) h q (Fr tid (Call p k) ks :: rest) w h1 q1 (Fr tid (match r1 with inl v => k v | inr e => Raise e end) ks :: rest) w1
              /\ Iq q1 h1 ip /\ (forall x, In x ip -> rlook q1 x = rlook q x)).
    { intros q tid ks rest HIq. destruct (GC q tid (KThen k :: ks) rest HIq) as (q1 & R1 & HI1 & Hl1).
      exists q1. split; [|split; auto].
      eapply reach_step; [bnd|apply step_cont; reflexivity|]. eapply reach_trans; [eapply reach_weaken; [|exact R1]; lia|].
      eapply reach_step; [bnd|apply step_cont|apply reach_refl; bnd]. destruct r1; reflexivity. }
    destruct r1 as [sv|e].
    + apply updd_inv in Hr. destruct Hr as (d2 & Hr & ->).
      destruct (IH _ _ _ _ _ _ _ _ Hr I1) as (G & L & I). split; [|split; auto]. 2:{ eapply hle_trans; eauto. }
      eapply goodB_seq; [exact Body|exact G].
    + inversion Hr; subst. split; [|split; auto]. apply seg_done. exact Body.
  - (* Catch *)
    destruct (run (bs n) ip h w c1) as [h1 w1 r1 d1| |] eqn:Hr1; try discriminate.
    destruct (IHc _ _ _ _ _ _ _ Hr1 Hinv) as (G1 & L1 & I1).
    destruct r1 as [sv|e].
    + apply updd_inv in Hr. destruct Hr as (d2 & Hr & ->).
      destruct (IHk _ _ _ _ _ _ _ _ Hr I1) as (G & L & I). split; [|split; auto]. 2:{ eapply hle_trans; eauto. }
      eapply goodB_seq; [|exact G].
      intros q tid ks rest HIq. destruct (G1 q tid (KCatch hd k :: ks) rest HIq) as (q1 & R1 & HI1 & Hl1).
      exists q1. split; [|split; auto].
      eapply reach_step; [bnd|apply step_cont; reflexivity|]. eapply reach_trans; [exact R1|].
      eapply reach_step; [bnd|apply step_cont; reflexivity|apply reach_refl; bnd].
    + destruct (unmodelled e) eqn:Um.
      { inversion Hr; subst. split; [|split; auto]. apply seg_done.
        intros q tid ks rest HIq. destruct (G1 q tid (KCatch hd k :: ks) rest HIq) as (q1 & R1 & HI1 & Hl1).
        exists q1. split; [|split; auto].
        eapply reach_step; [bnd|apply step_cont; reflexivity|]. eapply reach_trans; [exact R1|].
        eapply reach_step; [bnd|apply step_cont|apply reach_refl; bnd]. cbn [frame_step Fr fr_comp fr_konts retc]. rewrite Um. reflexivity. }
      apply updd_inv in Hr. destruct Hr as (d3 & Hr & ->).
      destruct (run (bs n) ip h1 w1 (hd e)) as [h2 w2 r2 d2| |] eqn:Hr2; try discriminate.
      destruct (IHh _ _ _ _ _ _ _ _ Hr2 I1) as (G2 & L2 & I2).
      assert (Handled : forall q tid ks rest, Iq q h ip -> exists q2,
                reach (S (length rest) + Nat.max d1 (0 + d2)) h q (Fr tid (Catch c1 hd k) ks :: rest) w h2 q2 (Fr tid (match r2 with inl v => k v | inr e2 => Raise e2 end) ks :: rest) w2
                /\ Iq q2 h2 ip /\ (forall x, In x ip -> rlook q2 x = rlook q x)).
      { intros q tid ks rest HIq. destruct (G1 q tid (KCatch hd k :: ks) rest HIq) as (q1 & R1 & HI1 & Hl1).
        destruct (G2 q1 tid (KThen k :: ks) rest HI1) as (q2 & R2 & HI2 & Hl2). exists q2. split; [|split; auto].
        - eapply reach_step; [bnd|apply step_cont; reflexivity|]. eapply reach_trans; [eapply reach_weaken; [|exact R1]; lia|].
          eapply reach_step; [bnd|apply step_cont; cbn [frame_step Fr fr_comp fr_konts retc]; rewrite Um; reflexivity|].
          eapply reach_trans; [eapply reach_weaken; [|exact R2]; lia|].
          eapply reach_step; [bnd|apply step_cont|apply reach_refl; bnd]. destruct r2; reflexivity.
        - intros x Hx. rewrite Hl2 by auto. auto. }
      destruct r2 as [sv|e2].
      * apply updd_inv in Hr. destruct Hr as (d4 & Hr & ->).
        destruct (IHk _ _ _ _ _ _ _ _ Hr I2) as (G & L & I). split; [|split; auto]. 2:{ eapply hle_trans; [exact L1|]. eapply hle_trans; eauto. }
        eapply goodB_weaken; [|eapply goodB_seq; [exact Handled|exact G]]. lia.
      * inversion Hr; subst. split; [|split; auto]. 2:{ eapply hle_trans; eauto. }
        eapply goodB_weaken; [|apply seg_done; exact Handled]. lia.
  - (* World *)
    destruct (wstep w op) as [w2 [rv|re]] eqn:Ws.
    + destruct (IH _ _ _ _ _ _ _ _ Hr Hinv) as (G & L & I); split; [|split; auto].
      eapply goodB_cont; [intros; cbn [frame_step Fr fr_comp]; rewrite Ws; reflexivity|auto|exact G].
    + inversion Hr; subst. split; [|split; auto using hle_refl].
      eapply goodB_cont; [intros; cbn [frame_step Fr fr_comp]; rewrite Ws; reflexivity|auto|apply (goodB_refl ip h' w' (inr re))].
Qed.
