(* DRAFT: C18 - the printed form of an integer reads back as the same integer (base 10), for every integer. *)
From Coq Require Import ZArith NArith List Bool Lia.
Import ListNotations.
Require Import Base Strings Builtins.
Open Scope Z_scope.

Lemma parse_digits_app b x : forall y a, parse_digits b (x ++ y) a = match parse_digits b x a with Some v => parse_digits b y v | None => None end.
Proof. induction x as [|c x IH]; intros y a; cbn [app parse_digits]; auto. destruct (digit_val c); auto. destruct (z <? b); auto. Qed.
Definition is_digit (c:N) : Prop := (48 <= c <= 57)%N.
Lemma digit_char d : 0 <= d < 10 -> is_digit (Z.to_N (48 + d)) /\ digit_val (Z.to_N (48 + d)) = Some d.
Proof.
  intros H. split; [unfold is_digit; lia|]. unfold digit_val. rewrite Z2N.id by lia.
  replace ((48 <=? 48 + d) && (48 + d <=? 57)) with true by (symmetry; apply andb_true_iff; split; apply Z.leb_le; lia). f_equal. lia.
Qed.
Lemma pos_digits_spec : forall f n acc, (1 <= f)%nat -> 0 <= n < 10 ^ Z.of_nat f ->
  exists ds, pos_digits f n acc = ds ++ acc /\ ds <> [] /\ Forall is_digit ds /\ forall a, parse_digits 10 ds a = Some (a * 10 ^ Z.of_nat (length ds) + n).
Proof.
  induction f as [|f IH]; intros n acc F H; [lia|]. cbn [pos_digits].
  assert (M : 0 <= n mod 10 < 10) by (apply Z.mod_pos_bound; lia). destruct (digit_char _ M) as [Dc Dv].
  destruct (n <? 10) eqn:E.
  - apply Z.ltb_lt in E. exists [Z.to_N (48 + n mod 10)]. split; [reflexivity|split; [discriminate|split; [constructor; auto|]]].
    intros a. cbn [parse_digits length]. rewrite Dv. cbn. rewrite Z.mod_small by lia. replace (n <? 10) with true by (symmetry; apply Z.ltb_lt; lia).
    try reflexivity; f_equal; try (change (10 ^ Z.of_nat 1) with 10); try lia.
  - apply Z.ltb_ge in E. destruct f as [|f]; [simpl in H; lia|].
    rewrite Nat2Z.inj_succ, Z.pow_succ_r in H by lia.
    destruct (IH (n / 10) (Z.to_N (48 + n mod 10) :: acc) ltac:(lia)) as (ds & E1 & NE & Fd & Pd).
    { split; [apply Z.div_pos; lia|apply Z.div_lt_upper_bound; lia]. }
    exists (ds ++ [Z.to_N (48 + n mod 10)]). split; [rewrite E1, <- app_assoc; reflexivity|]. split; [destruct ds; discriminate|]. split; [apply Forall_app; split; auto|].
    intros a. rewrite parse_digits_app, Pd. cbn [parse_digits]. rewrite Dv. replace (n mod 10 <? 10) with true by (symmetry; apply Z.ltb_lt; lia).
    f_equal. rewrite app_length, Nat.add_comm. cbn [length Nat.add]. rewrite Nat2Z.inj_succ, Z.pow_succ_r by lia.
    pose proof (Z.div_mod n 10 ltac:(lia)). lia.
Qed.
Lemma fuel_enough n : 0 <= n -> n < 10 ^ Z.of_nat (S (Z.to_nat (Z.log2 n))).
Proof.
  intros H. destruct (Z.eq_dec n 0) as [->|NZ]; [simpl; lia|].
  rewrite Nat2Z.inj_succ, Z2Nat.id by apply Z.log2_nonneg.
  assert (n < 2 ^ Z.succ (Z.log2 n)) by (apply Z.log2_spec; lia).
  assert (2 ^ Z.succ (Z.log2 n) <= 10 ^ Z.succ (Z.log2 n)) by (apply Z.pow_le_mono_l; pose proof (Z.log2_nonneg n); lia). lia.
Qed.
(* on plain digits the underscore-aware scanner IS the digit reader *)
Lemma scan_digits b : forall ds, Forall is_digit ds -> forall a st, ds <> [] \/ st = 1%nat -> scan b ds a st = parse_digits b ds a.
Proof.
  induction ds as [|c ds IH]; intros Fd a st H.
  - destruct H as [H| ->]; [congruence|reflexivity].
  - inversion Fd as [|? ? Hc Hds]; subst. unfold is_digit in Hc. cbn [scan parse_digits].
    destruct (N.eqb_spec c 95) as [->|_]; [lia|]. destruct (digit_val c); [|reflexivity]. destruct (z <? b); [|reflexivity]. apply IH; auto.
Qed.
Theorem int_print_parse n : parse_int (str_of_int n) 10 = Some n.
Proof.
  unfold str_of_int. destruct (pos_digits_spec (S (Z.to_nat (Z.log2 (Z.abs n)))) (Z.abs n) [] ltac:(lia)) as (ds & E & NE & Fd & Pd).
  { split; [lia|apply fuel_enough; lia]. }
  rewrite E, app_nil_r. destruct ds as [|c ds]; [congruence|]. inversion Fd as [|? ? Hc Hds]; subst. unfold is_digit in Hc.
  assert (DP : forall r, drop_prefix 10 r = r /\ has_prefix 10 r = false) by (intros r; unfold drop_prefix, has_prefix; destruct r as [|a0 [|c0 [|d0 r']]]; auto; unfold prefix_letter; cbn [Z.eqb Pos.eqb andb orb]; rewrite andb_false_r; split; reflexivity).
  assert (PU : parse_unsigned (c :: ds) 10 = Some (Z.abs n)).
  { unfold parse_unsigned. destruct (DP (c :: ds)) as [-> ->]. rewrite scan_digits by (auto; left; discriminate). rewrite (Pd 0). f_equal; lia. }
  destruct (n <? 0) eqn:Neg.
  - apply Z.ltb_lt in Neg. unfold parse_int. cbn [app N.eqb Pos.eqb Z.eqb]. rewrite PU. f_equal. lia.
  - apply Z.ltb_ge in Neg. unfold parse_int. cbn [app Z.eqb].
    destruct (N.eqb_spec c 45) as [->|N1]; [lia|]. destruct (N.eqb_spec c 43) as [->|N2]; [lia|]. rewrite PU. f_equal. lia.
Qed.
(* the most significant digit of a positive number is not 0 (when the fuel suffices) *)
Lemma pos_digits_head : forall f n acc, (1 <= f)%nat -> 0 < n < 10 ^ Z.of_nat f -> exists c r, pos_digits f n acc = c :: r /\ c <> 48%N.
Proof.
  induction f as [|f IH]; intros n acc F H; [lia|]. cbn [pos_digits]. destruct (n <? 10) eqn:E.
  - apply Z.ltb_lt in E. exists (Z.to_N (48 + n mod 10)), acc. split; [reflexivity|]. rewrite Z.mod_small by lia. lia.
  - apply Z.ltb_ge in E. destruct f as [|f]; [simpl in H; lia|]. rewrite Nat2Z.inj_succ, Z.pow_succ_r in H by lia.
    apply IH; [lia|]. split; [apply Z.div_str_pos; lia|apply Z.div_lt_upper_bound; lia].
Qed.
(* base 0 reads the printed form back too: no prefix, and a leading 0 only for zero itself *)
Theorem int_print_parse_base0 n : parse_int (str_of_int n) 0 = Some n.
Proof.
  assert (P0 : forall m, 0 <= m -> parse_unsigned0 (pos_digits (S (Z.to_nat (Z.log2 m))) m []) = Some m).
  { intros m Hm. destruct (pos_digits_spec (S (Z.to_nat (Z.log2 m))) m [] ltac:(lia)) as (ds & E & NE & Fd & Pd). { split; [lia|apply fuel_enough; lia]. }
    rewrite E, app_nil_r. destruct ds as [|c ds]; [congruence|]. inversion Fd as [|? ? Hc Hds]; subst. unfold is_digit in Hc.
    assert (NP : forall b, has_prefix b (c :: ds) = false).
    { intros b. unfold has_prefix. destruct ds as [|c2 [|c3 r]]; auto.
      destruct (N.eqb_spec c 48) as [->|]; [|reflexivity]. cbn [andb]. inversion Hds as [|? ? Hc2 _]; subst. unfold is_digit in Hc2. unfold prefix_letter.
      replace ((65 <=? c2) && (c2 <=? 90))%N with false by (symmetry; apply andb_false_iff; left; apply N.leb_gt; lia).
      replace (N.eqb c2 120) with false by (symmetry; apply N.eqb_neq; lia). replace (N.eqb c2 111) with false by (symmetry; apply N.eqb_neq; lia).
      replace (N.eqb c2 98) with false by (symmetry; apply N.eqb_neq; lia). rewrite !andb_false_r. reflexivity. }
    unfold parse_unsigned0. rewrite !NP. rewrite scan_digits by (auto; left; discriminate). rewrite (Pd 0).
    replace (0 * 10 ^ Z.of_nat (length (c :: ds)) + m) with m by lia.
    destruct (Z.eq_dec m 0) as [->|NZ]; [rewrite andb_false_r; reflexivity|].
    destruct (pos_digits_head (S (Z.to_nat (Z.log2 m))) m [] ltac:(lia)) as (c' & r' & E' & Nc). { split; [lia|apply fuel_enough; lia]. }
    rewrite E, app_nil_r in E'. inversion E'; subst c' r'. replace (N.eqb c 48) with false by (symmetry; apply N.eqb_neq; exact Nc). reflexivity. }
  unfold str_of_int. destruct (n <? 0) eqn:Neg.
  - apply Z.ltb_lt in Neg. unfold parse_int. cbn [N.eqb Pos.eqb Z.eqb]. rewrite P0 by lia. f_equal. lia.
  - apply Z.ltb_ge in Neg. replace (Z.abs n) with n by lia. specialize (P0 n Neg).
    destruct (pos_digits_spec (S (Z.to_nat (Z.log2 n))) n [] ltac:(lia)) as (ds & E & NE & Fd & _). { split; [lia|apply fuel_enough; lia]. }
    rewrite E, app_nil_r in *. destruct ds as [|c ds]; [congruence|]. inversion Fd as [|? ? Hc _]; subst. unfold is_digit in Hc.
    unfold parse_int. cbn [Z.eqb]. destruct (N.eqb_spec c 45) as [->|N1]; [lia|]. destruct (N.eqb_spec c 43) as [->|N2]; [lia|]. exact P0.
Qed.
(* printing is injective: different integers print differently *)
Corollary int_print_injective a b : str_of_int a = str_of_int b -> a = b.
Proof. intros H. pose proof (int_print_parse a) as A. rewrite H, int_print_parse in A. congruence. Qed.
Print Assumptions int_print_parse. Print Assumptions int_print_parse_base0.
