(* DRAFT: C11 - on integers the arithmetic built-ins are the exact operations of Z (no overflow, any size, any arity). *)
From Coq Require Import ZArith NArith List Bool Lia.
Import ListNotations.
Require Import Base Float Strings Builtins.
Open Scope Z_scope.

Lemma sum_any_ints : forall l s, sum_any (NI s) (map NI l) = Some (NI (fold_left Z.add l s)).
Proof. induction l as [|x l IH]; intros s; cbn [map sum_any add_num fold_left]; auto. Qed.
Lemma py_sum_ints : forall l s, py_sum s (map NI l) = Some (NI (fold_left Z.add l s)).
Proof. induction l as [|x l IH]; intros s; cbn [map py_sum fold_left]; auto. destruct (fits_long x && fits_long (s + x)); [apply IH|apply sum_any_ints]. Qed.
Lemma py_prod_ints : forall l a, py_prod (NI a) (map NI l) = Some (NI (fold_left Z.mul l a)).
Proof. induction l as [|x l IH]; intros a; cbn [map py_prod mul_num fold_left]; auto. Qed.
Lemma nums_of_ints l : nums_of (map VInt l) = map NI l.
Proof. induction l as [|x l IH]; cbn [map nums_of flat_map app]; auto. unfold nums_of in IH. rewrite IH. reflexivity. Qed.

(* sums and products of integer lists: the mathematical sum / product, hence order-free *)
Lemma fold_add_perm l : forall s, fold_left Z.add l s = s + fold_right Z.add 0 l.
Proof. induction l as [|x l IH]; intros s; cbn [fold_left fold_right]; [lia|]. rewrite IH. lia. Qed.
Lemma fold_mul_perm l : forall s, fold_left Z.mul l s = s * fold_right Z.mul 1 l.
Proof. induction l as [|x l IH]; intros s; cbn [fold_left fold_right]; [lia|]. rewrite IH. lia. Qed.
Theorem int_sum_exact l : py_sum 0 (nums_of (map VInt l)) = Some (NI (fold_right Z.add 0 l)).
Proof. rewrite nums_of_ints, py_sum_ints, fold_add_perm. f_equal. Qed.
Theorem int_prod_exact x l : py_prod (NI x) (nums_of (map VInt l)) = Some (NI (x * fold_right Z.mul 1 l)).
Proof. rewrite nums_of_ints, py_prod_ints, fold_mul_perm. reflexivity. Qed.
From Coq Require Import Permutation.
Theorem int_sum_order_free l l' : Permutation l l' -> py_sum 0 (nums_of (map VInt l)) = py_sum 0 (nums_of (map VInt l')).
Proof.
  intros P. rewrite !int_sum_exact. do 2 f_equal. induction P; cbn [fold_right]; lia.
Qed.
Theorem int_prod_order_free x l l' : Permutation l l' -> py_prod (NI x) (nums_of (map VInt l)) = py_prod (NI x) (nums_of (map VInt l')).
Proof.
  intros P. rewrite !int_prod_exact. do 3 f_equal. induction P; cbn [fold_right]; lia.
Qed.
Theorem distributes a b c : NI (a * (b + c)) = NI (a * b + a * c). Proof. f_equal. ring. Qed.

(* modular inverse used by the three-argument power with a negative exponent: whatever it returns is an inverse *)
Lemma egcd_bezout : forall fuel a b g x y, egcd fuel a b = (g, x, y) -> a * x + b * y = g.
Proof.
  induction fuel as [|f IH]; intros a b g x y H; cbn [egcd] in H; [inversion H; lia|].
  destruct (b =? 0) eqn:E; [inversion H; lia|]. apply Z.eqb_neq in E.
  destruct (egcd f b (a mod b)) as [[g' x'] y'] eqn:R. inversion H; subst. specialize (IH _ _ _ _ _ R).
  pose proof (Z.div_mod a b E). nia.
Qed.
Theorem modinv_sound b m i : 0 < m -> modinv b m = Some i -> (b * i) mod m = 1 mod m /\ 0 <= i < m.
Proof.
  intros M. unfold modinv. destruct (egcd _ (b mod m) m) as [[g x] y] eqn:R. destruct (g =? 1) eqn:G; [|discriminate].
  apply Z.eqb_eq in G. subst g. intros H; inversion H; subst i; clear H. split; [|apply Z.mod_pos_bound; lia].
  apply egcd_bezout in R. rewrite Z.mul_mod_idemp_r by lia. rewrite <- (Z.mul_mod_idemp_l b) by lia.
  replace (b mod m * x) with (1 + (- y) * m) by lia. rewrite Z.mod_add by lia. reflexivity.
Qed.
(* hence the documented law of  b ^ e mod m  for negative e:  result * b^(-e) = 1 (mod m) *)
Theorem pow_mod_neg_spec b e m i : 0 < m -> e < 0 -> modinv b m = Some i -> ((i ^ (- e)) mod m * b ^ (- e)) mod m = 1 mod m.
Proof.
  intros M E H. destruct (modinv_sound _ _ _ M H) as [S _].
  rewrite Z.mul_mod_idemp_l by lia. rewrite <- Z.pow_mul_l. rewrite (Z.mul_comm i b).
  assert (G : forall k, 0 <= k -> ((b * i) ^ k) mod m = 1 mod m).
  { intros k Hk. pattern k. apply natlike_ind; [reflexivity| |exact Hk].
    intros x Hx IH. rewrite Z.pow_succ_r by lia. rewrite Z.mul_mod by lia. rewrite S, IH, <- Z.mul_mod by lia. reflexivity. }
  apply G. lia.
Qed.
Print Assumptions modinv_sound. Print Assumptions pow_mod_neg_spec.
Print Assumptions int_sum_exact. Print Assumptions int_prod_order_free.
