(* C14 - a file handle as a plain byte array with a position, the six open modes.
   fstep: the PERMITTED operations (a refused one returns None); FilesTotal.v adds close and says what a refused operation does (an OS error
   value with errno 9 or 22 and no change at all). *)
From Coq Require Import ZArith NArith List Bool Lia.
Import ListNotations.
Open Scope Z_scope.

Inductive mode := MR | MW | MA | MRW | MWR | MAR.           (* rb wb ab r+b w+b a+b *)
Definition can_read (m:mode) : bool := match m with MR | MRW | MWR | MAR => true | _ => false end.
Definition can_write (m:mode) : bool := match m with MR => false | _ => true end.
Definition appending (m:mode) : bool := match m with MA | MAR => true | _ => false end.
Definition resets (m:mode) : bool := match m with MW | MWR => true | _ => false end.
Definition needs_file (m:mode) : bool := match m with MR | MRW => true | _ => false end.

Record fstate := { content : list N; pos : Z; fmode : mode }.
Definition len (l:list N) : Z := Z.of_nat (length l).

(* open: disk = Some bytes if the file exists *)
Definition fopen (m:mode) (disk:option (list N)) : option fstate :=
  match disk with
  | None => if needs_file m then None else Some {| content := []; pos := 0; fmode := m |}
  | Some bs =>
      let c := if resets m then [] else bs in
      Some {| content := c; pos := (if appending m then len c else 0); fmode := m |}
  end.

Inductive op := ORead (n:Z) | OWrite (bs:list N) | OTell | OSeekSet (off:Z) | OSeekCur (off:Z) | OTrunc | OTruncN (n:Z).
Inductive result := RBytes (bs:list N) | RInt (n:Z).

Definition zeros (n:Z) : list N := repeat 0%N (Z.to_nat n).
Definition take (n:Z) (l:list N) : list N := firstn (Z.to_nat n) l.
Definition drop (n:Z) (l:list N) : list N := skipn (Z.to_nat n) l.
(* size the array to exactly n bytes: cut, or extend with zero bytes *)
Definition resize (n:Z) (l:list N) : list N := if n <=? len l then take n l else l ++ zeros (n - len l).
(* overwrite / extend at position p (a gap is zero filled) *)
Definition write_at (p:Z) (bs l:list N) : list N := resize p l ++ bs ++ drop (p + len bs) l.

Definition fstep (s:fstate) (o:op) : option (fstate * result) :=
  let m := fmode s in
  match o with
  | ORead n =>
      if can_read m && (-1 <=? n) then       (* -1 reads all; a count below -1 is refused (ValueError: read length must be non-negative or -1) *)
        let avail := drop (pos s) (content s) in
        let got := if n <? 0 then avail else take n avail in
        Some ({| content := content s; pos := pos s + len got; fmode := m |}, RBytes got)
      else None
  | OWrite bs =>
      if can_write m then
        match bs with
        | [] => Some (s, RInt 0)                                   (* writing nothing is no operation at all *)
        | _ => let p := if appending m then len (content s) else pos s in
               Some ({| content := write_at p bs (content s); pos := p + len bs; fmode := m |}, RInt (len bs))
        end
      else None
  | OTell => Some (s, RInt (pos s))
  | OSeekSet off => if off <? 0 then None else Some ({| content := content s; pos := off; fmode := m |}, RInt off)
  | OSeekCur off => if pos s + off <? 0 then None else Some ({| content := content s; pos := pos s + off; fmode := m |}, RInt (pos s + off))
  | OTrunc => if can_write m then Some ({| content := resize (pos s) (content s); pos := pos s; fmode := m |}, RInt (pos s)) else None
  | OTruncN n => if can_write m && (0 <=? n) then Some ({| content := resize n (content s); pos := pos s; fmode := m |}, RInt n) else None
  end.

Fixpoint frun (s:fstate) (ops:list op) : option (fstate * list result) :=
  match ops with
  | [] => Some (s, [])
  | o :: r => match fstep s o with
              | None => None
              | Some (s', x) => match frun s' r with None => None | Some (s'', xs) => Some (s'', x :: xs) end end
  end.
Definition history (m:mode) (disk:option (list N)) (ops:list op) : option (list N * list result) :=
  match fopen m disk with None => None | Some s => match frun s ops with None => None | Some (s', xs) => Some (content s', xs) end end.
