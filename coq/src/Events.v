(* DRAFT proofs for C19 on the real machine: the observer is transparent and sees well-nested events *)
From Coq Require Import ZArith NArith List Bool FMapPositive Lia.
Import ListNotations.
Require Import Base Strings Builtins Interp Machine.

(* ---- T1 transparency: the debug fields never influence the rest of the state ---- *)
Definition erase (s:mstate) : mstate :=
  {| m_heap := m_heap s; m_req := m_req s; m_stack := m_stack s; m_world := m_world s; m_dbg := {| depth := 0; dstack := []; events := [] |} |}.
Lemma observer_transparent lim s :
  match step_with lim s, step_with lim (erase s) with
  | inl s1, inl s2 => erase s1 = erase s2
  | inr o1, inr o2 => o1 = o2
  | _, _ => False end.
Proof.
  unfold step_with, erase; cbn [m_heap m_req m_stack m_world m_dbg].
  destruct (m_stack s) as [|top rest]; auto.
  destruct (match lim with Some m => _ | None => false end); auto.
  destruct (frame_step (m_heap s) (m_world s) top) as [f' h' w'|u f'|r h' w']; try reflexivity.
  destruct (fr_tid top) as [t|]; [|destruct r; reflexivity].
  destruct rest as [|parent rest']; auto.
  destruct r as [v|e]; [|reflexivity]. destruct v; reflexivity.
Qed.

(* ---- T2/T3 well-nestedness ---- *)
Fixpoint replay (evs:list event) (stk:list (nat*positive)) : option (list (nat*positive)) :=
  match evs with
  | [] => Some stk
  | EB d t _ :: r => if Nat.eqb d (S (length stk)) then replay r ((d,t)::stk) else None
  | EA d t _ _ :: r => match stk with (d',t')::stk' => if Nat.eqb d d' && Pos.eqb t t' then replay r stk' else None | [] => None end
  end.
Lemma replay_app a b s : replay (a ++ b) s = match replay a s with Some s' => replay b s' | None => None end.
Proof.
  revert s; induction a as [|e a IH]; intros s; cbn [app replay]; auto.
  destruct e.
  - destruct (Nat.eqb d (S (length s))); auto.
  - destruct s as [|[d' t'] s']; auto. destruct (Nat.eqb d d' && Pos.eqb t t'); auto.
Qed.
Fixpoint tagged (l:list positive) : list (nat*positive) := match l with [] => [] | x :: r => (length l, x) :: tagged r end.
Lemma tagged_length l : length (tagged l) = length l. Proof. induction l; simpl; auto. Qed.
Definition opens (ds:list (list positive)) : list positive := flat_map (@rev positive) ds.

Fixpoint shape (stk:list frame) : Prop :=
  match stk with [] => False | [f] => fr_tid f = None | f :: r => fr_tid f <> None /\ shape r end.
Lemma shape_cons f g r : fr_tid f <> None -> shape (g :: r) -> shape (f :: g :: r).
Proof. intros A B. split; auto. Qed.
Lemma frame_step_tid h w f f' h' w' : frame_step h w f = FCont f' h' w' -> fr_tid f' = fr_tid f.
Proof.
  unfold frame_step. destruct (fr_comp f) as [v|e|v k|a e k|b e k|g k|g av k|k|t k|p k|c hd k|op k].
  - destruct (fr_konts f) as [|[hh kk|kk] ks]; intros E; inversion E; reflexivity.
  - destruct (fr_konts f) as [|[hh kk|kk] ks]; [| destruct (unmodelled e) |]; intros E; inversion E; reflexivity.
  - destruct v; try (intros E; inversion E; reflexivity).
    destruct (get h t) as [c|]; [destruct (c_cache c) as [[x|x]|]|]; intros E; inversion E; reflexivity.
  - destruct (alloc h a e); intros E; inversion E; reflexivity.
  - destruct (newclo h b e); intros E; inversion E; reflexivity.
  - destruct (PositiveMap.find g (clos h)); intros E; inversion E; reflexivity.
  - destruct (alloc_body h g av) as [[hh tt]|]; intros E; inversion E; reflexivity.
  - destruct (fresh h); intros E; inversion E; reflexivity.
  - destruct (get h t); intros E; inversion E; reflexivity.
  - intros E; inversion E; reflexivity.
  - intros E; inversion E; reflexivity.
  - destruct (wstep w op) as [w2 [rv|re]]; intros E; inversion E; reflexivity.
Qed.
Lemma frame_step_req h w f u f' : frame_step h w f = FRequest u f' -> f' = f.
Proof.
  unfold frame_step. destruct (fr_comp f) as [v|e|v k|a e k|b e k|g k|g av k|k|t k|p k|c hd k|op k].
  - destruct (fr_konts f) as [|[hh kk|kk] ks]; discriminate.
  - destruct (fr_konts f) as [|[hh kk|kk] ks]; [| destruct (unmodelled e) |]; discriminate.
  - destruct v; try discriminate. destruct (get h t) as [c|]; [destruct (c_cache c) as [[x|x]|]|]; try discriminate. intros E; inversion E; reflexivity.
  - destruct (alloc h a e); discriminate.
  - destruct (newclo h b e); discriminate.
  - destruct (PositiveMap.find g (clos h)); discriminate.
  - destruct (alloc_body h g av) as [[hh tt]|]; discriminate.
  - destruct (fresh h); discriminate.
  - destruct (get h t); discriminate.
  - discriminate.
  - discriminate.
  - destruct (wstep w op) as [w2 [rv|re]]; discriminate.
Qed.
Lemma deliver_tid f r : fr_tid (deliver_res f r) = fr_tid f.
Proof. unfold deliver_res. destruct (fr_comp f); auto. destruct r; reflexivity. Qed.

Definition Inv (s:mstate) : Prop :=
  let d := m_dbg s in
  depth d = length (opens (dstack d)) /\
  replay (rev (events d)) [] = Some (tagged (opens (dstack d))) /\
  S (length (dstack d)) = length (m_stack s) /\ shape (m_stack s).

Lemma replay_closes : forall l h k rest,
  replay (closes (length (l ++ rest)) l h k) (tagged (l ++ rest)) = Some (tagged rest).
Proof.
  induction l as [|x l IH]; intros h k rest; cbn [closes app]; auto.
  cbn [tagged replay]. rewrite Nat.eqb_refl, Pos.eqb_refl. cbn [andb]. cbn [length pred]. apply IH.
Qed.

Lemma inv_step lim s s' : Inv s -> step_with lim s = inl s' -> Inv s'.
Proof.
  unfold Inv, step_with. intros (Hd & Hr & Hl & Hsh).
  destruct (m_stack s) as [|top rest] eqn:Es; [discriminate|].
  destruct (match lim with Some m => _ | None => false end); [discriminate|].
  destruct (frame_step (m_heap s) (m_world s) top) as [f' h' w'|u f'|r h' w'] eqn:Fs.
  - intros E; inversion E; subst; cbn [m_dbg m_stack]. split; [auto|split; [auto|split; [auto|]]].
    pose proof (frame_step_tid _ _ _ _ _ _ Fs) as Et. destruct rest; cbn [shape] in *; rewrite Et; auto.
  - (* push *)
    pose proof (frame_step_req _ _ _ _ _ Fs) as ->.
    intros E; inversion E; subst; cbn [m_dbg m_stack push_dbg depth dstack events]. unfold opens in *. cbn [flat_map rev app] in *. split; [|split; [|split]].
    + cbn [length]. lia.
    + cbn [rev]. rewrite replay_app, Hr. cbn [replay]. rewrite tagged_length, <- Hd, Nat.eqb_refl. cbn [tagged length]. rewrite Hd. reflexivity.
    + cbn [length] in *. lia.
    + apply shape_cons; [discriminate|exact Hsh].
  - destruct (fr_tid top) as [t|] eqn:Et; [|destruct r; discriminate].
    destruct rest as [|parent rest']; [discriminate|].
    destruct (dstack (m_dbg s)) as [|g tl] eqn:Eds; [cbn [length] in Hl; discriminate|].
    assert (Hsh' : shape (parent :: rest')) by (cbn [shape] in Hsh; destruct Hsh; auto).
    assert (Hpop : forall hx rr,
       (depth (m_dbg s) - length g)%nat = length (opens tl) /\
       replay (rev (rev (closes (depth (m_dbg s)) (rev g) hx (kind_of rr)) ++ events (m_dbg s))) [] = Some (tagged (opens tl))).
    { intros hx rr. unfold opens in *. cbn [flat_map] in *. rewrite app_length, rev_length in Hd. split. lia.
      rewrite rev_app_distr, rev_involutive, replay_app, Hr.
      rewrite Hd. rewrite <- (rev_length g) at 1. rewrite <- app_length. apply replay_closes. }
    assert (PopCase : forall hx rr s1, s1 = {| m_heap := hx; m_req := m_req s; m_stack := deliver_res parent rr :: rest'; m_world := w'; m_dbg := pop_dbg (m_dbg s) hx rr |} ->
       depth (m_dbg s1) = length (opens (dstack (m_dbg s1))) /\ replay (rev (events (m_dbg s1))) [] = Some (tagged (opens (dstack (m_dbg s1))))
       /\ S (length (dstack (m_dbg s1))) = length (m_stack s1) /\ shape (m_stack s1)).
    { intros hx rr s1 ->. cbn [m_dbg m_stack]. unfold pop_dbg. rewrite Eds. cbn [depth dstack events].
      destruct (Hpop hx rr) as [A B]. split; [auto|split; [auto|split]]. cbn [length] in *. lia.
      destruct rest'; cbn [shape] in *; rewrite deliver_tid; auto. }
    destruct r as [v|e].
    + destruct v; try (intros E; inversion E; subst; eapply PopCase; reflexivity).
      (* tail replacement *)
      intros E; inversion E; subst; cbn [m_dbg m_stack]. unfold tail_dbg. rewrite Eds. cbn [depth dstack events].
      unfold opens in *. cbn [flat_map] in *. split; [|split; [|split]].
      * rewrite rev_app_distr. cbn [rev app length]. lia.
      * cbn [rev]. rewrite replay_app, Hr. cbn [replay]. rewrite tagged_length, <- Hd, Nat.eqb_refl.
        rewrite rev_app_distr. cbn [rev app tagged length]. rewrite Hd. reflexivity.
      * cbn [length] in *. lia.
      * apply shape_cons; [discriminate|exact Hsh'].
    + intros E; inversion E; subst; eapply PopCase; reflexivity.
Qed.

Lemma inv_init prog stdin : Inv (init prog stdin).
Proof. unfold Inv, init. destruct (alloc heap0 prog _). cbn. repeat split; reflexivity. Qed.

Fixpoint msteps lim (n:nat) (s:mstate) : mstate + outcome :=
  match n with O => inl s | S k => match step_with lim s with inl s' => msteps lim k s' | inr o => inr o end end.
Theorem events_well_nested lim n prog stdin s : msteps lim n (init prog stdin) = inl s -> Inv s.
Proof.
  assert (G : forall n s0, Inv s0 -> msteps lim n s0 = inl s -> Inv s).
  { induction n0 as [|k IH]; intros s0 I0 E; simpl in E. inversion E; subst; auto.
    destruct (step_with lim s0) eqn:St; [|discriminate]. eapply IH; [eapply inv_step; eauto|exact E]. }
  intros E. eapply G; [apply inv_init|exact E].
Qed.
(* when the head coroutine finishes (value or language error) every bracket is closed and depth is 0 *)
Theorem depth_zero_at_end lim n prog stdin s o :
  msteps lim n (init prog stdin) = inl s -> step_with lim s = inr o -> (forall v, o = ODone v \/ True) ->
  (exists v, o = ODone v) \/ (exists e, o = OErr e) ->
  depth (m_dbg s) = 0%nat /\ replay (rev (events (m_dbg s))) [] = Some [].
Proof.
  intros E St _ Fin. pose proof (events_well_nested _ _ _ _ _ E) as (Hd & Hr & Hl & Hsh).
  unfold step_with in St. destruct (m_stack s) as [|top rest]; [destruct Fin as [[v ->]|[e ->]]; discriminate|].
  destruct (match lim with Some m => _ | None => false end); [destruct Fin as [[v ->]|[e ->]]; discriminate|].
  destruct (frame_step (m_heap s) (m_world s) top) as [f' h' w'|u f'|r h' w']; try discriminate.
  destruct (fr_tid top) as [t|] eqn:Et.
  - destruct rest as [|p r']; [destruct Fin as [[v ->]|[e ->]]; discriminate|]. destruct r as [v|e]; [destruct v|]; discriminate.
  - (* the head finished: by the shape invariant it is alone on the stack *)
    destruct rest as [|p r']. 2:{ cbn [shape] in Hsh. destruct Hsh as [Hne _]. congruence. }
    cbn [length] in Hl. destruct (dstack (m_dbg s)) as [|g tl]; [|discriminate].
    unfold opens in *. cbn in Hd, Hr. auto.
Qed.
Print Assumptions observer_transparent.
Print Assumptions depth_zero_at_end.
