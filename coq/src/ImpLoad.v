(* C15, loading: "evaluates its single expression exactly once in an empty scope, and yields that same object on every later import by either
   route".  The registry of builtins/module.py as a state machine: a file is identified by the FILE (its id after path resolution - os.path.samefile),
   not by the spelling of the path; a file with exactly one expression gets one module object (a delayed expression in the EMPTY environment)
   the first time and that very object ever after.  `nexprs id` = how many expressions the text of file `id` parses to.
   The interpreter-side tie is the oracle slice import_semantics (one object per file, evaluate once, context-free, bad modules). *)
From Coq Require Import ZArith NArith List Bool Lia.
Import ListNotations.
Require Import ImpSearch.

Inductive loadres := LObject (o:positive) (fresh:bool) | LNotFound | LAmbiguous | LEmpty | LMulti.
Record lstate := { registry : list (N * positive); next_obj : positive }.
Fixpoint lookup (r:list (N * positive)) (id:N) : option positive :=
  match r with [] => None | (k, o) :: t => if N.eqb k id then Some o else lookup t id end.
Section Load.
Variable nexprs : N -> nat.
Definition load (s:lstate) (id:N) : lstate * loadres :=
  match lookup (registry s) id with
  | Some o => (s, LObject o false)
  | None => match nexprs id with
            | 1%nat => ({| registry := (id, next_obj s) :: registry s; next_obj := Pos.succ (next_obj s) |}, LObject (next_obj s) true)
            | O => (s, LEmpty)
            | _ => (s, LMulti) end
  end.
(* the two routes: literal path through the directory tree, or a path string that the host resolves to a file id *)
Inductive route := ByLiterals (lits:list Z) | ByPath (resolved:option N).
Definition import (fs:tree) (s:lstate) (r:route) : lstate * loadres :=
  match r with
  | ByLiterals lits => match search lits fs with Found _ id => load s id | NotFound => (s, LNotFound) | Ambiguous => (s, LAmbiguous) end
  | ByPath (Some id) => load s id
  | ByPath None => (s, LNotFound)
  end.
Definition imports (fs:tree) (s:lstate) (rs:list route) : lstate := fold_left (fun st r => fst (import fs st r)) rs s.

(* which file a route denotes *)
Definition denotes (fs:tree) (r:route) : option N :=
  match r with ByLiterals lits => match search lits fs with Found _ id => Some id | _ => None end | ByPath o => o end.

Definition wf (s:lstate) := forall id o, lookup (registry s) id = Some o -> (o < next_obj s)%positive.
Lemma load_wf s id : wf s -> wf (fst (load s id)).
Proof.
  intros W. unfold load. destruct (lookup (registry s) id) eqn:L; [exact W|]. destruct (nexprs id) as [|[|n]]; try exact W.
  intros k o. cbn [fst registry next_obj lookup]. destruct (N.eqb id k); [intros E; inversion E; lia|]. intros H. specialize (W _ _ H). lia.
Qed.
Lemma import_wf fs s r : wf s -> wf (fst (import fs s r)).
Proof. intros W. destruct r as [lits|[id|]]; cbn [import]; [destruct (search lits fs)|..]; try exact W; apply load_wf; exact W. Qed.
Lemma registry_grows_load s id k o : lookup (registry s) k = Some o -> lookup (registry (fst (load s id))) k = Some o.
Proof.
  intros H. unfold load. destruct (lookup (registry s) id) eqn:L; [exact H|]. destruct (nexprs id) as [|[|n]]; try exact H.
  cbn [fst registry lookup]. destruct (N.eqb id k) eqn:E; [apply N.eqb_eq in E; subst; congruence|exact H].
Qed.
Lemma registry_grows_import fs s r k o : lookup (registry s) k = Some o -> lookup (registry (fst (import fs s r))) k = Some o.
Proof. intros H. destruct r as [lits|[id|]]; cbn [import]; [destruct (search lits fs)|..]; try exact H; apply registry_grows_load; exact H. Qed.
Lemma registry_grows fs rs : forall s k o, lookup (registry s) k = Some o -> lookup (registry (imports fs s rs)) k = Some o.
Proof. induction rs as [|r rs IH]; intros s k o H; cbn [imports fold_left]; [exact H|]. apply IH. apply registry_grows_import. exact H. Qed.

(* T2 import_once: once a route has produced the module object of a file, EVERY later import by ANY route denoting the same file - after any
   other imports in between - yields that same object, creates nothing (fresh = false) and leaves the registry as it is *)
Theorem import_once fs s r1 o fr between r2 id :
  denotes fs r1 = Some id -> denotes fs r2 = Some id -> import fs s r1 = (fst (import fs s r1), LObject o fr) ->
  let s2 := imports fs (fst (import fs s r1)) between in
  import fs s2 r2 = (s2, LObject o false).
Proof.
  intros D1 D2 I1 s2.
  assert (R1 : lookup (registry (fst (import fs s r1))) id = Some o).
  { destruct r1 as [lits|[i|]]; cbn [import denotes] in *.
    - destruct (search lits fs) as [p i| |]; try discriminate. inversion D1; subst i. unfold load in *.
      destruct (lookup (registry s) id) eqn:L; [cbn [fst] in *; inversion I1; subst; exact L|].
      destruct (nexprs id) as [|[|n]]; cbn [fst snd] in I1; try (inversion I1; fail).
      inversion I1; subst. cbn [fst registry lookup]. rewrite N.eqb_refl. reflexivity.
    - inversion D1; subst i. unfold load in *. destruct (lookup (registry s) id) eqn:L; [cbn [fst] in *; inversion I1; subst; exact L|].
      destruct (nexprs id) as [|[|n]]; cbn [fst snd] in I1; try (inversion I1; fail).
      inversion I1; subst. cbn [fst registry lookup]. rewrite N.eqb_refl. reflexivity.
    - discriminate. }
  pose proof (registry_grows fs between _ _ _ R1) as R2. fold s2 in R2.
  destruct r2 as [lits|[i|]]; cbn [import denotes] in *.
  - destruct (search lits fs) as [p i| |]; try discriminate. inversion D2; subst i. unfold load. rewrite R2. reflexivity.
  - inversion D2; subst i. unfold load. rewrite R2. reflexivity.
  - discriminate.
Qed.
(* different files never share a module object *)
Theorem distinct_files_distinct_objects s : wf s -> (forall a b o, a <> b -> lookup (registry s) a = Some o -> lookup (registry s) b = Some o -> False) ->
  forall id, let s' := fst (load s id) in forall a b o, a <> b -> lookup (registry s') a = Some o -> lookup (registry s') b = Some o -> False.
Proof.
  intros W Inj id s' a b o Hab. unfold s', load. destruct (lookup (registry s) id) eqn:L; [apply Inj; exact Hab|].
  destruct (nexprs id) as [|[|n]]; try (apply Inj; exact Hab). cbn [fst registry lookup].
  destruct (N.eqb id a) eqn:Ea, (N.eqb id b) eqn:Eb; intros H1 H2.
  - apply N.eqb_eq in Ea, Eb. congruence.
  - inversion H1; subst o. specialize (W _ _ H2). lia.
  - inversion H2; subst o. specialize (W _ _ H1). lia.
  - eapply Inj; eauto.
Qed.
(* bad modules: what is not exactly one expression, not found, or ambiguous yields no object and changes nothing *)
Theorem bad_modules_change_nothing fs s r res : import fs s r = (fst (import fs s r), res) -> (forall o fr, res <> LObject o fr) -> fst (import fs s r) = s.
Proof.
  intros I Hn. destruct r as [lits|[id|]]; cbn [import] in *; [destruct (search lits fs) as [p id| |]|..]; try reflexivity;
    unfold load in *; destruct (lookup (registry s) id); try reflexivity; destruct (nexprs id) as [|[|n]]; try reflexivity;
    cbn [fst snd] in I; inversion I; subst; exfalso; eapply Hn; reflexivity.
Qed.
End Load.
