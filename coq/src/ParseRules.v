(* C09: the rules of the postfix stack machine one by one - what each word shape does to the stack when it applies (the five lemmas of ParseProofs,
   restated for the property file) and the rejection each gives when it does not: nothing to wrap, nothing to refer to, a reference to something
   that is no literal, no function to call, fewer arguments on the stack than the word asks for, a negative count. *)
From Coq Require Import ZArith NArith List Bool Lia.
Import ListNotations.
Require Import Base Num NumProofs Lex ParseProofs.
Open Scope N_scope.

Theorem rule_literal n m stk : parse_token (lit_word n, m) stk = inl (Lit n m :: stk).
Proof. exact (tok_lit n m stk). Qed.
Theorem rule_function_body m b stk : parse_token ([HIEUH], m) (b :: stk) = inl (FunDef b m :: stk).
Proof. exact (tok_fundef m b stk). Qed.
Theorem rule_call m f (args stk:list ast) :
  parse_token (HIEUH :: lit_word (Z.of_nat (length args)), m) (f :: rev args ++ stk) = inl (FunCall f args m :: stk).
Proof. exact (tok_funcall m f args stk). Qed.
Theorem rule_function_reference n m m0 stk : parse_token ([IEUNG], m) (Lit n m0 :: stk) = inl (FunRef n m :: stk).
Proof. exact (tok_funref n m m0 stk). Qed.
Theorem rule_argument_reference r0 m a stk : parse_token (IEUNG :: lit_word r0, m) (a :: stk) = inl (ArgRef a r0 m :: stk).
Proof. exact (tok_argref r0 m a stk). Qed.

Theorem reject_body_on_empty_stack m : parse_token ([HIEUH], m) [] = inr NoBody.
Proof. reflexivity. Qed.
Theorem reject_function_reference_on_empty_stack m : parse_token ([IEUNG], m) [] = inr NoRefFun.
Proof. reflexivity. Qed.
Theorem reject_function_reference_to_non_literal m a stk : (forall n m0, a <> Lit n m0) -> parse_token ([IEUNG], m) (a :: stk) = inr RefNotLit.
Proof. intros H. cbn. destruct a; try reflexivity. exfalso. eapply H. reflexivity. Qed.
Theorem reject_argument_reference_on_empty_stack r0 m : parse_token (IEUNG :: lit_word r0, m) [] = inr NoRefArg.
Proof.
  unfold parse_token. change (IEUNG =? HIEUH) with false. change (IEUNG =? IEUNG) with true. cbv iota.
  destruct (lit_word_cons r0) as (c & r & E). rewrite E, <- E, parse_number_lit. reflexivity.
Qed.
Theorem reject_call_on_empty_stack k m : (0 <= k)%Z -> parse_token (HIEUH :: lit_word k, m) [] = inr NoFun.
Proof.
  intros Hk. unfold parse_token. change (HIEUH =? HIEUH) with true. cbv iota.
  destruct (lit_word_cons k) as (c & r & E). rewrite E, <- E, parse_number_lit.
  assert (H : (k <? 0)%Z = false) by (apply Z.ltb_ge; lia). rewrite H. reflexivity.
Qed.
Theorem reject_call_with_too_few_arguments k m f stk : (Z.of_nat (length stk) < k)%Z -> parse_token (HIEUH :: lit_word k, m) (f :: stk) = inr FewArgs.
Proof.
  intros Hk. unfold parse_token. change (HIEUH =? HIEUH) with true. cbv iota.
  destruct (lit_word_cons k) as (c & r & E). rewrite E, <- E, parse_number_lit.
  assert (H : (k <? 0)%Z = false) by (apply Z.ltb_ge; lia). rewrite H.
  assert (H0 : (Z.of_nat (length stk) <? k)%Z = true) by (apply Z.ltb_lt; lia). rewrite H0. reflexivity.
Qed.
Theorem reject_negative_count k m stk : (k < 0)%Z -> parse_token (HIEUH :: lit_word k, m) stk = inr NegArity.
Proof.
  intros Hk. unfold parse_token. change (HIEUH =? HIEUH) with true. cbv iota.
  destruct (lit_word_cons k) as (c & r & E). rewrite E, <- E, parse_number_lit.
  assert (H : (k <? 0)%Z = true) by (apply Z.ltb_lt; lia). rewrite H. reflexivity.
Qed.
