Require Import Base Strings Builtins Interp Machine Spec.
From Coq Require Import ExtrOcamlBasic.
Extraction "model2.ml" agree.
