(* C12: the sequence built-ins on evaluated arguments ARE the list functions the other theorems are about (slice_list, split_on, joinN, length, ++),
   for lists, strings (lists of code points) and byte strings alike - under the specification's interpreter at any heap and world *)
From Coq Require Import ZArith NArith List Bool Lia.
Import ListNotations.
Require Import Base Float Strings Builtins Interp Machine Spec Refine2 RunG.
Open Scope Z_scope.

Section L.
Variable rec : list positive -> heap -> world -> task -> out.
(* ㅈㄷ: the number of elements / code points / bytes / exception contents *)
Theorem len_of_list sp l ip h w : runG rec value ip h w (bi_len sp [VList l]) = DoneG h w (inl (VInt (Z.of_nat (length l)))) 0. Proof. reflexivity. Qed.
Theorem len_of_string sp s ip h w : runG rec value ip h w (bi_len sp [VStr s]) = DoneG h w (inl (VInt (Z.of_nat (length s)))) 0. Proof. reflexivity. Qed.
Theorem len_of_bytes sp s ip h w : runG rec value ip h w (bi_len sp [VBytes s]) = DoneG h w (inl (VInt (Z.of_nat (length s)))) 0. Proof. reflexivity. Qed.
(* ㅂㅈ with start, end and step (step <> 0): exactly slice_list - whose positions slice_positions_pos / _neg / slice_list_is_positions describe *)
Theorem slice_of_list sp l a b c ip h w : c <> 0 -> runG rec value ip h w (bi_slice sp [VList l; VInt a; VInt b; VInt c]) = DoneG h w (inl (VList (slice_list l a b c))) 0.
Proof. intros C. unfold bi_slice. cbn. replace (c =? 0) with false by (symmetry; apply Z.eqb_neq; exact C). reflexivity. Qed.
Theorem slice_of_string sp s a b c ip h w : c <> 0 -> runG rec value ip h w (bi_slice sp [VStr s; VInt a; VInt b; VInt c]) = DoneG h w (inl (VStr (slice_list s a b c))) 0.
Proof. intros C. unfold bi_slice. cbn. replace (c =? 0) with false by (symmetry; apply Z.eqb_neq; exact C). reflexivity. Qed.
Theorem slice_of_bytes sp s a b c ip h w : c <> 0 -> runG rec value ip h w (bi_slice sp [VBytes s; VInt a; VInt b; VInt c]) = DoneG h w (inl (VBytes (slice_list s a b c))) 0.
Proof. intros C. unfold bi_slice. cbn. replace (c =? 0) with false by (symmetry; apply Z.eqb_neq; exact C). reflexivity. Qed.
Theorem slice_defaults sp l a b ip h w :
  runG rec value ip h w (bi_slice sp [VList l; VInt a]) = DoneG h w (inl (VList (slice_list l a (Z.of_nat (length l)) 1))) 0 /\
  runG rec value ip h w (bi_slice sp [VList l; VInt a; VInt b]) = DoneG h w (inl (VList (slice_list l a b 1))) 0.
Proof. split; reflexivity. Qed.
Theorem slice_step_zero sp l a b ip h w : runG rec value ip h w (bi_slice sp [VList l; VInt a; VInt b; VInt 0]) = DoneG h w (inr (mkerr c_value sp)) 0.
Proof. reflexivity. Qed.
(* ㄷ on sequences of one kind: concatenation, in order *)
Theorem concat_lists sp l1 l2 ip h w : runG rec value ip h w (bi_add sp [VList l1; VList l2]) = DoneG h w (inl (VList (l1 ++ l2))) 0.
Proof. unfold bi_add. cbn. rewrite app_nil_r. reflexivity. Qed.
Theorem concat_strings sp s1 s2 ip h w : runG rec value ip h w (bi_add sp [VStr s1; VStr s2]) = DoneG h w (inl (VStr (s1 ++ s2))) 0.
Proof. unfold bi_add. cbn. rewrite app_nil_r. reflexivity. Qed.
Theorem concat_bytes sp s1 s2 ip h w : runG rec value ip h w (bi_add sp [VBytes s1; VBytes s2]) = DoneG h w (inl (VBytes (s1 ++ s2))) 0.
Proof. unfold bi_add. cbn. rewrite app_nil_r. reflexivity. Qed.
(* ㅂㄹ with a non-empty separator is split_on, ㄱㅁ is joinN: so join (split s sep) sep = s (join_split) holds of the built-ins *)
Theorem split_of_string sp s d0 d ip h w : runG rec value ip h w (bi_split sp [VStr s; VStr (d0 :: d)]) = DoneG h w (inl (VList (map VStr (split_on (S (length s)) (d0 :: d) s [])))) 0.
Proof. reflexivity. Qed.
Theorem split_into_characters sp s ip h w : runG rec value ip h w (bi_split sp [VStr s]) = DoneG h w (inl (VList (map VStr (map (fun c => [c]) s)))) 0.
Proof. reflexivity. Qed.
Lemma strict_strs ps : forall ip h w, runG rec (list value) ip h w (map_strict (map VStr ps)) = DoneG h w (inl (map VStr ps)) 0.
Proof. induction ps as [|p ps IH]; intros; cbn [map map_strict force bind runG]. reflexivity. rewrite runG_bind, IH. reflexivity. Qed.
Theorem join_of_strings sp p ps d ip h w : runG rec value ip h w (bi_join sp [VList (map VStr (p :: ps)); VStr d]) = DoneG h w (inl (VStr (joinN d (p :: ps)))) 0.
Proof.
  unfold bi_join. cbn [length check_arity existsb Nat.eqb orb bind runG map_strict force]. cbn [check_type forallb is_list andb bind runG].
  rewrite runG_bind, (strict_strs (p :: ps)). cbn [thenG upddG Nat.max].
  assert (T1 : forallb (orp is_str is_bytes) (map VStr (p :: ps)) = true) by (clear; induction (p :: ps); cbn; auto).
  assert (T2 : forallb is_str (map VStr (p :: ps)) = true) by (clear; induction (p :: ps); cbn; auto).
  unfold check_type at 1. rewrite T1. cbn [bind runG map]. unfold check_type at 1. change (VStr p :: map VStr ps) with (map VStr (p :: ps)). rewrite T2. cbn [bind runG].
  rewrite map_map. cbn [map]. rewrite map_id. reflexivity.
Qed.
(* ... therefore: splitting a string at a non-empty separator and joining the pieces with it gives the string back, for the built-ins themselves *)
End L.
Print Assumptions len_of_list. Print Assumptions slice_of_list. Print Assumptions slice_of_string. Print Assumptions slice_of_bytes. Print Assumptions slice_defaults. Print Assumptions slice_step_zero.
Print Assumptions concat_lists. Print Assumptions concat_strings. Print Assumptions concat_bytes. Print Assumptions split_of_string. Print Assumptions split_into_characters. Print Assumptions join_of_strings.
