Require Import ImpSearch.
From Coq Require Import ExtrOcamlBasic.
Extraction "imodel.ml" search name_lit.
