(* DRAFT proofs for C03-T1 on the real model, part B: the two-run theorem *)
From Coq Require Import ZArith NArith List Bool FMapPositive Lia.
Import ListNotations.
Require Import Base Strings Num Builtins Interp Machine Spec HeapFacts Refine1 Refine2 Refine3 Refine4 RelA.

Section Main.
Variable hole : ast -> ast -> Prop.
Notation hrel := (hrel hole). Notation crel := (crel hole). Notation untouched := (untouched hole).
Notation cellrel := (cellrel hole). Notation arel := (arel hole).

Definition P n (c c':Comp value) := forall ip h h' w hf wf r d,
  run (bs n) ip h w c = Done hf wf r d -> hrel h h' -> inv h ip -> untouched hf ->
  exists hf', run (bs n) ip h' w c' = Done hf' wf r d /\ hrel hf hf'.
Definition RA n := forall ip h h' w t hf wf r d,
  bs n ip h w (TThunk t) = Done hf wf r d -> hrel h h' -> inv h ip -> uncached h t -> ~ In t ip -> untouched hf ->
  exists hf', bs n ip h' w (TThunk t) = Done hf' wf r d /\ hrel hf hf'.
Definition RC n := forall c c', crel c c' -> forall ip h h' w hf wf r d,
  bs n ip h w (TComp c) = Done hf wf r d -> hrel h h' -> inv h ip -> untouched hf ->
  exists hf', bs n ip h' w (TComp c') = Done hf' wf r d /\ hrel hf hf'.

(* monotonicity facts, read off the simulation theorem *)
Lemma mono_run n c ip h w hf wf r d : run (bs n) ip h w c = Done hf wf r d -> inv h ip -> hle h hf /\ inv hf ip.
Proof. intros Hr Hi. destruct (sim_all n) as (_ & _ & HB). destruct (HB _ _ _ _ _ _ _ _ Hr Hi) as (_ & L & I). auto. Qed.
Lemma mono_comp n c ip h w hf wf r d : bs n ip h w (TComp c) = Done hf wf r d -> inv h ip -> hle h hf /\ inv hf ip.
Proof. intros Hr Hi. destruct (sim_all n) as (_ & HC & _). destruct (HC _ _ _ _ _ _ _ _ Hr Hi) as (_ & L & I). auto. Qed.
Lemma mono_thunk n ip h w t hf wf r d : bs n ip h w (TThunk t) = Done hf wf r d -> uncached h t -> ~ In t ip -> inv h ip ->
  hle h hf /\ inv hf ip /\ cached hf t /\ rstrict r.
Proof. intros Hr Hu Hn Hi. destruct (sim_all n) as (HA & _ & _). destruct (HA _ _ _ _ _ _ _ _ Hr Hu Hn Hi) as (_ & L & I & C & S). auto. Qed.

Ltac fin := eexists; split; [reflexivity|auto].

Lemma cont_ok (f:out -> out) : True. Proof. exact I. Qed.
Ltac use IHx Hrx := let hf' := fresh "hf'" in let E := fresh "E" in let Hh' := fresh "Hh'" in
  apply updd_inv in Hrx; destruct Hrx as (?d & Hrx & ->).

Lemma Same n : RA n -> RC n -> forall c, P n c c.
Proof.
  intros HA HC c.
  induction c as [v|e|v k IH|a e k IH|b e k IH|f k IH|f av k IH|k IH|t k IH|p k IH|c1 hd k IHc IHh IHk|op k IH] using comp_value_ind;
    intros ip h h' w hf wf r D Hr Hh Hi Hu; cbn [run] in *.
  - inversion Hr; subst. fin.
  - inversion Hr; subst. fin.
  - (* Force *)
    destruct v as [z|fl|b|s|s|l|d|f|i|sp l| |u|cr ci]; try (eapply IH; eauto).
    destruct (get h u) as [cl|] eqn:G.
    2:{ rewrite (hrel_get_none _ _ _ _ Hh G). inversion Hr; subst. fin. }
    destruct (hrel_get _ _ _ _ _ Hh G) as (cl' & G' & Ee & Ec & Ep & Ra). rewrite G', <- Ec.
    destruct (c_cache cl) as [[sv|e]|] eqn:C.
    + eapply IH; eauto.
    + inversion Hr; subst. fin.
    + destruct (existsb (Pos.eqb u) ip) eqn:Ex; [discriminate|].
      destruct (bs n ip h w (TThunk u)) as [h1 w1 r1 d1| |] eqn:Hb; try discriminate.
      assert (Hun : uncached h u) by (exists cl; auto).
      destruct (mono_thunk _ _ _ _ _ _ _ _ _ Hb Hun (existsb_false_notin _ _ Ex) Hi) as (L1 & I1 & _ & _).
      destruct r1 as [sv|e].
      * apply updd_inv in Hr. destruct Hr as (d2 & Hr & ->).
        assert (Hu1 : untouched h1). { destruct (mono_run _ _ _ _ _ _ _ _ _ Hr I1) as (L2 & _). eapply untouched_mono; eauto. }
        destruct (HA _ _ _ _ _ _ _ _ _ Hb Hh Hi Hun (existsb_false_notin _ _ Ex) Hu1) as (h1' & Hb' & Hh1). rewrite Hb'.
        destruct (IH _ _ _ _ _ _ _ _ _ Hr Hh1 I1 Hu) as (hf' & E & Hh'). rewrite E. fin.
      * inversion Hr; subst.
        destruct (HA _ _ _ _ _ _ _ _ _ Hb Hh Hi Hun (existsb_false_notin _ _ Ex) Hu) as (h1' & Hb' & Hh1). rewrite Hb'. fin.
  - (* Alloc *)
    destruct (hrel_alloc hole h h' a a e Hh (or_introl (arel_refl hole a))) as [Hh1 Es].
    destruct (alloc h a e) as [h1 x] eqn:Al. destruct (alloc h' a e) as [h1' x'] eqn:Al'. cbn [fst snd] in *. subst x'.
    eapply IH; eauto. replace h1 with (fst (alloc h a e)) by (rewrite Al; auto). apply inv_alloc; auto.
  - (* NewClo *)
    destruct (hrel_newclo hole h h' b b e Hh (arel_refl hole b)) as [Hh1 Es].
    destruct (newclo h b e) as [h1 x] eqn:Al. destruct (newclo h' b e) as [h1' x'] eqn:Al'. cbn [fst snd] in *. subst x'.
    eapply IH; eauto. replace h1 with (fst (newclo h b e)) by (rewrite Al; auto). apply inv_newclo; auto.
  - (* CloDepth *)
    destruct (PositiveMap.find f (clos h)) as [cl|] eqn:Fc.
    + destruct (hrel_clo _ _ _ _ _ Hh Fc) as (cl' & Fc' & Ee & _). rewrite Fc', <- Ee. eapply IH; eauto.
    + rewrite (hrel_clo_none _ _ _ _ Hh Fc). inversion Hr; subst. fin.
  - (* AllocBody *)
    unfold alloc_body in *. destruct (PositiveMap.find f (clos h)) as [cl|] eqn:Fc.
    + destruct (hrel_clo _ _ _ _ _ Hh Fc) as (cl' & Fc' & Ee & Rb). rewrite Fc', <- Ee.
      set (e1 := {| funs := funs (f_env cl); args := Base.args (f_env cl) ++ [av] |}) in *.
      destruct (hrel_alloc hole h h' (f_body cl) (f_body cl') e1 Hh (or_introl Rb)) as [Hh1 Es].
      destruct (alloc h (f_body cl) e1) as [h1 x] eqn:Al. destruct (alloc h' (f_body cl') e1) as [h1' x'] eqn:Al'. cbn [fst snd] in *. subst x'.
      eapply IH; eauto. replace h1 with (fst (alloc h (f_body cl) e1)) by (rewrite Al; auto). apply inv_alloc; auto.
    + rewrite (hrel_clo_none _ _ _ _ Hh Fc). inversion Hr; subst. fin.
  - (* Fresh *)
    destruct (hrel_fresh hole h h' Hh) as [Hh1 Es].
    destruct (fresh h) as [h1 x] eqn:Al. destruct (fresh h') as [h1' x'] eqn:Al'. cbn [fst snd] in *. subst x'.
    eapply IH; eauto. replace h1 with (fst (fresh h)) by (rewrite Al; auto). apply inv_fresh; auto.
  - (* PeekLit *)
    destruct (get h t) as [cl|] eqn:G.
    2:{ rewrite (hrel_get_none _ _ _ _ Hh G). inversion Hr; subst. fin. }
    destruct (hrel_get _ _ _ _ _ Hh G) as (cl' & G' & Rc). rewrite G'.
    assert (I1 : inv (set_peeked h t) ip) by (apply inv_peek; auto).
    destruct (mono_run _ _ _ _ _ _ _ _ _ Hr I1) as (L1 & _).
    destruct Rc as (Ee & Ec & Ep & [Ra|(Rh & _ & _)]).
    + rewrite <- (arel_lit hole _ _ Ra). eapply IH; eauto. eapply hrel_peek; eauto. repeat split; auto.
    + exfalso. destruct L1 as [_ L1]. destruct (L1 _ _ (get_peek_same _ _ _ G)) as (c2 & G2 & Ea & _ & _ & Hp). simpl in *.
      destruct (Hu _ _ G2) as [_ Pf]. { rewrite Ea. eexists; eauto. } specialize (Hp eq_refl). congruence.
  - (* Call *)
    destruct (bs n ip h w (TComp (proc_body p))) as [h1 w1 r1 d1| |] eqn:Hb; try discriminate.
    destruct (mono_comp _ _ _ _ _ _ _ _ _ Hb Hi) as (L1 & I1).
    destruct r1 as [sv|e].
    + apply updd_inv in Hr. destruct Hr as (d2 & Hr & ->).
      assert (Hu1 : untouched h1). { destruct (mono_run _ _ _ _ _ _ _ _ _ Hr I1) as (L2 & _). eapply untouched_mono; eauto. }
      destruct (HC _ _ (c_same hole (proc_body p)) _ _ _ _ _ _ _ _ Hb Hh Hi Hu1) as (h1' & Hb' & Hh1). rewrite Hb'.
      destruct (IH _ _ _ _ _ _ _ _ _ Hr Hh1 I1 Hu) as (hf' & E & Hh'). rewrite E. fin.
    + inversion Hr; subst.
      destruct (HC _ _ (c_same hole (proc_body p)) _ _ _ _ _ _ _ _ Hb Hh Hi Hu) as (h1' & Hb' & Hh1). rewrite Hb'. fin.
  - (* Catch *)
    destruct (run (bs n) ip h w c1) as [h1 w1 r1 d1| |] eqn:Hr1; try discriminate.
    destruct (mono_run _ _ _ _ _ _ _ _ _ Hr1 Hi) as (L1 & I1).
    destruct r1 as [sv|e].
    + apply updd_inv in Hr. destruct Hr as (d2 & Hr & ->).
      assert (Hu1 : untouched h1). { destruct (mono_run _ _ _ _ _ _ _ _ _ Hr I1) as (L2 & _). eapply untouched_mono; eauto. }
      destruct (IHc _ _ _ _ _ _ _ _ Hr1 Hh Hi Hu1) as (h1' & Hr1' & Hh1). rewrite Hr1'.
      destruct (IHk _ _ _ _ _ _ _ _ _ Hr Hh1 I1 Hu) as (hf' & E & Hh'). rewrite E. fin.
    + destruct (unmodelled e) eqn:Um.
      { inversion Hr; subst. destruct (IHc _ _ _ _ _ _ _ _ Hr1 Hh Hi Hu) as (h1' & Hr1' & Hh1). rewrite Hr1', Um. fin. }
      apply updd_inv in Hr. destruct Hr as (d3 & Hr & ->).
      destruct (run (bs n) ip h1 w1 (hd e)) as [h2 w2 r2 d2| |] eqn:Hr2; try discriminate.
      destruct (mono_run _ _ _ _ _ _ _ _ _ Hr2 I1) as (L2 & I2).
      destruct r2 as [sv|e2].
      * apply updd_inv in Hr. destruct Hr as (d4 & Hr & ->).
        assert (Hu2 : untouched h2). { destruct (mono_run _ _ _ _ _ _ _ _ _ Hr I2) as (L3 & _). eapply untouched_mono; eauto. }
        assert (Hu1 : untouched h1) by (eapply untouched_mono; eauto).
        destruct (IHc _ _ _ _ _ _ _ _ Hr1 Hh Hi Hu1) as (h1' & Hr1' & Hh1). rewrite Hr1', Um.
        destruct (IHh _ _ _ _ _ _ _ _ _ Hr2 Hh1 I1 Hu2) as (h2' & Hr2' & Hh2). rewrite Hr2'.
        destruct (IHk _ _ _ _ _ _ _ _ _ Hr Hh2 I2 Hu) as (hf' & E & Hh'). rewrite E. fin.
      * inversion Hr; subst.
        assert (Hu1 : untouched h1) by (eapply untouched_mono; eauto).
        destruct (IHc _ _ _ _ _ _ _ _ Hr1 Hh Hi Hu1) as (h1' & Hr1' & Hh1). rewrite Hr1', Um.
        destruct (IHh _ _ _ _ _ _ _ _ _ Hr2 Hh1 I1 Hu) as (h2' & Hr2' & Hh2). rewrite Hr2'. fin.
  - (* World *)
    destruct (wstep w op) as [w2 [rv|re]]; [eapply IH; eauto|]. inversion Hr; subst. exists h'. split; auto.
Qed.

Lemma Rel n : RA n -> RC n -> forall c c', crel c c' -> P n c c'.
Proof.
  intros HA HC c c' R. induction R as [c|a a' e k k' Ha Hk IH|b b' e k k' Hb Hk IH]; intros ip h h' w hf wf r D Hr Hh Hi Hu.
  - eapply Same; eauto.
  - cbn [run] in *. destruct (hrel_alloc hole h h' a a' e Hh Ha) as [Hh1 Es].
    destruct (alloc h a e) as [h1 x] eqn:Al. destruct (alloc h' a' e) as [h1' x'] eqn:Al'. cbn [fst snd] in *. subst x'.
    eapply IH; eauto. replace h1 with (fst (alloc h a e)) by (rewrite Al; auto). apply inv_alloc; auto.
  - cbn [run] in *. destruct (hrel_newclo hole h h' b b' e Hh Hb) as [Hh1 Es].
    destruct (newclo h b e) as [h1 x] eqn:Al. destruct (newclo h' b' e) as [h1' x'] eqn:Al'. cbn [fst snd] in *. subst x'.
    eapply IH; eauto. replace h1 with (fst (newclo h b e)) by (rewrite Al; auto). apply inv_newclo; auto.
Qed.
End Main.
