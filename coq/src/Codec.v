(* DRAFT: C16 - the fixed-width integer codecs are mutually inverse and bit-exact for every width, order and signedness. *)
From Coq Require Import ZArith NArith List Bool Lia.
Import ListNotations.
Require Import Base Strings Builtins.
Open Scope Z_scope.

Definition P (w:nat) : Z := 256 ^ Z.of_nat w.
Lemma P_pos w : 0 < P w. Proof. unfold P. apply Z.pow_pos_nonneg; lia. Qed.
Lemma P_S w : P (S w) = 256 * P w. Proof. unfold P. rewrite Nat2Z.inj_succ, Z.pow_succ_r by lia. reflexivity. Qed.
Lemma P_even w : (0 < w)%nat -> P w = 2 * (P w / 2).
Proof. destruct w as [|w]; [lia|]. intros _. rewrite P_S. replace (256 * P w) with (2 * (128 * P w)) by ring. rewrite Z.mul_comm at 2. rewrite Z.div_mul by lia. lia. Qed.

Lemma le_bytes_length w n : length (le_bytes w n) = w.
Proof. revert n; induction w as [|w IH]; intros n; simpl; auto. Qed.
Lemma le_bytes_range w n : Forall (fun b => (b < 256)%N) (le_bytes w n).
Proof.
  revert n; induction w as [|w IH]; intros n; cbn [le_bytes]; constructor; auto.
  assert (0 <= n mod 256 < 256) by (apply Z.mod_pos_bound; lia). lia.
Qed.
Theorem le_roundtrip : forall w n, 0 <= n < P w -> le_value (le_bytes w n) = n.
Proof.
  induction w as [|w IH]; intros n H.
  - unfold P in H. simpl in H. simpl. lia.
  - cbn [le_bytes le_value]. rewrite P_S in H. rewrite IH.
    + rewrite Z2N.id by (apply Z.mod_pos_bound; lia). pose proof (Z.div_mod n 256). lia.
    + split; [apply Z.div_pos; lia|apply Z.div_lt_upper_bound; lia].
Qed.
Theorem le_value_range : forall l, Forall (fun b => (b < 256)%N) l -> 0 <= le_value l < P (length l).
Proof.
  induction 1 as [|b l Hb Hl IH]; [unfold P; simpl; lia|]. cbn [le_value length]. rewrite P_S. lia.
Qed.
Lemma DM c v : 0 <= c < 256 -> (c + 256 * v) mod 256 = c /\ (c + 256 * v) / 256 = v.
Proof. intros Hc. pose proof (Z.mod_pos_bound (c + 256 * v) 256 ltac:(lia)). pose proof (Z.div_mod (c + 256 * v) 256 ltac:(lia)). lia. Qed.
Theorem le_bytes_value : forall l, Forall (fun b => (b < 256)%N) l -> le_bytes (length l) (le_value l) = l.
Proof.
  induction 1 as [|b l Hb Hl IH]; [reflexivity|]. cbn [le_value length le_bytes].
  pose proof (le_value_range l Hl) as R.
  assert (E1 : (Z.of_N b + 256 * le_value l) mod 256 = Z.of_N b).
  { apply DM. lia. }
  assert (E2 : (Z.of_N b + 256 * le_value l) / 256 = le_value l).
  { apply DM. lia. }
  rewrite E1, E2, N2Z.id, IH. reflexivity.
Qed.

(* the codec as used by codec_body, without the monadic wrapper *)
Definition enc (signed bigend:bool) (w:nat) (n:Z) : option (list N) :=
  if (if signed then (- P w <=? 2 * n) && (2 * n <? P w) else (0 <=? n) && (n <? P w))
  then let bs := le_bytes w (n mod P w) in Some (if bigend then rev bs else bs) else None.
Definition dec (signed bigend:bool) (bs:list N) : Z :=
  let l := if bigend then rev bs else bs in
  let v := le_value l in
  let w := length bs in
  if signed && (P w <=? 2 * v) then v - P w else v.

Lemma P_two w : (0 < w)%nat -> exists q, P w = 2 * q.
Proof. destruct w as [|w]; [lia|]. intros _. exists (128 * P w). rewrite P_S. lia. Qed.
Lemma mod_neg_range m n : 0 < m -> - m <= n < 0 -> n mod m = n + m.
Proof. intros Hm Hn. symmetry. apply Z.mod_unique with (q := -1); lia. Qed.

(* EVERY width, the empty byte string included (it holds 0 and nothing else) *)
Theorem int_roundtrip signed bigend w n bs : enc signed bigend w n = Some bs -> dec signed bigend bs = n /\ length bs = w.
Proof.
  unfold enc. destruct (if signed then _ else _) eqn:R; [|discriminate].
  intros H; inversion H; subst bs; clear H.
  assert (L : length (if bigend then rev (le_bytes w (n mod P w)) else le_bytes w (n mod P w)) = w) by (destruct bigend; rewrite ?rev_length; apply le_bytes_length).
  split; auto. unfold dec. rewrite L.
  replace (if bigend then rev (if bigend then rev (le_bytes w (n mod P w)) else le_bytes w (n mod P w)) else if bigend then rev (le_bytes w (n mod P w)) else le_bytes w (n mod P w))
    with (le_bytes w (n mod P w)) by (destruct bigend; rewrite ?rev_involutive; reflexivity).
  pose proof (P_pos w) as Pp.
  rewrite le_roundtrip by (apply Z.mod_pos_bound; lia).
  destruct signed; cbn [andb].
  - apply andb_true_iff in R. destruct R as [R1 R2]. apply Z.leb_le in R1. apply Z.ltb_lt in R2.
    destruct (Z_lt_le_dec n 0) as [Neg|Pos0].
    + rewrite (mod_neg_range (P w) n) by lia. destruct (Z.leb_spec (P w) (2 * (n + P w))); lia.
    + rewrite Z.mod_small by lia. destruct (Z.leb_spec (P w) (2 * n)); lia.
  - apply andb_true_iff in R. destruct R as [R1 R2]. apply Z.leb_le in R1. apply Z.ltb_lt in R2. apply Z.mod_small. lia.
Qed.
(* every in-range integer is encodable, every other one is refused; the signed range -256^w/2 <= n < 256^w/2 is written without division so that
   it is right for no bytes as well (only 0) *)
Theorem enc_defined_iff signed bigend w n :
  (exists bs, enc signed bigend w n = Some bs) <-> (if signed then - P w <= 2 * n < P w else 0 <= n < P w).
Proof.
  unfold enc. destruct signed.
  - destruct ((- P w <=? 2 * n) && (2 * n <? P w)) eqn:R.
    + apply andb_true_iff in R. destruct R as [R1 R2]. apply Z.leb_le in R1. apply Z.ltb_lt in R2. split; [lia|eauto].
    + split; [intros [bs H]; discriminate|]. intros H. apply andb_false_iff in R. destruct R as [R|R]; [apply Z.leb_gt in R|apply Z.ltb_ge in R]; lia.
  - destruct ((0 <=? n) && (n <? P w)) eqn:R.
    + apply andb_true_iff in R. destruct R as [R1 R2]. apply Z.leb_le in R1. apply Z.ltb_lt in R2. split; [lia|eauto].
    + split; [intros [bs H]; discriminate|]. intros H. apply andb_false_iff in R. destruct R as [R|R]; [apply Z.leb_gt in R|apply Z.ltb_ge in R]; lia.
Qed.
(* the familiar form of the signed range for one byte or more *)
Corollary signed_range_halves w n : (0 < w)%nat -> (- P w <= 2 * n < P w <-> - (P w / 2) <= n < P w / 2).
Proof. intros W. destruct (P_two w W) as [q E]. rewrite E. replace (2 * q / 2) with q by (rewrite Z.mul_comm, Z.div_mul; lia). lia. Qed.
(* no bytes: 0 is the only representable integer, under either signedness *)
Corollary width_zero_holds_zero_only signed bigend n : (exists bs, enc signed bigend 0 n = Some bs) <-> n = 0.
Proof. rewrite enc_defined_iff. unfold P. cbn [Z.of_nat Z.pow]. destruct signed; lia. Qed.
(* negative numbers are stored as two's complement: the same bytes as the unsigned encoding of n + 256^w *)
Theorem twos_complement bigend w n bs : n < 0 -> enc true bigend w n = Some bs -> enc false bigend w (n + P w) = Some bs.
Proof.
  intros Neg. unfold enc. pose proof (P_pos w) as Pp.
  destruct ((- P w <=? 2 * n) && (2 * n <? P w)) eqn:R; [|discriminate]. apply andb_true_iff in R. destruct R as [R1 R2]. apply Z.leb_le in R1.
  intros H. replace ((0 <=? n + P w) && (n + P w <? P w)) with true by (symmetry; apply andb_true_iff; split; [apply Z.leb_le|apply Z.ltb_lt]; lia).
  rewrite <- H. replace ((n + P w) mod P w) with (n mod P w) by (rewrite <- (Z.mul_1_l (P w)) at 2; rewrite Z.mod_add by lia; reflexivity). reflexivity.
Qed.
(* big endian is the byte-reversed little endian *)
Theorem big_is_reversed_little signed w n : enc signed true w n = option_map (@rev N) (enc signed false w n).
Proof. unfold enc. destruct (if signed then _ else _); reflexivity. Qed.
(* decoding any byte string (the empty one included) and re-encoding at its width gives the same bytes *)
Theorem bytes_roundtrip signed bigend bs : Forall (fun b => (b < 256)%N) bs ->
  enc signed bigend (length bs) (dec signed bigend bs) = Some bs.
Proof.
  intros F. set (w := length bs). set (l := if bigend then rev bs else bs).
  assert (Fl : Forall (fun b => (b < 256)%N) l) by (subst l; destruct bigend; auto; apply Forall_rev; auto).
  assert (Ll : length l = w) by (subst l; destruct bigend; rewrite ?rev_length; reflexivity).
  pose proof (le_value_range l Fl) as R. rewrite Ll in R. pose proof (P_pos w) as Pp.
  unfold dec. fold w. fold l.
  assert (Back : (if bigend then rev (le_bytes w (le_value l)) else le_bytes w (le_value l)) = bs).
  { rewrite <- Ll, le_bytes_value by auto. subst l. destruct bigend; rewrite ?rev_involutive; reflexivity. }
  unfold enc. destruct signed; cbn [andb].
  - destruct (Z.leb_spec (P w) (2 * le_value l)) as [G|G].
    + replace ((- P w <=? 2 * (le_value l - P w)) && (2 * (le_value l - P w) <? P w)) with true by (symmetry; apply andb_true_iff; split; [apply Z.leb_le|apply Z.ltb_lt]; lia).
      replace ((le_value l - P w) mod P w) with (le_value l) by (apply Z.mod_unique with (q := -1); lia). rewrite Back. reflexivity.
    + replace ((- P w <=? 2 * le_value l) && (2 * le_value l <? P w)) with true by (symmetry; apply andb_true_iff; split; [apply Z.leb_le|apply Z.ltb_lt]; lia).
      rewrite Z.mod_small by lia. rewrite Back. reflexivity.
  - replace ((0 <=? le_value l) && (le_value l <? P w)) with true by (symmetry; apply andb_true_iff; split; [apply Z.leb_le|apply Z.ltb_lt]; lia).
    rewrite Z.mod_small by lia. rewrite Back. reflexivity.
Qed.
Example codec_example : enc true true 2 (-2) = Some [255; 254]%N /\ dec true true [255; 254]%N = -2 /\ enc false false 2 65535 = Some [255;255]%N /\ enc false false 2 65536 = None
  /\ enc true false 0 (-1) = None /\ enc true false 0 0 = Some [] /\ dec true false [] = 0 /\ enc true false 1 128 = None /\ enc true false 1 (-128) = Some [128%N].
Proof. repeat split. Qed.
Print Assumptions int_roundtrip. Print Assumptions bytes_roundtrip. Print Assumptions twos_complement. Print Assumptions enc_defined_iff.
