(* DRAFT: interpret.evaluate / StackFrame / CacheBox as a small-step machine, with observer events and the world *)
From Coq Require Import ZArith NArith List Bool FMapPositive.
Import ListNotations.
Require Import Base Strings Builtins Interp.
Require ImpSearch ModFS.

Inductive kont := KCatch (h:error -> Comp value) (k:value -> Comp value) | KThen (k:value -> Comp value).
Record frame := { fr_tid : option positive; fr_comp : Comp value; fr_konts : list kont }.
Inductive event := EB (d:nat) (t:positive) (sp:span) | EA (d:nat) (t:positive) (sp:span) (kind:N).
(* an open handle: which file, where, how it was opened, whether it has been closed; the BYTES live on the disk, so two handles on one file see each other *)
Record handle := { h_path : list N; h_pos : Z; h_mode : Files.mode; h_closed : bool }.
Record world := { w_in : list (list N); w_out : list N; w_disk : list (list N * list N); w_handles : list (positive * handle); w_nexth : positive;
                  w_mods : list (N * positive) (* module registry: file number -> the module's delayed expression *) }.
(* a world with the given input and output and the files / handles of w *)
Definition with_io (w:world) (i:list (list N)) (o:list N) : world := {| w_in := i; w_out := o; w_disk := w_disk w; w_handles := w_handles w; w_nexth := w_nexth w; w_mods := w_mods w |}.
Definition world_start (stdin:list (list N)) (disk:list (list N * list N)) : world := {| w_in := stdin; w_out := []; w_disk := disk; w_handles := []; w_nexth := 1; w_mods := [] |}.
Definition path_eqb (a b:list N) : bool := if list_eq_dec N.eq_dec a b then true else false.
Fixpoint disk_get (d:list (list N * list N)) (p:list N) : option (list N) := match d with [] => None | (q, c) :: r => if path_eqb q p then Some c else disk_get r p end.
Fixpoint disk_set (d:list (list N * list N)) (p c:list N) : list (list N * list N) :=
  match d with [] => [(p, c)] | (q, c0) :: r => if path_eqb q p then (q, c) :: r else (q, c0) :: disk_set r p c end.
Fixpoint handle_get (l:list (positive * handle)) (i:positive) : option handle := match l with [] => None | (j, x) :: r => if Pos.eqb j i then Some x else handle_get r i end.
Fixpoint handle_set (l:list (positive * handle)) (i:positive) (x:handle) : list (positive * handle) :=
  match l with [] => [(i, x)] | (j, y) :: r => if Pos.eqb j i then (j, x) :: r else (j, y) :: handle_set r i x end.
Definition os_error (sp:span) (errno:Z) : error := {| e_spans := [sp]; e_vals := [VInt 5; VInt c_os; VInt errno] |}.
Definition val_of_result (r:Files.result) : value := match r with Files.RBytes b => VBytes b | Files.RInt n => VInt n end.
(* what a request to the outside world does: the new world and the answer (a value, or a language-level failure) *)
Definition wstep (w:world) (op:worldop) : world * (value + error) :=
  match op with
  | WRead => match w_in w with [] => (w, inl VNil) | l :: r => (with_io w r (w_out w), inl (VStr l)) end
  | WPrint s => (with_io w (w_in w) (w_out w ++ s ++ [10%N]), inl VNil)
  | WOpen sp p m =>                                   (* Files.fopen on what the disk holds under that name; a missing file in a mode that needs it: ENOENT *)
      match Files.fopen m (disk_get (w_disk w) p) with
      | None => (w, inr (os_error sp 2))
      | Some s => let i := w_nexth w in
          ({| w_in := w_in w; w_out := w_out w; w_disk := disk_set (w_disk w) p (Files.content s);
              w_handles := (i, {| h_path := p; h_pos := Files.pos s; h_mode := m; h_closed := false |}) :: w_handles w; w_nexth := Pos.succ i; w_mods := w_mods w |}, inl (VFun (FFile i)))
      end
  | WFile sp i o =>                                   (* FilesTotal.xstep on (bytes on disk, position of the handle) *)
      match handle_get (w_handles w) i with
      | None => (w, inr (os_error sp 9))
      | Some hd =>
          let c := match disk_get (w_disk w) (h_path hd) with Some c => c | None => [] end in
          let '(xs', r) := FilesTotal.xstep {| FilesTotal.xs := {| Files.content := c; Files.pos := h_pos hd; Files.fmode := h_mode hd |}; FilesTotal.xclosed := h_closed hd |} o in
          let w' := {| w_in := w_in w; w_out := w_out w; w_disk := disk_set (w_disk w) (h_path hd) (Files.content (FilesTotal.xs xs'));
                       w_handles := handle_set (w_handles w) i {| h_path := h_path hd; h_pos := Files.pos (FilesTotal.xs xs'); h_mode := h_mode hd; h_closed := FilesTotal.xclosed xs' |};
                       w_nexth := w_nexth w; w_mods := w_mods w |} in
          match r with
          | FilesTotal.XVal v => (w', inl (val_of_result v))
          | FilesTotal.XNil => (w', inl VNil)
          | FilesTotal.XErr e => (w, inr (os_error sp e)) end
      end
  | WFind sp lits =>                                  (* module._search_file_from_literal from "." : ImpSearch.search over the tree the disk denotes *)
      match ImpSearch.search lits (ModFS.tree_of_disk (w_disk w)) with
      | ImpSearch.Found _ id => (w, match nth_error (w_disk w) (N.to_nat id) with Some (nm, _) => inl (VStr (46 :: 47 :: nm)%N) | None => inr (mkerr c_notfound sp) end)
      | ImpSearch.NotFound => (w, inr (mkerr c_notfound sp))
      | ImpSearch.Ambiguous => (w, inr (mkerr c_import sp)) end
  | WLoad sp path =>                                  (* module._load_from_path up to the parse: registry first (by FILE, os.path.samefile), else the text *)
      let p := ModFS.strip_dot path in
      match ModFS.index_of (w_disk w) p 0 with
      | None => (w, inr (os_error sp (ModFS.open_errno (w_disk w) p)))
      | Some (id, bytes) =>
          match ModFS.mod_get (w_mods w) id with
          | Some t => (w, inl (VThunk t))
          | None => (w, match ModFS.text_of bytes with Some text => inl (VStr text) | None => inr (mkerr c_import sp) end) end
      end
  | WRegister path t =>
      match ModFS.index_of (w_disk w) (ModFS.strip_dot path) 0 with
      | Some (id, _) => ({| w_in := w_in w; w_out := w_out w; w_disk := w_disk w; w_handles := w_handles w; w_nexth := w_nexth w; w_mods := (id, t) :: w_mods w |}, inl VNil)
      | None => (w, inl VNil) end
  end.
(* what evaluation may not touch: input, output, files, handles *)
Definition io_of (w:world) := (w_in w, w_out w, w_disk w, w_handles w, w_nexth w).
Lemma module_op_keeps_io w op : module_op op = true -> io_of (fst (wstep w op)) = io_of w.
Proof.
  destruct op; try discriminate; intros _; cbn [wstep].
  - destruct (ImpSearch.search _ _); reflexivity.
  - destruct (ModFS.index_of _ _ _) as [[id b]|]; [destruct (ModFS.mod_get _ _)|]; reflexivity.
  - destruct (ModFS.index_of _ _ _) as [[id b]|]; reflexivity.
Qed.
Record dbg := { depth : nat; dstack : list (list positive); events : list event (* newest first *) }.
Record mstate := { m_heap : heap; m_req : PositiveMap.t positive; m_stack : list frame (* top first; the last one is the head coroutine *);
                   m_world : world; m_dbg : dbg }.
Inductive outcome := ODone (v:value) | OErr (e:error) | OLimit | OFuel | OStuck (why:N).
Definition MAX_STACK_SIZE : nat := 5000.      (* regenerated from interpret.py in the real development *)

(* ---------- heap ---------- *)
Definition get (h:heap) (t:positive) := PositiveMap.find t (cells h).
Definition alloc (h:heap) (a:ast) (e:env) : heap * positive :=
  let t := next_t h in
  ({| cells := PositiveMap.add t {| c_ast := a; c_env := e; c_cache := None; c_peeked := false |} (cells h); next_t := Pos.succ t;
      clos := clos h; next_f := next_f h; next_o := next_o h |}, t).
Definition newclo (h:heap) (b:ast) (e:env) : heap * positive :=
  let f := next_f h in
  ({| cells := cells h; next_t := next_t h;
      clos := PositiveMap.add f {| f_body := b; f_env := {| funs := funs e ++ [f]; args := args e |} |} (clos h); next_f := Pos.succ f; next_o := next_o h |}, f).
Definition fresh (h:heap) : heap * positive :=
  ({| cells := cells h; next_t := next_t h; clos := clos h; next_f := next_f h; next_o := Pos.succ (next_o h) |}, next_o h).
Definition set_cache (h:heap) (t:positive) (r:res) : heap :=
  match get h t with
  | Some c => {| cells := PositiveMap.add t {| c_ast := c_ast c; c_env := c_env c; c_cache := Some r; c_peeked := c_peeked c |} (cells h); next_t := next_t h;
                 clos := clos h; next_f := next_f h; next_o := next_o h |}
  | None => h end.
Definition set_peeked (h:heap) (t:positive) : heap :=
  match get h t with
  | Some c => {| cells := PositiveMap.add t {| c_ast := c_ast c; c_env := c_env c; c_cache := c_cache c; c_peeked := true |} (cells h); next_t := next_t h;
                 clos := clos h; next_f := next_f h; next_o := next_o h |}
  | None => h end.
Definition lit_of (a:ast) : option Z := match a with Lit n _ => Some n | _ => None end.
Definition alloc_body (h:heap) (f:positive) (argv:list value) : option (heap * positive) :=
  match PositiveMap.find f (clos h) with
  | Some cl => Some (alloc h (f_body cl) {| funs := funs (f_env cl); args := args (f_env cl) ++ [argv] |})
  | None => None end.
Fixpoint resolve (fuel:nat) (h:heap) (q:PositiveMap.t positive) (t:positive) (r:res) : heap :=
  match fuel with O => h | S f =>
    let h1 := set_cache h t r in
    match PositiveMap.find t q with Some w => resolve f h1 q w r | None => h1 end end.

Definition start (h:heap) (t:positive) : Comp value :=
  match get h t with
  | None => Raise {| e_spans := []; e_vals := [] |}
  | Some c => match c_cache c with Some (inl v) => Ret v | Some (inr e) => Raise e | None => interpret (c_ast c) (c_env c) end end.
Definition tspan (h:heap) (t:positive) : span := match get h t with Some c => ast_span (c_ast c) | None => (0,0,0)%N end.
Definition kind_of (r:res) : N :=
  match r with
  | inr _ => 0 | inl (VInt _) => 1 | inl (VBool _) => 2 | inl (VStr _) => 3 | inl (VList _) => 4 | inl (VDict _) => 5
  | inl (VFun _) => 6 | inl (VIO _) => 7 | inl (VErr _ _) => 8 | inl VNil => 9 | inl (VThunk _) => 10 | inl (VBytes _) => 11 | inl (VFloat _) => 12 | inl (VComplex _ _) => 13 end%N.

(* ---------- one step of the current frame's coroutine, inside StackFrameBase.communicate ---------- *)
Inductive fstep :=                                       (* what communicate() hands back to evaluate() *)
| FCont (f:frame) (h:heap) (w:world)                     (* still running *)
| FRequest (u:positive) (f:frame)                        (* ComputationRequest(u); frame waits in Force *)
| FResult (r:res) (h:heap) (w:world).                    (* ComputationResult *)

Definition deliver_res (f:frame) (r:res) : frame :=      (* response arrives at a frame waiting in Force *)
  match fr_comp f with
  | Force _ k => match r with
                 | inl v => {| fr_tid := fr_tid f; fr_comp := k v; fr_konts := fr_konts f |}
                 | inr e => {| fr_tid := fr_tid f; fr_comp := Raise e; fr_konts := fr_konts f |} end
  | _ => f end.

Definition frame_step (h:heap) (w:world) (f:frame) : fstep :=
  let upd c := {| fr_tid := fr_tid f; fr_comp := c; fr_konts := fr_konts f |} in
  match fr_comp f with
  | Ret v =>
      match fr_konts f with
      | [] => FResult (inl v) h w
      | KCatch _ k :: ks | KThen k :: ks => FCont {| fr_tid := fr_tid f; fr_comp := k v; fr_konts := ks |} h w end
  | Raise e =>
      match fr_konts f with
      | [] => FResult (inr e) h w
      | KThen _ :: ks => FCont {| fr_tid := fr_tid f; fr_comp := Raise e; fr_konts := ks |} h w
      | KCatch hd k :: ks =>
          if unmodelled e then FCont {| fr_tid := fr_tid f; fr_comp := Raise e; fr_konts := ks |} h w
          else FCont {| fr_tid := fr_tid f; fr_comp := hd e; fr_konts := KThen k :: ks |} h w end
  | Force (VThunk u) k =>
      match get h u with
      | None => FCont (upd (Raise {| e_spans := []; e_vals := [] |})) h w
      | Some c => match c_cache c with
                  | Some (inl v) => FCont (upd (k v)) h w
                  | Some (inr e) => FCont (upd (Raise e)) h w
                  | None => FRequest u f end end
  | Force v k => FCont (upd (k v)) h w
  | Alloc a e k => let (h', t) := alloc h a e in FCont (upd (k t)) h' w
  | NewClo b e k => let (h', g) := newclo h b e in FCont (upd (k g)) h' w
  | CloDepth g k => match PositiveMap.find g (clos h) with Some cl => FCont (upd (k (length (args (f_env cl))))) h w | None => FCont (upd (Raise {| e_spans := []; e_vals := [] |})) h w end
  | AllocBody g av k => match alloc_body h g av with Some (h', t) => FCont (upd (k t)) h' w | None => FCont (upd (Raise {| e_spans := []; e_vals := [] |})) h w end
  | Fresh k => let (h', i) := fresh h in FCont (upd (k i)) h' w
  | PeekLit t k => match get h t with Some c => FCont (upd (k (lit_of (c_ast c)))) (set_peeked h t) w | None => FCont (upd (Raise {| e_spans := []; e_vals := [] |})) h w end
  | Call p k => FCont {| fr_tid := fr_tid f; fr_comp := proc_body p; fr_konts := KThen k :: fr_konts f |} h w
  | Catch c hd k => FCont {| fr_tid := fr_tid f; fr_comp := c; fr_konts := KCatch hd k :: fr_konts f |} h w
  | World op k => let (w', r) := wstep w op in FCont (upd (match r with inl v => k v | inr e => Raise e end)) h w'
  end.

Fixpoint closes (d:nat) (l:list positive) (h:heap) (k:N) : list event :=
  match l with [] => [] | x :: r => EA d x (tspan h x) k :: closes (pred d) r h k end.

(* ---------- evaluate(): one iteration of the while-loop ----------
   The head coroutine is the bottom frame (fr_tid = None); `tail` of the Python is the stack without it. *)
Definition push_dbg (d:dbg) (h:heap) (u:positive) : dbg :=
  {| depth := S (depth d); dstack := [u] :: dstack d; events := EB (S (depth d)) u (tspan h u) :: events d |}.
Definition tail_dbg (d:dbg) (h:heap) (t':positive) : dbg :=
  match dstack d with
  | g :: tl => {| depth := S (depth d); dstack := (g ++ [t']) :: tl; events := EB (S (depth d)) t' (tspan h t') :: events d |}
  | [] => d end.
Definition pop_dbg (d:dbg) (h:heap) (r:res) : dbg :=
  match dstack d with
  | g :: tl => {| depth := depth d - length g; dstack := tl; events := rev (closes (depth d) (rev g) h (kind_of r)) ++ events d |}
  | [] => d end.
Definition new_frame (h:heap) (u:positive) : frame := {| fr_tid := Some u; fr_comp := start h u; fr_konts := [] |}.

Definition step_with (lim:option nat) (s:mstate) : mstate + outcome :=
  let h := m_heap s in let d := m_dbg s in
  match m_stack s with
  | [] => inr (OStuck 0)
  | top :: rest =>
      if match lim with Some m => (negb (Nat.eqb (length rest) 0)) && (m <=? length rest)%nat | None => false end then inr OLimit else
      match frame_step h (m_world s) top with
      | FCont f' h' w' => inl {| m_heap := h'; m_req := m_req s; m_stack := f' :: rest; m_world := w'; m_dbg := d |}
      | FRequest u f' =>
          inl {| m_heap := h; m_req := m_req s; m_stack := new_frame h u :: f' :: rest; m_world := m_world s; m_dbg := push_dbg d h u |}
      | FResult r h' w' =>
          match fr_tid top, rest with
          | None, _ => inr (match r with inl v => ODone v | inr e => OErr e end)          (* head finished *)
          | Some t, parent :: rest' =>
              match r with
              | inl (VThunk t') =>                                                        (* tail return *)
                  inl {| m_heap := h'; m_req := PositiveMap.add t' t (m_req s); m_stack := new_frame h' t' :: rest;
                         m_world := w'; m_dbg := tail_dbg d h' t' |}
              | _ =>
                  let h2 := resolve (S (Pos.to_nat (next_t h'))) h' (m_req s) t r in
                  inl {| m_heap := h2; m_req := m_req s; m_stack := deliver_res parent r :: rest'; m_world := w'; m_dbg := pop_dbg d h2 r |}
              end
          | Some _, [] => inr (OStuck 2)
          end
      end
  end.

Definition step := step_with (Some MAX_STACK_SIZE).

Fixpoint run (fuel:nat) (s:mstate) : outcome * mstate :=
  match fuel with O => (OFuel, s) | S f => match step s with inl s' => run f s' | inr o => (o, s) end end.

(* main.main for one expression: format it (format_io = false, as the test-suite calls it) *)
Definition init (prog:ast) (stdin:list (list N)) : mstate :=
  let (h, t) := alloc heap0 prog {| funs := []; args := [] |} in
  {| m_heap := h; m_req := PositiveMap.empty _; m_stack := [{| fr_tid := None; fr_comp := call (PFormat (VThunk t) false); fr_konts := [] |}];
     m_world := world_start stdin []; m_dbg := {| depth := 0; dstack := []; events := [] |} |}.
Definition run_main (fuel:nat) (prog:ast) (stdin:list (list N)) : outcome * mstate := run fuel (init prog stdin).
(* the same with files on the disk when the program starts *)
Definition init_fs (prog:ast) (stdin:list (list N)) (disk:list (list N * list N)) : mstate :=
  let (h, t) := alloc heap0 prog {| funs := []; args := [] |} in
  {| m_heap := h; m_req := PositiveMap.empty _; m_stack := [{| fr_tid := None; fr_comp := call (PFormat (VThunk t) false); fr_konts := [] |}];
     m_world := world_start stdin disk; m_dbg := {| depth := 0; dstack := []; events := [] |} |}.
Definition run_main_fs (fuel:nat) (prog:ast) (stdin:list (list N)) (disk:list (list N * list N)) : outcome * mstate := run fuel (init_fs prog stdin disk).

(* main.main on several expressions: one evaluate() per expression, in the heap and world left by the ones before; stops at the first failure *)
Definition init_in (h:heap) (w:world) (prog:ast) (fio:bool) : mstate :=
  let (h1, t) := alloc h prog {| funs := []; args := [] |} in
  {| m_heap := h1; m_req := PositiveMap.empty _; m_stack := [{| fr_tid := None; fr_comp := call (PFormat (VThunk t) fio); fr_konts := [] |}];
     m_world := w; m_dbg := {| depth := 0; dstack := []; events := [] |} |}.
Fixpoint run_many (fuel:nat) (h:heap) (w:world) (progs:list ast) (fio:bool) : list (outcome * mstate) :=
  match progs with
  | [] => []
  | p :: r => let os := run fuel (init_in h w p fio) in
              os :: match fst os with ODone _ => run_many fuel (m_heap (snd os)) (m_world (snd os)) r fio | _ => [] end
  end.
Definition run_main_many (fuel:nat) (progs:list ast) (stdin:list (list N)) (disk:list (list N * list N)) (fio:bool) : list (outcome * mstate) :=
  run_many fuel heap0 (world_start stdin disk) progs fio.
Lemma init_is_init_in prog stdin : init prog stdin = init_in heap0 (world_start stdin []) prog false. Proof. reflexivity. Qed.
Lemma init_fs_is_init_in prog stdin disk : init_fs prog stdin disk = init_in heap0 (world_start stdin disk) prog false. Proof. reflexivity. Qed.
