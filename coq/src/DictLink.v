(* C06: dictionary construction and merging inside the evaluator ARE dict_insert folds (the function lookup_insert / dict_lookup_iff / merge_spec
   are about): ㅅㅈ inserts the pairs left to right under the KEY forms of the keys (a later equal key replaces the earlier entry), ㄷ on
   dictionaries inserts the entries of each operand in turn into the result.  Key forms are delivered by the evaluation oracle (hypotheses). *)
From Coq Require Import ZArith NArith List Bool Lia.
Import ListNotations.
Require Import Base Float Strings Builtins Interp Machine Spec Refine2 RunG.

Section DictLink.
Variable rec : list positive -> heap -> world -> task -> out.
Variable deep key : value -> value.
Hypothesis DEEP : forall ip h w a, rec ip h w (TComp (proc_body (PDeep a))) = Done h w (inl (deep a)) 0.
Hypothesis KEYS : forall ip h w a, rec ip h w (TComp (proc_body (PKey a))) = Done h w (inl (key a)) 0.
Lemma calls_deep : forall l ip h w, runG rec (list value) ip h w (map_call PDeep l) = DoneG h w (inl (map deep l)) 0.
Proof.
  induction l as [|x l IH]; intros ip h w; cbn [map_call map]; [reflexivity|]. unfold call. cbn [bind runG]. rewrite DEEP. cbn [of_out].
  rewrite runG_bind, IH. reflexivity.
Qed.
Lemma calls_key : forall l ip h w, runG rec (list value) ip h w (map_call PKey l) = DoneG h w (inl (map key l)) 0.
Proof.
  induction l as [|x l IH]; intros ip h w; cbn [map_call map]; [reflexivity|]. unfold call. cbn [bind runG]. rewrite KEYS. cbn [of_out].
  rewrite runG_bind, IH. reflexivity.
Qed.
Theorem dict_construction sp argv ip h w : Nat.odd (length argv) = false ->
  runG rec value ip h w (bi_dict sp argv) = DoneG h w (inl (VDict (zipd (map key (map deep (evens argv))) (odds argv) []))) 0.
Proof. intros E. unfold bi_dict. rewrite E. rewrite runG_bind, calls_deep. cbn [thenG upddG Nat.max]. rewrite runG_bind, calls_key. reflexivity. Qed.
Theorem dict_construction_odd sp argv ip h w : Nat.odd (length argv) = true -> runG rec value ip h w (bi_dict sp argv) = DoneG h w (inr (mkerr c_value sp)) 0.
Proof. intros E. unfold bi_dict. rewrite E. reflexivity. Qed.
End DictLink.
(* merging: the entries of every operand, in order, inserted into one dictionary *)
Theorem dict_merge rec sp d1 d2 ip h w : runG rec value ip h w (bi_add sp [VDict d1; VDict d2]) =
  DoneG h w (inl (VDict (fold_left (fun a kv => dict_insert a (fst kv) (snd kv)) d2 (fold_left (fun a kv => dict_insert a (fst kv) (snd kv)) d1 [])))) 0.
Proof. reflexivity. Qed.
Print Assumptions dict_construction. Print Assumptions dict_construction_odd. Print Assumptions dict_merge.
