(* DRAFT proofs for C03-T1 on the real model, part A: relations between two runs that differ only at marked
   ("hole") argument positions, and the heap relation lemmas *)
From Coq Require Import ZArith NArith List Bool FMapPositive Lia.
Import ListNotations.
Require Import Base Strings Num Builtins Interp Machine Spec HeapFacts Refine1 Refine2.

Section Rel.
Variable hole : ast -> ast -> Prop.
Definition holeL (a:ast) := exists a', hole a a'.

Inductive arel : ast -> ast -> Prop :=
| r_lit n m : arel (Lit n m) (Lit n m)
| r_funref r m : arel (FunRef r m) (FunRef r m)
| r_argref a a' r m : arel a a' -> arel (ArgRef a r m) (ArgRef a' r m)
| r_fundef b b' m : arel b b' -> arel (FunDef b m) (FunDef b' m)
| r_funcall f f' args args' m : arel f f' -> Forall2 (fun a a' => arel a a' \/ hole a a') args args' ->
    arel (FunCall f args m) (FunCall f' args' m).
Definition argrel a a' := arel a a' \/ hole a a'.

Fixpoint arel_refl (a:ast) : arel a a :=
  match a with
  | Lit n m => r_lit n m | FunRef r m => r_funref r m
  | ArgRef x r m => r_argref x x r m (arel_refl x)
  | FunDef b m => r_fundef b b m (arel_refl b)
  | FunCall f args m => r_funcall f f args args m (arel_refl f)
      ((fix go (l:list ast) : Forall2 (fun a a' => arel a a' \/ hole a a') l l :=
          match l with [] => Forall2_nil _ | x :: r => Forall2_cons x x (or_introl (arel_refl x)) (go r) end) args)
  end.
Lemma arel_lit a a' : arel a a' -> lit_of a = lit_of a'.
Proof. destruct 1; reflexivity. Qed.
Lemma arel_span a a' : arel a a' -> ast_span a = ast_span a'.
Proof. destruct 1; reflexivity. Qed.

Definition clorel (c c':clo) := f_env c = f_env c' /\ arel (f_body c) (f_body c').
Definition cellrel (c c':cell) :=
  c_env c = c_env c' /\ c_cache c = c_cache c' /\ c_peeked c = c_peeked c' /\
  (arel (c_ast c) (c_ast c') \/ (hole (c_ast c) (c_ast c') /\ c_cache c = None /\ c_peeked c = false)).
Definition optrel {A} (R:A -> A -> Prop) (x y:option A) := match x, y with Some a, Some b => R a b | None, None => True | _, _ => False end.
Definition hrel (h h':heap) :=
  next_t h = next_t h' /\ next_f h = next_f h' /\ next_o h = next_o h' /\
  (forall t, optrel cellrel (get h t) (get h' t)) /\
  (forall f, optrel clorel (PositiveMap.find f (clos h)) (PositiveMap.find f (clos h'))).

Inductive crel : Comp value -> Comp value -> Prop :=
| c_same c : crel c c
| c_alloc a a' e k k' : argrel a a' -> (forall t, crel (k t) (k' t)) -> crel (Alloc a e k) (Alloc a' e k')
| c_newclo b b' e k k' : arel b b' -> (forall f, crel (k f) (k' f)) -> crel (NewClo b e k) (NewClo b' e k').

Lemma allocs_rel l l' e : Forall2 argrel l l' -> forall acc k k', (forall ts, crel (k ts) (k' ts)) -> crel (allocs_k l e acc k) (allocs_k l' e acc k').
Proof.
  induction 1 as [|a a' r r' Ha Hr IH]; intros acc k k' Hk; cbn [allocs_k]. apply Hk.
  apply c_alloc; auto.
Qed.
Lemma interpret_rel a a' e : arel a a' -> crel (interpret a e) (interpret a' e).
Proof.
  intros R. destruct R as [n m|r m|x x' r m Rx|b b' m Rb|f f' args args' m Rf Rargs]; cbn [interpret]; try apply c_same.
  - destruct (rnth (Base.args e) r); [|apply c_same]. apply c_alloc. left; auto. intros t. apply c_same.
  - apply c_newclo; auto. intros g. apply c_same.
  - apply c_alloc. left; auto. intros tf. apply allocs_rel; auto. intros ts. apply c_same.
Qed.

(* ---------- heap relation lemmas ---------- *)
Lemma hrel_get h h' t cl : hrel h h' -> get h t = Some cl -> exists cl', get h' t = Some cl' /\ cellrel cl cl'.
Proof. intros (_ & _ & _ & Hc & _) G. specialize (Hc t). rewrite G in Hc. destruct (get h' t) as [cl'|]; [eauto|contradiction]. Qed.
Lemma hrel_get_none h h' t : hrel h h' -> get h t = None -> get h' t = None.
Proof. intros (_ & _ & _ & Hc & _) G. specialize (Hc t). rewrite G in Hc. destruct (get h' t); [contradiction|auto]. Qed.
Lemma hrel_clo h h' f cl : hrel h h' -> PositiveMap.find f (clos h) = Some cl -> exists cl', PositiveMap.find f (clos h') = Some cl' /\ clorel cl cl'.
Proof. intros (_ & _ & _ & _ & Hf) G. specialize (Hf f). rewrite G in Hf. destruct (PositiveMap.find f (clos h')) as [cl'|]; [eauto|contradiction]. Qed.
Lemma hrel_clo_none h h' f : hrel h h' -> PositiveMap.find f (clos h) = None -> PositiveMap.find f (clos h') = None.
Proof. intros (_ & _ & _ & _ & Hf) G. specialize (Hf f). rewrite G in Hf. destruct (PositiveMap.find f (clos h')); [contradiction|auto]. Qed.

Lemma hrel_alloc h h' a a' e : hrel h h' -> argrel a a' -> hrel (fst (alloc h a e)) (fst (alloc h' a' e)) /\ snd (alloc h a e) = snd (alloc h' a' e).
Proof.
  intros (Nt & Nf & No & Hc & Hf) Ra. split; [|exact Nt]. unfold alloc; cbn [fst]. split; [|split; [|split; [|split]]]; cbn; auto.
  - rewrite Nt; auto.
  - intros t. unfold get; cbn. rewrite <- Nt. destruct (Pos.eq_dec t (next_t h)) as [->|N].
    + rewrite !PositiveMap.gss. unfold cellrel; cbn. repeat split; auto. destruct Ra; [left|right]; auto.
    + rewrite !PositiveMap.gso by auto. apply Hc.
Qed.
Lemma hrel_newclo h h' b b' e : hrel h h' -> arel b b' -> hrel (fst (newclo h b e)) (fst (newclo h' b' e)) /\ snd (newclo h b e) = snd (newclo h' b' e).
Proof.
  intros (Nt & Nf & No & Hc & Hf) Rb. split; [|exact Nf]. unfold newclo; cbn [fst]. split; [|split; [|split; [|split]]]; cbn; auto.
  - rewrite Nf; auto.
  - intros f. rewrite <- Nf. destruct (Pos.eq_dec f (next_f h)) as [->|N].
    + rewrite !PositiveMap.gss. unfold clorel; cbn. split; auto.
    + rewrite !PositiveMap.gso by auto. apply Hf.
Qed.
Lemma hrel_fresh h h' : hrel h h' -> hrel (fst (fresh h)) (fst (fresh h')) /\ snd (fresh h) = snd (fresh h').
Proof. intros (Nt & Nf & No & Hc & Hf). split; [|exact No]. unfold fresh; cbn. repeat split; auto. rewrite No; auto. Qed.
Lemma hrel_set h h' t r cl cl' : hrel h h' -> get h t = Some cl -> get h' t = Some cl' -> arel (c_ast cl) (c_ast cl') -> cellrel cl cl' ->
  hrel (set_cache h t r) (set_cache h' t r).
Proof.
  intros (Nt & Nf & No & Hc & Hf) G G' Ra (Ee & _ & Ep & _). unfold set_cache. rewrite G, G'.
  split; [|split; [|split; [|split]]]; cbn; auto.
  intros u. unfold get; cbn. destruct (Pos.eq_dec u t) as [->|N].
  - rewrite !PositiveMap.gss. unfold cellrel; cbn. repeat split; auto.
  - rewrite !PositiveMap.gso by auto. apply Hc.
Qed.
Lemma hrel_peek h h' t cl cl' : hrel h h' -> get h t = Some cl -> get h' t = Some cl' -> arel (c_ast cl) (c_ast cl') -> cellrel cl cl' ->
  hrel (set_peeked h t) (set_peeked h' t).
Proof.
  intros (Nt & Nf & No & Hc & Hf) G G' Ra (Ee & Ec & _ & _). unfold set_peeked. rewrite G, G'.
  split; [|split; [|split; [|split]]]; cbn; auto.
  intros u. unfold get; cbn. destruct (Pos.eq_dec u t) as [->|N].
  - rewrite !PositiveMap.gss. unfold cellrel; cbn. repeat split; auto.
  - rewrite !PositiveMap.gso by auto. apply Hc.
Qed.

(* the final condition: marked cells were never evaluated and their syntax was never inspected *)
Definition untouched (h:heap) := forall t cl, get h t = Some cl -> holeL (c_ast cl) -> c_cache cl = None /\ c_peeked cl = false.
Lemma untouched_mono h hf : hle h hf -> untouched hf -> untouched h.
Proof.
  intros [_ Hle] Hu t cl G Hh. destruct (Hle _ _ G) as (cl' & G' & Ea & _ & Hc & Hp).
  rewrite <- Ea in Hh. destruct (Hu _ _ G' Hh) as [C' P']. split.
  - destruct (c_cache cl) as [r|] eqn:C; auto. specialize (Hc _ eq_refl). congruence.
  - destruct (c_peeked cl) eqn:P; auto. specialize (Hp eq_refl). congruence.
Qed.
End Rel.
