(* C06: the equality built-in ㄴ compares the KEY forms of its arguments with veqb (the relation the equivalence theorems are about): two
   arguments are equal iff their keys are veqb-equal; with more arguments, iff every later key equals the first (left to right, stopping at the
   first difference).  Stated for arguments whose key form the evaluation oracle delivers without touching heap or world (hypothesis KEYS). *)
From Coq Require Import ZArith NArith List Bool Lia.
Import ListNotations.
Require Import Base Float Strings Builtins Interp Machine Spec Refine2 RunG.

Section EqLink.
Variable rec : list positive -> heap -> world -> task -> out.
Variable key : value -> value.
Hypothesis KEYS : forall ip h w a, rec ip h w (TComp (proc_body (PKey a))) = Done h w (inl (key a)) 0.
Lemma key_call A (k:value -> Comp A) ip h w a : runG rec A ip h w (Call (PKey a) k) = runG rec A ip h w (k (key a)).
Proof. cbn [runG]. rewrite KEYS. cbn [of_out]. destruct (runG rec A ip h w (k (key a))); reflexivity. Qed.
Lemma equals_loop_spec : forall l k1 ip h w, runG rec value ip h w (equals_loop l (Some k1)) = DoneG h w (inl (VBool (forallb (fun a => veqb k1 (key a)) l))) 0.
Proof.
  induction l as [|a l IH]; intros k1 ip h w; cbn [equals_loop forallb]; [reflexivity|].
  unfold call. cbn [bind]. rewrite key_call. destruct (veqb k1 (key a)); cbn [andb runG]; [apply IH|reflexivity].
Qed.
Theorem eq_two sp a b ip h w : runG rec value ip h w (bi_eq sp [a; b]) = DoneG h w (inl (VBool (veqb (key a) (key b)))) 0.
Proof. unfold bi_eq. cbn [equals_loop]. unfold call. cbn [bind]. rewrite key_call. rewrite (equals_loop_spec [b] (key a)). cbn [forallb]. rewrite andb_true_r. reflexivity. Qed.
Theorem eq_many sp a l ip h w : runG rec value ip h w (bi_eq sp (a :: l)) = DoneG h w (inl (VBool (forallb (fun b => veqb (key a) (key b)) l))) 0.
Proof. unfold bi_eq. cbn [equals_loop]. unfold call. cbn [bind]. rewrite key_call. apply equals_loop_spec. Qed.
End EqLink.
Print Assumptions eq_two. Print Assumptions eq_many.
