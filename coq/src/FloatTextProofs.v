(* what repr_float prints, parse_float_text reads back to the same number *)
From Coq Require Import ZArith NArith List Bool SpecFloat Lia.
Import ListNotations.
Require Import FloatText.
Open Scope Z_scope.

Definition digs (l:list N) : Prop := forallb is_digit l = true.
Lemma is_digit_range c : is_digit c = true -> (48 <= c <= 57)%N.
Proof. unfold is_digit. intros H. apply andb_true_iff in H. destruct H as [A B]. apply N.leb_le in A. apply N.leb_le in B. lia. Qed.
Lemma digit_not_space c : is_digit c = true -> is_space c = false.
Proof. intros H. apply is_digit_range in H. unfold is_space. destruct (N.eqb_spec c 32); [lia|]. destruct (N.leb_spec 9 c); destruct (N.leb_spec c 13); cbn; try reflexivity; lia. Qed.
Lemma digit_lower c : is_digit c = true -> lower c = c.
Proof. intros H. apply is_digit_range in H. unfold lower. destruct (N.leb_spec 65 c); [lia|reflexivity]. Qed.
Lemma digit_neq c k : is_digit c = true -> (k < 48 \/ 57 < k)%N -> N.eqb c k = false.
Proof. intros H K. apply is_digit_range in H. apply N.eqb_neq. lia. Qed.

(* take_digits takes exactly the leading digits *)
Lemma take_digits_app ds : digs ds -> forall rest acc, (match rest with c :: _ => is_digit c = false | [] => True end) -> take_digits (ds ++ rest) acc = (rev acc ++ ds, rest).
Proof.
  induction ds as [|d ds IH]; intros D rest acc R.
  - cbn [app]. destruct rest as [|c r]; cbn [take_digits]; [rewrite app_nil_r; reflexivity|]. rewrite R. rewrite app_nil_r. reflexivity.
  - unfold digs in D. cbn [forallb] in D. apply andb_true_iff in D. destruct D as [D1 D2]. cbn [app take_digits]. rewrite D1. rewrite IH by auto. cbn [rev]. rewrite <- app_assoc. reflexivity.
Qed.
Lemma int_of_digits_app a : forall b acc, int_of_digits (a ++ b) acc = int_of_digits b (int_of_digits a acc).
Proof. induction a as [|x a IH]; intros; cbn [app int_of_digits]; auto. Qed.
Lemma int_of_zeros n : forall acc, int_of_digits (zeros n) acc = acc * 10 ^ (Z.of_nat (Z.to_nat n)).
Proof.
  unfold zeros. induction (Z.to_nat n) as [|k IH]; intros acc; cbn [repeat int_of_digits]. rewrite Z.pow_0_r. lia.
  rewrite IH. rewrite Nat2Z.inj_succ, Z.pow_succ_r by lia. change (Z.of_N 48 - 48) with 0. lia.
Qed.
Lemma digs_zeros n : digs (zeros n). Proof. unfold digs, zeros. induction (Z.to_nat n); cbn; auto. Qed.
Lemma digs_app a b : digs a -> digs b -> digs (a ++ b). Proof. unfold digs. intros. rewrite forallb_app. rewrite H, H0. reflexivity. Qed.
Lemma int_of_digits_lin l : forall acc, int_of_digits l acc = acc * 10 ^ Z.of_nat (length l) + int_of_digits l 0.
Proof.
  induction l as [|x l IH]; intros acc; cbn [int_of_digits length]. rewrite Z.pow_0_r. lia.
  rewrite IH. rewrite (IH (0 * 10 + _)). rewrite Nat2Z.inj_succ, Z.pow_succ_r by lia. lia.
Qed.

(* strip10 undoes trailing zeros *)
Lemma strip10_stop fuel c t : c mod 10 <> 0 -> strip10 fuel c t = (c, t).
Proof. intros H. destruct fuel; cbn [strip10]; auto. destruct (Z.eqb_spec (c mod 10) 0); [contradiction|reflexivity]. Qed.
Lemma strip10_scaled j : forall fuel c t, c mod 10 <> 0 -> (j <= fuel)%nat -> strip10 fuel (c * 10 ^ Z.of_nat j) (t - Z.of_nat j) = (c, t).
Proof.
  induction j as [|j IH]; intros fuel c t C F.
  - cbn [Z.of_nat]. rewrite Z.pow_0_r, Z.mul_1_r, Z.sub_0_r. apply strip10_stop; auto.
  - destruct fuel as [|f]; [lia|]. cbn [strip10]. rewrite Nat2Z.inj_succ, Z.pow_succ_r by lia.
    assert (c <> 0) by (intros ->; apply C; reflexivity).
    assert (P : 0 < 10 ^ Z.of_nat j) by (apply Z.pow_pos_nonneg; lia).
    replace (c * (10 * 10 ^ Z.of_nat j)) with ((c * 10 ^ Z.of_nat j) * 10) by lia.
    rewrite Z.mod_mul by lia. rewrite Z.eqb_refl. destruct (Z.eqb_spec (c * 10 ^ Z.of_nat j * 10) 0) as [E|E]; [nia|]. cbn [negb andb].
    rewrite Z.div_mul by lia. replace (t - Z.succ (Z.of_nat j) + 1) with (t - Z.of_nat j) by lia. apply IH; auto. lia.
Qed.

(* decimal digits of a number: they are digits, and read back as the number *)
Lemma digit_char k : 0 <= k < 10 -> is_digit (Z.to_N (48 + k)) = true /\ Z.of_N (Z.to_N (48 + k)) - 48 = k.
Proof. intros K. assert (k = 0 \/ k = 1 \/ k = 2 \/ k = 3 \/ k = 4 \/ k = 5 \/ k = 6 \/ k = 7 \/ k = 8 \/ k = 9) as D by lia.
  destruct D as [->|[->|[->|[->|[->|[->|[->|[->|[->| ->]]]]]]]]]; split; reflexivity. Qed.
Lemma ddigits_spec fuel : forall n acc, 0 <= n < 10 ^ Z.of_nat fuel -> digs acc ->
  digs (ddigits fuel n acc) /\ int_of_digits (ddigits fuel n acc) 0 = n * 10 ^ Z.of_nat (length acc) + int_of_digits acc 0 /\ ((0 < fuel)%nat -> ddigits fuel n acc <> []) /\ (acc = [] -> 0 < n -> hd 48%N (ddigits fuel n acc) <> 48%N).
Proof.
  induction fuel as [|f IH]; intros n acc N D.
  - cbn in N. assert (n = 0) by lia. subst n. cbn [ddigits]. repeat split; auto; try lia; intros; lia.
  - cbn [ddigits]. pose proof (Z.mod_pos_bound n 10 ltac:(lia)) as M. destruct (digit_char (n mod 10) M) as [Dg Dv].
    assert (Dacc : digs (Z.to_N (48 + n mod 10) :: acc)) by (unfold digs; cbn [forallb]; rewrite Dg; exact D).
    assert (Iacc : int_of_digits (Z.to_N (48 + n mod 10) :: acc) 0 = (n mod 10) * 10 ^ Z.of_nat (length acc) + int_of_digits acc 0).
    { cbn [int_of_digits]. rewrite int_of_digits_lin. rewrite Dv. lia. }
    destruct (Z.ltb_spec n 10) as [L|L].
    + repeat split; auto. rewrite Iacc. rewrite Z.mod_small by lia. reflexivity. intros _; discriminate.
      intros -> Pn. cbn [hd]. rewrite Z.mod_small by lia. intros E. apply (f_equal Z.of_N) in E. rewrite Z2N.id in E by lia. change (Z.of_N 48) with 48 in E. lia.
    + assert (N2 : 0 <= n / 10 < 10 ^ Z.of_nat f).
      { split. apply Z.div_pos; lia. apply Z.div_lt_upper_bound; [lia|]. rewrite Nat2Z.inj_succ, Z.pow_succ_r in N by lia. lia. }
      destruct (IH (n / 10) _ N2 Dacc) as (A & B & C & H). repeat split; auto.
      * rewrite B, Iacc. cbn [length]. rewrite Nat2Z.inj_succ, Z.pow_succ_r by lia. pose proof (Z.div_mod n 10 ltac:(lia)). nia.
      * intros _. destruct f as [|f']; [cbn in N2; assert (n / 10 = 0) by lia; pose proof (Z.div_str_pos n 10 ltac:(lia)); lia|]. apply C. lia.
      * intros -> Pn. (* the head comes from the recursive call on a non-empty acc: show by a second induction-free argument *)
        clear H. revert Dacc. generalize (Z.to_N (48 + n mod 10)). intros d0 Dd.
        assert (G : forall f2 m acc2, 0 < m -> m < 10 ^ Z.of_nat f2 -> hd 48%N (ddigits f2 m acc2) <> 48%N).
        { clear. induction f2 as [|f2 IH2]; intros m acc2 Pm Bm. cbn in Bm. lia.
          cbn [ddigits]. destruct (Z.ltb_spec m 10). cbn [hd]. intros E. apply (f_equal Z.of_N) in E. rewrite Z2N.id in E by (pose proof (Z.mod_pos_bound m 10 ltac:(lia)); lia).
          rewrite Z.mod_small in E by lia. change (Z.of_N 48) with 48 in E. lia.
          apply IH2. apply Z.div_str_pos; lia. apply Z.div_lt_upper_bound; [lia|]. rewrite Nat2Z.inj_succ, Z.pow_succ_r in Bm by lia. lia. }
        apply G. apply Z.div_str_pos; lia. lia.
Qed.
Lemma digits_spec n : 0 < n -> digs (digits n) /\ int_of_digits (digits n) 0 = n /\ digits n <> [] /\ hd 48%N (digits n) <> 48%N.
Proof.
  intros P. unfold digits.
  assert (B : 0 <= n < 10 ^ Z.of_nat (S (Z.to_nat (Z.log2 n)))).
  { split; [lia|]. pose proof (Z.log2_spec n P) as [_ U]. rewrite Nat2Z.inj_succ, Z2Nat.id by (apply Z.log2_nonneg).
    eapply Z.lt_le_trans; [exact U|]. apply Z.pow_le_mono_l. lia. }
  destruct (ddigits_spec _ n [] B eq_refl) as (A & I & C & H). cbn [length int_of_digits Z.of_nat] in I. rewrite Z.pow_0_r in I.
  repeat split; auto. lia. apply C. lia.
Qed.

(* ---------- the number part: every layout of the printer reads as (digits, exponent) ---------- *)
Lemma take1 d rest : is_digit d = true -> (match rest with c :: _ => is_digit c = false | [] => True end) -> take_digits (d :: rest) [] = ([d], rest).
Proof. intros Hd R. apply (take_digits_app [d]) with (acc := []); auto. unfold digs. cbn. rewrite Hd. reflexivity. Qed.
Lemma finish_eq neg ds fpl ex c t :
  strip10 (length ds) (int_of_digits ds 0) (ex - Z.of_nat fpl) = (c, t) ->
  (let '(c0, t0) := strip10 (length ds) (int_of_digits ds 0) (ex - Z.of_nat fpl) in PFloat (float_of_decimal neg c0 t0)) = PFloat (float_of_decimal neg c t).
Proof. intros ->. reflexivity. Qed.

Section Layout.
Variables (ds:list N) (neg:bool).
Hypothesis D : digs ds.
Hypothesis NE : ds <> [].
Hypothesis C10 : int_of_digits ds 0 mod 10 <> 0.

Lemma exp_digits ex : 0 < ex -> let e := (if ex <? 10 then [48%N] else []) ++ digits ex in digs e /\ int_of_digits e 0 = ex /\ e <> [].
Proof.
  intros P. destruct (digits_spec ex P) as (A & B & C & _). cbn zeta. destruct (ex <? 10).
  - repeat split. unfold digs. cbn [app forallb]. exact A. cbn [app int_of_digits]. exact B. discriminate.
  - cbn [app]. auto.
Qed.

Lemma parse_exp_layout decpt : (decpt <=? -4) || (16 <? decpt) = true ->
  parse_number neg (layout ds decpt) = PFloat (float_of_decimal neg (int_of_digits ds 0) (decpt - Z.of_nat (length ds))).
Proof.
  intros U. unfold layout. rewrite U. destruct ds as [|d r] eqn:Eds; [elim NE; reflexivity|].
  assert (Dd : is_digit d = true /\ digs r) by (unfold digs in D; cbn [forallb] in D; apply andb_true_iff in D; exact D). destruct Dd as [Dd Dr].
  set (ex := decpt - 1).
  assert (P : 0 < Z.abs ex) by (apply orb_true_iff in U; destruct U as [U|U]; [apply Z.leb_le in U|apply Z.ltb_lt in U]; subst ex; lia).
  destruct (exp_digits (Z.abs ex) P) as (De & Ie & Ne). cbn zeta in De, Ie, Ne. set (edig := (if Z.abs ex <? 10 then [48%N] else []) ++ digits (Z.abs ex)) in *.
  set (sg := if ex <? 0 then [45%N] else [43%N]).
  assert (TE : forall rest, rest = sg ++ edig -> split_sign rest = (ex <? 0, edig)).
  { intros rest ->. subst sg. destruct (ex <? 0); reflexivity. }
  assert (EX : (if ex <? 0 then - Z.abs ex else Z.abs ex) = ex) by (destruct (Z.ltb_spec ex 0); lia).
  unfold parse_number. destruct r as [|r0 r'].
  - (* one digit: dE+XX *)
    cbn [app]. rewrite take1 by (auto; reflexivity). cbn [N.eqb Pos.eqb]. cbn [app].
    change (N.eqb (lower 101) 101) with true. cbn iota.
    rewrite (TE (sg ++ edig) eq_refl).
    replace edig with (edig ++ []) at 1 by apply app_nil_r. rewrite take_digits_app by (auto; exact I). cbn [rev app].
    rewrite Ie, EX. destruct edig as [|e0 e1] eqn:Eed; [elim Ne; reflexivity|].
    cbn [length Z.of_nat]. rewrite strip10_stop by exact C10. cbn [length Z.of_nat]. f_equal. f_equal. subst ex. lia.
  - (* d.dddE+XX *)
    assert (Dr0 : is_digit r0 = true /\ digs r') by (unfold digs in Dr; cbn [forallb] in Dr; apply andb_true_iff in Dr; exact Dr).
    cbn [app]. rewrite take1 by (auto; reflexivity). cbn [N.eqb Pos.eqb].
    change (r0 :: r' ++ 101%N :: sg ++ edig) with ((r0 :: r') ++ 101%N :: sg ++ edig).
    rewrite take_digits_app by (auto; reflexivity). cbn [rev app].
    change (N.eqb (lower 101) 101) with true. cbn iota.
    rewrite (TE (sg ++ edig) eq_refl).
    replace edig with (edig ++ []) at 1 by apply app_nil_r. rewrite take_digits_app by (auto; exact I). cbn [rev app].
    rewrite Ie, EX. destruct edig as [|e0 e1] eqn:Eed; [elim Ne; reflexivity|].
    rewrite strip10_stop by exact C10. f_equal. f_equal. cbn [length]. subst ex. lia.
Qed.
Lemma digs_first r : digs r -> forall k, digs (firstn k r) /\ digs (skipn k r).
Proof. intros Dr k. rewrite <- (firstn_skipn k r) in Dr. unfold digs in *. rewrite forallb_app in Dr. apply andb_true_iff in Dr. exact Dr. Qed.

Lemma parse_fixed_layout decpt : (decpt <=? -4) || (16 <? decpt) = false ->
  parse_number neg (layout ds decpt) = PFloat (float_of_decimal neg (int_of_digits ds 0) (decpt - Z.of_nat (length ds))).
Proof.
  intros U. unfold layout. rewrite U. set (n := Z.of_nat (length ds)).
  destruct (Z.leb_spec decpt 0) as [L0|L0].
  - (* 0.000ddd *)
    unfold parse_number. cbn [app]. rewrite take1 by (reflexivity). cbn [N.eqb Pos.eqb].
    assert (Dz : digs (zeros (- decpt) ++ ds)) by (apply digs_app; [apply digs_zeros|exact D]).
    replace (zeros (- decpt) ++ ds) with ((zeros (- decpt) ++ ds) ++ []) by apply app_nil_r. rewrite take_digits_app by (auto; exact I). cbn [rev app].
    assert (I0 : int_of_digits (48%N :: zeros (- decpt) ++ ds) 0 = int_of_digits ds 0).
    { cbn [int_of_digits]. change (0 * 10 + (Z.of_N 48 - 48)) with 0. rewrite int_of_digits_app, int_of_zeros. rewrite Z.mul_0_l. reflexivity. }
    rewrite I0. rewrite strip10_stop by exact C10. f_equal. f_equal. rewrite app_length. unfold zeros. rewrite repeat_length. rewrite Nat2Z.inj_add, Z2Nat.id by lia. fold n. lia.
  - destruct (Z.leb_spec n decpt) as [L1|L1].
    + (* ddd000.0 *)
      unfold parse_number. set (j := decpt - n).
      assert (Dz : digs (ds ++ zeros j)) by (apply digs_app; [exact D|apply digs_zeros]).
      replace (ds ++ zeros j ++ [46%N; 48%N]) with ((ds ++ zeros j) ++ [46%N; 48%N]) by (rewrite app_assoc; reflexivity).
      rewrite take_digits_app by (auto; reflexivity). cbn [rev app N.eqb Pos.eqb].
      rewrite (take1 48%N []) by (reflexivity || exact I).
      assert (NEz : (ds ++ zeros j) ++ [48%N] <> []) by (destruct ds; [elim NE; reflexivity|discriminate]).
      destruct ((ds ++ zeros j) ++ [48%N]) as [|x0 xs] eqn:Ex; [elim NEz; reflexivity|]. rewrite <- Ex.
      assert (I1 : int_of_digits ((ds ++ zeros j) ++ [48%N]) 0 = int_of_digits ds 0 * 10 ^ Z.of_nat (S (Z.to_nat j))).
      { rewrite !int_of_digits_app. rewrite int_of_zeros. cbn [int_of_digits]. change (Z.of_N 48 - 48) with 0. rewrite Nat2Z.inj_succ, Z.pow_succ_r by lia. lia. }
      rewrite I1. change (Z.of_nat (length [48%N])) with 1.
      replace (0 - 1) with (j - Z.of_nat (S (Z.to_nat j))) by (rewrite Nat2Z.inj_succ, Z2Nat.id by lia; lia).
      rewrite strip10_scaled; [reflexivity|exact C10|].
      rewrite !app_length. unfold zeros. rewrite repeat_length. cbn [length]. lia.
    + (* dd.ddd *)
      unfold parse_number. destruct (digs_first ds D (Z.to_nat decpt)) as [Df Ds].
      rewrite take_digits_app by (auto; reflexivity). cbn [rev app N.eqb Pos.eqb].
      replace (skipn (Z.to_nat decpt) ds) with (skipn (Z.to_nat decpt) ds ++ []) at 1 by apply app_nil_r. rewrite take_digits_app by (auto; exact I). cbn [rev app].
      rewrite firstn_skipn. subst n. destruct ds as [|d0 r0] eqn:Eds; [elim NE; reflexivity|]. rewrite <- Eds in *.
      rewrite strip10_stop by exact C10. f_equal. f_equal. rewrite skipn_length. rewrite Nat2Z.inj_sub by lia. rewrite Z2Nat.id by lia. lia.
Qed.
End Layout.

(* ---------- the whole text ---------- *)
Definition bad (c:N) : bool := ((127 <? c)%N || N.eqb c 95).
Lemma digs_nobad l : digs l -> existsb bad l = false.
Proof. induction l as [|c l IH]; intros Dl; cbn [existsb]; auto. unfold digs in Dl. cbn [forallb] in Dl. apply andb_true_iff in Dl. destruct Dl as [Dc Dl].
  rewrite IH by exact Dl. apply is_digit_range in Dc. unfold bad. destruct (N.ltb_spec 127 c); [lia|]. destruct (N.eqb_spec c 95); [lia|]. reflexivity. Qed.
Lemma digs_nospace l : digs l -> existsb is_space l = false.
Proof. induction l as [|c l IH]; intros Dl; cbn [existsb]; auto. unfold digs in Dl. cbn [forallb] in Dl. apply andb_true_iff in Dl. destruct Dl as [Dc Dl].
  rewrite IH by exact Dl. rewrite digit_not_space by exact Dc. reflexivity. Qed.
Lemma lstrip_nospace l : existsb is_space l = false -> lstrip l = l.
Proof. destruct l as [|c r]; cbn [existsb lstrip]; auto. intros H. apply orb_false_iff in H. destruct H as [H _]. rewrite H. reflexivity. Qed.
Lemma existsb_rev_false {A} (f:A -> bool) l : existsb f l = false -> existsb f (rev l) = false.
Proof. induction l as [|x l IH]; cbn [existsb rev]; auto. intros H. apply orb_false_iff in H. destruct H as [H1 H2]. rewrite existsb_app. rewrite IH by exact H2. cbn [existsb]. rewrite H1. reflexivity. Qed.
Lemma strip_nospace l : existsb is_space l = false -> strip l = l.
Proof. intros H. unfold strip. rewrite (lstrip_nospace l H). rewrite lstrip_nospace. apply rev_involutive. apply existsb_rev_false. exact H. Qed.

(* the characters of a layout: digits and . e + - only; it starts with a digit *)
Definition plain (l:list N) : Prop := existsb bad l = false /\ existsb is_space l = false.
Lemma plain_app a b : plain a -> plain b -> plain (a ++ b).
Proof. intros [A1 A2] [B1 B2]. split; rewrite existsb_app; [rewrite A1, B1|rewrite A2, B2]; reflexivity. Qed.
Lemma plain_digs l : digs l -> plain l. Proof. intros. split; [apply digs_nobad|apply digs_nospace]; auto. Qed.
Lemma plain_layout ds decpt : digs ds -> ds <> [] -> plain (layout ds decpt) /\ exists d r, layout ds decpt = d :: r /\ is_digit d = true.
Proof.
  intros D NE. unfold layout. destruct ds as [|d r]; [elim NE; reflexivity|].
  assert (Dd : is_digit d = true /\ digs r) by (unfold digs in D; cbn [forallb] in D; apply andb_true_iff in D; exact D). destruct Dd as [Dd Dr].
  destruct ((decpt <=? -4) || (16 <? decpt)) eqn:U.
  - assert (P : 0 < Z.abs (decpt - 1)) by (apply orb_true_iff in U; destruct U as [U|U]; [apply Z.leb_le in U|apply Z.ltb_lt in U]; lia).
    destruct (digits_spec _ P) as (A & _ & _ & _). split.
    + apply plain_app. change (d :: match r with [] => [] | _ :: _ => 46%N :: r end) with ([d] ++ match r with [] => [] | _ :: _ => 46%N :: r end).
      apply plain_app. apply plain_digs. unfold digs. cbn. rewrite Dd. reflexivity. destruct r as [|r0 r']. split; reflexivity. change (46%N :: r0 :: r') with ([46%N] ++ r0 :: r'). apply plain_app. split; reflexivity. apply plain_digs; exact Dr.
      apply plain_app. split; reflexivity. apply plain_app. destruct (decpt - 1 <? 0); split; reflexivity. apply plain_app. destruct (Z.abs (decpt - 1) <? 10); split; reflexivity. apply plain_digs; exact A.
    + eexists; eexists. split; [reflexivity|exact Dd].
  - destruct (Z.leb_spec decpt 0).
    + split. apply plain_app. split; reflexivity. apply plain_app. apply plain_digs, digs_zeros. apply plain_digs; exact D. eexists; eexists; split; reflexivity.
    + destruct (Z.leb_spec (Z.of_nat (length (d :: r))) decpt).
      * split. apply plain_app. apply plain_digs; exact D. apply plain_app. apply plain_digs, digs_zeros. split; reflexivity. eexists; eexists. split; [reflexivity|exact Dd].
      * destruct (digs_first (d :: r) D (Z.to_nat decpt)) as [Df Ds]. split. apply plain_app. apply plain_digs; exact Df. apply plain_app. split; reflexivity. apply plain_digs; exact Ds.
        destruct (Z.to_nat decpt) as [|k] eqn:Ek; [lia|]. cbn [firstn app]. eexists; eexists. split; [reflexivity|exact Dd].
Qed.


Lemma list_eqb_head a l b m : a <> b -> list_eqb (a :: l) (b :: m) = false.
Proof. intros H. unfold list_eqb. destruct (list_eq_dec N.eq_dec (a :: l) (b :: m)) as [E|E]; [inversion E; contradiction|reflexivity]. Qed.
(* comparing equal with a finite double in canonical form means being that double *)
Lemma compare_eq_finite a m e : SFcompare a (S754_finite false m e) = Some Eq -> a = S754_finite false m e.
Proof.
  destruct a as [s|s| |s ma ea]; cbn [SFcompare]; try discriminate; try (destruct s; discriminate).
  destruct s; [discriminate|]. destruct (Z.compare_spec ea e) as [E|E|E]; try discriminate. subst ea.
  intros H. f_equal. apply Pos.compare_eq. destruct (Pos.compare_cont Eq ma m) eqn:C; try discriminate. exact C.
Qed.

(* the text of a number (sign, then a layout of its digits) is read as that sign and those digits *)
Theorem text_parses (neg:bool) (ds:list N) (decpt:Z) : digs ds -> ds <> [] -> int_of_digits ds 0 mod 10 <> 0 ->
  parse_float_text ((if neg then [45%N] else []) ++ layout ds decpt) = PFloat (float_of_decimal neg (int_of_digits ds 0) (decpt - Z.of_nat (length ds))).
Proof.
  intros D NE C10. destruct (plain_layout ds decpt D NE) as ([B S] & d & r & EL & Dd).
  assert (PT : plain ((if neg then [45%N] else []) ++ layout ds decpt)) by (apply plain_app; [destruct neg; split; reflexivity|split; auto]).
  destruct PT as [B2 S2]. unfold parse_float_text. fold bad. rewrite B2. rewrite strip_nospace by exact S2.
  assert (SS : split_sign ((if neg then [45%N] else []) ++ layout ds decpt) = (neg, layout ds decpt)).
  { destruct neg; cbn [app split_sign]. reflexivity. rewrite EL. cbn [split_sign]. rewrite !digit_neq by (auto; lia). rewrite <- EL. reflexivity. }
  rewrite SS. rewrite EL. cbn [map]. rewrite (digit_lower d Dd).
  pose proof (is_digit_range d Dd) as Rd.
  rewrite !list_eqb_head by lia. cbn [orb]. rewrite <- EL.
  destruct ((decpt <=? -4) || (16 <? decpt)) eqn:U; [apply parse_exp_layout|apply parse_fixed_layout]; auto.
Qed.

(* C18: whatever text the printer gives for a real, the conversion built-in reads it back to the same real - sign, mantissa and exponent *)
Theorem repr_reads_back f txt : repr_float f = Some txt -> parse_float_text txt = PFloat f.
Proof.
  destruct f as [s|s| |s m e]; cbn [repr_float].
  - intros H; inversion H; subst. destruct s; reflexivity.
  - intros H; inversion H; subst. destruct s; reflexivity.
  - intros H; inversion H; subst. reflexivity.
  - destruct (shortest m e) as [[c t]|] eqn:Sh; [|discriminate]. intros H; inversion H; subst txt; clear H.
    destruct (shortest_reads_back m e c t Sh) as (Pc & Cm & Rb).
    destruct (digits_spec c Pc) as (Dg & Ig & Ng & _).
    rewrite text_parses by (auto; rewrite Ig; exact Cm). rewrite Ig.
    replace (Z.of_nat (length (digits c)) + t - Z.of_nat (length (digits c))) with t by lia.
    apply compare_eq_finite in Rb. unfold float_of_decimal in *. destruct (magnitude c t) as [s0|s0| |s0 m0 e0]; cbn [set_sign] in Rb; try discriminate.
    inversion Rb; subst. reflexivity.
Qed.
(* ... hence two different reals never print alike (zeros of different sign included): the printed form determines the real *)
Corollary repr_injective f g txt : repr_float f = Some txt -> repr_float g = Some txt -> f = g.
Proof. intros F G. apply repr_reads_back in F. apply repr_reads_back in G. rewrite F in G. inversion G. reflexivity. Qed.
Print Assumptions repr_reads_back. Print Assumptions repr_injective.
