(* DRAFT: C12 - the positions a slice selects, for every start / stop / step (both signs), on the model's own functions. *)
From Coq Require Import ZArith List Bool Lia.
Import ListNotations.
Require Import Base Strings Builtins.
Open Scope Z_scope.

Definition slice_indices (len start stop step : Z) : list Z :=
  let s := clamp len start step in let e := clamp len stop step in
  map (fun k => s + Z.of_nat k * step) (seq 0 (Z.to_nat (slice_len s e step))).

Lemma clamp_pos len x step : 0 <= len -> 0 < step -> clamp len x step = Z.max 0 (Z.min len (if x <? 0 then x + len else x)).
Proof.
  intros Hl Hs. unfold clamp. assert (H : step <? 0 = false) by (apply Z.ltb_ge; lia). rewrite H.
  destruct (x <? 0) eqn:E1.
  - destruct (x + len <? 0) eqn:E2; [apply Z.ltb_lt in E2|apply Z.ltb_ge in E2]; apply Z.ltb_lt in E1; lia.
  - apply Z.ltb_ge in E1. destruct (x >=? len) eqn:E2; [apply Z.geb_le in E2|rewrite Z.geb_leb in E2; apply Z.leb_gt in E2]; lia.
Qed.
Lemma clamp_neg len x step : 0 <= len -> step < 0 -> clamp len x step = Z.max (-1) (Z.min (len - 1) (if x <? 0 then x + len else x)).
Proof.
  intros Hl Hs. unfold clamp. assert (H : step <? 0 = true) by (apply Z.ltb_lt; lia). rewrite H.
  destruct (x <? 0) eqn:E1.
  - destruct (x + len <? 0) eqn:E2; [apply Z.ltb_lt in E2|apply Z.ltb_ge in E2]; apply Z.ltb_lt in E1; lia.
  - apply Z.ltb_ge in E1. destruct (x >=? len) eqn:E2; [apply Z.geb_le in E2|rewrite Z.geb_leb in E2; apply Z.leb_gt in E2]; lia.
Qed.
Lemma in_map_seq (f:nat->Z) n i : In i (map f (seq 0 n)) <-> exists k, (k < n)%nat /\ i = f k.
Proof.
  rewrite in_map_iff. split.
  - intros [k [E H]]. apply in_seq in H. exists k. split; [lia|auto].
  - intros [k [L E]]. exists k. split; auto. apply in_seq. lia.
Qed.
(* counting lemma: k ranges over 0 .. (d-1)/t  iff  0 <= k and k*t < d   (d > 0, t > 0) *)
Lemma count_spec d t k : 0 < d -> 0 < t -> 0 <= k -> (k < (d - 1) / t + 1 <-> k * t < d).
Proof.
  intros D T K. pose proof (Z.mod_pos_bound (d - 1) t T). pose proof (Z.div_mod (d - 1) t ltac:(lia)).
  set (q := (d - 1) / t) in *. split; intros H1; nia.
Qed.

Theorem slice_positions_pos len start stop step : 0 <= len -> 0 < step ->
  let s := clamp len start step in let e := clamp len stop step in
  0 <= s <= len /\ 0 <= e <= len /\
  forall i, In i (slice_indices len start stop step) <-> (s <= i < e /\ (i - s) mod step = 0).
Proof.
  intros Hl Hs s e.
  assert (Hsr : 0 <= s <= len) by (unfold s; rewrite clamp_pos by auto; lia).
  assert (Her : 0 <= e <= len) by (unfold e; rewrite clamp_pos by auto; lia).
  split; auto. split; auto. intros i. unfold slice_indices. fold s e. rewrite in_map_seq.
  unfold slice_len. assert (H : step <? 0 = false) by (apply Z.ltb_ge; lia). rewrite H.
  destruct (s <? e) eqn:E; [apply Z.ltb_lt in E|apply Z.ltb_ge in E].
  - assert (Hq : 0 <= (e - s - 1) / step) by (apply Z.div_pos; lia). split.
    + intros [k [Lk Ei]]. assert (C : Z.of_nat k * step < e - s) by (apply (count_spec (e - s) step); lia).
      split; [nia|]. subst i. replace (s + Z.of_nat k * step - s) with (Z.of_nat k * step) by lia. apply Z.mod_mul. lia.
    + intros [[L1 L2] Hm]. apply Z.mod_divide in Hm; [|lia]. destruct Hm as [k Hk].
      assert (0 <= k) by nia. exists (Z.to_nat k). split; [|rewrite Z2Nat.id by lia; lia].
      assert (k < (e - s - 1) / step + 1) by (apply (count_spec (e - s) step); lia). lia.
  - cbn [Z.to_nat seq map]. split; [intros [k [Lk _]]; lia|intros [[L1 L2] _]; lia].
Qed.
Theorem slice_positions_neg len start stop step : 0 <= len -> step < 0 ->
  let s := clamp len start step in let e := clamp len stop step in
  -1 <= s <= len - 1 /\ -1 <= e <= len - 1 /\
  forall i, In i (slice_indices len start stop step) <-> (e < i <= s /\ (s - i) mod (- step) = 0).
Proof.
  intros Hl Hs s e.
  assert (Hsr : -1 <= s <= len - 1) by (unfold s; rewrite clamp_neg by auto; lia).
  assert (Her : -1 <= e <= len - 1) by (unfold e; rewrite clamp_neg by auto; lia).
  split; auto. split; auto. intros i. unfold slice_indices. fold s e. rewrite in_map_seq.
  unfold slice_len. assert (H : step <? 0 = true) by (apply Z.ltb_lt; lia). rewrite H.
  destruct (e <? s) eqn:E; [apply Z.ltb_lt in E|apply Z.ltb_ge in E].
  - assert (Hq : 0 <= (s - e - 1) / (- step)) by (apply Z.div_pos; lia). split.
    + intros [k [Lk Ei]]. assert (C : Z.of_nat k * (- step) < s - e) by (apply (count_spec (s - e) (- step)); lia).
      split; [nia|]. subst i. replace (s - (s + Z.of_nat k * step)) with (Z.of_nat k * (- step)) by lia. apply Z.mod_mul. lia.
    + intros [[L1 L2] Hm]. apply Z.mod_divide in Hm; [|lia]. destruct Hm as [k Hk].
      assert (0 <= k) by nia. exists (Z.to_nat k). split; [|rewrite Z2Nat.id by lia; lia].
      assert (k < (s - e - 1) / (- step) + 1) by (apply (count_spec (s - e) (- step)); lia). lia.
  - cbn [Z.to_nat seq map]. split; [intros [k [Lk _]]; lia|intros [[L1 L2] _]; lia].
Qed.
(* every selected position is a valid index, so the slice is exactly the elements at those positions, in order *)
Theorem slice_list_is_positions {A} (d:A) (l:list A) start stop step : step <> 0 ->
  slice_list l start stop step = map (fun i => nth (Z.to_nat i) l d) (slice_indices (Z.of_nat (length l)) start stop step)
  /\ Forall (fun i => 0 <= i < Z.of_nat (length l)) (slice_indices (Z.of_nat (length l)) start stop step).
Proof.
  intros NZ. set (len := Z.of_nat (length l)). assert (Hl : 0 <= len) by (unfold len; lia).
  assert (R : Forall (fun i => 0 <= i < len) (slice_indices len start stop step)).
  { apply Forall_forall. intros i Hi. destruct (Z_lt_le_dec step 0) as [N|P].
    - destruct (slice_positions_neg len start stop step Hl N) as (S1 & E1 & C). apply C in Hi. lia.
    - destruct (slice_positions_pos len start stop step Hl ltac:(lia)) as (S1 & E1 & C). apply C in Hi. lia. }
  split; auto. unfold slice_list, slice_indices in *. fold len in R |- *.
  set (s := clamp len start step) in *. set (e := clamp len stop step) in *.
  induction (seq 0 (Z.to_nat (slice_len s e step))) as [|k ks IH]; cbn [flat_map map]; auto.
  inversion R as [|? ? Hk Hks]; subst. rewrite IH by auto.
  destruct (nth_error l (Z.to_nat (s + Z.of_nat k * step))) eqn:N.
  - cbn [app]. f_equal. symmetry. apply nth_error_nth. exact N.
  - apply nth_error_None in N. unfold len in Hk. lia.
Qed.
Example slice_example : slice_list [10;11;12;13;14;15] (-1) 0 (-2) = [15;13;11] /\ slice_list [10;11;12;13;14;15] 1 100 2 = [11;13;15].
Proof. split; reflexivity. Qed.
Print Assumptions slice_positions_pos. Print Assumptions slice_positions_neg. Print Assumptions slice_list_is_positions.
