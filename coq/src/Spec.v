(* DRAFT: the specification semantics - big-step, environment-based, call-by-need with blackholing.
   No stack, no frames, no requestor links, no events.  Shares Comp / builtins / proc_body with the machine. *)
From Coq Require Import ZArith NArith List Bool FMapPositive.
Import ListNotations.
Require Import Base Strings Builtins Interp Machine.

Inductive out := Done (h:heap) (w:world) (r:res) (d:nat) (* d = evaluator frames needed above the current one *) | OOF | Reentry.
Inductive task := TThunk (t:positive) | TComp (c:Comp value).

Section Run.
Variable rec : list positive -> heap -> world -> task -> out.
Definition updd (o:out) (d0:nat) : out := match o with Done h w r d => Done h w r (Nat.max d0 d) | o' => o' end.
Fixpoint run (ip:list positive) (h:heap) (w:world) (c:Comp value) {struct c} : out :=
  let cont (o:out) (extra:nat) (k:value -> Comp value) : out :=
    match o with
    | Done h' w' (inl v) d => updd (run ip h' w' (k v)) (extra + d)%nat
    | Done h' w' (inr e) d => Done h' w' (inr e) (extra + d)%nat
    | o' => o' end in
  match c with
  | Ret v => Done h w (inl v) 0%nat
  | Raise e => Done h w (inr e) 0%nat
  | Force (VThunk u) k =>
      match get h u with
      | None => Done h w (inr {| e_spans := []; e_vals := [] |}) 0%nat
      | Some cl => match c_cache cl with
                   | Some (inl v) => run ip h w (k v)
                   | Some (inr e) => Done h w (inr e) 0%nat
                   | None => if existsb (Pos.eqb u) ip then Reentry else cont (rec ip h w (TThunk u)) 1%nat k end end
  | Force v k => run ip h w (k v)
  | Alloc a e k => let (h', t) := alloc h a e in run ip h' w (k t)
  | NewClo b e k => let (h', g) := newclo h b e in run ip h' w (k g)
  | CloDepth g k => match PositiveMap.find g (clos h) with Some cl => run ip h w (k (length (args (f_env cl)))) | None => Done h w (inr {| e_spans := []; e_vals := [] |}) 0%nat end
  | AllocBody g av k => match alloc_body h g av with Some (h', t) => run ip h' w (k t) | None => Done h w (inr {| e_spans := []; e_vals := [] |}) 0%nat end
  | Fresh k => let (h', i) := fresh h in run ip h' w (k i)
  | PeekLit t k => match get h t with Some cl => run ip (set_peeked h t) w (k (lit_of (c_ast cl))) | None => Done h w (inr {| e_spans := []; e_vals := [] |}) 0%nat end
  | Call p k => cont (rec ip h w (TComp (proc_body p))) 0%nat k
  | Catch c1 hd k =>
      match run ip h w c1 with
      | Done h' w' (inl v) d => updd (run ip h' w' (k v)) d
      | Done h' w' (inr e) d => if unmodelled e then Done h' w' (inr e) d else updd (cont (run ip h' w' (hd e)) 0%nat k) d
      | o => o end
  | World op k => let (w', r) := wstep w op in match r with inl v => run ip h w' (k v) | inr e => Done h w' (inr e) 0%nat end
  end.
End Run.

Fixpoint bs (n:nat) (ip:list positive) (h:heap) (w:world) (tk:task) : out :=
  match n with O => OOF | S n' =>
    match tk with
    | TComp c => run (bs n') ip h w c
    | TThunk t =>
        match get h t with
        | None => Done h w (inr {| e_spans := []; e_vals := [] |}) 0%nat
        | Some cl =>
            match run (bs n') (t :: ip) h w (interpret (c_ast cl) (c_env cl)) with
            | Done h1 w1 (inl (VThunk t')) d0 =>                    (* tail return: same frame position *)
                match get h1 t' with
                | None => OOF
                | Some cl' =>
                    match c_cache cl' with
                    | Some r => Done (set_cache h1 t r) w1 r d0
                    | None => if existsb (Pos.eqb t') (t :: ip) then Reentry else
                        match bs n' (t :: ip) h1 w1 (TThunk t') with
                        | Done h2 w2 r d2 => Done (set_cache h2 t r) w2 r (Nat.max d0 d2)
                        | o => o end end end
            | Done h1 w1 r d0 => Done (set_cache h1 t r) w1 r d0
            | o => o end end end end.

(* main.main on one expression, specification side *)
Definition spec_main (fuel:nat) (prog:ast) (stdin:list (list N)) : out :=
  let (h, t) := alloc heap0 prog {| funs := []; args := [] |} in
  bs fuel [] h (world_start stdin []) (TComp (call (PFormat (VThunk t) false))).

Definition spec_main_fs (fuel:nat) (prog:ast) (stdin:list (list N)) (disk:list (list N * list N)) : out :=
  let (h, t) := alloc heap0 prog {| funs := []; args := [] |} in
  bs fuel [] h (world_start stdin disk) (TComp (call (PFormat (VThunk t) false))).

(* main.main on SEVERAL expressions (and any format_io): each expression is a separate evaluation - its own delayed expression in the empty
   environment, formatted - in the heap and the world the earlier ones left (input consumed, output written, files, the module registry and the
   delayed expressions it points to); the first failure ends the list (main.main lets it propagate) *)
Definition spec_main_in (fuel:nat) (h:heap) (w:world) (prog:ast) (fio:bool) : out :=
  let (h1, t) := alloc h prog {| funs := []; args := [] |} in
  bs fuel [] h1 w (TComp (call (PFormat (VThunk t) fio))).
Fixpoint spec_many (fuel:nat) (h:heap) (w:world) (progs:list ast) (fio:bool) : list out :=
  match progs with
  | [] => []
  | p :: r => let o := spec_main_in fuel h w p fio in
              o :: match o with Done h' w' (inl _) _ => spec_many fuel h' w' r fio | _ => [] end
  end.
Lemma spec_main_is_in fuel prog stdin : spec_main fuel prog stdin = spec_main_in fuel heap0 (world_start stdin []) prog false.
Proof. reflexivity. Qed.
Lemma spec_main_fs_is_in fuel prog stdin disk : spec_main_fs fuel prog stdin disk = spec_main_in fuel heap0 (world_start stdin disk) prog false.
Proof. reflexivity. Qed.

(* executable cross-check used by the harness: both semantics on the same program *)
Definition agree (fuel:nat) (prog:ast) (stdin:list (list N)) : option bool :=
  match spec_main fuel prog stdin, run_main (fuel * 64) prog stdin with
  | Done h w (inl v) _, (ODone v', s) => Some (veqb v v' && (if list_eq_dec N.eq_dec (w_out w) (w_out (m_world s)) then true else false)
                                            && Nat.eqb (length (w_in w)) (length (w_in (m_world s)))
                                            && Pos.eqb (next_t h) (next_t (m_heap s)) && Pos.eqb (next_f h) (next_f (m_heap s)))
  | Done h w (inr e) _, (OErr e', s) => Some ((if list_eq_dec N.eq_dec (w_out w) (w_out (m_world s)) then true else false)
                                            && Pos.eqb (next_t h) (next_t (m_heap s)) && Nat.eqb (length (e_vals e)) (length (e_vals e')))
  | OOF, _ | Reentry, _ | _, (OFuel, _) | _, (OLimit, _) => None
  | _, _ => Some false
  end.
