(* C18 - the command-line front end (cli.run): a program's exit status is its integer result (0 for the empty value) after a top-level function
   has been applied to the command-line arguments and a resulting I/O action executed; any other kind of result, or more than one top-level
   expression, is an error.  The model is one computation over the same semantics as main.main; the theorems say what it does case by case. *)
From Coq Require Import ZArith NArith List Bool FMapPositive Lia.
Import ListNotations.
Require Import Base Strings Builtins Interp Machine Spec HeapFacts Refine1 Refine2 RunG Pure IOSpec.

Definition cli_sp : span := (0%N, 0%N, 0%N).                       (* AS.Metadata("<main>", 0, 0, 0, "") *)
Definition env0 : env := {| funs := []; args := [] |}.

(* [strict] = check_type(cli_metadata, [strict], Integer | Nil); Nil -> 0 *)
Definition cli_status (v:value) : Comp value :=
  match v with VInt n => Ret (VInt n) | VNil => Ret (VInt 0) | _ => raise c_type cli_sp end.
(* apply a top-level function to the argument strings and evaluate what it returns *)
Definition cli_apply (v:value) (argv:list (list N)) : Comp value :=
  match v with VFun g => r <- call (PApply (EFun g) cli_sp (map VStr argv)) ;; force r | _ => Ret v end.
(* execute a resulting action (main.do_IO) *)
Definition cli_exec (v:value) : Comp value := if is_io v then call (PDoIO v) else Ret v.
Definition cli_body (t:positive) (argv:list (list N)) : Comp value :=
  v <- force (VThunk t) ;; v2 <- cli_apply v argv ;; v3 <- cli_exec v2 ;; cli_status v3.

Definition many_error (asts:list ast) : error := {| e_spans := map ast_span asts; e_vals := [] |}.
Definition world0 (stdin:list (list N)) : world := (world_start stdin []).
Definition cli_run (fuel:nat) (asts:list ast) (argv:list (list N)) (stdin:list (list N)) : out :=
  match asts with
  | [] => Done heap0 (world0 stdin) (inl (VInt 0)) 0
  | [a] => let (h, t) := alloc heap0 a env0 in bs fuel [] h (world0 stdin) (TComp (cli_body t argv))
  | _ => Done heap0 (world0 stdin) (inr (many_error asts)) 0
  end.

(* ---------- what the front end does, case by case ---------- *)
(* no expression: status 0, nothing evaluated, nothing read or written *)
Theorem cli_no_expression fuel argv stdin : cli_run fuel [] argv stdin = Done heap0 (world0 stdin) (inl (VInt 0)) 0.
Proof. reflexivity. Qed.
(* more than one expression: an error whatever the expressions are - none of them is evaluated, nothing is read or written *)
Theorem cli_many_expressions fuel a b rest argv stdin :
  cli_run fuel (a :: b :: rest) argv stdin = Done heap0 (world0 stdin) (inr (many_error (a :: b :: rest))) 0.
Proof. reflexivity. Qed.

(* the three stages as an equation over outcomes (then_ = "continue from the heap and world the stage left") *)
Definition stage (n:nat) ip (c:value -> Comp value) (h:heap) (w:world) (v:value) : out := run (bs n) ip h w (c v).
Lemma run_bind_value n ip h w (c:Comp value) (f:value -> Comp value) :
  run (bs n) ip h w (x <- c ;; f x) = then_ (run (bs n) ip h w c) (fun h1 w1 x => run (bs n) ip h1 w1 (f x)).
Proof.
  rewrite !run_is_runG, runG_bind.
  destruct (runG (bs n) value ip h w c) as [h1 w1 [x|e] d1| |]; cbn [thenG to_out then_]; auto.
  rewrite run_is_runG. destruct (runG (bs n) value ip h1 w1 (f x)); reflexivity.
Qed.
Theorem cli_stages n ip h w t argv :
  bs (S n) ip h w (TComp (cli_body t argv)) =
  then_ (run (bs n) ip h w (force (VThunk t))) (fun h1 w1 v =>
    then_ (stage n ip (fun v => cli_apply v argv) h1 w1 v) (fun h2 w2 v2 =>
      then_ (stage n ip cli_exec h2 w2 v2) (fun h3 w3 v3 => stage n ip cli_status h3 w3 v3))).
Proof.
  cbn [bs]. unfold cli_body, stage. rewrite run_bind_value.
  destruct (run (bs n) ip h w (force (VThunk t))) as [h1 w1 [v|e] d1| |]; cbn [then_]; auto. f_equal.
  rewrite run_bind_value. destruct (run (bs n) ip h1 w1 (cli_apply v argv)) as [h2 w2 [v2|e] d2| |]; cbn [then_]; auto. f_equal.
  rewrite run_bind_value. reflexivity.
Qed.

(* the last stage: the exit status IS the integer result; the empty value gives 0; every other kind is a type error; heap and world untouched *)
Theorem status_of_integer n ip h w z : stage n ip cli_status h w (VInt z) = Done h w (inl (VInt z)) 0.
Proof. reflexivity. Qed.
Theorem status_of_nil n ip h w : stage n ip cli_status h w VNil = Done h w (inl (VInt 0)) 0.
Proof. reflexivity. Qed.
Theorem status_of_other_kind n ip h w v : (forall z, v <> VInt z) -> v <> VNil ->
  stage n ip cli_status h w v = Done h w (inr (mkerr c_type cli_sp)) 0.
Proof. intros Hi Hn. destruct v; try reflexivity; [exfalso; eapply Hi; reflexivity | exfalso; apply Hn; reflexivity]. Qed.
(* so whatever the program is, a run that ends normally ends with an INTEGER *)
Lemma then_inv o f h w v d : then_ o f = Done h w (inl v) d ->
  exists h1 w1 x d1 d2, o = Done h1 w1 (inl x) d1 /\ f h1 w1 x = Done h w (inl v) d2.
Proof.
  destruct o as [h1 w1 [x|e] d1| |]; cbn [then_]; try discriminate. intros H.
  destruct (f h1 w1 x) as [h2 w2 r2 d2| |] eqn:F; cbn [updd] in H; try discriminate. inversion H; subst. do 5 eexists. split; eauto.
Qed.
Theorem exit_status_is_an_integer fuel asts argv stdin h w v d :
  cli_run fuel asts argv stdin = Done h w (inl v) d -> exists z, v = VInt z.
Proof.
  destruct asts as [|a [|b rest]]; cbn [cli_run]; try (intros H; inversion H; eauto; fail).
  destruct (alloc heap0 a env0) as [h0 t]. destruct fuel as [|n]; [discriminate|]. rewrite cli_stages. intros H.
  apply then_inv in H. destruct H as (h1 & w1 & x & d1 & d2 & _ & H).
  apply then_inv in H. destruct H as (h2 & w2 & x2 & d3 & d4 & _ & H).
  apply then_inv in H. destruct H as (h3 & w3 & x3 & d5 & d6 & _ & H).
  unfold stage in H. destruct x3; cbn [cli_status run raise] in H; inversion H; eauto.
Qed.

(* the middle stages: a value that is no function is not applied; a function is applied to exactly the argument strings, in order *)
Theorem not_a_function_not_applied n ip h w v argv : is_fun v = false -> stage n ip (fun v => cli_apply v argv) h w v = Done h w (inl v) 0.
Proof. destruct v; try discriminate; reflexivity. Qed.
Theorem function_applied_to_arguments n ip h w g argv :
  stage n ip (fun v => cli_apply v argv) h w (VFun g) =
  then_ (bs n ip h w (TComp (apply_body (EFun g) cli_sp (map VStr argv)))) (fun h1 w1 r => run (bs n) ip h1 w1 (force r)).
Proof.
  unfold stage, cli_apply. rewrite run_bind_value. unfold call. cbn [run].
  change (proc_body (PApply (EFun g) cli_sp (map VStr argv))) with (apply_body (EFun g) cli_sp (map VStr argv)).
  destruct (bs n ip h w (TComp (apply_body (EFun g) cli_sp (map VStr argv)))) as [h1 w1 [r|e] d1| |]; cbn [then_ run updd]; auto.
  f_equal; lia.
Qed.
(* a result that is no action is not executed; an action is executed by the same executor as main.main's (IOSpec.exec) *)
Theorem not_an_action_not_executed n ip h w v : is_io v = false -> stage n ip cli_exec h w v = Done h w (inl v) 0.
Proof. intros H. unfold stage, cli_exec. rewrite H. reflexivity. Qed.
Theorem action_executed n ip h w i : stage n ip cli_exec h w (VIO i) = updd (exec n ip h w (VIO i)) 0.
Proof.
  unfold stage, cli_exec, exec. cbn [is_io call run]. change (proc_body (PDoIO (VIO i))) with (doio_body (VIO i)).
  destruct (bs n ip h w (TComp (doio_body (VIO i)))) as [h1 w1 [r|e] d1| |]; cbn [run updd]; auto; f_equal; lia.
Qed.

(* no effect before the action runs: evaluating the program and applying the top-level function leave the world as it was *)
Lemma wf_cli_apply v argv : wfree (cli_apply v argv).
Proof. destruct v; cbn [cli_apply]; try apply wf_ret. unfold call, force. cbn [bind]. apply wf_call. exact I. intros x. apply wf_force. intros y. apply wf_ret. Qed.
Theorem effects_only_from_the_action n ip h w t argv h1 w1 v h2 w2 r d1 d2 :
  run (bs n) ip h w (force (VThunk t)) = Done h1 w1 (inl v) d1 ->
  stage n ip (fun v => cli_apply v argv) h1 w1 v = Done h2 w2 r d2 -> io_of w1 = io_of w /\ io_of w2 = io_of w.
Proof.
  intros H1 H2. assert (E1 : io_of w1 = io_of w).
  { eapply (run_pure _ (bs_pure n)); [|exact H1]. constructor. intros; constructor. }
  split; auto. rewrite <- E1. eapply (run_pure _ (bs_pure n)); [|exact H2]. apply wf_cli_apply.
Qed.

(* ---------- the hypotheses are met by concrete runs ---------- *)
Definition sp1 : span := (0%N, 0%N, 1%N).
Example cli_integer_program : exists h d, cli_run 10 [Lit 7 sp1] [] [] = Done h (world0 []) (inl (VInt 7)) d.
Proof. vm_compute. eauto. Qed.
(* `ㄱㅇㄱ ㅎ` applied to ["ab"; ""]: the first argument is a string, not a status *)
Example cli_function_program : exists h d, cli_run 10 [FunDef (ArgRef (Lit 0 sp1) 0 sp1) sp1] [[97%N; 98%N]; []] [] = Done h (world0 []) (inr (mkerr c_type cli_sp)) d.
Proof. vm_compute. eauto. Qed.
Print Assumptions exit_status_is_an_integer. Print Assumptions cli_stages. Print Assumptions effects_only_from_the_action.
