(* C15 inside the main model: the directory tree that a flat disk (relative path -> bytes) denotes, path spellings, module texts.
   The search itself is ImpSearch.search (proved there: found_is_unique, not_found_iff, ambiguous_iff, listing_order_irrelevant). *)
From Coq Require Import ZArith NArith List Bool.
Import ListNotations.
Require Import Base Lex ImpSearch.
Require Utf.
Open Scope N_scope.

Fixpoint split_on (sep:N) (l cur:list N) : list (list N) :=
  match l with [] => [rev cur] | c :: r => if N.eqb c sep then rev cur :: split_on sep r [] else split_on sep r (c :: cur) end.
Definition comps (p:list N) : list (list N) := split_on 47 p [].
Definition name_eqb (a b:list N) : bool := if list_eq_dec N.eq_dec a b then true else false.
Fixpoint dedup (l:list (list N)) : list (list N) := match l with [] => [] | x :: r => x :: filter (fun y => negb (name_eqb x y)) (dedup r) end.
(* module.py _matches_literal: the whole entry name through parse.normalize (NFD + the jamo tables, every other character a space) *)
Definition norm_name (nm:list N) : list N := flat_map Lex.normalize nm.

(* files: (remaining path components, file number); one directory level per unit of fuel *)
Fixpoint build (fuel:nat) (files:list (list (list N) * N)) : tree :=
  match fuel with
  | O => TDir []
  | S f =>
      let firsts := dedup (flat_map (fun x => match fst x with c :: _ => [c] | [] => [] end) files) in
      TDir (map (fun nm =>
        let under := flat_map (fun x => match fst x with c :: r => if name_eqb c nm then [(r, snd x)] else [] | [] => [] end) files in
        (norm_name nm, match find (fun x => match fst x with [] => true | _ => false end) under with
                       | Some x => TFile (snd x) | None => build f under end)) firsts)
  end.
Fixpoint number {A} (l:list A) (i:N) : list (A * N) := match l with [] => [] | x :: r => (x, i) :: number r (i + 1) end.
Definition tree_of_disk (disk:list (list N * list N)) : tree :=
  let files := map (fun x => (comps (fst (fst x)), snd x)) (number disk 0) in
  build (S (fold_right Nat.max 0%nat (map (fun x => length (fst x)) files))) files.

(* "./a/b" and "a/b" name one file *)
Fixpoint strip_dot (p:list N) : list N := match p with 46 :: 47 :: r => strip_dot r | _ => p end.
Fixpoint index_of (disk:list (list N * list N)) (p:list N) (i:N) : option (N * list N) :=
  match disk with [] => None | (q, c) :: r => if name_eqb q p then Some (i, c) else index_of r p (i + 1) end.
Fixpoint starts_with (pre l:list N) : bool :=
  match pre, l with [], _ => true | a :: p, b :: r => N.eqb a b && starts_with p r | _ :: _, [] => false end.
Definition is_dir (disk:list (list N * list N)) (p:list N) : bool :=
  match p with [] => false | _ => existsb (fun x => starts_with (p ++ [47]) (fst x)) disk end.
(* a path that goes THROUGH a file ("file/x", "file/"): ENOTDIR *)
Definition through_file (disk:list (list N * list N)) (p:list N) : bool := existsb (fun x => starts_with (fst x ++ [47]) p) disk.
Definition open_errno (disk:list (list N * list N)) (p:list N) : Z := if is_dir disk p then 21%Z else if through_file disk p then 20%Z else 2%Z.
(* text mode: universal newlines *)
Fixpoint newlines (l:list N) : list N :=
  match l with [] => [] | 13 :: r => 10 :: (match r with 10 :: r2 => newlines r2 | _ => newlines r end) | c :: r => c :: newlines r end.
Definition text_of (bytes:list N) : option (list N) :=
  match Utf.utf8_decode (map Z.of_N bytes) with Some cs => Some (newlines (map Z.to_N cs)) | None => None end.
Fixpoint mod_get (l:list (N * positive)) (id:N) : option positive := match l with [] => None | (k, t) :: r => if N.eqb k id then Some t else mod_get r id end.
Fixpoint join_path (p:list (list N)) : list N := match p with [] => [] | [x] => x | x :: r => x ++ 47 :: join_path r end.
