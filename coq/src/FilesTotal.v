(* C14 - the TOTAL file model: close, and every operation the handle refuses (closed handle, operation the mode does not permit, negative
   target position, negative size, read count below -1).  A refused operation yields the language's OS error with errno 9 (EBADF) or 22 (EINVAL)
   and changes nothing - not the bytes, not the position; a closed handle refuses everything but another close. *)
From Coq Require Import ZArith NArith List Bool Lia.
Import ListNotations.
Require Import Files FilesProofs.
Open Scope Z_scope.

Inductive xop := XOp (o:op) | XClose.
Record xstate := { xs : fstate; xclosed : bool }.
Inductive xresult := XVal (r:result) | XNil | XErr (errno:Z).
Definition EBADF := 9. Definition EINVAL := 22.

(* which errno a refused operation reports on an OPEN handle: the mode's refusal comes before the argument's *)
Definition refusal (s:fstate) (o:op) : Z :=
  match o with
  | ORead _ | OWrite _ | OTrunc | OTell => EBADF
  | OTruncN _ => if can_write (fmode s) then EINVAL else EBADF
  | OSeekSet _ | OSeekCur _ => EINVAL end.

Definition xstep (s:xstate) (o:xop) : xstate * xresult :=
  match o with
  | XClose => ({| xs := xs s; xclosed := true |}, XNil)                 (* closing twice is allowed *)
  | XOp o =>
      if xclosed s then (s, XErr EBADF) else
      match fstep (xs s) o with
      | Some (s', r) => ({| xs := s'; xclosed := false |}, XVal r)
      | None => (s, XErr (refusal (xs s) o)) end
  end.
Fixpoint xrun (s:xstate) (ops:list xop) : xstate * list xresult :=
  match ops with [] => (s, []) | o :: r => let (s1, x) := xstep s o in let (s2, ys) := xrun s1 r in (s2, x :: ys) end.
Definition xhistory (m:mode) (disk:option (list N)) (ops:list xop) : option (list N * list xresult) :=
  match fopen m disk with None => None | Some s => let (s', rs) := xrun {| xs := s; xclosed := false |} ops in Some (content (xs s'), rs) end.

(* ---------- the total model extends the permitted-operations model ---------- *)
Theorem xstep_conservative s o s' r : xclosed s = false -> fstep (xs s) o = Some (s', r) ->
  xstep s (XOp o) = ({| xs := s'; xclosed := false |}, XVal r).
Proof. intros C F. unfold xstep. rewrite C, F. reflexivity. Qed.
Lemma lift_ops_run : forall ops s s' rs, frun s ops = Some (s', rs) ->
  xrun {| xs := s; xclosed := false |} (map XOp ops) = ({| xs := s'; xclosed := false |}, map XVal rs).
Proof.
  induction ops as [|o r IH]; intros s s' rs H; cbn [frun] in H.
  - inversion H; subst. reflexivity.
  - destruct (fstep s o) as [[s1 x]|] eqn:S; [|discriminate]. destruct (frun s1 r) as [[s2 ys]|] eqn:F; [|discriminate]. inversion H; subst.
    cbn [map xrun]. rewrite (xstep_conservative {| xs := s; xclosed := false |} o s1 x eq_refl S). rewrite (IH _ _ _ F). reflexivity.
Qed.
Theorem xhistory_conservative m disk ops final rs : history m disk ops = Some (final, rs) ->
  xhistory m disk (map XOp ops) = Some (final, map XVal rs).
Proof.
  unfold history, xhistory. destruct (fopen m disk) as [s|]; [|discriminate].
  destruct (frun s ops) as [[s' xs0]|] eqn:F; [|discriminate]. intros H; inversion H; subst. rewrite (lift_ops_run _ _ _ _ F). reflexivity.
Qed.

(* ---------- a refused operation changes nothing ---------- *)
Theorem refused_changes_nothing s o s' e : xstep s o = (s', XErr e) -> s' = s /\ (e = EBADF \/ e = EINVAL).
Proof.
  destruct o as [o|]; cbn [xstep]; [|discriminate]. destruct (xclosed s).
  - intros H; inversion H; auto.
  - destruct (fstep (xs s) o) as [[s1 r]|]; [discriminate|]. intros H; inversion H; subst. split; auto.
    unfold refusal. destruct o; auto. destruct (can_write _); auto.
Qed.
(* a closed handle refuses every operation; closing it again is harmless *)
Theorem closed_refuses_everything s o : xclosed s = true -> xstep s (XOp o) = (s, XErr EBADF).
Proof. intros C. unfold xstep. rewrite C. reflexivity. Qed.
Theorem close_keeps_the_bytes s : xs (fst (xstep s XClose)) = xs s /\ xclosed (fst (xstep s XClose)) = true /\ snd (xstep s XClose) = XNil.
Proof. cbn. auto. Qed.
Theorem step_keeps_closed s o : xclosed s = true -> fst (xstep s o) = s.
Proof. intros C. destruct o as [o|]; cbn [xstep]. rewrite C. reflexivity. destruct s; cbn in *. subst. reflexivity. Qed.
(* after a close nothing that follows can change the file, and every later operation is refused *)
Theorem closed_history_is_frozen : forall ops s, xclosed s = true ->
  fst (xrun s ops) = s /\ Forall (fun r => r = XErr EBADF \/ r = XNil) (snd (xrun s ops)).
Proof.
  induction ops as [|o r IH]; intros s C; cbn [xrun]; [split; [reflexivity|constructor]|].
  pose proof (step_keeps_closed s o C) as K. destruct (xstep s o) as [s1 x] eqn:S. cbn [fst] in K. subst s1.
  destruct (IH s C) as (A & B). destruct (xrun s r) as [s2 ys]. cbn [fst snd] in *. split; auto. constructor; auto.
  destruct o as [o|]; cbn [xstep] in S. rewrite C in S. inversion S; auto. inversion S; auto.
Qed.

(* ---------- the data-keeping guarantees, now for EVERY history: refused operations and closes included ---------- *)
Lemma xstep_content s o s1 x : xstep s o = (s1, x) ->
  (exists o0 r, o = XOp o0 /\ xclosed s = false /\ fstep (xs s) o0 = Some (xs s1, r) /\ xclosed s1 = false) \/ xs s1 = xs s.
Proof.
  destruct o as [o|]; cbn [xstep].
  - destruct (xclosed s) eqn:C. intros H; inversion H; auto.
    destruct (fstep (xs s) o) as [[s' r]|] eqn:F; intros H; inversion H; subst; auto. left. exists o, r. auto.
  - intros H; inversion H; auto.
Qed.
Lemma xstep_mode s o s1 x : xstep s o = (s1, x) -> fmode (xs s1) = fmode (xs s).
Proof.
  intros H. destruct (xstep_content _ _ _ _ H) as [(o0 & r & _ & _ & F & _)|E]; [|rewrite E; reflexivity].
  eapply step_keeps_mode; eauto.
Qed.
Theorem read_only_total_history_preserves disk ops final rs : xhistory MR (Some disk) ops = Some (final, rs) -> final = disk.
Proof.
  unfold xhistory, fopen. cbn [resets appending]. set (s0 := {| xs := {| content := disk; pos := 0; fmode := MR |}; xclosed := false |}).
  assert (G : forall ops s, fmode (xs s) = MR -> content (xs (fst (xrun s ops))) = content (xs s)).
  { induction ops0 as [|o r IH]; intros s M; cbn [xrun]; [reflexivity|].
    destruct (xstep s o) as [s1 x] eqn:S. specialize (IH s1 (eq_trans (xstep_mode _ _ _ _ S) M)).
    destruct (xrun s1 r) as [s2 ys]. cbn [fst] in *. rewrite IH.
    destruct (xstep_content _ _ _ _ S) as [(o0 & r0 & _ & _ & F & _)|E]; [|rewrite E; reflexivity].
    eapply read_only_never_writes; eauto. }
  specialize (G ops s0 eq_refl). destruct (xrun s0 ops) as [s' xs0]. intros H; inversion H; subst. exact G.
Qed.
Definition x_is_trunc (o:xop) : bool := match o with XOp o => is_trunc o | XClose => false end.
Theorem append_total_history_keeps_prefix m disk ops final rs :
  appending m = true -> forallb (fun o => negb (x_is_trunc o)) ops = true ->
  xhistory m (Some disk) ops = Some (final, rs) -> exists added, final = disk ++ added.
Proof.
  intros A NT. unfold xhistory, fopen. assert (Rm : resets m = false) by (destruct m; try discriminate; reflexivity). rewrite Rm, A.
  set (s0 := {| xs := {| content := disk; pos := len disk; fmode := m |}; xclosed := false |}).
  assert (G : forall ops s, appending (fmode (xs s)) = true -> forallb (fun o => negb (x_is_trunc o)) ops = true ->
              exists added, content (xs (fst (xrun s ops))) = content (xs s) ++ added).
  { induction ops0 as [|o r IH]; intros s M N; cbn [xrun]; [exists []; rewrite app_nil_r; reflexivity|].
    cbn [forallb] in N. apply andb_true_iff in N. destruct N as [N1 N2].
    destruct (xstep s o) as [s1 x] eqn:S.
    assert (M1 : appending (fmode (xs s1)) = true) by (rewrite (xstep_mode _ _ _ _ S); exact M).
    destruct (IH s1 M1 N2) as (ad & E). destruct (xrun s1 r) as [s2 ys]. cbn [fst] in *. rewrite E.
    destruct (xstep_content _ _ _ _ S) as [(o0 & r0 & Eo & _ & F & _)|E1]; [|rewrite E1; exists ad; reflexivity].
    subst o. cbn [x_is_trunc] in N1.
    destruct o0; try discriminate N1;
      try (rewrite (only_write_and_truncate_change _ _ _ _ F Logic.I); exists ad; reflexivity).
    destruct (append_lands_at_end _ _ _ _ M F) as (C & _). rewrite C, <- app_assoc. eexists; reflexivity. }
  destruct (G ops s0 A NT) as (ad & E). destruct (xrun s0 ops) as [s' xs0]. intros H; inversion H; subst. exists ad. exact E.
Qed.

(* the hypotheses are met: a read-only history with refused writes, a close, and operations after it *)
Example total_history_example :
  xhistory MR (Some [97; 98; 99]%N) [XOp (ORead 2); XOp (OWrite [122%N]); XOp (ORead (-5)); XOp (OSeekSet (-3)); XOp OTell; XOp OTrunc; XClose; XOp (ORead 0); XClose]
  = Some ([97; 98; 99]%N, [XVal (RBytes [97; 98]%N); XErr 9; XErr 9; XErr 22; XVal (RInt 2); XErr 9; XNil; XErr 9; XNil]).
Proof. reflexivity. Qed.
Print Assumptions read_only_total_history_preserves. Print Assumptions append_total_history_keeps_prefix. Print Assumptions closed_history_is_frozen.
