(* DRAFT proofs: machine implements spec - part 2: statements and the Comp-level lemma *)
From Coq Require Import ZArith NArith List Bool FMapPositive Lia.
Import ListNotations.
Require Import Base Strings Builtins Interp Machine Spec HeapFacts Refine1.

Section CompValueInd.
  Variable P : Comp value -> Prop.
  Hypothesis HRet : forall v, P (Ret v).
  Hypothesis HRaise : forall e, P (Raise e).
  Hypothesis HForce : forall v k, (forall x, P (k x)) -> P (Force v k).
  Hypothesis HAlloc : forall a e k, (forall x, P (k x)) -> P (Alloc a e k).
  Hypothesis HNewClo : forall b e k, (forall x, P (k x)) -> P (NewClo b e k).
  Hypothesis HCloDepth : forall f k, (forall x, P (k x)) -> P (CloDepth f k).
  Hypothesis HAllocBody : forall f av k, (forall x, P (k x)) -> P (AllocBody f av k).
  Hypothesis HFresh : forall k, (forall x, P (k x)) -> P (Fresh k).
  Hypothesis HPeek : forall t k, (forall x, P (k x)) -> P (PeekLit t k).
  Hypothesis HCall : forall p k, (forall x, P (k x)) -> P (Call p k).
  Hypothesis HCatch : forall c h k, P c -> (forall e, P (h e)) -> (forall x, P (k x)) -> P (Catch c h k).
  Hypothesis HWorld : forall op k, (forall x, P (k x)) -> P (World op k).
  Fixpoint comp_value_ind (c:Comp value) : P c :=
    match c as c0 return P c0 with
    | Ret v => HRet v | Raise e => HRaise e
    | Force v k => HForce v k (fun x => comp_value_ind (k x))
    | Alloc a e k => HAlloc a e k (fun x => comp_value_ind (k x))
    | NewClo b e k => HNewClo b e k (fun x => comp_value_ind (k x))
    | CloDepth f k => HCloDepth f k (fun x => comp_value_ind (k x))
    | AllocBody f av k => HAllocBody f av k (fun x => comp_value_ind (k x))
    | Fresh k => HFresh k (fun x => comp_value_ind (k x))
    | PeekLit t k => HPeek t k (fun x => comp_value_ind (k x))
    | Call p k => HCall p k (fun x => comp_value_ind (k x))
    | Catch c1 h k => HCatch c1 h k (comp_value_ind c1) (fun e => comp_value_ind (h e)) (fun x => comp_value_ind (k x))
    | World op k => HWorld op k (fun x => comp_value_ind (k x))
    end.
End CompValueInd.

Definition Fr tid c ks := {| fr_tid := tid; fr_comp := c; fr_konts := ks |}.

(* d = number of evaluator frames the computation needs above the frame it runs in *)
Definition goodB (ip:list positive) h w (c:Comp value) h' w' (r:res) (d:nat) :=
  forall q tid ks rest, Iq q h ip ->
  exists q', reach (S (length rest) + d) h q (Fr tid c ks :: rest) w h' q' (Fr tid (retc r) ks :: rest) w'
    /\ Iq q' h' ip /\ (forall x, In x ip -> rlook q' x = rlook q x).
Definition inv (h:heap) (ip:list positive) := wfh h /\ strict_caches h /\ ipun h ip.

Definition stmtA n := forall ip h w u h' w' r d,
  bs n ip h w (TThunk u) = Done h' w' r d -> uncached h u -> ~ In u ip -> inv h ip ->
  (forall q parent rest l, chain q u l -> NoDup (u::l) -> incl l ip -> Iq q h (u::ip) ->
    exists q', reach (S (S (length rest)) + d) h q (new_frame h u :: parent :: rest) w (set_caches h' l r) q' (deliver_res parent r :: rest) w'
      /\ Iq q' h' ip /\ (forall x, In x ip -> rlook q' x = rlook q x))
  /\ hle h h' /\ inv h' ip /\ cached h' u /\ rstrict r.
Definition stmtB n := forall c ip h w h' w' r d,
  run (bs n) ip h w c = Done h' w' r d -> inv h ip -> goodB ip h w c h' w' r d /\ hle h h' /\ inv h' ip.
Definition stmtC n := forall c ip h w h' w' r d,
  bs n ip h w (TComp c) = Done h' w' r d -> inv h ip -> goodB ip h w c h' w' r d /\ hle h h' /\ inv h' ip.

Lemma C_of_B n : stmtB n -> stmtC (S n).
Proof. intros HB c ip h w h' w' r d Hb. cbn [bs] in Hb. apply HB; auto. Qed.
Lemma C0 : stmtC 0. Proof. intros c ip h w h' w' r d Hb. discriminate. Qed.
Lemma A0 : stmtA 0. Proof. intros ip h w u h' w' r d Hb. discriminate. Qed.

(* invariants under the allocation-like operations *)
Lemma inv_alloc h a e ip : inv h ip -> inv (fst (alloc h a e)) ip.
Proof. intros (W & S & I). split; [|split]. apply wfh_alloc; auto. apply strict_alloc; auto. apply ipun_alloc; auto. Qed.
Lemma inv_newclo h b e ip : inv h ip -> inv (fst (newclo h b e)) ip.
Proof. intros (W & S & I). split; [|split]; auto. Qed.
Lemma inv_fresh h ip : inv h ip -> inv (fst (fresh h)) ip.
Proof. intros (W & S & I). split; [|split]; auto. Qed.
Lemma hle_newclo h b e : hle h (fst (newclo h b e)).
Proof. split. simpl; lia. intros t cl G. exists cl; auto. Qed.
Lemma hle_fresh h : hle h (fst (fresh h)).
Proof. split. simpl; lia. intros t cl G. exists cl; auto. Qed.
Lemma Iq_same_cells q h h' ip : (forall t, get h' t = get h t) -> Iq q h ip -> Iq q h' ip.
Proof. intros E HI u w L. destruct (HI _ _ L) as [(cl & r & G & C)|]; auto. left. exists cl, r. rewrite E. auto. Qed.

Lemma inv_peek h t ip : inv h ip -> inv (set_peeked h t) ip.
Proof.
  intros (W & S & I). split; [|split]. apply wfh_peek; auto.
  - intros u cl v G C. destruct (Pos.eq_dec t u) as [<-|N].
    + destruct (get h t) as [c0|] eqn:G0; [|rewrite peek_none in G by auto; congruence].
      rewrite (get_peek_same _ _ _ G0) in G. inversion G; subst; simpl in C. eapply S; eauto.
    + rewrite get_peek_other in G by auto. eapply S; eauto.
  - intros x Hx. apply uncached_peek; auto.
Qed.

Lemma updd_inv o d0 h w r D : updd o d0 = Done h w r D -> exists d, o = Done h w r d /\ D = Nat.max d0 d.
Proof. destruct o; simpl; intros E; inversion E; subst; eauto. Qed.
Lemma goodB_weaken ip h w c h' w' r d d' : (d <= d')%nat -> goodB ip h w c h' w' r d -> goodB ip h w c h' w' r d'.
Proof.
  intros L G q tid ks rest HIq. destruct (G q tid ks rest HIq) as (q' & R & I & Lk). exists q'. split; [|split; auto].
  eapply reach_weaken; [|exact R]. lia.
Qed.
