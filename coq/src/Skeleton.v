(* C01, third sentence: "any two texts with the same skeleton parse identically".
   words l          = the maximal runs of non-separator code points of a normalised stream (the specification's notion of "word")
   stream text      = what the characters of the text normalise to, in order, every line closed by its line break
   tokenize_words   : the words of Lex.tokenize (the model of parse.tokenize: pieces, merge loop, span bookkeeping) are exactly  words (stream text)
   stream_is_flat_map : stream text = flat_map normalize (text ++ [10])
   skeleton_determines_words : two texts whose characters have the same specified consonants (spec_char, up to merging separators)
                               give the same words - for ALL texts, any length
   words_determine_tree : the trees parse_tokens builds depend on the words only, not on the spans *)
From Coq Require Import NArith ZArith List Bool Lia.
Import ListNotations.
Require Import Base Num Lex Jamo SpecC01.
Require GenParse.
Open Scope N_scope.

(* ---------- words of a stream ---------- *)
Definition flush (cur:list N) : list (list N) := match cur with [] => [] | _ => [rev cur] end.
Fixpoint words_acc (l:list N) (cur:list N) : list (list N) :=
  match l with
  | [] => flush cur
  | c :: r => if c =? 32 then flush cur ++ words_acc r [] else words_acc r (c :: cur)
  end.
Definition words (l:list N) := words_acc l [].

Definition nosp (l:list N) := forallb (fun c => negb (c =? 32)) l = true.
Lemma words_acc_nosp l rest cur : nosp l -> words_acc (l ++ rest) cur = words_acc rest (rev l ++ cur).
Proof.
  revert cur; induction l as [|c l IH]; intros cur H; cbn [app rev]; [reflexivity|].
  unfold nosp in H. cbn [forallb] in H. apply andb_true_iff in H. destruct H as [H1 H2]. apply negb_true_iff in H1.
  cbn [words_acc]. rewrite H1. rewrite IH by exact H2. rewrite <- app_assoc. reflexivity.
Qed.
Lemma words_acc_sp rest cur : words_acc (32 :: rest) cur = flush cur ++ words_acc rest [].
Proof. reflexivity. Qed.

(* ---------- pieces: the re.split of one normalised character ---------- *)
Definition piece_ok (p:list N) : Prop := p = [32] \/ (p <> [] /\ nosp p).
Lemma pieces_spec : forall l cur, nosp cur -> Forall piece_ok (pieces l cur) /\ concat (pieces l cur) = rev cur ++ l.
Proof.
  induction l as [|c l IH]; intros cur Hc; cbn [pieces].
  - destruct cur as [|x cur']; [split; [constructor|reflexivity]|].
    split; [constructor; [|constructor]|cbn [concat]; rewrite !app_nil_r; reflexivity].
    right. split; [intros E; apply (f_equal (@length N)) in E; rewrite rev_length in E; discriminate|].
    unfold nosp in *. rewrite forallb_forall in *. intros y Hy. apply Hc. apply in_rev. exact Hy.
  - destruct (c =? 32) eqn:E.
    + apply N.eqb_eq in E. subst c. destruct (IH [] eq_refl) as [F C]. split.
      * apply Forall_app. split; [|constructor; [left; reflexivity|exact F]].
        destruct cur as [|x cur']; [constructor|]. constructor; [|constructor]. right.
        split; [intros E; apply (f_equal (@length N)) in E; rewrite rev_length in E; discriminate|].
        unfold nosp in *. rewrite forallb_forall in *. intros y Hy. apply Hc. apply in_rev. exact Hy.
      * rewrite concat_app. cbn [concat]. rewrite C. cbn [rev app]. destruct cur; cbn [concat app]; rewrite ?app_nil_r; reflexivity.
    + assert (Hc' : nosp (c :: cur)) by (unfold nosp; cbn [forallb]; rewrite E; exact Hc).
      destruct (IH (c :: cur) Hc') as [F C]. split; [exact F|]. rewrite C. cbn [rev]. rewrite <- app_assoc. reflexivity.
Qed.
Lemma is_sp_is_32 p : is_sp p = true -> p = [32].
Proof.
  destruct p as [|a [|b p]]; try discriminate; cbn [is_sp].
  - destruct a as [|q]; try discriminate. do 6 (destruct q as [q|q|]; try discriminate). reflexivity.
  - destruct a as [|q]; try discriminate. do 6 (destruct q as [q|q|]; try discriminate).
Qed.
Lemma is_sp_piece p : piece_ok p -> (is_sp p = true <-> p = [32]).
Proof. intros _. split; [apply is_sp_is_32|intros ->; reflexivity]. Qed.
Lemma nonsp_piece p : piece_ok p -> is_sp p = false -> p <> [] /\ nosp p.
Proof. intros [->|H] E; [discriminate|exact H]. Qed.

(* ---------- the merge loop ---------- *)
Definition keep (acc:list tok) : list (list N) := map fst (filter (fun t => negb (is_sp (fst t))) (rev acc)).
Definition pend (acc:list tok) : list N := match acc with (p, _) :: _ => if is_sp p then [] else rev p | [] => [] end.
Definition done_ (acc:list tok) : list (list N) := match acc with (p, _) :: r => if is_sp p then keep acc else keep r | [] => [] end.
Definition acc_ok (acc:list tok) := match acc with (p, _) :: _ => piece_ok p | [] => True end.

Lemma keep_cons t acc : keep (t :: acc) = keep acc ++ (if is_sp (fst t) then [] else [fst t]).
Proof. unfold keep. cbn [rev]. rewrite filter_app, map_app. cbn [filter]. destruct (is_sp (fst t)); reflexivity. Qed.

Lemma merge_loop : forall ps acc, Forall (fun t => piece_ok (fst t)) ps -> acc_ok acc ->
  keep (fold_left tok_step ps acc) = done_ acc ++ words_acc (concat (map fst ps)) (pend acc).
Proof.
  induction ps as [|[c m] ps IH]; intros acc F A.
  - cbn [fold_left map concat words_acc]. destruct acc as [|[p mp] r]; [reflexivity|]. cbn [done_ pend acc_ok] in *.
    destruct (is_sp p) eqn:E.
    + cbn [flush]. rewrite app_nil_r. reflexivity.
    + rewrite keep_cons. cbn [fst]. rewrite E. f_equal.
      destruct (nonsp_piece p A E) as [Hn _]. unfold flush. destruct (rev p) eqn:R; [apply (f_equal (@rev N)) in R; rewrite rev_involutive in R; contradiction|].
      rewrite <- R, rev_involutive. reflexivity.
  - inversion F as [|? ? Fc Fps]; subst. cbn [fst] in Fc. cbn [fold_left map concat fst].
    destruct acc as [|[p mp] r].
    + cbn [tok_step]. rewrite IH; [|exact Fps|exact Fc]. cbn [done_ pend]. destruct (is_sp c) eqn:Ec.
      * apply (is_sp_piece c Fc) in Ec. subst c. rewrite keep_cons. cbn [fst is_sp app]. unfold keep. reflexivity.
      * destruct (nonsp_piece c Fc Ec) as [_ Hs]. rewrite (words_acc_nosp c _ [] Hs). rewrite app_nil_r. reflexivity.
    + cbn [tok_step fst]. cbn [acc_ok] in A. destruct (is_sp p) eqn:Ep; destruct (is_sp c) eqn:Ec; cbn [andb negb].
      * (* space, space: unchanged *)
        rewrite IH; [|exact Fps|exact A]. cbn [done_ pend]. rewrite Ep. apply (is_sp_piece c Fc) in Ec. subst c. cbn [app]. rewrite words_acc_sp. reflexivity.
      * (* space, word: push *)
        rewrite IH; [|exact Fps|exact Fc]. cbn [done_ pend]. rewrite Ec, Ep. destruct (nonsp_piece c Fc Ec) as [_ Hs].
        rewrite (words_acc_nosp c _ [] Hs). rewrite app_nil_r. reflexivity.
      * (* word, space: push, the word is complete *)
        rewrite IH; [|exact Fps|exact Fc]. cbn [done_ pend]. rewrite Ec, Ep. apply (is_sp_piece c Fc) in Ec. subst c. cbn [app]. rewrite words_acc_sp.
        rewrite keep_cons. cbn [fst is_sp]. rewrite app_nil_r. rewrite keep_cons. cbn [fst]. rewrite Ep.
        destruct (nonsp_piece p A Ep) as [Hn _]. unfold flush. destruct (rev p) eqn:R; [apply (f_equal (@rev N)) in R; rewrite rev_involutive in R; contradiction|].
        rewrite <- R, rev_involutive, <- app_assoc. reflexivity.
      * (* word, word: merge *)
        destruct (nonsp_piece p A Ep) as [Hn Hs]. destruct (nonsp_piece c Fc Ec) as [Hn' Hs'].
        assert (Aok : piece_ok (p ++ c)).
        { right. split; [destruct p; [contradiction|discriminate]|]. unfold nosp in *. rewrite forallb_app, Hs, Hs'. reflexivity. }
        assert (Esp : is_sp (p ++ c) = false).
        { destruct (is_sp (p ++ c)) eqn:X; [|reflexivity]. apply (is_sp_piece _ Aok) in X.
          destruct p as [|a [|b p']]; [contradiction| |discriminate]. destruct c; [contradiction|discriminate]. }
        rewrite IH; [|exact Fps|exact Aok]. cbn [done_ pend]. rewrite Esp, Ep. rewrite (words_acc_nosp c _ (rev p) Hs'). rewrite rev_app_distr. reflexivity.
Qed.

(* ---------- the stream ---------- *)
Definition stream (text:list N) : list N := concat (map fst (chars_of_lines (split_lines text []) 0)).
Lemma chars_ok_line line i j : Forall (fun t => piece_ok (fst t)) (chars_of_line line i j).
Proof.
  revert j; induction line as [|c r IH]; intros j; cbn [chars_of_line].
  - apply Forall_map. destruct (pieces_spec (normalize 10) [] eq_refl) as [F _]. eapply Forall_impl; [|exact F]. auto.
  - apply Forall_app. split; [|apply IH]. apply Forall_map. destruct (pieces_spec (normalize c) [] eq_refl) as [F _]. eapply Forall_impl; [|exact F]. auto.
Qed.
Lemma chars_ok_lines ls i : Forall (fun t => piece_ok (fst t)) (chars_of_lines ls i).
Proof. revert i; induction ls as [|l r IH]; intros i; cbn [chars_of_lines]; [constructor|]. apply Forall_app. split; [apply chars_ok_line|apply IH]. Qed.
Lemma concat_map_fst_pieces (l:list N) (s:span) : concat (map fst (map (fun p => (p, s)) (pieces l []))) = l.
Proof. rewrite map_map. cbn [fst]. rewrite map_id. destruct (pieces_spec l [] eq_refl) as [_ C]. exact C. Qed.
Lemma stream_line line i j : concat (map fst (chars_of_line line i j)) = flat_map normalize (line ++ [10]).
Proof.
  revert j; induction line as [|c r IH]; intros j; cbn [chars_of_line app flat_map].
  - rewrite concat_map_fst_pieces, app_nil_r. reflexivity.
  - rewrite map_app, concat_app, concat_map_fst_pieces, IH. reflexivity.
Qed.
Lemma stream_lines : forall text cur i, concat (map fst (chars_of_lines (split_lines text cur) i)) = flat_map normalize (rev cur ++ text ++ [10]).
Proof.
  induction text as [|c r IH]; intros cur i; cbn [split_lines].
  - cbn [chars_of_lines]. rewrite app_nil_r, stream_line. cbn [app]. reflexivity.
  - destruct (c =? 10) eqn:E.
    + apply N.eqb_eq in E. subst c. cbn [chars_of_lines]. rewrite map_app, concat_app, stream_line, IH. cbn [rev app].
      rewrite !flat_map_app. rewrite <- app_assoc. cbn [flat_map app]. rewrite !flat_map_app. cbn [flat_map]. rewrite !app_nil_r. reflexivity.
    + rewrite IH. cbn [rev]. rewrite <- app_assoc. reflexivity.
Qed.
Theorem stream_is_flat_map text : stream text = flat_map normalize (text ++ [10]).
Proof. unfold stream. rewrite stream_lines. reflexivity. Qed.

(* T4a: the words of the tokenizer are the words of the normalised stream *)
Theorem tokenize_words text : map fst (tokenize text) = words (stream text).
Proof.
  unfold tokenize, stream, words. pose proof (merge_loop (chars_of_lines (split_lines text []) 0) [] (chars_ok_lines _ _) I) as H.
  unfold keep in H. cbn [done_ pend app] in H. exact H.
Qed.

(* ---------- words ignore how many separators stand between them ---------- *)
Lemma words_acc_collapse : forall l post cur, words_acc (collapse l ++ post) cur = words_acc (l ++ post) cur.
Proof.
  induction l as [|a l IH]; intros post cur; [reflexivity|]. cbn [collapse].
  destruct (a =? 32) eqn:Ea; cbn [andb].
  - apply N.eqb_eq in Ea. subst a. destruct l as [|b l'].
    + reflexivity.
    + destruct (b =? 32) eqn:Eb.
      * apply N.eqb_eq in Eb. subst b. rewrite IH. cbn [app]. rewrite !words_acc_sp. cbn [flush app]. reflexivity.
      * cbn [app]. rewrite !words_acc_sp. f_equal. apply IH.
  - cbn [app words_acc]. rewrite Ea. apply IH.
Qed.
(* two character-normalisations that agree up to merging separators contribute the same words in every context *)
Lemma words_flat_map_congr (f g : N -> list N) : forall t post cur, (forall c, In c t -> collapse (f c) = collapse (g c)) ->
  words_acc (flat_map f t ++ post) cur = words_acc (flat_map g t ++ post) cur.
Proof.
  induction t as [|c t IH]; intros post cur H; [reflexivity|]. cbn [flat_map]. rewrite <- !app_assoc.
  rewrite <- (words_acc_collapse (f c)), <- (words_acc_collapse (g c)). rewrite (H c (or_introl eq_refl)).
  rewrite !words_acc_collapse.
  (* same prefix g c, different tails: peel the prefix *)
  revert cur. induction (g c) as [|x l IHl]; intros cur; cbn [app].
  - apply IH. intros c' Hc'. apply H. right. exact Hc'.
  - cbn [words_acc]. destruct (x =? 32); [f_equal; apply IHl|apply IHl].
Qed.

(* T4: the skeleton determines the words.  spec_char is the specification's assignment of consonants to a code point (Jamo.v / SpecC01.v) *)
Definition assigned (t:list N) := Forall (fun c => c < 0x110000 /\ free c = false) t.
Lemma normalize_is_spec c : c < 0x110000 -> free c = false -> collapse (normalize c) = spec_char c.
Proof.
  intros Hc Hf. assert (H : ok c = true).
  { destruct (N.lt_ge_cases c 0x10000) as [Lo|Hi]; [apply (sweep_spec 0x10000 ok); [vm_compute; reflexivity | exact Lo] | apply high_is_separator; exact Hi]. }
  unfold ok in H. rewrite Hf in H. simpl in H. unfold leqb in H. destruct (list_eq_dec _ _ _); congruence.
Qed.
Lemma collapse_idem : forall l, collapse (collapse l) = collapse l.
Proof.
  induction l as [|a l IH]; [reflexivity|]. cbn [collapse]. destruct (a =? 32) eqn:Ea; cbn [andb].
  - destruct l as [|b l']; [cbn [collapse]; rewrite Ea; reflexivity|]. destruct (b =? 32) eqn:Eb; [exact IH|].
    cbn [collapse] in *. rewrite Eb in *. cbn [andb] in *. rewrite Ea. cbn [andb]. rewrite Eb. f_equal. exact IH.
  - cbn [collapse]. rewrite Ea. cbn [andb]. f_equal. exact IH.
Qed.
Theorem tokens_are_spec_words text : assigned (text ++ [10]) -> map fst (tokenize text) = words (flat_map spec_char (text ++ [10])).
Proof.
  intros A. rewrite tokenize_words, stream_is_flat_map. unfold words.
  rewrite <- (app_nil_r (flat_map normalize _)), <- (app_nil_r (flat_map spec_char _)).
  apply words_flat_map_congr. intros c Hc. unfold assigned in A. rewrite Forall_forall in A. destruct (A c Hc) as [H1 H2].
  rewrite <- (normalize_is_spec c H1 H2). rewrite collapse_idem. reflexivity.
Qed.
Theorem skeleton_determines_words t1 t2 : assigned (t1 ++ [10]) -> assigned (t2 ++ [10]) ->
  words (flat_map spec_char (t1 ++ [10])) = words (flat_map spec_char (t2 ++ [10])) -> map fst (tokenize t1) = map fst (tokenize t2).
Proof. intros A1 A2 E. rewrite (tokens_are_spec_words t1 A1), (tokens_are_spec_words t2 A2). exact E. Qed.

(* ---------- the trees depend on the words only ---------- *)
Definition z3 : span := (0, 0, 0).
Fixpoint erase (a:ast) : ast :=
  match a with
  | Lit n _ => Lit n z3 | FunRef r _ => FunRef r z3 | ArgRef x r _ => ArgRef (erase x) r z3 | FunDef b _ => FunDef (erase b) z3
  | FunCall f l _ => FunCall (erase f) (map erase l) z3 end.
Lemma token_erase w m stk : parse_token (w, z3) (map erase stk) = match parse_token (w, m) stk with inl s => inl (map erase s) | inr e => inr e end.
Proof.
  unfold parse_token. destruct w as [|c rest]; [reflexivity|].
  destruct (c =? HIEUH).
  - destruct rest as [|c2 r2]; [destruct stk; reflexivity|]. destruct (parse_number (c2 :: r2)) as [k|]; [|reflexivity].
    destruct (k <? 0)%Z; [reflexivity|]. destruct stk as [|f r]; [reflexivity|]. cbn [map]. rewrite map_length.
    destruct (Z.of_nat (length r) <? k)%Z; [reflexivity|]. cbn [map erase]. rewrite firstn_map, skipn_map, map_rev. reflexivity.
  - destruct (c =? IEUNG).
    + destruct rest as [|c2 r2]; [destruct stk as [|[] r]; reflexivity|]. destruct (parse_number (c2 :: r2)); [|reflexivity]. destruct stk; reflexivity.
    + destruct (parse_number (c :: rest)); reflexivity.
Qed.
Theorem words_determine_tree : forall ts1 ts2 stk1 stk2, map fst ts1 = map fst ts2 -> map erase stk1 = map erase stk2 ->
  match parse_tokens ts1 stk1, parse_tokens ts2 stk2 with
  | inl s1, inl s2 => map erase s1 = map erase s2
  | inr (e1, _), inr (e2, _) => e1 = e2
  | _, _ => False end.
Proof.
  induction ts1 as [|[w m1] ts1 IH]; intros [|[w2 m2] ts2] stk1 stk2 E S; try discriminate; cbn [parse_tokens]; [exact S|].
  cbn [map fst] in E. inversion E; subst w2.
  pose proof (token_erase w m1 stk1) as T1. pose proof (token_erase w m2 stk2) as T2. rewrite S in T1. rewrite T1 in T2.
  destruct (parse_token (w, m1) stk1) as [s1|e1], (parse_token (w, m2) stk2) as [s2|e2]; try discriminate; cbn [snd].
  - apply IH; [assumption|congruence].
  - congruence.
Qed.
(* T5: same skeleton => same trees (up to spans) or the same kind of syntax rejection *)
Corollary skeleton_determines_tree t1 t2 : assigned (t1 ++ [10]) -> assigned (t2 ++ [10]) ->
  words (flat_map spec_char (t1 ++ [10])) = words (flat_map spec_char (t2 ++ [10])) ->
  match parse_text t1, parse_text t2 with
  | inl a1, inl a2 => map erase a1 = map erase a2
  | inr (e1, _), inr (e2, _) => e1 = e2
  | _, _ => False end.
Proof.
  intros A1 A2 E. pose proof (skeleton_determines_words t1 t2 A1 A2 E) as W. unfold parse_text.
  pose proof (words_determine_tree (tokenize t1) (tokenize t2) [] [] W eq_refl) as H.
  destruct (parse_tokens (tokenize t1) []) as [s1|[e1 p1]], (parse_tokens (tokenize t2) []) as [s2|[e2 p2]]; try contradiction; [|exact H].
  rewrite !map_rev, H. reflexivity.
Qed.
