(* DRAFT: Python float as far as modelled - binary64 via the standard library's SpecFloat (axiom-free, extractable) *)
From Coq Require Import ZArith NArith List Bool SpecFloat.
Import ListNotations.
Open Scope Z_scope.

Definition prec := 53. Definition emax := 1024.
Definition f_of_Z (n:Z) : spec_float := binary_normalize prec emax n 0 false.
Definition f_finite (f:spec_float) : bool := match f with S754_zero _ | S754_finite _ _ _ => true | _ => false end.
Definition f_nan (f:spec_float) : bool := match f with S754_nan => true | _ => false end.
(* float(int): None = CPython's OverflowError *)
Definition float_of_int (n:Z) : option spec_float := let f := f_of_Z n in if f_finite f then Some f else None.
Definition fadd := SFadd prec emax. Definition fmul := SFmul prec emax. Definition fsub := SFsub prec emax.
Definition fabs (f:spec_float) := SFabs f.
Definition f_zero := S754_zero false.
Definition f_is_zero (f:spec_float) : bool := match f with S754_zero _ => true | _ => false end.

(* exact comparison of an integer with a double (CPython compares int and float exactly) *)
Definition cmp_zf (n:Z) (f:spec_float) : option comparison :=
  match f with
  | S754_nan => None
  | S754_infinity s => Some (if s then Gt else Lt)
  | S754_zero _ => Some (n ?= 0)
  | S754_finite s m e =>
      let v := if s then Zneg m else Zpos m in
      Some (if 0 <=? e then n ?= v * 2 ^ e else (n * 2 ^ (- e)) ?= v)
  end.
Definition cmp_ff (a b:spec_float) : option comparison := SFcompare a b.
Definition flip (c:comparison) := match c with Lt => Gt | Gt => Lt | Eq => Eq end.

(* int(float) / math.trunc : None = OverflowError (inf) or ValueError (nan) *)
Definition mag_floor (m:Z) (e:Z) : Z := if 0 <=? e then m * 2 ^ e else m / 2 ^ (- e).
Definition mag_ceil (m:Z) (e:Z) : Z := if 0 <=? e then m * 2 ^ e else - ((- m) / 2 ^ (- e)).
Definition mag_round_even (m:Z) (e:Z) : Z :=
  if 0 <=? e then m * 2 ^ e else
    let k := 2 ^ (- e) in let q := m / k in let r := m mod k in
    if 2 * r <? k then q else if k <? 2 * r then q + 1 else if Z.even q then q else q + 1.
Definition rounding (which:Z) (f:spec_float) : option Z :=      (* 0 trunc, 1 floor, 2 round-half-even, 3 ceil, 4 away from zero *)
  match f with
  | S754_zero _ => Some 0
  | S754_finite s m e =>
      let p := Zpos m in
      Some (if which =? 0 then (if s then - mag_floor p e else mag_floor p e)
            else if which =? 1 then (if s then - mag_ceil p e else mag_floor p e)
            else if which =? 2 then (if s then - mag_round_even p e else mag_round_even p e)
            else if which =? 3 then (if s then - mag_floor p e else mag_ceil p e)
            else (if s then - mag_ceil p e else mag_ceil p e))
  | _ => None end.

(* canonical external form used by the harness: F[-]<odd mantissa>p<exponent> | F[-]0 | F[-]inf | Fnan *)
Fixpoint strip2 (fuel:nat) (m e:Z) : Z * Z := match fuel with O => (m, e) | S f => if Z.even m && negb (m =? 0) then strip2 f (m / 2) (e + 1) else (m, e) end.
Fixpoint dec_digits (fuel:nat) (n:Z) (acc:list N) : list N :=
  match fuel with O => acc | S f => let acc' := Z.to_N (48 + n mod 10) :: acc in if n <? 10 then acc' else dec_digits f (n / 10) acc' end.
Definition dec (n:Z) : list N := (if n <? 0 then [45%N] else []) ++ dec_digits (S (Z.to_nat (Z.log2 (Z.abs n)))) (Z.abs n) [].
Definition show_float (f:spec_float) : list N :=
  match f with
  | S754_nan => [70;110;97;110]%N
  | S754_infinity s => [70%N] ++ (if s then [45%N] else []) ++ [105;110;102]%N
  | S754_zero s => [70%N] ++ (if s then [45%N] else []) ++ [48%N]
  | S754_finite s m e => let '(m', e') := strip2 64 (Zpos m) e in [70%N] ++ (if s then [45%N] else []) ++ dec m' ++ [112%N] ++ dec e'
  end.

(* sum() of CPython >= 3.12 on a list whose running result has just become a float: Neumaier compensation for
   float items, plain addition of small ints, fall back to plain left-to-right addition after a big int *)
Inductive num := NI (n:Z) | NF (f:spec_float).
Definition fits_long (n:Z) : bool := (- 2 ^ 63 <=? n) && (n <? 2 ^ 63).
Definition f_ge_abs (a b:spec_float) : bool := match SFcompare (SFabs a) (SFabs b) with Some Lt => false | Some _ => true | None => false end.
Fixpoint sum_generic (acc:spec_float) (l:list num) : option spec_float :=
  match l with
  | [] => Some acc
  | NF x :: r => sum_generic (fadd acc x) r
  | NI n :: r => match float_of_int n with Some x => sum_generic (fadd acc x) r | None => None end
  end.
Definition fold_comp (f c:spec_float) : spec_float := if negb (f_is_zero c) && f_finite c then fadd f c else f.
Fixpoint sum_float (f c:spec_float) (l:list num) : option spec_float :=
  match l with
  | [] => Some (fold_comp f c)
  | NF x :: r =>
      let t := fadd f x in
      let c' := if f_ge_abs f x then fadd c (fadd (fsub f t) x) else fadd c (fadd (fsub x t) f) in
      sum_float t c' r
  | NI n :: r =>
      if fits_long n then sum_float (fadd f (f_of_Z n)) c r
      else match float_of_int n with Some x => sum_generic (fadd (fold_comp f c) x) r | None => None end
  end.
(* the whole of sum(values) starting from int 0; result: exact int, or float, or None = OverflowError *)
Fixpoint py_sum (isum:Z) (l:list num) : option num :=
  match l with
  | [] => Some (NI isum)
  | NI n :: r => py_sum (isum + n) r
  | NF x :: r => match float_of_int isum with
                 | Some fi => match sum_float (fadd fi x) f_zero r with Some f => Some (NF f) | None => None end
                 | None => None end
  end.
(* functools.reduce(operator.mul, values) *)
Definition mul_num (a b:num) : option num :=
  match a, b with
  | NI x, NI y => Some (NI (x * y))
  | NI x, NF y => match float_of_int x with Some fx => Some (NF (fmul fx y)) | None => None end
  | NF x, NI y => match float_of_int y with Some fy => Some (NF (fmul x fy)) | None => None end
  | NF x, NF y => Some (NF (fmul x y)) end.
Fixpoint py_prod (acc:num) (l:list num) : option num :=
  match l with [] => Some acc | x :: r => match mul_num acc x with Some a => py_prod a r | None => None end end.
