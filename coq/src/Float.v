(* DRAFT: Python float as far as modelled - binary64 via the standard library's SpecFloat (axiom-free, extractable) *)
From Coq Require Import ZArith NArith List Bool SpecFloat.
Import ListNotations.
Require FloatText.          (* repr(float) / float(str): shortest digits that read back, CPython's layout *)
Open Scope Z_scope.

Definition prec := 53. Definition emax := 1024.
Definition f_of_Z (n:Z) : spec_float := binary_normalize prec emax n 0 false.
Definition f_finite (f:spec_float) : bool := match f with S754_zero _ | S754_finite _ _ _ => true | _ => false end.
Definition f_nan (f:spec_float) : bool := match f with S754_nan => true | _ => false end.
(* float(int): None = CPython's OverflowError *)
Definition float_of_int (n:Z) : option spec_float := let f := f_of_Z n in if f_finite f then Some f else None.
Definition fadd := SFadd prec emax. Definition fmul := SFmul prec emax. Definition fsub := SFsub prec emax.
Definition fabs (f:spec_float) := SFabs f.
Definition f_zero := S754_zero false.
Definition f_is_zero (f:spec_float) : bool := match f with S754_zero _ => true | _ => false end.

(* exact comparison of an integer with a double (CPython compares int and float exactly) *)
Definition cmp_zf (n:Z) (f:spec_float) : option comparison :=
  match f with
  | S754_nan => None
  | S754_infinity s => Some (if s then Gt else Lt)
  | S754_zero _ => Some (n ?= 0)
  | S754_finite s m e =>
      let v := if s then Zneg m else Zpos m in
      Some (if 0 <=? e then n ?= v * 2 ^ e else (n * 2 ^ (- e)) ?= v)
  end.
Definition cmp_ff (a b:spec_float) : option comparison := SFcompare a b.
Definition flip (c:comparison) := match c with Lt => Gt | Gt => Lt | Eq => Eq end.

(* int(float) / math.trunc : None = OverflowError (inf) or ValueError (nan) *)
Definition mag_floor (m:Z) (e:Z) : Z := if 0 <=? e then m * 2 ^ e else m / 2 ^ (- e).
Definition mag_ceil (m:Z) (e:Z) : Z := if 0 <=? e then m * 2 ^ e else - ((- m) / 2 ^ (- e)).
Definition mag_round_even (m:Z) (e:Z) : Z :=
  if 0 <=? e then m * 2 ^ e else
    let k := 2 ^ (- e) in let q := m / k in let r := m mod k in
    if 2 * r <? k then q else if k <? 2 * r then q + 1 else if Z.even q then q else q + 1.
Definition rounding (which:Z) (f:spec_float) : option Z :=      (* 0 trunc, 1 floor, 2 round-half-even, 3 ceil, 4 away from zero *)
  match f with
  | S754_zero _ => Some 0
  | S754_finite s m e =>
      let p := Zpos m in
      Some (if which =? 0 then (if s then - mag_floor p e else mag_floor p e)
            else if which =? 1 then (if s then - mag_ceil p e else mag_floor p e)
            else if which =? 2 then (if s then - mag_round_even p e else mag_round_even p e)
            else if which =? 3 then (if s then - mag_floor p e else mag_ceil p e)
            else (if s then - mag_ceil p e else mag_ceil p e))
  | _ => None end.

(* ---------- real floor division and remainder: CPython's float_divmod (Objects/floatobject.c) and C fmod, transcribed ----------
   fmod is EXACT: with both operands written over a common exponent, |x| mod |y| is an integer below |y|'s mantissa, so it is representable *)
Definition fdiv := SFdiv prec emax.
Definition f_sign (f:spec_float) : bool := match f with S754_zero s | S754_infinity s | S754_finite s _ _ => s | S754_nan => false end.
Definition f_with_sign (s:bool) (f:spec_float) : spec_float :=
  match f with S754_zero _ => S754_zero s | S754_infinity _ => S754_infinity s | S754_finite _ m e => S754_finite s m e | S754_nan => S754_nan end.
Definition f_lt0 (f:spec_float) : bool := match SFcompare f f_zero with Some Lt => true | _ => false end.
Inductive fres := FOk (f:spec_float) | FZeroDiv | FDomain.
Definition c_fmod (x y:spec_float) : fres :=
  match x, y with
  | S754_nan, _ | _, S754_nan => FOk S754_nan
  | S754_infinity _, _ => FDomain
  | _, S754_zero _ => FDomain
  | _, S754_infinity _ => FOk x
  | S754_zero _, _ => FOk x
  | S754_finite sx mx ex, S754_finite _ my ey =>
      let e := Z.min ex ey in
      let a := Zpos mx * 2 ^ (ex - e) in let b := Zpos my * 2 ^ (ey - e) in
      let r := a mod b in
      FOk (if r =? 0 then S754_zero sx else binary_normalize prec emax (if sx then - r else r) e sx)
  end.
(* math.fmod(a, b): ValueError when b is 0 or a is infinite (mapped by the built-in to the division / arithmetic error) *)
Definition py_fmod (x y:spec_float) : fres :=
  match c_fmod x y with
  | FDomain => if f_is_zero y then FZeroDiv else FDomain
  | r => r end.
Definition f_floor (f:spec_float) : spec_float :=
  match f with
  | S754_finite s m e => if 0 <=? e then f else
      let fl := if s then - ((Zpos m + 2 ^ (- e) - 1) / 2 ^ (- e)) else Zpos m / 2 ^ (- e) in
      if fl =? 0 then S754_zero s else binary_normalize prec emax fl 0 s
  | _ => f end.
Definition f_half := fdiv (f_of_Z 1) (f_of_Z 2).
Definition f_gt (a b:spec_float) : bool := match SFcompare a b with Some Gt => true | _ => false end.
(* a // b for doubles; b = 0 is ZeroDivisionError *)
Definition py_floordiv (vx wx:spec_float) : fres :=
  if f_is_zero wx then FZeroDiv else
  match c_fmod vx wx with
  | FDomain => FOk S754_nan                     (* fmod(inf, y) = nan in C: Python's float // goes through C fmod, not math.fmod *)
  | FZeroDiv => FZeroDiv
  | FOk md =>
      let div0 := fdiv (fsub vx md) wx in
      let '(md1, div1) := if negb (f_is_zero md) && negb (f_nan md) then (if Bool.eqb (f_lt0 wx) (f_lt0 md) then (md, div0) else (fadd md wx, fsub div0 (f_of_Z 1))) else (md, div0) in
      if f_nan div1 then FOk div1 else
      if f_is_zero div1 then FOk (S754_zero (xorb (f_sign vx) (f_sign wx)))     (* zero with the sign of the true quotient *)
      else let fl := f_floor div1 in FOk (if f_gt (fsub div1 fl) f_half then fadd fl (f_of_Z 1) else fl)
  end.
(* the repository's ㄴㄴ on reals: value = a // b; if value < 0: value = -(-a // b)   (truncation toward zero) *)
Definition py_truncdiv (a b:spec_float) : fres :=
  match py_floordiv a b with
  | FOk v => if f_lt0 v then match py_floordiv (SFopp a) b with FOk v2 => FOk (SFopp v2) | r => r end else FOk v
  | r => r end.

(* canonical external form used by the harness: F[-]<odd mantissa>p<exponent> | F[-]0 | F[-]inf | Fnan *)
Fixpoint strip2 (fuel:nat) (m e:Z) : Z * Z := match fuel with O => (m, e) | S f => if Z.even m && negb (m =? 0) then strip2 f (m / 2) (e + 1) else (m, e) end.
Fixpoint dec_digits (fuel:nat) (n:Z) (acc:list N) : list N :=
  match fuel with O => acc | S f => let acc' := Z.to_N (48 + n mod 10) :: acc in if n <? 10 then acc' else dec_digits f (n / 10) acc' end.
Definition dec (n:Z) : list N := (if n <? 0 then [45%N] else []) ++ dec_digits (S (Z.to_nat (Z.log2 (Z.abs n)))) (Z.abs n) [].
(* str(float): Python's repr - FloatText.repr_float; the printer finds digits for every double the harness has met, "??" would show if it did not *)
Definition show_float (f:spec_float) : list N := match FloatText.repr_float f with Some l => l | None => [63; 63]%N end.

(* sum() of CPython >= 3.12 on a list whose running result has just become a float: Neumaier compensation for
   float items, plain addition of small ints, fall back to plain left-to-right addition after a big int *)
Inductive num := NI (n:Z) | NF (f:spec_float) | NC (re im:spec_float).
(* the operand of a complex operation: an int or a double becomes (x, +0.0); None = the int is too large for a double (OverflowError) *)
Definition to_c (a:num) : option (spec_float * spec_float) :=
  match a with
  | NI x => match float_of_int x with Some f => Some (f, f_zero) | None => None end
  | NF f => Some (f, f_zero)
  | NC r i => Some (r, i) end.
Definition c_add (a b:num) : option num :=
  match to_c a, to_c b with Some (ar, ai), Some (br, bi) => Some (NC (fadd ar br) (fadd ai bi)) | _, _ => None end.
(* _Py_c_prod: (ar*br - ai*bi, ar*bi + ai*br), four products, no fused operation *)
Definition c_mul (a b:num) : option num :=
  match to_c a, to_c b with Some (ar, ai), Some (br, bi) => Some (NC (fsub (fmul ar br) (fmul ai bi)) (fadd (fmul ar bi) (fmul ai br))) | _, _ => None end.
Definition fits_long (n:Z) : bool := (- 2 ^ 63 <=? n) && (n <? 2 ^ 63).
Definition f_ge_abs (a b:spec_float) : bool := match SFcompare (SFabs a) (SFabs b) with Some Lt => false | Some _ => true | None => false end.
Definition add_num (a b:num) : option num :=
  match a, b with
  | NI x, NI y => Some (NI (x + y))
  | NI x, NF y => match float_of_int x with Some fx => Some (NF (fadd fx y)) | None => None end
  | NF x, NI y => match float_of_int y with Some fy => Some (NF (fadd x fy)) | None => None end
  | NF x, NF y => Some (NF (fadd x y))
  | _, _ => c_add a b end.
Fixpoint sum_any (acc:num) (l:list num) : option num :=
  match l with [] => Some acc | x :: r => match add_num acc x with Some a => sum_any a r | None => None end end.
Definition fold_comp (f c:spec_float) : spec_float := if negb (f_is_zero c) && f_finite c then fadd f c else f.
Fixpoint sum_float (f c:spec_float) (l:list num) : option num :=
  match l with
  | [] => Some (NF (fold_comp f c))
  | NF x :: r =>
      let t := fadd f x in
      let c' := if f_ge_abs f x then fadd c (fadd (fsub f t) x) else fadd c (fadd (fsub x t) f) in
      sum_float t c' r
  | NI n :: r =>
      if fits_long n then sum_float (fadd f (f_of_Z n)) c r
      else sum_any (NF (fold_comp f c)) l          (* leaves the compensated loop for good: plain left-to-right addition of the rest *)
  | NC _ _ :: _ => sum_any (NF (fold_comp f c)) l
  end.
(* the whole of sum(values) starting from int 0; result: exact int, or float, or None = OverflowError *)
(* the generic loop: plain left-to-right Python addition, no compensation *)
(* integer fast path: only while the running sum and the item fit a C long; an integer beyond that sends the REST of the list - later reals
   included - through the generic loop (found by the thorough float slice: 1 disagreement in 100,000 programs) *)
Fixpoint py_sum (isum:Z) (l:list num) : option num :=
  match l with
  | [] => Some (NI isum)
  | NI n :: r => if fits_long n && fits_long (isum + n) then py_sum (isum + n) r else sum_any (NI (isum + n)) r
  | NF x :: r => match float_of_int isum with
                 | Some fi => sum_float (fadd fi x) f_zero r
                 | None => None end
  | NC _ _ :: _ => sum_any (NI isum) l
  end.
(* functools.reduce(operator.mul, values) *)
Definition mul_num (a b:num) : option num :=
  match a, b with
  | NI x, NI y => Some (NI (x * y))
  | NI x, NF y => match float_of_int x with Some fx => Some (NF (fmul fx y)) | None => None end
  | NF x, NI y => match float_of_int y with Some fy => Some (NF (fmul x fy)) | None => None end
  | NF x, NF y => Some (NF (fmul x y))
  | _, _ => c_mul a b end.
Fixpoint py_prod (acc:num) (l:list num) : option num :=
  match l with [] => Some acc | x :: r => match mul_num acc x with Some a => py_prod a r | None => None end end.

(* ---------- printing a complex number (abstract_syntax.Complex.__str__): each part is shown as an integer when math.isclose(x, int(x),
   abs_tol=1e-16) - relative tolerance 1e-9, the default - and as a real otherwise ---------- *)
Definition rel_tol := S754_finite false 4835703278458517 (-82).      (* 1e-9  = 0x1.12e0be826d695p-30; RealText.tolerances_are_the_decimals reads both back from their decimal texts *)
Definition abs_tol := S754_finite false 8112963841460668 (-106).     (* 1e-16 = 0x1.cd2b297d889bcp-54 *)
Definition f_le (a b:spec_float) : bool := match SFcompare a b with Some Lt | Some Eq => true | _ => false end.
Definition f_eqb (a b:spec_float) : bool := match SFcompare a b with Some Eq => true | _ => false end.
Definition to_int_if_possible (f:spec_float) : Z + spec_float :=
  match rounding 0 f with
  | None => inr f                                   (* not finite *)
  | Some n =>
      let b := f_of_Z n in                          (* int(x) as a double: exact, it is the integral part of a double *)
      let diff := fabs (fsub b f) in
      if f_eqb f b || f_le diff (fabs (fmul rel_tol b)) || f_le diff (fabs (fmul rel_tol f)) || f_le diff abs_tol then inl n else inr f
  end.
Definition show_part (p:Z + spec_float) : list N := match p with inl n => dec n | inr f => show_float f end.
Definition part_abs (p:Z + spec_float) : Z + spec_float := match p with inl n => inl (Z.abs n) | inr f => inr (fabs f) end.
Definition part_neg (p:Z + spec_float) : bool := match p with inl n => n <? 0 | inr f => f_lt0 f end.
Definition show_complex (r i:spec_float) : list N :=
  let re := to_int_if_possible r in let im := to_int_if_possible i in
  (match re with inl 0 => [] | _ => show_part re ++ (if part_neg im then [] else [43%N]) end)
  ++ (if part_neg im then [45%N] else [])
  ++ (match part_abs im with inl 1 => [] | p => show_part p end) ++ [105%N].
