(* C13: the specification semantics instrumented with the LIST of delayed expressions whose evaluation begins, in order.
   Definitions only (extracted); the theorems are in Count.v. *)
From Coq Require Import ZArith NArith List Bool FMapPositive.
Import ListNotations.
Require Import Base Strings Builtins Interp Machine Spec.

Definition outl := (out * list positive)%type.
Section RunL.
Variable recl : list positive -> heap -> world -> task -> outl.
Fixpoint runl (ip:list positive) (h:heap) (w:world) (c:Comp value) {struct c} : outl :=
  let cont (ol:outl) (extra:nat) (k:value -> Comp value) : outl :=
    match ol with
    | (Done h' w' (inl v) d, l) => let (o2, l2) := runl ip h' w' (k v) in (updd o2 (extra + d)%nat, l ++ l2)
    | (Done h' w' (inr e) d, l) => (Done h' w' (inr e) (extra + d)%nat, l)
    | (o', l) => (o', l) end in
  match c with
  | Ret v => (Done h w (inl v) 0%nat, [])
  | Raise e => (Done h w (inr e) 0%nat, [])
  | Force (VThunk u) k =>
      match get h u with
      | None => (Done h w (inr {| e_spans := []; e_vals := [] |}) 0%nat, [])
      | Some cl => match c_cache cl with
                   | Some (inl v) => runl ip h w (k v)
                   | Some (inr e) => (Done h w (inr e) 0%nat, [])
                   | None => if existsb (Pos.eqb u) ip then (Reentry, []) else cont (recl ip h w (TThunk u)) 1%nat k end end
  | Force v k => runl ip h w (k v)
  | Alloc a e k => let (h', t) := alloc h a e in runl ip h' w (k t)
  | NewClo b e k => let (h', g) := newclo h b e in runl ip h' w (k g)
  | CloDepth g k => match PositiveMap.find g (clos h) with Some cl => runl ip h w (k (length (args (f_env cl)))) | None => (Done h w (inr {| e_spans := []; e_vals := [] |}) 0%nat, []) end
  | AllocBody g av k => match alloc_body h g av with Some (h', t) => runl ip h' w (k t) | None => (Done h w (inr {| e_spans := []; e_vals := [] |}) 0%nat, []) end
  | Fresh k => let (h', i) := fresh h in runl ip h' w (k i)
  | PeekLit t k => match get h t with Some cl => runl ip (set_peeked h t) w (k (lit_of (c_ast cl))) | None => (Done h w (inr {| e_spans := []; e_vals := [] |}) 0%nat, []) end
  | Call p k => cont (recl ip h w (TComp (proc_body p))) 0%nat k
  | Catch c1 hd k =>
      match runl ip h w c1 with
      | (Done h' w' (inl v) d, l1) => let (o2, l2) := runl ip h' w' (k v) in (updd o2 d, l1 ++ l2)
      | (Done h' w' (inr e) d, l1) =>
          if unmodelled e then (Done h' w' (inr e) d, l1)
          else let (o2, l2) := cont (runl ip h' w' (hd e)) 0%nat k in (updd o2 d, l1 ++ l2)
      | (o, l1) => (o, l1) end
  | World op k => let (w', r) := wstep w op in match r with inl v => runl ip h w' (k v) | inr e => (Done h w' (inr e) 0%nat, []) end
  end.
End RunL.

Fixpoint bsl (n:nat) (ip:list positive) (h:heap) (w:world) (tk:task) : outl :=
  match n with O => (OOF, []) | S n' =>
    match tk with
    | TComp c => runl (bsl n') ip h w c
    | TThunk t =>
        match get h t with
        | None => (Done h w (inr {| e_spans := []; e_vals := [] |}) 0%nat, [])
        | Some cl =>
            match runl (bsl n') (t :: ip) h w (interpret (c_ast cl) (c_env cl)) with
            | (Done h1 w1 (inl (VThunk t')) d0, l1) =>
                match get h1 t' with
                | None => (OOF, t :: l1)
                | Some cl' =>
                    match c_cache cl' with
                    | Some r => (Done (set_cache h1 t r) w1 r d0, t :: l1)
                    | None => if existsb (Pos.eqb t') (t :: ip) then (Reentry, t :: l1) else
                        match bsl n' (t :: ip) h1 w1 (TThunk t') with
                        | (Done h2 w2 r d2, l2) => (Done (set_cache h2 t r) w2 r (Nat.max d0 d2), t :: l1 ++ l2)
                        | (o, l2) => (o, t :: l1 ++ l2) end end end
            | (Done h1 w1 r d0, l1) => (Done (set_cache h1 t r) w1 r d0, t :: l1)
            | (o, l1) => (o, t :: l1) end end end end.

(* main.main on a program: the list of delayed expressions whose evaluation begins *)
Definition trace_main (fuel:nat) (prog:ast) (stdin:list (list N)) : outl :=
  let (h, t) := alloc heap0 prog {| funs := []; args := [] |} in
  bsl fuel [] h (world_start stdin []) (TComp (call (PFormat (VThunk t) false))).
