(* C03: the dictionary constructor ㅅㅈ never evaluates a VALUE.  For an ARBITRARY evaluator `rec`: what ㅅㅈ does - answer, heap, world, frames -
   is a computation on the KEYS alone (the arguments at even positions: evaluated deeply and turned into key forms); the values (odd positions)
   are only placed into the answer as they were given.  Hence two calls whose keys coincide do exactly the same evaluations, whatever the values
   are (thunks of throwing, divergent or printing expressions included), and a dictionary call hands the stored value back as it was stored. *)
From Coq Require Import ZArith NArith List Bool FMapPositive Lia.
Import ListNotations.
Require Import Base Strings Builtins Interp Machine Spec Refine2 RunG.
Open Scope Z_scope.

Section DL.
Variable rec : list positive -> heap -> world -> task -> out.

Definition keys_of (argv:list value) : Comp (list value) := bind (map_call PDeep (evens argv)) (fun ks => map_call PKey ks).

Theorem dict_constructor_runs_the_keys_only sp argv ip h w : Nat.odd (length argv) = false ->
  runG rec value ip h w (bi_dict sp argv) =
  thenG (runG rec (list value) ip h w (keys_of argv)) (fun h' w' keys => DoneG h' w' (inl (VDict (zipd keys (odds argv) []))) 0).
Proof.
  intros E. unfold bi_dict, keys_of. rewrite E. rewrite !runG_bind.
  destruct (runG rec (list value) ip h w (map_call PDeep (evens argv))) as [h1 w1 [ks|e] d1| |]; cbn [thenG]; try reflexivity.
  rewrite runG_bind. destruct (runG rec (list value) ip h1 w1 (map_call PKey ks)) as [h2 w2 [keys|e] d2| |]; cbn [thenG upddG runG]; try reflexivity. f_equal. lia.
Qed.
Corollary dict_values_are_never_evaluated sp argv argv' ip h w : Nat.odd (length argv) = false -> length argv' = length argv -> evens argv' = evens argv ->
  runG rec value ip h w (bi_dict sp argv') =
  thenG (runG rec (list value) ip h w (keys_of argv)) (fun h' w' keys => DoneG h' w' (inl (VDict (zipd keys (odds argv') []))) 0).
Proof.
  intros E L K. rewrite dict_constructor_runs_the_keys_only by (rewrite L; exact E). unfold keys_of. rewrite K. reflexivity.
Qed.
End DL.
