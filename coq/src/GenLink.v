(* DRAFT: theorems ABOUT the regenerated definitions, and the link between them and the hand-written model *)
From Coq Require Import ZArith NArith List Bool Lia.
Import ListNotations.
Require Import Base Builtins Machine.
Require GenErr GenTables GenArith.
Open Scope Z_scope.

(* ---- C11-T1 on the kernels regenerated from arithmetics.py ---- *)
Theorem int_div_is_quot a d : d <> 0 -> GenArith.gen_int_div a d = Z.quot a d.
Proof.
  intros Hd. unfold GenArith.gen_int_div. cbv zeta.
  destruct (a / d <? 0) eqn:E; [apply Z.ltb_lt in E|apply Z.ltb_ge in E];
    Z.to_euclidean_division_equations; nia.
Qed.
Theorem int_rem_is_rem a d : d <> 0 -> GenArith.gen_int_rem a d = Z.rem a d.
Proof.
  intros Hd. rewrite (Z.rem_eq a d Hd). rewrite <- (int_div_is_quot a d Hd).
  unfold GenArith.gen_int_rem, GenArith.gen_int_div. cbv zeta.
  rewrite (Z.mod_eq a d Hd), (Z.mod_eq (- a) d Hd). rewrite Z.geb_leb.
  destruct (a / d <? 0) eqn:E1; destruct (0 <=? a / d) eqn:E2;
    try (apply Z.ltb_lt in E1); try (apply Z.ltb_ge in E1); try (apply Z.leb_le in E2); try (apply Z.leb_gt in E2); lia.
Qed.
Corollary division_law a d : d <> 0 ->
  a = GenArith.gen_int_div a d * d + GenArith.gen_int_rem a d /\ Z.abs (GenArith.gen_int_rem a d) < Z.abs d
  /\ (0 <= a -> 0 <= GenArith.gen_int_rem a d) /\ (a <= 0 -> GenArith.gen_int_rem a d <= 0).
Proof.
  intros Hd. rewrite int_div_is_quot, int_rem_is_rem by auto.
  pose proof (Z.quot_rem' a d). pose proof (Z.rem_bound_abs a d Hd). pose proof (Z.rem_nonneg a d Hd). pose proof (Z.rem_nonpos a d Hd).
  repeat split; try lia; auto.
Qed.

(* ---- the hand-written model uses exactly the regenerated kernels and constants ---- *)
Lemma model_int_div a d : int_div a d = GenArith.gen_int_div a d. Proof. reflexivity. Qed.
Lemma model_int_rem a d : int_rem a d = GenArith.gen_int_rem a d.
Proof. unfold int_rem, GenArith.gen_int_rem. rewrite Z.geb_leb. reflexivity. Qed.
Lemma model_codes : (c_type, c_value, c_div, c_notfound, c_range, c_arith, c_syntax, c_import, c_os)
  = (GenErr.gen_code_Type, GenErr.gen_code_Value, GenErr.gen_code_Division, GenErr.gen_code_NotFound, GenErr.gen_code_OutOfRange,
     GenErr.gen_code_Arithmetic, GenErr.gen_code_Syntax, GenErr.gen_code_Import, GenErr.gen_code_OS).
Proof. reflexivity. Qed.
Lemma codes_distinct : NoDup GenErr.gen_codes.
Proof. repeat constructor; simpl; intuition discriminate. Qed.
Lemma model_max_stack : MAX_STACK_SIZE = GenTables.gen_max_stack_size. Proof. reflexivity. Qed.
(* every built-in the model implements is a built-in of the code (the converse list is the to-do list) *)
Lemma model_builtins_exist : forallb (fun n => existsb (Z.eqb n) GenTables.gen_builtin_names) builtin_names = true.
Proof. vm_compute. reflexivity. Qed.
Definition not_yet_modelled : list Z := filter (fun n => negb (existsb (Z.eqb n) builtin_names)) GenTables.gen_builtin_names.
Eval vm_compute in not_yet_modelled.
Lemma model_shift x y : (if y <? 0 then Z.shiftr x (- y) else Z.shiftl x y) = GenTables.gen_shift_left x y. Proof. reflexivity. Qed.
Theorem shift_spec a n : (0 <= n -> GenTables.gen_shift_left a n = a * 2 ^ n) /\ (n < 0 -> GenTables.gen_shift_left a n = a / 2 ^ (- n)).
Proof.
  unfold GenTables.gen_shift_left. split; intros H.
  - assert (n <? 0 = false) by (apply Z.ltb_ge; lia). rewrite H0. apply Z.shiftl_mul_pow2; lia.
  - assert (n <? 0 = true) by (apply Z.ltb_lt; lia). rewrite H0. apply Z.shiftr_div_pow2; lia.
Qed.
Print Assumptions division_law.
