(* DRAFT: C04 (model level) - the evaluator loop never gets stuck: every run ends in a value, a language-level
   exception, the explicit stack limit, or is still running when the fuel ends. *)
From Coq Require Import ZArith NArith List Bool FMapPositive Lia.
Import ListNotations.
Require Import Base Strings Builtins Interp Machine Events.

Lemma step_not_stuck lim s k : Inv s -> step_with lim s <> inr (OStuck k).
Proof.
  unfold Inv, step_with. intros (_ & _ & _ & Hsh).
  destruct (m_stack s) as [|top rest]; [destruct Hsh|].
  destruct (match lim with Some m => _ | None => false end); [discriminate|].
  destruct (frame_step (m_heap s) (m_world s) top) as [f' h' w'|u f'|r h' w']; try discriminate.
  destruct (fr_tid top) as [t|] eqn:Et; [|destruct r; discriminate].
  destruct rest as [|parent rest']; [cbn [shape] in Hsh; congruence|].
  destruct r as [[]|]; discriminate.
Qed.
Lemma run_not_stuck : forall fuel s k, Inv s -> fst (run fuel s) <> OStuck k.
Proof.
  induction fuel as [|f IH]; intros s k I; cbn [run]; [discriminate|].
  unfold step. destruct (step_with (Some MAX_STACK_SIZE) s) as [s'|o] eqn:E.
  - apply IH. eapply inv_step; eauto.
  - cbn [fst]. intros ->. eapply step_not_stuck; eauto.
Qed.
Theorem never_stuck fuel prog stdin k : fst (run_main fuel prog stdin) <> OStuck k.
Proof. unfold run_main. apply run_not_stuck. apply inv_init. Qed.
(* the five ways a run can end, exhaustively *)
Theorem outcomes_exhaustive fuel prog stdin :
  match fst (run_main fuel prog stdin) with ODone _ | OErr _ | OLimit | OFuel => True | OStuck _ => False end.
Proof. pose proof (never_stuck fuel prog stdin) as N. destruct (fst (run_main fuel prog stdin)); auto. exact (N why eq_refl). Qed.
Print Assumptions never_stuck.
