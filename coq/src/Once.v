(* C13: each delayed expression is evaluated at most once (call-by-need).
   On the specification semantics (transported to the trampolined machine by machine_implements_spec):
   - caches only fill, and never change once filled, along every evaluation (the cache_stable theorems);
   - evaluating a delayed expression leaves its result - value or exception - in its cache (evaluated_is_cached);
   - a demand for a cached expression performs NO evaluation at all: it does not even consult the evaluation oracle,
     returns the cached value / raises the cached exception, and leaves heap and world untouched (the no_work theorems).
   Together: after its first completed evaluation a delayed expression is never evaluated again, and all users share its result. *)
From Coq Require Import ZArith NArith List Bool FMapPositive Lia.
Import ListNotations.
Require Import Base Strings Builtins Interp Machine Spec HeapFacts Refine1 Refine2 Refine3 Refine4 RunG Exc.

Theorem cache_stable_thunk n ip h w u h' w' r d :
  bs n ip h w (TThunk u) = Done h' w' r d -> uncached h u -> ~ In u ip -> inv h ip -> hle h h'.
Proof. intros H U N I. destruct (sim_all n) as (HA & _ & _). destruct (HA _ _ _ _ _ _ _ _ H U N I) as (_ & L & _). exact L. Qed.
Theorem cache_stable_comp n ip h w c h' w' r d :
  bs n ip h w (TComp c) = Done h' w' r d -> inv h ip -> hle h h'.
Proof. intros H I. destruct (sim_all n) as (_ & HC & _). destruct (HC _ _ _ _ _ _ _ _ H I) as (_ & L & _). exact L. Qed.
(* spelled out: a cell that holds a result before an evaluation holds the same result after it *)
Corollary result_never_changes n ip h w c h' w' r d t cl r0 :
  bs n ip h w (TComp c) = Done h' w' r d -> inv h ip -> get h t = Some cl -> c_cache cl = Some r0 ->
  exists cl', get h' t = Some cl' /\ c_cache cl' = Some r0 /\ c_ast cl' = c_ast cl /\ c_env cl' = c_env cl.
Proof.
  intros H I G C. destruct (cache_stable_comp _ _ _ _ _ _ _ _ _ H I) as (_ & L).
  destruct (L _ _ G) as (cl' & G' & A & E & K & _). exists cl'. auto.
Qed.
Theorem evaluated_is_cached n ip h w t h' w' r d :
  bs n ip h w (TThunk t) = Done h' w' r d -> uncached h t -> ~ In t ip -> inv h ip ->
  exists cl', get h' t = Some cl' /\ c_cache cl' = Some r.
Proof. exact (thunk_result_cached n ip h w t h' w' r d). Qed.

Section NoWork.
Variable rec : list positive -> heap -> world -> task -> out.
(* for EVERY evaluation oracle `rec`: the oracle is not consulted, nothing is allocated, nothing is written *)
Theorem cached_value_no_work A (k:value -> Comp A) ip h w u cl v :
  get h u = Some cl -> c_cache cl = Some (inl v) ->
  runG rec A ip h w (Force (VThunk u) k) = runG rec A ip h w (k v).
Proof. intros G C. cbn [runG]. rewrite G, C. reflexivity. Qed.
Theorem cached_error_no_work A (k:value -> Comp A) ip h w u cl e :
  get h u = Some cl -> c_cache cl = Some (inr e) ->
  runG rec A ip h w (Force (VThunk u) k) = DoneG h w (inr e) 0.
Proof. exact (cached_failure_replayed rec A k ip h w u cl e). Qed.
End NoWork.
(* the same at thunk level: a tail-returned expression that is already cached is not evaluated either *)
Theorem tail_returned_cached_no_eval n ip h w t cl h1 w1 t' cl' r d0 :
  get h t = Some cl -> run (bs n) (t :: ip) h w (interpret (c_ast cl) (c_env cl)) = Done h1 w1 (inl (VThunk t')) d0 ->
  get h1 t' = Some cl' -> c_cache cl' = Some r ->
  bs (S n) ip h w (TThunk t) = Done (set_cache h1 t r) w1 r d0.
Proof. intros G R G' C. cbn [bs]. rewrite G, R, G', C. reflexivity. Qed.
