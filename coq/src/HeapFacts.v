(* DRAFT proofs: heap facts over PositiveMap *)
From Coq Require Import ZArith NArith List Bool FMapPositive Lia.
Import ListNotations.
Require Import Base Strings Builtins Interp Machine.

Definition cached (h:heap) (t:positive) := exists cl r, get h t = Some cl /\ c_cache cl = Some r.
Definition uncached (h:heap) (t:positive) := exists cl, get h t = Some cl /\ c_cache cl = None.
Definition wfh (h:heap) := forall t, (next_t h <= t)%positive -> get h t = None.
Definition hle (h h':heap) :=
  (next_t h <= next_t h')%positive /\
  (forall t cl, get h t = Some cl -> exists cl', get h' t = Some cl' /\ c_ast cl' = c_ast cl /\ c_env cl' = c_env cl /\ (forall r, c_cache cl = Some r -> c_cache cl' = Some r)
                 /\ (c_peeked cl = true -> c_peeked cl' = true)).

Lemma hle_refl h : hle h h.
Proof. split. lia. intros t cl G. exists cl; auto. Qed.
Lemma hle_trans a b c : hle a b -> hle b c -> hle a c.
Proof.
  intros [L1 H1] [L2 H2]. split. lia. intros t cl G.
  destruct (H1 _ _ G) as (c1 & G1 & A1 & E1 & C1 & P1). destruct (H2 _ _ G1) as (c2 & G2 & A2 & E2 & C2 & P2).
  exists c2. repeat split; try congruence; auto.
Qed.
Lemma get_alloc_new h a e : get (fst (alloc h a e)) (next_t h) = Some {| c_ast := a; c_env := e; c_cache := None; c_peeked := false |}.
Proof. unfold get, alloc; simpl. apply PositiveMap.gss. Qed.
Lemma get_alloc_old h a e t : t <> next_t h -> get (fst (alloc h a e)) t = get h t.
Proof. intros N. unfold get, alloc; simpl. apply PositiveMap.gso; auto. Qed.
Lemma get_valid h t cl : wfh h -> get h t = Some cl -> (t < next_t h)%positive.
Proof. intros W G. destruct (Pos.ltb_spec t (next_t h)); auto. rewrite W in G by lia. discriminate. Qed.
Lemma wfh_alloc h a e : wfh h -> wfh (fst (alloc h a e)).
Proof. intros W t L. simpl in L. rewrite get_alloc_old by lia. apply W. lia. Qed.
Lemma hle_alloc h a e : wfh h -> hle h (fst (alloc h a e)).
Proof.
  intros W. split. simpl; lia. intros t cl G. exists cl. rewrite get_alloc_old; auto.
  pose proof (get_valid _ _ _ W G). lia.
Qed.
Lemma get_newclo h b e t : get (fst (newclo h b e)) t = get h t. Proof. reflexivity. Qed.
Lemma get_fresh h t : get (fst (fresh h)) t = get h t. Proof. reflexivity. Qed.
Lemma get_set_same h t r cl : get h t = Some cl -> get (set_cache h t r) t = Some {| c_ast := c_ast cl; c_env := c_env cl; c_cache := Some r; c_peeked := c_peeked cl |}.
Proof. intros G. unfold set_cache. rewrite G. unfold get; simpl. apply PositiveMap.gss. Qed.
Lemma get_set_other h t u r : t <> u -> get (set_cache h t r) u = get h u.
Proof. intros N. unfold set_cache. destruct (get h t); auto. unfold get; simpl. apply PositiveMap.gso; auto. Qed.
Lemma set_cache_none h t r : get h t = None -> set_cache h t r = h.
Proof. unfold set_cache. intros ->. reflexivity. Qed.
Lemma next_set h t r : next_t (set_cache h t r) = next_t h.
Proof. unfold set_cache. destruct (get h t); auto. Qed.
Lemma clos_set h t r : clos (set_cache h t r) = clos h.
Proof. unfold set_cache. destruct (get h t); auto. Qed.
Lemma wfh_set h t r : wfh h -> wfh (set_cache h t r).
Proof.
  intros W u L. rewrite next_set in L. destruct (Pos.eq_dec t u) as [<-|N].
  - rewrite set_cache_none; auto.
  - rewrite get_set_other; auto.
Qed.
Lemma hle_set_cache h t r : uncached h t -> hle h (set_cache h t r).
Proof.
  intros [cl [G C]]. split. rewrite next_set; lia.
  intros u cu Gu. destruct (Pos.eq_dec t u) as [<-|N].
  - rewrite G in Gu; inversion Gu; subst cu. eexists. split. apply get_set_same; eauto. simpl. repeat split; auto. intros r0 Hr. congruence.
  - exists cu. rewrite get_set_other by auto. auto.
Qed.
Lemma hle_cached h h' x : hle h h' -> cached h x -> cached h' x.
Proof. intros [_ H] (cl & r & G & C). destruct (H _ _ G) as (cl' & G' & _ & _ & C' & _). exists cl', r. auto. Qed.
Lemma cached_set h u r : uncached h u -> cached (set_cache h u r) u.
Proof. intros [cl [G C]]. eexists _, r. split. apply get_set_same; eauto. reflexivity. Qed.
(* set_cache is idempotent when the cell already holds that result: needs extensional equality of maps, so we state it on `get` *)
Lemma get_set_idem h t cl r u : get h t = Some cl -> c_cache cl = Some r -> get (set_cache h t r) u = get h u.
Proof.
  intros G C. destruct (Pos.eq_dec t u) as [<-|N].
  - rewrite (get_set_same _ _ _ _ G). rewrite G. destruct cl; simpl in *; subst; reflexivity.
  - apply get_set_other; auto.
Qed.

(* ---- the ghost flag set by PeekLit ---- *)
Lemma get_peek_same h t cl : get h t = Some cl ->
  get (set_peeked h t) t = Some {| c_ast := c_ast cl; c_env := c_env cl; c_cache := c_cache cl; c_peeked := true |}.
Proof. intros G. unfold set_peeked. rewrite G. unfold get; simpl. apply PositiveMap.gss. Qed.
Lemma get_peek_other h t u : t <> u -> get (set_peeked h t) u = get h u.
Proof. intros N. unfold set_peeked. destruct (get h t); auto. unfold get; simpl. apply PositiveMap.gso; auto. Qed.
Lemma next_peek h t : next_t (set_peeked h t) = next_t h.
Proof. unfold set_peeked. destruct (get h t); auto. Qed.
Lemma clos_peek h t : clos (set_peeked h t) = clos h.
Proof. unfold set_peeked. destruct (get h t); auto. Qed.
Lemma peek_none h t : get h t = None -> set_peeked h t = h.
Proof. unfold set_peeked. intros ->. reflexivity. Qed.
Lemma wfh_peek h t : wfh h -> wfh (set_peeked h t).
Proof.
  intros W u L. rewrite next_peek in L. destruct (Pos.eq_dec t u) as [<-|N].
  - rewrite peek_none; auto.
  - rewrite get_peek_other; auto.
Qed.
Lemma hle_peek h t : hle h (set_peeked h t).
Proof.
  split. rewrite next_peek; lia. intros u cu Gu. destruct (Pos.eq_dec t u) as [<-|N].
  - eexists. split. apply get_peek_same; eauto. simpl. auto.
  - exists cu. rewrite get_peek_other by auto. auto.
Qed.
Lemma uncached_peek h t x : uncached h x -> uncached (set_peeked h t) x.
Proof.
  intros [cl [G C]]. destruct (Pos.eq_dec t x) as [<-|N].
  - eexists. split. apply get_peek_same; eauto. simpl; auto.
  - exists cl. rewrite get_peek_other; auto.
Qed.
Lemma alloc_body_spec h f argv h' t : alloc_body h f argv = Some (h', t) ->
  exists cl, PositiveMap.find f (clos h) = Some cl /\ h' = fst (alloc h (f_body cl) {| funs := funs (f_env cl); args := args (f_env cl) ++ [argv] |}) /\ t = next_t h.
Proof. unfold alloc_body. destruct (PositiveMap.find f (clos h)) as [cl|]; [|discriminate]. intros E; inversion E; subst. exists cl. auto. Qed.
