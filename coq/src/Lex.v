(* DRAFT: parse.py normalize / tokenize / parse_token / parse, on the regenerated tables, with source spans *)
From Coq Require Import ZArith NArith List Bool.
Import ListNotations.
Require Import Base Num.
Require GenParse.
Open Scope N_scope.

Definition in_r (c lo hi : N) := (lo <=? c) && (c <=? hi).
(* unicodedata.normalize("NFD", c) restricted to what matters: Hangul syllables decompose algorithmically *)
Definition nfd (c:N) : list N :=
  if in_r c 0xAC00 0xD7A3 then
    let s := c - 0xAC00 in
    let l := 0x1100 + s / 588 in let v := 0x1161 + (s mod 588) / 28 in let t := s mod 28 in
    if t =? 0 then [l; v] else [l; v; 0x11A7 + t]
  else [c].
Definition normalize (c:N) : list N := flat_map GenParse.gen_normalize_char (nfd c).

(* re.split(r"( )", s) followed by `if d`: maximal non-space runs and single spaces, in order *)
Fixpoint pieces (l:list N) (cur:list N) : list (list N) :=
  match l with
  | [] => match cur with [] => [] | _ => [rev cur] end
  | c :: r => if c =? 32 then (match cur with [] => [] | _ => [rev cur] end) ++ [32] :: pieces r [] else pieces r (c :: cur)
  end.

Definition tok := (list N * span)%type.
Fixpoint chars_of_line (line:list N) (i j:N) : list tok :=
  match line with
  | [] => map (fun p => (p, (i, j, j + 1))) (pieces (normalize 10) [])
  | c :: r => map (fun p => (p, (i, j, j + 1))) (pieces (normalize c) []) ++ chars_of_line r i (j + 1)
  end.
Fixpoint split_lines (l:list N) (cur:list N) : list (list N) :=
  match l with [] => [rev cur] | c :: r => if c =? 10 then rev cur :: split_lines r [] else split_lines r (c :: cur) end.
Fixpoint chars_of_lines (ls:list (list N)) (i:N) : list tok :=
  match ls with [] => [] | l :: r => chars_of_line l i 0 ++ chars_of_lines r (i + 1) end.
Definition is_sp (p:list N) : bool := match p with [32] => true | _ => false end.
Definition merge_span (a b:span) : span := let '(l, s, _) := a in let '(_, _, e) := b in (l, s, e).
(* tokens kept newest-first while folding *)
Definition tok_step (acc:list tok) (cur:tok) : list tok :=
  match acc with
  | [] => [cur]
  | (p, m) :: rest =>
      if is_sp p && is_sp (fst cur) then acc
      else if negb (is_sp p) && negb (is_sp (fst cur)) then (p ++ fst cur, merge_span m (snd cur)) :: rest
      else cur :: acc
  end.
Definition tokenize (text:list N) : list tok :=
  filter (fun t => negb (is_sp (fst t))) (rev (fold_left tok_step (chars_of_lines (split_lines text []) 0) [])).

(* ---------- words ---------- *)
Definition HIEUH := 12622. Definition IEUNG := 12615.
Fixpoint index_of (c:N) (l:list N) (i:Z) : option Z := match l with [] => None | x :: r => if x =? c then Some i else index_of c r (i + 1)%Z end.
Fixpoint digits_of_word (w:list N) : option (list Z) :=
  match w with [] => Some [] | c :: r => match index_of c GenParse.gen_digits 0%Z, digits_of_word r with Some d, Some ds => Some (d :: ds) | _, _ => None end end.
Inductive perr := HostValueError | NegArity | NoFun | FewArgs | NoBody | NoRefArg | NoRefFun | RefNotLit.
Definition parse_number (w:list N) : option Z := match digits_of_word w with Some ds => Some (decode ds) | None => None end.

(* stack: head = top *)
Definition parse_token (t:tok) (stk:list ast) : list ast + perr :=
  let '(w, m) := t in
  match w with
  | c :: rest =>
      if c =? HIEUH then
        match rest with
        | [] => match stk with b :: r => inl (FunDef b m :: r) | [] => inr NoBody end
        | _ => match parse_number rest with
               | None => inr HostValueError
               | Some k =>
                   if (k <? 0)%Z then inr NegArity else
                   match stk with
                   | [] => inr NoFun
                   | f :: r => (* compared in Z: the arity can be astronomically large, the stack cannot *)
                       if (Z.of_nat (length r) <? k)%Z then inr FewArgs
                       else let n := Z.to_nat k in inl (FunCall f (rev (firstn n r)) m :: skipn n r) end end
        end
      else if c =? IEUNG then
        match rest with
        | [] => match stk with Lit n _ :: r => inl (FunRef n m :: r) | _ :: _ => inr RefNotLit | [] => inr NoRefFun end
        | _ => match parse_number rest with
               | None => inr HostValueError
               | Some r0 => match stk with a :: r => inl (ArgRef a r0 m :: r) | [] => inr NoRefArg end end
        end
      else match parse_number w with Some n => inl (Lit n m :: stk) | None => inr HostValueError end
  | [] => inr HostValueError
  end.
Fixpoint parse_tokens (ts:list tok) (stk:list ast) : list ast + (perr * span) :=
  match ts with [] => inl stk | t :: r => match parse_token t stk with inl s => parse_tokens r s | inr e => inr (e, snd t) end end.
Definition parse_text (text:list N) : list ast + (perr * span) :=
  match parse_tokens (tokenize text) [] with inl s => inl (rev s) | inr e => inr e end.
