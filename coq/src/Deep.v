(* DRAFT: C10 / C18 - deep evaluation (recursive_strict) returns a value with no delayed part at any depth. *)
From Coq Require Import ZArith NArith List Bool FMapPositive Lia.
Import ListNotations.
Require Import Base Strings Builtins Interp Machine Spec HeapFacts Refine1 Refine2 Refine3 Refine4 RunG.

Fixpoint dstrict (v:value) : Prop :=
  match v with
  | VThunk _ => False
  | VList l => (fix all (l:list value) := match l with [] => True | x :: r => dstrict x /\ all r end) l
  | VErr _ l => (fix all (l:list value) := match l with [] => True | x :: r => dstrict x /\ all r end) l
  | VDict d => (fix all (d:list (value * value)) := match d with [] => True | (_, x) :: r => dstrict x /\ all r end) d
  | _ => True end.
Fixpoint alls (l:list value) : Prop := match l with [] => True | x :: r => dstrict x /\ alls r end.
Fixpoint allp (d:list (value * value)) : Prop := match d with [] => True | (_, x) :: r => dstrict x /\ allp r end.
Lemma dstrict_list l : dstrict (VList l) = alls l. Proof. reflexivity. Qed.
Lemma dstrict_err s l : dstrict (VErr s l) = alls l. Proof. reflexivity. Qed.
Lemma dstrict_dict d : dstrict (VDict d) = allp d. Proof. reflexivity. Qed.
Lemma allp_combine ks ys : alls ys -> allp (combine ks ys).
Proof. revert ys; induction ks as [|k ks IH]; intros [|y ys]; simpl; auto. intros [A B]; split; auto. Qed.

(* forcing returns a value that is not itself delayed, and keeps the invariant *)
Lemma force_strict n a ip h w h' w' v d :
  runG (bs n) value ip h w (force a) = DoneG h' w' (inl v) d -> inv h ip -> isthunk v = false /\ inv h' ip.
Proof.
  intros H I. destruct (sim_all n) as (HA & _ & HB).
  assert (Hr : run (bs n) ip h w (force a) = Done h' w' (inl v) d) by (rewrite run_is_runG, H; reflexivity).
  destruct (HB _ _ _ _ _ _ _ _ Hr I) as (_ & _ & I'). split; auto.
  unfold force in H. cbn [runG] in H.
  destruct a as [z|fl|b|s|s|l|dc|f|i|sp l| |u|cr ci]; try (inversion H; subst; reflexivity).
  destruct (get h u) as [cl|] eqn:G; [|discriminate].
  destruct (c_cache cl) as [[sv|er]|] eqn:C; try discriminate.
  - inversion H; subst. destruct I as (_ & SC & _). eapply SC; eauto.
  - destruct (existsb (Pos.eqb u) ip) eqn:E; [discriminate|].
    destruct (bs n ip h w (TThunk u)) as [h1 w1 [sv|er] d1| |] eqn:Hb; cbn [of_out] in H; try discriminate.
    cbn [runG upddG] in H. inversion H; subst.
    assert (U : uncached h u) by (exists cl; auto).
    destruct (HA _ _ _ _ _ _ _ _ Hb U (existsb_false_notin _ _ E) I) as (_ & _ & _ & _ & S). exact S.
Qed.

Definition deepP n := forall a ip h w h' w' v d,
  bs n ip h w (TComp (deep_body a)) = Done h' w' (inl v) d -> inv h ip -> dstrict v.

Lemma map_call_deep n : deepP n -> forall l ip h w h' w' ys d,
  runG (bs n) (list value) ip h w (map_call PDeep l) = DoneG h' w' (inl ys) d -> inv h ip -> alls ys /\ inv h' ip.
Proof.
  intros P. destruct (sim_all n) as (_ & HC & _).
  induction l as [|x l IH]; intros ip h w h' w' ys d H I.
  - cbn [map_call runG] in H. inversion H; subst. split; simpl; auto.
  - cbn [map_call] in H. unfold call in H. cbn [bind runG] in H.
    destruct (bs n ip h w (TComp (proc_body (PDeep x)))) as [h1 w1 [y|e] d1| |] eqn:Hb; cbn [of_out] in H; try discriminate.
    cbn [bind runG] in H.
    assert (Dy : dstrict y) by (eapply P; eauto).
    destruct (HC _ _ _ _ _ _ _ _ Hb I) as (_ & _ & I1).
    rewrite runG_bind in H.
    destruct (runG (bs n) (list value) ip h1 w1 (map_call PDeep l)) as [h2 w2 [zs|e] d2| |] eqn:Hm; cbn [thenG upddG runG] in H; try discriminate.
    destruct (IH _ _ _ _ _ _ _ Hm I1) as (A & I2). inversion H; subst. split; simpl; auto.
Qed.

Theorem deep_all : forall n, deepP n.
Proof.
  induction n as [|n IH]; intros a ip h w h' w' v d H I; [discriminate|].
  cbn [bs] in H. rewrite run_is_runG in H. unfold deep_body in H. rewrite runG_bind in H.
  destruct (runG (bs n) value ip h w (force a)) as [h1 w1 [x|e] d1| |] eqn:Hf; cbn [thenG] in H; try discriminate.
  destruct (force_strict _ _ _ _ _ _ _ _ _ Hf I) as (Sx & I1).
  destruct x as [z|fl|b|s|s|l|dc|f|i|sp l| |u|cr ci]; try discriminate Sx;
    try (cbn [runG upddG to_out] in H; inversion H; subst; exact Logic.I).
  - rewrite runG_bind in H.
    destruct (runG (bs n) (list value) ip h1 w1 (map_call PDeep l)) as [h2 w2 [ys|e] d2| |] eqn:Hm; cbn [thenG upddG runG to_out] in H; try discriminate.
    inversion H; subst. rewrite dstrict_list. eapply map_call_deep; eauto.
  - rewrite runG_bind in H.
    destruct (runG (bs n) (list value) ip h1 w1 (map_call PDeep (map snd dc))) as [h2 w2 [ys|e] d2| |] eqn:Hm; cbn [thenG upddG runG to_out] in H; try discriminate.
    inversion H; subst. rewrite dstrict_dict. apply allp_combine. eapply map_call_deep; eauto.
  - rewrite runG_bind in H.
    destruct (runG (bs n) (list value) ip h1 w1 (map_call PDeep l)) as [h2 w2 [ys|e] d2| |] eqn:Hm; cbn [thenG upddG runG to_out] in H; try discriminate.
    inversion H; subst. rewrite dstrict_err. eapply map_call_deep; eauto.
Qed.

(* C10: what `try` returns when nothing is raised has no delayed part at any depth *)
Theorem try_value_fully_evaluated n sp a hd ip h w h' w' v d :
  bs n ip h w (TComp (proc_body (PDeep a))) = Done h' w' (inl v) d -> inv h ip ->
  runG (bs n) value ip h w (bi_try sp [a; hd]) = DoneG h' w' (inl v) d /\ dstrict v.
Proof.
  intros H I. split.
  - unfold bi_try. cbn [length check_arity existsb Nat.eqb orb bind runG call]. rewrite H.
    cbn [of_out runG upddG Nat.add]. rewrite !Nat.max_0_r. reflexivity.
  - eapply deep_all; eauto.
Qed.
Print Assumptions try_value_fully_evaluated.
