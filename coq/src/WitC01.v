Require Import SpecC01. From Coq Require Import NArith List.
Eval vm_compute in (bad_points 0x110000 ok).
