(* compiled only by the failing-input search of C01: the code points on which implementation tables and specification differ *)
Require Import SpecC01. From Coq Require Import NArith List.
Eval vm_compute in (bad_points 0x10000 ok).
Eval vm_compute in (bad_points 0x10000 ok_ts).
