(* C12: map preserves order, filter preserves order, folds associate as documented - for every list, stated for a callee whose application
   is a total state-free function `app` (hypothesis PURE below: the evaluation oracle answers the application of f to arguments xs with app xs,
   leaving heap and world alone).  The sequencing itself - which element is applied when, in which order results are collected, how the
   accumulator is threaded - is the built-in's own code (map_call / fold_loop of Builtins.v) and is what these theorems pin down. *)
From Coq Require Import ZArith NArith List Bool FMapPositive Lia.
Import ListNotations.
Require Import Base Strings Builtins Interp Machine Spec Refine2 RunG.

Section SeqSpec.
Variable rec : list positive -> heap -> world -> task -> out.
Variable f : evalr.
Variable sp : span.
Variable app : list value -> value.
Hypothesis PURE : forall ip h w xs, rec ip h w (TComp (proc_body (PApply f sp xs))) = Done h w (inl (app xs)) 0.

Lemma call_pure A (k:value -> Comp A) ip h w xs : runG rec A ip h w (Call (PApply f sp xs) k) = runG rec A ip h w (k (app xs)).
Proof. cbn [runG]. rewrite PURE. cbn [of_out]. destruct (runG rec A ip h w (k (app xs))); reflexivity. Qed.

(* map: one application per element, results collected in list order *)
Theorem map_in_order : forall l ip h w, runG rec (list value) ip h w (map_call (fun x => PApply f sp [x]) l) = DoneG h w (inl (map (fun x => app [x]) l)) 0.
Proof.
  induction l as [|x l IH]; intros ip h w; cbn [map_call map]; [reflexivity|].
  unfold call. cbn [bind]. rewrite call_pure. cbn [bind]. rewrite runG_bind, IH. reflexivity.
Qed.
(* left fold: f(... f(f(init, x1), x2) ..., xn) *)
Theorem fold_left_assoc : forall l acc ip h w,
  runG rec value ip h w (fold_loop f sp false acc l) = DoneG h w (inl (fold_left (fun a x => app [a; x]) l acc)) 0.
Proof.
  induction l as [|x l IH]; intros acc ip h w; cbn [fold_loop fold_left]; [reflexivity|].
  unfold call. cbn [bind]. rewrite call_pure. cbn [bind]. apply IH.
Qed.
(* right fold as the built-in runs it (over the reversed list): f(x1, f(x2, ... f(xn, init))) *)
Theorem fold_right_assoc : forall l acc ip h w,
  runG rec value ip h w (fold_loop f sp true acc (rev l)) = DoneG h w (inl (fold_right (fun x a => app [x; a]) acc l)) 0.
Proof.
  assert (G : forall m acc ip h w, runG rec value ip h w (fold_loop f sp true acc m) = DoneG h w (inl (fold_right (fun x a => app [x; a]) acc (rev m))) 0).
  { induction m as [|x m IH]; intros acc ip h w; cbn [fold_loop]; [reflexivity|].
    unfold call. cbn [bind]. rewrite call_pure. cbn [bind]. rewrite IH. cbn [rev]. rewrite fold_right_app. reflexivity. }
  intros l acc ip h w. rewrite G, rev_involutive. reflexivity.
Qed.
(* filter keeps exactly the elements whose application is True, in their original order *)
Definition keep_true (l:list value) : list value := flat_map (fun x => match app [x] with VBool true => [x] | _ => [] end) l.
Lemma keep_true_combine : forall l, flat_map (fun p => match snd p with VBool true => [fst p] | _ => [] end) (combine l (map (fun x => app [x]) l)) = keep_true l.
Proof. induction l as [|x l IH]; cbn [map combine flat_map keep_true]; [reflexivity|]. cbn [fst snd]. fold (keep_true l). rewrite IH. reflexivity. Qed.
(* the filter built-in after its arguments are taken: one application per element in list order, every answer must be a Boolean, the kept elements
   are the ORIGINAL (unevaluated) elements in their original order *)
Definition filter_core (l:list value) : Comp value :=
  ys <- map_call (fun x => PApply f sp [x]) l ;; bs <- map_strict ys ;; check_type sp bs is_bool ;;;
  Ret (VList (flat_map (fun p => match snd p with VBool true => [fst p] | _ => [] end) (combine l bs))).
Lemma map_strict_bools : forall l ip h w, Forall (fun v => is_bool v = true) l -> runG rec (list value) ip h w (map_strict l) = DoneG h w (inl l) 0.
Proof.
  induction l as [|x l IH]; intros ip h w H; cbn [map_strict]; [reflexivity|]. inversion H as [|? ? Hx Hl]; subst.
  destruct x; try discriminate Hx. unfold force. cbn [bind runG]. rewrite runG_bind, (IH ip h w Hl). reflexivity.
Qed.
Theorem filter_in_order l ip h w : Forall (fun x => is_bool (app [x]) = true) l ->
  runG rec value ip h w (filter_core l) = DoneG h w (inl (VList (keep_true l))) 0.
Proof.
  intros H. unfold filter_core. rewrite runG_bind, map_in_order. cbn [thenG upddG]. rewrite runG_bind.
  assert (B : Forall (fun v => is_bool v = true) (map (fun x => app [x]) l)) by (rewrite Forall_map; exact H).
  rewrite (map_strict_bools _ ip h w B). cbn [thenG upddG]. unfold check_type.
  assert (E : forallb is_bool (map (fun x => app [x]) l) = true) by (apply forallb_forall; intros v Hv; rewrite Forall_forall in B; auto).
  rewrite E. cbn [bind runG]. rewrite keep_true_combine. reflexivity.
Qed.
(* an answer that is not a Boolean is a type error, whatever the other answers are *)
Theorem filter_needs_booleans l ip h w : existsb (fun x => negb (is_bool (app [x])) && negb (match app [x] with VThunk _ => true | _ => false end)) l = true ->
  Forall (fun x => match app [x] with VThunk _ => False | _ => True end) l ->
  runG rec value ip h w (filter_core l) = DoneG h w (inr (mkerr c_type sp)) 0.
Proof.
  intros Hb Hn. unfold filter_core. rewrite runG_bind, map_in_order. cbn [thenG upddG]. rewrite runG_bind.
  assert (S : forall m ip h w, Forall (fun v => match v with VThunk _ => False | _ => True end) m -> runG rec (list value) ip h w (map_strict m) = DoneG h w (inl m) 0).
  { induction m as [|x m IH]; intros ip0 h0 w0 Hm; cbn [map_strict]; [reflexivity|]. inversion Hm as [|? ? Hx Hl]; subst.
    unfold force. destruct x; try contradiction; cbn [bind runG]; rewrite runG_bind, (IH ip0 h0 w0 Hl); reflexivity. }
  rewrite S by (rewrite Forall_map; exact Hn). cbn [thenG upddG]. unfold check_type.
  assert (E : forallb is_bool (map (fun x => app [x]) l) = false).
  { apply existsb_exists in Hb. destruct Hb as (x & Hin & Hx). apply andb_true_iff in Hx. destruct Hx as [Hx _]. apply negb_true_iff in Hx.
    apply not_true_is_false. intros F. rewrite forallb_forall in F. specialize (F (app [x]) (in_map _ _ _ Hin)). congruence. }
  rewrite E. reflexivity.
Qed.
End SeqSpec.

(* the built-in ㅅㅂ IS that core once its two arguments are taken (the list forced, the function position resolved) *)
Lemma bi_filter_is_core sp a fv :
  bi_filter sp [a; fv] =
  (check_arity sp 2 [2%nat] ;;; sq <- force a ;; check_type sp [sq] is_list ;;; f <- functional sp fv false ;;
   match sq with VList l => filter_core f sp l | _ => raise c_type sp end).
Proof. reflexivity. Qed.
