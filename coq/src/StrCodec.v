(* C16, strings: the ㅂ ㅂ converter of scheme 0 on an evaluated string / byte string IS the RFC encoder / strict decoder of Utf.v / Utf16.v
   (UTF-8 for width 1, UTF-16 for 2, UTF-32 for 4; with a byte order, or with the byte-order mark when none is requested), and inside the
   evaluator decoding what was encoded gives the string back *)
From Coq Require Import ZArith NArith List Bool Lia.
Import ListNotations.
Require Import Base Float Strings Builtins Interp Machine Spec Refine2 RunG.
Require Import Utf Utf16.
Open Scope Z_scope.

Definition zs (l:list N) : list Z := map Z.of_N l.
Definition ns (l:list Z) : list N := map Z.to_N l.
Definition str_ok (s:list N) : Prop := forallb scalarb (zs s) = true.          (* every code point is a Unicode scalar value *)

Section S.
Variable rec : list positive -> heap -> world -> task -> out.
Theorem utf8_encodes sp s ip h w : str_ok s -> runG rec value ip h w (codec_body 0 1 None sp [VStr s]) = DoneG h w (inl (VBytes (ns (utf8_encode (zs s))))) 0.
Proof. intros K. unfold codec_body, str_ok, zs in *. cbn. rewrite K. reflexivity. Qed.
Theorem utf16_encodes sp s big ip h w : str_ok s ->
  runG rec value ip h w (codec_body 0 2 big sp [VStr s]) = DoneG h w (inl (VBytes (ns (match big with None => utf16_encode_bom (zs s) | Some b => utf16_encode b (zs s) end)))) 0.
Proof. intros K. unfold codec_body, str_ok, zs in *. cbn. rewrite K. destruct big; reflexivity. Qed.
Theorem utf32_encodes sp s big ip h w : str_ok s ->
  runG rec value ip h w (codec_body 0 4 big sp [VStr s]) = DoneG h w (inl (VBytes (ns (match big with None => utf32_encode_bom (zs s) | Some b => utf32_encode b (zs s) end)))) 0.
Proof. intros K. unfold codec_body, str_ok, zs in *. cbn. rewrite K. destruct big; reflexivity. Qed.
(* a string holding a surrogate or a value above U+10FFFF has no encoding: value error *)
Theorem non_scalar_rejected sp s width big ip h w : forallb scalarb (zs s) = false -> runG rec value ip h w (codec_body 0 width big sp [VStr s]) = DoneG h w (inr (mkerr c_value sp)) 0.
Proof. intros K. unfold codec_body, zs in *. cbn. rewrite K. reflexivity. Qed.
Theorem utf8_decodes sp b ip h w : runG rec value ip h w (codec_body 0 1 None sp [VBytes b]) =
  match utf8_decode (zs b) with Some cs => DoneG h w (inl (VStr (ns cs))) 0 | None => DoneG h w (inr (mkerr c_value sp)) 0 end.
Proof. unfold codec_body, zs. cbn. destruct (utf8_decode (map Z.of_N b)); reflexivity. Qed.
Theorem utf16_decodes sp b big ip h w : runG rec value ip h w (codec_body 0 2 big sp [VBytes b]) =
  match (match big with None => utf16_decode_bom (zs b) | Some o => utf16_decode o (zs b) end) with Some cs => DoneG h w (inl (VStr (ns cs))) 0 | None => DoneG h w (inr (mkerr c_value sp)) 0 end.
Proof. unfold codec_body, zs. cbn. destruct big as [o|]; [destruct (utf16_decode o _)|destruct (utf16_decode_bom _)]; reflexivity. Qed.
Theorem utf32_decodes sp b big ip h w : runG rec value ip h w (codec_body 0 4 big sp [VBytes b]) =
  match (match big with None => utf32_decode_bom (zs b) | Some o => utf32_decode o (zs b) end) with Some cs => DoneG h w (inl (VStr (ns cs))) 0 | None => DoneG h w (inr (mkerr c_value sp)) 0 end.
Proof. unfold codec_body, zs. cbn. destruct big as [o|]; [destruct (utf32_decode o _)|destruct (utf32_decode_bom _)]; reflexivity. Qed.

(* inside the evaluator: UTF-8 decoding of the UTF-8 encoding of any string of scalar values is that string *)
Lemma zs_ns l : Forall (fun b => 0 <= b) l -> zs (ns l) = l.
Proof. induction 1 as [|b l Hb Hl IH]; cbn; auto. unfold zs, ns in *. rewrite IH. rewrite Z2N.id by lia. reflexivity. Qed.
Lemma ns_zs s : ns (zs s) = s.
Proof. unfold ns, zs. rewrite map_map. rewrite <- (map_id s) at 2. apply map_ext. intros; apply N2Z.id. Qed.
Lemma str_ok_scalar s : str_ok s -> Forall scalar (zs s).
Proof.
  unfold str_ok. intros K. apply Forall_forall. intros c Hc. rewrite forallb_forall in K. specialize (K c Hc). unfold scalarb in K. unfold scalar.
  apply andb_true_iff in K. destruct K as [K1 K2]. apply andb_true_iff in K1. destruct K1 as [A B]. apply Z.leb_le in A. apply Z.ltb_lt in B.
  apply negb_true_iff in K2. split; [lia|]. intros [C D]. apply andb_false_iff in K2. destruct K2 as [K2|K2]; [apply Z.leb_gt in K2|apply Z.leb_gt in K2]; lia.
Qed.
Lemma utf8_nonneg l : Forall scalar l -> Forall (fun b => 0 <= b) (utf8_encode l).
Proof.
  induction 1 as [|c l Hc Hl IH]; cbn [utf8_encode flat_map]; auto. unfold utf8_encode in *. cbn [flat_map]. apply Forall_app. split; auto.
  pose proof (utf8_bytes c Hc) as B. eapply Forall_impl; [|exact B]. cbn. intros; lia.
Qed.
Theorem utf8_roundtrip_in_the_evaluator sp s ip h w : str_ok s ->
  runG rec value ip h w (codec_body 0 1 None sp [VBytes (ns (utf8_encode (zs s)))]) = DoneG h w (inl (VStr s)) 0.
Proof.
  intros K. rewrite utf8_decodes. rewrite zs_ns by (apply utf8_nonneg, str_ok_scalar; exact K).
  rewrite utf8_roundtrip by (apply str_ok_scalar; exact K). rewrite ns_zs. reflexivity.
Qed.
End S.
Print Assumptions utf8_encodes. Print Assumptions utf16_encodes. Print Assumptions utf32_encodes. Print Assumptions non_scalar_rejected.
Print Assumptions utf8_decodes. Print Assumptions utf16_decodes. Print Assumptions utf32_decodes. Print Assumptions utf8_roundtrip_in_the_evaluator.
