(* Extraction of the executable model (ExtrOcamlBasic only: bool, option, list, pairs, unit, sumbool -> native;
   Z, N, positive, nat stay the extracted Coq datatypes; no Extract Constant anywhere) *)
Require Import Base Float Strings Num Builtins Interp Machine Spec Lex Utf Utf16 CountDef HeapFacts Refine1 Refine2 RunG Pure IOSpec Cli.
From Coq Require Import ExtrOcamlBasic.
Extraction "model.ml" run_main parse_text agree normalize tokenize encode decode rounding utf8_encode utf8_decode utf16_encode utf16_decode utf16_encode_bom utf16_decode_bom utf32_encode utf32_decode utf32_encode_bom utf32_decode_bom trace_main cli_run run_main_fs run_main_many.
