Require Import Base Strings Builtins Interp Machine.
From Coq Require Import ExtrOcamlBasic.
Extraction "model.ml" run_main.
