(* C14 inside the main model: ㄱㄴ and the commands of a file handle are actions whose execution is ONE request to the world, and that request is
   the byte-file model of Files.v / FilesTotal.v applied to (the bytes the disk holds under the handle's name, the handle's position). *)
From Coq Require Import ZArith NArith List Bool FMapPositive Lia.
Import ListNotations.
Require Import Base Strings Builtins Interp Machine Spec HeapFacts Refine1 Refine2 RunG IOSpec.
Require Import Files FilesProofs FilesTotal.

(* the state the file model sees for a handle: the bytes on disk, the handle's own position / mode / closed flag *)
Definition view (w:world) (hd:handle) : xstate :=
  {| xs := {| content := match disk_get (w_disk w) (h_path hd) with Some c => c | None => [] end; pos := h_pos hd; fmode := h_mode hd |}; xclosed := h_closed hd |}.
(* writing a file-model state back: bytes to the disk, the rest to the handle *)
Definition write_back (w:world) (i:positive) (hd:handle) (x:xstate) : world :=
  {| w_in := w_in w; w_out := w_out w; w_disk := disk_set (w_disk w) (h_path hd) (content (xs x));
     w_handles := handle_set (w_handles w) i {| h_path := h_path hd; h_pos := pos (xs x); h_mode := h_mode hd; h_closed := xclosed x |}; w_nexth := w_nexth w; w_mods := w_mods w |}.

(* ---------- one command on a handle = one xstep ---------- *)
Theorem file_command_is_xstep n ip h w sp i o hd : handle_get (w_handles w) i = Some hd ->
  exec (S (S n)) ip h w (VIO (IOFile sp i o)) =
  match xstep (view w hd) o with
  | (x', XVal v) => Done h (write_back w i hd x') (inl (val_of_result v)) 0
  | (x', XNil) => Done h (write_back w i hd x') (inl VNil) 0
  | (_, XErr e) => Done h w (inr (os_error sp e)) 0 end.
Proof.
  intros Hh. unfold exec. cbn [bs doio_body bind run force wstep]. rewrite Hh. fold (view w hd).
  destruct (xstep (view w hd) o) as [x' [v| |e]]; cbn [run bind force call]; try reflexivity.
  destruct v; reflexivity.
Qed.
(* a refused command - closed handle, operation the mode forbids, negative target or size, read count below -1 - is the language's OS exception
   with errno 9 or 22, and NOTHING changes: no file, no handle, no input, no output *)
Theorem refused_command_changes_nothing n ip h w sp i o hd x' e : handle_get (w_handles w) i = Some hd -> xstep (view w hd) o = (x', XErr e) ->
  exec (S (S n)) ip h w (VIO (IOFile sp i o)) = Done h w (inr (os_error sp e)) 0 /\ (e = EBADF \/ e = EINVAL).
Proof.
  intros Hh Hx. rewrite (file_command_is_xstep n ip h w sp i o hd Hh), Hx. split; [reflexivity|].
  destruct (refused_changes_nothing _ _ _ _ Hx) as [_ He]. exact He.
Qed.
(* a command on an unknown handle cannot happen for handles the program got from ㄱㄴ; the model answers EBADF *)
Theorem unknown_handle n ip h w sp i o : handle_get (w_handles w) i = None ->
  exec (S (S n)) ip h w (VIO (IOFile sp i o)) = Done h w (inr (os_error sp 9)) 0.
Proof. intros Hh. unfold exec. cbn [bs doio_body bind run force wstep]. rewrite Hh. reflexivity. Qed.

(* ---------- opening ---------- *)
Theorem open_missing_file n ip h w sp p m : Files.fopen m (disk_get (w_disk w) p) = None ->
  exec (S (S n)) ip h w (VIO (IOOpen sp p m)) = Done h w (inr (os_error sp 2)) 0.
Proof. intros Hf. unfold exec. cbn [bs doio_body bind run force wstep]. rewrite Hf. reflexivity. Qed.
Theorem open_gives_a_new_handle n ip h w sp p m s : Files.fopen m (disk_get (w_disk w) p) = Some s ->
  exec (S (S n)) ip h w (VIO (IOOpen sp p m)) =
  Done h {| w_in := w_in w; w_out := w_out w; w_disk := disk_set (w_disk w) p (content s);
            w_handles := (w_nexth w, {| h_path := p; h_pos := pos s; h_mode := m; h_closed := false |}) :: w_handles w; w_nexth := Pos.succ (w_nexth w); w_mods := w_mods w |}
         (inl (VFun (FFile (w_nexth w)))) 0.
Proof. intros Hf. unfold exec. cbn [bs doio_body bind run force wstep]. rewrite Hf. reflexivity. Qed.
(* what opening does to the bytes: the open-mode theorems of FilesProofs apply verbatim (open_keeps, open_resets, open_append_at_end) *)
Corollary open_keeps_existing_bytes m bs s : Files.fopen m (Some bs) = Some s -> resets m = false -> content s = bs.
Proof. apply open_keeps. Qed.

(* ---------- the disk ---------- *)
Lemma path_eqb_refl p : path_eqb p p = true. Proof. unfold path_eqb. destruct (list_eq_dec N.eq_dec p p); congruence. Qed.
Lemma path_eqb_eq p q : path_eqb p q = true -> p = q. Proof. unfold path_eqb. destruct (list_eq_dec N.eq_dec p q); congruence. Qed.
Lemma disk_get_set_other d p q c : p <> q -> disk_get (disk_set d p c) q = disk_get d q.
Proof.
  intros N. induction d as [|[r c0] d IH]; cbn [disk_set disk_get].
  - destruct (path_eqb p q) eqn:E; [apply path_eqb_eq in E; contradiction|reflexivity].
  - destruct (path_eqb r p) eqn:E1; cbn [disk_get].
    + apply path_eqb_eq in E1. subst r. destruct (path_eqb p q) eqn:E2; [apply path_eqb_eq in E2; contradiction|reflexivity].
    + destruct (path_eqb r q); auto.
Qed.
(* a command on one handle never touches a file of another name *)
Theorem other_files_untouched w sp i o hd q : handle_get (w_handles w) i = Some hd -> q <> h_path hd ->
  disk_get (w_disk (fst (wstep w (WFile sp i o)))) q = disk_get (w_disk w) q.
Proof.
  intros Hh Nq. cbn [wstep]. rewrite Hh. fold (view w hd).
  destruct (xstep (view w hd) o) as [x' [v| |e]]; cbn [fst w_disk]; auto; apply disk_get_set_other; congruence.
Qed.
Lemma disk_get_set_same d p c : disk_get (disk_set d p c) p = Some c.
Proof.
  induction d as [|[r c0] d IH]; cbn [disk_set disk_get]; [rewrite path_eqb_refl; reflexivity|].
  destruct (path_eqb r p) eqn:E; cbn [disk_get]; rewrite E; auto.
Qed.
(* a handle opened read-only never changes the bytes of its own file either, whatever is asked of it *)
Theorem read_only_handle_never_writes w sp i o hd c : handle_get (w_handles w) i = Some hd -> h_mode hd = MR -> disk_get (w_disk w) (h_path hd) = Some c ->
  disk_get (w_disk (fst (wstep w (WFile sp i o)))) (h_path hd) = Some c.
Proof.
  intros Hh Hm Hc. cbn [wstep]. rewrite Hh. fold (view w hd).
  assert (Hm' : fmode (xs (view w hd)) = MR) by exact Hm.
  assert (Hc' : content (xs (view w hd)) = c) by (cbn; rewrite Hc; reflexivity).
  destruct (xstep (view w hd) o) as [x' r] eqn:X.
  assert (E : content (xs x') = c).
  { destruct o as [o0|]; cbn [xstep] in X.
    - destruct (xclosed (view w hd)); [injection X as E1 _; rewrite <- E1; exact Hc'|].
      destruct (fstep (xs (view w hd)) o0) as [[s' r0]|] eqn:F; injection X as E1 _; rewrite <- E1; cbn [xs]; [|exact Hc'].
      rewrite (read_only_never_writes _ _ _ _ Hm' F). exact Hc'.
    - injection X as E1 _. rewrite <- E1. exact Hc'. }
  destruct r as [v| |e]; cbn [fst w_disk]; auto; rewrite E; apply disk_get_set_same.
Qed.

(* the hypotheses are met: open a file holding "abc" for reading and writing, read 2 bytes, write "z" - through the whole model *)
Definition sp0 : span := (0%N, 0%N, 0%N).
Example file_session :
  let w0 := world_start [] [([102%N], [97; 98; 99]%N)] in
  match exec 5 [] heap0 w0 (VIO (IOOpen sp0 [102%N] MRW)) with
  | Done _ w1 (inl (VFun (FFile i))) _ =>
      match exec 5 [] heap0 w1 (VIO (IOFile sp0 i (XOp (ORead 2)))) with
      | Done _ w2 (inl r) _ => match exec 5 [] heap0 w2 (VIO (IOFile sp0 i (XOp (OWrite [122%N])))) with
                               | Done _ w3 _ _ => (r, disk_get (w_disk w3) [102%N]) = (VBytes [97; 98]%N, Some [97; 98; 122]%N)
                               | _ => False end
      | _ => False end
  | _ => False end.
Proof. vm_compute. reflexivity. Qed.
Print Assumptions file_command_is_xstep. Print Assumptions refused_command_changes_nothing. Print Assumptions other_files_untouched. Print Assumptions read_only_handle_never_writes.
