(* C07-T1: evaluating expressions never touches input, output, files or handles; the only requests evaluation makes are the module ones of ㅂ
   (search the tree, read a module file or find it registered, register it), which leave all of those as they are *)
From Coq Require Import ZArith NArith List Bool FMapPositive Lia.
Import ListNotations.
Require Import Base Strings Num Builtins Interp Machine Spec Refine2.

Definition pure_proc (p:proc) : Prop := match p with PApply _ _ _ | PDeep _ | PKey _ => True | _ => False end.
Inductive wfree : forall {A:Type}, Comp A -> Prop :=
| wf_ret A (a:A) : wfree (Ret a)
| wf_raise A e : wfree (@Raise A e)
| wf_force A v (k:value -> Comp A) : (forall x, wfree (k x)) -> wfree (Force v k)
| wf_alloc A a e (k:positive -> Comp A) : (forall x, wfree (k x)) -> wfree (Alloc a e k)
| wf_newclo A b e (k:positive -> Comp A) : (forall x, wfree (k x)) -> wfree (NewClo b e k)
| wf_clodepth A f (k:nat -> Comp A) : (forall x, wfree (k x)) -> wfree (CloDepth f k)
| wf_allocbody A f av (k:positive -> Comp A) : (forall x, wfree (k x)) -> wfree (AllocBody f av k)
| wf_fresh A (k:positive -> Comp A) : (forall x, wfree (k x)) -> wfree (Fresh k)
| wf_peek A t (k:option Z -> Comp A) : (forall x, wfree (k x)) -> wfree (PeekLit t k)
| wf_call A p (k:value -> Comp A) : pure_proc p -> (forall x, wfree (k x)) -> wfree (Call p k)
| wf_catch A c h (k:value -> Comp A) : wfree c -> (forall e, wfree (h e)) -> (forall x, wfree (k x)) -> wfree (Catch c h k)
| wf_world A o (k:value -> Comp A) : module_op o = true -> (forall x, wfree (k x)) -> wfree (World o k).

Lemma wfree_bind A B (c:Comp A) (f:A -> Comp B) : wfree c -> (forall x, wfree (f x)) -> wfree (bind c f).
Proof. intros W; revert B f; induction W; intros B0 f0 Hf; cbn [bind]; try constructor; auto. Qed.

#[local] Hint Constructors wfree : wf.
#[local] Hint Resolve wfree_bind : wf.
Ltac wf := repeat first [ progress intros | apply wfree_bind | constructor | exact I | reflexivity
                        | match goal with |- wfree (match ?x with _ => _ end) => destruct x end
                        | match goal with |- wfree (if ?x then _ else _) => destruct x end
                        | match goal with |- wfree (let '(_, _) := ?x in _) => destruct x end
                        | progress (unfold raise, force, call, check_type, check_arity, check_min_arity, check_max_arity) ].

Lemma wf_map_strict l : wfree (map_strict l). Proof. induction l; cbn [map_strict]; wf; auto. Qed.
Lemma wf_map_call f l : (forall v, pure_proc (f v)) -> wfree (map_call f l).
Proof. intros Hp. induction l; cbn [map_call]; wf; auto. Qed.
#[local] Hint Resolve wf_map_strict wf_map_call : wf.
Lemma wf_match_arguments sp argv p ar : wfree (match_arguments sp argv p ar). Proof. unfold match_arguments. wf; auto with wf. Qed.
Lemma wf_match_arguments_any sp argv p : wfree (match_arguments_any sp argv p). Proof. unfold match_arguments_any. wf; auto with wf. Qed.
Lemma wf_strict_functional sp v : wfree (strict_functional sp v). Proof. unfold strict_functional. wf. Qed.
Lemma wf_proc_functional sp f g : wfree (proc_functional sp f g). Proof. unfold proc_functional. wf. Qed.
Lemma wf_functional sp v g : wfree (functional sp v g).
Proof. unfold functional. apply wfree_bind. apply wf_strict_functional. intros. apply wf_proc_functional. Qed.
#[local] Hint Resolve wf_match_arguments wf_match_arguments_any wf_functional wf_strict_functional wf_proc_functional : wf.

Ltac wfa := wf; auto with wf; try (apply wf_map_call; intros; exact I).
Lemma wf_all_bools sp l b : wfree (all_bools sp l b). Proof. induction l; cbn [all_bools]; wfa. Qed.
Lemma wf_equals_loop l k0 : wfree (equals_loop l k0). Proof. revert k0; induction l; intros; cbn [equals_loop]; wfa. Qed.
Lemma wf_fold_loop f sp fr acc l : wfree (fold_loop f sp fr acc l). Proof. revert acc; induction l; intros; cbn [fold_loop]; wfa. Qed.
Lemma wf_procs sp l : wfree (procs sp l). Proof. induction l; cbn [procs]; wfa. Qed.
Lemma wf_peek_lits l : wfree (peek_lits l). Proof. induction l as [|v l IH]; cbn [peek_lits]; wfa. Qed.
Lemma wf_real_binop sp op a d : wfree (real_binop sp op a d). Proof. unfold real_binop. wfa. Qed.
#[local] Hint Resolve wf_all_bools wf_equals_loop wf_fold_loop wf_procs wf_peek_lits wf_real_binop : wf.

Lemma wf_load_from_path sp p : wfree (load_from_path sp p).
Proof. unfold load_from_path. wfa. Qed.
#[local] Hint Resolve wf_load_from_path : wf.
Lemma wf_builtin n sp argv : wfree (builtin n sp argv).
Proof.
  unfold builtin.
  repeat match goal with |- wfree ((if ?c then _ else _) _ _) => destruct c end;
  try (unfold bi_multiply, bi_add, bi_div, bi_mod, bi_eq, bi_not, bi_lt, bi_const, bi_dict, bi_list, bi_string, bi_nil, bi_exception,
         bi_throw, bi_try, bi_len, bi_slice, bi_map, bi_filter, bi_fold, bi_pipe, bi_collect, bi_spread, bi_input, bi_print, bi_return, bi_bind,
         bi_pow, bi_integer, bi_split, bi_join, bi_import; wfa).
Qed.
#[local] Hint Resolve wf_builtin : wf.

Lemma wf_module_body name sp argv : wfree (module_body name sp argv).
Proof. unfold module_body. wfa. Qed.
Lemma wf_codec_body s w b sp argv : wfree (codec_body s w b sp argv).
Proof. unfold codec_body. wfa. Qed.
#[local] Hint Resolve wf_module_body wf_codec_body : wf.
Lemma wf_apply_body e sp argv : wfree (apply_body e sp argv).
Proof.
  destruct e as [n|b|d|sq|f]; cbn [apply_body]; try solve [wfa].
  destruct f as [g|name|i sc w b|i es|i e1|i e1|hd]; try solve [wfa].
  (* pipe *)
  revert argv. induction es as [|e1 es IH]; intros argv; wfa.
Qed.
Lemma wf_deep_body v : wfree (deep_body v). Proof. unfold deep_body. wfa. Qed.
Lemma wf_key_body v : wfree (key_body v). Proof. unfold key_body. wfa. Qed.
Lemma wf_allocs_k l e acc k : (forall ts, wfree (k ts)) -> wfree (allocs_k l e acc k).
Proof. intros Hk. revert acc. induction l; intros; cbn [allocs_k]; wfa. Qed.
Lemma wf_interpret a e : wfree (interpret a e).
Proof. destruct a; cbn [interpret]; wfa. apply wf_allocs_k. wfa. Qed.
Lemma wf_pure_body p : pure_proc p -> wfree (proc_body p).
Proof. destruct p; intros []; cbn [proc_body]; auto using wf_apply_body, wf_deep_body, wf_key_body. Qed.

(* ---- the theorem ---- *)
Definition pure_task (tk:task) : Prop := match tk with TThunk _ => True | TComp c => wfree c end.
Definition keeps_world (f:list positive -> heap -> world -> task -> out) :=
  forall ip h w tk h' w' r d, pure_task tk -> f ip h w tk = Done h' w' r d -> io_of w' = io_of w.

Lemma run_pure f : keeps_world f -> forall c, wfree c -> forall ip h w h' w' r d, run f ip h w c = Done h' w' r d -> io_of w' = io_of w.
Proof.
  intros Kf c W.
  assert (G : forall (A:Type) (c0:Comp A), wfree c0 -> forall (E: A = value), forall ip h w h' w' r d,
             run f ip h w (eq_rect A Comp c0 value E) = Done h' w' r d -> io_of w' = io_of w).
  2:{ intros. eapply (G value c W eq_refl); eauto. }
  clear c W. intros A c0 W.
  induction W as [A a|A e|A v k Hk IHk|A a e k Hk IHk|A b e k Hk IHk|A f0 k Hk IHk|A f0 av k Hk IHk|A k Hk IHk|A t k Hk IHk|A p k Hp Hk IHk|A c hh k Wc IHc Hh IHh Hk IHk|A o k Ho Hk IHk];
    intros E ip h w h' w' r d Hr; subst; cbn [eq_rect run] in Hr.
  - inversion Hr; auto.
  - inversion Hr; auto.
  - destruct v as [z|fl|b|s|s|l|dd|ff|i|sp l| |u|cr ci]; try (eapply (IHk _ eq_refl _ _ _ _ _ _ _ Hr)).
    destruct (get h u) as [cl|]; [|inversion Hr; auto]. destruct (c_cache cl) as [[sv|er]|]; [eapply (IHk _ eq_refl _ _ _ _ _ _ _ Hr)|inversion Hr; auto|].
    destruct (existsb (Pos.eqb u) ip); [discriminate|].
    destruct (f ip h w (TThunk u)) as [h1 w1 r1 d1| |] eqn:F; try discriminate.
    assert (E1 : io_of w1 = io_of w) by (eapply Kf; [|exact F]; exact I).
    destruct r1 as [sv|er]; [|inversion Hr; subst; auto]. apply updd_inv in Hr. destruct Hr as (d2 & Hr & _). rewrite <- E1. eapply (IHk _ eq_refl _ _ _ _ _ _ _ Hr).
  - destruct (alloc h a e). eapply (IHk _ eq_refl _ _ _ _ _ _ _ Hr).
  - destruct (newclo h b e). eapply (IHk _ eq_refl _ _ _ _ _ _ _ Hr).
  - destruct (PositiveMap.find f0 (clos h)); [eapply (IHk _ eq_refl _ _ _ _ _ _ _ Hr)|inversion Hr; auto].
  - destruct (alloc_body h f0 av) as [[h1 x]|]; [eapply (IHk _ eq_refl _ _ _ _ _ _ _ Hr)|inversion Hr; auto].
  - destruct (fresh h). eapply (IHk _ eq_refl _ _ _ _ _ _ _ Hr).
  - destruct (get h t); [eapply (IHk _ eq_refl _ _ _ _ _ _ _ Hr)|inversion Hr; auto].
  - destruct (f ip h w (TComp (proc_body p))) as [h1 w1 r1 d1| |] eqn:F; try discriminate.
    assert (E1 : io_of w1 = io_of w) by (eapply Kf; [|exact F]; simpl; apply wf_pure_body; auto).
    destruct r1 as [sv|er]; [|inversion Hr; subst; auto]. apply updd_inv in Hr. destruct Hr as (d2 & Hr & _). rewrite <- E1. eapply (IHk _ eq_refl _ _ _ _ _ _ _ Hr).
  - destruct (run f ip h w c) as [h1 w1 r1 d1| |] eqn:R1; try discriminate.
    assert (E1 : io_of w1 = io_of w) by (eapply (IHc eq_refl _ _ _ _ _ _ _ R1)).
    destruct r1 as [sv|er].
    + apply updd_inv in Hr. destruct Hr as (d2 & Hr & _). rewrite <- E1. eapply (IHk _ eq_refl _ _ _ _ _ _ _ Hr).
    + destruct (unmodelled er); [inversion Hr; subst; auto|]. apply updd_inv in Hr. destruct Hr as (d3 & Hr & _).
      destruct (run f ip h1 w1 (hh er)) as [h2 w2 r2 d2| |] eqn:R2; try discriminate.
      assert (E2 : io_of w2 = io_of w1) by (eapply (IHh _ eq_refl _ _ _ _ _ _ _ R2)).
      destruct r2 as [sv|e2]; [|inversion Hr; subst; congruence]. apply updd_inv in Hr. destruct Hr as (d4 & Hr & _).
      rewrite <- E1, <- E2. eapply (IHk _ eq_refl _ _ _ _ _ _ _ Hr).
  - pose proof (module_op_keeps_io w o Ho) as E1. destruct (wstep w o) as [w2 [rv|re]]; cbn [fst] in E1.
    + rewrite <- E1. eapply (IHk _ eq_refl _ _ _ _ _ _ _ Hr).
    + inversion Hr; subst; auto.
Qed.

Theorem bs_pure n : keeps_world (bs n).
Proof.
  induction n as [|n IH]; intros ip h w tk h' w' r d Pt Hb. discriminate.
  destruct tk as [t|c]; cbn [bs] in Hb.
  - destruct (get h t) as [cl|]; [|inversion Hb; auto].
    destruct (run (bs n) (t::ip) h w (interpret (c_ast cl) (c_env cl))) as [h1 w1 r1 d0| |] eqn:R; try discriminate.
    assert (E1 : io_of w1 = io_of w) by (eapply (run_pure _ IH); [apply wf_interpret|exact R]).
    destruct r1 as [v1|e1]; [|inversion Hb; subst; auto].
    destruct v1 as [z|fl|b|s|s|l0|dct|f|i|sp l0| |t'|cr ci]; try (inversion Hb; subst; auto).
    destruct (get h1 t') as [cl'|]; [|discriminate]. destruct (c_cache cl'); [inversion Hb; subst; auto|].
    destruct (existsb (Pos.eqb t') (t::ip)); [discriminate|].
    destruct (bs n (t::ip) h1 w1 (TThunk t')) as [h2 w2 r2 d2| |] eqn:B; try discriminate.
    assert (E2 : io_of w2 = io_of w1) by (eapply IH; [|exact B]; exact I). inversion Hb; subst; congruence.
  - eapply (run_pure _ IH); eauto.
Qed.
(* C07-T1: evaluating any thunk to a value, for any fuel, leaves stdin, stdout, every file on the disk and every handle exactly as they were
   (what ㅂ may have added to the module registry aside); so does applying any callable, deep-forcing and computing equality keys.  Only do_IO
   touches the world. *)
Corollary evaluation_is_pure n ip h w t h' w' r d : bs n ip h w (TThunk t) = Done h' w' r d ->
  w_in w' = w_in w /\ w_out w' = w_out w /\ w_disk w' = w_disk w /\ w_handles w' = w_handles w.
Proof. intros H. assert (E : io_of w' = io_of w) by (eapply bs_pure; eauto; exact I). unfold io_of in E. inversion E. auto. Qed.
Print Assumptions evaluation_is_pure.
