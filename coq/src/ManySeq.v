(* C20: what one evaluation hands to the next.  main.main on several expressions (Spec.spec_many) is a left-to-right composition whose ONLY carried
   state is the pair (heap, world): the answers for ps ++ qs are the answers for ps followed by the answers for qs started in the heap and world
   ps ended in - no environment, no evaluator stack, no counter survives (each evaluation starts from the empty environment by definition of
   spec_main_in); and after the first failure nothing further is evaluated. *)
From Coq Require Import ZArith NArith List Bool Lia.
Import ListNotations.
Require Import Base Strings Builtins Interp Machine Spec.

Fixpoint state_after (fuel:nat) (h:heap) (w:world) (progs:list ast) (fio:bool) : option (heap * world) :=
  match progs with
  | [] => Some (h, w)
  | p :: r => match spec_main_in fuel h w p fio with Done h' w' (inl _) _ => state_after fuel h' w' r fio | _ => None end
  end.

Theorem evaluations_compose fuel fio : forall ps qs h w,
  spec_many fuel h w (ps ++ qs)%list fio =
  (spec_many fuel h w ps fio ++ match state_after fuel h w ps fio with Some (h', w') => spec_many fuel h' w' qs fio | None => [] end)%list.
Proof.
  induction ps as [|p ps IH]; intros qs h w; cbn [app spec_many state_after]. { reflexivity. }
  f_equal. destruct (spec_main_in fuel h w p fio) as [h' w' [v|e] d| |]; try reflexivity. apply IH.
Qed.
Corollary nothing_after_a_failure fuel fio ps qs h w : state_after fuel h w ps fio = None ->
  spec_many fuel h w (ps ++ qs)%list fio = spec_many fuel h w ps fio.
Proof. intros H. rewrite evaluations_compose, H. apply app_nil_r. Qed.
Theorem one_answer_per_expression fuel fio : forall ps h w h' w', state_after fuel h w ps fio = Some (h', w') ->
  List.length (spec_many fuel h w ps fio) = List.length ps.
Proof.
  induction ps as [|p ps IH]; intros h w h' w' H; cbn [spec_many state_after length] in *. { reflexivity. }
  f_equal. destruct (spec_main_in fuel h w p fio) as [h1 w1 [v|e] d| |]; try discriminate. eapply IH; eauto.
Qed.
