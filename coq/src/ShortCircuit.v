(* C03: the operands after the deciding one of Boolean ㄱ / ㄷ are never evaluated; a Boolean call never evaluates the branch it does not select;
   the list / dictionary constructors and ㅈㄷ evaluate no element.  Each statement returns the heap it was given, for ARBITRARY further operands
   (thunks of throwing, divergent or printing expressions included): nothing was forced, nothing was allocated, no cache was filled. *)
From Coq Require Import ZArith NArith List Bool FMapPositive Lia.
Import ListNotations.
Require Import Base Strings Builtins Interp Machine Spec Refine2 RunG.
Open Scope Z_scope.

Section SC.
Variable rec : list positive -> heap -> world -> task -> out.

(* Boolean ㄱ (stop_on = false) / ㄷ (stop_on = true): `pre` are the operands before the deciding one (each the opposite truth value), `rest` is arbitrary *)
Theorem deciding_operand_ends_evaluation sp s pre rest ip h w :
  Forall (fun v => v = VBool (negb s)) pre ->
  runG rec value ip h w (all_bools sp (pre ++ VBool s :: rest) s) = DoneG h w (inl (VBool s)) 0.
Proof.
  induction 1 as [|v pre Hv _ IH]; cbn [app all_bools].
  - unfold force. cbn [bind runG check_type forallb is_bool andb]. rewrite Bool.eqb_reflx. reflexivity.
  - subst v. unfold force. cbn [bind runG check_type forallb is_bool andb].
    replace (Bool.eqb (negb s) s) with false by (destruct s; reflexivity). exact IH.
Qed.
Corollary all_after_false_untouched sp pre rest ip h w : Forall (fun v => v = VBool true) pre ->
  runG rec value ip h w (all_bools sp (pre ++ VBool false :: rest) false) = DoneG h w (inl (VBool false)) 0.
Proof. exact (deciding_operand_ends_evaluation sp false pre rest ip h w). Qed.
Corollary any_after_true_untouched sp pre rest ip h w : Forall (fun v => v = VBool false) pre ->
  runG rec value ip h w (all_bools sp (pre ++ VBool true :: rest) true) = DoneG h w (inl (VBool true)) 0.
Proof. exact (deciding_operand_ends_evaluation sp true pre rest ip h w). Qed.

(* a Boolean called with two arguments returns the selected one unevaluated and does not touch the other *)
Theorem boolean_call_selects b sp x y ip h w :
  runG rec value ip h w (apply_body (EBool b) sp [x; y]) = DoneG h w (inl (if b then x else y)) 0.
Proof. reflexivity. Qed.
(* the list constructor evaluates no element, and neither does asking for the length of a list *)
Theorem list_constructor_forces_nothing sp argv ip h w : runG rec value ip h w (bi_list sp argv) = DoneG h w (inl (VList argv)) 0.
Proof. reflexivity. Qed.
Theorem length_forces_no_element sp l ip h w : runG rec value ip h w (bi_len sp [VList l]) = DoneG h w (inl (VInt (Z.of_nat (length l)))) 0.
Proof. reflexivity. Qed.
(* indexing a list returns the selected element unevaluated and touches no other *)
Theorem index_returns_element_unevaluated sp l i x ip h w : py_nth l i = Some x ->
  runG rec value ip h w (apply_body (ESeq (VList l)) sp [VInt i]) = DoneG h w (inl x) 0.
Proof. intros E. cbn. rewrite E. reflexivity. Qed.
End SC.
