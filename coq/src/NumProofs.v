(* C08: the integer literal codec (Num.decode / Num.encode mirror parse.parse_number / parse.encode_number) is a bijection up to
   zero padding: decoding inverts encoding for every integer, the encoder yields a shortest spelling made of digits, and padding a
   spelling with two zero digits (the only way to keep the length parity) never changes the number. *)
From Coq Require Import ZArith List Bool Lia.
Import ListNotations.
Require Import Num.
Open Scope Z_scope.
Definition isdigit (d:Z) := 0 <= d < 8.
Lemma value_app a b : dvalue (a ++ b) = dvalue a + 8 ^ Z.of_nat (length a) * dvalue b.
Proof.
  induction a as [|d a IH]; cbn [app dvalue length]. rewrite Z.pow_0_r. lia.
  rewrite IH. rewrite Nat2Z.inj_succ, Z.pow_succ_r by lia. lia.
Qed.

Lemma to_digits_value fuel n : 0 <= n -> Z.log2 n <= Z.of_nat fuel -> dvalue (to_digits fuel n) = n.
Proof.
  revert n. induction fuel as [|f IH]; intros n Hn Hl; cbn [to_digits].
  - assert (Z.log2 n = 0) by (pose proof (Z.log2_nonneg n); lia).
    cbn [dvalue]. lia.
  - destruct (n <? 8) eqn:E. cbn [dvalue]; lia.
    apply Z.ltb_ge in E. cbn [dvalue]. rewrite IH.
    + pose proof (Z.div_mod n 8). lia.
    + apply Z.div_pos; lia.
    + assert (Z.log2 (n / 8) = Z.log2 n - 3).
      { change 8 with (2^3). rewrite <- Z.shiftr_div_pow2 by lia. rewrite Z.log2_shiftr by lia. 
        assert (3 <= Z.log2 n) by (change 3 with (Z.log2 8); apply Z.log2_le_mono; lia). lia. }
      lia.
Qed.
Lemma to_digits_digits fuel n : 0 <= n -> Z.log2 n <= Z.of_nat fuel -> Forall isdigit (to_digits fuel n).
Proof.
  revert n. induction fuel as [|f IH]; intros n Hn Hl; cbn [to_digits].
  - assert (Z.log2 n = 0) by (pose proof (Z.log2_nonneg n); lia).
    constructor; [|constructor]. unfold isdigit. destruct (Z.eq_dec n 0); [lia|].
    assert (n < 2^1) by (apply Z.log2_lt_pow2; lia). lia.
  - destruct (n <? 8) eqn:E. apply Z.ltb_lt in E. constructor; [unfold isdigit; lia|constructor].
    apply Z.ltb_ge in E. constructor. unfold isdigit. pose proof (Z.mod_pos_bound n 8). lia.
    apply IH. apply Z.div_pos; lia.
    change 8 with (2^3). rewrite <- Z.shiftr_div_pow2 by lia. rewrite Z.log2_shiftr by lia.
    assert (3 <= Z.log2 n) by (change 3 with (Z.log2 8); apply Z.log2_le_mono; lia). lia.
Qed.
Lemma digits_of_value n : 0 <= n -> dvalue (digits_of n) = n.
Proof. intros. apply to_digits_value; auto. rewrite Z2Nat.id; [lia|apply Z.log2_nonneg]. Qed.

Lemma even_app_1 {A} (l:list A) (x:A) : Nat.even (length (l ++ [x])) = negb (Nat.even (length l)).
Proof. rewrite app_length. cbn [length]. rewrite Nat.add_1_r. apply Nat.even_succ_succ || (rewrite Nat.even_succ; rewrite <- Nat.negb_even; reflexivity). Qed.

Theorem decode_encode : forall n, decode (encode n) = n.
Proof.
  intros n. unfold encode, decode.
  set (ds := digits_of (Z.abs n)).
  assert (Hv : dvalue ds = Z.abs n) by (apply digits_of_value; lia).
  destruct (Nat.even (length ds)) eqn:Ev; destruct (n <? 0) eqn:En; cbn [Bool.eqb].
  - rewrite Ev. apply Z.ltb_lt in En. lia.
  - rewrite even_app_1, Ev. cbn. rewrite value_app, Hv. cbn [dvalue]. apply Z.ltb_ge in En. lia.
  - rewrite even_app_1, Ev. cbn. rewrite value_app, Hv. cbn [dvalue]. apply Z.ltb_lt in En. lia.
  - rewrite Ev. apply Z.ltb_ge in En. lia.
Qed.

(* ---- T2 / T3: the encoder yields the shortest spelling; zero-padding by two digits keeps the dvalue ---- *)
Lemma value_bound ds : Forall isdigit ds -> 0 <= dvalue ds < 8 ^ Z.of_nat (length ds).
Proof.
  induction 1 as [|d ds Hd Hds IH]; cbn [dvalue length]. rewrite Z.pow_0_r; lia.
  rewrite Nat2Z.inj_succ, Z.pow_succ_r by lia. unfold isdigit in Hd. lia.
Qed.
Lemma to_digits_msd fuel n : 0 < n -> Z.log2 n <= Z.of_nat fuel -> 8 ^ (Z.of_nat (length (to_digits fuel n)) - 1) <= n.
Proof.
  revert n. induction fuel as [|f IH]; intros n Hn Hl; cbn [to_digits].
  - cbn [length]. simpl. lia.
  - destruct (n <? 8) eqn:E. cbn [length]; simpl; lia.
    apply Z.ltb_ge in E. cbn [length]. rewrite Nat2Z.inj_succ.
    assert (Hq : 0 < n / 8) by (apply Z.div_str_pos; lia).
    assert (Hlq : Z.log2 (n / 8) <= Z.of_nat f).
    { change 8 with (2^3). rewrite <- Z.shiftr_div_pow2 by lia. rewrite Z.log2_shiftr by lia.
      assert (3 <= Z.log2 n) by (change 3 with (Z.log2 8); apply Z.log2_le_mono; lia). lia. }
    specialize (IH _ Hq Hlq).
    replace (Z.succ (Z.of_nat (length (to_digits f (n / 8)))) - 1) with (Z.succ (Z.of_nat (length (to_digits f (n / 8))) - 1)) by lia.
    assert (0 <= Z.of_nat (length (to_digits f (n / 8))) - 1).
    { destruct f; cbn [to_digits]; [cbn; lia|]. destruct (n / 8 <? 8); cbn [length]; lia. }
    rewrite Z.pow_succ_r by lia. pose proof (Z.mul_div_le n 8). lia.
Qed.
Lemma digits_of_len_pos n : (1 <= length (digits_of n))%nat.
Proof. unfold digits_of. destruct (Z.to_nat (Z.log2 n)); cbn [to_digits]; [cbn; lia|]. destruct (n <? 8); cbn [length]; lia. Qed.

Theorem encode_shortest w n : Forall isdigit w -> w <> [] -> decode w = n -> (length (encode n) <= length w)%nat.
Proof.
  intros Hw Hne Hd. pose proof (value_bound w Hw) as [V0 V1].
  destruct (Z.eq_dec n 0) as [->|Hn].
  - assert (encode 0 = [0]) by reflexivity. rewrite H. destruct w; [congruence|cbn [length]; lia].
  - assert (Habs : dvalue w = Z.abs n). { unfold decode in Hd. destruct (Nat.even (length w)); lia. }
    assert (Hpar : Nat.even (length w) = (n <? 0)).
    { unfold decode in Hd. destruct (Nat.even (length w)); symmetry; [apply Z.ltb_lt|apply Z.ltb_ge]; lia. }
    unfold encode. set (ds := digits_of (Z.abs n)).
    assert (Hm : 8 ^ (Z.of_nat (length ds) - 1) <= Z.abs n).
    { apply to_digits_msd. lia. rewrite Z2Nat.id; [lia|apply Z.log2_nonneg]. }
    assert (HL : (length ds <= length w)%nat).
    { destruct (le_lt_dec (length ds) (length w)); auto. exfalso.
      assert (8 ^ Z.of_nat (length w) <= 8 ^ (Z.of_nat (length ds) - 1)) by (apply Z.pow_le_mono_r; lia). lia. }
    destruct (Bool.eqb (Nat.even (length ds)) (n <? 0)) eqn:Eb; auto.
    rewrite app_length. cbn [length].
    assert (length ds <> length w). { intros E. rewrite E, Hpar in Eb. rewrite Bool.eqb_reflx in Eb. discriminate. }
    lia.
Qed.
Theorem pad_two_zeros w : decode (w ++ [0; 0]) = decode w.
Proof.
  unfold decode. rewrite value_app. cbn [dvalue]. rewrite app_length. cbn [length].
  replace (length w + 2)%nat with (S (S (length w))) by lia. rewrite Nat.even_succ_succ. destruct (Nat.even (length w)); lia.
Qed.

Theorem encode_digits n : Forall isdigit (encode n).
Proof.
  unfold encode. set (ds := digits_of (Z.abs n)).
  assert (H : Forall isdigit ds). { apply to_digits_digits; [lia|]. rewrite Z2Nat.id; [lia|apply Z.log2_nonneg]. }
  destruct (Bool.eqb _ _); auto. apply Forall_app. split; auto. constructor; [unfold isdigit; lia|constructor].
Qed.
Theorem encode_nonempty n : encode n <> [].
Proof.
  unfold encode. pose proof (digits_of_len_pos (Z.abs n)). destruct (Bool.eqb _ _); destruct (digits_of (Z.abs n)); cbn in *; try lia; discriminate.
Qed.
Theorem pad_zero_pairs w k : decode (w ++ repeat 0 (2 * k)) = decode w.
Proof.
  induction k as [|k IH]; [cbn [Nat.mul repeat]; rewrite app_nil_r; reflexivity|].
  replace (2 * S k)%nat with (2 * k + 2)%nat by lia. rewrite repeat_app. change (repeat 0 2) with [0; 0]. rewrite app_assoc, pad_two_zeros. exact IH.
Qed.
(* every integer has a spelling, and all paddings of it are spellings of the same integer *)
Theorem every_integer_has_spellings n k : decode (encode n ++ repeat 0 (2 * k)) = n.
Proof. rewrite pad_zero_pairs. apply decode_encode. Qed.
(* different integers never share a spelling (decode is a function) and the encoder is injective *)
Theorem encode_injective a b : encode a = encode b -> a = b.
Proof. intros H. rewrite <- (decode_encode a), <- (decode_encode b), H. reflexivity. Qed.
