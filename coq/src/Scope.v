(* C02, second sentence: lexical scoping.  "A function value always sees the arguments and enclosing functions of the place where it was
   defined, whatever context it is later called from or passed through, and a self- or outer-function reference denotes that very function."
   Stated on the specification's interpreter of Comp trees (Spec.run) for an ARBITRARY evaluation oracle `rec`, i.e. they hold in every
   context, at every depth, whatever was evaluated before. *)
From Coq Require Import ZArith NArith List Bool FMapPositive Lia.
Import ListNotations.
Require Import Base Float Strings Num Builtins Interp Machine Spec.
Open Scope Z_scope.

(* ---- function references: index r counts enclosing functions from the innermost (0 = the function itself), negative r from the outermost ---- *)
Lemma rnth_last {A} (l:list A) (x:A) : rnth (l ++ [x]) 0 = Some x.
Proof.
  unfold rnth, py_nth. rewrite app_length. cbn [length]. replace (- 0 - 1) with (-1) by lia.
  replace ((- Z.of_nat (length l + 1) <=? -1) && (-1 <? Z.of_nat (length l + 1))) with true by (symmetry; apply andb_true_iff; split; [apply Z.leb_le|apply Z.ltb_lt]; lia).
  replace (-1 <? 0) with true by reflexivity. replace (Z.to_nat (-1 + Z.of_nat (length l + 1))) with (length l) by lia.
  rewrite nth_error_app2 by lia. rewrite Nat.sub_diag. reflexivity.
Qed.
Lemma rnth_from_inside {A} (l:list A) (k:nat) (inner:list A) (x:A) : length inner = k -> rnth (l ++ x :: inner) (Z.of_nat k) = Some x.
Proof.
  intros L. unfold rnth, py_nth. rewrite app_length. cbn [length]. rewrite L.
  replace ((- Z.of_nat (length l + S k) <=? - Z.of_nat k - 1) && (- Z.of_nat k - 1 <? Z.of_nat (length l + S k))) with true by (symmetry; apply andb_true_iff; split; [apply Z.leb_le|apply Z.ltb_lt]; lia).
  replace (- Z.of_nat k - 1 <? 0) with true by (symmetry; apply Z.ltb_lt; lia).
  replace (Z.to_nat (- Z.of_nat k - 1 + Z.of_nat (length l + S k))) with (length l) by lia.
  rewrite nth_error_app2 by lia. rewrite Nat.sub_diag. reflexivity.
Qed.
Lemma rnth_from_outside {A} (outer:list A) (x:A) (l:list A) (k:nat) : length outer = k -> rnth (outer ++ x :: l) (- Z.of_nat k - 1) = Some x.
Proof.
  intros L. unfold rnth, py_nth. rewrite app_length. cbn [length]. rewrite L.
  replace (- (- Z.of_nat k - 1) - 1) with (Z.of_nat k) by lia.
  replace ((- Z.of_nat (k + S (length l)) <=? Z.of_nat k) && (Z.of_nat k <? Z.of_nat (k + S (length l)))) with true by (symmetry; apply andb_true_iff; split; [apply Z.leb_le|apply Z.ltb_lt]; lia).
  replace (Z.of_nat k <? 0) with false by (symmetry; apply Z.ltb_ge; lia). rewrite Nat2Z.id.
  rewrite nth_error_app2 by lia. rewrite L, Nat.sub_diag. reflexivity.
Qed.
Lemma rnth_out_of_range {A} (l:list A) (r:Z) : (Z.of_nat (length l) <= r \/ r < - Z.of_nat (length l)) -> rnth l r = None.
Proof.
  intros H. unfold rnth, py_nth.
  replace ((- Z.of_nat (length l) <=? - r - 1) && (- r - 1 <? Z.of_nat (length l))) with false; [reflexivity|].
  symmetry. apply andb_false_iff. destruct H; [left; apply Z.leb_gt; lia|right; apply Z.ltb_ge; lia].
Qed.

Section Scope.
Variable rec : list positive -> heap -> world -> task -> out.

(* defining a function captures the environment of the definition site, extended by the function itself *)
Theorem definition_captures_its_environment b sp e ip h w :
  run rec ip h w (interpret (FunDef b sp) e) = Done (fst (newclo h b e)) w (inl (VFun (FClo (next_f h)))) 0
  /\ PositiveMap.find (next_f h) (clos (fst (newclo h b e))) = Some {| f_body := b; f_env := {| funs := funs e ++ [next_f h]; args := args e |} |}.
Proof. split; [reflexivity|]. unfold newclo. cbn [fst clos]. apply PositiveMap.gss. Qed.

(* a self reference denotes that very function; index k the k-th enclosing one; a negative index counts from the outermost *)
Theorem self_reference outer self argsv sp ip h w :
  run rec ip h w (interpret (FunRef 0 sp) {| funs := outer ++ [self]; args := argsv |}) = Done h w (inl (VFun (FClo self))) 0.
Proof. cbn [interpret funs]. rewrite rnth_last. reflexivity. Qed.
Theorem outer_reference outer f inner argsv sp ip h w :
  run rec ip h w (interpret (FunRef (Z.of_nat (length inner)) sp) {| funs := outer ++ f :: inner; args := argsv |}) = Done h w (inl (VFun (FClo f))) 0.
Proof. cbn [interpret funs]. rewrite (rnth_from_inside outer (length inner) inner f eq_refl). reflexivity. Qed.
Theorem outermost_reference outer f inner argsv sp ip h w :
  run rec ip h w (interpret (FunRef (- Z.of_nat (length outer) - 1) sp) {| funs := outer ++ f :: inner; args := argsv |}) = Done h w (inl (VFun (FClo f))) 0.
Proof. cbn [interpret funs]. rewrite (rnth_from_outside outer f inner (length outer) eq_refl). reflexivity. Qed.
Theorem reference_out_of_range r sp e ip h w : (Z.of_nat (length (funs e)) <= r \/ r < - Z.of_nat (length (funs e))) ->
  run rec ip h w (interpret (FunRef r sp) e) = Done h w (inr (mkerr c_range sp)) 0.
Proof. intros H. cbn [interpret]. rewrite (rnth_out_of_range _ _ H). reflexivity. Qed.

(* calling a function value evaluates its body in the environment captured at ITS DEFINITION, extended by the arguments of this call:
   the caller's environment does not occur - whatever context the function is called from or was passed through *)
Theorem call_uses_definition_environment g cl argv sp ip h w :
  PositiveMap.find g (clos h) = Some cl ->
  run rec ip h w (apply_body (EFun (FClo g)) sp argv)
  = let (h', t) := alloc h (f_body cl) {| funs := funs (f_env cl); args := args (f_env cl) ++ [argv] |} in Done h' w (inl (VThunk t)) 0.
Proof. intros F. cbn [apply_body run]. unfold alloc_body. rewrite F. reflexivity. Qed.
(* ... and the arguments are passed unevaluated, in order, as the innermost argument frame *)
Corollary call_binds_arguments g cl argv h t h' :
  PositiveMap.find g (clos h) = Some cl -> alloc h (f_body cl) {| funs := funs (f_env cl); args := args (f_env cl) ++ [argv] |} = (h', t) ->
  exists c, get h' t = Some c /\ c_ast c = f_body cl /\ funs (c_env c) = funs (f_env cl) /\ rnth (args (c_env c)) 0 = Some argv /\ c_cache c = None.
Proof.
  intros F A. unfold alloc in A. inversion A; subst. eexists. split; [unfold get; cbn [cells]; apply PositiveMap.gss|]. cbn.
  repeat split; try reflexivity. apply rnth_last.
Qed.

(* an argument reference: the position is whatever INTEGER the position expression evaluates to - written as a literal or computed - and the
   selected argument is returned UNEVALUATED (it is the caller's delayed expression itself) *)
Theorem argument_reference_by_value ia r sp e argv ip h w (i:Z) h1 w1 d :
  rnth (args e) r = Some argv -> existsb (Pos.eqb (next_t h)) ip = false ->
  rec ip (fst (alloc h ia e)) w (TThunk (next_t h)) = Done h1 w1 (inl (VInt i)) d ->
  run rec ip h w (interpret (ArgRef ia r sp) e)
  = Done h1 w1 (if (0 <=? i) && (i <? Z.of_nat (length argv)) then match nth_error argv (Z.to_nat i) with Some v => inl v | None => inr (mkerr c_range sp) end
               else inr (mkerr c_range sp)) (1 + d).
Proof.
  intros A N R. cbn [interpret]. rewrite A. cbn [run]. unfold alloc in *. cbn [fst] in R. unfold force. cbn [bind run].
  unfold get at 1. cbn [cells]. rewrite PositiveMap.gss. cbn [c_cache]. rewrite N, R.
  unfold check_type. cbn [forallb is_int andb bind run updd]. unfold raise.
  destruct ((0 <=? i) && (i <? Z.of_nat (length argv))); [destruct (nth_error argv (Z.to_nat i))|]; cbn [run updd]; f_equal; lia.
Qed.
End Scope.
