(* DRAFT: C10 - throw / try deliver the raised exception intact; errors propagate through every strict
   position; a failed delayed expression fails identically whenever it is needed again. *)
From Coq Require Import ZArith NArith List Bool FMapPositive Lia.
Import ListNotations.
Require Import Base Strings Builtins Interp Machine Spec HeapFacts Refine1 Refine2 Refine3 Refine4 RunG.

Section Exc.
Variable rec : list positive -> heap -> world -> task -> out.
Notation RG := (runG rec).

(* ---- propagation through sequencing: the first failing part decides, nothing after it runs ---- *)
Theorem raise_propagates_bind A B (c:Comp A) (f:A -> Comp B) ip h w h' w' e d :
  RG A ip h w c = DoneG h' w' (inr e) d -> RG B ip h w (bind c f) = DoneG h' w' (inr e) d.
Proof. intros H. rewrite runG_bind, H. reflexivity. Qed.

(* ---- a demanded delayed expression that fails makes the demanding computation fail with the same exception ---- *)
Theorem raise_propagates_force A (k:value -> Comp A) ip h w u cl h' w' e d :
  get h u = Some cl -> c_cache cl = None -> existsb (Pos.eqb u) ip = false ->
  rec ip h w (TThunk u) = Done h' w' (inr e) d ->
  RG A ip h w (Force (VThunk u) k) = DoneG h' w' (inr e) (1 + d).
Proof. intros G C E R. cbn [runG]. rewrite G, C, E, R. reflexivity. Qed.
Theorem raise_propagates_call A (k:value -> Comp A) ip h w p h' w' e d :
  rec ip h w (TComp (proc_body p)) = Done h' w' (inr e) d ->
  RG A ip h w (Call p k) = DoneG h' w' (inr e) d.
Proof. intros R. cbn [runG]. rewrite R. reflexivity. Qed.

(* ---- a cached failure is replayed verbatim: same exception, no work, no state change ---- *)
Theorem cached_failure_replayed A (k:value -> Comp A) ip h w u cl e :
  get h u = Some cl -> c_cache cl = Some (inr e) ->
  RG A ip h w (Force (VThunk u) k) = DoneG h w (inr e) 0.
Proof. intros G C. cbn [runG]. rewrite G, C. reflexivity. Qed.

(* ---- throw ---- *)
Theorem throw_raises sp a ip h w h' w' s l d :
  RG value ip h w (force a) = DoneG h' w' (inl (VErr s l)) d ->
  RG value ip h w (bi_throw sp [a]) = DoneG h' w' (inr {| e_spans := s; e_vals := l |}) d.
Proof.
  intros H. unfold bi_throw. cbn [length check_arity existsb Nat.eqb orb bind map_strict].
  change (RG value ip h w (vs <- (x <- force a ;; xs <- Ret [] ;; Ret (x :: xs)) ;; check_type sp vs is_err ;;; match vs with [VErr s0 l0] => Raise {| e_spans := s0; e_vals := l0 |} | _ => raise c_type sp end)
          = DoneG h' w' (inr {| e_spans := s; e_vals := l |}) d).
  rewrite runG_bind, runG_bind, H. cbn [thenG bind runG upddG check_type forallb is_err andb].
  f_equal. lia.
Qed.
Theorem throw_needs_exception sp a ip h w h' w' v d :
  RG value ip h w (force a) = DoneG h' w' (inl v) d -> is_err v = false ->
  RG value ip h w (bi_throw sp [a]) = DoneG h' w' (inr (mkerr c_type sp)) d.
Proof.
  intros H Hv. unfold bi_throw. cbn [length check_arity existsb Nat.eqb orb bind map_strict].
  change (RG value ip h w (vs <- (x <- force a ;; xs <- Ret [] ;; Ret (x :: xs)) ;; check_type sp vs is_err ;;; match vs with [VErr s0 l0] => Raise {| e_spans := s0; e_vals := l0 |} | _ => raise c_type sp end)
          = DoneG h' w' (inr (mkerr c_type sp)) d).
  rewrite runG_bind, runG_bind, H. cbn [thenG bind runG upddG]. unfold check_type. cbn [forallb]. rewrite Hv.
  cbn [andb bind raise runG upddG]. f_equal. lia.
Qed.
Theorem throw_arg_failure sp a ip h w h' w' e d :
  RG value ip h w (force a) = DoneG h' w' (inr e) d ->
  RG value ip h w (bi_throw sp [a]) = DoneG h' w' (inr e) d.
Proof.
  intros H. unfold bi_throw. cbn [length check_arity existsb Nat.eqb orb bind map_strict].
  change (RG value ip h w (vs <- (x <- force a ;; xs <- Ret [] ;; Ret (x :: xs)) ;; check_type sp vs is_err ;;; match vs with [VErr s0 l0] => Raise {| e_spans := s0; e_vals := l0 |} | _ => raise c_type sp end)
          = DoneG h' w' (inr e) d).
  rewrite runG_bind, runG_bind, H. reflexivity.
Qed.

(* ---- try ---- *)
Theorem try_value sp a hd ip h w h' w' v d :
  rec ip h w (TComp (proc_body (PDeep a))) = Done h' w' (inl v) d ->
  RG value ip h w (bi_try sp [a; hd]) = DoneG h' w' (inl v) d.
Proof.
  intros R. unfold bi_try. cbn [length check_arity existsb Nat.eqb orb bind runG call]. rewrite R.
  cbn [of_out runG upddG Nat.add]. rewrite !Nat.max_0_r. reflexivity.
Qed.
(* the handler is applied to an exception value with exactly the raised contents and locations *)
Theorem try_handler_gets_it sp a hd ip h w h' w' e d :
  rec ip h w (TComp (proc_body (PDeep a))) = Done h' w' (inr e) d -> unmodelled e = false ->
  RG value ip h w (bi_try sp [a; hd]) =
  upddG (RG value ip h' w' (f <- functional sp hd false ;; call (PApply f sp [VErr (e_spans e) (e_vals e)]))) d.
Proof.
  intros R U. unfold bi_try. cbn [length check_arity existsb Nat.eqb orb bind runG call]. rewrite R.
  cbn [of_out Nat.add]. rewrite U.
  destruct (RG value ip h' w' (f <- functional sp hd false;; call (PApply f sp [VErr (e_spans e) (e_vals e)]))) as [h2 w2 [v|e2] d2| |]; cbn [upddG runG]; auto.
  rewrite Nat.max_0_r. reflexivity.
Qed.
End Exc.

(* ---- every built-in failure carries the marker 5 and the code of its class, and the place ---- *)
Theorem builtin_error_contents code sp : e_vals (mkerr code sp) = [VInt 5; VInt code] /\ e_spans (mkerr code sp) = [sp].
Proof. split; reflexivity. Qed.

(* ---- the result of evaluating a delayed expression is what its cache holds afterwards ---- *)
Lemma bs_thunk_shape n ip h w t h' w' r d :
  bs n ip h w (TThunk t) = Done h' w' r d -> (exists cl, get h t = Some cl) -> exists hx, h' = set_cache hx t r.
Proof.
  destruct n as [|n]; [discriminate|]. cbn [bs]. intros H [cl G]. rewrite G in H.
  destruct (run (bs n) (t :: ip) h w (interpret (c_ast cl) (c_env cl))) as [h1 w1 [v|e] d0| |]; try discriminate.
  - destruct v as [z|fl|b|s|s|l|dc|f|i|sp l| |t'|cr ci]; try (inversion H; subst; eexists; reflexivity).
    destruct (get h1 t') as [cl'|]; [|discriminate].
    destruct (c_cache cl') as [r0|]; [inversion H; subst; eexists; reflexivity|].
    destruct (existsb (Pos.eqb t') (t :: ip)); [discriminate|].
    destruct (bs n (t :: ip) h1 w1 (TThunk t')) as [h2 w2 r2 d2| |]; try discriminate.
    inversion H; subst; eexists; reflexivity.
  - inversion H; subst; eexists; reflexivity.
Qed.
Theorem thunk_result_cached n ip h w t h' w' r d :
  bs n ip h w (TThunk t) = Done h' w' r d -> uncached h t -> ~ In t ip -> inv h ip ->
  exists cl', get h' t = Some cl' /\ c_cache cl' = Some r.
Proof.
  intros H U N I. destruct (sim_all n) as (HA & _ & _).
  destruct (HA _ _ _ _ _ _ _ _ H U N I) as (_ & _ & _ & (cl' & r' & G' & C') & _).
  destruct U as (cl & G & _).
  destruct (bs_thunk_shape _ _ _ _ _ _ _ _ _ H (ex_intro _ cl G)) as (hx & ->).
  destruct (get hx t) as [clx|] eqn:Gx.
  - rewrite (get_set_same _ _ _ _ Gx) in G'. inversion G'; subst. eexists; split; [apply get_set_same; eauto|reflexivity].
  - rewrite (set_cache_none _ _ _ Gx) in G'. congruence.
Qed.
(* ... and stays there in every later heap: a failed sub-expression fails identically each time it is needed again *)
Theorem failure_persists h h' t cl e : hle h h' -> get h t = Some cl -> c_cache cl = Some (inr e) ->
  exists cl', get h' t = Some cl' /\ c_cache cl' = Some (inr e).
Proof. intros (_ & L) G C. destruct (L _ _ G) as (cl' & G' & _ & _ & K & _). eauto. Qed.

Print Assumptions throw_raises. Print Assumptions try_handler_gets_it. Print Assumptions thunk_result_cached.
Print Assumptions raise_propagates_bind. Print Assumptions cached_failure_replayed. Print Assumptions failure_persists.
