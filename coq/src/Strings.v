From Coq Require Import NArith List.
Import ListNotations.
Definition s_nil : list N := [78; 105; 108]%N.
Definition s_exc_open : list N := [60; 50696; 50808; 58; 32; 91]%N.
Definition s_exc_close : list N := [93; 62]%N.
Definition s_clo_a : list N := [60; 44618; 51060; 32]%N.
Definition s_clo_b : list N := [50640; 49436; 32; 49373; 49457; 46108; 32; 54632; 49688; 62]%N.
Definition s_pipe : list N := [60; 50672; 44208; 46108; 32; 32; 54632; 49688; 62]%N.
Definition s_collect : list N := [60; 47784; 50500; 32; 48155; 45716; 32; 32; 54632; 49688; 62]%N.
Definition s_spread : list N := [60; 54204; 52432; 32; 48155; 45716; 32; 32; 54632; 49688; 62]%N.
Definition s_sep : list N := [44; 32]%N.
Definition s_colon : list N := [58; 32]%N.
Definition s_io_open : list N := [73; 79; 40]%N.
Definition s_io_close : list N := [41]%N.
Definition s_codec : list N := [60; 48148; 51060; 53944; 50676; 32; 48512; 47; 48373; 54840; 54868; 32; 32; 54632; 49688; 62]%N.
From Coq Require Import ZArith.
Definition s_mod_prefix : list N := [60; 44592; 48376; 32; 51228; 44277; 32; 47784; 46280; 32; 12610]%N.
Definition s_digits : list N := [12593; 12596; 12599; 12601; 12609; 12610; 12613; 12616]%N.
