(* C07 - the monad laws of return (ㄱㅅ) and bind (ㄱㄹ), up to what can be observed: result, output written, input left.
   Everything is about `exec`, the front end's executor (main.do_IO), over the big-step semantics. *)
From Coq Require Import ZArith NArith List Bool FMapPositive Lia.
Import ListNotations.
Require Import Base Strings Builtins Interp Machine Spec HeapFacts Refine1 Refine2 RunG Eq Deep IOSpec.

(* what an observer of the process sees of an outcome: the world (input left, output written) and the result *)
Definition obs (o:out) : option (world * res) := match o with Done _ w r _ => Some (w, r) | _ => None end.

(* "apply the continuation to x, require an action, execute it": the second half of every bind *)
Definition kleisli n ip (f:evalr) (sp:span) (h:heap) (w:world) (x:value) : out :=
  then_ (bs n ip h w (TComp (apply_body f sp [x]))) (fun h2 w2 r =>
    then_ (run (bs n) ip h2 w2 (force r)) (fun h3 w3 r' =>
      if is_io r' then exec n ip h3 w3 r' else Done h3 w3 (inr (mkerr c_type sp)) 0)).

Lemma updd_0 o : updd o 0 = o. Proof. destruct o; reflexivity. Qed.
Lemma updd_updd o a b : updd (updd o a) b = updd o (Nat.max b a).
Proof. destruct o; cbn [updd]; auto. f_equal. lia. Qed.
Lemma then_updd o d f : then_ (updd o d) f = updd (then_ o f) d.
Proof. destruct o as [h w [v|e] d0| |]; cbn [updd then_]; auto. rewrite updd_updd. reflexivity. Qed.
Lemma then_assoc o f g : then_ (then_ o f) g = then_ o (fun h w v => then_ (f h w v) g).
Proof. destruct o as [h w [v|e] d| |]; cbn [then_]; auto. apply then_updd. Qed.
Lemma obs_updd o d : obs (updd o d) = obs o. Proof. destruct o; reflexivity. Qed.

(* a bind without handler IS sequencing: the bound action, then the continuation on its result *)
Theorem bind_is_then n ip h w sp m f argv : late_ok f = true ->
  exec (S n) ip h w (VIO (IOBind sp m f None argv)) = then_ (exec n ip h w m) (kleisli n ip f sp).
Proof. intros Hok. rewrite bind_runs_in_order by assumption. unfold kleisli. destruct (exec n ip h w m) as [h1 w1 [x|e] d1| |]; reflexivity. Qed.

(* ---------- left identity:  return a >>= f  =  f a ---------- *)
(* `a` is what an action can yield: not delayed, and not itself an action (do_IO runs until the value is not an action;
   see return_of_action_runs_it below for that case) *)
Theorem left_identity n ip h w sp a f argv : isthunk a = false -> is_io a = false -> late_ok f = true ->
  exec (S (S (S n))) ip h w (VIO (IOBind sp (VIO (IOReturn a)) f None argv)) = kleisli (S (S n)) ip f sp h w a.
Proof. intros T I Hok. rewrite bind_is_then, return_spec by assumption. cbn [then_]. apply updd_0. Qed.

(* the executor keeps going while the result is an action: a returned ACTION is executed as well (main.do_IO's loop;
   its result type is NonIOStrictValue).  So `return a` with `a` an action behaves as `a`, not as a wrapper. *)
Theorem return_of_action_runs_it n ip h w i :
  exec (S (S n)) ip h w (VIO (IOReturn (VIO i))) = exec (S n) ip h w (VIO i).
Proof.
  unfold exec. change (bs (S (S n)) ip h w (TComp (doio_body (VIO (IOReturn (VIO i)))))) with (run (bs (S n)) ip h w (doio_body (VIO (IOReturn (VIO i))))).
  rewrite (run_is_runG (bs (S n))). unfold doio_body at 1. cbn [bind force runG call].
  change (proc_body (PDoIO (VIO i))) with (doio_body (VIO i)).
  destruct (bs (S n) ip h w (TComp (doio_body (VIO i)))) as [h1 w1 [x|e] d1| |]; cbn [of_out runG upddG to_out Nat.add]; auto.
  f_equal. lia.
Qed.

(* no action ever yields an action *)
Lemma exec_result_not_io : forall n ip h w v h' w' x d, exec n ip h w v = Done h' w' (inl x) d -> is_io x = false.
Proof.
  induction n as [|n IH]; intros ip h w v h' w' x d H; [discriminate|].
  unfold exec in H. cbn [bs] in H. rewrite run_is_runG in H.
  destruct v as [z|fl|b|s|s|l|dc|f|i|sp l| |u|cr ci]; try (cbn [doio_body runG to_out] in H; inversion H; subst; reflexivity).
  unfold doio_body in H. rewrite runG_bind in H.
  match type of H with to_out (thenG ?o _) = _ => destruct o as [h1 w1 [r|e] d1| |] end; cbn [thenG] in H; try discriminate.
  rewrite runG_bind in H.
  destruct (runG (bs n) value ip h1 w1 (force r)) as [h2 w2 [y|e] d2| |]; cbn [thenG upddG to_out] in H; try discriminate.
  unfold call in H. cbn [runG] in H. change (proc_body (PDoIO y)) with (doio_body y) in H.
  destruct (bs n ip h2 w2 (TComp (doio_body y))) as [h3 w3 [z|e] d3| |] eqn:Hb; cbn [of_out runG upddG to_out] in H; try discriminate.
  inversion H; subst. eapply (IH ip h2 w2 y). exact Hb.
Qed.

(* ---------- right identity:  m >>= return  =  m ---------- *)
Fixpoint vdepth (v:value) : nat :=
  match v with
  | VList l => S ((fix mx (l:list value) := match l with [] => 0 | x :: r => Nat.max (vdepth x) (mx r) end) l)
  | VErr _ l => S ((fix mx (l:list value) := match l with [] => 0 | x :: r => Nat.max (vdepth x) (mx r) end) l)
  | VDict d => S ((fix mx (d:list (value * value)) := match d with [] => 0 | (_, x) :: r => Nat.max (vdepth x) (mx r) end) d)
  | _ => 0 end%nat.
Fixpoint mxl (l:list value) : nat := match l with [] => 0 | x :: r => Nat.max (vdepth x) (mxl r) end.
Fixpoint mxd (d:list (value * value)) : nat := match d with [] => 0 | (_, x) :: r => Nat.max (vdepth x) (mxd r) end.
Lemma vdepth_list l : vdepth (VList l) = S (mxl l). Proof. reflexivity. Qed.
Lemma vdepth_err s l : vdepth (VErr s l) = S (mxl l). Proof. reflexivity. Qed.
Lemma vdepth_dict d : vdepth (VDict d) = S (mxd d). Proof. reflexivity. Qed.
Lemma mxd_snd d : mxd d = mxl (map snd d). Proof. induction d as [|[k x] d IH]; simpl; auto. Qed.
Lemma allp_snd d : allp d = alls (map snd d). Proof. induction d as [|[k x] d IH]; simpl; auto. rewrite IH; auto. Qed.
Lemma combine_fst_snd {A B} (d:list (A*B)) : combine (map fst d) (map snd d) = d.
Proof. induction d as [|[a b] d IH]; simpl; auto. rewrite IH; auto. Qed.

Definition deep_idP (n:nat) (x:value) := forall ip h w, bs n ip h w (TComp (deep_body x)) = Done h w (inl x) 0.

Lemma map_deep_id n l : Forall (deep_idP n) l -> forall ip h w, runG (bs n) (list value) ip h w (map_call PDeep l) = DoneG h w (inl l) 0.
Proof.
  induction 1 as [|x l Hx Hl IH]; intros ip h w; cbn [map_call]; [reflexivity|].
  unfold call. cbn [bind runG]. change (proc_body (PDeep x)) with (deep_body x). rewrite (Hx ip h w).
  cbn [of_out Nat.add]. rewrite runG_bind, IH. reflexivity.
Qed.

(* deep evaluation of a value with no delayed part is the identity: nothing is forced, allocated, read or written *)
Lemma deep_id : forall x, dstrict x -> forall n, (vdepth x < n)%nat -> deep_idP n x.
Proof.
  assert (L : forall l, Forall (fun x => dstrict x -> forall n, (vdepth x < n)%nat -> deep_idP n x) l ->
              alls l -> forall n, (mxl l < n)%nat -> Forall (deep_idP n) l).
  { induction 1 as [|x l Hx Hl IH]; intros A n Hn; constructor; simpl in A, Hn; destruct A as [A1 A2].
    - apply Hx; auto; lia. - apply IH; auto; lia. }
  intros x. pattern x. apply value_nest_ind; clear x;
    try (intros; intros ip0 h0 w0; match goal with H : (_ < ?k)%nat |- _ => destruct k; [lia|] end; cbn [bs]; rewrite run_is_runG; reflexivity).
  - intros t [].
  - intros l F D n Hn ip h w. rewrite vdepth_list in Hn. destruct n as [|n]; [lia|]. rewrite dstrict_list in D.
    cbn [bs]. rewrite run_is_runG. unfold deep_body. cbn [force bind runG]. rewrite runG_bind.
    rewrite (map_deep_id n l) by (apply L; auto; lia). reflexivity.
  - intros s l F D n Hn ip h w. rewrite vdepth_err in Hn. destruct n as [|n]; [lia|]. rewrite dstrict_err in D.
    cbn [bs]. rewrite run_is_runG. unfold deep_body. cbn [force bind runG]. rewrite runG_bind.
    rewrite (map_deep_id n l) by (apply L; auto; lia). reflexivity.
  - intros d F D n Hn ip h w. rewrite vdepth_dict, mxd_snd in Hn. destruct n as [|n]; [lia|]. rewrite dstrict_dict, allp_snd in D.
    cbn [bs]. rewrite run_is_runG. unfold deep_body. cbn [force bind runG]. rewrite runG_bind.
    rewrite (map_deep_id n (map snd d)).
    + cbn [thenG runG upddG to_out]. rewrite combine_fst_snd. reflexivity.
    + apply L; auto; [|lia]. rewrite Forall_map. eapply Forall_impl; [|exact F]. intros [k v] [_ Hv]. exact Hv.
Qed.

Lemma builtin_return sp argv : builtin b_return sp argv = bi_return sp argv.
Proof. reflexivity. Qed.

(* m >>= return: same result, same world, same heap as m alone (x: what m yields - always fully evaluated, cf. return_yields_deep) *)
Theorem right_identity n ip h w sp m argv h1 w1 x d1 :
  exec n ip h w m = Done h1 w1 (inl x) d1 -> dstrict x -> (vdepth x + 2 <= n)%nat ->
  exec (S n) ip h w (VIO (IOBind sp m (EBuiltin b_return) None argv)) = Done h1 w1 (inl x) d1.
Proof.
  intros Hm D Hn. pose proof (exec_result_not_io _ _ _ _ _ _ _ _ _ Hm) as NI.
  assert (T : isthunk x = false) by (destruct x; try reflexivity; destruct D).
  rewrite bind_is_then, Hm by reflexivity. cbn [then_]. unfold kleisli.
  destruct n as [|[|n]]; try lia.
  cbn [bs apply_body]. rewrite builtin_return. rewrite (run_is_runG (bs (S n))). unfold bi_return.
  cbn [length check_arity existsb Nat.eqb orb bind runG call]. change (proc_body (PDeep x)) with (deep_body x).
  rewrite (deep_id x D (S n)) by lia. cbn [of_out runG upddG to_out Nat.add Nat.max then_ run force is_io].
  rewrite return_spec by assumption. cbn [updd Nat.max]. f_equal. lia.
Qed.
Theorem right_identity_failure n ip h w sp m argv h1 w1 e d1 :
  exec n ip h w m = Done h1 w1 (inr e) d1 ->
  exec (S n) ip h w (VIO (IOBind sp m (EBuiltin b_return) None argv)) = Done h1 w1 (inr e) d1.
Proof. intros Hm. rewrite bind_is_then, Hm by reflexivity. reflexivity. Qed.

(* what ㄱㅅ builds always holds a fully evaluated value *)
Theorem return_yields_deep n sp a ip h w h' w' v d :
  bs (S n) ip h w (TComp (apply_body (EBuiltin b_return) sp [a])) = Done h' w' (inl v) d -> inv h ip ->
  exists x, v = VIO (IOReturn x) /\ dstrict x.
Proof.
  intros H I. cbn [bs apply_body] in H. rewrite builtin_return, run_is_runG in H. unfold bi_return in H.
  cbn [length check_arity existsb Nat.eqb orb bind runG call] in H. change (proc_body (PDeep a)) with (deep_body a) in H.
  destruct (bs n ip h w (TComp (deep_body a))) as [h1 w1 [x|e] d1| |] eqn:Hb; cbn [of_out runG upddG to_out] in H; try discriminate.
  inversion H; subst. exists x. split; auto. eapply deep_all; eauto.
Qed.

(* ---------- associativity:  (m >>= f) >>= g   =   m, then f, then g   =   m >>= (fun x => f x >>= g) ---------- *)
Definition pipeline3 n ip sp h w m f g : out :=
  then_ (exec n ip h w m) (fun h1 w1 x => then_ (kleisli n ip f sp h1 w1 x) (fun h2 w2 y => kleisli (S n) ip g sp h2 w2 y)).

Theorem assoc_left n ip h w sp m f g argv argv' : late_ok f = true -> late_ok g = true ->
  exec (S (S n)) ip h w (VIO (IOBind sp (VIO (IOBind sp m f None argv)) g None argv')) = pipeline3 n ip sp h w m f g.
Proof. intros Hf Hg. rewrite bind_is_then, bind_is_then by assumption. unfold pipeline3. apply then_assoc. Qed.

(* The right-nested form  m >>= (fun x => f x >>= g)  needs a closure built by the program; applying it evaluates `f x`, requires an
   action r' and builds r' >>= g (bi_bind), after which bind_is_then gives  m, then r', then g  again.  That step goes through the
   interpreter on a different heap (the closure allocates), so it is compared on real programs by the correspondence slice
   (io_monad_laws) rather than proved here. *)

(* the hypotheses are met by concrete runs *)
Definition w_ex : world := world_start [[104%N]] [].
Definition sp0 : span := (0%N, 0%N, 0%N).
Example left_identity_instance :
  obs (exec 6 [] heap0 w_ex (VIO (IOBind sp0 (VIO (IOReturn (VInt 7))) (EBuiltin b_print) None []))) = Some (w_ex, inr (mkerr c_type sp0))
  /\ obs (exec 6 [] heap0 w_ex (VIO (IOBind sp0 (VIO (IOReturn (VStr [97%N]))) (EBuiltin b_print) None [])))
     = Some (with_io w_ex [[104%N]] [97%N; 10%N], inl VNil).
Proof. split; vm_compute; reflexivity. Qed.
Example right_identity_instance :
  exists h1 d1, exec 4 [] heap0 w_ex (VIO IOInput) = Done h1 (with_io w_ex [] []) (inl (VStr [104%N])) d1
  /\ exec 5 [] heap0 w_ex (VIO (IOBind sp0 (VIO IOInput) (EBuiltin b_return) None [])) = Done h1 (with_io w_ex [] []) (inl (VStr [104%N])) d1.
Proof. eexists; eexists; split; vm_compute; reflexivity. Qed.
Example returned_action_runs :
  obs (exec 4 [] heap0 w_ex (VIO (IOReturn (VIO (IOPrint [97%N]))))) = Some (with_io w_ex [[104%N]] [97%N; 10%N], inl VNil).
Proof. vm_compute; reflexivity. Qed.
Print Assumptions left_identity. Print Assumptions right_identity. Print Assumptions assoc_left. Print Assumptions return_of_action_runs_it.
