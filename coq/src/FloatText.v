(* Python's repr(float) / str(float) and float(str) as far as modelled: the SHORTEST decimal digit string that reads back to the same double
   (the one closest to the true value among the shortest), laid out as CPython's format code 'r' does; reading = the double nearest to the
   decimal (round-half-even), computed exactly.  Standard library SpecFloat only. *)
From Coq Require Import ZArith NArith List Bool SpecFloat Lia.
Import ListNotations.
Open Scope Z_scope.

Definition fprec := 53. Definition femax := 1024.

(* ---------- reading: the double nearest to m * 10^k ---------- *)
Definition magnitude (m k:Z) : spec_float :=
  if m <=? 0 then S754_zero false
  else if 310 <? k then S754_infinity false                                          (* m >= 1, so m * 10^k > the largest double *)
  else if (Z.log2 m + 1) * 302 + 1000 * k <? -324000 then S754_zero false            (* m * 10^k < 10^-324 < half the smallest subnormal *)
  else if 0 <=? k then binary_normalize fprec femax (m * 10 ^ k) 0 false
  else SFdiv fprec femax (S754_finite false (Z.to_pos m) 0) (S754_finite false (Z.to_pos (10 ^ (- k))) 0).
(* rounding to nearest is symmetric: the sign is put on afterwards *)
Definition set_sign (neg:bool) (f:spec_float) : spec_float :=
  match f with S754_zero _ => S754_zero neg | S754_infinity _ => S754_infinity neg | S754_finite _ m e => S754_finite neg m e | S754_nan => S754_nan end.
Definition float_of_decimal (neg:bool) (m k:Z) : spec_float := set_sign neg (magnitude m k).

(* ---------- writing ---------- *)
(* x = p / q exactly *)
Definition ratio_of (m:positive) (e:Z) : Z * Z := if 0 <=? e then (Zpos m * 2 ^ e, 1) else (Zpos m, 2 ^ (- e)).
(* p/q divided by 10^t, as a fraction *)
Definition scaled (p q t:Z) : Z * Z := if 0 <=? t then (p, q * 10 ^ t) else (p * 10 ^ (- t), q).
Definition pow10_le (e p q:Z) : bool := if 0 <=? e then q * 10 ^ e <=? p else q <=? p * 10 ^ (- e).     (* 10^e <= p/q *)
Fixpoint climb (fuel:nat) (e p q:Z) : Z := match fuel with O => e | S f => if pow10_le (e + 1) p q then climb f (e + 1) p q else e end.
Definition ilog10 (p q:Z) : Z := climb 8 (((Z.log2 p - Z.log2 q) * 30103) / 100000 - 2) p q.          (* the largest E with 10^E <= p/q *)
(* the k-digit candidate(s) next to x, nearest first; a candidate is taken when it READS BACK to x *)
Fixpoint strip10 (fuel:nat) (c t:Z) : Z * Z := match fuel with O => (c, t) | S f => if (c mod 10 =? 0) && negb (c =? 0) then strip10 f (c / 10) (t + 1) else (c, t) end.
Definition reads (x:spec_float) (c t:Z) : bool := match SFcompare (float_of_decimal false c t) x with Some Eq => true | _ => false end.
(* a candidate is written without trailing zeros (1e22, not 10e21) and taken when, written so, it READS BACK to x *)
Definition accept (x:spec_float) (c t:Z) : option (Z * Z) := let '(c', t') := strip10 20 c t in if (0 <? c') && negb (c' mod 10 =? 0) && reads x c' t' then Some (c', t') else None.
Definition first_try (x:spec_float) (a b t:Z) : option (Z * Z) := match accept x a t with Some r => Some r | None => accept x b t end.
Definition try_digits (x:spec_float) (p q E:Z) (k:Z) : option (Z * Z) :=
  let t := E - (k - 1) in
  let '(num, den) := scaled p q t in
  let lo := num / den in let rem := num - lo * den in
  let first_lo := if 2 * rem <? den then true else if den <? 2 * rem then false else Z.even lo in
  first_try x (if first_lo then lo else lo + 1) (if first_lo then lo + 1 else lo) t.
(* fewest digits: a k-digit text reading back exists for every k from some k0 on (append a zero), so bisect k in 1..17 *)
Fixpoint bisect (fuel:nat) (x:spec_float) (p q E lo hi:Z) (best:option (Z * Z)) : option (Z * Z) :=
  match fuel with O => best | S f =>
    if hi <? lo then best else
    let mid := (lo + hi) / 2 in
    match try_digits x p q E mid with
    | Some r => bisect f x p q E lo (mid - 1) (Some r)
    | None => bisect f x p q E (mid + 1) hi best end end.
(* positive finite x = m * 2^e: (c, t) with c * 10^t reading back to x, c of as few digits as possible *)
Definition shortest (m:positive) (e:Z) : option (Z * Z) :=
  let '(p, q) := ratio_of m e in bisect 6 (S754_finite false m e) p q (ilog10 p q) 1 17 None.

Fixpoint ddigits (fuel:nat) (n:Z) (acc:list N) : list N :=
  match fuel with O => acc | S f => let acc' := Z.to_N (48 + n mod 10) :: acc in if n <? 10 then acc' else ddigits f (n / 10) acc' end.
Definition digits (n:Z) : list N := ddigits (S (Z.to_nat (Z.log2 n))) n [].
Definition zeros (n:Z) : list N := repeat 48%N (Z.to_nat n).
(* format_float_short(…, 'r', …, Py_DTSF_ADD_DOT_0): ds = the digits, decpt = where the point goes (value = 0.ds * 10^decpt) *)
Definition layout (ds:list N) (decpt:Z) : list N :=
  let n := Z.of_nat (length ds) in
  if (decpt <=? -4) || (16 <? decpt) then
    let ex := decpt - 1 in
    (match ds with d :: r => d :: (match r with [] => [] | _ => 46%N :: r end) | [] => [] end)
    ++ [101%N] ++ (if ex <? 0 then [45%N] else [43%N]) ++ (if Z.abs ex <? 10 then [48%N] else []) ++ digits (Z.abs ex)
  else if decpt <=? 0 then [48; 46]%N ++ zeros (- decpt) ++ ds
  else if n <=? decpt then ds ++ zeros (decpt - n) ++ [46; 48]%N
  else firstn (Z.to_nat decpt) ds ++ [46%N] ++ skipn (Z.to_nat decpt) ds.
Definition repr_float (f:spec_float) : option (list N) :=
  match f with
  | S754_nan => Some [110; 97; 110]%N
  | S754_infinity s => Some ((if s then [45%N] else []) ++ [105; 110; 102]%N)
  | S754_zero s => Some ((if s then [45%N] else []) ++ [48; 46; 48]%N)
  | S754_finite s m e =>
      match shortest m e with
      | Some (c, t) => let ds := digits c in Some ((if s then [45%N] else []) ++ layout ds (Z.of_nat (length ds) + t))
      | None => None end
  end.

(* ---------- float(str) for ASCII texts: [space] [sign] (inf | infinity | nan | digits [. digits] [e [sign] digits]) [space] ---------- *)
Inductive ptext := PFloat (f:spec_float) | PBad | PUnmodelled.
Definition is_space (c:N) : bool := (N.eqb c 32 || ((9 <=? c) && (c <=? 13)))%N.
Fixpoint lstrip (l:list N) : list N := match l with c :: r => if is_space c then lstrip r else l | [] => [] end.
Definition strip (l:list N) : list N := rev (lstrip (rev (lstrip l))).
Definition lower (c:N) : N := if ((65 <=? c) && (c <=? 90))%N then (c + 32)%N else c.
Definition is_digit (c:N) : bool := ((48 <=? c) && (c <=? 57))%N.
Fixpoint take_digits (l:list N) (acc:list N) : list N * list N := match l with c :: r => if is_digit c then take_digits r (c :: acc) else (rev acc, l) | [] => (rev acc, []) end.
Fixpoint int_of_digits (l:list N) (acc:Z) : Z := match l with c :: r => int_of_digits r (acc * 10 + (Z.of_N c - 48)) | [] => acc end.
Definition list_eqb (a b:list N) : bool := if list_eq_dec N.eq_dec a b then true else false.
Definition split_sign (l:list N) : bool * list N :=
  match l with c :: r => if N.eqb c 45 then (true, r) else if N.eqb c 43 then (false, r) else (false, l) | [] => (false, []) end.
(* digits [. digits] [e [sign] digits], at least one digit before the exponent; the decimal is normalised (12.50 is 125 * 10^-1) *)
Definition parse_number (neg:bool) (s2:list N) : ptext :=
  let '(ip, r1) := take_digits s2 [] in
  let '(fp, r2) := match r1 with c :: r => if N.eqb c 46 then take_digits r [] else ([], r1) | [] => ([], r1) end in
  match ip ++ fp with
  | [] => PBad
  | ds =>
      let finish (ex:Z) := let '(c, t) := strip10 (length ds) (int_of_digits ds 0) (ex - Z.of_nat (length fp)) in PFloat (float_of_decimal neg c t) in
      match r2 with
      | [] => finish 0
      | c :: r3 =>
          if N.eqb (lower c) 101 then
            let '(eneg, r4) := split_sign r3 in
            let '(ed, r5) := take_digits r4 [] in
            match ed, r5 with
            | _ :: _, [] => finish (if eneg then - int_of_digits ed 0 else int_of_digits ed 0)
            | _, _ => PBad end
          else PBad
      end
  end.
Definition parse_float_text (s:list N) : ptext :=
  if existsb (fun c => (127 <? c)%N || N.eqb c 95) s then PUnmodelled else           (* Unicode digits / spaces, underscores: outside the model *)
  let '(neg, s2) := split_sign (strip s) in
  let lw := map lower s2 in
  if list_eqb lw [105; 110; 102]%N || list_eqb lw [105; 110; 102; 105; 110; 105; 116; 121]%N then PFloat (S754_infinity neg)
  else if list_eqb lw [110; 97; 110]%N then PFloat S754_nan
  else parse_number neg s2.

(* ---------- complex(str) (Objects/complexobject.c complex_from_string_inner): [blank] [(] <float> | <float>j | <float><signed float>j | <float><sign>j |
   [sign]j [)] [blank]; PyOS_string_to_double reads the LONGEST prefix that is a real ---------- *)
Fixpoint starts_ci (pre l:list N) : option (list N) :=
  match pre, l with [], _ => Some l | a :: p, b :: r => if N.eqb a (lower b) then starts_ci p r else None | _ :: _, [] => None end.
(* the longest prefix of s that is a real: the value and what is left; None when no prefix is *)
Definition float_prefix (s:list N) : option (spec_float * list N) :=
  let '(neg, r) := split_sign s in
  match starts_ci [105; 110; 102; 105; 110; 105; 116; 121]%N r with Some rest => Some (S754_infinity neg, rest) | None =>
  match starts_ci [105; 110; 102]%N r with Some rest => Some (S754_infinity neg, rest) | None =>
  match starts_ci [110; 97; 110]%N r with Some rest => Some (S754_nan, rest) | None =>
    let '(ip, r1) := take_digits r [] in
    let '(fp, r2) := match r1 with c :: r' => if N.eqb c 46 then take_digits r' [] else ([], r1) | [] => ([], r1) end in
    match ip ++ fp with
    | [] => None
    | ds =>
        let mk (ex:Z) := let '(c, t) := strip10 (length ds) (int_of_digits ds 0) (ex - Z.of_nat (length fp)) in float_of_decimal neg c t in
        match r2 with
        | c :: r3 =>
            if N.eqb (lower c) 101 then
              let '(eneg, r4) := split_sign r3 in
              let '(ed, r5) := take_digits r4 [] in
              match ed with
              | _ :: _ => Some (mk (if eneg then - int_of_digits ed 0 else int_of_digits ed 0), r5)
              | [] => Some (mk 0, r2) end                (* "1e" / "1e+": the exponent is not part of the number *)
            else Some (mk 0, r2)
        | [] => Some (mk 0, []) end
    end end end end.
Inductive ctext := CComplex (re im:spec_float) | CBad | CUnmodelled.
Definition is_j (c:N) : bool := N.eqb c 106 || N.eqb c 74.
Definition parse_complex_text (s0:list N) : ctext :=
  if existsb (fun c => (127 <? c)%N || N.eqb c 95 || ((c <? 32)%N && negb (is_space c))) s0 then CUnmodelled else
  let s1 := lstrip s0 in
  let '(paren, s2) := match s1 with c :: r => if N.eqb c 40 then (true, lstrip r) else (false, s1) | [] => (false, s1) end in
  let finish (re im:spec_float) (rest:list N) : ctext :=
    let r1 := lstrip rest in
    let r2 := if paren then match r1 with c :: r => if N.eqb c 41 then Some (lstrip r) else None | [] => None end else Some r1 in
    match r2 with Some [] => CComplex re im | _ => CBad end in
  let zero := S754_zero false in let one (neg:bool) := S754_finite neg 4503599627370496 (-52) in
  match float_prefix s2 with
  | Some (z, r) =>
      match r with
      | c :: r' =>
          if N.eqb c 43 || N.eqb c 45 then
            match float_prefix r with
            | Some (y, c2 :: r2) => if is_j c2 then finish z y r2 else CBad
            | Some (_, []) => CBad
            | None => match r' with c2 :: r2 => if is_j c2 then finish z (one (N.eqb c 45)) r2 else CBad | [] => CBad end
            end
          else if is_j c then finish zero z r'
          else finish z zero r
      | [] => finish z zero []
      end
  | None =>
      let '(neg, r) := match s2 with c :: r' => if N.eqb c 43 then (false, r') else if N.eqb c 45 then (true, r') else (false, s2) | [] => (false, s2) end in
      match r with c :: r' => if is_j c then finish zero (one neg) r' else CBad | [] => CBad end
  end.

(* ---------- what the printer prints reads back: by construction of the search ---------- *)
Definition reads_back (x:spec_float) (r:option (Z * Z)) : Prop :=
  match r with Some (c, t) => 0 < c /\ c mod 10 <> 0 /\ SFcompare (float_of_decimal false c t) x = Some Eq | None => True end.
Lemma accept_reads_back x c t : reads_back x (accept x c t).
Proof.
  unfold accept. destruct (strip10 20 c t) as [c' t']. destruct ((0 <? c') && negb (c' mod 10 =? 0) && reads x c' t') eqn:Ra0; [|exact I].
  apply andb_true_iff in Ra0. destruct Ra0 as [Ra1 Ra]. apply andb_true_iff in Ra1. destruct Ra1 as [Rp Rm]. apply Z.ltb_lt in Rp. apply negb_true_iff in Rm. apply Z.eqb_neq in Rm.
  split; [exact Rp|]. split; [exact Rm|]. unfold reads in Ra. cbn [reads_back]. destruct (SFcompare (float_of_decimal false c' t') x) as [[]|]; try discriminate. reflexivity.
Qed.
Lemma first_try_reads_back x a b t : reads_back x (first_try x a b t).
Proof. unfold first_try. pose proof (accept_reads_back x a t) as A. destruct (accept x a t); [exact A|apply accept_reads_back]. Qed.
Lemma try_digits_reads_back x p q E k : reads_back x (try_digits x p q E k).
Proof. unfold try_digits. destruct (scaled p q (E - (k - 1))) as [num den]. apply first_try_reads_back. Qed.
Lemma bisect_reads_back fuel x p q E : forall lo hi best, reads_back x best -> reads_back x (bisect fuel x p q E lo hi best).
Proof.
  induction fuel as [|f IH]; intros lo hi best B; cbn [bisect]; auto.
  destruct (hi <? lo); auto. pose proof (try_digits_reads_back x p q E ((lo + hi) / 2)) as T.
  destruct (try_digits x p q E ((lo + hi) / 2)); apply IH; auto.
Qed.
(* whatever digits the printer settles on, reading them gives the number back *)
Theorem shortest_reads_back m e c t : shortest m e = Some (c, t) -> 0 < c /\ c mod 10 <> 0 /\ SFcompare (float_of_decimal false c t) (S754_finite false m e) = Some Eq.
Proof.
  unfold shortest. destruct (ratio_of m e) as [p q]. intros H.
  pose proof (bisect_reads_back 6 (S754_finite false m e) p q (ilog10 p q) 1 17 None I) as R. rewrite H in R. exact R.
Qed.
