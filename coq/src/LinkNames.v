(* built-in names, file modes / commands / whence words regenerated from the source:
   every key is the canonical (shortest) spelling of its number, so lookup by re-encoded literal is lookup by value (C08) *)
From Coq Require Import ZArith NArith List Bool Lia.
Import ListNotations.
Require Import Base Strings Num Builtins Interp.
Require GenNames GenIO.
Open Scope Z_scope.
Definition word_of (n:Z) : list N := map (fun d => nth (Z.to_nat d) s_digits 0%N) (encode n).
Definition all_canonical (ks:list Z) (ws:list (list N)) : bool :=
  (length ks =? length ws)%nat && forallb (fun kw => if list_eq_dec N.eq_dec (word_of (fst kw)) (snd kw) then true else false) (combine ks ws).
Lemma model_builtins_exist : forallb (fun n => existsb (Z.eqb n) GenNames.gen_builtin_names) builtin_names = true.
Proof. vm_compute. reflexivity. Qed.
Definition not_yet_modelled : list Z := filter (fun n => negb (existsb (Z.eqb n) builtin_names)) GenNames.gen_builtin_names.
Lemma builtin_names_distinct : NoDup GenNames.gen_builtin_names.
Proof. apply (NoDup_count_occ' Z.eq_dec). intros x Hx. repeat (destruct Hx as [<-|Hx]; [vm_compute; reflexivity|]). destruct Hx. Qed.
Lemma mode_words_canonical : all_canonical (map fst GenIO.gen_modes) GenIO.gen_mode_words = true. Proof. vm_compute. reflexivity. Qed.
Lemma command_words_canonical : all_canonical GenIO.gen_file_commands GenIO.gen_file_command_words = true. Proof. vm_compute. reflexivity. Qed.
Lemma whence_words_canonical : all_canonical (map fst GenIO.gen_whence) GenIO.gen_whence_words = true. Proof. vm_compute. reflexivity. Qed.
(* the documented meaning of the six mode words and the five command words *)
Lemma mode_table_documented : GenIO.gen_modes =
  [(3, [114; 98]%N); (-31, [119; 98]%N); (-7, [97; 98]%N); (251, [114; 43; 98]%N); (223, [119; 43; 98]%N); (199, [97; 43; 98]%N)].
Proof. reflexivity. Qed.
Lemma whence_table_documented : map snd GenIO.gen_whence = [0; 1]. Proof. reflexivity. Qed.
