(* DRAFT: C15-T1 - the search returns the unique matching file, reports ambiguity iff two matching files exist,
   and nothing otherwise; hence it does not depend on the order in which a directory is listed. *)
From Coq Require Import ZArith NArith List Bool Lia Permutation.
Import ListNotations.
Require Import ImpSearch.
Open Scope Z_scope.

Definition acc_of (ps:list (list (list N) * N)) : acc := match ps with [] => Zero | [(p, id)] => One p id | _ => Many end.
Lemma finish_acc_of ps : finish (acc_of ps) = classify ps.
Proof. destruct ps as [|[p i] [|q r]]; reflexivity. Qed.
Lemma acc_of_app_step ps nm qs :
  add (acc_of ps) nm (classify qs) = acc_of (ps ++ map (fun pi => (nm :: fst pi, snd pi)) qs).
Proof.
  destruct qs as [|[q i] [|q2 r]]; cbn [classify add map].
  - rewrite app_nil_r. reflexivity.
  - cbn [fst snd]. destruct ps as [|[p j] [|p2 r2]]; reflexivity.
  - destruct ps as [|[p j] [|p2 r2]]; destruct q2; reflexivity.
Qed.

Theorem search_is_classify : forall lits t, search lits t = classify (all_paths lits t).
Proof.
  induction lits as [|cur sub IH]; intros t; destruct t as [id|es]; cbn [search all_paths]; try reflexivity.
  rewrite <- finish_acc_of. f_equal.
  assert (G : forall ps, fold_left (fun a e => if lit_eqb (name_lit (fst e)) cur then add a (fst e) (search sub (snd e)) else a) es (acc_of ps)
                         = acc_of (ps ++ flat_map (fun e => if lit_eqb (name_lit (fst e)) cur then map (fun pi => (fst e :: fst pi, snd pi)) (all_paths sub (snd e)) else []) es)).
  { induction es as [|e es IHes]; intros ps; cbn [fold_left flat_map].
    - rewrite app_nil_r. reflexivity.
    - destruct (lit_eqb (name_lit (fst e)) cur).
      + rewrite IH, acc_of_app_step, IHes, app_assoc. reflexivity.
      + rewrite IHes. reflexivity. }
  apply (G []).
Qed.

(* consequences *)
Theorem found_is_unique lits t p id : search lits t = Found p id <-> all_paths lits t = [(p, id)].
Proof.
  rewrite search_is_classify. destruct (all_paths lits t) as [|[q j] [|x r]]; cbn [classify]; split; intros H; try discriminate H; try (inversion H; subst; reflexivity).
Qed.
Theorem not_found_iff lits t : search lits t = NotFound <-> all_paths lits t = [].
Proof. rewrite search_is_classify. destruct (all_paths lits t) as [|[q j] [|x r]]; cbn [classify]; split; intros H; try discriminate H; reflexivity. Qed.
Theorem ambiguous_iff lits t : search lits t = Ambiguous <-> (2 <= length (all_paths lits t))%nat.
Proof. rewrite search_is_classify. destruct (all_paths lits t) as [|[q j] [|x r]]; cbn [classify length]; split; intros H; try discriminate H; try lia; reflexivity. Qed.

(* every reported path really leads to that file and carries the requested literals, component by component *)
Fixpoint resolves (t:tree) (p:list (list N)) (id:N) : Prop :=
  match p, t with
  | [], TFile i => i = id
  | nm :: r, TDir es => exists c, In (nm, c) es /\ resolves c r id
  | _, _ => False end.
Theorem paths_sound : forall lits t p id, In (p, id) (all_paths lits t) -> resolves t p id /\ map name_lit p = map Some lits.
Proof.
  induction lits as [|cur sub IH]; intros t p id H; destruct t as [i|es]; cbn [all_paths] in H; try contradiction.
  - destruct H as [H|[]]. inversion H; subst. split; reflexivity.
  - apply in_flat_map in H. destruct H as ([nm c] & Hin & H). cbn [fst snd] in H.
    destruct (lit_eqb (name_lit nm) cur) eqn:E; [|contradiction]. apply in_map_iff in H. destruct H as ([q j] & Heq & Hq). cbn [fst snd] in Heq. inversion Heq; subst.
    destruct (IH _ _ _ Hq) as [R M]. split.
    + cbn [resolves]. exists c; auto.
    + cbn [map]. rewrite M. f_equal. unfold lit_eqb in E. destruct (name_lit nm); [apply Z.eqb_eq in E; subst; reflexivity|discriminate].
Qed.

(* the listing order of a directory does not matter at the top level: same verdict, and the same file when found *)
Lemma classify_perm a b : Permutation a b -> classify a = classify b \/ (classify a = Ambiguous /\ classify b = Ambiguous).
Proof.
  intros P. pose proof (Permutation_length P) as L.
  destruct a as [|x [|y a]], b as [|u [|v b]]; try discriminate L; auto.
  - apply Permutation_length_1 in P. subst. auto.
  - right. destruct x, u. destruct y, v. cbn [classify]. auto.
Qed.
Theorem listing_order_irrelevant cur sub es es' : Permutation es es' -> search (cur :: sub) (TDir es) = search (cur :: sub) (TDir es').
Proof.
  intros P. rewrite !search_is_classify. cbn [all_paths].
  set (f := fun e : list N * tree => if lit_eqb (name_lit (fst e)) cur then map (fun pi => (fst e :: fst pi, snd pi)) (all_paths sub (snd e)) else []).
  assert (Q : Permutation (flat_map f es) (flat_map f es')).
  { induction P; cbn [flat_map]; auto.
    - apply Permutation_app_head; auto.
    - rewrite !app_assoc. apply Permutation_app_tail. apply Permutation_app_comm.
    - eapply Permutation_trans; eauto. }
  destruct (classify_perm _ _ Q) as [E|[A B]]; congruence.
Qed.

Example search_example :
  let d := [12593%N] in let n := [12596%N] in
  search [0; 1] (TDir [(d, TDir [(n, TFile 7)]); (n, TFile 8)]) = Found [d; n] 7 /\
  search [0] (TDir [(d, TFile 1); ([32;12593;32]%N, TFile 2)]) = Ambiguous /\
  search [0; 1] (TDir [(d, TFile 1)]) = NotFound.
Proof. repeat split. Qed.

Print Assumptions search_is_classify. Print Assumptions found_is_unique. Print Assumptions ambiguous_iff.
Print Assumptions paths_sound. Print Assumptions listing_order_irrelevant.
