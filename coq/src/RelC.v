(* DRAFT proofs for C03-T1 on the real model, part C: thunk-level lemma, induction, and the theorem about main *)
From Coq Require Import ZArith NArith List Bool FMapPositive Lia.
Import ListNotations.
Require Import Base Strings Num Builtins Interp Machine Spec HeapFacts Refine1 Refine2 Refine3 Refine4 RelA RelB.

Section Main.
Variable hole : ast -> ast -> Prop.
Notation hrel := (hrel hole). Notation crel := (crel hole). Notation untouched := (untouched hole).
Notation arel := (arel hole).

Lemma RC_step n : (forall c c', crel c c' -> P hole n c c') -> RC hole (S n).
Proof. intros HR c c' R ip h h' w hf wf r d Hb Hh Hi Hu. cbn [bs] in *. eapply HR; eauto. Qed.

Lemma RA_step n : RA hole n -> (forall c c', crel c c' -> P hole n c c') -> RA hole (S n).
Proof.
  intros HA HR ip h h' w t hf wf r D Hb Hh Hi [cl [G C]] Hn Hu.
  assert (Hun : uncached h t) by (exists cl; auto).
  destruct (mono_thunk _ _ _ _ _ _ _ _ _ Hb Hun Hn Hi) as (Lf & If & Cf & _).
  cbn [bs] in *. rewrite G in Hb.
  destruct (hrel_get _ _ _ _ _ Hh G) as (cl' & G' & Rc). rewrite G'.
  (* the cell of an evaluated thunk cannot be a marked one: it ends up cached *)
  assert (NotHole : forall hx c1, hle hx hf -> get hx t = Some c1 -> ~ holeL hole (c_ast c1)).
  { intros hx c1 [_ Lx] G1 Hh1. destruct (Lx _ _ G1) as (c2 & G2 & Ea & _ & _ & _).
    destruct Cf as (c3 & r3 & G3 & C3). rewrite G2 in G3; inversion G3; subst c3.
    rewrite <- Ea in Hh1. destruct (Hu _ _ G2 Hh1) as [Cn _]. congruence. }
  destruct Rc as (Ee & Ec & Ep & [Ra|(Rh & _ & _)]); [|exfalso; eapply (NotHole h cl); eauto; eexists; eauto].
  destruct (run (bs n) (t::ip) h w (interpret (c_ast cl) (c_env cl))) as [h1 w1 r1 d0| |] eqn:Hrun; try discriminate.
  assert (Hi' : inv h (t::ip)). { destruct Hi as (W & S & I). split; [|split]; auto. intros x [<-|Hx]; auto. }
  destruct (mono_run _ _ _ _ _ _ _ _ _ Hrun Hi') as (L1 & I1).
  assert (U1 : uncached h1 t) by (destruct I1 as (_ & _ & I1); apply I1; left; auto).
  (* whatever happens next, h1 <= hf *)
  assert (L1f : hle h1 hf).
  { destruct r1 as [v1|e1]; [|inversion Hb; subst; apply hle_set_cache; auto].
    destruct v1 as [z|fl|b|s|s|l0|dct|f|i|sp l0| |t'|cr ci]; try (inversion Hb; subst; apply hle_set_cache; auto).
    destruct (get h1 t') as [c'|] eqn:G1; [|discriminate].
    destruct (c_cache c') as [rc|] eqn:C1. { inversion Hb; subst; apply hle_set_cache; auto. }
    destruct (existsb (Pos.eqb t') (t::ip)) eqn:Ex; [discriminate|].
    destruct (bs n (t::ip) h1 w1 (TThunk t')) as [h2 w2 r2 d2| |] eqn:Hb2; try discriminate. inversion Hb; subst.
    destruct (mono_thunk _ _ _ _ _ _ _ _ _ Hb2 (ex_intro _ c' (conj G1 C1)) (existsb_false_notin _ _ Ex) I1) as (L2 & I2 & _ & _).
    eapply hle_trans; [exact L2|apply hle_set_cache]. destruct I2 as (_ & _ & I2). apply I2; left; auto. }
  assert (Hrun' := Hrun). rewrite Ee in Hrun'.
  destruct (HR _ _ (interpret_rel hole _ _ (c_env cl') Ra) _ _ _ _ _ _ _ _ Hrun' Hh Hi' (untouched_mono _ _ _ L1f Hu)) as (h1' & Hr1' & Hh1).
  clear Hrun'. rewrite Hr1'.
  assert (SetOK : forall h2 h2' r2, hrel h2 h2' -> hle h2 hf -> uncached h2 t -> hrel (set_cache h2 t r2) (set_cache h2' t r2)).
  { intros h2 h2' r2 Hh2 L2 [c2 [G2 C2]]. destruct (hrel_get _ _ _ _ _ Hh2 G2) as (c2' & G2' & Rc2).
    assert (Rc2' := Rc2). destruct Rc2 as (_ & _ & _ & [Ra2|(Rh2 & _ & _)]); [|exfalso; eapply (NotHole h2 c2); eauto; eexists; eauto].
    eapply hrel_set; eauto. }
  destruct r1 as [v1|e1]; [|inversion Hb; subst; eexists; split; [reflexivity|apply SetOK; auto]].
  destruct v1 as [z|fl|b|s|s|l0|dct|f|i|sp l0| |t'|cr ci]; try (inversion Hb; subst; eexists; split; [reflexivity|apply SetOK; auto]).
  destruct (get h1 t') as [c'|] eqn:G1; [|discriminate].
  destruct (hrel_get _ _ _ _ _ Hh1 G1) as (c'' & G1' & _ & Ec1 & _). rewrite G1', <- Ec1.
  destruct (c_cache c') as [rc|] eqn:C1. { inversion Hb; subst. eexists; split; [reflexivity|apply SetOK; auto]. }
  destruct (existsb (Pos.eqb t') (t::ip)) eqn:Ex; [discriminate|].
  destruct (bs n (t::ip) h1 w1 (TThunk t')) as [h2 w2 r2 d2| |] eqn:Hb2; try discriminate. inversion Hb; subst.
  destruct (mono_thunk _ _ _ _ _ _ _ _ _ Hb2 (ex_intro _ c' (conj G1 C1)) (existsb_false_notin _ _ Ex) I1) as (L2 & I2 & _ & _).
  assert (U2 : uncached h2 t) by (destruct I2 as (_ & _ & I2); apply I2; left; auto).
  assert (L2f : hle h2 (set_cache h2 t r)) by (apply hle_set_cache; auto).
  destruct (HA _ _ _ _ _ _ _ _ _ Hb2 Hh1 I1 (ex_intro _ c' (conj G1 C1)) (existsb_false_notin _ _ Ex) (untouched_mono _ _ _ L2f Hu)) as (h2' & Hb2' & Hh2).
  rewrite Hb2'. eexists; split; [reflexivity|apply SetOK; auto].
Qed.

Theorem bs_relational n : RA hole n /\ RC hole n /\ (forall c c', crel c c' -> P hole n c c').
Proof.
  induction n as [|n (A & C & R)].
  - assert (A0 : RA hole 0) by (intros ip h h' w t hf wf r d Hb; discriminate).
    assert (C0 : RC hole 0) by (intros c c' Rc ip h h' w hf wf r d Hb; discriminate).
    split; [exact A0|split; [exact C0|apply Rel; auto]].
  - assert (A1 : RA hole (S n)) by (apply RA_step; auto). assert (C1 : RC hole (S n)) by (apply RC_step; auto).
    split; [exact A1|split; [exact C1|apply Rel; auto]].
Qed.

(* C03-T1: two programs equal except at marked argument positions.  If the first run never evaluates nor inspects
   the marked sub-expressions, the second run gives the same result, the same world, and a related heap. *)
Theorem hole_irrelevant fuel prog prog' stdin hf wf r d :
  arel prog prog' -> spec_main fuel prog stdin = Done hf wf r d -> untouched hf ->
  exists hf', spec_main fuel prog' stdin = Done hf' wf r d /\ hrel hf hf'.
Proof.
  intros Ra Hs Hu. unfold spec_main in *.
  assert (H0 : hrel heap0 heap0).
  { unfold RelA.hrel, heap0; cbn. repeat split; auto; intros x; unfold get; cbn; rewrite PositiveMap.gempty; exact I. }
  destruct (hrel_alloc hole heap0 heap0 prog prog' {| funs := []; args := [] |} H0 (or_introl Ra)) as [Hh Es].
  destruct (alloc heap0 prog {| funs := []; args := [] |}) as [h t] eqn:Al.
  destruct (alloc heap0 prog' {| funs := []; args := [] |}) as [h' t'] eqn:Al'. cbn [fst snd] in *. subst t'.
  destruct (bs_relational fuel) as (_ & HC & _).
  eapply HC; eauto. apply c_same.
  assert (h = fst (alloc heap0 prog {| funs := []; args := [] |})) by (rewrite Al; auto). subst h.
  apply inv_alloc. split; [|split].
  - intros x _. unfold get; simpl. apply PositiveMap.gempty.
  - intros x cl v Gx. unfold get in Gx; simpl in Gx. rewrite PositiveMap.gempty in Gx. discriminate.
  - intros x [].
Qed.
End Main.
Print Assumptions hole_irrelevant.
