Require Import Files FilesTotal.
From Coq Require Import ExtrOcamlBasic.
Extraction "fmodel.ml" history xhistory.
