Require Import Files.
From Coq Require Import ExtrOcamlBasic.
Extraction "fmodel.ml" history.
