(* DRAFT: interpret.py (interpret, proc_functional application), main.py (formatter, do_IO), recursive_strict, as_key *)
From Coq Require Import ZArith NArith List Bool FMapPositive.
Import ListNotations.
Require Import Base Float Strings Num Builtins.
Open Scope Z_scope.

Definition rnth {A} (l:list A) (r:Z) : option A := py_nth l (- r - 1).
Fixpoint allocs_k (l:list ast) (e:env) (acc:list value) (k:list value -> Comp value) : Comp value :=
  match l with [] => k acc | a :: r => Alloc a e (fun t => allocs_k r e (acc ++ [VThunk t]) k) end.

Definition interpret (a:ast) (e:env) : Comp value :=
  match a with
  | Lit n _ => Ret (VInt n)
  | FunRef r sp => match rnth (funs e) r with Some f => Ret (VFun (FClo f)) | None => raise c_range sp end
  | ArgRef ia r sp =>
      match rnth (args e) r with
      | None => raise c_range sp
      | Some argv =>
          Alloc ia e (fun t => x <- force (VThunk t) ;; check_type sp [x] is_int ;;;
            match x with
            | VInt i => if (0 <=? i) && (i <? Z.of_nat (length argv))
                        then match nth_error argv (Z.to_nat i) with Some v => Ret v | None => raise c_range sp end
                        else raise c_range sp
            | _ => raise c_type sp end)
      end
  | FunDef b _ => NewClo b e (fun f => Ret (VFun (FClo f)))
  | FunCall f argl sp =>
      Alloc f e (fun tf => allocs_k argl e [] (fun ts => fe <- functional sp (VThunk tf) true ;; call (PApply fe sp ts)))
  end.

(* ---------- strings ---------- *)
Fixpoint join (sep:list N) (l:list (list N)) : list N :=
  match l with [] => [] | [x] => x | x :: r => x ++ sep ++ join sep r end.
Definition strs_of (l:list value) : list (list N) := map (fun v => match v with VStr s => s | _ => [] end) l.
Fixpoint lex_lt (a b:list N) : bool :=
  match a, b with [], [] => false | [], _ => true | _, [] => false | x :: r, y :: s => if N.ltb x y then true else if N.ltb y x then false else lex_lt r s end.
Definition pair_le (p q : list N * list N) : bool :=
  if lex_lt (fst p) (fst q) then true else if lex_lt (fst q) (fst p) then false else negb (lex_lt (snd q) (snd p)).
Fixpoint insert_sorted (p:list N * list N) (l:list (list N * list N)) :=
  match l with [] => [p] | q :: r => if pair_le p q then p :: l else q :: insert_sorted p r end.
Definition sort_pairs (l:list (list N * list N)) := fold_right insert_sorted [] l.

(* ---------- the run-time chosen generators ---------- *)
Definition apply_body (e:evalr) (sp:span) (argv:list value) : Comp value :=
  match e with
  | EBuiltin n => builtin n sp argv
  | EBool b => check_arity sp (length argv) [2%nat] ;;;
      match argv with [x; y] => Ret (if b then x else y) | _ => raise c_value sp end
  | EDict d => check_arity sp (length argv) [1%nat] ;;;
      match argv with [a] => k <- call (PKey a) ;; match dict_lookup d k with Some v => Ret v | None => raise c_notfound sp end | _ => raise c_value sp end
  | ESeq sq =>
      vs <- match_arguments sp argv is_int [1%nat] ;;
      match vs, sq with
      | [VInt i], VList l | [VInt i], VErr _ l => match py_nth l i with Some v => Ret v | None => raise c_range sp end
      | [VInt i], VStr s => match py_nth s i with Some c => Ret (VStr [c]) | None => raise c_range sp end
      | [VInt i], VBytes s => match py_nth s i with Some c => Ret (VBytes [c]) | None => raise c_range sp end
      | [VInt i], VComplex re im => if i =? 0 then Ret (VFloat re) else if i =? 1 then Ret (VFloat im) else raise c_value sp
      | _, _ => raise c_type sp end
  | EFun (FFile hd) => file_call hd sp argv
  | EFun (FClo f) =>
      AllocBody f argv (fun t => Ret (VThunk t))
  | EFun (FModule name) => module_body name sp argv
  | EFun (FCodec _ sc w b) => codec_body sc w b sp argv
  | EFun (FPipe _ es) =>
      (fix go (es:list evalr) (argv:list value) : Comp value :=
         match es with
         | [] => match argv with a :: _ => Ret a | [] => raise c_value sp (* repaired: host IndexError *) end
         | e1 :: r => x <- call (PApply e1 sp argv) ;; go r [x] end) es argv
  | EFun (FCollect _ e1) =>
      vs <- match_arguments sp argv (orp is_list is_err) [1%nat] ;;
      match vs with [VList l] | [VErr _ l] => call (PApply e1 sp l) | _ => raise c_type sp end
  | EFun (FSpread _ e1) => call (PApply e1 sp [VList argv])
  end.

Definition jamo (n:Z) : list N := map (fun d => nth (Z.to_nat d) s_digits 0%N) (encode n).
Definition s_module (name:list Z) : list N :=
  s_mod_prefix ++ flat_map (fun k => 32%N :: jamo k) (tl name) ++ [62%N].
Definition hexd (d:N) : N := if N.ltb d 10 then (48 + d)%N else (55 + d)%N.
Definition format_body (v:value) (flag:bool) : Comp value :=
  x <- force v ;;
  match x with
  | VIO _ =>
      arg <- call (PDoIO x) ;; s <- call (PFormat arg true) ;;
      match s with VStr t => Ret (VStr (if flag then s_io_open ++ t ++ s_io_close else t)) | _ => Ret s end
  | VList l => ss <- map_call (fun i => PFormat i flag) l ;; Ret (VStr ([91%N] ++ join s_sep (strs_of ss) ++ [93%N]))
  | VDict d =>
      ks <- map_call (fun i => PFormat i flag) (map fst d) ;; vs <- map_call (fun i => PFormat i flag) (map snd d) ;;
      let pairs := sort_pairs (combine (strs_of ks) (strs_of vs)) in
      Ret (VStr ([123%N] ++ join s_sep (map (fun p => fst p ++ s_colon ++ snd p) pairs) ++ [125%N]))
  | VErr _ l => ss <- map_call (fun i => PFormat i flag) l ;; Ret (VStr (s_exc_open ++ join s_sep (strs_of ss) ++ s_exc_close))
  | VInt n => Ret (VStr (str_of_int n))
  | VFloat f => Ret (VStr (show_float f))
  | VComplex re im => Ret (VStr (show_complex re im))
  | VBool b => Ret (VStr (str_of_bool b))
  | VStr s => Ret (VStr ([39%N] ++ s ++ [39%N]))
  | VBytes s => Ret (VStr ([98%N; 39%N] ++ flat_map (fun b => [92%N; 120%N; hexd (N.div b 16); hexd (N.modulo b 16)]) s ++ [39%N]))
  | VNil => Ret (VStr s_nil)
  | VFun (FClo f) => CloDepth f (fun d => Ret (VStr (s_clo_a ++ str_of_int (Z.of_nat d) ++ s_clo_b)))
  | VFun (FFile _) => Ret (VStr [60; 54028; 51068; 32; 51217; 44540; 32; 32; 54632; 49688; 62]%N)
  | VFun (FModule name) => Ret (VStr (s_module name))
  | VFun (FCodec _ _ _ _) => Ret (VStr s_codec)
  | VFun (FPipe _ _) => Ret (VStr s_pipe) | VFun (FCollect _ _) => Ret (VStr s_collect) | VFun (FSpread _ _) => Ret (VStr s_spread)
  | VThunk _ => Ret (VStr [])
  end.

Definition deep_body (v:value) : Comp value :=
  x <- force v ;;
  match x with
  | VList l => ys <- map_call PDeep l ;; Ret (VList ys)
  | VDict d => ys <- map_call PDeep (map snd d) ;; Ret (VDict (combine (map fst d) ys))
  | VErr s l => ys <- map_call PDeep l ;; Ret (VErr s ys)
  | _ => Ret x end.

Definition key_body (v:value) : Comp value :=
  x <- force v ;;
  match x with
  | VList l => ks <- map_call PKey l ;; Ret (VList ks)
  | VErr _ l => ks <- map_call PKey l ;; Ret (VErr [] ks)
  | VDict d => ks <- map_call PKey (map snd d) ;; Ret (VDict (combine (map fst d) ks))
  | VIO (IOPrint s) => Ret x
  | VIO (IOReturn w) => k <- call (PKey w) ;; Ret (VIO (IOReturn k))
  | VIO (IOBind sp m f h argv) => ks <- map_call PKey argv ;; Ret (VIO (IOBind sp m f h ks))      (* the action itself, its arguments replaced by their keys: comparable and still executable *)
  | _ => Ret x end.

(* proc_functional(metadata, f)(metadata, argv) of a continuation / handler kept by ㄱㄹ: only now is it required to be a function (general_callable
   is off) and, when it is a literal, looked up among the built-ins *)
Definition late_ok (e:evalr) : bool :=
  match e with EBuiltin n => existsb (Z.eqb n) builtin_names | EFun _ => true | _ => false end.
Definition late_apply (e:evalr) (sp:span) (argv:list value) : Comp value :=
  if late_ok e then call (PApply e sp argv) else raise (match e with EBuiltin _ => c_notfound | _ => c_type end) sp.

Definition doio_body (v:value) : Comp value :=
  match v with
  | VIO i =>
      r <- match i with
           | IOInput => World WRead Ret
           | IOPrint s => World (WPrint s) Ret
           | IOReturn w => Ret w
           | IOOpen sp p m => World (WOpen sp p m) Ret
           | IOFile sp hd o => World (WFile sp hd o) Ret
           | IOBind sp m f h _ =>
               Catch (x <- call (PDoIO m) ;; Ret (VList [x]))
                     (fun e => match h with
                               | None => Raise e
                               | Some rej => r <- late_apply rej sp [VErr (e_spans e) (e_vals e)] ;; r <- force r ;; check_type sp [r] is_io ;;; Ret r end)
                     (fun w => match w with
                               | VList [x] => r <- late_apply f sp [x] ;; r <- force r ;; check_type sp [r] is_io ;;; Ret r
                               | _ => Ret w end)
           end ;;
      x <- force r ;; call (PDoIO x)
  | _ => Ret v
  end.

Definition proc_body (p:proc) : Comp value :=
  match p with
  | PApply e sp argv => apply_body e sp argv
  | PFormat v flag => format_body v flag
  | PDeep v => deep_body v
  | PKey v => key_body v
  | PDoIO v => doio_body v
  end.
