(* Specification side of C01 and the verified sweep (definitions and lemmas only) *)
From Coq Require Import NArith ZArith List Bool Lia.
Import ListNotations.
Require Import Base Lex Jamo.
Require GenParse.
Open Scope N_scope.

Definition is_hangul (c:N) : bool :=
  in_r c 0x1100 0x11FF || in_r c 0x302E 0x302F || in_r c 0x3131 0x318E || in_r c 0xA960 0xA97C ||
  in_r c 0xAC00 0xD7AF || in_r c 0xD7B0 0xD7C6 || in_r c 0xD7CB 0xD7FB || in_r c 0xFFA1 0xFFBE ||
  in_r c 0xFFC2 0xFFC7 || in_r c 0xFFCA 0xFFCF || in_r c 0xFFD2 0xFFD7 || in_r c 0xFFDA 0xFFDC.
Fixpoint lookup (t : list (N * list N)) (c:N) : option (list N) :=
  match t with [] => None | (k,v)::r => if k =? c then Some v else lookup r c end.
Definition spec_letter (c:N) : list N := match lookup consonant_table c with Some v => v | None => [] end.
Definition spec_char (c:N) : list N :=
  if negb (is_hangul c) then [32]
  else if in_r c 0xAC00 0xD7A3 then spec_letter (0x1100 + (c - 0xAC00) / 588)
  else spec_letter c.
Definition free (c:N) : bool := in_r c 0xD7A4 0xD7AF.   (* unassigned code points inside the listed block: spec undecided *)
(* merge runs of separators into one separator *)
Fixpoint collapse (l:list N) : list N :=
  match l with
  | [] => []
  | x :: r => if (x =? 32) && (match r with y :: _ => y =? 32 | [] => false end) then collapse r else x :: collapse r
  end.
Definition leqb (a b : list N) : bool := if list_eq_dec N.eq_dec a b then true else false.
Definition ok (c:N) : bool := free c || leqb (collapse (normalize c)) (spec_char c).

Definition sweep (n:N) (f:N->bool) : N * bool := N.iter n (fun p => (N.succ (fst p), snd p && f (fst p))) (0, true).
Lemma sweep_fst n f : fst (sweep n f) = n.
Proof. unfold sweep. induction n using N.peano_ind. reflexivity. rewrite N.iter_succ. simpl. rewrite IHn. reflexivity. Qed.
Lemma sweep_spec n f : snd (sweep n f) = true -> forall c, c < n -> f c = true.
Proof.
  induction n using N.peano_ind; intros H c Hc. lia.
  unfold sweep in H. rewrite N.iter_succ in H. simpl in H. fold (sweep n f) in H. rewrite sweep_fst in H.
  apply andb_true_iff in H. destruct H as [H1 H2].
  destruct (N.eq_dec c n) as [->|Hne]; auto. apply IHn; auto. lia.
Qed.
(* above the Basic Multilingual Plane nothing is Hangul: decided symbolically, so the exhaustive sweep stops at 0x10000 *)
Lemma and_high lo hi c : hi < 0x10000 -> 0x10000 <= c -> (lo <=? c) && (c <=? hi) = false.
Proof. intros. destruct (N.leb_spec c hi); [lia|]. apply andb_false_r. Qed.
Lemma eqb_high k c : k < 0x10000 -> 0x10000 <= c -> (c =? k) = false.
Proof. intros. apply N.eqb_neq. lia. Qed.
Lemma high_is_separator c : 0x10000 <= c -> ok c = true.
Proof.
  intros H. unfold ok, free, normalize, nfd, spec_char, is_hangul, in_r.
  rewrite !and_high by (try exact H; reflexivity). cbn [negb andb orb flat_map app].
  unfold GenParse.gen_normalize_char. rewrite !and_high by (try exact H; reflexivity). cbn [existsb].
  rewrite !eqb_high by (try exact H; reflexivity). reflexivity.
Qed.
(* used by the failing-input search when the theorem below does not check *)
Definition bad_points (n:N) (f:N->bool) : list N :=
  snd (N.iter n (fun p => (N.succ (fst p), if f (fst p) then snd p else fst p :: snd p)) (0, [])).


(* ---- the TypeScript twin (pbhhg_js/src/parse.ts, regenerated into Gen/GenTS.v): no NFD, one UTF-16 unit at a time ---- *)
Require GenTS.
Definition ok_ts (c:N) : bool := free c || leqb (collapse (GenTS.ts_normalize_char c)) (spec_char c).
(* a surrogate half is a separator, so an astral character (two halves) collapses to one separator: same as spec_char *)
Definition surrogate (c:N) : bool := in_r c 0xD800 0xDFFF.

(* ---- shape of the table entries: digit* (sp (ieung|hieuh) digit* )*  (used by the tokenizer / parser theorems) ---- *)
Definition is_digit (c:N) : bool := existsb (N.eqb c) GenParse.gen_digits.
Fixpoint word_ok (l:list N) : bool :=
  match l with
  | [] => true
  | 32 :: c :: r => ((c =? 12615) || (c =? 12622)) && word_ok r
  | c :: r => is_digit c && word_ok r
  end.
