(* DRAFT proofs: machine implements spec - part 4: thunk-level lemma A, induction, top-level theorem *)
From Coq Require Import ZArith NArith List Bool FMapPositive Lia.
Import ListNotations.
Require Import Base Strings Builtins Interp Machine Spec HeapFacts Refine1 Refine2 Refine3.

Lemma step_tail h q u t' parent rest w :
  forall d, exists d1, stepn (mk h q (Fr (Some u) (Ret (VThunk t')) [] :: parent :: rest) w d)
                       = inl (mk h (PositiveMap.add t' u q) (new_frame h t' :: parent :: rest) w d1).
Proof. intros d. eexists. reflexivity. Qed.
Ltac bnd := cbn [length]; lia.
Lemma step_pop h q u r parent rest w : rstrict r ->
  forall d, exists d1, stepn (mk h q (Fr (Some u) (retc r) [] :: parent :: rest) w d)
                       = inl (mk (resolve (S (Pos.to_nat (next_t h))) h q u r) q (deliver_res parent r :: rest) w d1).
Proof.
  intros Hr d. eexists. destruct r as [v|e]; [|reflexivity].
  destruct v; try reflexivity. simpl in Hr. discriminate.
Qed.
Lemma start_uncached h u cl : get h u = Some cl -> c_cache cl = None -> new_frame h u = Fr (Some u) (interpret (c_ast cl) (c_env cl)) [].
Proof. intros G C. unfold new_frame, start, Fr. rewrite G, C. reflexivity. Qed.
Lemma start_cached h u cl r : get h u = Some cl -> c_cache cl = Some r -> new_frame h u = Fr (Some u) (retc r) [].
Proof. intros G C. unfold new_frame, start, Fr. rewrite G, C. destruct r; reflexivity. Qed.

Lemma inv_set h u ip r : inv h (u::ip) -> ~ In u ip -> rstrict r -> inv (set_cache h u r) ip.
Proof. intros (W & S & I) Hn Hr. split; [|split]. apply wfh_set; auto. apply strict_set; auto. apply ipun_set; auto. Qed.

Lemma B_A n : stmtA n -> stmtB n -> stmtA (S n).
Proof.
  intros HA HB ip h w u h' w' r D Hbs [cl [G C]] Hnin Hinv.
  assert (Hun : uncached h u) by (exists cl; auto).
  cbn [bs] in Hbs. rewrite G in Hbs.
  destruct (run (bs n) (u::ip) h w (interpret (c_ast cl) (c_env cl))) as [h1 w1 r1 d0| |] eqn:Hrun; try discriminate.
  assert (Hinv' : inv h (u::ip)). { destruct Hinv as (W & S & I). split; [|split]; auto. intros x [<-|Hx]; auto. }
  destruct (HB _ _ _ _ _ _ _ _ Hrun Hinv') as (GB & L1 & I1).
  assert (U1 : uncached h1 u) by (destruct I1 as (_ & _ & I1); apply I1; left; auto).
  (* common prefix of the machine run: the frame of u reaches its final Ret/Raise *)
  assert (Prefix : forall q parent rest l, chain q u l -> incl l ip -> Iq q h (u::ip) ->
            exists q1, reach (S (S (length rest)) + d0) h q (new_frame h u :: parent :: rest) w h1 q1 (Fr (Some u) (retc r1) [] :: parent :: rest) w1
              /\ Iq q1 h1 (u::ip) /\ (forall x, In x (u::ip) -> rlook q1 x = rlook q x) /\ chain q1 u l).
  { intros q parent rest l Hch Hincl HIq. rewrite (start_uncached _ _ _ G C).
    destruct (GB q (Some u) [] (parent :: rest) HIq) as (q1 & R1 & HI1 & Hl1). exists q1. split; [exact R1|split; [auto|split; auto]].
    eapply chain_same; eauto. intros x Hx. apply Hl1. destruct Hx as [<-|Hx]; [left|right]; auto. }
  (* the strict / error completion, shared by several cases *)
  assert (Strict : rstrict r1 -> Done (set_cache h1 u r1) w1 r1 d0 = Done h' w' r D ->
     (forall q parent rest l, chain q u l -> NoDup (u::l) -> incl l ip -> Iq q h (u::ip) ->
        exists q', reach (S (S (length rest)) + D) h q (new_frame h u :: parent :: rest) w (set_caches h' l r) q' (deliver_res parent r :: rest) w'
          /\ Iq q' h' ip /\ (forall x, In x ip -> rlook q' x = rlook q x))
     /\ hle h h' /\ inv h' ip /\ cached h' u /\ rstrict r).
  { intros Hr1 E. inversion E; subst. split; [|split; [|split; [|split]]]; auto.
    - intros q parent rest l Hch Hnd Hincl HIq. destruct (Prefix q parent rest l Hch Hincl HIq) as (q1 & R1 & HI1 & Hl1 & Hch1).
      exists q1. split; [|split].
      + eapply reach_trans; [exact R1|]. eapply reach_step; [bnd|apply step_pop; auto|].
        rewrite (resolve_chain _ _ _ Hch1).
        2:{ destruct I1 as (W1 & _ & Ip1). eapply fuel_ok; eauto. intros x Hx. apply Ip1. destruct Hx as [<-|Hx]; [left|right]; auto. }
        apply reach_refl; bnd.
      + apply Iq_drop; auto.
      + intros x Hx. apply Hl1. right; auto.
    - eapply hle_trans; [exact L1|apply hle_set_cache; auto].
    - apply inv_set; auto.
    - apply cached_set; auto. }
  destruct r1 as [v1|e1]; [|apply Strict; [simpl; auto|exact Hbs]].
  destruct v1 as [z|fl|b|s|s|l0|dct|f|i|sp l0| |t'|cr ci]; try (apply Strict; [simpl; reflexivity|exact Hbs]).
  (* tail return *)
  destruct (get h1 t') as [cl'|] eqn:G'; [|discriminate].
  destruct I1 as (W1 & S1 & Ip1).
  destruct (c_cache cl') as [rc|] eqn:C'.
  - (* cached target *)
    inversion Hbs; subst. clear Hbs.
    assert (Hrc : rstrict r). { destruct r as [v|e]; simpl; auto. eapply S1; eauto. }
    assert (Hne : forall x, In x (u::ip) -> x <> t').
    { intros x Hx ->. destruct (Ip1 _ Hx) as [c0 [G0 C0]]. rewrite G' in G0. inversion G0; subst. congruence. }
    split; [|split; [|split; [|split]]]; auto.
    + intros q parent rest l Hch Hnd Hincl HIq. destruct (Prefix q parent rest l Hch Hincl HIq) as (q1 & R1 & HI1 & Hl1 & Hch1).
      set (q2 := PositiveMap.add t' u q1).
      assert (Hlook2 : forall x, In x (u::ip) -> rlook q2 x = rlook q1 x).
      { intros x Hx. unfold q2, rlook. apply PositiveMap.gso. apply Hne; auto. }
      assert (Hch2 : chain q2 t' (u::l)).
      { eapply ch_cons. unfold q2, rlook. apply PositiveMap.gss.
        eapply chain_same; [exact Hch1|]. intros x Hx. apply Hlook2. destruct Hx as [<-|Hx]; [left|right]; auto. }
      exists q2. split; [|split].
      * eapply reach_trans; [exact R1|]. eapply reach_step; [bnd|apply step_tail|].
        rewrite (start_cached _ _ _ _ G' C'). eapply reach_step; [bnd|apply step_pop; auto|].
        rewrite (resolve_chain _ _ _ Hch2).
        2:{ assert (length (u::l) < Pos.to_nat (next_t h1))%nat; [|lia].
            apply (fuel_ok_gen h1 t' (u::l)); auto.
            - constructor; auto. intros K. eapply (Hne t'); auto. destruct K as [<-|K]; [left|right]; auto.
            - intros x [<-|Hx]; [congruence|]. destruct (Ip1 x) as [c0 [G0 _]]; [destruct Hx as [<-|Hx]; [left|right]; auto|congruence]. }
        cbn [set_caches]. rewrite (set_cache_idem _ _ _ _ G' C'). apply reach_refl; bnd.
      * apply Iq_drop; auto. intros a b L. unfold q2, rlook in L. destruct (Pos.eq_dec t' a) as [<-|Na].
        -- left. exists cl', r. auto.
        -- rewrite PositiveMap.gso in L by auto. apply HI1 in L. exact L.
      * intros x Hx. rewrite Hlook2 by (right; auto). apply Hl1. right; auto.
    + eapply hle_trans; [exact L1|apply hle_set_cache; auto].
    + apply inv_set; auto. repeat split; auto.
    + apply cached_set; auto.
  - (* uncached target: recursive evaluation *)
    destruct (existsb (Pos.eqb t') (u::ip)) eqn:Ex; [discriminate|].
    destruct (bs n (u::ip) h1 w1 (TThunk t')) as [h2 w2 r2 d2| |] eqn:Hb2; try discriminate.
    inversion Hbs; subst. clear Hbs.
    assert (Hnin' : ~ In t' (u::ip)) by (apply existsb_false_notin; auto).
    assert (Hun' : uncached h1 t') by (exists cl'; auto).
    destruct (HA _ _ _ _ _ _ _ _ Hb2 Hun' Hnin' (conj W1 (conj S1 Ip1))) as (GA & L2 & I2 & C2 & R2).
    destruct I2 as (W2 & S2 & Ip2).
    assert (U2 : uncached h2 u) by (apply Ip2; left; auto).
    split; [|split; [|split; [|split]]]; auto.
    + intros q parent rest l Hch Hnd Hincl HIq. destruct (Prefix q parent rest l Hch Hincl HIq) as (q1 & R1 & HI1 & Hl1 & Hch1).
      set (q2 := PositiveMap.add t' u q1).
      assert (Hlook2 : forall x, In x (u::ip) -> rlook q2 x = rlook q1 x).
      { intros x Hx. unfold q2, rlook. apply PositiveMap.gso. intros <-. contradiction. }
      assert (Hch2 : chain q2 t' (u::l)).
      { eapply ch_cons. unfold q2, rlook. apply PositiveMap.gss.
        eapply chain_same; [exact Hch1|]. intros x Hx. apply Hlook2. destruct Hx as [<-|Hx]; [left|right]; auto. }
      destruct (GA q2 parent rest (u::l) Hch2) as (q' & Rr & HI' & Hl').
      { constructor. intros K. apply Hnin'. destruct K as [<-|K]; [left|right]; auto. exact Hnd. }
      { intros x [<-|Hx]; [left|right]; auto. }
      { intros a b L. unfold q2, rlook in L. destruct (Pos.eq_dec t' a) as [<-|Na].
        - right; left; auto.
        - rewrite PositiveMap.gso in L by auto. destruct (HI1 _ _ L); auto. right; right; auto. }
      exists q'. split; [|split].
      * eapply reach_trans; [eapply reach_weaken; [|exact R1]; lia|]. eapply reach_step; [bnd|apply step_tail|]. eapply reach_weaken; [|exact Rr]. lia.
      * apply Iq_drop; auto.
      * intros x Hx. rewrite Hl' by (right; auto). rewrite Hlook2 by (right; auto). apply Hl1. right; auto.
    + eapply hle_trans; [exact L1|]. eapply hle_trans; [exact L2|apply hle_set_cache; auto].
    + apply inv_set; auto. repeat split; auto.
    + apply cached_set; auto.
Qed.

Theorem sim_all : forall n, stmtA n /\ stmtC n /\ stmtB n.
Proof.
  induction n as [|n (IA & IC & IB)].
  - split; [apply A0|split; [apply C0|apply A_C_B; [apply A0|apply C0]]].
  - assert (A1 : stmtA (S n)) by (apply B_A; auto). assert (C1 : stmtC (S n)) by (apply C_of_B; auto).
    split; [exact A1|split; [exact C1|apply A_C_B; auto]].
Qed.

(* ---- top level: main.main on one expression.  Whenever the specification gives an answer (needing d evaluator
        frames), the machine reaches the state whose only frame is the finished head coroutine, with the same answer,
        the same heap and the same world, and its stack never holds more than d frames besides the head. ---- *)
Theorem machine_implements_spec fuel prog stdin h' w' r d :
  spec_main fuel prog stdin = Done h' w' r d ->
  exists q', reach (1 + d) (m_heap (init prog stdin)) (PositiveMap.empty _) (m_stack (init prog stdin)) (m_world (init prog stdin))
                   h' q' [Fr None (retc r) []] w'.
Proof.
  unfold spec_main, init. destruct (alloc heap0 prog {| funs := []; args := [] |}) as [h t] eqn:Al. cbn [m_heap m_stack m_world].
  intros Hs. destruct (sim_all fuel) as (_ & HC & _).
  assert (Hinv : inv h []).
  { assert (h = fst (alloc heap0 prog {| funs := []; args := [] |})) by (rewrite Al; auto). subst h.
    apply inv_alloc. split; [|split].
    - intros x _. unfold get; simpl. apply PositiveMap.gempty.
    - intros x cl v Gx. unfold get in Gx; simpl in Gx. rewrite PositiveMap.gempty in Gx. discriminate.
    - intros x []. }
  destruct (HC _ _ _ _ _ _ _ _ Hs Hinv) as (G & _ & _).
  destruct (G (PositiveMap.empty _) None [] []) as (q' & R & _).
  - intros a b L. unfold rlook in L. rewrite PositiveMap.gempty in L. discriminate.
  - exists q'. exact R.
Qed.

(* ... and with any files on the disk at the start: file operations are requests to the world like input and output *)
Theorem machine_implements_spec_fs fuel prog stdin disk h' w' r d :
  spec_main_fs fuel prog stdin disk = Done h' w' r d ->
  exists q', reach (1 + d) (m_heap (init_fs prog stdin disk)) (PositiveMap.empty _) (m_stack (init_fs prog stdin disk)) (m_world (init_fs prog stdin disk))
                   h' q' [Fr None (retc r) []] w'.
Proof.
  unfold spec_main_fs, init_fs. destruct (alloc heap0 prog {| funs := []; args := [] |}) as [h t] eqn:Al. cbn [m_heap m_stack m_world].
  intros Hs. destruct (sim_all fuel) as (_ & HC & _).
  assert (Hinv : inv h []).
  { assert (h = fst (alloc heap0 prog {| funs := []; args := [] |})) by (rewrite Al; auto). subst h.
    apply inv_alloc. split; [|split].
    - intros x _. unfold get; simpl. apply PositiveMap.gempty.
    - intros x cl v Gx. unfold get in Gx; simpl in Gx. rewrite PositiveMap.gempty in Gx. discriminate.
    - intros x []. }
  destruct (HC _ _ _ _ _ _ _ _ Hs Hinv) as (G & _ & _).
  destruct (G (PositiveMap.empty _) None [] []) as (q' & R & _).
  - intros a b L. unfold rlook in L. rewrite PositiveMap.gempty in L. discriminate.
  - exists q'. exact R.
Qed.


(* ... from ANY heap satisfying the invariants and any world, for either format_io - and the invariants hold again at the end: so the theorem
   chains over the expressions of a program (main.main evaluates them one after the other in one process) *)
Lemma inv_heap0 : inv heap0 [].
Proof.
  split; [|split].
  - intros x _. unfold get; simpl. apply PositiveMap.gempty.
  - intros x cl v Gx. unfold get in Gx; simpl in Gx. rewrite PositiveMap.gempty in Gx. discriminate.
  - intros x [].
Qed.
Theorem machine_implements_spec_in fuel h w prog fio h' w' r d : inv h [] ->
  spec_main_in fuel h w prog fio = Done h' w' r d ->
  (exists q', reach (1 + d) (m_heap (init_in h w prog fio)) (PositiveMap.empty _) (m_stack (init_in h w prog fio)) (m_world (init_in h w prog fio))
                    h' q' [Fr None (retc r) []] w') /\ inv h' [].
Proof.
  intros Hi. unfold spec_main_in, init_in. destruct (alloc h prog {| funs := []; args := [] |}) as [h1 t] eqn:Al. cbn [m_heap m_stack m_world].
  intros Hs. destruct (sim_all fuel) as (_ & HC & _).
  assert (Hinv : inv h1 []) by (assert (E : h1 = fst (alloc h prog {| funs := []; args := [] |})) by (rewrite Al; auto); subst h1; apply inv_alloc; exact Hi).
  destruct (HC _ _ _ _ _ _ _ _ Hs Hinv) as (G & _ & I'). split; [|exact I'].
  destruct (G (PositiveMap.empty _) None [] []) as (q' & R & _).
  - intros a b L. unfold rlook in L. rewrite PositiveMap.gempty in L. discriminate.
  - exists q'. exact R.
Qed.
Fixpoint many_ok (fuel:nat) (h:heap) (w:world) (progs:list ast) (fio:bool) : Prop :=
  match progs with
  | [] => True
  | p :: rest =>
      match spec_main_in fuel h w p fio with
      | Done h' w' r d =>
          (exists q', reach (1 + d) (m_heap (init_in h w p fio)) (PositiveMap.empty _) (m_stack (init_in h w p fio)) (m_world (init_in h w p fio)) h' q' [Fr None (retc r) []] w')
          /\ match r with inl _ => many_ok fuel h' w' rest fio | inr _ => True end
      | _ => True end
  end.
(* main.main on a whole program text: every expression the specification answers for is answered alike by the machine, each started in the
   heap and the world the previous one ended in *)
Theorem machine_implements_spec_many fuel progs fio : forall h w, inv h [] -> many_ok fuel h w progs fio.
Proof.
  induction progs as [|p rest IH]; intros h w Hi; cbn [many_ok]; auto.
  destruct (spec_main_in fuel h w p fio) as [h' w' r d| |] eqn:S; auto.
  destruct (machine_implements_spec_in fuel h w p fio h' w' r d Hi S) as (R & I'). split; [exact R|]. destruct r; auto.
Qed.
Corollary main_many_from_scratch fuel progs stdin disk fio : many_ok fuel heap0 (world_start stdin disk) progs fio.
Proof. apply machine_implements_spec_many. apply inv_heap0. Qed.

(* the machine WITH the explicit limit (interpret.py's MAX_STACK_SIZE): if the demand depth fits, it never reports Limit
   and finishes exactly like the specification *)
Fixpoint lsteps (n:nat) (s:mstate) : mstate + outcome :=
  match n with O => inl s | S k => match step s with inl s1 => lsteps k s1 | inr o => inr o end end.
Corollary real_machine_implements_spec fuel prog stdin h' w' r d :
  spec_main fuel prog stdin = Done h' w' r d -> (1 + d <= MAX_STACK_SIZE)%nat ->
  exists n s, lsteps n (init prog stdin) = inl s /\ m_heap s = h' /\ m_world s = w' /\ m_stack s = [Fr None (retc r) []].
Proof.
  intros Hs Hd. destruct (machine_implements_spec _ _ _ _ _ _ _ Hs) as (q' & R).
  destruct (R (m_dbg (init prog stdin))) as (d' & Rr).
  destruct (R_limit _ MAX_STACK_SIZE _ _ Hd Rr) as (n & En).
  exists n, (mk h' q' [Fr None (retc r) []] w' d'). split; [|auto].
  assert (Eq : forall k s0, lsteps k s0 = (fix go n s := match n with O => inl s | S k => match step_with (Some MAX_STACK_SIZE) s with inl s1 => go k s1 | inr o => inr o end end) k s0).
  { induction k; intros s0; simpl; auto; unfold step; destruct (step_with (Some MAX_STACK_SIZE) s0); auto. }
  rewrite Eq.
  assert (Ei : init prog stdin = mk (m_heap (init prog stdin)) (PositiveMap.empty _) (m_stack (init prog stdin)) (m_world (init prog stdin)) (m_dbg (init prog stdin))).
  { unfold init. destruct (alloc heap0 prog {| funs := []; args := [] |}). reflexivity. }
  revert En. generalize (m_heap (init prog stdin)) (m_stack (init prog stdin)) (m_world (init prog stdin)) (m_dbg (init prog stdin)) Ei.
  intros hh ss ww dd0 ->. auto.
Qed.
Print Assumptions real_machine_implements_spec.
