(* C20: in the model an evaluation is a FUNCTION of (program, input): run_main and spec_main take nothing else, so isolation between
   evaluations and independence of any hash seed hold by construction; what ties that to the code is (i) the correspondence of the
   sequence / hash-seed slice and (ii) the two lists REGENERATED from the source on every run (Gen/GenNondet.v): every use of
   hash / id / set / frozenset / os.listdir ... and every piece of process-wide mutable state.  They must be exactly the audited lists below;
   a new cache, registry or hash use changes the generated list and this file no longer checks. *)
From Coq Require Import String List.
Import ListNotations.
Require GenNondet.
Open Scope string_scope.

(* audited: frozenset in Dict.as_key is compared, never iterated for output (dict equality is order-free: Eq.v); id() in Function.as_key is
   identity of function values, never printed; set() in the interactive debugger only; os.listdir order is irrelevant (ImportProofs.listing_order_irrelevant) *)
Definition audited_calls : list (string * string * string) :=
  [("abstract_syntax.py", "Dict.as_key", "frozenset"); ("abstract_syntax.py", "Function.as_key", "id");
   ("debugger.py", "_interact", "set"); ("builtins/module.py", "_search_file_from_literal", "os.listdir")].
(* audited: constant tables built at import time and never written afterwards, plus the module cache the property allows *)
Definition audited_state : list (string * string) :=
  [("debugger.py", "_DEBUG_COMMANDS_KO"); ("debugger.py", "_DEBUG_COMMANDS_EN"); ("interpret.py", "BUITLINS");
   ("parse.py", "U1100"); ("parse.py", "JAMO"); ("parse.py", "U3165"); ("parse.py", "UA960");
   ("builtins/__init__.py", "__all__"); ("builtins/io.py", "_MODE_TABLE");
   ("builtins/module.py", "_BUITLIN_MODULE_REGISTRY"); ("builtins/module.py", "_MODULE_REGISTRY");
   ("modules/__init__.py", "__all__"); ("modules/byte.py", "Codec.CODEC_TBL")].
Theorem nondet_sources_declared : GenNondet.gen_nondet_calls = audited_calls.
Proof. reflexivity. Qed.
Theorem process_state_declared : GenNondet.gen_process_state = audited_state.
Proof. reflexivity. Qed.
(* no use of hash() anywhere on the evaluation path: keys are structural (the C06 repair) *)
Theorem no_hash_calls : forallb (fun c => negb (String.eqb (snd c) "hash")) GenNondet.gen_nondet_calls = true.
Proof. reflexivity. Qed.
