(* DRAFT: C14 - the documented meaning of the six open modes and of the operations, for every history. *)
From Coq Require Import ZArith NArith List Bool Lia.
Import ListNotations.
Require Import Files.
Open Scope Z_scope.

Lemma len_app a b : len (a ++ b) = len a + len b. Proof. unfold len. rewrite app_length. lia. Qed.
Lemma len_nonneg l : 0 <= len l. Proof. unfold len. lia. Qed.
Lemma len_zeros n : 0 <= n -> len (zeros n) = n. Proof. intros H. unfold len, zeros. rewrite repeat_length. lia. Qed.
Lemma len_take n l : 0 <= n <= len l -> len (take n l) = n.
Proof. unfold len, take. intros H. rewrite firstn_length. lia. Qed.
Lemma len_resize n l : 0 <= n -> len (resize n l) = n.
Proof. intros H. unfold resize. destruct (n <=? len l) eqn:E; [apply len_take; lia|]. rewrite len_app, len_zeros; lia. Qed.
Lemma drop_app_exact a b : drop (len a) (a ++ b) = b.
Proof. unfold drop, len. rewrite Nat2Z.id. rewrite skipn_app, skipn_all, Nat.sub_diag. reflexivity. Qed.
Lemma take_app_exact a b : take (len a) (a ++ b) = a.
Proof. unfold take, len. rewrite Nat2Z.id. rewrite firstn_app, firstn_all, Nat.sub_diag. simpl. apply app_nil_r. Qed.
Lemma resize_full l : resize (len l) l = l.
Proof. unfold resize. rewrite Z.leb_refl. unfold take, len. rewrite Nat2Z.id. apply firstn_all. Qed.
Lemma drop_all l n : len l <= n -> drop n l = [].
Proof. unfold drop, len. intros H. apply skipn_all2. lia. Qed.

(* ---- open modes ---- *)
Theorem open_keeps m bs s : fopen m (Some bs) = Some s -> resets m = false -> content s = bs.
Proof. unfold fopen. intros H R. rewrite R in H. inversion H; reflexivity. Qed.
Theorem open_resets m d s : fopen m d = Some s -> resets m = true -> content s = [] /\ pos s = 0.
Proof. unfold fopen. intros H R. destruct d; [rewrite R in H|destruct (needs_file m); [discriminate|]]; inversion H; simpl; destruct m; try discriminate; auto. Qed.
Theorem open_append_at_end m d s : fopen m d = Some s -> appending m = true -> pos s = len (content s).
Proof. unfold fopen. intros H A. destruct d; [rewrite A in H|destruct (needs_file m); [discriminate|]]; inversion H; reflexivity. Qed.
Theorem open_missing m : fopen m None = None <-> needs_file m = true.
Proof. unfold fopen. destruct (needs_file m); split; auto; discriminate. Qed.
Theorem mode_table_meaning :
  (* exactly which modes read, write, append, reset, need an existing file *)
  map can_read [MR;MW;MA;MRW;MWR;MAR] = [true;false;false;true;true;true] /\
  map can_write [MR;MW;MA;MRW;MWR;MAR] = [false;true;true;true;true;true] /\
  map appending [MR;MW;MA;MRW;MWR;MAR] = [false;false;true;false;false;true] /\
  map resets [MR;MW;MA;MRW;MWR;MAR] = [false;true;false;false;true;false] /\
  map needs_file [MR;MW;MA;MRW;MWR;MAR] = [true;false;false;true;false;false].
Proof. repeat split. Qed.

(* ---- single operations ---- *)
Theorem step_keeps_mode s o s' r : fstep s o = Some (s', r) -> fmode s' = fmode s.
Proof.
  destruct o; cbn [fstep]; intros H;
    repeat match type of H with context [if ?c then _ else _] => destruct c end; try discriminate; try (inversion H; reflexivity).
  all: try (destruct bs; inversion H; reflexivity).
Qed.
Theorem step_pos_nonneg s o s' r : 0 <= pos s -> fstep s o = Some (s', r) -> 0 <= pos s'.
Proof.
  intros P. destruct o; cbn [fstep]; intros H.
  - destruct (can_read (fmode s) && (-1 <=? n)); [|discriminate]. inversion H; subst; cbn [pos]. pose proof (len_nonneg (if n <? 0 then drop (pos s) (content s) else take n (drop (pos s) (content s)))). lia.
  - destruct (can_write (fmode s)); [|discriminate]. destruct bs as [|b bs]; inversion H; subst; auto. cbn [pos].
    pose proof (len_nonneg (b :: bs)). pose proof (len_nonneg (content s)). destruct (appending (fmode s)); lia.
  - inversion H; subst; auto.
  - destruct (off <? 0) eqn:E; [discriminate|]. inversion H; subst; cbn [pos]. lia.
  - destruct (pos s + off <? 0) eqn:E; [discriminate|]. inversion H; subst; cbn [pos]. lia.
  - destruct (can_write (fmode s)); [|discriminate]. inversion H; subst; auto.
  - destruct (can_write (fmode s) && (0 <=? n)); [|discriminate]. inversion H; subst; auto.
Qed.
(* only write and truncate can change the bytes *)
Theorem only_write_and_truncate_change s o s' r :
  fstep s o = Some (s', r) -> match o with OWrite _ | OTrunc | OTruncN _ => False | _ => True end -> content s' = content s.
Proof.
  destruct o; cbn [fstep]; intros H G; try contradiction;
    repeat match type of H with context [if ?c then _ else _] => destruct c end; try discriminate; inversion H; reflexivity.
Qed.
Theorem read_only_never_writes s o s' r : fmode s = MR -> fstep s o = Some (s', r) -> content s' = content s.
Proof.
  intros M. destruct o; cbn [fstep]; rewrite ?M; cbn [can_read can_write andb]; intros H; try discriminate;
    repeat match type of H with context [if ?c then _ else _] => destruct c end; try discriminate; inversion H; reflexivity.
Qed.
(* append writes always land at the end, whatever the position was *)
Theorem append_lands_at_end s bs s' r : appending (fmode s) = true -> fstep s (OWrite bs) = Some (s', r) ->
  content s' = content s ++ bs /\ r = RInt (len bs) /\ (bs <> [] -> pos s' = len (content s')).
Proof.
  intros A. cbn [fstep]. destruct (can_write (fmode s)); [|discriminate]. rewrite A.
  destruct bs as [|b bs]; intros H; inversion H; subst.
  - rewrite app_nil_r. split; [reflexivity|split; [reflexivity|intros C; congruence]].
  - cbn [content pos]. unfold write_at. rewrite resize_full. rewrite drop_all by (pose proof (len_nonneg (b :: bs)); lia).
    rewrite app_nil_r. split; [reflexivity|split; [reflexivity|intros _; rewrite len_app; reflexivity]].
Qed.
(* what was written is what is read back from the same place *)
Theorem write_then_read_back s bs s1 r1 s2 r2 s3 r3 :
  0 <= pos s -> appending (fmode s) = false -> can_read (fmode s) = true ->
  fstep s (OWrite bs) = Some (s1, r1) -> fstep s1 (OSeekSet (pos s)) = Some (s2, r2) -> fstep s2 (ORead (len bs)) = Some (s3, r3) ->
  r3 = RBytes bs.
Proof.
  intros P A Rd. cbn [fstep]. destruct (can_write (fmode s)); [|discriminate]. rewrite A.
  destruct bs as [|b bs]; intros H1; injection H1 as Hs Hr; subst s1 r1.
  - destruct (pos s <? 0); [discriminate|]. intros H2; injection H2 as Hs Hr; subst s2 r2. cbn [fmode content pos]. rewrite Rd.
    intros H3; injection H3 as Hs Hr; subst r3. reflexivity.
  - cbn [fmode content pos]. destruct (pos s <? 0); [discriminate|]. intros H2; injection H2 as Hs Hr; subst s2 r2. cbn [fmode content pos]. rewrite Rd.
    assert (L : 0 < len (b :: bs)) by (unfold len; simpl; lia).
    destruct (len (b :: bs) <? 0) eqn:E; [lia|]. intros H3; injection H3 as Hs Hr; subst r3. f_equal.
    unfold write_at. rewrite <- (len_resize (pos s) (content s) P) at 1. rewrite drop_app_exact. apply take_app_exact.
Qed.
(* size after a write *)
Theorem write_size s bs s' r : 0 <= pos s -> bs <> [] -> fstep s (OWrite bs) = Some (s', r) ->
  len (content s') = Z.max (len (content s)) ((if appending (fmode s) then len (content s) else pos s) + len bs).
Proof.
  intros P NE. cbn [fstep]. destruct (can_write (fmode s)); [|discriminate]. destruct bs as [|b bs]; [congruence|]. intros H; inversion H; subst; clear H.
  cbn [content]. set (p := if appending (fmode s) then len (content s) else pos s). set (w := b :: bs).
  assert (Pp : 0 <= p) by (unfold p; destruct (appending (fmode s)); [apply len_nonneg|auto]).
  unfold write_at. rewrite !len_app, len_resize by auto.
  assert (D : len (drop (p + len w) (content s)) = Z.max 0 (len (content s) - (p + len w))).
  { unfold drop, len. rewrite skipn_length. pose proof (len_nonneg w). unfold len in *. lia. }
  rewrite D. pose proof (len_nonneg w). lia.
Qed.
(* truncation sets the size exactly and keeps the surviving prefix *)
Theorem truncate_spec s n s' r : fstep s (OTruncN n) = Some (s', r) ->
  len (content s') = n /\ pos s' = pos s /\ take (Z.min n (len (content s))) (content s') = take (Z.min n (len (content s))) (content s).
Proof.
  cbn [fstep]. destruct (can_write (fmode s) && (0 <=? n)) eqn:C; [|discriminate]. apply andb_true_iff in C. destruct C as [_ C]. apply Z.leb_le in C.
  intros H; inversion H; subst; clear H. cbn [content pos]. split; [apply len_resize; auto|split; auto].
  unfold resize. destruct (n <=? len (content s)) eqn:E.
  - apply Z.leb_le in E. rewrite Z.min_l by lia. unfold take. rewrite firstn_firstn. f_equal. lia.
  - apply Z.leb_gt in E. rewrite Z.min_r by lia. rewrite take_app_exact. unfold take, len. rewrite Nat2Z.id, firstn_all. reflexivity.
Qed.

(* ---- whole histories ---- *)
Theorem read_only_history_preserves disk ops final rs : history MR (Some disk) ops = Some (final, rs) -> final = disk.
Proof.
  unfold history, fopen. cbn [resets appending]. set (s0 := {| content := disk; pos := 0; fmode := MR |}).
  assert (G : forall ops s s' xs, fmode s = MR -> frun s ops = Some (s', xs) -> content s' = content s).
  { induction ops0 as [|o r IH]; intros s s' xs M H; cbn [frun] in H; [inversion H; reflexivity|].
    destruct (fstep s o) as [[s1 x]|] eqn:S; [|discriminate]. destruct (frun s1 r) as [[s2 ys]|] eqn:F; [|discriminate]. inversion H; subst.
    rewrite (IH _ _ _ (eq_trans (step_keeps_mode _ _ _ _ S) M) F). eapply read_only_never_writes; eauto. }
  destruct (frun s0 ops) as [[s' xs]|] eqn:F; [|discriminate]. intros H; inversion H; subst. apply (G ops s0 s' rs (eq_refl : fmode s0 = MR) F).
Qed.
(* in the append modes the original bytes stay a prefix of the file as long as nothing truncates *)
Definition is_trunc (o:op) : bool := match o with OTrunc | OTruncN _ => true | _ => false end.
Theorem append_history_keeps_prefix m disk ops final rs :
  appending m = true -> forallb (fun o => negb (is_trunc o)) ops = true ->
  history m (Some disk) ops = Some (final, rs) -> exists added, final = disk ++ added.
Proof.
  intros A NT. unfold history, fopen. assert (Rm : resets m = false) by (destruct m; try discriminate; reflexivity). rewrite Rm, A.
  set (s0 := {| content := disk; pos := len disk; fmode := m |}).
  assert (G : forall ops s s' xs, appending (fmode s) = true -> forallb (fun o => negb (is_trunc o)) ops = true -> frun s ops = Some (s', xs) -> exists added, content s' = content s ++ added).
  { induction ops0 as [|o r IH]; intros s s' xs M N H; cbn [frun] in H; [inversion H; exists []; rewrite app_nil_r; reflexivity|].
    cbn [forallb] in N. apply andb_true_iff in N. destruct N as [N1 N2].
    destruct (fstep s o) as [[s1 x]|] eqn:S; [|discriminate]. destruct (frun s1 r) as [[s2 ys]|] eqn:F; [|discriminate]. inversion H; subst.
    assert (M1 : appending (fmode s1) = true) by (rewrite (step_keeps_mode _ _ _ _ S); exact M).
    destruct (IH _ _ _ M1 N2 F) as (ad & E). rewrite E.
    destruct o; try discriminate N1;
      try (rewrite (only_write_and_truncate_change _ _ _ _ S Logic.I); exists ad; reflexivity).
    destruct (append_lands_at_end _ _ _ _ M S) as (C & _). rewrite C, <- app_assoc. eexists; reflexivity. }
  destruct (frun s0 ops) as [[s' xs]|] eqn:F; [|discriminate]. intros H; inversion H; subst. apply (G ops s0 s' rs A NT F).
Qed.
(* an example history meeting the hypotheses, evaluated *)
Example history_example :
  history MAR (Some [1;2;3]%N) [OSeekSet 0; OWrite [9;8]%N; OTell; OSeekSet 1; ORead 3] =
  Some ([1;2;3;9;8]%N, [RInt 0; RInt 2; RInt 5; RInt 1; RBytes [2;3;9]%N]).
Proof. reflexivity. Qed.

Print Assumptions open_keeps. Print Assumptions append_lands_at_end. Print Assumptions write_then_read_back. Print Assumptions write_size.
Print Assumptions truncate_spec. Print Assumptions read_only_history_preserves. Print Assumptions append_history_keeps_prefix.
