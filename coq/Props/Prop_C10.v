(* Property C10: throw/try deliver the raised exception intact through every strict position
   ONLY statements: each theorem is closed by `exact` of a lemma proved elsewhere and followed by Print Assumptions. *)
From Coq Require Import ZArith NArith List Bool Lia Permutation FMapPositive.
Import ListNotations.
Require Import Base Strings Builtins Interp Machine Spec HeapFacts Refine1 Refine2 Refine3 Refine4 RunG Exc Deep LinkErr.
Open Scope Z_scope.
Theorem throw_raises (rec : list positive -> heap -> world -> task -> out) sp a ip h w h' w' s l d :
  (runG rec) value ip h w (force a) = DoneG h' w' (inl (VErr s l)) d ->
  (runG rec) value ip h w (bi_throw sp [a]) = DoneG h' w' (inr {| e_spans := s; e_vals := l |}) d.
Proof. exact (Exc.throw_raises rec sp a ip h w h' w' s l d). Qed.
Print Assumptions throw_raises.

Theorem throw_needs_exception (rec : list positive -> heap -> world -> task -> out) sp a ip h w h' w' v d :
  (runG rec) value ip h w (force a) = DoneG h' w' (inl v) d -> is_err v = false ->
  (runG rec) value ip h w (bi_throw sp [a]) = DoneG h' w' (inr (mkerr c_type sp)) d.
Proof. exact (Exc.throw_needs_exception rec sp a ip h w h' w' v d). Qed.
Print Assumptions throw_needs_exception.

Theorem throw_arg_failure (rec : list positive -> heap -> world -> task -> out) sp a ip h w h' w' e d :
  (runG rec) value ip h w (force a) = DoneG h' w' (inr e) d ->
  (runG rec) value ip h w (bi_throw sp [a]) = DoneG h' w' (inr e) d.
Proof. exact (Exc.throw_arg_failure rec sp a ip h w h' w' e d). Qed.
Print Assumptions throw_arg_failure.

Theorem try_value (rec : list positive -> heap -> world -> task -> out) sp a hd ip h w h' w' v d :
  rec ip h w (TComp (proc_body (PDeep a))) = Done h' w' (inl v) d ->
  (runG rec) value ip h w (bi_try sp [a; hd]) = DoneG h' w' (inl v) d.
Proof. exact (Exc.try_value rec sp a hd ip h w h' w' v d). Qed.
Print Assumptions try_value.

Theorem try_handler_gets_it (rec : list positive -> heap -> world -> task -> out) sp a hd ip h w h' w' e d :
  rec ip h w (TComp (proc_body (PDeep a))) = Done h' w' (inr e) d -> unmodelled e = false ->
  (runG rec) value ip h w (bi_try sp [a; hd]) =
  upddG ((runG rec) value ip h' w' (f <- functional sp hd false ;; call (PApply f sp [VErr (e_spans e) (e_vals e)]))) d.
Proof. exact (Exc.try_handler_gets_it rec sp a hd ip h w h' w' e d). Qed.
Print Assumptions try_handler_gets_it.

Theorem raise_propagates_bind (rec : list positive -> heap -> world -> task -> out) A B (c:Comp A) (f:A -> Comp B) ip h w h' w' e d :
  (runG rec) A ip h w c = DoneG h' w' (inr e) d -> (runG rec) B ip h w (bind c f) = DoneG h' w' (inr e) d.
Proof. exact (Exc.raise_propagates_bind rec A B c f ip h w h' w' e d). Qed.
Print Assumptions raise_propagates_bind.

Theorem raise_propagates_force (rec : list positive -> heap -> world -> task -> out) A (k:value -> Comp A) ip h w u cl h' w' e d :
  get h u = Some cl -> c_cache cl = None -> existsb (Pos.eqb u) ip = false ->
  rec ip h w (TThunk u) = Done h' w' (inr e) d ->
  (runG rec) A ip h w (Force (VThunk u) k) = DoneG h' w' (inr e) (1 + d).
Proof. exact (Exc.raise_propagates_force rec A k ip h w u cl h' w' e d). Qed.
Print Assumptions raise_propagates_force.

Theorem raise_propagates_call (rec : list positive -> heap -> world -> task -> out) A (k:value -> Comp A) ip h w p h' w' e d :
  rec ip h w (TComp (proc_body p)) = Done h' w' (inr e) d ->
  (runG rec) A ip h w (Call p k) = DoneG h' w' (inr e) d.
Proof. exact (Exc.raise_propagates_call rec A k ip h w p h' w' e d). Qed.
Print Assumptions raise_propagates_call.

Theorem cached_failure_replayed (rec : list positive -> heap -> world -> task -> out) A (k:value -> Comp A) ip h w u cl e :
  get h u = Some cl -> c_cache cl = Some (inr e) ->
  (runG rec) A ip h w (Force (VThunk u) k) = DoneG h w (inr e) 0.
Proof. exact (Exc.cached_failure_replayed rec A k ip h w u cl e). Qed.
Print Assumptions cached_failure_replayed.

Theorem builtin_error_contents code sp :
  e_vals (mkerr code sp) = [VInt 5; VInt code] /\ e_spans (mkerr code sp) = [sp].
Proof. exact (Exc.builtin_error_contents code sp). Qed.
Print Assumptions builtin_error_contents.

Theorem thunk_result_cached n ip h w t h' w' r d :
  bs n ip h w (TThunk t) = Done h' w' r d -> uncached h t -> ~ In t ip -> inv h ip ->
  exists cl', get h' t = Some cl' /\ c_cache cl' = Some r.
Proof. exact (Exc.thunk_result_cached n ip h w t h' w' r d). Qed.
Print Assumptions thunk_result_cached.

Theorem failure_persists h h' t cl e :
  hle h h' -> get h t = Some cl -> c_cache cl = Some (inr e) ->
  exists cl', get h' t = Some cl' /\ c_cache cl' = Some (inr e).
Proof. exact (Exc.failure_persists h h' t cl e). Qed.
Print Assumptions failure_persists.

Theorem try_value_fully_evaluated n sp a hd ip h w h' w' v d :
  bs n ip h w (TComp (proc_body (PDeep a))) = Done h' w' (inl v) d -> inv h ip ->
  runG (bs n) value ip h w (bi_try sp [a; hd]) = DoneG h' w' (inl v) d /\ dstrict v.
Proof. exact (Deep.try_value_fully_evaluated n sp a hd ip h w h' w' v d). Qed.
Print Assumptions try_value_fully_evaluated.

(* the class codes are the words regenerated from error.py *)
Theorem model_codes  :
  (c_type, c_value, c_div, c_notfound, c_range, c_arith, c_syntax, c_import, c_os)
  = (GenErr.gen_code_Type, GenErr.gen_code_Value, GenErr.gen_code_Division, GenErr.gen_code_NotFound, GenErr.gen_code_OutOfRange,
     GenErr.gen_code_Arithmetic, GenErr.gen_code_Syntax, GenErr.gen_code_Import, GenErr.gen_code_OS).
Proof. exact (LinkErr.model_codes ). Qed.
Print Assumptions model_codes.

Theorem model_marker  :
  GenErr.gen_marker = 5.
Proof. exact (LinkErr.model_marker ). Qed.
Print Assumptions model_marker.

Theorem codes_distinct  :
  NoDup GenErr.gen_codes.
Proof. exact (LinkErr.codes_distinct ). Qed.
Print Assumptions codes_distinct.

