(* Property C14: file handles behave as byte files; open modes never destroy data they must keep
   ONLY statements: each theorem is closed by `exact` of a lemma proved elsewhere and followed by Print Assumptions. *)
From Coq Require Import ZArith NArith List Bool Lia Permutation FMapPositive.
Import ListNotations.
Require Import Files FilesProofs FilesTotal Base Strings Builtins Interp Machine Spec HeapFacts Refine1 Refine2 RunG IOSpec FileIO Refine3 Refine4 Num LinkNames.
Open Scope Z_scope.
Import Files FilesProofs FilesTotal.      (* fstep below is the file model's step, not the machine's frame step *)
Theorem open_keeps m bs s :
  fopen m (Some bs) = Some s -> resets m = false -> content s = bs.
Proof. exact (FilesProofs.open_keeps m bs s). Qed.
Print Assumptions open_keeps.

Theorem open_resets m d s :
  fopen m d = Some s -> resets m = true -> content s = [] /\ pos s = 0.
Proof. exact (FilesProofs.open_resets m d s). Qed.
Print Assumptions open_resets.

Theorem open_append_at_end m d s :
  fopen m d = Some s -> appending m = true -> pos s = len (content s).
Proof. exact (FilesProofs.open_append_at_end m d s). Qed.
Print Assumptions open_append_at_end.

Theorem open_missing m :
  fopen m None = None <-> needs_file m = true.
Proof. exact (FilesProofs.open_missing m). Qed.
Print Assumptions open_missing.

Theorem mode_table_meaning  :
  map can_read [MR;MW;MA;MRW;MWR;MAR] = [true;false;false;true;true;true] /\
  map can_write [MR;MW;MA;MRW;MWR;MAR] = [false;true;true;true;true;true] /\
  map appending [MR;MW;MA;MRW;MWR;MAR] = [false;false;true;false;false;true] /\
  map resets [MR;MW;MA;MRW;MWR;MAR] = [false;true;false;false;true;false] /\
  map needs_file [MR;MW;MA;MRW;MWR;MAR] = [true;false;false;true;false;false].
Proof. exact (FilesProofs.mode_table_meaning ). Qed.
Print Assumptions mode_table_meaning.

Theorem step_keeps_mode s o s' r :
  fstep s o = Some (s', r) -> fmode s' = fmode s.
Proof. exact (FilesProofs.step_keeps_mode s o s' r). Qed.
Print Assumptions step_keeps_mode.

Theorem step_pos_nonneg s o s' r :
  0 <= pos s -> fstep s o = Some (s', r) -> 0 <= pos s'.
Proof. exact (FilesProofs.step_pos_nonneg s o s' r). Qed.
Print Assumptions step_pos_nonneg.

Theorem only_write_and_truncate_change s o s' r :
  fstep s o = Some (s', r) -> match o with OWrite _ | OTrunc | OTruncN _ => False | _ => True end -> content s' = content s.
Proof. exact (FilesProofs.only_write_and_truncate_change s o s' r). Qed.
Print Assumptions only_write_and_truncate_change.

Theorem read_only_never_writes s o s' r :
  fmode s = MR -> fstep s o = Some (s', r) -> content s' = content s.
Proof. exact (FilesProofs.read_only_never_writes s o s' r). Qed.
Print Assumptions read_only_never_writes.

Theorem append_lands_at_end s bs s' r :
  appending (fmode s) = true -> fstep s (OWrite bs) = Some (s', r) ->
  content s' = content s ++ bs /\ r = RInt (len bs) /\ (bs <> [] -> pos s' = len (content s')).
Proof. exact (FilesProofs.append_lands_at_end s bs s' r). Qed.
Print Assumptions append_lands_at_end.

Theorem write_then_read_back s bs s1 r1 s2 r2 s3 r3 :
  0 <= pos s -> appending (fmode s) = false -> can_read (fmode s) = true ->
  fstep s (OWrite bs) = Some (s1, r1) -> fstep s1 (OSeekSet (pos s)) = Some (s2, r2) -> fstep s2 (ORead (len bs)) = Some (s3, r3) ->
  r3 = RBytes bs.
Proof. exact (FilesProofs.write_then_read_back s bs s1 r1 s2 r2 s3 r3). Qed.
Print Assumptions write_then_read_back.

Theorem write_size s bs s' r :
  0 <= pos s -> bs <> [] -> fstep s (OWrite bs) = Some (s', r) ->
  len (content s') = Z.max (len (content s)) ((if appending (fmode s) then len (content s) else pos s) + len bs).
Proof. exact (FilesProofs.write_size s bs s' r). Qed.
Print Assumptions write_size.

Theorem truncate_spec s n s' r :
  fstep s (OTruncN n) = Some (s', r) ->
  len (content s') = n /\ pos s' = pos s /\ take (Z.min n (len (content s))) (content s') = take (Z.min n (len (content s))) (content s).
Proof. exact (FilesProofs.truncate_spec s n s' r). Qed.
Print Assumptions truncate_spec.

Theorem read_only_history_preserves disk ops final rs :
  history MR (Some disk) ops = Some (final, rs) -> final = disk.
Proof. exact (FilesProofs.read_only_history_preserves disk ops final rs). Qed.
Print Assumptions read_only_history_preserves.

Theorem append_history_keeps_prefix m disk ops final rs :
  appending m = true -> forallb (fun o => negb (is_trunc o)) ops = true ->
  history m (Some disk) ops = Some (final, rs) -> exists added, final = disk ++ added.
Proof. exact (FilesProofs.append_history_keeps_prefix m disk ops final rs). Qed.
Print Assumptions append_history_keeps_prefix.

(* the TOTAL model (close + every refused operation) extends the permitted-operations model *)
Theorem xhistory_conservative m disk ops final rs :
  history m disk ops = Some (final, rs) ->
  xhistory m disk (map XOp ops) = Some (final, map XVal rs).
Proof. exact (FilesTotal.xhistory_conservative m disk ops final rs). Qed.
Print Assumptions xhistory_conservative.

(* a refused operation - closed handle, operation the mode forbids, negative target or size, read count below -1 - reports errno 9 or 22 and changes neither bytes nor position *)
Theorem refused_changes_nothing s o s' e :
  xstep s o = (s', XErr e) -> s' = s /\ (e = EBADF \/ e = EINVAL).
Proof. exact (FilesTotal.refused_changes_nothing s o s' e). Qed.
Print Assumptions refused_changes_nothing.

Theorem closed_refuses_everything s o :
  xclosed s = true -> xstep s (XOp o) = (s, XErr EBADF).
Proof. exact (FilesTotal.closed_refuses_everything s o). Qed.
Print Assumptions closed_refuses_everything.

Theorem close_keeps_the_bytes s :
  xs (fst (xstep s XClose)) = xs s /\ xclosed (fst (xstep s XClose)) = true /\ snd (xstep s XClose) = XNil.
Proof. exact (FilesTotal.close_keeps_the_bytes s). Qed.
Print Assumptions close_keeps_the_bytes.

(* after a close nothing that follows changes the file and every later operation is refused *)
Theorem closed_history_is_frozen  :
  forall ops s, xclosed s = true ->
  fst (xrun s ops) = s /\ Forall (fun r => r = XErr EBADF \/ r = XNil) (snd (xrun s ops)).
Proof. exact (FilesTotal.closed_history_is_frozen ). Qed.
Print Assumptions closed_history_is_frozen.

(* read-only handles never change the bytes, in EVERY history - refused writes / truncates and closes included *)
Theorem read_only_total_history_preserves disk ops final rs :
  xhistory MR (Some disk) ops = Some (final, rs) -> final = disk.
Proof. exact (FilesTotal.read_only_total_history_preserves disk ops final rs). Qed.
Print Assumptions read_only_total_history_preserves.

Theorem append_total_history_keeps_prefix m disk ops final rs :
  appending m = true -> forallb (fun o => negb (x_is_trunc o)) ops = true ->
  xhistory m (Some disk) ops = Some (final, rs) -> exists added, final = disk ++ added.
Proof. exact (FilesTotal.append_total_history_keeps_prefix m disk ops final rs). Qed.
Print Assumptions append_total_history_keeps_prefix.

(* IN THE MAIN MODEL (values, actions, the executor of main.main): executing one command on a handle is exactly one step of the total file model on (the bytes the disk holds under the handle's name, the handle's position / mode / closed flag) *)
Theorem file_command_is_xstep n ip h w sp i o hd :
  handle_get (w_handles w) i = Some hd ->
  exec (S (S n)) ip h w (VIO (IOFile sp i o)) =
  match xstep (view w hd) o with
  | (x', XVal v) => Done h (write_back w i hd x') (inl (val_of_result v)) 0
  | (x', XNil) => Done h (write_back w i hd x') (inl VNil) 0
  | (_, XErr e) => Done h w (inr (os_error sp e)) 0 end.
Proof. exact (FileIO.file_command_is_xstep n ip h w sp i o hd). Qed.
Print Assumptions file_command_is_xstep.

(* a refused command is the language's OS exception with errno 9 or 22; no file, no handle, no input, no output changes *)
Theorem refused_command_changes_nothing n ip h w sp i o hd x' e :
  handle_get (w_handles w) i = Some hd -> xstep (view w hd) o = (x', XErr e) ->
  exec (S (S n)) ip h w (VIO (IOFile sp i o)) = Done h w (inr (os_error sp e)) 0 /\ (e = EBADF \/ e = EINVAL).
Proof. exact (FileIO.refused_command_changes_nothing n ip h w sp i o hd x' e). Qed.
Print Assumptions refused_command_changes_nothing.

Theorem unknown_handle n ip h w sp i o :
  handle_get (w_handles w) i = None ->
  exec (S (S n)) ip h w (VIO (IOFile sp i o)) = Done h w (inr (os_error sp 9)) 0.
Proof. exact (FileIO.unknown_handle n ip h w sp i o). Qed.
Print Assumptions unknown_handle.

(* opening a missing file in a mode that needs it: OS exception, errno 2, nothing changes *)
Theorem open_missing_file n ip h w sp p m :
  Files.fopen m (disk_get (w_disk w) p) = None ->
  exec (S (S n)) ip h w (VIO (IOOpen sp p m)) = Done h w (inr (os_error sp 2)) 0.
Proof. exact (FileIO.open_missing_file n ip h w sp p m). Qed.
Print Assumptions open_missing_file.

(* opening applies the open-mode rules of Files.fopen to the bytes on disk and yields a NEW handle *)
Theorem open_gives_a_new_handle n ip h w sp p m s :
  Files.fopen m (disk_get (w_disk w) p) = Some s ->
  exec (S (S n)) ip h w (VIO (IOOpen sp p m)) =
  Done h {| w_in := w_in w; w_out := w_out w; w_disk := disk_set (w_disk w) p (content s);
            w_handles := (w_nexth w, {| h_path := p; h_pos := pos s; h_mode := m; h_closed := false |}) :: w_handles w; w_nexth := Pos.succ (w_nexth w); w_mods := w_mods w |}
         (inl (VFun (FFile (w_nexth w)))) 0.
Proof. exact (FileIO.open_gives_a_new_handle n ip h w sp p m s). Qed.
Print Assumptions open_gives_a_new_handle.

(* a command on one handle never changes a file of another name *)
Theorem other_files_untouched w sp i o hd q :
  handle_get (w_handles w) i = Some hd -> q <> h_path hd ->
  disk_get (w_disk (fst (wstep w (WFile sp i o)))) q = disk_get (w_disk w) q.
Proof. exact (FileIO.other_files_untouched w sp i o hd q). Qed.
Print Assumptions other_files_untouched.

(* a handle opened read-only never changes its own file, whatever is asked of it *)
Theorem read_only_handle_never_writes w sp i o hd c :
  handle_get (w_handles w) i = Some hd -> h_mode hd = MR -> disk_get (w_disk w) (h_path hd) = Some c ->
  disk_get (w_disk (fst (wstep w (WFile sp i o)))) (h_path hd) = Some c.
Proof. exact (FileIO.read_only_handle_never_writes w sp i o hd c). Qed.
Print Assumptions read_only_handle_never_writes.

(* the trampolined machine computes the specification semantics also for programs that open, read and write files (any disk at the start) *)
Theorem machine_implements_spec_fs fuel prog stdin disk h' w' r d :
  spec_main_fs fuel prog stdin disk = Done h' w' r d ->
  exists q', reach (1 + d) (m_heap (init_fs prog stdin disk)) (PositiveMap.empty _) (m_stack (init_fs prog stdin disk)) (m_world (init_fs prog stdin disk))
                   h' q' [Fr None (retc r) []] w'.
Proof. exact (Refine4.machine_implements_spec_fs fuel prog stdin disk h' w' r d). Qed.
Print Assumptions machine_implements_spec_fs.

(* the six mode words regenerated from io.py map to rb wb ab r+b w+b a+b *)
Theorem mode_table_documented  :
  GenIO.gen_modes =
  [(3, [114; 98]%N); (-31, [119; 98]%N); (-7, [97; 98]%N); (251, [114; 43; 98]%N); (223, [119; 43; 98]%N); (199, [97; 43; 98]%N)].
Proof. exact (LinkNames.mode_table_documented ). Qed.
Print Assumptions mode_table_documented.

Theorem whence_table_documented  :
  map snd GenIO.gen_whence = [0; 1].
Proof. exact (LinkNames.whence_table_documented ). Qed.
Print Assumptions whence_table_documented.

