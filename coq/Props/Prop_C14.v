(* Property C14: file handles behave as byte files; open modes never destroy data they must keep
   ONLY statements: each theorem is closed by `exact` of a lemma proved elsewhere and followed by Print Assumptions. *)
From Coq Require Import ZArith NArith List Bool Lia Permutation.
Import ListNotations.
Require Import Files FilesProofs FilesTotal Base Strings Num Builtins Interp LinkNames.
Open Scope Z_scope.
Theorem open_keeps m bs s :
  fopen m (Some bs) = Some s -> resets m = false -> content s = bs.
Proof. exact (FilesProofs.open_keeps m bs s). Qed.
Print Assumptions open_keeps.

Theorem open_resets m d s :
  fopen m d = Some s -> resets m = true -> content s = [] /\ pos s = 0.
Proof. exact (FilesProofs.open_resets m d s). Qed.
Print Assumptions open_resets.

Theorem open_append_at_end m d s :
  fopen m d = Some s -> appending m = true -> pos s = len (content s).
Proof. exact (FilesProofs.open_append_at_end m d s). Qed.
Print Assumptions open_append_at_end.

Theorem open_missing m :
  fopen m None = None <-> needs_file m = true.
Proof. exact (FilesProofs.open_missing m). Qed.
Print Assumptions open_missing.

Theorem mode_table_meaning  :
  map can_read [MR;MW;MA;MRW;MWR;MAR] = [true;false;false;true;true;true] /\
  map can_write [MR;MW;MA;MRW;MWR;MAR] = [false;true;true;true;true;true] /\
  map appending [MR;MW;MA;MRW;MWR;MAR] = [false;false;true;false;false;true] /\
  map resets [MR;MW;MA;MRW;MWR;MAR] = [false;true;false;false;true;false] /\
  map needs_file [MR;MW;MA;MRW;MWR;MAR] = [true;false;false;true;false;false].
Proof. exact (FilesProofs.mode_table_meaning ). Qed.
Print Assumptions mode_table_meaning.

Theorem step_keeps_mode s o s' r :
  fstep s o = Some (s', r) -> fmode s' = fmode s.
Proof. exact (FilesProofs.step_keeps_mode s o s' r). Qed.
Print Assumptions step_keeps_mode.

Theorem step_pos_nonneg s o s' r :
  0 <= pos s -> fstep s o = Some (s', r) -> 0 <= pos s'.
Proof. exact (FilesProofs.step_pos_nonneg s o s' r). Qed.
Print Assumptions step_pos_nonneg.

Theorem only_write_and_truncate_change s o s' r :
  fstep s o = Some (s', r) -> match o with OWrite _ | OTrunc | OTruncN _ => False | _ => True end -> content s' = content s.
Proof. exact (FilesProofs.only_write_and_truncate_change s o s' r). Qed.
Print Assumptions only_write_and_truncate_change.

Theorem read_only_never_writes s o s' r :
  fmode s = MR -> fstep s o = Some (s', r) -> content s' = content s.
Proof. exact (FilesProofs.read_only_never_writes s o s' r). Qed.
Print Assumptions read_only_never_writes.

Theorem append_lands_at_end s bs s' r :
  appending (fmode s) = true -> fstep s (OWrite bs) = Some (s', r) ->
  content s' = content s ++ bs /\ r = RInt (len bs) /\ (bs <> [] -> pos s' = len (content s')).
Proof. exact (FilesProofs.append_lands_at_end s bs s' r). Qed.
Print Assumptions append_lands_at_end.

Theorem write_then_read_back s bs s1 r1 s2 r2 s3 r3 :
  0 <= pos s -> appending (fmode s) = false -> can_read (fmode s) = true ->
  fstep s (OWrite bs) = Some (s1, r1) -> fstep s1 (OSeekSet (pos s)) = Some (s2, r2) -> fstep s2 (ORead (len bs)) = Some (s3, r3) ->
  r3 = RBytes bs.
Proof. exact (FilesProofs.write_then_read_back s bs s1 r1 s2 r2 s3 r3). Qed.
Print Assumptions write_then_read_back.

Theorem write_size s bs s' r :
  0 <= pos s -> bs <> [] -> fstep s (OWrite bs) = Some (s', r) ->
  len (content s') = Z.max (len (content s)) ((if appending (fmode s) then len (content s) else pos s) + len bs).
Proof. exact (FilesProofs.write_size s bs s' r). Qed.
Print Assumptions write_size.

Theorem truncate_spec s n s' r :
  fstep s (OTruncN n) = Some (s', r) ->
  len (content s') = n /\ pos s' = pos s /\ take (Z.min n (len (content s))) (content s') = take (Z.min n (len (content s))) (content s).
Proof. exact (FilesProofs.truncate_spec s n s' r). Qed.
Print Assumptions truncate_spec.

Theorem read_only_history_preserves disk ops final rs :
  history MR (Some disk) ops = Some (final, rs) -> final = disk.
Proof. exact (FilesProofs.read_only_history_preserves disk ops final rs). Qed.
Print Assumptions read_only_history_preserves.

Theorem append_history_keeps_prefix m disk ops final rs :
  appending m = true -> forallb (fun o => negb (is_trunc o)) ops = true ->
  history m (Some disk) ops = Some (final, rs) -> exists added, final = disk ++ added.
Proof. exact (FilesProofs.append_history_keeps_prefix m disk ops final rs). Qed.
Print Assumptions append_history_keeps_prefix.

(* the TOTAL model (close + every refused operation) extends the permitted-operations model *)
Theorem xhistory_conservative m disk ops final rs :
  history m disk ops = Some (final, rs) ->
  xhistory m disk (map XOp ops) = Some (final, map XVal rs).
Proof. exact (FilesTotal.xhistory_conservative m disk ops final rs). Qed.
Print Assumptions xhistory_conservative.

(* a refused operation - closed handle, operation the mode forbids, negative target or size, read count below -1 - reports errno 9 or 22 and changes neither bytes nor position *)
Theorem refused_changes_nothing s o s' e :
  xstep s o = (s', XErr e) -> s' = s /\ (e = EBADF \/ e = EINVAL).
Proof. exact (FilesTotal.refused_changes_nothing s o s' e). Qed.
Print Assumptions refused_changes_nothing.

Theorem closed_refuses_everything s o :
  xclosed s = true -> xstep s (XOp o) = (s, XErr EBADF).
Proof. exact (FilesTotal.closed_refuses_everything s o). Qed.
Print Assumptions closed_refuses_everything.

Theorem close_keeps_the_bytes s :
  xs (fst (xstep s XClose)) = xs s /\ xclosed (fst (xstep s XClose)) = true /\ snd (xstep s XClose) = XNil.
Proof. exact (FilesTotal.close_keeps_the_bytes s). Qed.
Print Assumptions close_keeps_the_bytes.

(* after a close nothing that follows changes the file and every later operation is refused *)
Theorem closed_history_is_frozen  :
  forall ops s, xclosed s = true ->
  fst (xrun s ops) = s /\ Forall (fun r => r = XErr EBADF \/ r = XNil) (snd (xrun s ops)).
Proof. exact (FilesTotal.closed_history_is_frozen ). Qed.
Print Assumptions closed_history_is_frozen.

(* read-only handles never change the bytes, in EVERY history - refused writes / truncates and closes included *)
Theorem read_only_total_history_preserves disk ops final rs :
  xhistory MR (Some disk) ops = Some (final, rs) -> final = disk.
Proof. exact (FilesTotal.read_only_total_history_preserves disk ops final rs). Qed.
Print Assumptions read_only_total_history_preserves.

Theorem append_total_history_keeps_prefix m disk ops final rs :
  appending m = true -> forallb (fun o => negb (x_is_trunc o)) ops = true ->
  xhistory m (Some disk) ops = Some (final, rs) -> exists added, final = disk ++ added.
Proof. exact (FilesTotal.append_total_history_keeps_prefix m disk ops final rs). Qed.
Print Assumptions append_total_history_keeps_prefix.

(* the six mode words regenerated from io.py map to rb wb ab r+b w+b a+b *)
Theorem mode_table_documented  :
  GenIO.gen_modes =
  [(3, [114; 98]%N); (-31, [119; 98]%N); (-7, [97; 98]%N); (251, [114; 43; 98]%N); (223, [119; 43; 98]%N); (199, [97; 43; 98]%N)].
Proof. exact (LinkNames.mode_table_documented ). Qed.
Print Assumptions mode_table_documented.

Theorem whence_table_documented  :
  map snd GenIO.gen_whence = [0; 1].
Proof. exact (LinkNames.whence_table_documented ). Qed.
Print Assumptions whence_table_documented.

