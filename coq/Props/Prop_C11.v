(* Property C11: arithmetic is exact on unbounded integers and obeys the numeric-tower laws
   ONLY statements: each theorem is closed by `exact` of a lemma proved elsewhere and followed by Print Assumptions. *)
From Coq Require Import ZArith NArith List Bool Lia Permutation SpecFloat.
Import ListNotations.
Require Import Base Strings Builtins Numerals Float Interp Machine Spec Refine2 RunG Eq Order Arith PowBool LinkArith LinkKinds Complex.
Open Scope Z_scope.
(* numeric conversion of TEXT (ㅈㅅ of a string, any base): an accepted numeral denotes what its digits denote with the underscores taken out *)
Theorem underscores_are_ignored b :
  forall l a st v, scan b l a st = Some v -> parse_digits b (no_underscores l) a = Some v.
Proof. exact (Numerals.underscores_are_ignored b). Qed.
Print Assumptions underscores_are_ignored.

(* conversely every well-formed body - digits of the base with single underscores between them - is accepted *)
Theorem well_formed_is_accepted b l :
  wf_body b l -> forall a st, exists v, scan b l a st = Some v.
Proof. exact (Numerals.well_formed_is_accepted b l). Qed.
Print Assumptions well_formed_is_accepted.

Theorem underscore_never_first b r a :
  scan b (95%N :: r) a 0%nat = None.
Proof. exact (Numerals.underscore_never_first b r a). Qed.
Print Assumptions underscore_never_first.

Theorem underscore_never_doubled b :
  forall l r a st, scan b (l ++ 95%N :: 95%N :: r) a st = None.
Proof. exact (Numerals.underscore_never_doubled b). Qed.
Print Assumptions underscore_never_doubled.

(* underscores are accepted only singly and between digits (or right after a prefix) *)
Theorem underscore_never_last b :
  forall l a st, scan b (l ++ [95%N]) a st = None.
Proof. exact (Numerals.underscore_never_last b). Qed.
Print Assumptions underscore_never_last.

Theorem no_digits_no_number b a st :
  st <> 1%nat -> scan b [] a st = None.
Proof. exact (Numerals.no_digits_no_number b a st). Qed.
Print Assumptions no_digits_no_number.

(* base 0: the prefix 0x / 0o / 0b chooses the base *)
Theorem base_zero_prefix d r :
  parse_unsigned0 (48 :: 120 :: d :: r)%N = scan 16 (d :: r) 0 3%nat /\ parse_unsigned0 (48 :: 111 :: d :: r)%N = scan 8 (d :: r) 0 3%nat
  /\ parse_unsigned0 (48 :: 98 :: d :: r)%N = scan 2 (d :: r) 0 3%nat.
Proof. exact (Numerals.base_zero_prefix d r). Qed.
Print Assumptions base_zero_prefix.

(* base 0 without a prefix: decimal, a leading zero only for zero itself *)
Theorem base_zero_leading_zero c r n :
  has_prefix 16 (48%N :: c :: r) = false -> has_prefix 8 (48%N :: c :: r) = false -> has_prefix 2 (48%N :: c :: r) = false ->
  parse_unsigned0 (48%N :: c :: r) = Some n -> n = 0.
Proof. exact (Numerals.base_zero_leading_zero c r n). Qed.
Print Assumptions base_zero_leading_zero.

(* ㅈ decides the order of the EXACT values of finite reals - integers of any size, doubles in canonical form, mixed freely (sval = value * 2^1074, an integer) *)
Theorem lt_is_value_order a b :
  finite_real a -> finite_real b -> (lt_val a b = true <-> sval a < sval b).
Proof. exact (Order.lt_is_value_order a b). Qed.
Print Assumptions lt_is_value_order.

Theorem lt_irreflexive a :
  finite_real a -> lt_val a a = false.
Proof. exact (Order.lt_irreflexive a). Qed.
Print Assumptions lt_irreflexive.

Theorem lt_transitive a b c :
  finite_real a -> finite_real b -> finite_real c -> lt_val a b = true -> lt_val b c = true -> lt_val a c = true.
Proof. exact (Order.lt_transitive a b c). Qed.
Print Assumptions lt_transitive.

(* a strict TOTAL order: exactly one of a < b, b < a, equal values *)
Theorem lt_trichotomy a b :
  finite_real a -> finite_real b ->
  (lt_val a b = true /\ lt_val b a = false /\ sval a <> sval b) \/ (lt_val a b = false /\ lt_val b a = true /\ sval a <> sval b) \/ (lt_val a b = false /\ lt_val b a = false /\ sval a = sval b).
Proof. exact (Order.lt_trichotomy a b). Qed.
Print Assumptions lt_trichotomy.

(* ㄴ on finite reals - integer against double included - is equality of the exact values *)
Theorem eq_is_value_equality a b :
  finite_real a -> finite_real b -> (num_eq a b = true <-> sval a = sval b).
Proof. exact (Order.eq_is_value_equality a b). Qed.
Print Assumptions eq_is_value_equality.

(* exactly one of a ㅈ b, b ㅈ a, a ㄴ b *)
Theorem lt_eq_trichotomy a b :
  finite_real a -> finite_real b ->
  (lt_val a b = true /\ lt_val b a = false /\ num_eq a b = false) \/ (lt_val a b = false /\ lt_val b a = true /\ num_eq a b = false) \/ (lt_val a b = false /\ lt_val b a = false /\ num_eq a b = true).
Proof. exact (Order.lt_eq_trichotomy a b). Qed.
Print Assumptions lt_eq_trichotomy.

(* the built-in on evaluated arguments is that comparison *)
Theorem bi_lt_is_lt_val (rec:list positive -> heap -> world -> task -> out) sp a b ip h w :
  finite_real a -> finite_real b ->
  runG rec value ip h w (bi_lt sp [a; b]) = DoneG h w (inl (VBool (lt_val a b))) 0.
Proof. exact (Order.bi_lt_is_lt_val rec sp a b ip h w). Qed.
Print Assumptions bi_lt_is_lt_val.

(* an integer power with a non-negative exponent stays an exact integer, of any size *)
Theorem int_pow_exact (rec : list positive -> heap -> world -> task -> out) sp b e ip h w :
  0 <= e -> runG rec value ip h w (bi_pow sp [VInt b; VInt e]) = DoneG h w (inl (VInt (b ^ e))) 0.
Proof. exact (PowBool.int_pow_exact rec sp b e ip h w). Qed.
Print Assumptions int_pow_exact.

(* three-argument ㅅ, exponent >= 0: the residue of the TRUE power, in [0, |m|) for a modulus of either sign *)
Theorem pow_mod_residue (rec : list positive -> heap -> world -> task -> out) sp b e m ip h w :
  0 <= e -> m <> 0 ->
  runG rec value ip h w (bi_pow sp [VInt b; VInt e; VInt m]) = DoneG h w (inl (VInt ((b ^ e) mod Z.abs m))) 0 /\ 0 <= (b ^ e) mod Z.abs m < Z.abs m.
Proof. exact (PowBool.pow_mod_residue rec sp b e m ip h w). Qed.
Print Assumptions pow_mod_residue.

(* exponent < 0: the residue of the power of the modular inverse, in [0, |m|), and it undoes the power *)
Theorem pow_mod_inverse (rec : list positive -> heap -> world -> task -> out) sp b e m i ip h w :
  e < 0 -> m <> 0 -> modinv b (Z.abs m) = Some i ->
  runG rec value ip h w (bi_pow sp [VInt b; VInt e; VInt m]) = DoneG h w (inl (VInt ((i ^ (- e)) mod Z.abs m))) 0
  /\ 0 <= (i ^ (- e)) mod Z.abs m < Z.abs m /\ (((i ^ (- e)) mod Z.abs m) * b ^ (- e)) mod Z.abs m = 1 mod Z.abs m.
Proof. exact (PowBool.pow_mod_inverse rec sp b e m i ip h w). Qed.
Print Assumptions pow_mod_inverse.

Theorem pow_mod_no_inverse (rec : list positive -> heap -> world -> task -> out) sp b e m ip h w :
  e < 0 -> m <> 0 -> modinv b (Z.abs m) = None ->
  runG rec value ip h w (bi_pow sp [VInt b; VInt e; VInt m]) = DoneG h w (inr (mkerr c_arith sp)) 0.
Proof. exact (PowBool.pow_mod_no_inverse rec sp b e m ip h w). Qed.
Print Assumptions pow_mod_no_inverse.

Theorem pow_mod_zero_modulus (rec : list positive -> heap -> world -> task -> out) sp b e ip h w :
  runG rec value ip h w (bi_pow sp [VInt b; VInt e; VInt 0]) = DoneG h w (inr (mkerr c_arith sp)) 0.
Proof. exact (PowBool.pow_mod_zero_modulus rec sp b e ip h w). Qed.
Print Assumptions pow_mod_zero_modulus.

(* Boolean ㄱ is conjunction, for any number of operands *)
Theorem bool_and_is_conjunction (rec : list positive -> heap -> world -> task -> out) sp b bs ip h w :
  runG rec value ip h w (bi_multiply sp (map VBool (b :: bs))) = DoneG h w (inl (VBool (forallb (fun x => x) (b :: bs)))) 0.
Proof. exact (PowBool.bool_and_is_conjunction rec sp b bs ip h w). Qed.
Print Assumptions bool_and_is_conjunction.

(* Boolean ㄷ is disjunction *)
Theorem bool_or_is_disjunction (rec : list positive -> heap -> world -> task -> out) sp b bs ip h w :
  runG rec value ip h w (bi_add sp (map VBool (b :: bs))) = DoneG h w (inl (VBool (existsb (fun x => x) (b :: bs)))) 0.
Proof. exact (PowBool.bool_or_is_disjunction rec sp b bs ip h w). Qed.
Print Assumptions bool_or_is_disjunction.

(* about the kernel REGENERATED from arithmetics.py *)
Theorem int_div_is_quot a d :
  d <> 0 -> GenArith.gen_int_div a d = Z.quot a d.
Proof. exact (LinkArith.int_div_is_quot a d). Qed.
Print Assumptions int_div_is_quot.

Theorem int_rem_is_rem a d :
  d <> 0 -> GenArith.gen_int_rem a d = Z.rem a d.
Proof. exact (LinkArith.int_rem_is_rem a d). Qed.
Print Assumptions int_rem_is_rem.

Theorem division_law a d :
  d <> 0 ->
  a = GenArith.gen_int_div a d * d + GenArith.gen_int_rem a d /\ Z.abs (GenArith.gen_int_rem a d) < Z.abs d
  /\ (0 <= a -> 0 <= GenArith.gen_int_rem a d) /\ (a <= 0 -> GenArith.gen_int_rem a d <= 0).
Proof. exact (LinkArith.division_law a d). Qed.
Print Assumptions division_law.

Theorem model_int_div a d :
  int_div a d = GenArith.gen_int_div a d.
Proof. exact (LinkArith.model_int_div a d). Qed.
Print Assumptions model_int_div.

Theorem model_int_rem a d :
  int_rem a d = GenArith.gen_int_rem a d.
Proof. exact (LinkArith.model_int_rem a d). Qed.
Print Assumptions model_int_rem.

Theorem kernel_handlers  :
  handled_as GenArith.gen_int_div_handlers ZDE DIVERR = true /\ handled_as GenArith.gen_int_rem_handlers ZDE DIVERR = true /\
  map fst GenArith.gen_pow3_handlers = [[86;97;108;117;101;69;114;114;111;114]%N] /\
  forallb (fun h => language_level (snd h)) (GenArith.gen_int_div_handlers ++ GenArith.gen_int_rem_handlers ++ GenArith.gen_pow3_handlers) = true.
Proof. exact (LinkArith.kernel_handlers ). Qed.
Print Assumptions kernel_handlers.

Theorem int_sum_exact l :
  py_sum 0 (nums_of (map VInt l)) = Some (NI (fold_right Z.add 0 l)).
Proof. exact (Arith.int_sum_exact l). Qed.
Print Assumptions int_sum_exact.

Theorem int_prod_exact x l :
  py_prod (NI x) (nums_of (map VInt l)) = Some (NI (x * fold_right Z.mul 1 l)).
Proof. exact (Arith.int_prod_exact x l). Qed.
Print Assumptions int_prod_exact.

Theorem int_sum_order_free l l' :
  Permutation l l' -> py_sum 0 (nums_of (map VInt l)) = py_sum 0 (nums_of (map VInt l')).
Proof. exact (Arith.int_sum_order_free l l'). Qed.
Print Assumptions int_sum_order_free.

Theorem int_prod_order_free x l l' :
  Permutation l l' -> py_prod (NI x) (nums_of (map VInt l)) = py_prod (NI x) (nums_of (map VInt l')).
Proof. exact (Arith.int_prod_order_free x l l'). Qed.
Print Assumptions int_prod_order_free.

Theorem distributes a b c :
  NI (a * (b + c)) = NI (a * b + a * c).
Proof. exact (Arith.distributes a b c). Qed.
Print Assumptions distributes.

Theorem modinv_sound b m i :
  0 < m -> modinv b m = Some i -> (b * i) mod m = 1 mod m /\ 0 <= i < m.
Proof. exact (Arith.modinv_sound b m i). Qed.
Print Assumptions modinv_sound.

Theorem pow_mod_neg_spec b e m i :
  0 < m -> e < 0 -> modinv b m = Some i -> ((i ^ (- e)) mod m * b ^ (- e)) mod m = 1 mod m.
Proof. exact (Arith.pow_mod_neg_spec b e m i). Qed.
Print Assumptions pow_mod_neg_spec.

(* REGENERATED: the model's `real` and `number` kinds are AS.Real / AS.Number of abstract_syntax.py as they read today *)
Theorem real_is_the_source_union v :
  is_real v = in_union GenKinds.gen_Real v.
Proof. exact (LinkKinds.real_is_the_source_union v). Qed.
Print Assumptions real_is_the_source_union.

Theorem number_is_the_source_union v :
  is_num v = in_union GenKinds.gen_Number v.
Proof. exact (LinkKinds.number_is_the_source_union v). Qed.
Print Assumptions number_is_the_source_union.

(* THE TOWER: a sum is of the widest kind among its operands (integer < real < complex) - never wider *)
Theorem sum_widens_only_when_needed  :
  forall l s v, py_sum s l = Some v -> rank v = widest l 0%nat.
Proof. exact (Complex.sum_widens_only_when_needed ). Qed.
Print Assumptions sum_widens_only_when_needed.

Theorem product_widens_only_when_needed  :
  forall l acc v, py_prod acc l = Some v -> rank v = widest l (rank acc).
Proof. exact (Complex.product_widens_only_when_needed ). Qed.
Print Assumptions product_widens_only_when_needed.

Theorem complex_add ar ai br bi :
  add_num (NC ar ai) (NC br bi) = Some (NC (fadd ar br) (fadd ai bi)).
Proof. exact (Complex.complex_add ar ai br bi). Qed.
Print Assumptions complex_add.

(* the four-product rule *)
Theorem complex_mul ar ai br bi :
  mul_num (NC ar ai) (NC br bi) = Some (NC (fsub (fmul ar br) (fmul ai bi)) (fadd (fmul ar bi) (fmul ai br))).
Proof. exact (Complex.complex_mul ar ai br bi). Qed.
Print Assumptions complex_mul.

Theorem real_joins_complex_as_x_plus_0i x br bi :
  add_num (NF x) (NC br bi) = Some (NC (fadd x br) (fadd f_zero bi)).
Proof. exact (Complex.real_joins_complex_as_x_plus_0i x br bi). Qed.
Print Assumptions real_joins_complex_as_x_plus_0i.

