(* Property C13: each delayed expression is evaluated at most once (call-by-need)
   ONLY statements: each theorem is closed by `exact` of a lemma proved elsewhere and followed by Print Assumptions. *)
From Coq Require Import ZArith NArith List Bool Lia Permutation FMapPositive.
Import ListNotations.
Require Import Base Strings Builtins Interp Machine Spec HeapFacts Refine1 Refine2 Refine3 Refine4 RunG Exc Once CountDef Count.

(* caches only fill and never change, along every evaluation *)
Theorem cache_stable_thunk n ip h w u h' w' r d :
  bs n ip h w (TThunk u) = Done h' w' r d -> uncached h u -> ~ In u ip -> inv h ip -> hle h h'.
Proof. exact (Once.cache_stable_thunk n ip h w u h' w' r d). Qed.
Print Assumptions cache_stable_thunk.

Theorem cache_stable_comp n ip h w c h' w' r d :
  bs n ip h w (TComp c) = Done h' w' r d -> inv h ip -> hle h h'.
Proof. exact (Once.cache_stable_comp n ip h w c h' w' r d). Qed.
Print Assumptions cache_stable_comp.

Theorem result_never_changes n ip h w c h' w' r d t cl r0 :
  bs n ip h w (TComp c) = Done h' w' r d -> inv h ip -> get h t = Some cl -> c_cache cl = Some r0 ->
  exists cl', get h' t = Some cl' /\ c_cache cl' = Some r0 /\ c_ast cl' = c_ast cl /\ c_env cl' = c_env cl.
Proof. exact (Once.result_never_changes n ip h w c h' w' r d t cl r0). Qed.
Print Assumptions result_never_changes.

(* an evaluated delayed expression holds its result - value or exception - in its cache *)
Theorem evaluated_is_cached n ip h w t h' w' r d :
  bs n ip h w (TThunk t) = Done h' w' r d -> uncached h t -> ~ In t ip -> inv h ip ->
  exists cl', get h' t = Some cl' /\ c_cache cl' = Some r.
Proof. exact (Once.evaluated_is_cached n ip h w t h' w' r d). Qed.
Print Assumptions evaluated_is_cached.

(* a demand for a cached expression consults no evaluator at all and changes nothing *)
Theorem cached_value_no_work (rec : list positive -> heap -> world -> task -> out) A (k:value -> Comp A) ip h w u cl v :
  get h u = Some cl -> c_cache cl = Some (inl v) ->
  runG rec A ip h w (Force (VThunk u) k) = runG rec A ip h w (k v).
Proof. exact (Once.cached_value_no_work rec A k ip h w u cl v). Qed.
Print Assumptions cached_value_no_work.

Theorem cached_error_no_work (rec : list positive -> heap -> world -> task -> out) A (k:value -> Comp A) ip h w u cl e :
  get h u = Some cl -> c_cache cl = Some (inr e) ->
  runG rec A ip h w (Force (VThunk u) k) = DoneG h w (inr e) 0.
Proof. exact (Once.cached_error_no_work rec A k ip h w u cl e). Qed.
Print Assumptions cached_error_no_work.

Theorem tail_returned_cached_no_eval n ip h w t cl h1 w1 t' cl' r d0 :
  get h t = Some cl -> run (bs n) (t :: ip) h w (interpret (c_ast cl) (c_env cl)) = Done h1 w1 (inl (VThunk t')) d0 ->
  get h1 t' = Some cl' -> c_cache cl' = Some r ->
  bs (S n) ip h w (TThunk t) = Done (set_cache h1 t r) w1 r d0.
Proof. exact (Once.tail_returned_cached_no_eval n ip h w t cl h1 w1 t' cl' r d0). Qed.
Print Assumptions tail_returned_cached_no_eval.

(* the trampolined machine computes exactly this semantics, so it evaluates no more than it does *)
Theorem machine_implements_spec fuel prog stdin h' w' r d :
  spec_main fuel prog stdin = Done h' w' r d ->
  exists q', reach (1 + d) (m_heap (init prog stdin)) (PositiveMap.empty _) (m_stack (init prog stdin)) (m_world (init prog stdin))
                   h' q' [Fr None (retc r) []] w'.
Proof. exact (Refine4.machine_implements_spec fuel prog stdin h' w' r d). Qed.
Print Assumptions machine_implements_spec.

(* the specification semantics instrumented with the LIST of delayed expressions whose evaluation begins: erasing the list gives back Spec.bs *)
Theorem bsl_erases  :
  forall n ip h w tk, fst (bsl n ip h w tk) = bs n ip h w tk.
Proof. exact (Count.bsl_erases ). Qed.
Print Assumptions bsl_erases.

Theorem trace_main_is_spec_main fuel prog stdin :
  fst (trace_main fuel prog stdin) = spec_main fuel prog stdin.
Proof. exact (Count.trace_main_is_spec_main fuel prog stdin). Qed.
Print Assumptions trace_main_is_spec_main.

(* AT MOST ONCE: in every completed run of main.main the list of delayed expressions that began evaluation has no repetition *)
Theorem evaluated_at_most_once fuel prog stdin h' w' r d l :
  trace_main fuel prog stdin = (Done h' w' r d, l) -> NoDup l.
Proof. exact (Count.evaluated_at_most_once fuel prog stdin h' w' r d l). Qed.
Print Assumptions evaluated_at_most_once.

(* LINEAR WORK: the number of evaluations is smaller than the number of delayed expressions created, and each evaluated one holds its result *)
Theorem work_is_linear fuel prog stdin h' w' r d l :
  trace_main fuel prog stdin = (Done h' w' r d, l) -> (length l < Pos.to_nat (next_t h'))%nat /\ forall u, In u l -> cached h' u.
Proof. exact (Count.work_is_linear fuel prog stdin h' w' r d l). Qed.
Print Assumptions work_is_linear.

