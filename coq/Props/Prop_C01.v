(* Property C01: a program means exactly its consonant skeleton, in every Unicode spelling.
   T1 / T1ts are exhaustive over their finite domains (the bound is in the statement); the definitions they speak about
   (normalize, ts_normalize_char) are built on the tables and dispatch REGENERATED from parse.py / parse.ts on every run. *)
From Coq Require Import NArith ZArith List Bool Lia.
Import ListNotations.
Require Import Base Num Lex Jamo SpecC01 Skeleton.
Require GenParse GenTS.
Open Scope N_scope.

(* every one of the 1,114,112 code points normalises (after NFD) to what the specification assigns to it;
   `free` = the twelve unassigned code points U+D7A4..U+D7AF, on which the specification is silent *)
Theorem normalize_char_is_spec : forall c, c < 0x110000 -> free c = false -> collapse (normalize c) = spec_char c.
Proof. exact Skeleton.normalize_is_spec. Qed.
Print Assumptions normalize_char_is_spec.

(* the TypeScript port: every UTF-16 code unit *)
Theorem ts_normalize_char_is_spec : forall c, c < 0x10000 -> free c = false -> collapse (GenTS.ts_normalize_char c) = spec_char c.
Proof.
  intros c Hc Hf. assert (H : ok_ts c = true). { apply (sweep_spec 0x10000 ok_ts); [vm_compute; reflexivity | exact Hc]. }
  unfold ok_ts in H. rewrite Hf in H. simpl in H. unfold leqb in H. destruct (list_eq_dec _ _ _); congruence.
Qed.
Print Assumptions ts_normalize_char_is_spec.

(* hence: the same letter contributes the same consonants in whichever block it is written, and both implementations agree *)
Theorem same_letter_same_consonants : forall c d, c < 0x110000 -> d < 0x110000 -> free c = false -> free d = false ->
  spec_char c = spec_char d -> collapse (normalize c) = collapse (normalize d).
Proof. intros c d Hc Hd Fc Fd E. rewrite !normalize_char_is_spec by assumption. exact E. Qed.
Print Assumptions same_letter_same_consonants.

Theorem python_and_typescript_agree : forall c, c < 0x10000 -> free c = false -> collapse (GenTS.ts_normalize_char c) = collapse (normalize c).
Proof. intros c Hc Fc. rewrite ts_normalize_char_is_spec, normalize_char_is_spec by (try assumption; lia). reflexivity. Qed.
Print Assumptions python_and_typescript_agree.

(* every table entry is  digit* (space (ieung|hieuh) digit* )* : every ieung / hieuh starts a new word, nothing else separates *)
Theorem table_words_wellformed :
  forallb word_ok (GenParse.T_U1100 ++ GenParse.T_JAMO ++ GenParse.T_U3165 ++ GenParse.T_UA960) = true.
Proof. vm_compute. reflexivity. Qed.
Print Assumptions table_words_wellformed.

(* ---- whole texts (any length): the words of the tokenizer are the maximal consonant runs of the normalised character stream ---- *)
Theorem stream_is_flat_map text : stream text = flat_map normalize (text ++ [10]).
Proof. exact (Skeleton.stream_is_flat_map text). Qed.
Print Assumptions stream_is_flat_map.
Theorem tokenize_words text : map fst (tokenize text) = words (stream text).
Proof. exact (Skeleton.tokenize_words text). Qed.
Print Assumptions tokenize_words.
(* ... which are the words of the SPECIFIED consonants of its characters: vowels, tone marks, finals contribute nothing, every non-Hangul character
   separates, every ieung / hieuh starts a new word (all of that is inside spec_char) *)
Theorem tokens_are_spec_words text : assigned (text ++ [10]) -> map fst (tokenize text) = words (flat_map spec_char (text ++ [10])).
Proof. exact (Skeleton.tokens_are_spec_words text). Qed.
Print Assumptions tokens_are_spec_words.
(* any two texts with the same skeleton have the same words ... *)
Theorem skeleton_determines_words t1 t2 : assigned (t1 ++ [10]) -> assigned (t2 ++ [10]) ->
  words (flat_map spec_char (t1 ++ [10])) = words (flat_map spec_char (t2 ++ [10])) -> map fst (tokenize t1) = map fst (tokenize t2).
Proof. exact (Skeleton.skeleton_determines_words t1 t2). Qed.
Print Assumptions skeleton_determines_words.
(* ... and parse to the same trees up to source spans, or are rejected for the same reason *)
Theorem skeleton_determines_tree t1 t2 : assigned (t1 ++ [10]) -> assigned (t2 ++ [10]) ->
  words (flat_map spec_char (t1 ++ [10])) = words (flat_map spec_char (t2 ++ [10])) ->
  match parse_text t1, parse_text t2 with
  | inl a1, inl a2 => map erase a1 = map erase a2
  | inr (e1, _), inr (e2, _) => e1 = e2
  | _, _ => False end.
Proof. exact (Skeleton.skeleton_determines_tree t1 t2). Qed.
Print Assumptions skeleton_determines_tree.
