(* Property C19: attaching a debugger observer is transparent and sees well-nested events
   ONLY statements: each theorem is closed by `exact` of a lemma proved elsewhere and followed by Print Assumptions. *)
From Coq Require Import ZArith NArith List Bool Lia Permutation FMapPositive.
Import ListNotations.
Require Import Base Strings Builtins Interp Machine Events EventsMatch.

Theorem observer_transparent lim s :
  match step_with lim s, step_with lim (erase s) with
  | inl s1, inl s2 => erase s1 = erase s2
  | inr o1, inr o2 => o1 = o2
  | _, _ => False end.
Proof. exact (Events.observer_transparent lim s). Qed.
Print Assumptions observer_transparent.

Theorem events_well_nested lim n prog stdin s :
  msteps lim n (init prog stdin) = inl s -> Inv s.
Proof. exact (Events.events_well_nested lim n prog stdin s). Qed.
Print Assumptions events_well_nested.

Theorem depth_zero_at_end lim n prog stdin s o :
  msteps lim n (init prog stdin) = inl s -> step_with lim s = inr o -> (forall v, o = ODone v \/ True) ->
  (exists v, o = ODone v) \/ (exists e, o = OErr e) ->
  depth (m_dbg s) = 0%nat /\ replay (rev (events (m_dbg s))) [] = Some [].
Proof. exact (Events.depth_zero_at_end lim n prog stdin s o). Qed.
Print Assumptions depth_zero_at_end.

(* what acceptance by the bracket checker MEANS, in the property's words: every 'about to evaluate' event of an accepted stream that ends no deeper than it began is followed by a 'finished' event of the same depth and the same delayed expression; what lies between is well nested above it and no prefix of it closes the pending evaluation - so that event is THE match *)
Theorem before_has_its_after d t sp r base s' :
  replay (EB d t sp :: r) base = Some s' -> (length s' <= length base)%nat ->
  exists inner sp' k rest, r = inner ++ EA d t sp' k :: rest /\ replay inner ((d, t) :: base) = Some ((d, t) :: base) /\ replay rest base = Some s' /\
    forall p q, inner = p ++ q -> exists top', replay p ((d, t) :: base) = Some (top' ++ (d, t) :: base).
Proof. exact (EventsMatch.before_has_its_after d t sp r base s'). Qed.
Print Assumptions before_has_its_after.

(* the depth of an 'about to evaluate' event is one more than the number of evaluations pending *)
Theorem before_depth d t sp r base s' :
  replay (EB d t sp :: r) base = Some s' -> d = S (length base).
Proof. exact (EventsMatch.before_depth d t sp r base s'). Qed.
Print Assumptions before_depth.

(* counting: begun + pending before = finished + pending after *)
Theorem replay_counts  :
  forall evs s s', replay evs s = Some s' -> (befores evs + length s = afters evs + length s')%nat.
Proof. exact (EventsMatch.replay_counts ). Qed.
Print Assumptions replay_counts.

(* on the machine, at EVERY moment of a run: the depth is the number of evaluations begun and not yet finished *)
Theorem depth_is_pending_count lim n prog stdin s :
  msteps lim n (init prog stdin) = inl s ->
  befores (rev (events (m_dbg s))) = (afters (rev (events (m_dbg s))) + depth (m_dbg s))%nat.
Proof. exact (EventsMatch.depth_is_pending_count lim n prog stdin s). Qed.
Print Assumptions depth_is_pending_count.

(* on the machine: when a run ends (value or language error) exactly as many 'finished' events as 'about to evaluate' events were delivered *)
Theorem finished_run_is_balanced lim n prog stdin s o :
  msteps lim n (init prog stdin) = inl s -> step_with lim s = inr o -> (exists v, o = ODone v) \/ (exists e, o = OErr e) ->
  befores (rev (events (m_dbg s))) = afters (rev (events (m_dbg s))).
Proof. exact (EventsMatch.finished_run_is_balanced lim n prog stdin s o). Qed.
Print Assumptions finished_run_is_balanced.

