(* Property C19: attaching a debugger observer is transparent and sees well-nested events
   ONLY statements: each theorem is closed by `exact` of a lemma proved elsewhere and followed by Print Assumptions. *)
From Coq Require Import ZArith NArith List Bool Lia Permutation FMapPositive.
Import ListNotations.
Require Import Base Strings Builtins Interp Machine Events.

Theorem observer_transparent lim s :
  match step_with lim s, step_with lim (erase s) with
  | inl s1, inl s2 => erase s1 = erase s2
  | inr o1, inr o2 => o1 = o2
  | _, _ => False end.
Proof. exact (Events.observer_transparent lim s). Qed.
Print Assumptions observer_transparent.

Theorem events_well_nested lim n prog stdin s :
  msteps lim n (init prog stdin) = inl s -> Inv s.
Proof. exact (Events.events_well_nested lim n prog stdin s). Qed.
Print Assumptions events_well_nested.

Theorem depth_zero_at_end lim n prog stdin s o :
  msteps lim n (init prog stdin) = inl s -> step_with lim s = inr o -> (forall v, o = ODone v \/ True) ->
  (exists v, o = ODone v) \/ (exists e, o = OErr e) ->
  depth (m_dbg s) = 0%nat /\ replay (rev (events (m_dbg s))) [] = Some [].
Proof. exact (Events.depth_zero_at_end lim n prog stdin s o). Qed.
Print Assumptions depth_zero_at_end.

