(* Property C20: evaluations are isolated from each other and independent of the host hash seed
   ONLY statements: each theorem is closed by `exact` of a lemma proved elsewhere and followed by Print Assumptions. *)
From Coq Require Import ZArith NArith List Bool Lia Permutation String FMapPositive.
Import ListNotations.
Require Import Isolation Base Strings Num Builtins Interp Machine Spec Refine2 FuelMono.

(* REGENERATED from the source: the uses of hash / id / set / frozenset / os.listdir are exactly the audited ones *)
Theorem nondet_sources_declared  :
  GenNondet.gen_nondet_calls = audited_calls.
Proof. exact (Isolation.nondet_sources_declared ). Qed.
Print Assumptions nondet_sources_declared.

(* REGENERATED: the process-wide mutable state is exactly the constant tables and the module cache *)
Theorem process_state_declared  :
  GenNondet.gen_process_state = audited_state.
Proof. exact (Isolation.process_state_declared ). Qed.
Print Assumptions process_state_declared.

Theorem no_hash_calls  :
  forallb (fun c => negb (String.eqb (snd c) "hash")) GenNondet.gen_nondet_calls = true.
Proof. exact (Isolation.no_hash_calls ). Qed.
Print Assumptions no_hash_calls.

(* the specification is a partial FUNCTION of (program, input): no history, no seed *)
Theorem spec_deterministic n m prog stdin h w r d h2 w2 r2 d2 :
  spec_main n prog stdin = Done h w r d -> spec_main m prog stdin = Done h2 w2 r2 d2 -> h = h2 /\ w = w2 /\ r = r2 /\ d = d2.
Proof. exact (FuelMono.spec_deterministic n m prog stdin h w r d h2 w2 r2 d2). Qed.
Print Assumptions spec_deterministic.

