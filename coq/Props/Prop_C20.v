(* Property C20: evaluations are isolated from each other and independent of the host hash seed
   ONLY statements: each theorem is closed by `exact` of a lemma proved elsewhere and followed by Print Assumptions. *)
From Coq Require Import ZArith NArith List Bool Lia Permutation String FMapPositive.
Import ListNotations.
Require Import Isolation Base Strings Num Builtins Interp Machine Spec Refine2 FuelMono ManySeq.

(* REGENERATED from the source: the uses of hash / id / set / frozenset / os.listdir are exactly the audited ones *)
Theorem nondet_sources_declared  :
  GenNondet.gen_nondet_calls = audited_calls.
Proof. exact (Isolation.nondet_sources_declared ). Qed.
Print Assumptions nondet_sources_declared.

(* REGENERATED: the process-wide mutable state is exactly the constant tables and the module cache *)
Theorem process_state_declared  :
  GenNondet.gen_process_state = audited_state.
Proof. exact (Isolation.process_state_declared ). Qed.
Print Assumptions process_state_declared.

Theorem no_hash_calls  :
  forallb (fun c => negb (String.eqb (snd c) "hash")) GenNondet.gen_nondet_calls = true.
Proof. exact (Isolation.no_hash_calls ). Qed.
Print Assumptions no_hash_calls.

(* the specification is a partial FUNCTION of (program, input): no history, no seed *)
Theorem spec_deterministic n m prog stdin h w r d h2 w2 r2 d2 :
  spec_main n prog stdin = Done h w r d -> spec_main m prog stdin = Done h2 w2 r2 d2 -> h = h2 /\ w = w2 /\ r = r2 /\ d = d2.
Proof. exact (FuelMono.spec_deterministic n m prog stdin h w r d h2 w2 r2 d2). Qed.
Print Assumptions spec_deterministic.

(* WHAT ONE EVALUATION HANDS TO THE NEXT: main.main on ps ++ qs answers ps and then qs started in the heap and world ps ended in - the pair (heap, world) is the only carried state (each evaluation starts in the empty environment by definition of spec_main_in) *)
Theorem evaluations_compose fuel fio :
  forall ps qs h w,
  spec_many fuel h w (ps ++ qs)%list fio =
  (spec_many fuel h w ps fio ++ match state_after fuel h w ps fio with Some (h', w') => spec_many fuel h' w' qs fio | None => [] end)%list.
Proof. exact (ManySeq.evaluations_compose fuel fio). Qed.
Print Assumptions evaluations_compose.

(* after the first failure nothing further is evaluated *)
Theorem nothing_after_a_failure fuel fio ps qs h w :
  state_after fuel h w ps fio = None ->
  spec_many fuel h w (ps ++ qs)%list fio = spec_many fuel h w ps fio.
Proof. exact (ManySeq.nothing_after_a_failure fuel fio ps qs h w). Qed.
Print Assumptions nothing_after_a_failure.

Theorem one_answer_per_expression fuel fio :
  forall ps h w h' w', state_after fuel h w ps fio = Some (h', w') ->
  List.length (spec_many fuel h w ps fio) = List.length ps.
Proof. exact (ManySeq.one_answer_per_expression fuel fio). Qed.
Print Assumptions one_answer_per_expression.

