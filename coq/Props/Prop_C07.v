(* Property C07: I/O happens only when an action is executed, once each, in bind order
   ONLY statements: each theorem is closed by `exact` of a lemma proved elsewhere and followed by Print Assumptions. *)
From Coq Require Import ZArith NArith List Bool Lia Permutation FMapPositive.
Import ListNotations.
Require Import Base Strings Num Builtins Interp Machine Spec Refine2 Pure HeapFacts Refine1 RunG IOSpec Eq Deep MonadLaws.
Open Scope Z_scope.
(* evaluating any expression (applying any callable, deep-forcing, computing keys) returns the world it was given: no input consumed, no output written *)
Theorem evaluation_is_pure n ip h w t h' w' r d :
  bs n ip h w (TThunk t) = Done h' w' r d ->
  w_in w' = w_in w /\ w_out w' = w_out w /\ w_disk w' = w_disk w /\ w_handles w' = w_handles w.
Proof. exact (Pure.evaluation_is_pure n ip h w t h' w' r d). Qed.
Print Assumptions evaluation_is_pure.

Theorem exec_non_action n ip h w v :
  is_io v = false -> exec (S n) ip h w v = Done h w (inl v) 0.
Proof. exact (IOSpec.exec_non_action n ip h w v). Qed.
Print Assumptions exec_non_action.

Theorem print_spec n ip h w s :
  exec (S (S n)) ip h w (VIO (IOPrint s)) = Done h (with_io w (w_in w) (w_out w ++ s ++ [10%N])) (inl VNil) 0.
Proof. exact (IOSpec.print_spec n ip h w s). Qed.
Print Assumptions print_spec.

Theorem read_line_spec n ip h w l r :
  w_in w = l :: r ->
  exec (S (S n)) ip h w (VIO IOInput) = Done h (with_io w r (w_out w)) (inl (VStr l)) 0.
Proof. exact (IOSpec.read_line_spec n ip h w l r). Qed.
Print Assumptions read_line_spec.

Theorem read_eof_spec n ip h w :
  w_in w = [] -> exec (S (S n)) ip h w (VIO IOInput) = Done h w (inl VNil) 0.
Proof. exact (IOSpec.read_eof_spec n ip h w). Qed.
Print Assumptions read_eof_spec.

Theorem return_spec n ip h w v :
  isthunk v = false -> is_io v = false ->
  exec (S (S n)) ip h w (VIO (IOReturn v)) = Done h w (inl v) 0.
Proof. exact (IOSpec.return_spec n ip h w v). Qed.
Print Assumptions return_spec.

(* executing a bind = executing the bound action to completion, THEN applying the continuation to its result in the heap and world it left, requiring an action, and executing that *)
Theorem bind_runs_in_order n ip h w sp m f argv :
  late_ok f = true ->
  exec (S n) ip h w (VIO (IOBind sp m f None argv)) =
  match exec n ip h w m with
  | Done h1 w1 (inl x) d1 =>
      updd (then_ (bs n ip h1 w1 (TComp (apply_body f sp [x]))) (fun h2 w2 r =>
            then_ (run (bs n) ip h2 w2 (force r)) (fun h3 w3 r' =>
              if is_io r' then exec n ip h3 w3 r' else Done h3 w3 (inr (mkerr c_type sp)) 0))) d1
  | Done h1 w1 (inr e) d1 => Done h1 w1 (inr e) d1
  | o => o end.
Proof. exact (IOSpec.bind_runs_in_order n ip h w sp m f argv). Qed.
Print Assumptions bind_runs_in_order.

Theorem bind_handler n ip h w sp m f rej argv h1 w1 e d1 :
  exec n ip h w m = Done h1 w1 (inr e) d1 -> unmodelled e = false -> late_ok rej = true ->
  exec (S n) ip h w (VIO (IOBind sp m f (Some rej) argv)) =
  updd (then_ (bs n ip h1 w1 (TComp (apply_body rej sp [VErr (e_spans e) (e_vals e)]))) (fun h2 w2 r =>
        then_ (run (bs n) ip h2 w2 (force r)) (fun h3 w3 r' =>
          if is_io r' then exec n ip h3 w3 r' else Done h3 w3 (inr (mkerr c_type sp)) 0))) d1.
Proof. exact (IOSpec.bind_handler n ip h w sp m f rej argv h1 w1 e d1). Qed.
Print Assumptions bind_handler.

(* a continuation that is no function (or a literal naming no built-in) is accepted when the bind is BUILT; the bound action runs first, with its effects, and the bind then fails in the world it left *)
Theorem bind_continuation_checked_late n ip h w sp m f rej argv h1 w1 x d1 :
  late_ok f = false ->
  exec n ip h w m = Done h1 w1 (inl x) d1 ->
  exec (S n) ip h w (VIO (IOBind sp m f rej argv)) = Done h1 w1 (inr (mkerr (late_code f) sp)) d1.
Proof. exact (IOSpec.bind_continuation_checked_late n ip h w sp m f rej argv h1 w1 x d1). Qed.
Print Assumptions bind_continuation_checked_late.

(* a bind without handler IS sequencing: the bound action, then (apply the continuation, require an action, execute it) *)
Theorem bind_is_then n ip h w sp m f argv :
  late_ok f = true ->
  exec (S n) ip h w (VIO (IOBind sp m f None argv)) = then_ (exec n ip h w m) (kleisli n ip f sp).
Proof. exact (MonadLaws.bind_is_then n ip h w sp m f argv). Qed.
Print Assumptions bind_is_then.

(* return a >>= f  =  f a   (a: a value an action can yield - not delayed, not itself an action) *)
Theorem left_identity n ip h w sp a f argv :
  isthunk a = false -> is_io a = false -> late_ok f = true ->
  exec (S (S (S n))) ip h w (VIO (IOBind sp (VIO (IOReturn a)) f None argv)) = kleisli (S (S n)) ip f sp h w a.
Proof. exact (MonadLaws.left_identity n ip h w sp a f argv). Qed.
Print Assumptions left_identity.

(* the boundary of left identity: the executor keeps going while the value is an action, so a RETURNED action is executed too (known finding F25) *)
Theorem return_of_action_runs_it n ip h w i :
  exec (S (S n)) ip h w (VIO (IOReturn (VIO i))) = exec (S n) ip h w (VIO i).
Proof. exact (MonadLaws.return_of_action_runs_it n ip h w i). Qed.
Print Assumptions return_of_action_runs_it.

(* no action ever yields an action *)
Theorem exec_result_not_io  :
  forall n ip h w v h' w' x d, exec n ip h w v = Done h' w' (inl x) d -> is_io x = false.
Proof. exact (MonadLaws.exec_result_not_io ). Qed.
Print Assumptions exec_result_not_io.

(* m >>= return  =  m : same result, world AND heap (x fully evaluated, as everything ㄱㅅ builds is - return_yields_deep) *)
Theorem right_identity n ip h w sp m argv h1 w1 x d1 :
  exec n ip h w m = Done h1 w1 (inl x) d1 -> dstrict x -> (vdepth x + 2 <= n)%nat ->
  exec (S n) ip h w (VIO (IOBind sp m (EBuiltin b_return) None argv)) = Done h1 w1 (inl x) d1.
Proof. exact (MonadLaws.right_identity n ip h w sp m argv h1 w1 x d1). Qed.
Print Assumptions right_identity.

Theorem right_identity_failure n ip h w sp m argv h1 w1 e d1 :
  exec n ip h w m = Done h1 w1 (inr e) d1 ->
  exec (S n) ip h w (VIO (IOBind sp m (EBuiltin b_return) None argv)) = Done h1 w1 (inr e) d1.
Proof. exact (MonadLaws.right_identity_failure n ip h w sp m argv h1 w1 e d1). Qed.
Print Assumptions right_identity_failure.

Theorem return_yields_deep n sp a ip h w h' w' v d :
  bs (S n) ip h w (TComp (apply_body (EBuiltin b_return) sp [a])) = Done h' w' (inl v) d -> inv h ip ->
  exists x, v = VIO (IOReturn x) /\ dstrict x.
Proof. exact (MonadLaws.return_yields_deep n sp a ip h w h' w' v d). Qed.
Print Assumptions return_yields_deep.

(* (m >>= f) >>= g  =  m, then f's action, then g's action: sequencing is associative (then_assoc) *)
Theorem assoc_left n ip h w sp m f g argv argv' :
  late_ok f = true -> late_ok g = true ->
  exec (S (S n)) ip h w (VIO (IOBind sp (VIO (IOBind sp m f None argv)) g None argv')) = pipeline3 n ip sp h w m f g.
Proof. exact (MonadLaws.assoc_left n ip h w sp m f g argv argv'). Qed.
Print Assumptions assoc_left.

