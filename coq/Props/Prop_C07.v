(* Property C07: I/O happens only when an action is executed, once each, in bind order
   ONLY statements: each theorem is closed by `exact` of a lemma proved elsewhere and followed by Print Assumptions. *)
From Coq Require Import ZArith NArith List Bool Lia Permutation FMapPositive.
Import ListNotations.
Require Import Base Strings Num Builtins Interp Machine Spec Refine2 Pure HeapFacts Refine1 RunG IOSpec.
Open Scope Z_scope.
(* evaluating any expression (applying any callable, deep-forcing, computing keys) returns the world it was given: no input consumed, no output written *)
Theorem evaluation_is_pure n ip h w t h' w' r d :
  bs n ip h w (TThunk t) = Done h' w' r d -> w' = w.
Proof. exact (Pure.evaluation_is_pure n ip h w t h' w' r d). Qed.
Print Assumptions evaluation_is_pure.

Theorem exec_non_action n ip h w v :
  is_io v = false -> exec (S n) ip h w v = Done h w (inl v) 0.
Proof. exact (IOSpec.exec_non_action n ip h w v). Qed.
Print Assumptions exec_non_action.

Theorem print_spec n ip h w s :
  exec (S (S n)) ip h w (VIO (IOPrint s)) = Done h {| w_in := w_in w; w_out := w_out w ++ s ++ [10%N] |} (inl VNil) 0.
Proof. exact (IOSpec.print_spec n ip h w s). Qed.
Print Assumptions print_spec.

Theorem read_line_spec n ip h w l r :
  w_in w = l :: r ->
  exec (S (S n)) ip h w (VIO IOInput) = Done h {| w_in := r; w_out := w_out w |} (inl (VStr l)) 0.
Proof. exact (IOSpec.read_line_spec n ip h w l r). Qed.
Print Assumptions read_line_spec.

Theorem read_eof_spec n ip h w :
  w_in w = [] -> exec (S (S n)) ip h w (VIO IOInput) = Done h w (inl VNil) 0.
Proof. exact (IOSpec.read_eof_spec n ip h w). Qed.
Print Assumptions read_eof_spec.

Theorem return_spec n ip h w v :
  isthunk v = false -> is_io v = false ->
  exec (S (S n)) ip h w (VIO (IOReturn v)) = Done h w (inl v) 0.
Proof. exact (IOSpec.return_spec n ip h w v). Qed.
Print Assumptions return_spec.

(* executing a bind = executing the bound action to completion, THEN applying the continuation to its result in the heap and world it left, requiring an action, and executing that *)
Theorem bind_runs_in_order n ip h w sp m f argv :
  exec (S n) ip h w (VIO (IOBind sp m f None argv)) =
  match exec n ip h w m with
  | Done h1 w1 (inl x) d1 =>
      updd (then_ (bs n ip h1 w1 (TComp (apply_body f sp [x]))) (fun h2 w2 r =>
            then_ (run (bs n) ip h2 w2 (force r)) (fun h3 w3 r' =>
              if is_io r' then exec n ip h3 w3 r' else Done h3 w3 (inr (mkerr c_type sp)) 0))) d1
  | Done h1 w1 (inr e) d1 => Done h1 w1 (inr e) d1
  | o => o end.
Proof. exact (IOSpec.bind_runs_in_order n ip h w sp m f argv). Qed.
Print Assumptions bind_runs_in_order.

Theorem bind_handler n ip h w sp m f rej argv h1 w1 e d1 :
  exec n ip h w m = Done h1 w1 (inr e) d1 -> unmodelled e = false ->
  exec (S n) ip h w (VIO (IOBind sp m f (Some rej) argv)) =
  updd (then_ (bs n ip h1 w1 (TComp (apply_body rej sp [VErr (e_spans e) (e_vals e)]))) (fun h2 w2 r =>
        then_ (run (bs n) ip h2 w2 (force r)) (fun h3 w3 r' =>
          if is_io r' then exec n ip h3 w3 r' else Done h3 w3 (inr (mkerr c_type sp)) 0))) d1.
Proof. exact (IOSpec.bind_handler n ip h w sp m f rej argv h1 w1 e d1). Qed.
Print Assumptions bind_handler.

