(* Property C05: tail calls use constant stack; deep recursion fails only by the explicit limit
   ONLY statements: each theorem is closed by `exact` of a lemma proved elsewhere and followed by Print Assumptions. *)
From Coq Require Import ZArith NArith List Bool Lia Permutation FMapPositive.
Import ListNotations.
Require Import Base Strings Builtins Interp Machine Spec HeapFacts Refine1 Refine2 Refine3 Refine4 LinkStack Events Progress.

(* every intermediate machine state has at most 1 + d frames, d the NON-TAIL demand depth of the big-step run (a tail-returned thunk costs nothing) *)
Theorem machine_implements_spec fuel prog stdin h' w' r d :
  spec_main fuel prog stdin = Done h' w' r d ->
  exists q', reach (1 + d) (m_heap (init prog stdin)) (PositiveMap.empty _) (m_stack (init prog stdin)) (m_world (init prog stdin))
                   h' q' [Fr None (retc r) []] w'.
Proof. exact (Refine4.machine_implements_spec fuel prog stdin h' w' r d). Qed.
Print Assumptions machine_implements_spec.

Theorem real_machine_implements_spec fuel prog stdin h' w' r d :
  spec_main fuel prog stdin = Done h' w' r d -> (1 + d <= MAX_STACK_SIZE)%nat ->
  exists n s, lsteps n (init prog stdin) = inl s /\ m_heap s = h' /\ m_world s = w' /\ m_stack s = [Fr None (retc r) []].
Proof. exact (Refine4.real_machine_implements_spec fuel prog stdin h' w' r d). Qed.
Print Assumptions real_machine_implements_spec.

Theorem model_max_stack  :
  MAX_STACK_SIZE = GenStack.gen_max_stack_size.
Proof. exact (LinkStack.model_max_stack ). Qed.
Print Assumptions model_max_stack.

(* ordinary recursion works to a depth of thousands of frames *)
Theorem max_stack_thousands  :
  (1000 <= GenStack.gen_max_stack_size)%nat.
Proof. exact (LinkStack.max_stack_thousands ). Qed.
Print Assumptions max_stack_thousands.

(* the only abnormal end caused by the stack is the explicit limit outcome *)
Theorem outcomes_exhaustive fuel prog stdin :
  match fst (run_main fuel prog stdin) with ODone _ | OErr _ | OLimit | OFuel => True | OStuck _ => False end.
Proof. exact (Progress.outcomes_exhaustive fuel prog stdin). Qed.
Print Assumptions outcomes_exhaustive.

