(* Property C05: tail calls use constant stack; deep recursion fails only by the explicit limit
   ONLY statements: each theorem is closed by `exact` of a lemma proved elsewhere and followed by Print Assumptions. *)
From Coq Require Import ZArith NArith List Bool Lia Permutation FMapPositive.
Import ListNotations.
Require Import Base Strings Builtins Interp Machine Spec HeapFacts Refine1 Refine2 Refine3 Refine4 LinkStack Events Progress RunG FuelMono Loops Float Num Arith Loops2 SeqProofs CallRules.
Open Scope Z_scope.
(* every intermediate machine state has at most 1 + d frames, d the NON-TAIL demand depth of the big-step run (a tail-returned thunk costs nothing) *)
Theorem machine_implements_spec fuel prog stdin h' w' r d :
  spec_main fuel prog stdin = Done h' w' r d ->
  exists q', reach (1 + d) (m_heap (init prog stdin)) (PositiveMap.empty _) (m_stack (init prog stdin)) (m_world (init prog stdin))
                   h' q' [Fr None (retc r) []] w'.
Proof. exact (Refine4.machine_implements_spec fuel prog stdin h' w' r d). Qed.
Print Assumptions machine_implements_spec.

Theorem real_machine_implements_spec fuel prog stdin h' w' r d :
  spec_main fuel prog stdin = Done h' w' r d -> (1 + d <= MAX_STACK_SIZE)%nat ->
  exists n s, lsteps n (init prog stdin) = inl s /\ m_heap s = h' /\ m_world s = w' /\ m_stack s = [Fr None (retc r) []].
Proof. exact (Refine4.real_machine_implements_spec fuel prog stdin h' w' r d). Qed.
Print Assumptions real_machine_implements_spec.

Theorem model_max_stack  :
  MAX_STACK_SIZE = GenStack.gen_max_stack_size.
Proof. exact (LinkStack.model_max_stack ). Qed.
Print Assumptions model_max_stack.

(* ordinary recursion works to a depth of thousands of frames *)
Theorem max_stack_thousands  :
  (1000 <= GenStack.gen_max_stack_size)%nat.
Proof. exact (LinkStack.max_stack_thousands ). Qed.
Print Assumptions max_stack_thousands.

(* the only abnormal end caused by the stack is the explicit limit outcome *)
Theorem outcomes_exhaustive fuel prog stdin :
  match fst (run_main fuel prog stdin) with ODone _ | OErr _ | OLimit | OFuel => True | OStuck _ => False end.
Proof. exact (Progress.outcomes_exhaustive fuel prog stdin). Qed.
Print Assumptions outcomes_exhaustive.

(* THE LOOP RULE: an invariant whose every link returns the next delayed call in tail position, after at most c frames of its own work, is evaluated within c frames - for ANY number of links *)
Theorem tail_loop_rule (w:world) (c:nat) (Q:res -> Prop) (P:nat -> heap -> positive -> list positive -> Prop) :
  (forall k h t ip, P (S k) h t ip ->
     exists cl n0 h1 t' d0, get h t = Some cl
       /\ run (bs n0) (t :: ip) h w (interpret (c_ast cl) (c_env cl)) = Done h1 w (inl (VThunk t')) d0
       /\ (d0 <= c)%nat /\ uncached h1 t' /\ ~ In t' (t :: ip) /\ P k h1 t' (t :: ip)) ->
  (forall h t ip, P 0%nat h t ip -> exists n h' r d, bs n ip h w (TThunk t) = Done h' w r d /\ (d <= c)%nat /\ Q r) ->
  forall k h t ip, P k h t ip -> exists n h' r d, bs n ip h w (TThunk t) = Done h' w r d /\ (d <= c)%nat /\ Q r.
Proof. exact (Loops.tail_loop_rule w c Q P). Qed.
Print Assumptions tail_loop_rule.

(* A CONCRETE LOOP, EVERY N: (fun n => (0 < n) selects [self (n + -1); 0]) N evaluates to 0 within 4 frames (symbolic execution of one iteration on an arbitrary heap + the loop rule) *)
Theorem countdown_constant_depth (N:nat) (w:world) :
  exists fuel h' d, bs fuel [] (fst (alloc heap0 (countdown (Z.of_nat N)) e0)) w (TThunk 1%positive) = Done h' w (inl (VInt 0)) d /\ (d <= 4)%nat.
Proof. exact (Loops2.countdown_constant_depth N w). Qed.
Print Assumptions countdown_constant_depth.

(* main.main on that program prints 0 with demand depth <= 5, for every N *)
Theorem countdown_main (N:nat) :
  exists fuel h' w' d, spec_main fuel (countdown (Z.of_nat N)) [] = Done h' w' (inl (VStr [48%N])) d /\ (d <= 5)%nat.
Proof. exact (Loops2.countdown_main N). Qed.
Print Assumptions countdown_main.

(* hence the trampolined machine runs it with at most 6 frames on its stack, for every N (machine_implements_spec) *)
Theorem countdown_machine_frames (N:nat) :
  exists d h' w' q', (d <= 5)%nat /\
    reach (1 + d) (m_heap (init (countdown (Z.of_nat N)) [])) (PositiveMap.empty _) (m_stack (init (countdown (Z.of_nat N)) [])) (m_world (init (countdown (Z.of_nat N)) []))
          h' q' [Fr None (retc (inl (VStr [48%N]))) []] w'.
Proof. exact (Loops2.countdown_machine_frames N). Qed.
Print Assumptions countdown_machine_frames.

(* the same numbers by running the model (N = 0, 1, 7, 300): a test, not the theorem *)
Theorem countdown_runs  :
  map (fun N => match spec_main 2000 (countdown N) [] with Done _ _ r d => Some (r, d) | _ => None end) [0; 1; 7; 300]
  = [Some (inl (VStr [48%N]), 4%nat); Some (inl (VStr [48%N]), 5%nat); Some (inl (VStr [48%N]), 5%nat); Some (inl (VStr [48%N]), 5%nat)].
Proof. exact (Loops2.countdown_runs ). Qed.
Print Assumptions countdown_runs.

(* a call through a pipe stays a tail call: the pipe returns what its LAST stage returned, as it is (a delayed call is handed back, not evaluated inside the pipe's frame) *)
Theorem call_pipe rec ip h w sp i es argv :
  runG rec value ip h w (apply_body (EFun (FPipe i es)) sp argv) = pipe_spec rec ip sp es h w argv.
Proof. exact (CallRules.call_pipe rec ip h w sp i es argv). Qed.
Print Assumptions call_pipe.

