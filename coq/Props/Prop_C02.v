(* Property C02: core evaluation is the lexically scoped non-strict calculus of the specification
   ONLY statements: each theorem is closed by `exact` of a lemma proved elsewhere and followed by Print Assumptions. *)
From Coq Require Import ZArith NArith List Bool Lia Permutation FMapPositive.
Import ListNotations.
Require Import Base Strings Builtins Interp Machine Spec HeapFacts Refine1 Refine2 Refine3 Refine4 Num FuelMono LinkStack.

(* the trampolined machine of interpret.evaluate (frames, cache boxes, requestor chains, tail replacement) computes the big-step call-by-need semantics Spec.bs: same answer, same heap, same world, through states of at most 1 + demand-depth frames *)
Theorem machine_implements_spec fuel prog stdin h' w' r d :
  spec_main fuel prog stdin = Done h' w' r d ->
  exists q', reach (1 + d) (m_heap (init prog stdin)) (PositiveMap.empty _) (m_stack (init prog stdin)) (m_world (init prog stdin))
                   h' q' [Fr None (retc r) []] w'.
Proof. exact (Refine4.machine_implements_spec fuel prog stdin h' w' r d). Qed.
Print Assumptions machine_implements_spec.

(* and with the explicit MAX_STACK_SIZE guard it never reports the limit when the demand depth fits *)
Theorem real_machine_implements_spec fuel prog stdin h' w' r d :
  spec_main fuel prog stdin = Done h' w' r d -> (1 + d <= MAX_STACK_SIZE)%nat ->
  exists n s, lsteps n (init prog stdin) = inl s /\ m_heap s = h' /\ m_world s = w' /\ m_stack s = [Fr None (retc r) []].
Proof. exact (Refine4.real_machine_implements_spec fuel prog stdin h' w' r d). Qed.
Print Assumptions real_machine_implements_spec.

(* the specification is a partial function: more fuel never changes an answer *)
Theorem bs_fuel_mono n m ip h w tk h' w' r d :
  (n <= m)%nat -> bs n ip h w tk = Done h' w' r d -> bs m ip h w tk = Done h' w' r d.
Proof. exact (FuelMono.bs_fuel_mono n m ip h w tk h' w' r d). Qed.
Print Assumptions bs_fuel_mono.

Theorem spec_deterministic n m prog stdin h w r d h2 w2 r2 d2 :
  spec_main n prog stdin = Done h w r d -> spec_main m prog stdin = Done h2 w2 r2 d2 -> h = h2 /\ w = w2 /\ r = r2 /\ d = d2.
Proof. exact (FuelMono.spec_deterministic n m prog stdin h w r d h2 w2 r2 d2). Qed.
Print Assumptions spec_deterministic.

(* the bound is the constant regenerated from interpret.py *)
Theorem model_max_stack  :
  MAX_STACK_SIZE = GenStack.gen_max_stack_size.
Proof. exact (LinkStack.model_max_stack ). Qed.
Print Assumptions model_max_stack.

