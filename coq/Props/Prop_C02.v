(* Property C02: core evaluation is the lexically scoped non-strict calculus of the specification
   ONLY statements: each theorem is closed by `exact` of a lemma proved elsewhere and followed by Print Assumptions. *)
From Coq Require Import ZArith NArith List Bool Lia Permutation FMapPositive.
Import ListNotations.
Require Import Base Strings Builtins Interp Machine Spec HeapFacts Refine1 Refine2 Refine3 Refine4 Num FuelMono LinkStack Float Scope RunG SeqProofs CallRules LinkKinds.
Open Scope Z_scope.
(* the trampolined machine of interpret.evaluate (frames, cache boxes, requestor chains, tail replacement) computes the big-step call-by-need semantics Spec.bs: same answer, same heap, same world, through states of at most 1 + demand-depth frames *)
Theorem machine_implements_spec fuel prog stdin h' w' r d :
  spec_main fuel prog stdin = Done h' w' r d ->
  exists q', reach (1 + d) (m_heap (init prog stdin)) (PositiveMap.empty _) (m_stack (init prog stdin)) (m_world (init prog stdin))
                   h' q' [Fr None (retc r) []] w'.
Proof. exact (Refine4.machine_implements_spec fuel prog stdin h' w' r d). Qed.
Print Assumptions machine_implements_spec.

(* main.main on a text holding SEVERAL expressions: the machine answers every expression as the specification does, each started in the heap and the world (input left, output, files, module registry) the previous one ended in; the invariants are re-established at every end, so the refinement chains *)
Theorem machine_implements_spec_many fuel progs fio :
  forall h w, inv h [] -> many_ok fuel h w progs fio.
Proof. exact (Refine4.machine_implements_spec_many fuel progs fio). Qed.
Print Assumptions machine_implements_spec_many.

(* and with the explicit MAX_STACK_SIZE guard it never reports the limit when the demand depth fits *)
Theorem real_machine_implements_spec fuel prog stdin h' w' r d :
  spec_main fuel prog stdin = Done h' w' r d -> (1 + d <= MAX_STACK_SIZE)%nat ->
  exists n s, lsteps n (init prog stdin) = inl s /\ m_heap s = h' /\ m_world s = w' /\ m_stack s = [Fr None (retc r) []].
Proof. exact (Refine4.real_machine_implements_spec fuel prog stdin h' w' r d). Qed.
Print Assumptions real_machine_implements_spec.

(* the specification is a partial function: more fuel never changes an answer *)
Theorem bs_fuel_mono n m ip h w tk h' w' r d :
  (n <= m)%nat -> bs n ip h w tk = Done h' w' r d -> bs m ip h w tk = Done h' w' r d.
Proof. exact (FuelMono.bs_fuel_mono n m ip h w tk h' w' r d). Qed.
Print Assumptions bs_fuel_mono.

Theorem spec_deterministic n m prog stdin h w r d h2 w2 r2 d2 :
  spec_main n prog stdin = Done h w r d -> spec_main m prog stdin = Done h2 w2 r2 d2 -> h = h2 /\ w = w2 /\ r = r2 /\ d = d2.
Proof. exact (FuelMono.spec_deterministic n m prog stdin h w r d h2 w2 r2 d2). Qed.
Print Assumptions spec_deterministic.

(* the bound is the constant regenerated from interpret.py *)
Theorem model_max_stack  :
  MAX_STACK_SIZE = GenStack.gen_max_stack_size.
Proof. exact (LinkStack.model_max_stack ). Qed.
Print Assumptions model_max_stack.

(* LEXICAL SCOPE, for an arbitrary evaluation oracle (hence in every context): a definition captures the environment of its site plus itself *)
Theorem definition_captures_its_environment (rec : list positive -> heap -> world -> task -> out) b sp e ip h w :
  run rec ip h w (interpret (FunDef b sp) e) = Done (fst (newclo h b e)) w (inl (VFun (FClo (next_f h)))) 0
  /\ PositiveMap.find (next_f h) (clos (fst (newclo h b e))) = Some {| f_body := b; f_env := {| funs := funs e ++ [next_f h]; args := args e |} |}.
Proof. exact (Scope.definition_captures_its_environment rec b sp e ip h w). Qed.
Print Assumptions definition_captures_its_environment.

(* a self reference denotes that very function *)
Theorem self_reference (rec : list positive -> heap -> world -> task -> out) outer self argsv sp ip h w :
  run rec ip h w (interpret (FunRef 0 sp) {| funs := outer ++ [self]; args := argsv |}) = Done h w (inl (VFun (FClo self))) 0.
Proof. exact (Scope.self_reference rec outer self argsv sp ip h w). Qed.
Print Assumptions self_reference.

(* index k denotes the k-th enclosing function *)
Theorem outer_reference (rec : list positive -> heap -> world -> task -> out) outer f inner argsv sp ip h w :
  run rec ip h w (interpret (FunRef (Z.of_nat (length inner)) sp) {| funs := outer ++ f :: inner; args := argsv |}) = Done h w (inl (VFun (FClo f))) 0.
Proof. exact (Scope.outer_reference rec outer f inner argsv sp ip h w). Qed.
Print Assumptions outer_reference.

(* negative indices count from the outermost function *)
Theorem outermost_reference (rec : list positive -> heap -> world -> task -> out) outer f inner argsv sp ip h w :
  run rec ip h w (interpret (FunRef (- Z.of_nat (length outer) - 1) sp) {| funs := outer ++ f :: inner; args := argsv |}) = Done h w (inl (VFun (FClo f))) 0.
Proof. exact (Scope.outermost_reference rec outer f inner argsv sp ip h w). Qed.
Print Assumptions outermost_reference.

Theorem reference_out_of_range (rec : list positive -> heap -> world -> task -> out) r sp e ip h w :
  (Z.of_nat (length (funs e)) <= r \/ r < - Z.of_nat (length (funs e))) ->
  run rec ip h w (interpret (FunRef r sp) e) = Done h w (inr (mkerr c_range sp)) 0.
Proof. exact (Scope.reference_out_of_range rec r sp e ip h w). Qed.
Print Assumptions reference_out_of_range.

(* a call evaluates the body in the environment captured at the DEFINITION plus this call's arguments: the caller's environment does not occur *)
Theorem call_uses_definition_environment (rec : list positive -> heap -> world -> task -> out) g cl argv sp ip h w :
  PositiveMap.find g (clos h) = Some cl ->
  run rec ip h w (apply_body (EFun (FClo g)) sp argv)
  = let (h', t) := alloc h (f_body cl) {| funs := funs (f_env cl); args := args (f_env cl) ++ [argv] |} in Done h' w (inl (VThunk t)) 0.
Proof. exact (Scope.call_uses_definition_environment rec g cl argv sp ip h w). Qed.
Print Assumptions call_uses_definition_environment.

Theorem call_binds_arguments g cl argv h t h' :
  PositiveMap.find g (clos h) = Some cl -> alloc h (f_body cl) {| funs := funs (f_env cl); args := args (f_env cl) ++ [argv] |} = (h', t) ->
  exists c, get h' t = Some c /\ c_ast c = f_body cl /\ funs (c_env c) = funs (f_env cl) /\ rnth (args (c_env c)) 0 = Some argv /\ c_cache c = None.
Proof. exact (Scope.call_binds_arguments g cl argv h t h'). Qed.
Print Assumptions call_binds_arguments.

(* the position of an argument reference is whatever integer its position expression evaluates to (literal or computed); the argument is returned unevaluated *)
Theorem argument_reference_by_value (rec : list positive -> heap -> world -> task -> out) ia r sp e argv ip h w (i:Z) h1 w1 d :
  rnth (args e) r = Some argv -> existsb (Pos.eqb (next_t h)) ip = false ->
  rec ip (fst (alloc h ia e)) w (TThunk (next_t h)) = Done h1 w1 (inl (VInt i)) d ->
  run rec ip h w (interpret (ArgRef ia r sp) e)
  = Done h1 w1 (if (0 <=? i) && (i <? Z.of_nat (length argv)) then match nth_error argv (Z.to_nat i) with Some v => inl v | None => inr (mkerr c_range sp) end
               else inr (mkerr c_range sp)) (1 + d).
Proof. exact (Scope.argument_reference_by_value rec ia r sp e argv ip h w i h1 w1 d). Qed.
Print Assumptions argument_reference_by_value.

(* CALLING A VALUE THAT IS NOT A FUNCTION: Booleans, dictionaries, lists, strings, byte strings, exceptions (and functions) are callable, nothing else *)
Theorem callable_kinds rec ip h w sp v :
  runG rec value ip h w (e <- proc_functional sp (inr v) true ;; Ret (VNil)) =
  match v with
  | VBool _ | VDict _ | VList _ | VStr _ | VBytes _ | VErr _ _ | VFun _ | VComplex _ _ => DoneG h w (inl VNil) 0
  | _ => DoneG h w (inr (mkerr c_type sp)) 0 end.
Proof. exact (CallRules.callable_kinds rec ip h w sp v). Qed.
Print Assumptions callable_kinds.

(* Boolean: True selects the first of exactly two arguments, False the second; neither is evaluated *)
Theorem call_boolean rec ip h w sp b x y :
  runG rec value ip h w (apply_body (EBool b) sp [x; y]) = DoneG h w (inl (if b then x else y)) 0.
Proof. exact (CallRules.call_boolean rec ip h w sp b x y). Qed.
Print Assumptions call_boolean.

Theorem call_boolean_arity rec ip h w sp b argv :
  length argv <> 2%nat -> runG rec value ip h w (apply_body (EBool b) sp argv) = DoneG h w (inr (mkerr c_value sp)) 0.
Proof. exact (CallRules.call_boolean_arity rec ip h w sp b argv). Qed.
Print Assumptions call_boolean_arity.

(* the one indexing rule: positions -len .. len-1, a negative position counted from the end once *)
Theorem index_rule {A} (l:list A) (i:Z) :
  py_nth l i = if (- Z.of_nat (length l) <=? i) && (i <? Z.of_nat (length l))
               then nth_error l (Z.to_nat (i mod Z.of_nat (length l))) else None.
Proof. exact (CallRules.index_rule l i). Qed.
Print Assumptions index_rule.

(* list: the element at the position, unevaluated; otherwise the range error *)
Theorem call_list rec ip h w sp l i :
  runG rec value ip h w (apply_body (ESeq (VList l)) sp [VInt i]) =
  match py_nth l i with Some x => DoneG h w (inl x) 0 | None => DoneG h w (inr (mkerr c_range sp)) 0 end.
Proof. exact (CallRules.call_list rec ip h w sp l i). Qed.
Print Assumptions call_list.

Theorem call_exception rec ip h w sp s l i :
  runG rec value ip h w (apply_body (ESeq (VErr s l)) sp [VInt i]) =
  match py_nth l i with Some x => DoneG h w (inl x) 0 | None => DoneG h w (inr (mkerr c_range sp)) 0 end.
Proof. exact (CallRules.call_exception rec ip h w sp s l i). Qed.
Print Assumptions call_exception.

(* string: the one-character string at the position *)
Theorem call_string rec ip h w sp s i :
  runG rec value ip h w (apply_body (ESeq (VStr s)) sp [VInt i]) =
  match py_nth s i with Some c => DoneG h w (inl (VStr [c])) 0 | None => DoneG h w (inr (mkerr c_range sp)) 0 end.
Proof. exact (CallRules.call_string rec ip h w sp s i). Qed.
Print Assumptions call_string.

Theorem call_bytes rec ip h w sp s i :
  runG rec value ip h w (apply_body (ESeq (VBytes s)) sp [VInt i]) =
  match py_nth s i with Some c => DoneG h w (inl (VBytes [c])) 0 | None => DoneG h w (inr (mkerr c_range sp)) 0 end.
Proof. exact (CallRules.call_bytes rec ip h w sp s i). Qed.
Print Assumptions call_bytes.

Theorem call_sequence_arity rec ip h w sp sq argv :
  length argv <> 1%nat -> runG rec value ip h w (apply_body (ESeq sq) sp argv) = DoneG h w (inr (mkerr c_value sp)) 0.
Proof. exact (CallRules.call_sequence_arity rec ip h w sp sq argv). Qed.
Print Assumptions call_sequence_arity.

Theorem call_sequence_index_type rec ip h w sp sq a :
  isthunk a = false -> is_int a = false -> runG rec value ip h w (apply_body (ESeq sq) sp [a]) = DoneG h w (inr (mkerr c_type sp)) 0.
Proof. exact (CallRules.call_sequence_index_type rec ip h w sp sq a). Qed.
Print Assumptions call_sequence_index_type.

(* dictionary: the value stored under the key equal to the argument's key form, otherwise the not-found error *)
Theorem call_dict rec ip h w sp d a h1 w1 k d1 :
  rec ip h w (TComp (proc_body (PKey a))) = Done h1 w1 (inl k) d1 ->
  runG rec value ip h w (apply_body (EDict d) sp [a]) =
  match dict_lookup d k with Some v => DoneG h1 w1 (inl v) d1 | None => DoneG h1 w1 (inr (mkerr c_notfound sp)) d1 end.
Proof. exact (CallRules.call_dict rec ip h w sp d a h1 w1 k d1). Qed.
Print Assumptions call_dict.

Theorem call_dict_arity rec ip h w sp d argv :
  length argv <> 1%nat ->
  runG rec value ip h w (apply_body (EDict d) sp argv) = DoneG h w (inr (mkerr c_value sp)) 0.
Proof. exact (CallRules.call_dict_arity rec ip h w sp d argv). Qed.
Print Assumptions call_dict_arity.

Theorem kind_of_complex rec ip h w sp re im :
  runG rec evalr ip h w (proc_functional sp (inr (VComplex re im)) true) = DoneG h w (inl (ESeq (VComplex re im))) 0.
Proof. exact (CallRules.kind_of_complex rec ip h w sp re im). Qed.
Print Assumptions kind_of_complex.

(* complex number: position 0 is the real part, position 1 the imaginary part (as reals); any other position is the value error *)
Theorem call_complex rec ip h w sp re im i :
  runG rec value ip h w (apply_body (ESeq (VComplex re im)) sp [VInt i]) =
  if i =? 0 then DoneG h w (inl (VFloat re)) 0 else if i =? 1 then DoneG h w (inl (VFloat im)) 0 else DoneG h w (inr (mkerr c_value sp)) 0.
Proof. exact (CallRules.call_complex rec ip h w sp re im i). Qed.
Print Assumptions call_complex.

(* REGENERATED: the kinds of value that may stand in function position are exactly AS.Callable of abstract_syntax.py as it reads today *)
Theorem callable_is_the_source_union v :
  is_callable v = in_union GenKinds.gen_Callable v.
Proof. exact (LinkKinds.callable_is_the_source_union v). Qed.
Print Assumptions callable_is_the_source_union.

(* REGENERATED: the classes of function objects (closure, pipe, collect, spread, file handle, built-in module, codec) *)
Theorem function_classes_audited  :
  GenKinds.gen_function_classes = audited_function_classes.
Proof. exact (LinkKinds.function_classes_audited ). Qed.
Print Assumptions function_classes_audited.

(* a pipe (ㄴㄱ): stages left to right, each receiving what the stage before RETURNED as it is, the last stage's result returned as it is (pipe_spec) *)
Theorem call_pipe rec ip h w sp i es argv :
  runG rec value ip h w (apply_body (EFun (FPipe i es)) sp argv) = pipe_spec rec ip sp es h w argv.
Proof. exact (CallRules.call_pipe rec ip h w sp i es argv). Qed.
Print Assumptions call_pipe.

(* a spread function (ㅂㅂ) hands its function one argument: the list of its arguments, unevaluated *)
Theorem call_spread rec ip h w sp i e argv :
  runG rec value ip h w (apply_body (EFun (FSpread i e)) sp argv) =
  thenG (of_out (rec ip h w (TComp (apply_body e sp [VList argv])))) (fun h1 w1 x => DoneG h1 w1 (inl x) 0).
Proof. exact (CallRules.call_spread rec ip h w sp i e argv). Qed.
Print Assumptions call_spread.

(* a collect function (ㅁㅂ) hands the elements of its one list argument, unevaluated, as separate arguments *)
Theorem call_collect_list rec ip h w sp i e l :
  runG rec value ip h w (apply_body (EFun (FCollect i e)) sp [VList l]) =
  thenG (of_out (rec ip h w (TComp (apply_body e sp l)))) (fun h1 w1 x => DoneG h1 w1 (inl x) 0).
Proof. exact (CallRules.call_collect_list rec ip h w sp i e l). Qed.
Print Assumptions call_collect_list.

