(* Property C18: printed form is canonical and re-readable; exit status is the program's result
   ONLY statements: each theorem is closed by `exact` of a lemma proved elsewhere and followed by Print Assumptions. *)
From Coq Require Import ZArith NArith List Bool Lia Permutation Sorting.
Import ListNotations.
Require Import Base Strings Builtins PrintInt Float Num Interp PrintDict.
Open Scope Z_scope.
(* reading the printed form of any integer in base 10 gives it back *)
Theorem int_print_parse n :
  parse_int (str_of_int n) 10 = Some n.
Proof. exact (PrintInt.int_print_parse n). Qed.
Print Assumptions int_print_parse.

Theorem int_print_injective a b :
  str_of_int a = str_of_int b -> a = b.
Proof. exact (PrintInt.int_print_injective a b). Qed.
Print Assumptions int_print_injective.

(* the formatter's sorted entry list is the same for EVERY insertion order (any permutation of the printed entries): pair_le is a total order and insertion sort is canonical *)
Theorem dict_print_order_free l l' :
  Permutation l l' -> sort_pairs l = sort_pairs l'.
Proof. exact (PrintDict.dict_print_order_free l l'). Qed.
Print Assumptions dict_print_order_free.

Theorem dict_print_sorted l :
  StronglySorted ple (sort_pairs l) /\ Permutation (sort_pairs l) l.
Proof. exact (PrintDict.dict_print_sorted l). Qed.
Print Assumptions dict_print_sorted.

Theorem ple_total p q :
  ple p q \/ ple q p.
Proof. exact (PrintDict.ple_total p q). Qed.
Print Assumptions ple_total.

Theorem ple_antisym p q :
  ple p q -> ple q p -> p = q.
Proof. exact (PrintDict.ple_antisym p q). Qed.
Print Assumptions ple_antisym.

Theorem ple_trans p q r :
  ple p q -> ple q r -> ple p r.
Proof. exact (PrintDict.ple_trans p q r). Qed.
Print Assumptions ple_trans.

