(* Property C18: printed form is canonical and re-readable; exit status is the program's result
   ONLY statements: each theorem is closed by `exact` of a lemma proved elsewhere and followed by Print Assumptions. *)
From Coq Require Import ZArith NArith List Bool Lia Permutation.
Import ListNotations.
Require Import Base Strings Builtins PrintInt.
Open Scope Z_scope.
Theorem int_print_parse n :
  parse_int (str_of_int n) 10 = Some n.
Proof. exact (PrintInt.int_print_parse n). Qed.
Print Assumptions int_print_parse.

Theorem int_print_injective a b :
  str_of_int a = str_of_int b -> a = b.
Proof. exact (PrintInt.int_print_injective a b). Qed.
Print Assumptions int_print_injective.

