(* Property C18: printed form is canonical and re-readable; exit status is the program's result
   ONLY statements: each theorem is closed by `exact` of a lemma proved elsewhere and followed by Print Assumptions. *)
From Coq Require Import ZArith NArith List Bool Lia Permutation SpecFloat Sorting FMapPositive.
Import ListNotations.
Require Import Base Strings Builtins PrintInt FloatText FloatTextProofs Float Interp Machine Spec Refine2 RunG RealText PrintSeq Num PrintDict HeapFacts Refine1 Pure IOSpec Cli.
Open Scope Z_scope.
(* reading the printed form of any integer in base 10 gives it back *)
Theorem int_print_parse n :
  parse_int (str_of_int n) 10 = Some n.
Proof. exact (PrintInt.int_print_parse n). Qed.
Print Assumptions int_print_parse.

(* ... and in base 0 (no prefix, a leading zero only for zero itself) *)
Theorem int_print_parse_base0 n :
  parse_int (str_of_int n) 0 = Some n.
Proof. exact (PrintInt.int_print_parse_base0 n). Qed.
Print Assumptions int_print_parse_base0.

Theorem int_print_injective a b :
  str_of_int a = str_of_int b -> a = b.
Proof. exact (PrintInt.int_print_injective a b). Qed.
Print Assumptions int_print_injective.

(* REALS: whatever text the printer (Python's repr: the shortest digits that read back, CPython's layout - fixed or exponent notation, '.0' added, two exponent digits) gives for a real - zeros of either sign, infinities, NaN, every finite double it finds digits for - float() of that text is the same real, sign, mantissa and exponent *)
Theorem repr_reads_back f txt :
  repr_float f = Some txt -> parse_float_text txt = PFloat f.
Proof. exact (FloatTextProofs.repr_reads_back f txt). Qed.
Print Assumptions repr_reads_back.

(* so different reals print differently - the two zeros included *)
Theorem repr_injective f g txt :
  repr_float f = Some txt -> repr_float g = Some txt -> f = g.
Proof. exact (FloatTextProofs.repr_injective f g txt). Qed.
Print Assumptions repr_injective.

(* the digits the printer settles on have no trailing zero and read back to the double (rounding to nearest, ties to even, computed exactly) *)
Theorem shortest_reads_back m e c t :
  shortest m e = Some (c, t) -> 0 < c /\ c mod 10 <> 0 /\ SFcompare (float_of_decimal false c t) (S754_finite false m e) = Some Eq.
Proof. exact (FloatText.shortest_reads_back m e c t). Qed.
Print Assumptions shortest_reads_back.

(* every layout of digits and decimal-point position that the printer can produce is read as exactly those digits and that exponent *)
Theorem text_parses (neg:bool) (ds:list N) (decpt:Z) :
  digs ds -> ds <> [] -> int_of_digits ds 0 mod 10 <> 0 ->
  parse_float_text ((if neg then [45%N] else []) ++ layout ds decpt) = PFloat (float_of_decimal neg (int_of_digits ds 0) (decpt - Z.of_nat (length ds))).
Proof. exact (FloatTextProofs.text_parses neg ds decpt). Qed.
Print Assumptions text_parses.

Theorem string_of_real (rec : list positive -> heap -> world -> task -> out) sp f ip h w :
  runG rec value ip h w (bi_string sp [VFloat f]) = DoneG h w (inl (VStr (show_float f))) 0.
Proof. exact (RealText.string_of_real rec sp f ip h w). Qed.
Print Assumptions string_of_real.

Theorem real_of_string (rec : list positive -> heap -> world -> task -> out) sp s ip h w f :
  parse_float_text s = PFloat f -> runG rec value ip h w (bi_float sp [VStr s]) = DoneG h w (inl (VFloat f)) 0.
Proof. exact (RealText.real_of_string rec sp s ip h w f). Qed.
Print Assumptions real_of_string.

Theorem real_of_bad_string (rec : list positive -> heap -> world -> task -> out) sp s ip h w :
  parse_float_text s = PBad -> runG rec value ip h w (bi_float sp [VStr s]) = DoneG h w (inr (mkerr c_value sp)) 0.
Proof. exact (RealText.real_of_bad_string rec sp s ip h w). Qed.
Print Assumptions real_of_bad_string.

(* in the main model: ㅅㅅ applied to the string ㅁㅈ gives for a real is that real *)
Theorem read_what_was_printed (rec : list positive -> heap -> world -> task -> out) sp f txt ip h w :
  repr_float f = Some txt ->
  runG rec value ip h w (bi_float sp [VStr (show_float f)]) = DoneG h w (inl (VFloat f)) 0.
Proof. exact (RealText.read_what_was_printed rec sp f txt ip h w). Qed.
Print Assumptions read_what_was_printed.

(* a list prints its elements' texts in the order of the elements (for elements whose formatting is a state-free function pr) *)
Theorem list_prints_in_order (rec : list positive -> heap -> world -> task -> out) (flag : bool) (pr : value -> list N) (PRINTS : forall ip h w x, rec ip h w (TComp (proc_body (PFormat x flag))) = Done h w (inl (VStr (pr x))) 0) l ip h w :
  runG rec value ip h w (format_body (VList l) flag) = DoneG h w (inl (VStr ([91%N] ++ join s_sep (map pr l) ++ [93%N]))) 0.
Proof. exact (PrintSeq.list_prints_in_order rec flag pr PRINTS l ip h w). Qed.
Print Assumptions list_prints_in_order.

(* an exception value likewise *)
Theorem exception_prints_in_order (rec : list positive -> heap -> world -> task -> out) (flag : bool) (pr : value -> list N) (PRINTS : forall ip h w x, rec ip h w (TComp (proc_body (PFormat x flag))) = Done h w (inl (VStr (pr x))) 0) sps l ip h w :
  runG rec value ip h w (format_body (VErr sps l) flag) = DoneG h w (inl (VStr (s_exc_open ++ join s_sep (map pr l) ++ s_exc_close))) 0.
Proof. exact (PrintSeq.exception_prints_in_order rec flag pr PRINTS sps l ip h w). Qed.
Print Assumptions exception_prints_in_order.

(* the formatter's sorted entry list is the same for EVERY insertion order (any permutation of the printed entries): pair_le is a total order and insertion sort is canonical *)
Theorem dict_print_order_free l l' :
  Permutation l l' -> sort_pairs l = sort_pairs l'.
Proof. exact (PrintDict.dict_print_order_free l l'). Qed.
Print Assumptions dict_print_order_free.

Theorem dict_print_sorted l :
  StronglySorted ple (sort_pairs l) /\ Permutation (sort_pairs l) l.
Proof. exact (PrintDict.dict_print_sorted l). Qed.
Print Assumptions dict_print_sorted.

Theorem ple_total p q :
  ple p q \/ ple q p.
Proof. exact (PrintDict.ple_total p q). Qed.
Print Assumptions ple_total.

Theorem ple_antisym p q :
  ple p q -> ple q p -> p = q.
Proof. exact (PrintDict.ple_antisym p q). Qed.
Print Assumptions ple_antisym.

Theorem ple_trans p q r :
  ple p q -> ple q r -> ple p r.
Proof. exact (PrintDict.ple_trans p q r). Qed.
Print Assumptions ple_trans.

(* THE COMMAND-LINE FRONT END (cli.run as Cli.cli_run): no expression - status 0, nothing evaluated *)
Theorem cli_no_expression fuel argv stdin :
  cli_run fuel [] argv stdin = Done heap0 (world0 stdin) (inl (VInt 0)) 0.
Proof. exact (Cli.cli_no_expression fuel argv stdin). Qed.
Print Assumptions cli_no_expression.

(* more than one expression: an error whatever they are; none is evaluated, nothing read or written *)
Theorem cli_many_expressions fuel a b rest argv stdin :
  cli_run fuel (a :: b :: rest) argv stdin = Done heap0 (world0 stdin) (inr (many_error (a :: b :: rest))) 0.
Proof. exact (Cli.cli_many_expressions fuel a b rest argv stdin). Qed.
Print Assumptions cli_many_expressions.

(* one expression: evaluate it, apply it to the argument strings if it is a function, execute the result if it is an action, turn the result into a status - each stage from the heap and world the one before left *)
Theorem cli_stages n ip h w t argv :
  bs (S n) ip h w (TComp (cli_body t argv)) =
  then_ (run (bs n) ip h w (force (VThunk t))) (fun h1 w1 v =>
    then_ (stage n ip (fun v => cli_apply v argv) h1 w1 v) (fun h2 w2 v2 =>
      then_ (stage n ip cli_exec h2 w2 v2) (fun h3 w3 v3 => stage n ip cli_status h3 w3 v3))).
Proof. exact (Cli.cli_stages n ip h w t argv). Qed.
Print Assumptions cli_stages.

(* the exit status IS the integer result *)
Theorem status_of_integer n ip h w z :
  stage n ip cli_status h w (VInt z) = Done h w (inl (VInt z)) 0.
Proof. exact (Cli.status_of_integer n ip h w z). Qed.
Print Assumptions status_of_integer.

Theorem status_of_nil n ip h w :
  stage n ip cli_status h w VNil = Done h w (inl (VInt 0)) 0.
Proof. exact (Cli.status_of_nil n ip h w). Qed.
Print Assumptions status_of_nil.

(* every other kind of result is a type error *)
Theorem status_of_other_kind n ip h w v :
  (forall z, v <> VInt z) -> v <> VNil ->
  stage n ip cli_status h w v = Done h w (inr (mkerr c_type cli_sp)) 0.
Proof. exact (Cli.status_of_other_kind n ip h w v). Qed.
Print Assumptions status_of_other_kind.

(* whatever the program, a run of the front end that ends normally ends with an integer *)
Theorem exit_status_is_an_integer fuel asts argv stdin h w v d :
  cli_run fuel asts argv stdin = Done h w (inl v) d -> exists z, v = VInt z.
Proof. exact (Cli.exit_status_is_an_integer fuel asts argv stdin h w v d). Qed.
Print Assumptions exit_status_is_an_integer.

Theorem not_a_function_not_applied n ip h w v argv :
  is_fun v = false -> stage n ip (fun v => cli_apply v argv) h w v = Done h w (inl v) 0.
Proof. exact (Cli.not_a_function_not_applied n ip h w v argv). Qed.
Print Assumptions not_a_function_not_applied.

(* a top-level function receives exactly the argument strings, in order *)
Theorem function_applied_to_arguments n ip h w g argv :
  stage n ip (fun v => cli_apply v argv) h w (VFun g) =
  then_ (bs n ip h w (TComp (apply_body (EFun g) cli_sp (map VStr argv)))) (fun h1 w1 r => run (bs n) ip h1 w1 (force r)).
Proof. exact (Cli.function_applied_to_arguments n ip h w g argv). Qed.
Print Assumptions function_applied_to_arguments.

Theorem not_an_action_not_executed n ip h w v :
  is_io v = false -> stage n ip cli_exec h w v = Done h w (inl v) 0.
Proof. exact (Cli.not_an_action_not_executed n ip h w v). Qed.
Print Assumptions not_an_action_not_executed.

(* a resulting action is executed by the same executor as main.main's *)
Theorem action_executed n ip h w i :
  stage n ip cli_exec h w (VIO i) = updd (exec n ip h w (VIO i)) 0.
Proof. exact (Cli.action_executed n ip h w i). Qed.
Print Assumptions action_executed.

(* evaluating the program and applying the top-level function read and write nothing *)
Theorem effects_only_from_the_action n ip h w t argv h1 w1 v h2 w2 r d1 d2 :
  run (bs n) ip h w (force (VThunk t)) = Done h1 w1 (inl v) d1 ->
  stage n ip (fun v => cli_apply v argv) h1 w1 v = Done h2 w2 r d2 -> io_of w1 = io_of w /\ io_of w2 = io_of w.
Proof. exact (Cli.effects_only_from_the_action n ip h w t argv h1 w1 v h2 w2 r d1 d2). Qed.
Print Assumptions effects_only_from_the_action.

