(* Property C08: the integer literal codec is a bijection and all spellings are interchangeable
   ONLY statements: each theorem is closed by `exact` of a lemma proved elsewhere and followed by Print Assumptions. *)
From Coq Require Import ZArith NArith List Bool Lia Permutation.
Import ListNotations.
Require Import Base Num NumProofs Lex PadToken ParseProofs Strings Builtins Interp LinkNames.
Open Scope Z_scope.
(* ANY word (not only the encoder's spellings) padded by two zero digits reads as the same number - or is refused just the same *)
Theorem parse_number_two_zeros w :
  parse_number (w ++ [G; G]) = parse_number w.
Proof. exact (PadToken.parse_number_two_zeros w). Qed.
Print Assumptions parse_number_two_zeros.

(* ... and is the same TOKEN for the parser wherever a literal is used: a value, the arity of a call word, the position of an argument reference (the bare markers excepted: padding them makes ㅎ+0 / ㅇ+0) *)
Theorem padded_word_same_token (c:N) rest m stk :
  (N.eqb c HIEUH || N.eqb c IEUNG = true -> rest <> []) ->
  parse_token ((c :: rest) ++ [G; G], m) stk = parse_token (c :: rest, m) stk.
Proof. exact (PadToken.padded_word_same_token c rest m stk). Qed.
Print Assumptions padded_word_same_token.

(* ... so padding one word anywhere in a text leaves the parser's result unchanged - the trees, or the rejection *)
Theorem padded_word_same_trees (c:N) rest m :
  (N.eqb c HIEUH || N.eqb c IEUNG = true -> rest <> []) ->
  forall ts1 ts2 stk, parse_tokens (ts1 ++ ((c :: rest) ++ [G; G], m) :: ts2) stk = parse_tokens (ts1 ++ (c :: rest, m) :: ts2) stk.
Proof. exact (PadToken.padded_word_same_trees c rest m). Qed.
Print Assumptions padded_word_same_trees.

(* decoding inverts encoding, for every integer of any size *)
Theorem decode_encode  :
  forall n, decode (encode n) = n.
Proof. exact (NumProofs.decode_encode ). Qed.
Print Assumptions decode_encode.

(* the encoder yields a shortest spelling *)
Theorem encode_shortest w n :
  Forall isdigit w -> w <> [] -> decode w = n -> (length (encode n) <= length w)%nat.
Proof. exact (NumProofs.encode_shortest w n). Qed.
Print Assumptions encode_shortest.

Theorem encode_digits n :
  Forall isdigit (encode n).
Proof. exact (NumProofs.encode_digits n). Qed.
Print Assumptions encode_digits.

Theorem encode_nonempty n :
  encode n <> [].
Proof. exact (NumProofs.encode_nonempty n). Qed.
Print Assumptions encode_nonempty.

Theorem encode_injective a b :
  encode a = encode b -> a = b.
Proof. exact (NumProofs.encode_injective a b). Qed.
Print Assumptions encode_injective.

(* zero padding that keeps the length parity keeps the number *)
Theorem pad_two_zeros w :
  decode (w ++ [0; 0]) = decode w.
Proof. exact (NumProofs.pad_two_zeros w). Qed.
Print Assumptions pad_two_zeros.

Theorem pad_zero_pairs w k :
  decode (w ++ repeat 0 (2 * k)) = decode w.
Proof. exact (NumProofs.pad_zero_pairs w k). Qed.
Print Assumptions pad_zero_pairs.

Theorem every_integer_has_spellings n k :
  decode (encode n ++ repeat 0 (2 * k)) = n.
Proof. exact (NumProofs.every_integer_has_spellings n k). Qed.
Print Assumptions every_integer_has_spellings.

Open Scope N_scope.
(* on the REGENERATED digit alphabet: the word printed for n reads back as n *)
Theorem parse_number_lit n :
  parse_number (lit_word n) = Some n.
Proof. exact (ParseProofs.parse_number_lit n). Qed.
Print Assumptions parse_number_lit.

(* and so does every zero-padded spelling, wherever a literal word is read (value, arity after ㅎ, index after ㅇ) *)
Theorem parse_number_padded n k :
  parse_number (map dchar (encode n ++ repeat 0%Z (2 * k))) = Some n.
Proof. exact (ParseProofs.parse_number_padded n k). Qed.
Print Assumptions parse_number_padded.

Open Scope Z_scope.
(* table keys are canonical spellings, so lookup by re-encoded literal is lookup by VALUE: every spelling of the number finds the entry *)
Theorem mode_words_canonical  :
  all_canonical (map fst GenIO.gen_modes) GenIO.gen_mode_words = true.
Proof. exact (LinkNames.mode_words_canonical ). Qed.
Print Assumptions mode_words_canonical.

Theorem command_words_canonical  :
  all_canonical GenIO.gen_file_commands GenIO.gen_file_command_words = true.
Proof. exact (LinkNames.command_words_canonical ). Qed.
Print Assumptions command_words_canonical.

Theorem whence_words_canonical  :
  all_canonical (map fst GenIO.gen_whence) GenIO.gen_whence_words = true.
Proof. exact (LinkNames.whence_words_canonical ). Qed.
Print Assumptions whence_words_canonical.

Theorem builtin_names_distinct  :
  NoDup GenNames.gen_builtin_names.
Proof. exact (LinkNames.builtin_names_distinct ). Qed.
Print Assumptions builtin_names_distinct.

