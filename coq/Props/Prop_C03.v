(* Property C03: unneeded sub-expressions are never evaluated
   ONLY statements: each theorem is closed by `exact` of a lemma proved elsewhere and followed by Print Assumptions. *)
From Coq Require Import ZArith NArith List Bool Lia Permutation FMapPositive.
Import ListNotations.
Require Import Base Strings Num Builtins Interp Machine Spec HeapFacts Refine1 Refine2 Refine3 Refine4 RelA RelB RelC.

(* two programs equal except at sub-expressions (related by ANY relation `hole`) that the first run never evaluates nor inspects give the same result and the same effects, whatever stands in those positions (a throw, a divergent call, a print) *)
Theorem hole_irrelevant (hole : ast -> ast -> Prop) fuel prog prog' stdin hf wf r d :
  (arel hole) prog prog' -> spec_main fuel prog stdin = Done hf wf r d -> (untouched hole) hf ->
  exists hf', spec_main fuel prog' stdin = Done hf' wf r d /\ (hrel hole) hf hf'.
Proof. exact (RelC.hole_irrelevant hole fuel prog prog' stdin hf wf r d). Qed.
Print Assumptions hole_irrelevant.

