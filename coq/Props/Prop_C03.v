(* Property C03: unneeded sub-expressions are never evaluated
   ONLY statements: each theorem is closed by `exact` of a lemma proved elsewhere and followed by Print Assumptions. *)
From Coq Require Import ZArith NArith List Bool Lia Permutation FMapPositive.
Import ListNotations.
Require Import Base Strings Num Builtins Interp Machine Spec HeapFacts Refine1 Refine2 Refine3 Refine4 RelA RelB RelC RunG ShortCircuit DictLazy Float DictLink SeqProofs CallRules.

(* two programs equal except at sub-expressions (related by ANY relation `hole`) that the first run never evaluates nor inspects give the same result and the same effects, whatever stands in those positions (a throw, a divergent call, a print) *)
Theorem hole_irrelevant (hole : ast -> ast -> Prop) fuel prog prog' stdin hf wf r d :
  (arel hole) prog prog' -> spec_main fuel prog stdin = Done hf wf r d -> (untouched hole) hf ->
  exists hf', spec_main fuel prog' stdin = Done hf' wf r d /\ (hrel hole) hf hf'.
Proof. exact (RelC.hole_irrelevant hole fuel prog prog' stdin hf wf r d). Qed.
Print Assumptions hole_irrelevant.

(* Boolean ㄱ / ㄷ: after the deciding operand nothing is evaluated - the heap comes back unchanged for ARBITRARY further operands *)
Theorem deciding_operand_ends_evaluation (rec : list positive -> heap -> world -> task -> out) sp s pre rest ip h w :
  Forall (fun v => v = VBool (negb s)) pre ->
  runG rec value ip h w (all_bools sp (pre ++ VBool s :: rest) s) = DoneG h w (inl (VBool s)) 0.
Proof. exact (ShortCircuit.deciding_operand_ends_evaluation rec sp s pre rest ip h w). Qed.
Print Assumptions deciding_operand_ends_evaluation.

Theorem all_after_false_untouched (rec : list positive -> heap -> world -> task -> out) sp pre rest ip h w :
  Forall (fun v => v = VBool true) pre ->
  runG rec value ip h w (all_bools sp (pre ++ VBool false :: rest) false) = DoneG h w (inl (VBool false)) 0.
Proof. exact (ShortCircuit.all_after_false_untouched rec sp pre rest ip h w). Qed.
Print Assumptions all_after_false_untouched.

Theorem any_after_true_untouched (rec : list positive -> heap -> world -> task -> out) sp pre rest ip h w :
  Forall (fun v => v = VBool false) pre ->
  runG rec value ip h w (all_bools sp (pre ++ VBool true :: rest) true) = DoneG h w (inl (VBool true)) 0.
Proof. exact (ShortCircuit.any_after_true_untouched rec sp pre rest ip h w). Qed.
Print Assumptions any_after_true_untouched.

(* a Boolean call returns the selected argument unevaluated and never touches the other *)
Theorem boolean_call_selects (rec : list positive -> heap -> world -> task -> out) b sp x y ip h w :
  runG rec value ip h w (apply_body (EBool b) sp [x; y]) = DoneG h w (inl (if b then x else y)) 0.
Proof. exact (ShortCircuit.boolean_call_selects rec b sp x y ip h w). Qed.
Print Assumptions boolean_call_selects.

Theorem list_constructor_forces_nothing (rec : list positive -> heap -> world -> task -> out) sp argv ip h w :
  runG rec value ip h w (bi_list sp argv) = DoneG h w (inl (VList argv)) 0.
Proof. exact (ShortCircuit.list_constructor_forces_nothing rec sp argv ip h w). Qed.
Print Assumptions list_constructor_forces_nothing.

Theorem length_forces_no_element (rec : list positive -> heap -> world -> task -> out) sp l ip h w :
  runG rec value ip h w (bi_len sp [VList l]) = DoneG h w (inl (VInt (Z.of_nat (length l)))) 0.
Proof. exact (ShortCircuit.length_forces_no_element rec sp l ip h w). Qed.
Print Assumptions length_forces_no_element.

Theorem index_returns_element_unevaluated (rec : list positive -> heap -> world -> task -> out) sp l i x ip h w :
  py_nth l i = Some x ->
  runG rec value ip h w (apply_body (ESeq (VList l)) sp [VInt i]) = DoneG h w (inl x) 0.
Proof. exact (ShortCircuit.index_returns_element_unevaluated rec sp l i x ip h w). Qed.
Print Assumptions index_returns_element_unevaluated.

(* DICTIONARY VALUES: for an arbitrary evaluator, what the constructor ㅅㅈ does - answer, heap, world, frames - is a computation on the KEYS alone (keys_of: the arguments at even positions); the values are only placed into the answer as given *)
Theorem dict_constructor_runs_the_keys_only (rec : list positive -> heap -> world -> task -> out) sp argv ip h w :
  Nat.odd (length argv) = false ->
  runG rec value ip h w (bi_dict sp argv) =
  thenG (runG rec (list value) ip h w ((keys_of) argv)) (fun h' w' keys => DoneG h' w' (inl (VDict (zipd keys (odds argv) []))) 0).
Proof. exact (DictLazy.dict_constructor_runs_the_keys_only rec sp argv ip h w). Qed.
Print Assumptions dict_constructor_runs_the_keys_only.

(* so two constructions with the same keys do exactly the same evaluations whatever the values are (throwing, divergent, printing) *)
Theorem dict_values_are_never_evaluated (rec : list positive -> heap -> world -> task -> out) sp argv argv' ip h w :
  Nat.odd (length argv) = false -> length argv' = length argv -> evens argv' = evens argv ->
  runG rec value ip h w (bi_dict sp argv') =
  thenG (runG rec (list value) ip h w ((keys_of) argv)) (fun h' w' keys => DoneG h' w' (inl (VDict (zipd keys (odds argv') []))) 0).
Proof. exact (DictLazy.dict_values_are_never_evaluated rec sp argv argv' ip h w). Qed.
Print Assumptions dict_values_are_never_evaluated.

(* merging dictionaries (ㄷ) evaluates no value either: heap and world come back as they were, for an arbitrary evaluator *)
Theorem dict_merge rec sp d1 d2 ip h w :
  runG rec value ip h w (bi_add sp [VDict d1; VDict d2]) =
  DoneG h w (inl (VDict (fold_left (fun a kv => dict_insert a (fst kv) (snd kv)) d2 (fold_left (fun a kv => dict_insert a (fst kv) (snd kv)) d1 [])))) 0.
Proof. exact (DictLink.dict_merge rec sp d1 d2 ip h w). Qed.
Print Assumptions dict_merge.

(* and calling a dictionary evaluates the KEY only: the stored value is handed back as it was stored *)
Theorem call_dict rec ip h w sp d a h1 w1 k d1 :
  rec ip h w (TComp (proc_body (PKey a))) = Done h1 w1 (inl k) d1 ->
  runG rec value ip h w (apply_body (EDict d) sp [a]) =
  match dict_lookup d k with Some v => DoneG h1 w1 (inl v) d1 | None => DoneG h1 w1 (inr (mkerr c_notfound sp)) d1 end.
Proof. exact (CallRules.call_dict rec ip h w sp d a h1 w1 k d1). Qed.
Print Assumptions call_dict.

(* pipes: a stage's result goes to the next stage as it was returned - nothing between the stages evaluates it (pipe_spec has no demand between stages) *)
Theorem call_pipe rec ip h w sp i es argv :
  runG rec value ip h w (apply_body (EFun (FPipe i es)) sp argv) = pipe_spec rec ip sp es h w argv.
Proof. exact (CallRules.call_pipe rec ip h w sp i es argv). Qed.
Print Assumptions call_pipe.

Theorem call_spread rec ip h w sp i e argv :
  runG rec value ip h w (apply_body (EFun (FSpread i e)) sp argv) =
  thenG (of_out (rec ip h w (TComp (apply_body e sp [VList argv])))) (fun h1 w1 x => DoneG h1 w1 (inl x) 0).
Proof. exact (CallRules.call_spread rec ip h w sp i e argv). Qed.
Print Assumptions call_spread.

Theorem call_collect_list rec ip h w sp i e l :
  runG rec value ip h w (apply_body (EFun (FCollect i e)) sp [VList l]) =
  thenG (of_out (rec ip h w (TComp (apply_body e sp l)))) (fun h1 w1 x => DoneG h1 w1 (inl x) 0).
Proof. exact (CallRules.call_collect_list rec ip h w sp i e l). Qed.
Print Assumptions call_collect_list.

