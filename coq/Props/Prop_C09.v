(* Property C09: parsing is the documented postfix stack machine, total, with exact source spans
   ONLY statements: each theorem is closed by `exact` of a lemma proved elsewhere and followed by Print Assumptions. *)
From Coq Require Import ZArith NArith List Bool Lia Permutation.
Import ListNotations.
Require Import Base Num NumProofs Lex ParseProofs ParseRules.
Open Scope N_scope.
(* printing any forest in postfix and parsing it returns the same forest, every node's span included; unbounded size, arity, depth *)
Theorem parse_unparse  :
  forall ts, parse_tokens (flat_map unparse ts) [] = inl (rev ts).
Proof. exact (ParseProofs.parse_unparse ). Qed.
Print Assumptions parse_unparse.

Theorem argument_order f args m stk :
  parse_tokens (flat_map unparse args ++ unparse f ++ [(HIEUH :: lit_word (Z.of_nat (length args)), m)]) stk = inl (FunCall f args m :: stk).
Proof. exact (ParseProofs.argument_order f args m stk). Qed.
Print Assumptions argument_order.

(* a text yields as many trees as its words leave on the stack *)
Theorem stack_count t stk stk' :
  parse_token t stk = inl stk' -> height_effect t (length stk) = Some (length stk').
Proof. exact (ParseProofs.stack_count t stk stk'). Qed.
Print Assumptions stack_count.

(* on the word shapes the tokenizer can produce no host failure is possible: the result is a stack or one of the seven syntax rejections *)
Theorem parse_total t stk :
  tok_wf t = true -> parse_token t stk <> inr HostValueError.
Proof. exact (ParseProofs.parse_total t stk). Qed.
Print Assumptions parse_total.

Theorem rejection_names_token  :
  forall ts stk e sp, parse_tokens ts stk = inr (e, sp) ->
  exists pre t post stk', ts = pre ++ t :: post /\ parse_tokens pre stk = inl stk' /\ parse_token t stk' = inr e /\ sp = snd t.
Proof. exact (ParseProofs.rejection_names_token ). Qed.
Print Assumptions rejection_names_token.

Theorem span_exact t stk stk' :
  parse_token t stk = inl stk' -> exists a r, stk' = a :: r /\ ast_span a = snd t.
Proof. exact (ParseProofs.span_exact t stk stk'). Qed.
Print Assumptions span_exact.

(* THE RULES ONE BY ONE: a literal word pushes *)
Theorem rule_literal n m stk :
  parse_token (lit_word n, m) stk = inl (Lit n m :: stk).
Proof. exact (ParseRules.rule_literal n m stk). Qed.
Print Assumptions rule_literal.

(* ㅎ wraps the top item as a function body *)
Theorem rule_function_body m b stk :
  parse_token ([HIEUH], m) (b :: stk) = inl (FunDef b m :: stk).
Proof. exact (ParseRules.rule_function_body m b stk). Qed.
Print Assumptions rule_function_body.

(* ㅎ+n pops a function and then n arguments, kept in source order *)
Theorem rule_call m f (args stk:list ast) :
  parse_token (HIEUH :: lit_word (Z.of_nat (length args)), m) (f :: rev args ++ stk) = inl (FunCall f args m :: stk).
Proof. exact (ParseRules.rule_call m f args stk). Qed.
Print Assumptions rule_call.

(* ㅇ turns a literal into a function reference *)
Theorem rule_function_reference n m m0 stk :
  parse_token ([IEUNG], m) (Lit n m0 :: stk) = inl (FunRef n m :: stk).
Proof. exact (ParseRules.rule_function_reference n m m0 stk). Qed.
Print Assumptions rule_function_reference.

(* ㅇ+m wraps the top item as an argument reference *)
Theorem rule_argument_reference r0 m a stk :
  parse_token (IEUNG :: lit_word r0, m) (a :: stk) = inl (ArgRef a r0 m :: stk).
Proof. exact (ParseRules.rule_argument_reference r0 m a stk). Qed.
Print Assumptions rule_argument_reference.

(* ... and the rejection each word gives when its rule does not apply *)
Theorem reject_body_on_empty_stack m :
  parse_token ([HIEUH], m) [] = inr NoBody.
Proof. exact (ParseRules.reject_body_on_empty_stack m). Qed.
Print Assumptions reject_body_on_empty_stack.

Theorem reject_function_reference_on_empty_stack m :
  parse_token ([IEUNG], m) [] = inr NoRefFun.
Proof. exact (ParseRules.reject_function_reference_on_empty_stack m). Qed.
Print Assumptions reject_function_reference_on_empty_stack.

Theorem reject_function_reference_to_non_literal m a stk :
  (forall n m0, a <> Lit n m0) -> parse_token ([IEUNG], m) (a :: stk) = inr RefNotLit.
Proof. exact (ParseRules.reject_function_reference_to_non_literal m a stk). Qed.
Print Assumptions reject_function_reference_to_non_literal.

Theorem reject_argument_reference_on_empty_stack r0 m :
  parse_token (IEUNG :: lit_word r0, m) [] = inr NoRefArg.
Proof. exact (ParseRules.reject_argument_reference_on_empty_stack r0 m). Qed.
Print Assumptions reject_argument_reference_on_empty_stack.

Theorem reject_call_on_empty_stack k m :
  (0 <= k)%Z -> parse_token (HIEUH :: lit_word k, m) [] = inr NoFun.
Proof. exact (ParseRules.reject_call_on_empty_stack k m). Qed.
Print Assumptions reject_call_on_empty_stack.

Theorem reject_call_with_too_few_arguments k m f stk :
  (Z.of_nat (length stk) < k)%Z -> parse_token (HIEUH :: lit_word k, m) (f :: stk) = inr FewArgs.
Proof. exact (ParseRules.reject_call_with_too_few_arguments k m f stk). Qed.
Print Assumptions reject_call_with_too_few_arguments.

Theorem reject_negative_count k m stk :
  (k < 0)%Z -> parse_token (HIEUH :: lit_word k, m) stk = inr NegArity.
Proof. exact (ParseRules.reject_negative_count k m stk). Qed.
Print Assumptions reject_negative_count.

