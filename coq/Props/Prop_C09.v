(* Property C09: parsing is the documented postfix stack machine, total, with exact source spans
   ONLY statements: each theorem is closed by `exact` of a lemma proved elsewhere and followed by Print Assumptions. *)
From Coq Require Import ZArith NArith List Bool Lia Permutation.
Import ListNotations.
Require Import Base Num NumProofs Lex ParseProofs.
Open Scope N_scope.
(* printing any forest in postfix and parsing it returns the same forest, every node's span included; unbounded size, arity, depth *)
Theorem parse_unparse  :
  forall ts, parse_tokens (flat_map unparse ts) [] = inl (rev ts).
Proof. exact (ParseProofs.parse_unparse ). Qed.
Print Assumptions parse_unparse.

Theorem argument_order f args m stk :
  parse_tokens (flat_map unparse args ++ unparse f ++ [(HIEUH :: lit_word (Z.of_nat (length args)), m)]) stk = inl (FunCall f args m :: stk).
Proof. exact (ParseProofs.argument_order f args m stk). Qed.
Print Assumptions argument_order.

(* a text yields as many trees as its words leave on the stack *)
Theorem stack_count t stk stk' :
  parse_token t stk = inl stk' -> height_effect t (length stk) = Some (length stk').
Proof. exact (ParseProofs.stack_count t stk stk'). Qed.
Print Assumptions stack_count.

(* on the word shapes the tokenizer can produce no host failure is possible: the result is a stack or one of the seven syntax rejections *)
Theorem parse_total t stk :
  tok_wf t = true -> parse_token t stk <> inr HostValueError.
Proof. exact (ParseProofs.parse_total t stk). Qed.
Print Assumptions parse_total.

Theorem rejection_names_token  :
  forall ts stk e sp, parse_tokens ts stk = inr (e, sp) ->
  exists pre t post stk', ts = pre ++ t :: post /\ parse_tokens pre stk = inl stk' /\ parse_token t stk' = inr e /\ sp = snd t.
Proof. exact (ParseProofs.rejection_names_token ). Qed.
Print Assumptions rejection_names_token.

Theorem span_exact t stk stk' :
  parse_token t stk = inl stk' -> exists a r, stk' = a :: r /\ ast_span a = snd t.
Proof. exact (ParseProofs.span_exact t stk stk'). Qed.
Print Assumptions span_exact.

