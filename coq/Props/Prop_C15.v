(* Property C15: import resolves by skeleton, evaluates once in an empty scope, context-free
   ONLY statements: each theorem is closed by `exact` of a lemma proved elsewhere and followed by Print Assumptions. *)
From Coq Require Import ZArith NArith List Bool Lia Permutation.
Import ListNotations.
Require Import ImpSearch ImportProofs ImpLoad.
Open Scope Z_scope.
Theorem search_is_classify  :
  forall lits t, search lits t = classify (all_paths lits t).
Proof. exact (ImportProofs.search_is_classify ). Qed.
Print Assumptions search_is_classify.

Theorem found_is_unique lits t p id :
  search lits t = Found p id <-> all_paths lits t = [(p, id)].
Proof. exact (ImportProofs.found_is_unique lits t p id). Qed.
Print Assumptions found_is_unique.

Theorem not_found_iff lits t :
  search lits t = NotFound <-> all_paths lits t = [].
Proof. exact (ImportProofs.not_found_iff lits t). Qed.
Print Assumptions not_found_iff.

Theorem ambiguous_iff lits t :
  search lits t = Ambiguous <-> (2 <= length (all_paths lits t))%nat.
Proof. exact (ImportProofs.ambiguous_iff lits t). Qed.
Print Assumptions ambiguous_iff.

Theorem paths_sound  :
  forall lits t p id, In (p, id) (all_paths lits t) -> resolves t p id /\ map name_lit p = map Some lits.
Proof. exact (ImportProofs.paths_sound ). Qed.
Print Assumptions paths_sound.

Theorem listing_order_irrelevant cur sub es es' :
  Permutation es es' -> search (cur :: sub) (TDir es) = search (cur :: sub) (TDir es').
Proof. exact (ImportProofs.listing_order_irrelevant cur sub es es'). Qed.
Print Assumptions listing_order_irrelevant.

(* the registry as a state machine keyed by the FILE: once a route has produced the module object of a file, every later import by any route denoting the same file - after any imports in between - yields that same object, creates nothing and leaves the registry unchanged *)
Theorem import_once (nexprs : N -> nat) fs s r1 o fr between r2 id :
  denotes fs r1 = Some id -> denotes fs r2 = Some id -> (import nexprs) fs s r1 = (fst ((import nexprs) fs s r1), LObject o fr) ->
  let s2 := (imports nexprs) fs (fst ((import nexprs) fs s r1)) between in
  (import nexprs) fs s2 r2 = (s2, LObject o false).
Proof. exact (ImpLoad.import_once nexprs fs s r1 o fr between r2 id). Qed.
Print Assumptions import_once.

Theorem registry_grows (nexprs : N -> nat) fs rs :
  forall s k o, lookup (registry s) k = Some o -> lookup (registry ((imports nexprs) fs s rs)) k = Some o.
Proof. exact (ImpLoad.registry_grows nexprs fs rs). Qed.
Print Assumptions registry_grows.

Theorem distinct_files_distinct_objects (nexprs : N -> nat) s :
  wf s -> (forall a b o, a <> b -> lookup (registry s) a = Some o -> lookup (registry s) b = Some o -> False) ->
  forall id, let s' := fst ((load nexprs) s id) in forall a b o, a <> b -> lookup (registry s') a = Some o -> lookup (registry s') b = Some o -> False.
Proof. exact (ImpLoad.distinct_files_distinct_objects nexprs s). Qed.
Print Assumptions distinct_files_distinct_objects.

(* not found / ambiguous / empty / several expressions: no object, registry unchanged *)
Theorem bad_modules_change_nothing (nexprs : N -> nat) fs s r res :
  (import nexprs) fs s r = (fst ((import nexprs) fs s r), res) -> (forall o fr, res <> LObject o fr) -> fst ((import nexprs) fs s r) = s.
Proof. exact (ImpLoad.bad_modules_change_nothing nexprs fs s r res). Qed.
Print Assumptions bad_modules_change_nothing.

