(* Property C15: import resolves by skeleton, evaluates once in an empty scope, context-free
   ONLY statements: each theorem is closed by `exact` of a lemma proved elsewhere and followed by Print Assumptions. *)
From Coq Require Import ZArith NArith List Bool Lia Permutation.
Import ListNotations.
Require Import ImpSearch ImportProofs.
Open Scope Z_scope.
Theorem search_is_classify  :
  forall lits t, search lits t = classify (all_paths lits t).
Proof. exact (ImportProofs.search_is_classify ). Qed.
Print Assumptions search_is_classify.

Theorem found_is_unique lits t p id :
  search lits t = Found p id <-> all_paths lits t = [(p, id)].
Proof. exact (ImportProofs.found_is_unique lits t p id). Qed.
Print Assumptions found_is_unique.

Theorem not_found_iff lits t :
  search lits t = NotFound <-> all_paths lits t = [].
Proof. exact (ImportProofs.not_found_iff lits t). Qed.
Print Assumptions not_found_iff.

Theorem ambiguous_iff lits t :
  search lits t = Ambiguous <-> (2 <= length (all_paths lits t))%nat.
Proof. exact (ImportProofs.ambiguous_iff lits t). Qed.
Print Assumptions ambiguous_iff.

Theorem paths_sound  :
  forall lits t p id, In (p, id) (all_paths lits t) -> resolves t p id /\ map name_lit p = map Some lits.
Proof. exact (ImportProofs.paths_sound ). Qed.
Print Assumptions paths_sound.

Theorem listing_order_irrelevant cur sub es es' :
  Permutation es es' -> search (cur :: sub) (TDir es) = search (cur :: sub) (TDir es').
Proof. exact (ImportProofs.listing_order_irrelevant cur sub es es'). Qed.
Print Assumptions listing_order_irrelevant.

