(* Property C15: import resolves by skeleton, evaluates once in an empty scope, context-free
   ONLY statements: each theorem is closed by `exact` of a lemma proved elsewhere and followed by Print Assumptions. *)
From Coq Require Import ZArith NArith List Bool Lia Permutation FMapPositive.
Import ListNotations.
Require Import Base Strings Builtins Interp Machine Spec Refine2 RunG ImpSearch ModFS ImportMain Lex ImportProofs ModFSProofs ImportDisk ImpLoad.
Open Scope Z_scope.
Import ModFS.      (* index_of, strip_dot, ... below are the disk functions *)
(* INSIDE THE MAIN MODEL (the evaluator's own ㅂ): the literal route asks the world to search, and that search is ImpSearch.search on the tree the disk denotes - so the six search theorems below speak about the evaluator *)
Theorem find_is_search w sp lits :
  wstep w (WFind sp lits) =
  (w, match search lits (tree_of_disk (w_disk w)) with
      | Found _ id => match nth_error (w_disk w) (N.to_nat id) with Some (nm, _) => inl (VStr (46 :: 47 :: nm)%N) | None => inr (mkerr c_notfound sp) end
      | NotFound => inr (mkerr c_notfound sp)
      | Ambiguous => inr (mkerr c_import sp) end).
Proof. exact (ImportMain.find_is_search w sp lits). Qed.
Print Assumptions find_is_search.

(* the tree the evaluator searches is built from the disk (ModFS.tree_of_disk): the file found is a file OF THE DISK, and every component of its name, normalised as module._matches_literal normalises a directory entry, reads as the literal requested at that depth *)
Theorem found_file_carries_the_literals disk lits p id :
  search lits (tree_of_disk disk) = Found p id ->
  exists nm bytes, nth_error disk (N.to_nat id) = Some (nm, bytes) /\ map (fun c => name_lit (norm_name c)) (comps nm) = map Some lits.
Proof. exact (ModFSProofs.found_file_carries_the_literals disk lits p id). Qed.
Print Assumptions found_file_carries_the_literals.

(* the converse: on a well-formed disk (one file per name, no name both a file and a directory) EVERY file whose normalised components read as the requested literals is a path of the searched tree *)
Theorem matching_file_is_a_path disk lits n nm bytes :
  files_wf (disk_files disk) -> nth_error disk n = Some (nm, bytes) ->
  map (fun c => name_lit (norm_name c)) (comps nm) = map Some lits -> In (map norm_name (comps nm), N.of_nat n) (all_paths lits (tree_of_disk disk)).
Proof. exact (ModFSProofs.matching_file_is_a_path disk lits n nm bytes). Qed.
Print Assumptions matching_file_is_a_path.

(* hence the search answers NotFound only when no file of the disk matches the literals *)
Theorem not_found_means_no_match disk lits :
  files_wf (disk_files disk) -> search lits (tree_of_disk disk) = NotFound ->
  forall n nm bytes, nth_error disk n = Some (nm, bytes) -> map (fun c => name_lit (norm_name c)) (comps nm) <> map Some lits.
Proof. exact (ModFSProofs.not_found_means_no_match disk lits). Qed.
Print Assumptions not_found_means_no_match.

(* and when exactly one file of a well-formed disk carries the literals, the search answers Found with that file (neither missing nor ambiguous): no file is reached along two routes *)
Theorem single_match_is_found disk lits n nm bytes :
  files_wf (disk_files disk) -> nth_error disk n = Some (nm, bytes) ->
  map (fun c => name_lit (norm_name c)) (comps nm) = map Some lits ->
  (forall n' nm' bytes', nth_error disk n' = Some (nm', bytes') -> map (fun c => name_lit (norm_name c)) (comps nm') = map Some lits -> n' = n) ->
  search lits (tree_of_disk disk) = Found (map norm_name (comps nm)) (N.of_nat n).
Proof. exact (ModFSProofs.single_match_is_found disk lits n nm bytes). Qed.
Print Assumptions single_match_is_found.

(* no file of the disk carries the literals: NotFound (any disk) *)
Theorem no_match_is_not_found disk lits :
  (forall n nm bytes, nth_error disk n = Some (nm, bytes) -> map (fun c => name_lit (norm_name c)) (comps nm) <> map Some lits) ->
  search lits (tree_of_disk disk) = NotFound.
Proof. exact (ModFSProofs.no_match_is_not_found disk lits). Qed.
Print Assumptions no_match_is_not_found.

(* two different files of a well-formed disk carry the literals: Ambiguous - with single_match_is_found and no_match_is_not_found the three answers are characterised by the number of matching files *)
Theorem two_matches_are_ambiguous disk lits n1 nm1 bytes1 n2 nm2 bytes2 :
  files_wf (disk_files disk) -> n1 <> n2 ->
  nth_error disk n1 = Some (nm1, bytes1) -> map (fun c => name_lit (norm_name c)) (comps nm1) = map Some lits ->
  nth_error disk n2 = Some (nm2, bytes2) -> map (fun c => name_lit (norm_name c)) (comps nm2) = map Some lits ->
  search lits (tree_of_disk disk) = Ambiguous.
Proof. exact (ModFSProofs.two_matches_are_ambiguous disk lits n1 nm1 bytes1 n2 nm2 bytes2). Qed.
Print Assumptions two_matches_are_ambiguous.

(* END TO END on the disk: when exactly one file of a well-formed disk carries the literal words, ㅂ hands that file to the common loader *)
Theorem import_the_single_match rec sp argv ip h w h1 l0 lits n nm bytes :
  runG rec (option (list Z)) ip h w (peek_lits argv) = DoneG h1 w (inl (Some (l0 :: lits))) 0 -> argv <> [] -> l0 <> 5%Z ->
  files_wf (disk_files (w_disk w)) -> nth_error (w_disk w) n = Some (nm, bytes) -> carries (l0 :: lits) nm ->
  (forall n' nm' bytes', nth_error (w_disk w) n' = Some (nm', bytes') -> carries (l0 :: lits) nm' -> n' = n) ->
  runG rec value ip h w (bi_import sp argv) = runG rec value ip h1 w (load_from_path sp (46 :: 47 :: nm)%N).
Proof. exact (ImportDisk.import_the_single_match rec sp argv ip h w h1 l0 lits n nm bytes). Qed.
Print Assumptions import_the_single_match.

(* when none does: the not-found error at the call, nothing changes *)
Theorem import_no_match rec sp argv ip h w h1 l0 lits :
  runG rec (option (list Z)) ip h w (peek_lits argv) = DoneG h1 w (inl (Some (l0 :: lits))) 0 -> argv <> [] -> l0 <> 5%Z ->
  (forall n nm bytes, nth_error (w_disk w) n = Some (nm, bytes) -> ~ carries (l0 :: lits) nm) ->
  runG rec value ip h w (bi_import sp argv) = DoneG h1 w (inr (mkerr c_notfound sp)) 0.
Proof. exact (ImportDisk.import_no_match rec sp argv ip h w h1 l0 lits). Qed.
Print Assumptions import_no_match.

(* when two do: the import error, nothing changes *)
Theorem import_two_matches rec sp argv ip h w h1 l0 lits n1 nm1 bytes1 n2 nm2 bytes2 :
  runG rec (option (list Z)) ip h w (peek_lits argv) = DoneG h1 w (inl (Some (l0 :: lits))) 0 -> argv <> [] -> l0 <> 5%Z ->
  files_wf (disk_files (w_disk w)) -> n1 <> n2 ->
  nth_error (w_disk w) n1 = Some (nm1, bytes1) -> carries (l0 :: lits) nm1 -> nth_error (w_disk w) n2 = Some (nm2, bytes2) -> carries (l0 :: lits) nm2 ->
  runG rec value ip h w (bi_import sp argv) = DoneG h1 w (inr (mkerr c_import sp)) 0.
Proof. exact (ImportDisk.import_two_matches rec sp argv ip h w h1 l0 lits n1 nm1 bytes1 n2 nm2 bytes2). Qed.
Print Assumptions import_two_matches.

(* the whole built-in on literal words (not the built-in marker 5): nothing is evaluated, the tree is searched, the file found goes to the same loader as a path string *)
Theorem import_by_literals rec sp argv ip h w h1 l0 lits p id nm bytes :
  runG rec (option (list Z)) ip h w (peek_lits argv) = DoneG h1 w (inl (Some (l0 :: lits))) 0 -> argv <> [] -> l0 <> 5%Z ->
  search (l0 :: lits) (tree_of_disk (w_disk w)) = Found p id -> nth_error (w_disk w) (N.to_nat id) = Some (nm, bytes) ->
  runG rec value ip h w (bi_import sp argv) = runG rec value ip h1 w (load_from_path sp (46 :: 47 :: nm)%N).
Proof. exact (ImportMain.import_by_literals rec sp argv ip h w h1 l0 lits p id nm bytes). Qed.
Print Assumptions import_by_literals.

Theorem import_by_literals_not_found rec sp argv ip h w h1 l0 lits :
  runG rec (option (list Z)) ip h w (peek_lits argv) = DoneG h1 w (inl (Some (l0 :: lits))) 0 -> argv <> [] -> l0 <> 5%Z ->
  search (l0 :: lits) (tree_of_disk (w_disk w)) = NotFound ->
  runG rec value ip h w (bi_import sp argv) = DoneG h1 w (inr (mkerr c_notfound sp)) 0.
Proof. exact (ImportMain.import_by_literals_not_found rec sp argv ip h w h1 l0 lits). Qed.
Print Assumptions import_by_literals_not_found.

Theorem import_by_literals_ambiguous rec sp argv ip h w h1 l0 lits :
  runG rec (option (list Z)) ip h w (peek_lits argv) = DoneG h1 w (inl (Some (l0 :: lits))) 0 -> argv <> [] -> l0 <> 5%Z ->
  search (l0 :: lits) (tree_of_disk (w_disk w)) = Ambiguous ->
  runG rec value ip h w (bi_import sp argv) = DoneG h1 w (inr (mkerr c_import sp)) 0.
Proof. exact (ImportMain.import_by_literals_ambiguous rec sp argv ip h w h1 l0 lits). Qed.
Print Assumptions import_by_literals_ambiguous.

(* first import of a file holding one expression: ONE new delayed expression is registered under the FILE and handed back unevaluated; input, output, files and handles unchanged *)
Theorem load_fresh (rec : list positive -> heap -> world -> task -> out) sp path ip h w id bytes text a :
  index_of (w_disk w) (strip_dot path) 0 = Some (id, bytes) -> mod_get (w_mods w) id = None ->
  text_of bytes = Some text -> Lex.parse_text text = inl [a] ->
  runG rec value ip h w (load_from_path sp path) = DoneG (fst (alloc h a empty_env)) (register w id (next_t h)) (inl (VThunk (next_t h))) 0.
Proof. exact (ImportMain.load_fresh rec sp path ip h w id bytes text a). Qed.
Print Assumptions load_fresh.

(* what was allocated is the file's own expression in the EMPTY environment: nothing of the importing expression's surroundings is in it (context-free), and like every delayed expression it is evaluated at most once (C13: evaluated_at_most_once) *)
Theorem module_is_the_files_expression h a :
  get (fst (alloc h a empty_env)) (next_t h) = Some (module_cell a).
Proof. exact (ImportMain.module_is_the_files_expression h a). Qed.
Print Assumptions module_is_the_files_expression.

(* a later import of the same file by ANY spelling of its path: the registered object; nothing read, parsed or allocated *)
Theorem load_registered (rec : list positive -> heap -> world -> task -> out) sp path ip h w id bytes t :
  index_of (w_disk w) (strip_dot path) 0 = Some (id, bytes) -> mod_get (w_mods w) id = Some t ->
  runG rec value ip h w (load_from_path sp path) = DoneG h w (inl (VThunk t)) 0.
Proof. exact (ImportMain.load_registered rec sp path ip h w id bytes t). Qed.
Print Assumptions load_registered.

(* both together: after the first import, an import by a path naming the same file - from any heap - yields that very object *)
Theorem module_loaded_once (rec : list positive -> heap -> world -> task -> out) sp1 sp2 p1 p2 ip1 ip2 h h2 w id bytes text a :
  index_of (w_disk w) (strip_dot p1) 0 = Some (id, bytes) -> mod_get (w_mods w) id = None -> text_of bytes = Some text -> Lex.parse_text text = inl [a] ->
  strip_dot p2 = strip_dot p1 ->
  exists w1 t, runG rec value ip1 h w (load_from_path sp1 p1) = DoneG (fst (alloc h a empty_env)) w1 (inl (VThunk t)) 0 /\
               runG rec value ip2 h2 w1 (load_from_path sp2 p2) = DoneG h2 w1 (inl (VThunk t)) 0.
Proof. exact (ImportMain.module_loaded_once rec sp1 sp2 p1 p2 ip1 ip2 h h2 w id bytes text a). Qed.
Print Assumptions module_loaded_once.

Theorem load_empty_module (rec : list positive -> heap -> world -> task -> out) sp path ip h w id bytes text :
  index_of (w_disk w) (strip_dot path) 0 = Some (id, bytes) -> mod_get (w_mods w) id = None -> text_of bytes = Some text -> Lex.parse_text text = inl [] ->
  runG rec value ip h w (load_from_path sp path) = DoneG h w (inr (mkerr c_value sp)) 0.
Proof. exact (ImportMain.load_empty_module rec sp path ip h w id bytes text). Qed.
Print Assumptions load_empty_module.

Theorem load_several_expressions (rec : list positive -> heap -> world -> task -> out) sp path ip h w id bytes text a b r :
  index_of (w_disk w) (strip_dot path) 0 = Some (id, bytes) -> mod_get (w_mods w) id = None -> text_of bytes = Some text -> Lex.parse_text text = inl (a :: b :: r) ->
  runG rec value ip h w (load_from_path sp path) = DoneG h w (inr (mkerr c_value (ast_span a))) 0.
Proof. exact (ImportMain.load_several_expressions rec sp path ip h w id bytes text a b r). Qed.
Print Assumptions load_several_expressions.

Theorem load_syntax_error (rec : list positive -> heap -> world -> task -> out) sp path ip h w id bytes text pe psp :
  index_of (w_disk w) (strip_dot path) 0 = Some (id, bytes) -> mod_get (w_mods w) id = None -> text_of bytes = Some text -> Lex.parse_text text = inr (pe, psp) ->
  runG rec value ip h w (load_from_path sp path) = DoneG h w (inr (mkerr c_syntax psp)) 0.
Proof. exact (ImportMain.load_syntax_error rec sp path ip h w id bytes text pe psp). Qed.
Print Assumptions load_syntax_error.

Theorem load_not_utf8 (rec : list positive -> heap -> world -> task -> out) sp path ip h w id bytes :
  index_of (w_disk w) (strip_dot path) 0 = Some (id, bytes) -> mod_get (w_mods w) id = None -> text_of bytes = None ->
  runG rec value ip h w (load_from_path sp path) = DoneG h w (inr (mkerr c_import sp)) 0.
Proof. exact (ImportMain.load_not_utf8 rec sp path ip h w id bytes). Qed.
Print Assumptions load_not_utf8.

(* bad modules: a language-level error and NOTHING changes, the registry included *)
Theorem load_no_such_file (rec : list positive -> heap -> world -> task -> out) sp path ip h w :
  index_of (w_disk w) (strip_dot path) 0 = None ->
  runG rec value ip h w (load_from_path sp path) = DoneG h w (inr (os_error sp (open_errno (w_disk w) (strip_dot path)))) 0.
Proof. exact (ImportMain.load_no_such_file rec sp path ip h w). Qed.
Print Assumptions load_no_such_file.

Theorem search_is_classify  :
  forall lits t, search lits t = classify (all_paths lits t).
Proof. exact (ImportProofs.search_is_classify ). Qed.
Print Assumptions search_is_classify.

Theorem found_is_unique lits t p id :
  search lits t = Found p id <-> all_paths lits t = [(p, id)].
Proof. exact (ImportProofs.found_is_unique lits t p id). Qed.
Print Assumptions found_is_unique.

Theorem not_found_iff lits t :
  search lits t = NotFound <-> all_paths lits t = [].
Proof. exact (ImportProofs.not_found_iff lits t). Qed.
Print Assumptions not_found_iff.

Theorem ambiguous_iff lits t :
  search lits t = Ambiguous <-> (2 <= length (all_paths lits t))%nat.
Proof. exact (ImportProofs.ambiguous_iff lits t). Qed.
Print Assumptions ambiguous_iff.

Theorem paths_sound  :
  forall lits t p id, In (p, id) (all_paths lits t) -> resolves t p id /\ map name_lit p = map Some lits.
Proof. exact (ImportProofs.paths_sound ). Qed.
Print Assumptions paths_sound.

Theorem listing_order_irrelevant cur sub es es' :
  Permutation es es' -> search (cur :: sub) (TDir es) = search (cur :: sub) (TDir es').
Proof. exact (ImportProofs.listing_order_irrelevant cur sub es es'). Qed.
Print Assumptions listing_order_irrelevant.

(* the registry as a state machine keyed by the FILE: once a route has produced the module object of a file, every later import by any route denoting the same file - after any imports in between - yields that same object, creates nothing and leaves the registry unchanged *)
Theorem import_once (nexprs : N -> nat) fs s r1 o fr between r2 id :
  denotes fs r1 = Some id -> denotes fs r2 = Some id -> (import nexprs) fs s r1 = (fst ((import nexprs) fs s r1), LObject o fr) ->
  let s2 := (imports nexprs) fs (fst ((import nexprs) fs s r1)) between in
  (import nexprs) fs s2 r2 = (s2, LObject o false).
Proof. exact (ImpLoad.import_once nexprs fs s r1 o fr between r2 id). Qed.
Print Assumptions import_once.

Theorem registry_grows (nexprs : N -> nat) fs rs :
  forall s k o, lookup (registry s) k = Some o -> lookup (registry ((imports nexprs) fs s rs)) k = Some o.
Proof. exact (ImpLoad.registry_grows nexprs fs rs). Qed.
Print Assumptions registry_grows.

Theorem distinct_files_distinct_objects (nexprs : N -> nat) s :
  wf s -> (forall a b o, a <> b -> lookup (registry s) a = Some o -> lookup (registry s) b = Some o -> False) ->
  forall id, let s' := fst ((load nexprs) s id) in forall a b o, a <> b -> lookup (registry s') a = Some o -> lookup (registry s') b = Some o -> False.
Proof. exact (ImpLoad.distinct_files_distinct_objects nexprs s). Qed.
Print Assumptions distinct_files_distinct_objects.

(* not found / ambiguous / empty / several expressions: no object, registry unchanged *)
Theorem bad_modules_change_nothing (nexprs : N -> nat) fs s r res :
  (import nexprs) fs s r = (fst ((import nexprs) fs s r), res) -> (forall o fr, res <> LObject o fr) -> fst ((import nexprs) fs s r) = s.
Proof. exact (ImpLoad.bad_modules_change_nothing nexprs fs s r res). Qed.
Print Assumptions bad_modules_change_nothing.

