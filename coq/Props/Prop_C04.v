(* Property C04: every failure is a language-level exception, never a host-runtime crash
   ONLY statements: each theorem is closed by `exact` of a lemma proved elsewhere and followed by Print Assumptions. *)
From Coq Require Import ZArith NArith List Bool Lia Permutation FMapPositive String.
Import ListNotations.
Require Import Base Strings Builtins Interp Machine Events Progress Num NumProofs Lex ParseProofs LinkKinds LinkExcept Spec HeapFacts Refine1 Refine2 Refine3 Refine4 RunG Exc LinkErr.

Theorem never_stuck fuel prog stdin k :
  fst (run_main fuel prog stdin) <> OStuck k.
Proof. exact (Progress.never_stuck fuel prog stdin k). Qed.
Print Assumptions never_stuck.

(* every run of the model ends as a value, a language-level exception value, the explicit stack limit, or is still running *)
Theorem outcomes_exhaustive fuel prog stdin :
  match fst (run_main fuel prog stdin) with ODone _ | OErr _ | OLimit | OFuel => True | OStuck _ => False end.
Proof. exact (Progress.outcomes_exhaustive fuel prog stdin). Qed.
Print Assumptions outcomes_exhaustive.

(* the parser cannot fail at host level on the words the tokenizer produces *)
Theorem parse_total t stk :
  tok_wf t = true -> parse_token t stk <> inr HostValueError.
Proof. exact (ParseProofs.parse_total t stk). Qed.
Print Assumptions parse_total.

(* REGENERATED on every run: every type expression a built-in hands to check_type / match_arguments / is_type, in source order, is the audited one - the kinds each model built-in accepts were written against this list *)
Theorem type_checks_audited  :
  GenKinds.gen_type_checks = audited_type_checks.
Proof. exact (LinkKinds.type_checks_audited ). Qed.
Print Assumptions type_checks_audited.

(* likewise every arity / arity list handed to check_arity / check_min_arity / check_max_arity / match_arguments / match_defaults *)
Theorem arity_checks_audited  :
  GenKinds.gen_arity_checks = audited_arity_checks.
Proof. exact (LinkKinds.arity_checks_audited ). Qed.
Print Assumptions arity_checks_audited.

(* and every except clause of the evaluator, the parser, the built-ins and the modules - which host exceptions each guarded call may raise and what they are turned into - REGENERATED and compared with the reviewed list: a narrowed, widened, new or removed clause breaks it *)
Theorem except_clauses_audited  :
  GenKinds.gen_except_clauses = audited_except_clauses.
Proof. exact (LinkExcept.except_clauses_audited ). Qed.
Print Assumptions except_clauses_audited.

Theorem strict_is_the_source_union v :
  in_union GenKinds.gen_StrictValue v = negb (is_delayed v).
Proof. exact (LinkKinds.strict_is_the_source_union v). Qed.
Print Assumptions strict_is_the_source_union.

Theorem non_io_is_the_source_union v :
  in_union GenKinds.gen_NonIOStrictValue v = negb (is_delayed v) && negb (is_io v).
Proof. exact (LinkKinds.non_io_is_the_source_union v). Qed.
Print Assumptions non_io_is_the_source_union.

(* a failure raised by a built-in IS an exception value carrying its class code list and the source location of the call *)
Theorem builtin_error_contents code sp :
  e_vals (mkerr code sp) = [VInt 5; VInt code] /\ e_spans (mkerr code sp) = [sp].
Proof. exact (Exc.builtin_error_contents code sp). Qed.
Print Assumptions builtin_error_contents.

(* ... and interceptable: the handler of ㅅㄷ receives exactly that exception value *)
Theorem try_handler_gets_it (rec : list positive -> heap -> world -> task -> out) sp a hd ip h w h' w' e d :
  rec ip h w (TComp (proc_body (PDeep a))) = Done h' w' (inr e) d -> unmodelled e = false ->
  (runG rec) value ip h w (bi_try sp [a; hd]) =
  upddG ((runG rec) value ip h' w' (f <- functional sp hd false ;; call (PApply f sp [VErr (e_spans e) (e_vals e)]))) d.
Proof. exact (Exc.try_handler_gets_it rec sp a hd ip h w h' w' e d). Qed.
Print Assumptions try_handler_gets_it.

(* ... from any depth: a failure inside a call propagates as the same exception value *)
Theorem raise_propagates_call (rec : list positive -> heap -> world -> task -> out) A (k:value -> Comp A) ip h w p h' w' e d :
  rec ip h w (TComp (proc_body p)) = Done h' w' (inr e) d ->
  (runG rec) A ip h w (Call p k) = DoneG h' w' (inr e) d.
Proof. exact (Exc.raise_propagates_call rec A k ip h w p h' w' e d). Qed.
Print Assumptions raise_propagates_call.

