(* Property C04: every failure is a language-level exception, never a host-runtime crash
   ONLY statements: each theorem is closed by `exact` of a lemma proved elsewhere and followed by Print Assumptions. *)
From Coq Require Import ZArith NArith List Bool Lia Permutation FMapPositive.
Import ListNotations.
Require Import Base Strings Builtins Interp Machine Events Progress Num NumProofs Lex ParseProofs LinkErr.

Theorem never_stuck fuel prog stdin k :
  fst (run_main fuel prog stdin) <> OStuck k.
Proof. exact (Progress.never_stuck fuel prog stdin k). Qed.
Print Assumptions never_stuck.

(* every run of the model ends as a value, a language-level exception value, the explicit stack limit, or is still running *)
Theorem outcomes_exhaustive fuel prog stdin :
  match fst (run_main fuel prog stdin) with ODone _ | OErr _ | OLimit | OFuel => True | OStuck _ => False end.
Proof. exact (Progress.outcomes_exhaustive fuel prog stdin). Qed.
Print Assumptions outcomes_exhaustive.

(* the parser cannot fail at host level on the words the tokenizer produces *)
Theorem parse_total t stk :
  tok_wf t = true -> parse_token t stk <> inr HostValueError.
Proof. exact (ParseProofs.parse_total t stk). Qed.
Print Assumptions parse_total.

