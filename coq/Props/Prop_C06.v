(* Property C06: equality is a real equivalence on values and dictionaries key by it
   ONLY statements: each theorem is closed by `exact` of a lemma proved elsewhere and followed by Print Assumptions. *)
From Coq Require Import ZArith NArith List Bool Lia Permutation SpecFloat.
Import ListNotations.
Require Import Base Float Strings Builtins Interp Machine Spec Refine2 RunG EqLink DictLink Eq Order Complex.
Open Scope Z_scope.
(* the built-in ㄴ on two arguments is veqb on their key forms - the relation the theorems below are about *)
Theorem eq_two (rec : list positive -> heap -> world -> task -> out) (key : value -> value) (KEYS : forall ip h w a, rec ip h w (TComp (proc_body (PKey a))) = Done h w (inl (key a)) 0) sp a b ip h w :
  runG rec value ip h w (bi_eq sp [a; b]) = DoneG h w (inl (VBool (veqb (key a) (key b)))) 0.
Proof. exact (EqLink.eq_two rec key KEYS sp a b ip h w). Qed.
Print Assumptions eq_two.

(* with more arguments: every later key equals the first *)
Theorem eq_many (rec : list positive -> heap -> world -> task -> out) (key : value -> value) (KEYS : forall ip h w a, rec ip h w (TComp (proc_body (PKey a))) = Done h w (inl (key a)) 0) sp a l ip h w :
  runG rec value ip h w (bi_eq sp (a :: l)) = DoneG h w (inl (VBool (forallb (fun b => veqb (key a) (key b)) l))) 0.
Proof. exact (EqLink.eq_many rec key KEYS sp a l ip h w). Qed.
Print Assumptions eq_many.

(* ㅅㅈ inside the evaluator: the pairs inserted left to right under the key forms of the keys (dict_insert: a later equal key replaces the earlier entry) *)
Theorem dict_construction (rec : list positive -> heap -> world -> task -> out) (deep key : value -> value) (DEEP : forall ip h w a, rec ip h w (TComp (proc_body (PDeep a))) = Done h w (inl (deep a)) 0) (KEYS : forall ip h w a, rec ip h w (TComp (proc_body (PKey a))) = Done h w (inl (key a)) 0) sp argv ip h w :
  Nat.odd (length argv) = false ->
  runG rec value ip h w (bi_dict sp argv) = DoneG h w (inl (VDict (zipd (map key (map deep (evens argv))) (odds argv) []))) 0.
Proof. exact (DictLink.dict_construction rec deep key DEEP KEYS sp argv ip h w). Qed.
Print Assumptions dict_construction.

Theorem dict_construction_odd (rec : list positive -> heap -> world -> task -> out) sp argv ip h w :
  Nat.odd (length argv) = true -> runG rec value ip h w (bi_dict sp argv) = DoneG h w (inr (mkerr c_value sp)) 0.
Proof. exact (DictLink.dict_construction_odd rec sp argv ip h w). Qed.
Print Assumptions dict_construction_odd.

(* ㄷ on dictionaries: the entries of every operand, in order, inserted into one dictionary *)
Theorem dict_merge rec sp d1 d2 ip h w :
  runG rec value ip h w (bi_add sp [VDict d1; VDict d2]) =
  DoneG h w (inl (VDict (fold_left (fun a kv => dict_insert a (fst kv) (snd kv)) d2 (fold_left (fun a kv => dict_insert a (fst kv) (snd kv)) d1 [])))) 0.
Proof. exact (DictLink.dict_merge rec sp d1 d2 ip h w). Qed.
Print Assumptions dict_merge.

Theorem veqb_sym  :
  forall a b, veqb a b = veqb b a.
Proof. exact (Eq.veqb_sym ). Qed.
Print Assumptions veqb_sym.

Theorem veqb_trans  :
  forall a b c, veqb a b = true -> veqb b c = true -> veqb a c = true.
Proof. exact (Eq.veqb_trans ). Qed.
Print Assumptions veqb_trans.

Theorem veqb_refl  :
  forall a, nan_free a -> veqb a a = true.
Proof. exact (Eq.veqb_refl ). Qed.
Print Assumptions veqb_refl.

Theorem nan_irreflexive b :
  veqb (VFloat S754_nan) b = false /\ veqb b (VFloat S754_nan) = false.
Proof. exact (Eq.nan_irreflexive b). Qed.
Print Assumptions nan_irreflexive.

Theorem kinds_differ a b :
  veqb a b = true -> kclass a = kclass b.
Proof. exact (Eq.kinds_differ a b). Qed.
Print Assumptions kinds_differ.

(* numbers are equal across integer / real exactly when numerically equal: ㄴ on finite reals is equality of the exact values (value * 2^1074 as integers) *)
Theorem eq_is_value_equality a b :
  finite_real a -> finite_real b -> (num_eq a b = true <-> sval a = sval b).
Proof. exact (Order.eq_is_value_equality a b). Qed.
Print Assumptions eq_is_value_equality.

Theorem int_eq_exact x y :
  num_eq (VInt x) (VInt y) = true <-> x = y.
Proof. exact (Eq.int_eq_exact x y). Qed.
Print Assumptions int_eq_exact.

Theorem lookup_insert d k v k2 :
  dict_lookup (dict_insert d k v) k2 = if veqb k k2 then Some v else dict_lookup d k2.
Proof. exact (Eq.lookup_insert d k v k2). Qed.
Print Assumptions lookup_insert.

Theorem dict_lookup_iff kvs k :
  dict_lookup (build kvs) k = last_equal kvs k None.
Proof. exact (Eq.dict_lookup_iff kvs k). Qed.
Print Assumptions dict_lookup_iff.

Theorem dict_miss_iff kvs k :
  dict_lookup (build kvs) k = None <-> Forall (fun kv => veqb (fst kv) k = false) kvs.
Proof. exact (Eq.dict_miss_iff kvs k). Qed.
Print Assumptions dict_miss_iff.

Theorem merge_spec ds k :
  dict_lookup (fold_left (fun acc d => fold_left (fun a kv => dict_insert a (fst kv) (snd kv)) d acc) ds []) k = last_equal (concat ds) k None.
Proof. exact (Eq.merge_spec ds k). Qed.
Print Assumptions merge_spec.

(* complex numbers: equal exactly when real and imaginary parts are *)
Theorem complex_eq_componentwise r i r' i' :
  num_eq (VComplex r i) (VComplex r' i') = num_eq (VFloat r) (VFloat r') && num_eq (VFloat i) (VFloat i').
Proof. exact (Complex.complex_eq_componentwise r i r' i'). Qed.
Print Assumptions complex_eq_componentwise.

(* a complex number equals an integer or a real exactly when its imaginary part is zero and its real part equals it *)
Theorem complex_eq_real r i x :
  is_real x = true ->
  num_eq (VComplex r i) x = num_eq (VFloat r) x && f_is_zero i.
Proof. exact (Complex.complex_eq_real r i x). Qed.
Print Assumptions complex_eq_real.

Theorem complex_never_equals_other_kinds r i b :
  numeric b = false -> veqb (VComplex r i) b = false /\ veqb b (VComplex r i) = false.
Proof. exact (Complex.complex_never_equals_other_kinds r i b). Qed.
Print Assumptions complex_never_equals_other_kinds.

