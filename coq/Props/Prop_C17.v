(* Property C17: bitwise ops are infinite two's complement; the five roundings are exact
   ONLY statements: each theorem is closed by `exact` of a lemma proved elsewhere and followed by Print Assumptions. *)
From Coq Require Import ZArith NArith List Bool Lia Permutation SpecFloat.
Import ListNotations.
Require Import Base Strings Builtins Interp Machine Spec RunG Codec Bits Float Refine2 RoundLink RoundProofs LinkBits.
Open Scope Z_scope.
Theorem and_bits x y i :
  Z.testbit (bw 0 x y) i = Z.testbit x i && Z.testbit y i.
Proof. exact (Bits.and_bits x y i). Qed.
Print Assumptions and_bits.

Theorem or_bits x y i :
  Z.testbit (bw 2 x y) i = Z.testbit x i || Z.testbit y i.
Proof. exact (Bits.or_bits x y i). Qed.
Print Assumptions or_bits.

Theorem xor_bits x y i :
  Z.testbit (bw 5 x y) i = xorb (Z.testbit x i) (Z.testbit y i).
Proof. exact (Bits.xor_bits x y i). Qed.
Print Assumptions xor_bits.

Theorem not_bits x i :
  0 <= i -> Z.testbit (Z.lnot x) i = negb (Z.testbit x i).
Proof. exact (Bits.not_bits x i). Qed.
Print Assumptions not_bits.

Theorem not_is_minus x :
  Z.lnot x = - x - 1.
Proof. exact (Bits.not_is_minus x). Qed.
Print Assumptions not_is_minus.

Theorem shift_left_bits x n i :
  0 <= n -> 0 <= i -> Z.testbit (bw 7 x n) i = Z.testbit x (i - n).
Proof. exact (Bits.shift_left_bits x n i). Qed.
Print Assumptions shift_left_bits.

Theorem shift_right_bits x n i :
  n < 0 -> 0 <= i -> Z.testbit (bw 7 x n) i = Z.testbit x (i - n).
Proof. exact (Bits.shift_right_bits x n i). Qed.
Print Assumptions shift_right_bits.

Theorem shift_left_value x n :
  0 <= n -> bw 7 x n = x * 2 ^ n.
Proof. exact (Bits.shift_left_value x n). Qed.
Print Assumptions shift_left_value.

Theorem shift_right_value x n :
  n < 0 -> bw 7 x n = x / 2 ^ (- n).
Proof. exact (Bits.shift_right_value x n). Qed.
Print Assumptions shift_right_value.

Theorem bitwise_module_is_bw (rec : list positive -> heap -> world -> task -> out) k x y sp ip h w :
  In k [0; 2; 5; 7] ->
  runG rec value ip h w (module_body [5; m_bitwise; k] sp [VInt x; VInt y]) = DoneG h w (inl (VInt (bw k x y))) 0.
Proof. exact (Bits.bitwise_module_is_bw rec k x y sp ip h w). Qed.
Print Assumptions bitwise_module_is_bw.

Theorem bitwise_module_not (rec : list positive -> heap -> world -> task -> out) x sp ip h w :
  runG rec value ip h w (module_body [5; m_bitwise; 4] sp [VInt x]) = DoneG h w (inl (VInt (Z.lnot x))) 0.
Proof. exact (Bits.bitwise_module_not rec x sp ip h w). Qed.
Print Assumptions bitwise_module_not.

(* the module functions ㅂ ㅅ ㅂㄹ k on an evaluated real ARE Float.rounding k, characterised below *)
Theorem rounding_module_on_real (rec : list positive -> heap -> world -> task -> out) k f n sp ip h w :
  rounding k f = Some n ->
  runG rec value ip h w (module_body [5; 6; -29; k] sp [VFloat f]) = DoneG h w (inl (VInt n)) 0.
Proof. exact (RoundLink.rounding_module_on_real rec k f n sp ip h w). Qed.
Print Assumptions rounding_module_on_real.

Theorem rounding_module_on_integer (rec : list positive -> heap -> world -> task -> out) k n sp ip h w :
  runG rec value ip h w (module_body [5; 6; -29; k] sp [VInt n]) = DoneG h w (inl (VInt n)) 0.
Proof. exact (RoundLink.rounding_module_on_integer rec k n sp ip h w). Qed.
Print Assumptions rounding_module_on_integer.

Theorem rounding_module_not_finite (rec : list positive -> heap -> world -> task -> out) k f sp ip h w :
  rounding k f = None ->
  runG rec value ip h w (module_body [5; 6; -29; k] sp [VFloat f]) = DoneG h w (inr (mkerr c_arith sp)) 0.
Proof. exact (RoundLink.rounding_module_not_finite rec k f sp ip h w). Qed.
Print Assumptions rounding_module_not_finite.

(* the five roundings of the model return the unique integer their direction defines, for every finite double (mantissa of any size), stated in integer arithmetic with k = 2^(-e) *)
Theorem rounding_floor s m e n :
  e < 0 -> rounding 1 (S754_finite s m e) = Some n -> n * 2 ^ (- e) <= sgn_m s m < (n + 1) * 2 ^ (- e).
Proof. exact (RoundProofs.rounding_floor s m e n). Qed.
Print Assumptions rounding_floor.

Theorem rounding_ceil s m e n :
  e < 0 -> rounding 3 (S754_finite s m e) = Some n -> (n - 1) * 2 ^ (- e) < sgn_m s m <= n * 2 ^ (- e).
Proof. exact (RoundProofs.rounding_ceil s m e n). Qed.
Print Assumptions rounding_ceil.

Theorem rounding_trunc s m e n :
  e < 0 -> rounding 0 (S754_finite s m e) = Some n ->
  Z.abs n * 2 ^ (- e) <= Zpos m < (Z.abs n + 1) * 2 ^ (- e) /\ (if s then n <= 0 else 0 <= n).
Proof. exact (RoundProofs.rounding_trunc s m e n). Qed.
Print Assumptions rounding_trunc.

Theorem rounding_away s m e n :
  e < 0 -> rounding 4 (S754_finite s m e) = Some n ->
  (Z.abs n - 1) * 2 ^ (- e) < Zpos m <= Z.abs n * 2 ^ (- e) /\ (if s then n < 0 else 0 < n).
Proof. exact (RoundProofs.rounding_away s m e n). Qed.
Print Assumptions rounding_away.

(* to nearest, ties to even *)
Theorem rounding_nearest s m e n :
  e < 0 -> rounding 2 (S754_finite s m e) = Some n ->
  Z.abs (2 * sgn_m s m - 2 * n * 2 ^ (- e)) <= 2 ^ (- e) /\ (Z.abs (2 * sgn_m s m - 2 * n * 2 ^ (- e)) = 2 ^ (- e) -> Z.even n = true).
Proof. exact (RoundProofs.rounding_nearest s m e n). Qed.
Print Assumptions rounding_nearest.

(* integral doubles (in particular everything beyond 2^53) are returned unchanged *)
Theorem rounding_integral k s m e :
  0 <= e -> rounding k (S754_finite s m e) = Some (sgn_m s m * 2 ^ e).
Proof. exact (RoundProofs.rounding_integral k s m e). Qed.
Print Assumptions rounding_integral.

(* inf / nan have no rounding *)
Theorem rounding_defined k f :
  rounding k f = None <-> (f = S754_nan \/ exists s, f = S754_infinity s).
Proof. exact (RoundProofs.rounding_defined k f). Qed.
Print Assumptions rounding_defined.

Theorem floor_unique m e n :
  0 <= m -> e < 0 -> (n * 2 ^ (- e) <= m < (n + 1) * 2 ^ (- e) <-> n = mag_floor m e).
Proof. exact (RoundProofs.floor_unique m e n). Qed.
Print Assumptions floor_unique.

Theorem ceil_unique m e n :
  e < 0 -> ((n - 1) * 2 ^ (- e) < m <= n * 2 ^ (- e) <-> n = mag_ceil m e).
Proof. exact (RoundProofs.ceil_unique m e n). Qed.
Print Assumptions ceil_unique.

(* about _shift_left REGENERATED from bitwise.py *)
Theorem shift_spec a n :
  (0 <= n -> GenBitwise.gen_shift_left a n = a * 2 ^ n) /\ (n < 0 -> GenBitwise.gen_shift_left a n = a / 2 ^ (- n)).
Proof. exact (LinkBits.shift_spec a n). Qed.
Print Assumptions shift_spec.

(* the regenerated operator table is exactly these operations *)
Theorem gen_table_is_bw k x y :
  In k [0; 2; 5; 7] -> GenBitwise.gen_bitwise_op k x y = Some (bw k x y).
Proof. exact (LinkBits.gen_table_is_bw k x y). Qed.
Print Assumptions gen_table_is_bw.

Theorem gen_table_not x y :
  GenBitwise.gen_bitwise_op 4 x y = Some (Z.lnot x).
Proof. exact (LinkBits.gen_table_not x y). Qed.
Print Assumptions gen_table_not.

Theorem gen_table_keys k x y :
  ~ In k [0; 2; 4; 5; 7] -> GenBitwise.gen_bitwise_op k x y = None.
Proof. exact (LinkBits.gen_table_keys k x y). Qed.
Print Assumptions gen_table_keys.

Theorem gen_arities  :
  GenBitwise.gen_bitwise_arity = [(0, 2%nat); (2, 2%nat); (4, 1%nat); (5, 2%nat); (7, 2%nat)].
Proof. exact (LinkBits.gen_arities ). Qed.
Print Assumptions gen_arities.

Theorem model_module_name  :
  GenBitwise.gen_bitwise_module = m_bitwise.
Proof. exact (LinkBits.model_module_name ). Qed.
Print Assumptions model_module_name.

