(* Property C16: byte codecs are inverse and bit-exact for every width, order and signedness
   ONLY statements: each theorem is closed by `exact` of a lemma proved elsewhere and followed by Print Assumptions. *)
From Coq Require Import ZArith NArith List Bool Lia Permutation.
Import ListNotations.
Require Import Base Strings Builtins Codec Interp Machine Spec RunG Bits Utf.
Open Scope Z_scope.
Theorem le_roundtrip  :
  forall w n, 0 <= n < P w -> le_value (le_bytes w n) = n.
Proof. exact (Codec.le_roundtrip ). Qed.
Print Assumptions le_roundtrip.

Theorem le_value_range  :
  forall l, Forall (fun b => (b < 256)%N) l -> 0 <= le_value l < P (length l).
Proof. exact (Codec.le_value_range ). Qed.
Print Assumptions le_value_range.

Theorem le_bytes_value  :
  forall l, Forall (fun b => (b < 256)%N) l -> le_bytes (length l) (le_value l) = l.
Proof. exact (Codec.le_bytes_value ). Qed.
Print Assumptions le_bytes_value.

Theorem int_roundtrip signed bigend w n bs :
  (0 < w)%nat -> enc signed bigend w n = Some bs -> dec signed bigend bs = n /\ length bs = w.
Proof. exact (Codec.int_roundtrip signed bigend w n bs). Qed.
Print Assumptions int_roundtrip.

Theorem enc_defined_iff signed bigend w n :
  (exists bs, enc signed bigend w n = Some bs) <-> (if signed then - (P w / 2) <= n < P w / 2 else 0 <= n < P w).
Proof. exact (Codec.enc_defined_iff signed bigend w n). Qed.
Print Assumptions enc_defined_iff.

Theorem twos_complement bigend w n bs :
  (0 < w)%nat -> n < 0 -> enc true bigend w n = Some bs -> enc false bigend w (n + P w) = Some bs.
Proof. exact (Codec.twos_complement bigend w n bs). Qed.
Print Assumptions twos_complement.

Theorem big_is_reversed_little signed w n :
  enc signed true w n = option_map (@rev N) (enc signed false w n).
Proof. exact (Codec.big_is_reversed_little signed w n). Qed.
Print Assumptions big_is_reversed_little.

Theorem bytes_roundtrip signed bigend bs :
  Forall (fun b => (b < 256)%N) bs -> (0 < length bs)%nat ->
  enc signed bigend (length bs) (dec signed bigend bs) = Some bs.
Proof. exact (Codec.bytes_roundtrip signed bigend bs). Qed.
Print Assumptions bytes_roundtrip.

Theorem codec_body_encodes (rec : list positive -> heap -> world -> task -> out) scheme w big sp n ip h wd :
  (0 < w)%nat -> In scheme [1; 2] ->
  runG rec value ip h wd (codec_body scheme (Z.of_nat w) big sp [VInt n]) =
  match enc (scheme =? 2) (match big with Some true => true | _ => false end) w n with
  | Some bs => DoneG h wd (inl (VBytes bs)) 0 | None => DoneG h wd (inr (mkerr c_value sp)) 0 end.
Proof. exact (Bits.codec_body_encodes rec scheme w big sp n ip h wd). Qed.
Print Assumptions codec_body_encodes.

Theorem codec_body_decodes (rec : list positive -> heap -> world -> task -> out) scheme w big sp bs ip h wd :
  In scheme [1; 2] ->
  runG rec value ip h wd (codec_body scheme w big sp [VBytes bs]) =
  DoneG h wd (inl (VInt (dec (scheme =? 2) (match big with Some true => true | _ => false end) bs))) 0.
Proof. exact (Bits.codec_body_decodes rec scheme w big sp bs ip h wd). Qed.
Print Assumptions codec_body_decodes.

(* UTF-8 as defined by RFC 3629 (encoder + STRICT decoder written independently of any codec): decoding the encoding of any string of scalar values gives the string back *)
Theorem utf8_roundtrip  :
  forall s, Forall scalar s -> utf8_decode (utf8_encode s) = Some s.
Proof. exact (Utf.utf8_roundtrip ). Qed.
Print Assumptions utf8_roundtrip.

Theorem utf8_bytes c :
  scalar c -> Forall (fun b => 0 <= b < 256) (enc1 c).
Proof. exact (Utf.utf8_bytes c). Qed.
Print Assumptions utf8_bytes.

Theorem utf8_injective s t :
  Forall scalar s -> Forall scalar t -> utf8_encode s = utf8_encode t -> s = t.
Proof. exact (Utf.utf8_injective s t). Qed.
Print Assumptions utf8_injective.

