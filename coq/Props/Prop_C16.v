(* Property C16: byte codecs are inverse and bit-exact for every width, order and signedness
   ONLY statements: each theorem is closed by `exact` of a lemma proved elsewhere and followed by Print Assumptions. *)
From Coq Require Import ZArith NArith List Bool Lia Permutation.
Import ListNotations.
Require Import Base Strings Builtins Codec Interp Machine Spec RunG Bits Float Refine2 Utf Utf16 StrCodec.
Open Scope Z_scope.
Import Codec.      (* enc / dec below are the integer codec's *)
Theorem le_roundtrip  :
  forall w n, 0 <= n < P w -> le_value (le_bytes w n) = n.
Proof. exact (Codec.le_roundtrip ). Qed.
Print Assumptions le_roundtrip.

Theorem le_value_range  :
  forall l, Forall (fun b => (b < 256)%N) l -> 0 <= le_value l < P (length l).
Proof. exact (Codec.le_value_range ). Qed.
Print Assumptions le_value_range.

Theorem le_bytes_value  :
  forall l, Forall (fun b => (b < 256)%N) l -> le_bytes (length l) (le_value l) = l.
Proof. exact (Codec.le_bytes_value ). Qed.
Print Assumptions le_bytes_value.

(* EVERY width - no bytes included (only 0 fits) *)
Theorem int_roundtrip signed bigend w n bs :
  enc signed bigend w n = Some bs -> dec signed bigend bs = n /\ length bs = w.
Proof. exact (Codec.int_roundtrip signed bigend w n bs). Qed.
Print Assumptions int_roundtrip.

Theorem enc_defined_iff signed bigend w n :
  (exists bs, enc signed bigend w n = Some bs) <-> (if signed then - P w <= 2 * n < P w else 0 <= n < P w).
Proof. exact (Codec.enc_defined_iff signed bigend w n). Qed.
Print Assumptions enc_defined_iff.

Theorem signed_range_halves w n :
  (0 < w)%nat -> (- P w <= 2 * n < P w <-> - (P w / 2) <= n < P w / 2).
Proof. exact (Codec.signed_range_halves w n). Qed.
Print Assumptions signed_range_halves.

Theorem width_zero_holds_zero_only signed bigend n :
  (exists bs, enc signed bigend 0 n = Some bs) <-> n = 0.
Proof. exact (Codec.width_zero_holds_zero_only signed bigend n). Qed.
Print Assumptions width_zero_holds_zero_only.

Theorem twos_complement bigend w n bs :
  n < 0 -> enc true bigend w n = Some bs -> enc false bigend w (n + P w) = Some bs.
Proof. exact (Codec.twos_complement bigend w n bs). Qed.
Print Assumptions twos_complement.

Theorem big_is_reversed_little signed w n :
  enc signed true w n = option_map (@rev N) (enc signed false w n).
Proof. exact (Codec.big_is_reversed_little signed w n). Qed.
Print Assumptions big_is_reversed_little.

Theorem bytes_roundtrip signed bigend bs :
  Forall (fun b => (b < 256)%N) bs ->
  enc signed bigend (length bs) (dec signed bigend bs) = Some bs.
Proof. exact (Codec.bytes_roundtrip signed bigend bs). Qed.
Print Assumptions bytes_roundtrip.

Theorem codec_body_encodes (rec : list positive -> heap -> world -> task -> out) scheme w big sp n ip h wd :
  In scheme [1; 2] ->
  runG rec value ip h wd (codec_body scheme (Z.of_nat w) big sp [VInt n]) =
  match enc (scheme =? 2) (match big with Some true => true | _ => false end) w n with
  | Some bs => DoneG h wd (inl (VBytes bs)) 0 | None => DoneG h wd (inr (mkerr c_value sp)) 0 end.
Proof. exact (Bits.codec_body_encodes rec scheme w big sp n ip h wd). Qed.
Print Assumptions codec_body_encodes.

Theorem codec_body_decodes (rec : list positive -> heap -> world -> task -> out) scheme w big sp bs ip h wd :
  In scheme [1; 2] ->
  runG rec value ip h wd (codec_body scheme w big sp [VBytes bs]) =
  DoneG h wd (inl (VInt (dec (scheme =? 2) (match big with Some true => true | _ => false end) bs))) 0.
Proof. exact (Bits.codec_body_decodes rec scheme w big sp bs ip h wd). Qed.
Print Assumptions codec_body_decodes.

(* STRINGS inside the evaluator: the converter of scheme 0 on an evaluated string / byte string IS the RFC encoder / strict decoder below *)
Theorem utf8_encodes (rec : list positive -> heap -> world -> task -> out) sp s ip h w :
  str_ok s -> runG rec value ip h w (codec_body 0 1 None sp [VStr s]) = DoneG h w (inl (VBytes (ns (utf8_encode (zs s))))) 0.
Proof. exact (StrCodec.utf8_encodes rec sp s ip h w). Qed.
Print Assumptions utf8_encodes.

Theorem utf16_encodes (rec : list positive -> heap -> world -> task -> out) sp s big ip h w :
  str_ok s ->
  runG rec value ip h w (codec_body 0 2 big sp [VStr s]) = DoneG h w (inl (VBytes (ns (match big with None => utf16_encode_bom (zs s) | Some b => utf16_encode b (zs s) end)))) 0.
Proof. exact (StrCodec.utf16_encodes rec sp s big ip h w). Qed.
Print Assumptions utf16_encodes.

Theorem utf32_encodes (rec : list positive -> heap -> world -> task -> out) sp s big ip h w :
  str_ok s ->
  runG rec value ip h w (codec_body 0 4 big sp [VStr s]) = DoneG h w (inl (VBytes (ns (match big with None => utf32_encode_bom (zs s) | Some b => utf32_encode b (zs s) end)))) 0.
Proof. exact (StrCodec.utf32_encodes rec sp s big ip h w). Qed.
Print Assumptions utf32_encodes.

(* a surrogate or a value above U+10FFFF has no encoding: value error *)
Theorem non_scalar_rejected (rec : list positive -> heap -> world -> task -> out) sp s width big ip h w :
  forallb scalarb (zs s) = false -> runG rec value ip h w (codec_body 0 width big sp [VStr s]) = DoneG h w (inr (mkerr c_value sp)) 0.
Proof. exact (StrCodec.non_scalar_rejected rec sp s width big ip h w). Qed.
Print Assumptions non_scalar_rejected.

Theorem utf8_decodes (rec : list positive -> heap -> world -> task -> out) sp b ip h w :
  runG rec value ip h w (codec_body 0 1 None sp [VBytes b]) =
  match utf8_decode (zs b) with Some cs => DoneG h w (inl (VStr (ns cs))) 0 | None => DoneG h w (inr (mkerr c_value sp)) 0 end.
Proof. exact (StrCodec.utf8_decodes rec sp b ip h w). Qed.
Print Assumptions utf8_decodes.

Theorem utf16_decodes (rec : list positive -> heap -> world -> task -> out) sp b big ip h w :
  runG rec value ip h w (codec_body 0 2 big sp [VBytes b]) =
  match (match big with None => utf16_decode_bom (zs b) | Some o => utf16_decode o (zs b) end) with Some cs => DoneG h w (inl (VStr (ns cs))) 0 | None => DoneG h w (inr (mkerr c_value sp)) 0 end.
Proof. exact (StrCodec.utf16_decodes rec sp b big ip h w). Qed.
Print Assumptions utf16_decodes.

Theorem utf32_decodes (rec : list positive -> heap -> world -> task -> out) sp b big ip h w :
  runG rec value ip h w (codec_body 0 4 big sp [VBytes b]) =
  match (match big with None => utf32_decode_bom (zs b) | Some o => utf32_decode o (zs b) end) with Some cs => DoneG h w (inl (VStr (ns cs))) 0 | None => DoneG h w (inr (mkerr c_value sp)) 0 end.
Proof. exact (StrCodec.utf32_decodes rec sp b big ip h w). Qed.
Print Assumptions utf32_decodes.

(* decoding what the converter encoded gives the string back, for every string of scalar values *)
Theorem utf8_roundtrip_in_the_evaluator (rec : list positive -> heap -> world -> task -> out) sp s ip h w :
  str_ok s ->
  runG rec value ip h w (codec_body 0 1 None sp [VBytes (ns (utf8_encode (zs s)))]) = DoneG h w (inl (VStr s)) 0.
Proof. exact (StrCodec.utf8_roundtrip_in_the_evaluator rec sp s ip h w). Qed.
Print Assumptions utf8_roundtrip_in_the_evaluator.

(* UTF-8 as defined by RFC 3629 (encoder + STRICT decoder written independently of any codec): decoding the encoding of any string of scalar values gives the string back *)
Theorem utf8_roundtrip  :
  forall s, Forall scalar s -> utf8_decode (utf8_encode s) = Some s.
Proof. exact (Utf.utf8_roundtrip ). Qed.
Print Assumptions utf8_roundtrip.

Theorem utf8_bytes c :
  scalar c -> Forall (fun b => 0 <= b < 256) (enc1 c).
Proof. exact (Utf.utf8_bytes c). Qed.
Print Assumptions utf8_bytes.

Theorem utf8_injective s t :
  Forall scalar s -> Forall scalar t -> utf8_encode s = utf8_encode t -> s = t.
Proof. exact (Utf.utf8_injective s t). Qed.
Print Assumptions utf8_injective.

(* UTF-16 (RFC 2781): code units with surrogate pairs, strict decoder *)
Theorem utf16_units_roundtrip  :
  forall s, Forall scalar s -> utf16_of_units (utf16_units s) = Some s.
Proof. exact (Utf16.utf16_units_roundtrip ). Qed.
Print Assumptions utf16_units_roundtrip.

(* a character outside the BMP is exactly one high + low surrogate pair *)
Theorem astral_is_a_pair c :
  0x10000 <= c < 0x110000 ->
  exists hi lo, units1 c = [hi; lo] /\ 0xD800 <= hi <= 0xDBFF /\ 0xDC00 <= lo <= 0xDFFF /\ c = 0x10000 + (hi - 0xD800) * 1024 + (lo - 0xDC00).
Proof. exact (Utf16.astral_is_a_pair c). Qed.
Print Assumptions astral_is_a_pair.

(* UTF-16 bytes in the requested byte order: decode (encode s) = s for every string of scalar values *)
Theorem utf16_roundtrip big s :
  Forall scalar s -> utf16_decode big (utf16_encode big s) = Some s.
Proof. exact (Utf16.utf16_roundtrip big s). Qed.
Print Assumptions utf16_roundtrip.

(* UTF-32 likewise (decoder rejects surrogates and values above U+10FFFF) *)
Theorem utf32_roundtrip big s :
  Forall scalar s -> utf32_decode big (utf32_encode big s) = Some s.
Proof. exact (Utf16.utf32_roundtrip big s). Qed.
Print Assumptions utf32_roundtrip.

Theorem utf16_big_is_reversed_units u :
  ser true le2 [u] = rev (ser false le2 [u]).
Proof. exact (Utf16.utf16_big_is_reversed_units u). Qed.
Print Assumptions utf16_big_is_reversed_units.

Theorem utf32_big_is_reversed_units u :
  ser true le4 [u] = rev (ser false le4 [u]).
Proof. exact (Utf16.utf32_big_is_reversed_units u). Qed.
Print Assumptions utf32_big_is_reversed_units.

Theorem utf16_rejects_lone_low u r :
  lo_sur u = true -> utf16_of_units (u :: r) = None.
Proof. exact (Utf16.utf16_rejects_lone_low u r). Qed.
Print Assumptions utf16_rejects_lone_low.

Theorem utf16_rejects_unpaired_high u r :
  hi_sur u = true -> (match r with v :: _ => lo_sur v = false | [] => True end) -> utf16_of_units (u :: r) = None.
Proof. exact (Utf16.utf16_rejects_unpaired_high u r). Qed.
Print Assumptions utf16_rejects_unpaired_high.

Theorem utf16_rejects_odd_length big a :
  de2 big [a] = None.
Proof. exact (Utf16.utf16_rejects_odd_length big a). Qed.
Print Assumptions utf16_rejects_odd_length.

Theorem utf32_rejects_non_scalar big c :
  0 <= c < 0x110000 -> scalarb c = false -> utf32_decode big (ser big le4 [c]) = None.
Proof. exact (Utf16.utf32_rejects_non_scalar big c). Qed.
Print Assumptions utf32_rejects_non_scalar.

(* no byte order requested: a byte-order mark FF FE is written, little-endian follows, and decoding honours the mark *)
Theorem utf16_bom_roundtrip s :
  Forall scalar s -> utf16_decode_bom (utf16_encode_bom s) = Some s.
Proof. exact (Utf16.utf16_bom_roundtrip s). Qed.
Print Assumptions utf16_bom_roundtrip.

Theorem utf16_bom_bytes s :
  exists r, utf16_encode_bom s = 0xFF :: 0xFE :: r /\ r = utf16_encode false s.
Proof. exact (Utf16.utf16_bom_bytes s). Qed.
Print Assumptions utf16_bom_bytes.

(* a big-endian mark is honoured when reading *)
Theorem utf16_bom_big_accepted s :
  Forall scalar s -> utf16_decode_bom (ser true le2 [bom] ++ utf16_encode true s) = Some s.
Proof. exact (Utf16.utf16_bom_big_accepted s). Qed.
Print Assumptions utf16_bom_big_accepted.

Theorem utf32_bom_roundtrip s :
  Forall scalar s -> utf32_decode_bom (utf32_encode_bom s) = Some s.
Proof. exact (Utf16.utf32_bom_roundtrip s). Qed.
Print Assumptions utf32_bom_roundtrip.

Theorem utf32_bom_big_accepted s :
  Forall scalar s -> utf32_decode_bom (ser true le4 [bom] ++ utf32_encode true s) = Some s.
Proof. exact (Utf16.utf32_bom_big_accepted s). Qed.
Print Assumptions utf32_bom_big_accepted.

