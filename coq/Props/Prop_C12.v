(* Property C12: sequence / string built-ins match the documented operations for every index
   ONLY statements: each theorem is closed by `exact` of a lemma proved elsewhere and followed by Print Assumptions. *)
From Coq Require Import ZArith NArith List Bool Lia Permutation FMapPositive.
Import ListNotations.
Require Import Base Builtins SeqProofs Strings SliceReal SliceContig Float Interp Machine Spec Refine2 RunG SeqLink SeqSpec.

Theorem join_split sep s :
  sep <> [] -> joinN sep (split_on (S (length s)) sep s []) = s.
Proof. exact (SeqProofs.join_split sep s). Qed.
Print Assumptions join_split.

Theorem join_split_chars s :
  joinN [] (map (fun c => [c]) s) = s.
Proof. exact (SeqProofs.join_split_chars s). Qed.
Print Assumptions join_split_chars.

Open Scope Z_scope.
Theorem index_range {A} (l:list A) (i:Z) :
  (exists x, py_nth l i = Some x) <-> - Z.of_nat (length l) <= i < Z.of_nat (length l).
Proof. exact (SeqProofs.index_range l i). Qed.
Print Assumptions index_range.

Theorem index_value {A} (l:list A) (i:Z) x :
  py_nth l i = Some x -> nth_error l (Z.to_nat (i mod Z.of_nat (length l))) = Some x.
Proof. exact (SeqProofs.index_value l i x). Qed.
Print Assumptions index_value.

Theorem slice_positions_pos len start stop step :
  0 <= len -> 0 < step ->
  let s := clamp len start step in let e := clamp len stop step in
  0 <= s <= len /\ 0 <= e <= len /\
  forall i, In i (slice_indices len start stop step) <-> (s <= i < e /\ (i - s) mod step = 0).
Proof. exact (SliceReal.slice_positions_pos len start stop step). Qed.
Print Assumptions slice_positions_pos.

Theorem slice_positions_neg len start stop step :
  0 <= len -> step < 0 ->
  let s := clamp len start step in let e := clamp len stop step in
  -1 <= s <= len - 1 /\ -1 <= e <= len - 1 /\
  forall i, In i (slice_indices len start stop step) <-> (e < i <= s /\ (s - i) mod (- step) = 0).
Proof. exact (SliceReal.slice_positions_neg len start stop step). Qed.
Print Assumptions slice_positions_neg.

Theorem slice_list_is_positions {A} (d:A) (l:list A) start stop step :
  step <> 0 ->
  slice_list l start stop step = map (fun i => nth (Z.to_nat i) l d) (slice_indices (Z.of_nat (length l)) start stop step)
  /\ Forall (fun i => 0 <= i < Z.of_nat (length l)) (slice_indices (Z.of_nat (length l)) start stop step).
Proof. exact (SliceReal.slice_list_is_positions d l start stop step). Qed.
Print Assumptions slice_list_is_positions.

(* STEP 1: for 0 <= a <= b <= length the slice is the contiguous segment - positions a .. b-1 in order (firstn (b - a) (skipn a l)) *)
Theorem contiguous_slice {A} (l:list A) (a b : Z) :
  0 <= a <= b -> b <= Z.of_nat (length l) ->
  slice_list l a b 1 = firstn (Z.to_nat (b - a)) (skipn (Z.to_nat a) l).
Proof. exact (SliceContig.contiguous_slice l a b). Qed.
Print Assumptions contiguous_slice.

(* the slice from 0 to the length is the sequence itself *)
Theorem full_slice_is_identity {A} (l:list A) :
  slice_list l 0 (Z.of_nat (length l)) 1 = l.
Proof. exact (SliceContig.full_slice_is_identity l). Qed.
Print Assumptions full_slice_is_identity.

(* adjacent slices tile: [a, b) followed by [b, c) is [a, c) - nothing lost, nothing twice *)
Theorem slices_tile {A} (l:list A) (a b c : Z) :
  0 <= a <= b -> b <= c -> c <= Z.of_nat (length l) ->
  slice_list l a b 1 ++ slice_list l b c 1 = slice_list l a c 1.
Proof. exact (SliceContig.slices_tile l a b c). Qed.
Print Assumptions slices_tile.

(* and [a, b) has exactly b - a elements *)
Theorem contiguous_slice_length {A} (l:list A) (a b : Z) :
  0 <= a <= b -> b <= Z.of_nat (length l) ->
  Z.of_nat (length (slice_list l a b 1)) = b - a.
Proof. exact (SliceContig.contiguous_slice_length l a b). Qed.
Print Assumptions contiguous_slice_length.

(* cutting anywhere and concatenating the two parts gives the sequence back *)
Theorem cut_and_concatenate {A} (l:list A) (k : Z) :
  0 <= k <= Z.of_nat (length l) ->
  slice_list l 0 k 1 ++ slice_list l k (Z.of_nat (length l)) 1 = l.
Proof. exact (SliceContig.cut_and_concatenate l k). Qed.
Print Assumptions cut_and_concatenate.

(* NEGATIVE POSITIONS COUNT FROM THE END, for every step and either sign: position a - length is position a *)
Theorem negative_start_counts_from_end {A} (l:list A) (a b step : Z) :
  0 <= a < Z.of_nat (length l) ->
  slice_list l (a - Z.of_nat (length l)) b step = slice_list l a b step.
Proof. exact (SliceContig.negative_start_counts_from_end l a b step). Qed.
Print Assumptions negative_start_counts_from_end.

Theorem negative_end_counts_from_end {A} (l:list A) (a b step : Z) :
  0 <= b < Z.of_nat (length l) ->
  slice_list l a (b - Z.of_nat (length l)) step = slice_list l a b step.
Proof. exact (SliceContig.negative_end_counts_from_end l a b step). Qed.
Print Assumptions negative_end_counts_from_end.

(* STEP -1 from position -1 down past the first position (-length - 1): the sequence reversed *)
Theorem reversed_slice {A} (l:list A) :
  slice_list l (-1) (- Z.of_nat (length l) - 1) (-1) = rev l.
Proof. exact (SliceContig.reversed_slice l). Qed.
Print Assumptions reversed_slice.

(* the built-ins on evaluated arguments ARE these list functions, for lists, strings (code points) and byte strings *)
Theorem len_of_list (rec : list positive -> heap -> world -> task -> out) sp l ip h w :
  runG rec value ip h w (bi_len sp [VList l]) = DoneG h w (inl (VInt (Z.of_nat (length l)))) 0.
Proof. exact (SeqLink.len_of_list rec sp l ip h w). Qed.
Print Assumptions len_of_list.

(* a string's length counts code points *)
Theorem len_of_string (rec : list positive -> heap -> world -> task -> out) sp s ip h w :
  runG rec value ip h w (bi_len sp [VStr s]) = DoneG h w (inl (VInt (Z.of_nat (length s)))) 0.
Proof. exact (SeqLink.len_of_string rec sp s ip h w). Qed.
Print Assumptions len_of_string.

Theorem len_of_bytes (rec : list positive -> heap -> world -> task -> out) sp s ip h w :
  runG rec value ip h w (bi_len sp [VBytes s]) = DoneG h w (inl (VInt (Z.of_nat (length s)))) 0.
Proof. exact (SeqLink.len_of_bytes rec sp s ip h w). Qed.
Print Assumptions len_of_bytes.

Theorem slice_of_list (rec : list positive -> heap -> world -> task -> out) sp l a b c ip h w :
  c <> 0 -> runG rec value ip h w (bi_slice sp [VList l; VInt a; VInt b; VInt c]) = DoneG h w (inl (VList (slice_list l a b c))) 0.
Proof. exact (SeqLink.slice_of_list rec sp l a b c ip h w). Qed.
Print Assumptions slice_of_list.

Theorem slice_of_string (rec : list positive -> heap -> world -> task -> out) sp s a b c ip h w :
  c <> 0 -> runG rec value ip h w (bi_slice sp [VStr s; VInt a; VInt b; VInt c]) = DoneG h w (inl (VStr (slice_list s a b c))) 0.
Proof. exact (SeqLink.slice_of_string rec sp s a b c ip h w). Qed.
Print Assumptions slice_of_string.

Theorem slice_of_bytes (rec : list positive -> heap -> world -> task -> out) sp s a b c ip h w :
  c <> 0 -> runG rec value ip h w (bi_slice sp [VBytes s; VInt a; VInt b; VInt c]) = DoneG h w (inl (VBytes (slice_list s a b c))) 0.
Proof. exact (SeqLink.slice_of_bytes rec sp s a b c ip h w). Qed.
Print Assumptions slice_of_bytes.

Theorem slice_defaults (rec : list positive -> heap -> world -> task -> out) sp l a b ip h w :
  runG rec value ip h w (bi_slice sp [VList l; VInt a]) = DoneG h w (inl (VList (slice_list l a (Z.of_nat (length l)) 1))) 0 /\
  runG rec value ip h w (bi_slice sp [VList l; VInt a; VInt b]) = DoneG h w (inl (VList (slice_list l a b 1))) 0.
Proof. exact (SeqLink.slice_defaults rec sp l a b ip h w). Qed.
Print Assumptions slice_defaults.

Theorem slice_step_zero (rec : list positive -> heap -> world -> task -> out) sp l a b ip h w :
  runG rec value ip h w (bi_slice sp [VList l; VInt a; VInt b; VInt 0]) = DoneG h w (inr (mkerr c_value sp)) 0.
Proof. exact (SeqLink.slice_step_zero rec sp l a b ip h w). Qed.
Print Assumptions slice_step_zero.

Theorem concat_lists (rec : list positive -> heap -> world -> task -> out) sp l1 l2 ip h w :
  runG rec value ip h w (bi_add sp [VList l1; VList l2]) = DoneG h w (inl (VList (l1 ++ l2))) 0.
Proof. exact (SeqLink.concat_lists rec sp l1 l2 ip h w). Qed.
Print Assumptions concat_lists.

Theorem concat_strings (rec : list positive -> heap -> world -> task -> out) sp s1 s2 ip h w :
  runG rec value ip h w (bi_add sp [VStr s1; VStr s2]) = DoneG h w (inl (VStr (s1 ++ s2))) 0.
Proof. exact (SeqLink.concat_strings rec sp s1 s2 ip h w). Qed.
Print Assumptions concat_strings.

Theorem concat_bytes (rec : list positive -> heap -> world -> task -> out) sp s1 s2 ip h w :
  runG rec value ip h w (bi_add sp [VBytes s1; VBytes s2]) = DoneG h w (inl (VBytes (s1 ++ s2))) 0.
Proof. exact (SeqLink.concat_bytes rec sp s1 s2 ip h w). Qed.
Print Assumptions concat_bytes.

Theorem split_of_string (rec : list positive -> heap -> world -> task -> out) sp s d0 d ip h w :
  runG rec value ip h w (bi_split sp [VStr s; VStr (d0 :: d)]) = DoneG h w (inl (VList (map VStr (split_on (S (length s)) (d0 :: d) s [])))) 0.
Proof. exact (SeqLink.split_of_string rec sp s d0 d ip h w). Qed.
Print Assumptions split_of_string.

Theorem split_into_characters (rec : list positive -> heap -> world -> task -> out) sp s ip h w :
  runG rec value ip h w (bi_split sp [VStr s]) = DoneG h w (inl (VList (map VStr (map (fun c => [c]) s)))) 0.
Proof. exact (SeqLink.split_into_characters rec sp s ip h w). Qed.
Print Assumptions split_into_characters.

(* so join_split is a law of ㅂㄹ / ㄱㅁ themselves *)
Theorem join_of_strings (rec : list positive -> heap -> world -> task -> out) sp p ps d ip h w :
  runG rec value ip h w (bi_join sp [VList (map VStr (p :: ps)); VStr d]) = DoneG h w (inl (VStr (joinN d (p :: ps)))) 0.
Proof. exact (SeqLink.join_of_strings rec sp p ps d ip h w). Qed.
Print Assumptions join_of_strings.

(* map applies the function once per element and collects the results in list order (for a callee that is a state-free function app) *)
Theorem map_in_order (rec : list positive -> heap -> world -> task -> out) (f : evalr) (sp : span) (app : list value -> value) (PURE : forall ip h w xs, rec ip h w (TComp (proc_body (PApply f sp xs))) = Done h w (inl (app xs)) 0)  :
  forall l ip h w, runG rec (list value) ip h w (map_call (fun x => PApply f sp [x]) l) = DoneG h w (inl (map (fun x => app [x]) l)) 0.
Proof. exact (SeqSpec.map_in_order rec f sp app PURE). Qed.
Print Assumptions map_in_order.

(* function-first fold: f(... f(f(init, x1), x2) ..., xn) *)
Theorem fold_left_assoc (rec : list positive -> heap -> world -> task -> out) (f : evalr) (sp : span) (app : list value -> value) (PURE : forall ip h w xs, rec ip h w (TComp (proc_body (PApply f sp xs))) = Done h w (inl (app xs)) 0)  :
  forall l acc ip h w,
  runG rec value ip h w (fold_loop f sp false acc l) = DoneG h w (inl (fold_left (fun a x => app [a; x]) l acc)) 0.
Proof. exact (SeqSpec.fold_left_assoc rec f sp app PURE). Qed.
Print Assumptions fold_left_assoc.

(* list-first fold (run over the reversed list): f(x1, f(x2, ... f(xn, init))) *)
Theorem fold_right_assoc (rec : list positive -> heap -> world -> task -> out) (f : evalr) (sp : span) (app : list value -> value) (PURE : forall ip h w xs, rec ip h w (TComp (proc_body (PApply f sp xs))) = Done h w (inl (app xs)) 0)  :
  forall l acc ip h w,
  runG rec value ip h w (fold_loop f sp true acc (rev l)) = DoneG h w (inl (fold_right (fun x a => app [x; a]) acc l)) 0.
Proof. exact (SeqSpec.fold_right_assoc rec f sp app PURE). Qed.
Print Assumptions fold_right_assoc.

(* filter: one application per element in list order; the kept elements are the ORIGINAL elements whose answer is True, in their original order *)
Theorem filter_in_order (rec : list positive -> heap -> world -> task -> out) (f : evalr) (sp : span) (app : list value -> value) (PURE : forall ip h w xs, rec ip h w (TComp (proc_body (PApply f sp xs))) = Done h w (inl (app xs)) 0) l ip h w :
  Forall (fun x => is_bool (app [x]) = true) l ->
  runG rec value ip h w (filter_core f sp l) = DoneG h w (inl (VList (keep_true app l))) 0.
Proof. exact (SeqSpec.filter_in_order rec f sp app PURE l ip h w). Qed.
Print Assumptions filter_in_order.

(* an answer that is no Boolean makes the filter a type error *)
Theorem filter_needs_booleans (rec : list positive -> heap -> world -> task -> out) (f : evalr) (sp : span) (app : list value -> value) (PURE : forall ip h w xs, rec ip h w (TComp (proc_body (PApply f sp xs))) = Done h w (inl (app xs)) 0) l ip h w :
  existsb (fun x => negb (is_bool (app [x])) && negb (match app [x] with VThunk _ => true | _ => false end)) l = true ->
  Forall (fun x => match app [x] with VThunk _ => False | _ => True end) l ->
  runG rec value ip h w (filter_core f sp l) = DoneG h w (inr (mkerr c_type sp)) 0.
Proof. exact (SeqSpec.filter_needs_booleans rec f sp app PURE l ip h w). Qed.
Print Assumptions filter_needs_booleans.

(* the built-in ㅅㅂ is that core once its arguments are taken *)
Theorem bi_filter_is_core sp a fv :
  bi_filter sp [a; fv] =
  (check_arity sp 2 [2%nat] ;;; sq <- force a ;; check_type sp [sq] is_list ;;; f <- functional sp fv false ;;
   match sq with VList l => filter_core f sp l | _ => raise c_type sp end).
Proof. exact (SeqSpec.bi_filter_is_core sp a fv). Qed.
Print Assumptions bi_filter_is_core.

