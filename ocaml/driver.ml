module BZ = Z
open Model
let rec pos_of_bz (n:BZ.t) : positive =
  if BZ.equal n BZ.one then XH else if BZ.is_even n then XO (pos_of_bz (BZ.shift_right n 1)) else XI (pos_of_bz (BZ.shift_right n 1))
let z_of_bz n = if BZ.sign n = 0 then Z0 else if BZ.sign n > 0 then Zpos (pos_of_bz n) else Zneg (pos_of_bz (BZ.neg n))
let n_of_int i = if i = 0 then N0 else Npos (pos_of_bz (BZ.of_int i))
let rec bz_of_pos = function XH -> BZ.one | XO q -> BZ.shift_left (bz_of_pos q) 1 | XI q -> BZ.succ (BZ.shift_left (bz_of_pos q) 1)
let bz_of_z = function Z0 -> BZ.zero | Zpos p -> bz_of_pos p | Zneg p -> BZ.neg (bz_of_pos p)
let int_of_n = function N0 -> 0 | Npos p -> BZ.to_int (bz_of_pos p)
let rec nat_of_int n = if n = 0 then O else S (nat_of_int (n - 1))
let rec int_of_nat = function O -> 0 | S n -> 1 + int_of_nat n
let toks = ref []
let next () = match !toks with t :: r -> toks := r; t | [] -> failwith "eof"
let span () = let l = int_of_string (next ()) in let s = int_of_string (next ()) in let e = int_of_string (next ()) in ((n_of_int l, n_of_int s), n_of_int e)
let rec term () = match next () with
  | "L" -> let n = z_of_bz (BZ.of_string (next ())) in Lit (n, span ())
  | "R" -> let n = z_of_bz (BZ.of_string (next ())) in FunRef (n, span ())
  | "A" -> let a = term () in let n = z_of_bz (BZ.of_string (next ())) in ArgRef (a, n, span ())
  | "D" -> let b = term () in FunDef (b, span ())
  | "C" -> let f = term () in let k = int_of_string (next ()) in
           let rec args i = if i = 0 then [] else let a = term () in a :: args (i - 1) in
           let l = args k in FunCall (f, l, span ())
  | t -> failwith ("bad token " ^ t)
let pspan ((l, s), e) = Printf.sprintf "%d:%d:%d" (int_of_n l) (int_of_n s) (int_of_n e)
let pstr l = String.concat "," (List.map (fun c -> string_of_int (int_of_n c)) l)
let rec ser = function
  | Lit (n, sp) -> Printf.sprintf "L %s %s" (BZ.to_string (bz_of_z n)) (sspan sp)
  | FunRef (n, sp) -> Printf.sprintf "R %s %s" (BZ.to_string (bz_of_z n)) (sspan sp)
  | ArgRef (a, n, sp) -> Printf.sprintf "A %s %s %s" (ser a) (BZ.to_string (bz_of_z n)) (sspan sp)
  | FunDef (b, sp) -> Printf.sprintf "D %s %s" (ser b) (sspan sp)
  | FunCall (f, l, sp) -> Printf.sprintf "C %s %d %s%s" (ser f) (List.length l) (String.concat "" (List.map (fun a -> ser a ^ " ") l)) (sspan sp)
and sspan ((l, s), e) = Printf.sprintf "%d %d %d" (int_of_n l) (int_of_n s) (int_of_n e)
let cps s = if s = "" then [] else List.map (fun c -> n_of_int (int_of_string c)) (String.split_on_char ',' s)
let fuel = nat_of_int 400000
let run_line line =
    let i = String.index line '\t' in
    let inp = String.sub line 0 i and prog = String.sub line (i + 1) (String.length line - i - 1) in
    if inp = "U8" then begin          (* U8 <code points> : RFC 3629 encoder of Utf.v *)
      let zs = List.map (fun c -> z_of_bz (BZ.of_string c)) (if prog = "" then [] else String.split_on_char ',' prog) in
      print_endline (String.concat "," (List.map (fun b -> BZ.to_string (bz_of_z b)) (utf8_encode zs)))
    end else if inp = "U8D" then begin  (* U8D <bytes> : strict decoder *)
      let zs = List.map (fun c -> z_of_bz (BZ.of_string c)) (if prog = "" then [] else String.split_on_char ',' prog) in
      (match utf8_decode zs with Some l -> print_endline ("OK " ^ String.concat "," (List.map (fun b -> BZ.to_string (bz_of_z b)) l)) | None -> print_endline "REJECT")
    end else if inp = "U16" || inp = "U32" || inp = "U16D" || inp = "U32D" then begin
      (* U16 / U32 <order> <code points> : the encoders of Utf16.v (order = le | be | bom);  U16D / U32D <order> <bytes> : the strict decoders *)
      let i2 = String.index prog ' ' in
      let order = String.sub prog 0 i2 and rest = String.sub prog (i2 + 1) (String.length prog - i2 - 1) in
      let zs = List.map (fun c -> z_of_bz (BZ.of_string c)) (if rest = "" then [] else String.split_on_char ',' rest) in
      let show l = String.concat "," (List.map (fun b -> BZ.to_string (bz_of_z b)) l) in
      if inp = "U16" then print_endline (show (if order = "bom" then utf16_encode_bom zs else utf16_encode (order = "be") zs))
      else if inp = "U32" then print_endline (show (if order = "bom" then utf32_encode_bom zs else utf32_encode (order = "be") zs))
      else begin
        let r = if inp = "U16D" then (if order = "bom" then utf16_decode_bom zs else utf16_decode (order = "be") zs)
                else (if order = "bom" then utf32_decode_bom zs else utf32_decode (order = "be") zs) in
        match r with Some l -> print_endline ("OK " ^ show l) | None -> print_endline "REJECT"
      end
    end else if inp = "F" then begin
      (* F <which> <sign> <mantissa> <exponent> : the model's rounding of the double  sign * mantissa * 2^exponent *)
      (match String.split_on_char ' ' prog with
       | [k; sg; m; e] ->
           let f = S754_finite ((sg = "-"), pos_of_bz (BZ.of_string m), z_of_bz (BZ.of_string e)) in
           (match rounding (z_of_bz (BZ.of_string k)) f with Some n -> print_endline (BZ.to_string (bz_of_z n)) | None -> print_endline "NONE")
       | _ -> print_endline "BADLINE")
    end else if inp = "N" then begin
      (* N <lo> <hi> : normalize every code point of the range, one line each *)
      (match String.split_on_char ' ' prog with
       | [lo; hi] -> for c = int_of_string lo to int_of_string hi do print_endline (pstr (normalize (n_of_int c))) done
       | _ -> print_endline "BADLINE")
    end else if inp = "E" then begin
      print_endline (String.concat "" (List.map (fun d -> BZ.to_string (bz_of_z d)) (encode (z_of_bz (BZ.of_string prog)))))
    end else if inp = "D" then begin
      let ds = List.init (String.length prog) (fun i -> z_of_bz (BZ.of_int (Char.code prog.[i] - 48))) in
      print_endline (BZ.to_string (bz_of_z (decode ds)))
    end else if inp = "S" then begin
      toks := List.filter (fun s -> s <> "") (String.split_on_char ' ' prog);
      (match agree (nat_of_int 2500) (term ()) [] with None -> print_endline "SKIP" | Some true -> print_endline "AGREE" | Some false -> print_endline "DIFFER")
    end else if inp = "ST" then begin
      (match parse_text (cps prog) with
       | Inl [a] -> (match agree (nat_of_int 2500) a [] with None -> print_endline "SKIP" | Some true -> print_endline "AGREE" | Some false -> print_endline "DIFFER")
       | _ -> print_endline "SKIP")
    end else if inp = "TC" then begin
      (* TC <code points of a program text> : Count.trace_main - how many delayed expressions BEGIN evaluation (each at most once: evaluated_at_most_once) *)
      (match parse_text (cps prog) with
       | Inl [a] -> (match trace_main (nat_of_int 4000) a [] with
                     | (Done (_, _, Inl _, _), l) -> Printf.printf "ok %d\n" (List.length l)
                     | (Done (_, _, Inr e, _), _) when (match e.e_vals with [VInt _; VInt n] -> BZ.equal (bz_of_z n) (BZ.of_int 999) | _ -> false) -> print_endline "SKIP"   (* a built-in outside the model *)
                     | (Done (_, _, Inr _, _), l) -> Printf.printf "err %d\n" (List.length l)
                     | _ -> print_endline "SKIP")
       | _ -> print_endline "SKIP")
    end else if inp = "CLI" then begin
      (* CLI <stdin lines | -> TAB <argument strings separated by ; or -> TAB <code points of the program text> : Cli.cli_run *)
      (match String.split_on_char '\t' prog with
       | [sin; args; text] ->
           let lines = if sin = "-" then [] else List.map cps (String.split_on_char '|' sin) in
           let argv = if args = "-" then [] else List.map cps (String.split_on_char ';' args) in
           (match parse_text (cps text) with
            | Inr (_, sp) -> print_endline ("SYNTAX @" ^ pspan sp)
            | Inl asts ->
                (match cli_run (nat_of_int 4000) asts argv lines with
                 | Done (_, w, Inl (VInt n), _) -> Printf.printf "S %s\tOUT %s\tREST %d\n" (BZ.to_string (bz_of_z n)) (pstr w.w_out) (List.length w.w_in)
                 | Done (_, _, Inr e, _) when (match e.e_vals with [VInt _; VInt n] -> BZ.equal (bz_of_z n) (BZ.of_int 999) | _ -> false) -> print_endline "UNMODELLED"
                 | Done (_, w, Inr e, _) -> Printf.printf "E %s\tOUT %s\tREST %d\n" (String.concat "," (List.map (function VInt n -> BZ.to_string (bz_of_z n) | _ -> "?") e.e_vals)) (pstr w.w_out) (List.length w.w_in)
                 | Done _ -> print_endline "V?"
                 | _ -> print_endline "FUEL"))
       | _ -> print_endline "BADLINE")
    end else if inp = "FS" then begin
      (* FS <disk: name=bytes;... or -> TAB <stdin lines | -> TAB <code points of the program text> : run_main_fs, reports the result and the final disk *)
      (match String.split_on_char '\t' prog with
       | [dk; sin; text] ->
           let bytes_of s = if s = "e" then [] else List.map (fun c -> n_of_int (int_of_string c)) (String.split_on_char '.' s) in
           let disk = if dk = "-" then [] else List.map (fun ent -> match String.split_on_char '=' ent with [nm; bs] -> (cps nm, bytes_of bs) | _ -> failwith "bad disk entry") (String.split_on_char ';' dk) in
           let lines = if sin = "-" then [] else List.map cps (String.split_on_char '|' sin) in
           (match parse_text (cps text) with
            | Inl [a] ->
                let (o, st) = run_main_fs fuel a lines disk in
                let res = match o with
                  | ODone (VStr s) -> "V " ^ pstr s
                  | ODone _ -> "V?"
                  | OErr e when (match e.e_vals with [VInt _; VInt n] -> BZ.equal (bz_of_z n) (BZ.of_int 999) | _ -> false) -> "UNMODELLED"
                  | OErr e -> "E " ^ String.concat "," (List.map (function VInt n -> BZ.to_string (bz_of_z n) | _ -> "?") e.e_vals)
                  | OLimit -> "LIMIT" | OFuel -> "FUEL" | OStuck _ -> "STUCK" in
                let show_bytes l = if l = [] then "e" else String.concat "." (List.map (fun c -> string_of_int (int_of_n c)) l) in
                Printf.printf "%s\tOUT %s\tDISK %s\n" res (pstr st.m_world.w_out) (String.concat ";" (List.map (fun (nm, bs) -> pstr nm ^ "=" ^ show_bytes bs) st.m_world.w_disk))
            | _ -> print_endline "SKIP")
       | _ -> print_endline "BADLINE")
    end else if inp = "MM" then begin
      (* MM <disk | -> TAB <stdin | -> TAB <format_io 0/1> TAB <code points of the program text> : main.main on EVERY expression of the text
         (run_main_many): the printed values joined by " | " (or the first failure), all output, input left, the events of all evaluations *)
      (match String.split_on_char '\t' prog with
       | [dk; sin; fio; text] ->
           let bytes_of s = if s = "e" then [] else List.map (fun c -> n_of_int (int_of_string c)) (String.split_on_char '.' s) in
           let disk = if dk = "-" then [] else List.map (fun ent -> match String.split_on_char '=' ent with [nm; bs] -> (cps nm, bytes_of bs) | _ -> failwith "bad disk entry") (String.split_on_char ';' dk) in
           let lines = if sin = "-" then [] else List.map cps (String.split_on_char '|' sin) in
           (match parse_text (cps text) with
            | Inr (_, sp) -> Printf.printf "E 5,-44 @%s\tOUT \tREST %d\tEV \n" (pspan sp) (List.length lines)
            | Inl asts ->
                let rs = run_main_many fuel asts lines disk (fio = "1") in
                let strs = List.filter_map (fun (o, _) -> match o with ODone (VStr s) -> Some (pstr s) | _ -> None) rs in
                let last = List.fold_left (fun _ x -> Some x) None rs in
                let res = match last with
                  | None -> "V "
                  | Some (ODone _, _) -> "V " ^ String.concat ",32,124,32," strs
                  | Some (OErr e, _) when (match e.e_vals with [VInt _; VInt n] -> BZ.equal (bz_of_z n) (BZ.of_int 999) | _ -> false) -> "UNMODELLED"
                  | Some (OErr e, _) -> "E " ^ String.concat "," (List.map (function VInt n -> BZ.to_string (bz_of_z n) | _ -> "?") e.e_vals) ^ " @" ^ String.concat ";" (List.map pspan e.e_spans)
                  | Some (OLimit, _) -> "LIMIT" | Some (OFuel, _) -> "FUEL" | Some (OStuck _, _) -> "STUCK" in
                let evs = List.concat_map (fun (_, st) -> List.rev_map (function EB (d, _, sp) -> Printf.sprintf "B%d@%s" (int_of_nat d) (pspan sp) | EA (d, _, sp, k) -> Printf.sprintf "A%d@%s#%d" (int_of_nat d) (pspan sp) (int_of_n k)) st.m_dbg.events) rs in
                let (out, rest) = match last with Some (_, st) -> (pstr st.m_world.w_out, List.length st.m_world.w_in) | None -> ("", List.length lines) in
                Printf.printf "%s\tOUT %s\tREST %d\tEV %s\n" res out rest (String.concat " " evs))
       | _ -> print_endline "BADLINE")
    end else if inp = "IM" then begin
      (* IM <disk: name=bytes;... or -> TAB <stdin lines | -> TAB <code points of the program text> : run_main_fs (programs that import module files),
         reported like a plain run: result or error with its spans, output, input left, observer events *)
      (match String.split_on_char '\t' prog with
       | [dk; sin; text] ->
           let bytes_of s = if s = "e" then [] else List.map (fun c -> n_of_int (int_of_string c)) (String.split_on_char '.' s) in
           let disk = if dk = "-" then [] else List.map (fun ent -> match String.split_on_char '=' ent with [nm; bs] -> (cps nm, bytes_of bs) | _ -> failwith "bad disk entry") (String.split_on_char ';' dk) in
           let lines = if sin = "-" then [] else List.map cps (String.split_on_char '|' sin) in
           (match parse_text (cps text) with
            | Inl [a] ->
                let (o, st) = run_main_fs fuel a lines disk in
                let res = match o with
                  | ODone (VStr s) -> "V " ^ pstr s
                  | ODone _ -> "V?"
                  | OErr e when (match e.e_vals with [VInt _; VInt n] -> BZ.equal (bz_of_z n) (BZ.of_int 999) | _ -> false) -> "UNMODELLED"
                  | OErr e -> "E " ^ String.concat "," (List.map (function VInt n -> BZ.to_string (bz_of_z n) | _ -> "?") e.e_vals) ^ " @" ^ String.concat ";" (List.map pspan e.e_spans)
                  | OLimit -> "LIMIT" | OFuel -> "FUEL" | OStuck _ -> "STUCK" in
                let evs = List.rev_map (function EB (d, _, sp) -> Printf.sprintf "B%d@%s" (int_of_nat d) (pspan sp) | EA (d, _, sp, k) -> Printf.sprintf "A%d@%s#%d" (int_of_nat d) (pspan sp) (int_of_n k)) st.m_dbg.events in
                Printf.printf "%s\tOUT %s\tREST %d\tEV %s\n" res (pstr st.m_world.w_out) (List.length st.m_world.w_in) (String.concat " " evs)
            | _ -> print_endline "SKIP")
       | _ -> print_endline "BADLINE")
    end else if inp = "P" then begin
      match parse_text (cps prog) with
      | Inl asts -> print_endline ("OK " ^ String.concat " | " (List.map ser asts))
      | Inr (_, sp) -> print_endline ("SYNTAX @" ^ pspan sp)
    end else begin
    let lines = if inp = "-" then [] else List.map (fun l -> cps l) (String.split_on_char '|' inp) in
    let prog_ast = if String.length prog > 1 && prog.[0] = 'T' && prog.[1] = ' ' then
        (match parse_text (cps (String.sub prog 2 (String.length prog - 2))) with Inl [a] -> a | _ -> failwith "not a single expression")
      else (toks := List.filter (fun s -> s <> "") (String.split_on_char ' ' prog); term ()) in
    let (o, st) = run_main fuel prog_ast lines in
    let res = match o with
      | ODone (VStr s) -> "V " ^ pstr s
      | ODone _ -> "V?"
      | OErr e when (match e.e_vals with [VInt _; VInt n] -> BZ.equal (bz_of_z n) (BZ.of_int 999) | _ -> false) -> "UNMODELLED"
      | OErr e -> "E " ^ String.concat "," (List.map (function VInt n -> BZ.to_string (bz_of_z n) | _ -> "?") e.e_vals) ^ " @" ^ String.concat ";" (List.map pspan e.e_spans)
      | OLimit -> "LIMIT" | OFuel -> "FUEL" | OStuck _ -> "STUCK" in
    let evs = List.rev_map (function EB (d, _, sp) -> Printf.sprintf "B%d@%s" (int_of_nat d) (pspan sp) | EA (d, _, sp, k) -> Printf.sprintf "A%d@%s#%d" (int_of_nat d) (pspan sp) (int_of_n k)) st.m_dbg.events in
    Printf.printf "%s\tOUT %s\tREST %d\tEV %s\n" res (pstr st.m_world.w_out) (List.length st.m_world.w_in) (String.concat " " evs)
    end
exception Timeout
let () =
  Sys.set_signal Sys.sigalrm (Sys.Signal_handle (fun _ -> Stdlib.raise Timeout));
  let tl = try float_of_string (Sys.getenv "VERIF_MODEL_TLIMIT") with _ -> 4.0 in
  try while true do
    let line = input_line stdin in
    ignore (Unix.setitimer Unix.ITIMER_REAL {Unix.it_interval = 0.0; Unix.it_value = tl});
    (try run_line line with Timeout -> print_endline "FUEL timeout" | Stack_overflow -> print_endline "FUEL stack" | Out_of_memory -> print_endline "FUEL memory");
    ignore (Unix.setitimer Unix.ITIMER_REAL {Unix.it_interval = 0.0; Unix.it_value = 0.0})
  done with End_of_file -> ()
