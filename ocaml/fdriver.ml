module BZ = Z
open Fmodel
let rec pos_of_bz (n:BZ.t) : positive =
  if BZ.equal n BZ.one then XH else if BZ.is_even n then XO (pos_of_bz (BZ.shift_right n 1)) else XI (pos_of_bz (BZ.shift_right n 1))
let z_of_bz n = if BZ.sign n = 0 then Z0 else if BZ.sign n > 0 then Zpos (pos_of_bz n) else Zneg (pos_of_bz (BZ.neg n))
let n_of_int i = if i = 0 then N0 else Npos (pos_of_bz (BZ.of_int i))
let rec bz_of_pos = function XH -> BZ.one | XO q -> BZ.shift_left (bz_of_pos q) 1 | XI q -> BZ.succ (BZ.shift_left (bz_of_pos q) 1)
let bz_of_z = function Z0 -> BZ.zero | Zpos p -> bz_of_pos p | Zneg p -> BZ.neg (bz_of_pos p)
let int_of_n = function N0 -> 0 | Npos p -> BZ.to_int (bz_of_pos p)
let bytes_of s = if s = "e" then [] else List.map (fun c -> n_of_int (int_of_string c)) (String.split_on_char '.' s)
let show_bytes l = if l = [] then "e" else String.concat "." (List.map (fun c -> string_of_int (int_of_n c)) l)
let zarg s = z_of_bz (BZ.of_string s)
let parse_op s =
  match String.split_on_char ':' s with
  | ["R"; n] -> ORead (zarg n) | ["W"; b] -> OWrite (bytes_of b) | ["T"] -> OTell
  | ["S"; n] -> OSeekSet (zarg n) | ["C"; n] -> OSeekCur (zarg n) | ["X"] -> OTrunc | ["N"; n] -> OTruncN (zarg n)
  | _ -> failwith ("bad op " ^ s)
let parse_mode = function "rb" -> MR | "wb" -> MW | "ab" -> MA | "r+b" -> MRW | "w+b" -> MWR | "a+b" -> MAR | m -> failwith ("bad mode " ^ m)
let () =
  try while true do
    let line = input_line stdin in
    match String.split_on_char '|' line with
    | ["X"; m; d; o] ->       (* the total model: K = close, refused operations answer E:<errno> *)
        let disk = if d = "-" then None else Some (bytes_of d) in
        let ops = if o = "" then [] else List.map (fun s -> if s = "K" then XClose else XOp (parse_op s)) (String.split_on_char ',' o) in
        (match xhistory (parse_mode m) disk ops with
         | None -> print_endline "NONE"
         | Some (c, rs) ->
             print_endline (show_bytes c ^ "|" ^ String.concat "," (List.map (function XVal (RBytes b) -> "B:" ^ show_bytes b | XVal (RInt n) -> "I:" ^ BZ.to_string (bz_of_z n) | XNil -> "N:" | XErr e -> "E:" ^ BZ.to_string (bz_of_z e)) rs)))
    | [m; d; o] ->
        let disk = if d = "-" then None else Some (bytes_of d) in
        let ops = if o = "" then [] else List.map parse_op (String.split_on_char ',' o) in
        (match history (parse_mode m) disk ops with
         | None -> print_endline "NONE"
         | Some (c, rs) ->
             print_endline (show_bytes c ^ "|" ^ String.concat "," (List.map (function RBytes b -> "B:" ^ show_bytes b | RInt n -> "I:" ^ BZ.to_string (bz_of_z n)) rs)))
    | _ -> print_endline "BADLINE"
  done with End_of_file -> ()
